import IstioModel.C15.Decide

/-!
# C15 - concrete histories: non-vacuity examples and the witnesses of the findings

All statements are checked by kernel evaluation of the executable model (`decide +kernel`).
The same histories are run on the real controller by `harness/corpus/C15/*.ops`.
-/
namespace IstioModel.C15

def svcA : Svc :=
  { ns := "n1", name := "a", kind := "cip", ports := [("http", 80)], sel := [("app", "a")], drain := false, td := false }

def pod (name ip : String) (ready : Bool) (labels : Labels) (sa node : String) : Pod :=
  { ns := "n1", name := name, ip := ip, phase := "R", ready := ready, deleting := false, labels := labels, sa := sa, node := node }

def ep (addr : String) (ready terminating : Bool) (podName : String) : Ep :=
  { addrs := [addr], ready := some ready, serving := some true, terminating := some terminating, target := some ("n1", podName) }

def sliceOf (name : String) (eps : List Ep) : Slice :=
  { ns := "n1", name := name, svc := "a", fqdn := false, ports := [("http", 8080)], eps := eps }

def p1 : Pod := pod "p1" "10.0.0.1" true [("app", "a")] "sa1" ""
def p2 : Pod := pod "p2" "10.0.0.2" true [("app", "a")] "sa2" ""
def s1 : Slice := sliceOf "a-s1" [ep "10.0.0.1" true false "p1"]

def host : String := svcA.host

/-- the view of the property for the service `a` after a history -/
def viewAfter (ops : List Op) : Option HostView := hostView (run {} ops).c host

/-- ... and after a cold start on the objects written by `objs` (all stores full before the first
    handler runs, Add events in the order of `objs`) -/
def viewCold (objs : List Op) : Option HostView := hostView (coldRun objs).c host

/-! ## the named scenarios of the property: every order is a good history, all end alike -/

/-- endpoint before pod (and every other order of the three objects) -/
example : AllGood {} [] [] [.svc svcA, .slice s1, .pod p1] := by decide +kernel
example : AllGood {} [] [] [.slice s1, .svc svcA, .pod p1] := by decide +kernel
example : AllGood {} [] [] [.slice s1, .pod p1, .svc svcA] := by decide +kernel
example : AllGood {} [] [] [.pod p1, .slice s1, .svc svcA] := by decide +kernel

theorem endpoint_before_pod_example :
    viewAfter [.svc svcA, .slice s1, .pod p1] = viewAfter [.svc svcA, .pod p1, .slice s1] ∧
    viewAfter [.svc svcA, .slice s1, .pod p1] = viewCold [.svc svcA, .pod p1, .slice s1] ∧
    (viewAfter [.svc svcA, .slice s1, .pod p1]).map (·.eps.map (·.sa)) = some ["spiffe://cluster.local/ns/n1/sa/sa1"] := by
  decide +kernel

/-- the endpoint waits in `needResync` while its pod is unknown and leaves it when the pod arrives -/
theorem endpoint_before_pod_parks :
    (run {} [.svc svcA, .slice s1]).c.resync = [("10.0.0.1", ["n1/a-s1"])] ∧
    (run {} [.svc svcA, .slice s1, .pod p1]).c.resync = [] := by
  decide +kernel

/-- the repaired finding: the pod arrives NOT ready - the endpoint is built all the same (before the
    fix: commit 73212dc it stayed missing until the pod became ready) -/
theorem endpoint_before_unready_pod_example :
    viewAfter [.svc svcA, .slice (sliceOf "a-s1" [ep "10.0.0.1" false false "p1"]), .pod (pod "p1" "10.0.0.1" false [("app", "a")] "sa1" "")] =
    viewCold [.svc svcA, .pod (pod "p1" "10.0.0.1" false [("app", "a")] "sa1" ""), .slice (sliceOf "a-s1" [ep "10.0.0.1" false false "p1"])] := by
  decide +kernel

/-- the side conditions of `convergence_to_derive` hold for this history, and `derive` gives literally
    the view of the ordered run -/
example : WF (run {} [.slice s1, .pod p1, .svc svcA]).c ∧ staleRun {} [] [] [.slice s1, .pod p1, .svc svcA] = [] ∧
    NoPodAtUntargeted (run {} [.slice s1, .pod p1, .svc svcA]).c ∧ (run {} [.slice s1, .pod p1, .svc svcA]).c.slices.Nodup := by
  decide +kernel

theorem derive_example :
    derive (run {} [.slice s1, .pod p1, .svc svcA]).c host = viewAfter [.slice s1, .pod p1, .svc svcA] ∧
    derive (run {} [.slice s1, .pod p1, .svc svcA]).c host = viewCold [.svc svcA, .pod p1, .slice s1] := by
  decide +kernel

/-- `order_independent` applies to the two extreme interleavings of the endpoint-before-pod history
    (all its hypotheses hold; the stores differ as lists, not as sets) -/
theorem pod_before_service_example :
    viewAfter [.pod p1, .slice s1, .svc svcA] = viewAfter [.svc svcA, .pod p1, .slice s1] := by
  decide +kernel

/-- IP reuse: p1 goes away, p2 gets its address; the new pod and the new slice may be seen before
    or after the old pod's deletion -/
def p2r : Pod := pod "p2" "10.0.0.1" true [("app", "a")] "sa2" ""
def s1r : Slice := sliceOf "a-s1" [ep "10.0.0.1" true false "p2"]

example : AllGood {} [] [] [.svc svcA, .pod p1, .slice s1, .slice s1r, .pod p2r, .delPod "n1" "p1"] := by decide +kernel
example : AllGood {} [] [] [.svc svcA, .pod p1, .slice s1, .slice (sliceOf "a-s1" []), .delPod "n1" "p1", .pod p2r, .slice s1r] := by
  decide +kernel

theorem ip_reuse_example :
    viewAfter [.svc svcA, .pod p1, .slice s1, .slice s1r, .pod p2r, .delPod "n1" "p1"] =
      viewAfter [.svc svcA, .pod p1, .slice s1, .slice (sliceOf "a-s1" []), .delPod "n1" "p1", .pod p2r, .slice s1r] ∧
    viewAfter [.svc svcA, .pod p1, .slice s1, .slice s1r, .pod p2r, .delPod "n1" "p1"] = viewCold [.svc svcA, .pod p2r, .slice s1r] ∧
    (viewAfter [.svc svcA, .pod p1, .slice s1, .slice s1r, .pod p2r, .delPod "n1" "p1"]).map (·.sas) =
      some ["spiffe://cluster.local/ns/n1/sa/sa2"] := by
  decide +kernel

/-- label edit on a ready pod selected by the service: `recomputeServiceForPod` rebuilds the slices -/
def p1v2 : Pod := pod "p1" "10.0.0.1" true [("app", "a"), ("version", "v2")] "sa1" ""

example : AllGood {} [] [] [.svc svcA, .pod p1, .slice s1, .pod p1v2] := by decide +kernel
example : AllGood {} [] [] [.pod p1, .slice s1, .svc svcA, .pod p1v2] := by decide +kernel

theorem label_edit_example :
    viewAfter [.svc svcA, .pod p1, .slice s1, .pod p1v2] = viewCold [.svc svcA, .pod p1v2, .slice s1] ∧
    viewAfter [.svc svcA, .pod p1, .pod p1v2, .slice s1] = viewCold [.svc svcA, .pod p1v2, .slice s1] := by
  decide +kernel

/-- an address moves from one slice to another (present in both in between) -/
def s1both : Slice := sliceOf "a-s1" [ep "10.0.0.1" true false "p1", ep "10.0.0.2" true false "p2"]
def s2 : Slice := sliceOf "a-s2" [ep "10.0.0.2" true false "p2"]

example : AllGood {} [] [] [.svc svcA, .pod p1, .pod p2, .slice s1both, .slice s2, .slice s1] := by decide +kernel

theorem address_moves_between_slices_example :
    (viewAfter [.svc svcA, .pod p1, .pod p2, .slice s1both, .slice s2, .slice s1]).map (·.eps.map (·.addr)) =
      some ["10.0.0.1", "10.0.0.2"] ∧
    (viewCold [.svc svcA, .pod p1, .pod p2, .slice s1, .slice s2]).map (·.eps.map (·.addr)) = some ["10.0.0.1", "10.0.0.2"] ∧
    viewAfter [.svc svcA, .pod p1, .pod p2, .slice s1both, .slice s2, .slice s1] =
      viewCold [.svc svcA, .pod p1, .pod p2, .slice s1, .slice s2] := by
  decide +kernel

/-- `order_independent` applies to two interleavings of one history (all its hypotheses are checked
    by evaluation; the stores differ as lists, not as sets) -/
def opsA : List Op := [.svc svcA, .slice s1, .pod p1, .pod p2, .slice s1both]
def opsB : List Op := [.pod p2, .pod p1, .slice s1, .slice s1both, .svc svcA]

theorem order_independent_example : ViewAgree (viewAfter opsA) (viewAfter opsB) :=
  order_independent opsA opsB host (by decide +kernel) (by decide +kernel) (by decide +kernel) (by decide +kernel)
    (by decide +kernel) (by decide +kernel) (sameObjects_of_b (by decide +kernel)) (by decide +kernel) (by decide +kernel) (by decide +kernel)
    (by decide +kernel) (by decide +kernel) (by decide +kernel) (by decide +kernel)

/-- `any_order_eq_cold_start` applies: the history `opsB` (pods, slices, then the Service) against the
    model's cold start with the pods queued AFTER the slices that refer to them (every hypothesis is
    checked by evaluation) -/
def coldObjs : List Op := [.svc svcA, .slice s1both, .pod p2, .pod p1]

theorem any_order_eq_cold_start_example : ViewAgree (viewAfter opsB) (viewCold coldObjs) :=
  any_order_eq_cold_start opsB coldObjs host (by decide +kernel) (by decide +kernel) (by decide +kernel) (by decide +kernel)
    (by decide +kernel) (by decide +kernel) (sameObjects_of_b (by decide +kernel)) (by decide +kernel)
    (by decide +kernel) (by decide +kernel) (by decide +kernel)

/-- the cold-start theorem covers every order of these Add events but the ones with the slice first -/
example : ColdOps {} [.pod p1, .svc svcA, .pod p2, .slice s1both] ∧
    SvcBeforeSlice (coldFold {} [.pod p1, .svc svcA, .pod p2, .slice s1both]).2 ∧
    ¬ SvcBeforeSlice (coldFold {} [.slice s1both, .svc svcA]).2 := by decide +kernel

/-! ## the normal pod life cycle is inside `GoodStep` -/

/-- a Pending pod (no IP, no node) is bound to a node and gets its IP before the slice controller
    publishes it -/
def nodeK1' : Node := { name := "k1", region := "r1", zone := "z1" }
def p1pending : Pod := { p1 with ip := "", node := "", phase := "P", ready := false }
def p1bound : Pod := { p1 with node := "k1" }

example : AllGood {} [] [] [.svc svcA, .node nodeK1', .pod p1pending, .pod { p1bound with ready := false }, .pod p1bound,
    .slice s1] ∧
    staleRun {} [] [] [.svc svcA, .node nodeK1', .pod p1pending, .pod { p1bound with ready := false }, .pod p1bound, .slice s1] = [] := by
  decide +kernel

/-- the headline case as it happens: the slice is handled FIRST, then the pod's first event arrives - Pending,
    without IP and node -, then the pod is bound to a node, then it gets its IP (the event that replays the
    slice), then it turns ready.  Every step is good; the slice waits in between and nothing waits at the end;
    the view is the cold start's. -/
def p1notReady : Pod := { p1bound with ready := false }
def s1nr' : Slice := sliceOf "a-s1" [ep "10.0.0.1" false false "p1"]

example : AllGood {} [] [] [.svc svcA, .node nodeK1', .slice s1nr', .pod p1pending, .pod { p1pending with node := "k1" },
      .pod p1notReady, .pod p1bound, .slice s1] ∧
    waitRun {} [] [] [.svc svcA, .node nodeK1', .slice s1nr', .pod p1pending] = [(("n1", "a-s1"), ("n1", "p1"))] ∧
    waitRun {} [] [] [.svc svcA, .node nodeK1', .slice s1nr', .pod p1pending, .pod { p1pending with node := "k1" },
      .pod p1notReady] = [] ∧
    staleRun {} [] [] [.svc svcA, .node nodeK1', .slice s1nr', .pod p1pending, .pod { p1pending with node := "k1" },
      .pod p1notReady, .pod p1bound, .slice s1] = [] ∧
    viewAfter [.svc svcA, .node nodeK1', .slice s1nr', .pod p1pending, .pod { p1pending with node := "k1" },
      .pod p1notReady, .pod p1bound, .slice s1] = viewCold [.node nodeK1', .svc svcA, .pod p1bound, .slice s1] := by
  decide +kernel

/-- only the pod informer lags: the slice (already with the pod's address, ready) is handled while the store still
    shows the pod Pending, without IP and node - it finds the pod by name, nothing is parked; then the pod is bound
    to a node (that update replays the slices that refer to it: fix ab6ec60), gets its IP, turns ready.  A good
    history, nothing stale or waiting, and the endpoint has the node and its locality like the cold start's. -/
def opsLag : List Op := [.svc svcA, .node nodeK1', .pod p1pending, .slice s1, .pod { p1pending with node := "k1" },
  .pod p1notReady, .pod p1bound]

example : AllGood {} [] [] opsLag ∧ staleRun {} [] [] opsLag = [] ∧ waitRun {} [] [] opsLag = [] ∧
    viewAfter opsLag = viewCold [.node nodeK1', .svc svcA, .pod p1bound, .slice s1] ∧
    (viewAfter opsLag).map (·.eps.map (fun e => (e.node, e.locality))) = some [("k1", "r1/z1/")] := by
  decide +kernel

/-- the pod's IP changes while it is ready: `addPod` moves the key in `podsByIP` / `ipByPods` -/
example : AllGood {} [] [] [.svc svcA, .pod p1, .pod { p1 with ip := "10.0.0.9" }] ∧
    (run {} [.svc svcA, .pod p1, .pod { p1 with ip := "10.0.0.9" }]).c.byIP = [("10.0.0.9", ["n1/p1"])] ∧
    (run {} [.svc svcA, .pod p1, .pod { p1 with ip := "10.0.0.9" }]).c.ipBy = [("n1/p1", "10.0.0.9")] := by
  decide +kernel

/-- the causal Kubernetes order at the end of a pod: the Pod is deleted, THEN the slice controller
    drops the endpoint.  The slice is stale in between and clean afterwards. -/
example : AllGood {} [] [] [.svc svcA, .pod p1, .slice s1, .delPod "n1" "p1", .slice (sliceOf "a-s1" [])] ∧
    staleRun {} [] [] [.svc svcA, .pod p1, .slice s1, .delPod "n1" "p1"] = [("n1", "a-s1")] ∧
    staleRun {} [] [] [.svc svcA, .pod p1, .slice s1, .delPod "n1" "p1", .slice (sliceOf "a-s1" [])] = [] := by
  decide +kernel

/-- eviction: the pod turns Failed (the informer's field selector makes that a DELETE carrying the new
    object, IP stripped), then the slice controller drops the endpoint -/
example : AllGood {} [] [] [.svc svcA, .pod p1, .slice s1, .pod { p1 with phase := "F", ip := "", ready := false },
      .slice (sliceOf "a-s1" [])] ∧
    staleRun {} [] [] [.svc svcA, .pod p1, .slice s1, .pod { p1 with phase := "F", ip := "", ready := false },
      .slice (sliceOf "a-s1" [])] = [] ∧
    (run {} [.svc svcA, .pod p1, .slice s1, .pod { p1 with phase := "F", ip := "", ready := false }]).c.byIP = [] := by
  decide +kernel

/-- the pod cache is the function of the pods: after the IP moved from p1 to p2 -/
example : (run {} [.svc svcA, .pod p1, .slice s1, .slice s1r, .pod p2r, .delPod "n1" "p1"]).c.byIP = [("10.0.0.1", ["n1/p2"])] ∧
    (run {} [.svc svcA, .pod p1, .slice s1, .slice s1r, .pod p2r, .delPod "n1" "p1"]).c.ipBy = [("n1/p2", "10.0.0.1")] := by
  decide +kernel

/-- conflicting duplicates across slices: `get` walks the slices in name order (fix 2f73eac), so the
    endpoint of the slice with the smaller name wins whatever the arrival order -/
def s2dup : Slice := sliceOf "a-s2" [ep "10.0.0.1" false false "p1"]

theorem conflicting_duplicates_example :
    viewAfter [.svc svcA, .pod p1, .slice s2dup, .slice s1] = viewAfter [.svc svcA, .pod p1, .slice s1, .slice s2dup] ∧
    viewAfter [.svc svcA, .pod p1, .slice s2dup, .slice s1] = viewCold [.svc svcA, .pod p1, .slice s2dup, .slice s1] ∧
    derive (run {} [.svc svcA, .pod p1, .slice s2dup, .slice s1]).c host = viewAfter [.svc svcA, .pod p1, .slice s2dup, .slice s1] ∧
    AllGood {} [] [] [.svc svcA, .pod p1, .slice s2dup, .slice s1] := by
  decide +kernel

/-- the two stores differ as lists (order of first arrival) -/
example : (run {} opsA).c.pods ≠ (run {} opsB).c.pods := by decide +kernel

/-- the stores run ahead: everything is written before the first handler runs, slices first -/
theorem stores_ahead_example :
    viewAfter [.hold, .slice s1both, .pod p2, .svc svcA, .pod p1, .release] =
      viewCold [.svc svcA, .pod p1, .pod p2, .slice s1both] := by
  decide +kernel

/-! ## an update followed by the delete of the same object while the handlers lag (fix 225592b)

The Update handler finds the object gone, the Delete handler sees only its last version.  The update is now handled
with the object its event carries, so nothing derived from the earlier version stays behind. -/

def svcB : Svc := { svcA with name := "b" }
def epX : Ep := { ep "10.0.2.1" true false "" with target := none }
def sX : Slice := { sliceOf "x-s1" [epX] with svc := "a" }

/-- a slice relabelled and deleted inside one window: no entry under the previous Service -/
theorem relabel_then_delete_in_window_example :
    viewAfter [.svc svcA, .svc svcB, .slice sX, .hold, .slice { sX with svc := "b" }, .delSlice "n1" "x-s1", .release] =
      viewCold [.svc svcA, .svc svcB] ∧
    (run {} [.svc svcA, .svc svcB, .slice sX, .hold, .slice { sX with svc := "b" }, .delSlice "n1" "x-s1", .release]).c.cache = [] := by
  decide +kernel

/-- a cached pod changes its IP and is deleted inside one window: the pod cache is empty again; an IP change in the
    same write that makes the pod not ready (fix ce324e1) likewise leaves nothing under the old IP -/
theorem ip_change_then_delete_in_window_example :
    (run {} [.pod p1, .hold, .pod { p1 with ip := "10.0.0.2" }, .delPod "n1" "p1", .release]).c.byIP = [] ∧
    (run {} [.pod p1, .hold, .pod { p1 with ip := "10.0.0.2" }, .delPod "n1" "p1", .release]).c.ipBy = [] ∧
    (run {} [.pod p1, .pod { p1 with ip := "10.0.0.2", ready := false }]).c.byIP = [] ∧
    AllGood {} [] [] [.pod p1, .pod { p1 with ip := "10.0.0.2", ready := false }] := by
  decide +kernel

/-- the namespace annotation is removed and the namespace deleted inside one window: the Service loses PreferClose -/
theorem ns_unannotate_then_delete_in_window_example :
    viewAfter [.ns { name := "n1", td := true }, .svc svcA, .hold, .ns { name := "n1", td := false }, .delNs "n1", .release] =
      viewCold [.svc svcA] := by
  decide +kernel

/-- the controller owner reference of a pod changes in place (fix 585b3d0): the endpoint gets the new workload name -/
def p1owned : Pod := { p1 with labels := [("app", "a"), ("@owner", "ss1")] }

theorem owner_change_example :
    AllGood {} [] [] [.svc svcA, .pod p1owned, .slice s1, .pod p1] ∧
    viewAfter [.svc svcA, .pod p1owned, .slice s1, .pod p1] = viewCold [.svc svcA, .pod p1, .slice s1] ∧
    (viewAfter [.svc svcA, .pod p1owned, .slice s1]).map (·.eps.map (·.workload)) = some ["ss1"] ∧
    (viewAfter [.svc svcA, .pod p1owned, .slice s1, .pod p1]).map (·.eps.map (·.workload)) = some ["p1"] := by
  decide +kernel

/-! ## the full statement is false for the controller as it is: witnesses (known findings)

`FullStatement`: every history ends like a cold start on its final objects.  The witnesses below are
the minimal histories of `harness/corpus/C15/order.known.ops`; the real controller reproduces each
(the check prints them as KNOWN-FINDING). -/

def FullStatement : Prop :=
  ∀ (ops : List Op) (order : List String) (h : String),
    hostView (run {} ops).c h = hostView (coldRun (finalOps (run {} ops).c order)).c h

def termEp : Slice := sliceOf "a-s1" [ep "10.0.0.1" false true "p1"]
def p1term : Pod := { p1 with ready := false, deleting := true }

/-- slice handled before the Service is known: the not-ready terminating endpoint is `UnHealthy`,
    a cold start (Service first) says `Terminating` -/
theorem health_built_before_service_witness :
    (viewAfter [.slice termEp, .pod p1term, .svc svcA]).map (·.eps.map (·.health)) = some [Health.unhealthy] ∧
    (viewCold [.svc svcA, .pod p1term, .slice termEp]).map (·.eps.map (·.health)) = some [Health.terminating] := by
  decide +kernel

theorem full_statement_fails : ¬ FullStatement := by
  intro h
  have := h [.slice termEp, .pod p1term, .svc svcA] ["node", "svc", "pod", "slice"] host
  revert this
  decide +kernel

/-- the cold start itself depends on the order in which the initial Add events are queued -/
theorem cold_start_order_witness :
    viewCold [.slice termEp, .pod p1term, .svc svcA] ≠ viewCold [.svc svcA, .pod p1term, .slice termEp] := by
  decide +kernel

def p1nr (labels : Labels) : Pod := pod "p1" "10.0.0.1" false labels "sa1" ""
def s1nr : Slice := sliceOf "a-s1" [ep "10.0.0.1" false false "p1"]

/-- label edit on a pod that is not ready (not in the pod cache): no recompute -/
theorem labels_stale_witness :
    (viewAfter [.svc svcA, .pod (p1nr [("app", "a"), ("version", "v1")]), .slice s1nr,
        .pod (p1nr [("app", "a"), ("version", "v2")])]).map (·.eps.map (fun e => alookup "version" e.labels)) = some [some "v1"] ∧
    (viewCold [.svc svcA, .pod (p1nr [("app", "a"), ("version", "v2")]), .slice s1nr]).map
        (·.eps.map (fun e => alookup "version" e.labels)) = some [some "v2"] := by
  decide +kernel

def p1k : Pod := pod "p1" "10.0.0.1" true [("app", "a")] "sa1" "k1"
def nodeK1 : Node := { name := "k1", region := "r1", zone := "z1" }

/-- Node seen after the slice: locality stays empty -/
theorem locality_stale_witness :
    (viewAfter [.svc svcA, .pod p1k, .slice s1, .node nodeK1]).map (·.eps.map (·.locality)) = some [""] ∧
    (viewCold [.node nodeK1, .svc svcA, .pod p1k, .slice s1]).map (·.eps.map (·.locality)) = some ["r1/z1/"] := by
  decide +kernel

/-- Pod deleted while a slice still refers to it: the endpoint stays, with the deleted pod's identity -/
theorem deleted_pod_kept_witness :
    (viewAfter [.svc svcA, .pod p1, .slice s1, .delPod "n1" "p1"]).map (·.eps.map (·.sa)) =
      some ["spiffe://cluster.local/ns/n1/sa/sa1"] ∧
    (viewCold [.svc svcA, .slice s1]).map (·.eps) = some [] := by
  decide +kernel

/-- Pod deleted and re-created under the same name with another service account -/
theorem replaced_pod_identity_witness :
    (viewAfter [.svc svcA, .pod p1, .slice s1, .delPod "n1" "p1", .pod { p1 with sa := "sa2" }]).map (·.sas) =
      some ["spiffe://cluster.local/ns/n1/sa/sa1"] ∧
    (viewCold [.svc svcA, .pod { p1 with sa := "sa2" }, .slice s1]).map (·.sas) = some ["spiffe://cluster.local/ns/n1/sa/sa2"] := by
  decide +kernel

/-- endpoint parked under its address, the referenced pod arrives with another IP -/
theorem waiting_address_witness :
    (viewAfter [.svc svcA, .slice s1, .pod { p1 with ip := "10.0.0.2" }]).map (·.eps) = some [] ∧
    (viewCold [.svc svcA, .pod { p1 with ip := "10.0.0.2" }, .slice s1]).map (·.eps.map (·.addr)) = some ["10.0.0.1"] ∧
    (run {} [.svc svcA, .slice s1, .pod { p1 with ip := "10.0.0.2" }]).c.resync = [("10.0.0.1", ["n1/a-s1"])] := by
  decide +kernel

/-- the last endpoint of a service is removed: the index keeps the service accounts -/
theorem accounts_kept_witness :
    (viewAfter [.svc svcA, .pod p1, .slice s1, .slice (sliceOf "a-s1" [])]).map (fun v => (v.eps, v.sas)) =
      some ([], ["spiffe://cluster.local/ns/n1/sa/sa1"]) ∧
    (viewCold [.svc svcA, .pod p1, .slice (sliceOf "a-s1" [])]).map (fun v => (v.eps, v.sas)) = some ([], []) := by
  decide +kernel

/-- ... and this history lies INSIDE the proved class (every step good, nothing stale or waiting): the conclusion
    `ViewAgree` deliberately says nothing about the service accounts of a hostname whose endpoint list is empty - that is
    exactly the known finding `accounts-kept-after-endpoints-removed`, not something the theorems rule out -/
example : AllGood {} [] [] [.svc svcA, .pod p1, .slice s1, .slice (sliceOf "a-s1" [])] ∧
    staleRun {} [] [] [.svc svcA, .pod p1, .slice s1, .slice (sliceOf "a-s1" [])] = [] ∧
    waitRun {} [] [] [.svc svcA, .pod p1, .slice s1, .slice (sliceOf "a-s1" [])] = [] ∧
    ViewAgree (viewAfter [.svc svcA, .pod p1, .slice s1, .slice (sliceOf "a-s1" [])])
      (viewCold [.svc svcA, .pod p1, .slice (sliceOf "a-s1" [])]) ∧
    viewAfter [.svc svcA, .pod p1, .slice s1, .slice (sliceOf "a-s1" [])] ≠
      viewCold [.svc svcA, .pod p1, .slice (sliceOf "a-s1" [])] := by
  decide +kernel

/-- `needResync` can keep a registration nothing waits for: the slice is updated so that the waiting
    address now refers to a pod that is known (`cleanupRemovedEndpoints` only handles removed
    addresses).  The entry goes away with the next pod event for that IP or with the slice.
    `SliceKeepsWaiting` is the clause of `GoodStep` that excludes it. -/
theorem needResync_stale_registration_witness :
    (run {} [.svc svcA, .pod p2, .slice s1, .slice (sliceOf "a-s1" [ep "10.0.0.1" true false "p2"])]).c.resync =
      [("10.0.0.1", ["n1/a-s1"])] ∧
    parkedAddrs (run {} [.svc svcA, .pod p2, .slice s1, .slice (sliceOf "a-s1" [ep "10.0.0.1" true false "p2"])]).c.pods
      (sliceOf "a-s1" [ep "10.0.0.1" true false "p2"]) = [] ∧
    ¬ AllGood {} [] [] [.svc svcA, .pod p2, .slice s1, .slice (sliceOf "a-s1" [ep "10.0.0.1" true false "p2"])] := by
  decide +kernel

/-- each witness history violates exactly the clause of `GoodStep` that names its class -/
example : ¬ AllGood {} [] [] [.slice termEp, .pod p1term, .svc svcA] := by decide +kernel
example : ¬ AllGood {} [] [] [.svc svcA, .pod (p1nr [("app", "a"), ("version", "v1")]), .slice s1nr,
    .pod (p1nr [("app", "a"), ("version", "v2")])] := by decide +kernel
example : ¬ AllGood {} [] [] [.svc svcA, .pod p1k, .slice s1, .node nodeK1] := by decide +kernel
/-- a deleted pod's endpoint is kept only while the slice is stale: the history is good, the stale set is not empty -/
example : AllGood {} [] [] [.svc svcA, .pod p1, .slice s1, .delPod "n1" "p1"] ∧
    staleRun {} [] [] [.svc svcA, .pod p1, .slice s1, .delPod "n1" "p1"] ≠ [] := by decide +kernel
example : ¬ AllGood {} [] [] [.svc svcA, .slice s1, .pod { p1 with ip := "10.0.0.2" }] := by decide +kernel

end IstioModel.C15
