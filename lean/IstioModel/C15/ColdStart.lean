import IstioModel.C15.Derive

/-!
# C15 - the cold start: stores ahead of the handlers

At a cold start the informers have listed every object before the first handler runs: the stores hold
the final objects, the caches are empty, and the queue holds one Add event per object.  This is the
extreme "stores ahead" schedule (a `hold` ... `release` window over the whole history), and it is what
the property compares every other order with.

`cold_start_inv`: whatever the order of the Add events, provided no EndpointSlice event is handled
before a Service event (istio starts the Service informer first; the opposite order is the finding
`health-built-before-service-known`), the controller ends with caches that are the handler-function of
the objects and with the pod cache the function of the pods - the same invariant the write-by-write
histories end in.  `cold_start_eq_derive`, `any_order_eq_cold_start`: so the model's own cold start
shows what `derive` computes, and every good history that ends with the same objects shows what the
model's cold start on these objects shows.
-/
namespace IstioModel.C15

/-! ### small facts -/

theorem find_unique {α : Type} (l : List α) (p : α → Bool) (a : α) (ha : a ∈ l) (hpa : p a = true)
    (hu : ∀ b ∈ l, p b = true → b = a) : l.find? p = some a := by
  cases hf : l.find? p with
  | none =>
    have := List.find?_eq_none.mp hf a ha
    simp [hpa] at this
  | some b =>
    rw [hu b (List.mem_of_find?_eq_some hf) (List.find?_some hf)]

theorem InvExcept.monoQ {c : Ctl} {P : Slice → Prop} {Q Q' : Svc → Prop} (h : InvExcept c P Q)
    (hq : ∀ sv ∈ c.svcs, Q sv → Q' sv) : InvExcept c P Q' :=
  ⟨h.fresh, h.noForeign, h.parked, fun sv hsv hnq => h.smapSome sv hsv (fun hq' => hnq (hq sv hsv hq')),
   h.smapOnly, h.index, h.nodup⟩

/-- `addOrUpdateService` for a Service none of whose slices has been handled yet -/
theorem serviceUpsert_cold (c : Ctl) (sv : Svc) {P : Slice → Prop} {Q : Svc → Prop}
    (hinv : InvExcept c P Q) (hwf : WF c) (hsv : sv ∈ c.svcs)
    (hpend : ∀ x ∈ c.slices, x.host = sv.host → P x) :
    InvExcept (serviceUpsert c sv) P (fun s => Q s ∧ s ≠ sv) := by
  unfold serviceUpsert
  let c2 : Ctl := { c with smap := aset sv.host sv c.smap }
  have hwf2 : WF c2 := hwf.of_stores rfl rfl rfl
  have hf := refreshIndex_fields c2 sv
  have hsm : ∀ h, alookup h c2.smap = if h = sv.host then some sv else alookup h c.smap := by
    intro h; exact alookup_aset _ _ _ _
  refine ⟨?_, ?_, ?_, ?_, ?_, ?_, by rw [hf.2.2.2.2.2.2.1]; exact hinv.nodup⟩
  · intro x hx hs hnp
    rw [hf.1] at hx
    unfold EntryOK
    rw [hf.2.2.2.2.2.2.1, hf.2.2.1, hf.2.2.2.1, hf.2.2.2.2.1, hf.2.2.2.2.2.1, hsm]
    have := hinv.fresh x hx hs hnp
    by_cases hh : x.host = sv.host
    · exact absurd (hpend x hx hh) hnp
    · simp only [hh, if_false]
      exact this
  · intro h n eps he
    rw [hf.2.2.2.2.2.2.1] at he
    rw [hf.1]
    exact hinv.noForeign h n eps he
  · intro x hx hnp a ha
    rw [hf.1] at hx
    rw [hf.2.2.1] at ha
    rw [hf.2.2.2.2.2.2.2.1]
    exact hinv.parked x hx hnp a ha
  · intro s hs hnq
    rw [hf.2.1] at hs
    rw [hf.2.2.2.2.2.1, hsm]
    by_cases hh : s.host = sv.host
    · simp only [hh, if_true]
      rw [hwf.svcHostInj s hs sv hsv hh]
    · simp only [hh, if_false]
      apply hinv.smapSome s hs
      intro hq
      apply hnq
      refine ⟨hq, ?_⟩
      intro he; rw [he] at hh; exact hh rfl
  · intro h s hl
    rw [hf.2.2.2.2.2.1, hsm] at hl
    rw [hf.2.1]
    by_cases hh : h = sv.host
    · simp only [hh, if_true, Option.some.injEq] at hl
      subst hl
      exact ⟨hsv, hh.symm⟩
    · simp only [hh, if_false] at hl
      exact hinv.smapOnly h s hl
  · apply refreshIndex_idxOK c2 sv hwf2 hsv
    · exact hinv.noForeign
    · intro h hh
      apply idxOK_unchanged c c2 h rfl rfl _ (hinv.index h)
      rw [hsm]; simp [hh]
    · have := hinv.index sv.host
      unfold IdxOK at this
      show match alookup sv.host c.index with
        | none => True
        | some e => e.eps.getD [] = cacheGet c.cache sv.host ∧ (cacheGet c.cache sv.host ≠ [] → e.sas = sasOf (cacheGet c.cache sv.host))
      cases hl : alookup sv.host c.index with
      | none => trivial
      | some e =>
        rw [hl] at this
        exact this

/-! ### the cold start as events against full stores -/

/-- the assumptions on the objects of the cold start -/
structure ColdHyp (F : Ctl) : Prop where
  wf : WF F
  keys : PodKeysOK F.pods
  nopod : NoPodAtUntargeted F
  /-- no namespace-wide traffic distribution annotation (then `servicesMap` holds the converted
      Service, not the Service of the store: outside the invariant as it is stated) -/
  notd : ∀ n ∈ F.nss, n.td = false

def SameStores (F c : Ctl) : Prop :=
  c.svcs = F.svcs ∧ c.slices = F.slices ∧ c.pods = F.pods ∧ c.nodes = F.nodes ∧ c.nss = F.nss

/-- an Add event of an object of the stores -/
def ColdEv (F : Ctl) : Ev → Prop
  | .svcAdd sv => sv ∈ F.svcs
  | .slAdd x => x ∈ F.slices
  | .podAdd p => p ∈ F.pods
  | .nsAdd _ => True
  | _ => False

/-- no EndpointSlice event is handled before a Service event -/
def SvcBeforeSlice (E : List Ev) : Prop :=
  E.Pairwise (fun a b => ¬ ((∃ x, a = Ev.slAdd x) ∧ (∃ sv, b = Ev.svcAdd sv)))

/-- the loop invariant while the Add events `rest` are still queued and the replays `ks` wait behind them -/
structure ColdInv (F : Ctl) (rest : List Ev) (ks : List String) (c : Ctl) : Prop where
  st : SameStores F c
  inv : InvExcept c (fun x => Ev.slAdd x ∈ rest ∨ x.key ∈ ks) (fun sv => Ev.svcAdd sv ∈ rest)
  pc : PCOK c.byIP c.ipBy
    (fun ip key => ∃ p ∈ F.pods, Ev.podAdd p ∉ rest ∧ p.key = key ∧ p.ip = ip ∧ podOK p = true)
  pend : (∃ sv, Ev.svcAdd sv ∈ rest) → ∀ x ∈ F.slices, Ev.slAdd x ∈ rest

theorem ColdInv.wf {F : Ctl} {rest ks c} (h : ColdInv F rest ks c) (hF : ColdHyp F) : WF c :=
  hF.wf.of_stores h.st.2.1 h.st.1 h.st.2.2.1

/-- nothing is cached at the address of an endpoint without targetRef, at any stage -/
theorem ColdInv.nocached {F : Ctl} {rest ks c} (h : ColdInv F rest ks c) (hF : ColdHyp F) : NoCachedAddr c := by
  intro sl hsl ea hea htg k
  cases hc : setContains c.byIP ea.2 k with
  | false => rfl
  | true =>
    obtain ⟨p, hp, _, _, hip, _⟩ := (h.pc.mem ea.2 k).mp hc
    rw [h.st.2.1] at hsl
    exact absurd hip (hF.nopod sl hsl ea hea htg p hp)

theorem mem_tail_of_ne {α : Type} {a e : α} {r : List α} (h : a ∈ e :: r) (hne : a ≠ e) : a ∈ r := by
  cases List.mem_cons.mp h with
  | inl h => exact absurd h hne
  | inr h => exact h

theorem takeWaiting_nss (c : Ctl) (ip : String) : (takeWaiting c ip).1.nss = c.nss := by
  unfold takeWaiting
  split <;> rfl

theorem podEvent_add_nss (c : Ctl) (p : Pod) : (podEvent c none p .add).1.nss = c.nss := by
  unfold podEvent
  simp only []
  by_cases hip : (if p.ip = "" then (alookup p.key c.ipBy).getD "" else p.ip) = ""
  · rw [if_pos hip]
  · rw [if_neg hip]
    generalize (if p.ip = "" then (alookup p.key c.ipBy).getD "" else p.ip) = ip at *
    simp only [reduceCtorEq, if_false]
    split
    · unfold addPod
      split
      · exact takeWaiting_nss c ip
      · rw [takeWaiting_nss]
        show (cachePod (takeWaiting c ip).1 p.key ip).nss = c.nss
        unfold cachePod
        exact takeWaiting_nss c ip
    · exact takeWaiting_nss c ip

/-- one Add event -/
theorem cold_step (F : Ctl) (hF : ColdHyp F) (e : Ev) (r : List Ev) (ks : List String) (c : Ctl)
    (h : ColdInv F (e :: r) ks c) (hev : ColdEv F e) (hnd : (e :: r).Nodup) (hord : SvcBeforeSlice (e :: r)) :
    ∃ ks1, (handle c e).2 = ks1.map Ev.replay ∧ ColdInv F r (ks ++ ks1) (handle c e).1 := by
  have hwf := h.wf hF
  have hnotin : e ∉ r := (List.nodup_cons.mp hnd).1
  cases e with
  | svcUpd _ _ => exact absurd hev (fun h => h)
  | svcDel _ => exact absurd hev (fun h => h)
  | nsUpd _ _ => exact absurd hev (fun h => h)
  | nsDel _ => exact absurd hev (fun h => h)
  | podUpd _ _ => exact absurd hev (fun h => h)
  | podDel _ => exact absurd hev (fun h => h)
  | slUpd _ _ => exact absurd hev (fun h => h)
  | slDel _ => exact absurd hev (fun h => h)
  | replay _ => exact absurd hev (fun h => h)
  | nsAdd n =>
    have hh : handle c (.nsAdd n) = (c, []) := by
      simp only [handle]
      cases hf : c.nss.find? (fun m => m.name = n.name) with
      | none => rfl
      | some cur =>
        have hm : cur ∈ F.nss := by rw [← h.st.2.2.2.2]; exact List.mem_of_find?_eq_some hf
        simp [hF.notd cur hm]
    rw [hh]
    refine ⟨[], rfl, ?_⟩
    rw [List.append_nil]
    refine ⟨h.st, ?_, ?_, ?_⟩
    · apply (h.inv.mono _).monoQ
      · intro sv _ hq; exact mem_tail_of_ne hq (by simp)
      · intro x _ hp
        cases hp with
        | inl hp => exact Or.inl (mem_tail_of_ne hp (by simp))
        | inr hp => exact Or.inr hp
    · apply h.pc.congr
      intro ip key
      constructor
      · intro ⟨p, hp, hn, hr⟩
        exact ⟨p, hp, fun hm => hn (List.mem_cons_of_mem _ hm), hr⟩
      · intro ⟨p, hp, hn, hr⟩
        exact ⟨p, hp, fun hm => hn (mem_tail_of_ne hm (by simp)), hr⟩
    · intro ⟨sv, hsv⟩ x hx
      exact mem_tail_of_ne (h.pend ⟨sv, List.mem_cons_of_mem _ hsv⟩ x hx) (by simp)
  | svcAdd sv =>
    have hsvF : sv ∈ F.svcs := hev
    have hsvc : sv ∈ c.svcs := by rw [h.st.1]; exact hsvF
    have hfind : findSvc c.svcs sv.ns sv.name = some sv := by
      apply find_unique _ _ sv hsvc (by simp)
      intro b hb hpb
      simp only [Bool.decide_and, Bool.and_eq_true, decide_eq_true_eq] at hpb
      exact hwf.svcNameInj b hb sv hsvc hpb.1 hpb.2
    have hconv : convNs c.nss sv = sv := by
      unfold convNs
      cases hf : c.nss.find? (fun m => m.name = sv.ns) with
      | none => rfl
      | some cur =>
        have hm : cur ∈ F.nss := by rw [← h.st.2.2.2.2]; exact List.mem_of_find?_eq_some hf
        simp [hF.notd cur hm]
    have hh : handle c (.svcAdd sv) = (serviceUpsert c sv, []) := by
      simp only [handle, hfind, hconv]
    rw [hh]
    refine ⟨[], rfl, ?_⟩
    rw [List.append_nil]
    have hpc := serviceUpsert_pc c sv
    have hfl := refreshIndex_fields { c with smap := aset sv.host sv c.smap } sv
    have hallpend := h.pend ⟨sv, by simp⟩
    refine ⟨?_, ?_, ?_, ?_⟩
    · unfold serviceUpsert
      exact ⟨hfl.2.1.trans h.st.1, hfl.1.trans h.st.2.1, hfl.2.2.1.trans h.st.2.2.1, hfl.2.2.2.1.trans h.st.2.2.2.1,
        (by unfold refreshIndex; simp only []; split <;> exact h.st.2.2.2.2)⟩
    · have := serviceUpsert_cold c sv h.inv hwf hsvc (by
        intro x hx _
        rw [h.st.2.1] at hx
        exact Or.inl (hallpend x hx))
      apply (this.mono _).monoQ
      · intro s _ hq
        exact mem_tail_of_ne hq.1 (by intro he; injection he with he; exact hq.2 he)
      · intro x _ hp
        cases hp with
        | inl hp => exact Or.inl (mem_tail_of_ne hp (by simp))
        | inr hp => exact Or.inr hp
    · apply (h.pc.of_same hpc).congr
      intro ip key
      constructor
      · intro ⟨p, hp, hn, hr⟩
        exact ⟨p, hp, fun hm => hn (List.mem_cons_of_mem _ hm), hr⟩
      · intro ⟨p, hp, hn, hr⟩
        exact ⟨p, hp, fun hm => hn (mem_tail_of_ne hm (by simp)), hr⟩
    · intro _ x hx
      exact mem_tail_of_ne (hallpend x hx) (by simp)
  | slAdd x =>
    have hxF : x ∈ F.slices := hev
    have hxc : x ∈ c.slices := by rw [h.st.2.1]; exact hxF
    have hfind : findSlice c.slices x.ns x.name = some x := by
      apply find_unique _ _ x hxc (by simp)
      intro b hb hpb
      simp only [Bool.decide_and, Bool.and_eq_true, decide_eq_true_eq] at hpb
      exact hwf.sliceNameInj b hb x hxc hpb.1 hpb.2
    have hh : handle c (.slAdd x) = (sliceUpsert c none x, []) := by
      simp only [handle, hfind]
    rw [hh]
    refine ⟨[], rfl, ?_⟩
    rw [List.append_nil]
    have hst := sliceUpsert_stores c none x
    have hpc := sliceUpsert_pc c none x
    refine ⟨?_, ?_, ?_, ?_⟩
    · refine ⟨hst.2.1.trans h.st.1, hst.1.trans h.st.2.1, hst.2.2.1.trans h.st.2.2.1, hst.2.2.2.1.trans h.st.2.2.2.1, ?_⟩
      have : (sliceUpsert c none x).nss = c.nss := by
        cases hb : buildSlice c.pods c.nodes c.byIP (alookup x.host c.smap) x with
        | none => rw [sliceUpsert_none c none x hb]
        | some eps => rw [sliceUpsert_some c none x eps hb]
      exact this.trans h.st.2.2.2.2
    · apply ((sliceUpsert_inv c _ none x h.inv hwf hxc).mono _).monoQ
      · intro s _ hq; exact mem_tail_of_ne hq (by simp)
      · intro y _ hp
        cases hp.1 with
        | inl hp1 => exact Or.inl (mem_tail_of_ne hp1 (by intro he; injection he with he; exact hp.2 he))
        | inr hp1 => exact Or.inr hp1
    · apply (h.pc.of_same hpc).congr
      intro ip key
      constructor
      · intro ⟨p, hp, hn, hr⟩
        exact ⟨p, hp, fun hm => hn (List.mem_cons_of_mem _ hm), hr⟩
      · intro ⟨p, hp, hn, hr⟩
        exact ⟨p, hp, fun hm => hn (mem_tail_of_ne hm (by simp)), hr⟩
    · intro ⟨sv, hsv⟩
      exfalso
      have := (List.pairwise_cons.mp hord).1 (.svcAdd sv) hsv
      exact this ⟨⟨x, rfl⟩, ⟨sv, rfl⟩⟩
  | podAdd p =>
    have hpF : p ∈ F.pods := hev
    have hpc : p ∈ c.pods := by rw [h.st.2.2.1]; exact hpF
    have hfind : findPod c.pods p.ns p.name = some p := by
      apply find_unique _ _ p hpc (by simp)
      intro b hb hpb
      simp only [Bool.decide_and, Bool.and_eq_true, decide_eq_true_eq] at hpb
      exact hwf.podNameInj b hb p hpc hpb.1 hpb.2
    have hh : handle c (.podAdd p) = podEvent c none p .add := by
      simp only [handle, hfind]
    rw [hh]
    obtain ⟨ks1, hks1, heff, _, _⟩ := podEvent_eff c none p .add (Or.inl rfl)
    refine ⟨ks1, hks1, ?_⟩
    -- the pod cache afterwards
    have hpc' := podEvent_pc c none p .add _ h.pc
      (by intro k' ⟨q, _, _, _, hip, hok⟩; exact podOK_ip q hok hip)
      (by
        intro _ ip' ⟨q, hq, hn, hk, _, _⟩
        have : q = p := hF.keys q hq p hpF hk
        rw [this] at hn
        exact hn (by simp))
    have hpcr : PCOK (podEvent c none p .add).1.byIP (podEvent c none p .add).1.ipBy
        (fun ip key => ∃ q ∈ F.pods, Ev.podAdd q ∉ r ∧ q.key = key ∧ q.ip = ip ∧ podOK q = true) := by
      apply hpc'.congr
      intro ip key
      by_cases hk : key = p.key
      · simp only [hk, if_true]
        constructor
        · intro hh'
          exact ⟨p, hpF, hnotin, rfl, hh'.2.2.symm, hh'.2.1⟩
        · intro ⟨q, hq, _, hqk, hqi, hqo⟩
          have : q = p := hF.keys q hq p hpF hqk
          subst this
          exact ⟨by simp, hqo, hqi.symm⟩
      · simp only [hk, if_false]
        constructor
        · intro ⟨q, hq, hn, hr⟩
          exact ⟨q, hq, fun hm => hn (List.mem_cons_of_mem _ hm), hr⟩
        · intro ⟨q, hq, hn, hqk, hr⟩
          refine ⟨q, hq, ?_, hqk, hr⟩
          intro hm
          cases List.mem_cons.mp hm with
          | inl he =>
            injection he with he
            rw [he] at hqk
            exact hk hqk.symm
          | inr hm => exact hn hm
    have hst2 : SameStores F (podEvent c none p .add).1 := by
      refine ⟨heff.svcs.trans h.st.1, heff.slices.trans h.st.2.1, heff.pods.trans h.st.2.2.1, heff.nodes.trans h.st.2.2.2.1, ?_⟩
      exact (podEvent_add_nss c p).trans h.st.2.2.2.2
    have hnc := h.nocached hF
    -- nothing cached at untargeted addresses afterwards either
    have hnc2 : ∀ sl ∈ c.slices, ∀ ea ∈ sl.addrPairs, ea.1.target = none →
        ∀ k, setContains (podEvent c none p .add).1.byIP ea.2 k = false := by
      intro sl hsl ea hea htg k
      cases hc : setContains (podEvent c none p .add).1.byIP ea.2 k with
      | false => rfl
      | true =>
        obtain ⟨q, hq, _, _, hip, _⟩ := (hpcr.mem ea.2 k).mp hc
        rw [h.st.2.1] at hsl
        exact absurd hip (hF.nopod sl hsl ea hea htg q hq)
    generalize hc2 : (podEvent c none p .add).1 = c2 at *
    refine ⟨hst2, ?_, hpcr, ?_⟩
    · refine ⟨?_, ?_, ?_, ?_, ?_, ?_, by rw [heff.cache]; exact h.inv.nodup⟩
      · intro y hy hs hnk
        rw [heff.slices] at hy
        have hnp : ¬ (Ev.slAdd y ∈ Ev.podAdd p :: r ∨ y.key ∈ ks) := by
          intro hp
          cases hp with
          | inl hp => exact hnk (Or.inl (mem_tail_of_ne hp (by simp)))
          | inr hp => exact hnk (Or.inr (List.mem_append_left _ hp))
        have hfresh := h.inv.fresh y hy hs hnp
        unfold EntryOK at hfresh ⊢
        rw [heff.cache, heff.pods, heff.nodes, heff.smap, hfresh]
        apply buildSlice_congr
        · intro _ _ _ _ _; rfl
        · intro ea hea htg
          rw [podByIP_empty _ _ _ _ (hnc y hy ea hea htg), podByIP_empty _ _ _ _ (hnc2 y hy ea hea htg)]
      · intro hh' n eps he
        rw [heff.cache] at he
        rw [heff.slices]
        exact h.inv.noForeign hh' n eps he
      · intro y hy hnk a ha
        rw [heff.slices] at hy
        rw [heff.pods] at ha
        have hnp : ¬ (Ev.slAdd y ∈ Ev.podAdd p :: r ∨ y.key ∈ ks) := by
          intro hp
          cases hp with
          | inl hp => exact hnk (Or.inl (mem_tail_of_ne hp (by simp)))
          | inr hp => exact hnk (Or.inr (List.mem_append_left _ hp))
        cases heff.resync a y.key (h.inv.parked y hy hnp a ha) with
        | inl hr => exact hr
        | inr hr => exact absurd (Or.inr (List.mem_append_right _ hr)) hnk
      · intro sv hsv hq
        rw [heff.svcs] at hsv
        rw [heff.smap]
        exact h.inv.smapSome sv hsv (fun hm => hq (mem_tail_of_ne hm (by simp)))
      · intro hh' sv hl
        rw [heff.smap] at hl
        rw [heff.svcs]
        exact h.inv.smapOnly hh' sv hl
      · intro hh'
        exact idxOK_unchanged c c2 hh' (by rw [heff.index]) (by rw [heff.cache]) (by rw [heff.smap]) (h.inv.index hh')
    · intro ⟨sv, hsv⟩ x hx
      exact mem_tail_of_ne (h.pend ⟨sv, List.mem_cons_of_mem _ hsv⟩ x hx) (by simp)

/-- all Add events, then what is left are the replays they queued -/
theorem cold_loop (F : Ctl) (hF : ColdHyp F) (rest : List Ev) :
    ∀ (ks : List String) (c : Ctl), ColdInv F rest ks c → (∀ e ∈ rest, ColdEv F e) → rest.Nodup → SvcBeforeSlice rest →
      ∃ ks', (runEvents c rest).2 = ks'.map Ev.replay ∧ ColdInv F [] (ks ++ ks') (runEvents c rest).1 := by
  induction rest with
  | nil =>
    intro ks c h _ _ _
    exact ⟨[], rfl, by rw [List.append_nil]; exact h⟩
  | cons e r ih =>
    intro ks c h hev hnd hord
    obtain ⟨ks1, h1, hi1⟩ := cold_step F hF e r ks c h (hev e (by simp)) hnd hord
    obtain ⟨ks2, h2, hi2⟩ := ih (ks ++ ks1) (handle c e).1 hi1 (fun x hx => hev x (List.mem_cons_of_mem _ hx))
      (List.nodup_cons.mp hnd).2 (List.pairwise_cons.mp hord).2
    refine ⟨ks1 ++ ks2, ?_, ?_⟩
    · simp only [runEvents, h1, h2, List.map_append]
    · simp only [runEvents]
      rw [← List.append_assoc]
      exact hi2

/-- the controller of a cold start: stores filled, every cache empty -/
def EmptyCaches (F : Ctl) : Prop :=
  F.smap = [] ∧ F.cache = [] ∧ F.byIP = [] ∧ F.ipBy = [] ∧ F.resync = [] ∧ F.index = []

/-- the queue of a cold start: one Add event per Service, EndpointSlice and Pod of the stores (and
    Namespace events), each once -/
structure ColdQueue (F : Ctl) (E : List Ev) : Prop where
  evs : ∀ e ∈ E, ColdEv F e
  nodup : E.Nodup
  svcs : ∀ sv ∈ F.svcs, Ev.svcAdd sv ∈ E
  slices : ∀ x ∈ F.slices, Ev.slAdd x ∈ E
  pods : ∀ p ∈ F.pods, Ev.podAdd p ∈ E

/-- **cold_start_inv (events).**  Stores ahead of every handler: whatever the order of the Add events
    (pods before or after the slices that refer to them, namespaces and pods anywhere), as long as no
    EndpointSlice event is handled before a Service event, the drained controller satisfies the same
    invariant as after a write-by-write history, and its pod cache is the function of the pods. -/
theorem cold_events_inv (F : Ctl) (E : List Ev) (hF : ColdHyp F) (he : EmptyCaches F) (hq : ColdQueue F E)
    (hord : SvcBeforeSlice E) :
    Inv (runAll F E) ∧ PodCacheOK (runAll F E) ∧ SameStores F (runAll F E) := by
  obtain ⟨hsmap, hcache, hbyip, hipby, hresync, hindex⟩ := he
  have h0 : ColdInv F E [] F := by
    refine ⟨⟨rfl, rfl, rfl, rfl, rfl⟩, ⟨?_, ?_, ?_, ?_, ?_, ?_, ?_⟩, ⟨?_, ?_⟩, fun _ => hq.slices⟩
    · intro x hx _ hnp; exact absurd (Or.inl (hq.slices x hx)) hnp
    · intro h n eps hce; simp [cacheEntry, hcache, alookup] at hce
    · intro x hx hnp; exact absurd (Or.inl (hq.slices x hx)) hnp
    · intro sv hsv hnq; exact absurd (hq.svcs sv hsv) hnq
    · intro h sv hl; simp [hsmap, alookup] at hl
    · intro h; simp [IdxOK, hindex, hsmap, alookup]
    · intro h per hl; simp [hcache, alookup] at hl
    · intro ip key
      constructor
      · intro hc; simp [hbyip, setContains, alookup] at hc
      · intro ⟨p, hp, hn, _⟩; exact absurd (hq.pods p hp) hn
    · intro key ip
      constructor
      · intro hl; simp [hipby, alookup] at hl
      · intro hc; simp [hbyip, setContains, alookup] at hc
  obtain ⟨ks', hks, hfin⟩ := cold_loop F hF E [] F h0 hq.evs hq.nodup hord
  rw [List.nil_append] at hfin
  have hwf := hfin.wf hF
  have hrun : runAll F E = (runEvents (runEvents F E).1 (ks'.map Ev.replay)).1 := by
    simp only [runAll, hks]
  rw [hrun]
  generalize (runEvents F E).1 = c2 at *
  have hexc : InvExcept c2 (fun x => False ∨ x.key ∈ ks') := by
    apply (hfin.inv.mono _).monoQ
    · intro sv _ hq'; cases hq'
    · intro x _ hp
      cases hp with
      | inl hp => cases hp
      | inr hp => exact Or.inr hp
  have hrs := replays_pc ks' c2
  refine ⟨(replays_inv ks' c2 (fun _ => False) hexc hwf).1, ?_, ?_⟩
  · unfold PodCacheOK
    rw [hrs.1, hrs.2.1, hrs.2.2.1, hfin.st.2.2.1]
    apply hfin.pc.congr
    intro ip key
    constructor
    · intro ⟨p, hp, _, hr⟩; exact ⟨p, hp, hr⟩
    · intro ⟨p, hp, hr⟩; exact ⟨p, hp, by simp, hr⟩
  · have hst := replays_stores ks' c2
    refine ⟨hst.2.2.2.1.trans hfin.st.1, hst.1.trans hfin.st.2.1, hst.2.2.1.trans hfin.st.2.2.1,
      hst.2.2.2.2.trans hfin.st.2.2.2.1, ?_⟩
    have hnss : ∀ (ks : List String) (c : Ctl), (runEvents c (ks.map Ev.replay)).1.nss = c.nss := by
      intro ks
      induction ks with
      | nil => intro c; rfl
      | cons k ks ih =>
        intro c
        simp only [List.map_cons, runEvents, handle]
        cases c.slices.find? (fun sl => sl.key = k) with
        | none => exact ih c
        | some sl =>
          simp only []
          rw [ih]
          cases hb : buildSlice c.pods c.nodes c.byIP (alookup sl.host c.smap) sl with
          | none => rw [sliceUpsert_none c none sl hb]
          | some eps => rw [sliceUpsert_some c none sl eps hb]
    exact (hnss ks' c2).trans hfin.st.2.2.2.2

/-! ### the model's own cold start (`coldRun`) -/

/-- what a create does while the queue is held: the store gets the object, the queue its Add event -/
def coldWrite (c : Ctl) : Op → Ctl × List Ev
  | .svc v => ({ c with svcs := upsertBy (fun x => x.ns = v.ns ∧ x.name = v.name) v c.svcs }, [.svcAdd v])
  | .slice v => ({ c with slices := upsertBy (fun x => x.ns = v.ns ∧ x.name = v.name) v c.slices }, [.slAdd v])
  | .pod v => ({ c with pods := upsertBy (fun x => x.ns = v.ns ∧ x.name = v.name) v c.pods }, [.podAdd v])
  | .node v => ({ c with nodes := upsertBy (fun x => x.name = v.name) v c.nodes }, [])
  | .ns v => ({ c with nss := upsertBy (fun x => x.name = v.name) v c.nss }, [.nsAdd v])
  | _ => (c, [])

/-- a create of an object that is not in the store yet (pods: visible to the informer) -/
def ColdOp (c : Ctl) : Op → Prop
  | .svc v => findSvc c.svcs v.ns v.name = none
  | .slice v => findSlice c.slices v.ns v.name = none
  | .pod v => v.phase ≠ "F" ∧ findPod c.pods v.ns v.name = none
  | .node _ => True
  | .ns v => c.nss.find? (fun n => n.name = v.name) = none
  | _ => False

def coldFold (c : Ctl) : List Op → Ctl × List Ev
  | [] => (c, [])
  | o :: r => ((coldFold (coldWrite c o).1 r).1, (coldWrite c o).2 ++ (coldFold (coldWrite c o).1 r).2)

/-- a list of creates of distinct objects -/
def ColdOps : Ctl → List Op → Prop
  | _, [] => True
  | c, o :: r => ColdOp c o ∧ ColdOps (coldWrite c o).1 r

theorem applyOp_held (s : State) (op : Op) (hh : s.held = true) (hc : ColdOp s.c op) :
    ∃ s', applyOp s op = some s' ∧ s'.c = (coldWrite s.c op).1 ∧ s'.queue = s.queue ++ (coldWrite s.c op).2 ∧
      s'.held = true := by
  cases op with
  | svc v =>
    have hc' : findSvc s.c.svcs v.ns v.name = none := hc
    exact ⟨_, rfl, by simp [writeSvc, enqueue, hh, coldWrite], by simp [writeSvc, enqueue, hh, coldWrite, hc'],
      by simp [writeSvc, enqueue, hh]⟩
  | slice v =>
    have hc' : findSlice s.c.slices v.ns v.name = none := hc
    exact ⟨_, rfl, by simp [writeSlice, enqueue, hh, coldWrite], by simp [writeSlice, enqueue, hh, coldWrite, hc'],
      by simp [writeSlice, enqueue, hh]⟩
  | pod v =>
    have hc' : v.phase ≠ "F" ∧ findPod s.c.pods v.ns v.name = none := hc
    exact ⟨_, rfl, by simp [writePod, writePodVisible, enqueue, hh, coldWrite, hc'.1],
      by simp [writePod, writePodVisible, enqueue, hh, coldWrite, hc'.1, hc'.2],
      by simp [writePod, writePodVisible, enqueue, hh, hc'.1]⟩
  | node v => exact ⟨_, rfl, by simp [writeNode, coldWrite], by simp [writeNode, coldWrite], by simp [writeNode, hh]⟩
  | ns v =>
    have hc' : s.c.nss.find? (fun n => n.name = v.name) = none := hc
    exact ⟨_, rfl, by simp [writeNs, enqueue, hh, coldWrite], by simp [writeNs, enqueue, hh, coldWrite, hc'],
      by simp [writeNs, enqueue, hh]⟩
  | delSvc _ _ => exact absurd hc (fun h => h)
  | delSlice _ _ => exact absurd hc (fun h => h)
  | delPod _ _ => exact absurd hc (fun h => h)
  | delNode _ => exact absurd hc (fun h => h)
  | delNs _ => exact absurd hc (fun h => h)
  | hold => exact absurd hc (fun h => h)
  | release => exact absurd hc (fun h => h)

theorem run_held (objs : List Op) : ∀ (s : State), s.held = true → ColdOps s.c objs →
    (run s objs).c = (coldFold s.c objs).1 ∧ (run s objs).queue = s.queue ++ (coldFold s.c objs).2 ∧
      (run s objs).held = true := by
  induction objs with
  | nil => intro s hh _; exact ⟨rfl, by simp [run, coldFold], hh⟩
  | cons o r ih =>
    intro s hh hc
    obtain ⟨s', hs', h1, h2, h3⟩ := applyOp_held s o hh hc.1
    simp only [run, hs', Option.getD]
    have := ih s' h3 (by rw [h1]; exact hc.2)
    rw [h1, h2] at this
    refine ⟨this.1, ?_, this.2.2⟩
    rw [this.2.1]
    simp [coldFold, List.append_assoc]

/-- the model's cold start is: stores filled by the creates, caches empty, then all Add events and the
    replays they queue -/
theorem coldRun_eq (objs : List Op) (hc : ColdOps {} objs) :
    (coldRun objs).c = runAll (coldFold {} objs).1 (coldFold {} objs).2 := by
  have := run_held objs (hold {}) rfl hc
  simp only [coldRun, release, drain]
  rw [this.1, this.2.1]
  rfl

theorem coldWrite_caches (c : Ctl) (o : Op) :
    (coldWrite c o).1.smap = c.smap ∧ (coldWrite c o).1.cache = c.cache ∧ (coldWrite c o).1.byIP = c.byIP ∧
    (coldWrite c o).1.ipBy = c.ipBy ∧ (coldWrite c o).1.resync = c.resync ∧ (coldWrite c o).1.index = c.index := by
  cases o <;> exact ⟨rfl, rfl, rfl, rfl, rfl, rfl⟩

theorem coldFold_caches (objs : List Op) : ∀ c, EmptyCaches c → EmptyCaches (coldFold c objs).1 := by
  induction objs with
  | nil => intro c h; exact h
  | cons o r ih =>
    intro c h
    apply ih
    have := coldWrite_caches c o
    unfold EmptyCaches at *
    rw [this.1, this.2.1, this.2.2.1, this.2.2.2.1, this.2.2.2.2.1, this.2.2.2.2.2]
    exact h

theorem mem_upsert_of_none {α : Type} (same : α → Bool) (v x : α) (l : List α) (hn : l.find? same = none)
    (hx : x ∈ l) : x ∈ upsertBy same v l :=
  mem_upsertBy_of_mem same v x l hx (by simpa using List.find?_eq_none.mp hn x hx)

/-- a create keeps what the stores hold -/
theorem coldWrite_mono (c : Ctl) (o : Op) (hc : ColdOp c o) :
    (∀ x ∈ c.svcs, x ∈ (coldWrite c o).1.svcs) ∧ (∀ x ∈ c.slices, x ∈ (coldWrite c o).1.slices) ∧
    (∀ x ∈ c.pods, x ∈ (coldWrite c o).1.pods) ∧ (∀ x ∈ c.nss, x ∈ (coldWrite c o).1.nss) := by
  cases o with
  | svc v => exact ⟨fun x hx => mem_upsert_of_none _ v x _ hc hx, fun _ h => h, fun _ h => h, fun _ h => h⟩
  | slice v => exact ⟨fun _ h => h, fun x hx => mem_upsert_of_none _ v x _ hc hx, fun _ h => h, fun _ h => h⟩
  | pod v => exact ⟨fun _ h => h, fun _ h => h, fun x hx => mem_upsert_of_none _ v x _ hc.2 hx, fun _ h => h⟩
  | ns v => exact ⟨fun _ h => h, fun _ h => h, fun _ h => h, fun x hx => mem_upsert_of_none _ v x _ hc hx⟩
  | node v => exact ⟨fun _ h => h, fun _ h => h, fun _ h => h, fun _ h => h⟩
  | delSvc _ _ => exact absurd hc (fun h => h)
  | delSlice _ _ => exact absurd hc (fun h => h)
  | delPod _ _ => exact absurd hc (fun h => h)
  | delNode _ => exact absurd hc (fun h => h)
  | delNs _ => exact absurd hc (fun h => h)
  | hold => exact absurd hc (fun h => h)
  | release => exact absurd hc (fun h => h)

theorem find_none_of_sub {α : Type} (l l' : List α) (p : α → Bool) (hs : ∀ x ∈ l, x ∈ l') (h : l'.find? p = none) :
    l.find? p = none := by
  rw [List.find?_eq_none] at *
  intro x hx
  exact h x (hs x hx)

/-- the events of the creates: Add events of objects of the final stores, one per object, each once,
    and only for objects that were not in the stores before -/
theorem coldFold_facts (objs : List Op) : ∀ c, ColdOps c objs →
    ((∀ x ∈ c.svcs, x ∈ (coldFold c objs).1.svcs) ∧ (∀ x ∈ c.slices, x ∈ (coldFold c objs).1.slices) ∧
     (∀ x ∈ c.pods, x ∈ (coldFold c objs).1.pods) ∧ (∀ x ∈ c.nss, x ∈ (coldFold c objs).1.nss)) ∧
    (∀ e ∈ (coldFold c objs).2, ColdEv (coldFold c objs).1 e) ∧
    ((∀ x ∈ (coldFold c objs).1.svcs, x ∈ c.svcs ∨ Ev.svcAdd x ∈ (coldFold c objs).2) ∧
     (∀ x ∈ (coldFold c objs).1.slices, x ∈ c.slices ∨ Ev.slAdd x ∈ (coldFold c objs).2) ∧
     (∀ x ∈ (coldFold c objs).1.pods, x ∈ c.pods ∨ Ev.podAdd x ∈ (coldFold c objs).2)) ∧
    ((∀ v, Ev.svcAdd v ∈ (coldFold c objs).2 → findSvc c.svcs v.ns v.name = none) ∧
     (∀ v, Ev.slAdd v ∈ (coldFold c objs).2 → findSlice c.slices v.ns v.name = none) ∧
     (∀ v, Ev.podAdd v ∈ (coldFold c objs).2 → findPod c.pods v.ns v.name = none) ∧
     (∀ v, Ev.nsAdd v ∈ (coldFold c objs).2 → c.nss.find? (fun n => n.name = v.name) = none)) ∧
    (coldFold c objs).2.Nodup := by
  induction objs with
  | nil =>
    intro c _
    simp only [coldFold]
    refine ⟨⟨fun _ h => h, fun _ h => h, fun _ h => h, fun _ h => h⟩, by simp, ⟨fun _ h => Or.inl h, fun _ h => Or.inl h, fun _ h => Or.inl h⟩,
      ⟨by simp, by simp, by simp, by simp⟩, List.nodup_nil⟩
  | cons o r ih =>
    intro c hc
    obtain ⟨hmono, hev, hcomp, habs, hnd⟩ := ih (coldWrite c o).1 hc.2
    have hm := coldWrite_mono c o hc.1
    simp only [coldFold]
    generalize hF : (coldFold (coldWrite c o).1 r).1 = F at *
    generalize hE : (coldFold (coldWrite c o).1 r).2 = E at *
    refine ⟨⟨fun x hx => hmono.1 x (hm.1 x hx), fun x hx => hmono.2.1 x (hm.2.1 x hx),
      fun x hx => hmono.2.2.1 x (hm.2.2.1 x hx), fun x hx => hmono.2.2.2 x (hm.2.2.2 x hx)⟩, ?_, ?_, ?_, ?_⟩
    · -- every event is an Add of a final object
      intro e he
      cases List.mem_append.mp he with
      | inr he => exact hev e he
      | inl he =>
        cases o with
        | svc v =>
          simp only [coldWrite, List.mem_singleton] at he
          subst he
          exact hmono.1 v (mem_upsertBy_self _ v c.svcs)
        | slice v =>
          simp only [coldWrite, List.mem_singleton] at he
          subst he
          exact hmono.2.1 v (mem_upsertBy_self _ v c.slices)
        | pod v =>
          simp only [coldWrite, List.mem_singleton] at he
          subst he
          exact hmono.2.2.1 v (mem_upsertBy_self _ v c.pods)
        | ns v =>
          simp only [coldWrite, List.mem_singleton] at he
          subst he
          trivial
        | node v => simp [coldWrite] at he
        | delSvc _ _ => exact absurd hc.1 (fun h => h)
        | delSlice _ _ => exact absurd hc.1 (fun h => h)
        | delPod _ _ => exact absurd hc.1 (fun h => h)
        | delNode _ => exact absurd hc.1 (fun h => h)
        | delNs _ => exact absurd hc.1 (fun h => h)
        | hold => exact absurd hc.1 (fun h => h)
        | release => exact absurd hc.1 (fun h => h)
    · -- every final object was there or has its event
      refine ⟨?_, ?_, ?_⟩
      · intro x hx
        cases hcomp.1 x hx with
        | inr h => exact Or.inr (List.mem_append_right _ h)
        | inl h =>
          cases o with
          | svc v =>
            cases mem_upsertBy _ v x c.svcs h with
            | inl h => subst h; exact Or.inr (List.mem_append_left _ (by simp [coldWrite]))
            | inr h => exact Or.inl h
          | slice v => exact Or.inl h
          | pod v => exact Or.inl h
          | ns v => exact Or.inl h
          | node v => exact Or.inl h
          | delSvc _ _ => exact absurd hc.1 (fun h => h)
          | delSlice _ _ => exact absurd hc.1 (fun h => h)
          | delPod _ _ => exact absurd hc.1 (fun h => h)
          | delNode _ => exact absurd hc.1 (fun h => h)
          | delNs _ => exact absurd hc.1 (fun h => h)
          | hold => exact absurd hc.1 (fun h => h)
          | release => exact absurd hc.1 (fun h => h)
      · intro x hx
        cases hcomp.2.1 x hx with
        | inr h => exact Or.inr (List.mem_append_right _ h)
        | inl h =>
          cases o with
          | slice v =>
            cases mem_upsertBy _ v x c.slices h with
            | inl h => subst h; exact Or.inr (List.mem_append_left _ (by simp [coldWrite]))
            | inr h => exact Or.inl h
          | svc v => exact Or.inl h
          | pod v => exact Or.inl h
          | ns v => exact Or.inl h
          | node v => exact Or.inl h
          | delSvc _ _ => exact absurd hc.1 (fun h => h)
          | delSlice _ _ => exact absurd hc.1 (fun h => h)
          | delPod _ _ => exact absurd hc.1 (fun h => h)
          | delNode _ => exact absurd hc.1 (fun h => h)
          | delNs _ => exact absurd hc.1 (fun h => h)
          | hold => exact absurd hc.1 (fun h => h)
          | release => exact absurd hc.1 (fun h => h)
      · intro x hx
        cases hcomp.2.2 x hx with
        | inr h => exact Or.inr (List.mem_append_right _ h)
        | inl h =>
          cases o with
          | pod v =>
            cases mem_upsertBy _ v x c.pods h with
            | inl h => subst h; exact Or.inr (List.mem_append_left _ (by simp [coldWrite]))
            | inr h => exact Or.inl h
          | svc v => exact Or.inl h
          | slice v => exact Or.inl h
          | ns v => exact Or.inl h
          | node v => exact Or.inl h
          | delSvc _ _ => exact absurd hc.1 (fun h => h)
          | delSlice _ _ => exact absurd hc.1 (fun h => h)
          | delPod _ _ => exact absurd hc.1 (fun h => h)
          | delNode _ => exact absurd hc.1 (fun h => h)
          | delNs _ => exact absurd hc.1 (fun h => h)
          | hold => exact absurd hc.1 (fun h => h)
          | release => exact absurd hc.1 (fun h => h)
    · -- an event's object was not in the stores before
      refine ⟨?_, ?_, ?_, ?_⟩
      · intro v hv
        cases List.mem_append.mp hv with
        | inr h => exact find_none_of_sub _ _ _ hm.1 (habs.1 v h)
        | inl h =>
          cases o with
          | svc w =>
            simp only [coldWrite, List.mem_singleton, Ev.svcAdd.injEq] at h
            subst h; exact hc.1
          | slice w => simp [coldWrite] at h
          | pod w => simp [coldWrite] at h
          | ns w => simp [coldWrite] at h
          | node w => simp [coldWrite] at h
          | delSvc _ _ => exact absurd hc.1 (fun h => h)
          | delSlice _ _ => exact absurd hc.1 (fun h => h)
          | delPod _ _ => exact absurd hc.1 (fun h => h)
          | delNode _ => exact absurd hc.1 (fun h => h)
          | delNs _ => exact absurd hc.1 (fun h => h)
          | hold => exact absurd hc.1 (fun h => h)
          | release => exact absurd hc.1 (fun h => h)
      · intro v hv
        cases List.mem_append.mp hv with
        | inr h => exact find_none_of_sub _ _ _ hm.2.1 (habs.2.1 v h)
        | inl h =>
          cases o with
          | slice w =>
            simp only [coldWrite, List.mem_singleton, Ev.slAdd.injEq] at h
            subst h; exact hc.1
          | svc w => simp [coldWrite] at h
          | pod w => simp [coldWrite] at h
          | ns w => simp [coldWrite] at h
          | node w => simp [coldWrite] at h
          | delSvc _ _ => exact absurd hc.1 (fun h => h)
          | delSlice _ _ => exact absurd hc.1 (fun h => h)
          | delPod _ _ => exact absurd hc.1 (fun h => h)
          | delNode _ => exact absurd hc.1 (fun h => h)
          | delNs _ => exact absurd hc.1 (fun h => h)
          | hold => exact absurd hc.1 (fun h => h)
          | release => exact absurd hc.1 (fun h => h)
      · intro v hv
        cases List.mem_append.mp hv with
        | inr h => exact find_none_of_sub _ _ _ hm.2.2.1 (habs.2.2.1 v h)
        | inl h =>
          cases o with
          | pod w =>
            simp only [coldWrite, List.mem_singleton, Ev.podAdd.injEq] at h
            subst h; exact hc.1.2
          | svc w => simp [coldWrite] at h
          | slice w => simp [coldWrite] at h
          | ns w => simp [coldWrite] at h
          | node w => simp [coldWrite] at h
          | delSvc _ _ => exact absurd hc.1 (fun h => h)
          | delSlice _ _ => exact absurd hc.1 (fun h => h)
          | delPod _ _ => exact absurd hc.1 (fun h => h)
          | delNode _ => exact absurd hc.1 (fun h => h)
          | delNs _ => exact absurd hc.1 (fun h => h)
          | hold => exact absurd hc.1 (fun h => h)
          | release => exact absurd hc.1 (fun h => h)
      · intro v hv
        cases List.mem_append.mp hv with
        | inr h => exact find_none_of_sub _ _ _ hm.2.2.2 (habs.2.2.2 v h)
        | inl h =>
          cases o with
          | ns w =>
            simp only [coldWrite, List.mem_singleton, Ev.nsAdd.injEq] at h
            subst h; exact hc.1
          | svc w => simp [coldWrite] at h
          | slice w => simp [coldWrite] at h
          | pod w => simp [coldWrite] at h
          | node w => simp [coldWrite] at h
          | delSvc _ _ => exact absurd hc.1 (fun h => h)
          | delSlice _ _ => exact absurd hc.1 (fun h => h)
          | delPod _ _ => exact absurd hc.1 (fun h => h)
          | delNode _ => exact absurd hc.1 (fun h => h)
          | delNs _ => exact absurd hc.1 (fun h => h)
          | hold => exact absurd hc.1 (fun h => h)
          | release => exact absurd hc.1 (fun h => h)
    · -- each event once
      rw [List.nodup_append]
      refine ⟨?_, hnd, ?_⟩
      · cases o <;> simp [coldWrite]
      · intro a ha b hb hab
        subst hab
        cases o with
        | svc v =>
          simp only [coldWrite, List.mem_singleton] at ha
          subst ha
          have := habs.1 v hb
          have hmem : v ∈ (coldWrite c (.svc v)).1.svcs := mem_upsertBy_self _ v c.svcs
          have := List.find?_eq_none.mp this v hmem
          simp at this
        | slice v =>
          simp only [coldWrite, List.mem_singleton] at ha
          subst ha
          have := habs.2.1 v hb
          have hmem : v ∈ (coldWrite c (.slice v)).1.slices := mem_upsertBy_self _ v c.slices
          have := List.find?_eq_none.mp this v hmem
          simp at this
        | pod v =>
          simp only [coldWrite, List.mem_singleton] at ha
          subst ha
          have := habs.2.2.1 v hb
          have hmem : v ∈ (coldWrite c (.pod v)).1.pods := mem_upsertBy_self _ v c.pods
          have := List.find?_eq_none.mp this v hmem
          simp at this
        | ns v =>
          simp only [coldWrite, List.mem_singleton] at ha
          subst ha
          have := habs.2.2.2 v hb
          have hmem : v ∈ (coldWrite c (.ns v)).1.nss := mem_upsertBy_self _ v c.nss
          have := List.find?_eq_none.mp this v hmem
          simp at this
        | node v => simp [coldWrite] at ha
        | delSvc _ _ => exact absurd hc.1 (fun h => h)
        | delSlice _ _ => exact absurd hc.1 (fun h => h)
        | delPod _ _ => exact absurd hc.1 (fun h => h)
        | delNode _ => exact absurd hc.1 (fun h => h)
        | delNs _ => exact absurd hc.1 (fun h => h)
        | hold => exact absurd hc.1 (fun h => h)
        | release => exact absurd hc.1 (fun h => h)

theorem upsertBy_absent {α : Type} (same : α → Bool) (v : α) (l : List α) (h : l.find? same = none) :
    upsertBy same v l = l ++ [v] := by
  induction l with
  | nil => rfl
  | cons x r ih =>
    have hx : same x = false := by simpa using List.find?_eq_none.mp h x (by simp)
    have hr : r.find? same = none := by
      rw [List.find?_eq_none] at *
      intro y hy; exact h y (List.mem_cons_of_mem _ hy)
    simp [upsertBy, hx, ih hr]

theorem coldFold_slices_nodup (objs : List Op) : ∀ c, c.slices.Nodup → ColdOps c objs → (coldFold c objs).1.slices.Nodup := by
  induction objs with
  | nil => intro c h _; exact h
  | cons o r ih =>
    intro c h hc
    apply ih _ _ hc.2
    cases o with
    | slice v =>
      have hn : findSlice c.slices v.ns v.name = none := hc.1
      show (upsertBy _ v c.slices).Nodup
      rw [upsertBy_absent _ v c.slices hn]
      rw [List.nodup_append]
      refine ⟨h, by simp, ?_⟩
      intro a ha b hb hab
      simp only [List.mem_singleton] at hb
      subst hb; subst hab
      have := List.find?_eq_none.mp hn a ha
      simp at this
    | svc v => exact h
    | pod v => exact h
    | ns v => exact h
    | node v => exact h
    | delSvc _ _ => exact h
    | delSlice _ _ => exact h
    | delPod _ _ => exact h
    | delNode _ => exact h
    | delNs _ => exact h
    | hold => exact h
    | release => exact h

/-- **cold_start_inv.**  The model's own cold start (`coldRun`: every object created while the handlers
    are held, then the queue released): for creates of distinct objects in ANY order in which no
    EndpointSlice precedes a Service, the controller ends with caches that are the handler-function of
    the objects, the pod cache the function of the pods, and the stores holding the objects.  Side
    conditions on the objects: faithful names, no endpoint without targetRef at a pod's address, no
    namespace-wide traffic-distribution annotation. -/
theorem cold_start_inv (objs : List Op) (hc : ColdOps {} objs) (hF : ColdHyp (coldFold {} objs).1)
    (hord : SvcBeforeSlice (coldFold {} objs).2) :
    Inv (coldRun objs).c ∧ PodCacheOK (coldRun objs).c ∧ SameStores (coldFold {} objs).1 (coldRun objs).c := by
  rw [coldRun_eq objs hc]
  obtain ⟨_, hev, hcomp, _, hnd⟩ := coldFold_facts objs {} hc
  apply cold_events_inv _ _ hF (coldFold_caches objs {} ⟨rfl, rfl, rfl, rfl, rfl, rfl⟩) _ hord
  refine ⟨hev, hnd, ?_, ?_, ?_⟩
  · intro x hx
    cases hcomp.1 x hx with
    | inl h => cases h
    | inr h => exact h
  · intro x hx
    cases hcomp.2.1 x hx with
    | inl h => cases h
    | inr h => exact h
  · intro x hx
    cases hcomp.2.2 x hx with
    | inl h => cases h
    | inr h => exact h

theorem derive_of_stores (c d : Ctl) (h : String) (hs : SameStores c d) : derive d h = derive c h := by
  unfold derive deriveAll deriveEntries
  rw [hs.1, hs.2.1, hs.2.2.1, hs.2.2.2.1]

/-- **cold_start_eq_derive.**  The model's cold start shows, for every hostname, what the spec `derive`
    computes from the objects: `derive` is the cold start. -/
theorem cold_start_eq_derive (objs : List Op) (h : String) (hc : ColdOps {} objs)
    (hF : ColdHyp (coldFold {} objs).1) (hord : SvcBeforeSlice (coldFold {} objs).2) :
    ViewAgree (hostView (coldRun objs).c h) (derive (coldFold {} objs).1 h) := by
  obtain ⟨hinv, hpc, hst⟩ := cold_start_inv objs hc hF hord
  rw [← derive_of_stores _ _ h hst]
  apply view_eq_derive _ h hinv (hF.wf.of_stores hst.2.1 hst.1 hst.2.2.1) hpc
  · intro sl hsl ea hea htg p hp
    rw [hst.2.1] at hsl
    rw [hst.2.2.1] at hp
    exact hF.nopod sl hsl ea hea htg p hp
  · rw [hst.2.1]
    exact coldFold_slices_nodup objs {} List.nodup_nil hc

/-- **any_order_eq_cold_start** (the property as stated).  Every good history - any interleaving of the
    per-kind streams, each write handled before the next - after which no slice is stale or waiting shows, for
    every hostname, the same Service, the same endpoint list and (with endpoints) the same service
    accounts as the model's cold start on the same final objects. -/
theorem any_order_eq_cold_start (ops objs : List Op) (h : String)
    (hgood : AllGood {} [] [] ops) (hstale : staleRun {} [] [] ops = []) (hwait : waitRun {} [] [] ops = [])
    (hc : ColdOps {} objs) (hF : ColdHyp (coldFold {} objs).1) (hord : SvcBeforeSlice (coldFold {} objs).2)
    (hso : SameObjects (run {} ops).c (coldFold {} objs).1)
    (hwf : WF (run {} ops).c) (hnu : NodesUnique (coldFold {} objs).1)
    (hnp : NoPodAtUntargeted (run {} ops).c) (hnd : (run {} ops).c.slices.Nodup) :
    ViewAgree (hostView (run {} ops).c h) (hostView (coldRun objs).c h) := by
  have v1 := convergence_to_derive ops h hgood hstale hwait hwf hnp hnd
  have v2 := cold_start_eq_derive objs h hc hF hord
  rw [derive_congr _ _ h hso hwf hF.wf hnu hnp hF.nopod hnd
    (coldFold_slices_nodup objs {} List.nodup_nil hc)] at v1
  exact v1.trans_symm v2

end IstioModel.C15
