import IstioModel.C15.Sync

/-!
# C15 - Pod events: what `PodCache.onEvent` does to the other caches

Without a label change, a pod event touches only the pod cache and `needResync`; every slice it
removes from `needResync` is queued for replay.
-/
namespace IstioModel.C15

/-- `c2` differs from `c` only in the pod cache and in `needResync`, and every registration removed
    from `needResync` is among the replays `ks`. -/
structure PodEff (c c2 : Ctl) (ks : List String) : Prop where
  slices : c2.slices = c.slices
  svcs : c2.svcs = c.svcs
  pods : c2.pods = c.pods
  nodes : c2.nodes = c.nodes
  smap : c2.smap = c.smap
  cache : c2.cache = c.cache
  index : c2.index = c.index
  resync : ∀ a k, setContains c.resync a k = true → setContains c2.resync a k = true ∨ k ∈ ks
  sub : ∀ a k, setContains c2.resync a k = true → setContains c.resync a k = true

theorem PodEff.refl (c : Ctl) : PodEff c c [] :=
  ⟨rfl, rfl, rfl, rfl, rfl, rfl, rfl, fun _ _ h => Or.inl h, fun _ _ h => h⟩

theorem PodEff.trans {c c2 c3 : Ctl} {ks ks' : List String} (h1 : PodEff c c2 ks) (h2 : PodEff c2 c3 ks') :
    PodEff c c3 (ks ++ ks') := by
  refine ⟨h2.slices.trans h1.slices, h2.svcs.trans h1.svcs, h2.pods.trans h1.pods, h2.nodes.trans h1.nodes,
    h2.smap.trans h1.smap, h2.cache.trans h1.cache, h2.index.trans h1.index, ?_, fun a k h => h1.sub a k (h2.sub a k h)⟩
  intro a k h
  cases h1.resync a k h with
  | inl h =>
    cases h2.resync a k h with
    | inl h => exact Or.inl h
    | inr h => exact Or.inr (List.mem_append_right _ h)
  | inr h => exact Or.inr (List.mem_append_left _ h)

theorem setContains_aerase (m : List (String × List String)) (ip a k : String) :
    setContains (aerase ip m) a k = (!(a == ip) && setContains m a k) := by
  unfold setContains
  rw [alookup_aerase]
  by_cases h : a = ip
  · simp [h]
  · simp [h]

/-- `queueWaitingEndpointEvents`: everything registered under `ip` is replayed, nothing else changes. -/
theorem takeWaiting_eff (c : Ctl) (ip : String) :
    ∃ ks, (takeWaiting c ip).2 = ks.map Ev.replay ∧ PodEff c (takeWaiting c ip).1 ks ∧
      (takeWaiting c ip).1.byIP = c.byIP ∧ (takeWaiting c ip).1.ipBy = c.ipBy ∧
      (∀ k, setContains c.resync ip k = true → k ∈ ks) ∧
      (∀ k, setContains (takeWaiting c ip).1.resync ip k = false) := by
  unfold takeWaiting
  cases hl : alookup ip c.resync with
  | none =>
    refine ⟨[], rfl, PodEff.refl c, rfl, rfl, ?_, ?_⟩
    · intro k hk
      simp [setContains, hl] at hk
    · intro k
      simp [setContains, hl]
  | some keys =>
    refine ⟨keys, rfl, ⟨rfl, rfl, rfl, rfl, rfl, rfl, rfl, ?_, ?_⟩, rfl, rfl, ?_, ?_⟩
    rotate_left
    · intro a k h
      have h' : setContains (aerase ip c.resync) a k = true := h
      rw [setContains_aerase] at h'
      simp only [Bool.and_eq_true] at h'
      exact h'.2
    rotate_left
    · intro k
      show setContains (aerase ip c.resync) ip k = false
      rw [setContains_aerase]
      simp
    · intro a k h
      show setContains (aerase ip c.resync) a k = true ∨ k ∈ keys
      rw [setContains_aerase]
      by_cases ha : a = ip
      · right
        subst ha
        simp only [setContains, hl] at h
        simpa using h
      · left
        simp [ha, h]
    · intro k hk
      simp only [setContains, hl] at hk
      simpa using hk

theorem deleteIP_eff (c : Ctl) (ip key : String) : PodEff c (deleteIP c ip key).1 [] := by
  unfold deleteIP
  simp only []
  split
  · exact ⟨rfl, rfl, rfl, rfl, rfl, rfl, rfl, fun _ _ h => Or.inl h, fun _ _ h => h⟩
  · exact PodEff.refl c

/-- `addPod` without a label update -/
theorem addPod_eff (c : Ctl) (p : Pod) (ip : String) :
    ∃ ks, (addPod c p ip false).2 = ks.map Ev.replay ∧ PodEff c (addPod c p ip false).1 ks := by
  unfold addPod
  split
  · exact ⟨[], rfl, by simpa using PodEff.refl c⟩
  · have h12 : PodEff c (cachePod c p.key ip) [] :=
      ⟨rfl, rfl, rfl, rfl, rfl, rfl, rfl, fun _ _ h => Or.inl h, fun _ _ h => h⟩
    obtain ⟨ks, hks, heff, _, _, _, _⟩ := takeWaiting_eff (cachePod c p.key ip) ip
    exact ⟨ks, hks, by simpa using h12.trans heff⟩

/-- the pod event does not reach `recomputeServiceForPod`: the labels are unchanged, or the pod is not
    (going to be) ready, or the pod cache does not hold it under its IP yet -/
def NoRecompute (c : Ctl) (old : Option Pod) (p : Pod) : Prop :=
  labelsChanged old p = false ∨ (podShouldBeIn p && p.ready) = false ∨ setContains c.byIP p.ip p.key = false

theorem NoRecompute.of_labels (c : Ctl) (old : Option Pod) (p : Pod) (hlab : ∀ o, old = some o → o.labels = p.labels) :
    NoRecompute c old p := by
  left
  unfold labelsChanged
  cases old with
  | none => rfl
  | some o => simp [hlab o rfl]

/-- a pod the cache does not hold under `ip` is added the same way whatever the label flag -/
theorem addPod_flag (c : Ctl) (p : Pod) (ip : String) (b : Bool) (h : setContains c.byIP ip p.key = false) :
    addPod c p ip b = addPod c p ip false := by
  unfold addPod
  simp [h]

/-- `PodCache.onEvent` when `recomputeServiceForPod` is not reached: only the pod cache and `needResync`
    move, and for an add/update of a pod with an IP every slice registered under that IP is replayed. -/
theorem podEvent_eff (c : Ctl) (old : Option Pod) (p : Pod) (k : PodEvKind)
    (hnr : NoRecompute c old p) :
    ∃ ks, (podEvent c old p k).2 = ks.map Ev.replay ∧ PodEff c (podEvent c old p k).1 ks ∧
      (k ≠ .del → p.ip ≠ "" → ∀ k', setContains c.resync p.ip k' = true → k' ∈ ks) ∧
      (k ≠ .del → p.ip ≠ "" → ∀ k', setContains (podEvent c old p k).1.resync p.ip k' = false) := by
  unfold podEvent
  simp only []
  by_cases hip : (if p.ip = "" then (alookup p.key c.ipBy).getD "" else p.ip) = ""
  · rw [if_pos hip]
    refine ⟨[], rfl, PodEff.refl c, ?_, ?_⟩
    · intro _ hne; simp [hne] at hip
    · intro _ hne; simp [hne] at hip
  · rw [if_neg hip]
    generalize hipv : (if p.ip = "" then (alookup p.key c.ipBy).getD "" else p.ip) = ip at *
    have hipeq : p.ip ≠ "" → ip = p.ip := by
      intro hne; rw [← hipv]; simp [hne]
    cases k with
    | del =>
      simp only [if_true]
      exact ⟨[], rfl, deleteIP_eff c ip p.key, fun h => absurd rfl h, fun h => absurd rfl h⟩
    | add =>
      obtain ⟨ks, hks, heff, _, _, hall, herased⟩ := takeWaiting_eff c ip
      have hall' : p.ip ≠ "" → ∀ k', setContains c.resync p.ip k' = true → k' ∈ ks := by
        intro hne k' hk'
        rw [← hipeq hne] at hk'
        exact hall k' hk'
      simp only [reduceCtorEq, if_false]
      split
      · obtain ⟨ks2, hks2, heff2⟩ := addPod_eff (takeWaiting c ip).1 p ip
        refine ⟨ks ++ ks2, by simp [hks, hks2], heff.trans heff2, ?_, ?_⟩
        · intro _ hne k' hk'
          exact List.mem_append_left _ (hall' hne k' hk')
        · intro _ hne k'
          rw [← hipeq hne]
          cases hc : setContains (addPod (takeWaiting c ip).1 p ip false).1.resync ip k' with
          | false => rfl
          | true =>
            have := heff2.sub ip k' hc
            rw [herased k'] at this
            cases this
      · refine ⟨ks, hks, heff, fun _ hne => hall' hne, ?_⟩
        intro _ hne k'
        rw [← hipeq hne]
        exact herased k'
    | upd =>
      obtain ⟨ks, hks, heff, hby, _, hall, herased⟩ := takeWaiting_eff c ip
      have hall' : p.ip ≠ "" → ∀ k', setContains c.resync p.ip k' = true → k' ∈ ks := by
        intro hne k' hk'
        rw [← hipeq hne] at hk'
        exact hall k' hk'
      simp only [reduceCtorEq, if_false]
      split
      · have hd := deleteIP_eff (takeWaiting c ip).1 ip p.key
        refine ⟨ks, hks, by simpa using heff.trans hd, fun _ hne => hall' hne, ?_⟩
        intro _ hne k'
        rw [← hipeq hne]
        cases hc : setContains (deleteIP (takeWaiting c ip).1 ip p.key).1.resync ip k' with
        | false => rfl
        | true =>
          have := hd.sub ip k' hc
          rw [herased k'] at this
          cases this
      · rename_i hok
        have hbf : addPod (takeWaiting c ip).1 p ip (labelsChanged old p) = addPod (takeWaiting c ip).1 p ip false := by
          cases hnr with
          | inl h => rw [h]
          | inr h =>
            cases h with
            | inl h => rw [h] at hok; simp at hok
            | inr h =>
              apply addPod_flag
              have hpip : p.ip ≠ "" := by
                intro hz
                simp [podShouldBeIn, hz] at hok
              rw [hby, hipeq hpip]
              exact h
        rw [hbf]
        obtain ⟨ks2, hks2, heff2⟩ := addPod_eff (takeWaiting c ip).1 p ip
        refine ⟨ks ++ ks2, by simp [hks, hks2], heff.trans heff2, ?_, ?_⟩
        · intro _ hne k' hk'
          exact List.mem_append_left _ (hall' hne k' hk')
        · intro _ hne k'
          rw [← hipeq hne]
          cases hc : setContains (addPod (takeWaiting c ip).1 p ip false).1.resync ip k' with
          | false => rfl
          | true =>
            have := heff2.sub ip k' hc
            rw [herased k'] at this
            cases this

/-- the IP `PodCache.onEvent` works with: the pod's, or the one the cache remembers for a pod without IP -/
def effIP (c : Ctl) (p : Pod) : String := if p.ip = "" then (alookup p.key c.ipBy).getD "" else p.ip

/-- an add/update event of a pod replays every slice registered in `needResync` under the event's IP -/
theorem podEvent_replays_waiting (c : Ctl) (old : Option Pod) (p : Pod) (k : PodEvKind) (hk : k ≠ .del)
    (k' : String) (h : setContains c.resync (effIP c p) k' = true) (hne : effIP c p ≠ "") :
    Ev.replay k' ∈ (podEvent c old p k).2 := by
  unfold effIP at h hne
  have htw : Ev.replay k' ∈ (takeWaiting c (if p.ip = "" then (alookup p.key c.ipBy).getD "" else p.ip)).2 := by
    unfold takeWaiting
    unfold setContains at h
    cases hl : alookup (if p.ip = "" then (alookup p.key c.ipBy).getD "" else p.ip) c.resync with
    | none => rw [hl] at h; cases h
    | some keys =>
      rw [hl] at h
      simp only []
      rw [List.mem_map]
      exact ⟨k', by simpa using h, rfl⟩
  unfold podEvent
  simp only []
  rw [if_neg hne]
  cases k with
  | del => exact absurd rfl hk
  | add =>
    simp only [reduceCtorEq, if_false]
    split
    · exact List.mem_append_left _ htw
    · exact htw
  | upd =>
    simp only [reduceCtorEq, if_false]
    split
    · exact htw
    · exact List.mem_append_left _ htw

/-! ### store lemmas for pods -/

theorem find_upsertBy_other {α : Type} (same q : α → Bool) (v : α) (l : List α)
    (hv : q v = false) (hs : ∀ x, same x = true → q x = false) :
    (upsertBy same v l).find? q = l.find? q := by
  induction l with
  | nil => simp [upsertBy, hv]
  | cons x r ih =>
    unfold upsertBy
    by_cases hx : same x = true
    · simp [hx, hv, hs x hx]
    · simp only [hx]
      simp only [List.find?_cons, ih, Bool.false_eq_true, if_false]

theorem find_filter_other {α : Type} (drop q : α → Bool) (l : List α)
    (hs : ∀ x, drop x = true → q x = false) :
    (l.filter (fun x => !drop x)).find? q = l.find? q := by
  induction l with
  | nil => rfl
  | cons x r ih =>
    by_cases hx : drop x = true
    · simp [List.filter_cons, hx, hs x hx, ih]
    · simp only [Bool.not_eq_true] at hx
      simp [List.filter_cons, hx, List.find?_cons, ih]

theorem localityOf_congr (nodes : List Node) (p q : Pod) (h : p.node = q.node) (hl : p.labels = q.labels) :
    localityOf nodes p = localityOf nodes q := by
  unfold localityOf; rw [h, hl]

/-- replays touch neither the stores nor the pod cache -/
theorem replays_stores (ks : List String) (c : Ctl) :
    (runEvents c (ks.map Ev.replay)).1.slices = c.slices ∧ (runEvents c (ks.map Ev.replay)).1.byIP = c.byIP ∧
    (runEvents c (ks.map Ev.replay)).1.pods = c.pods ∧ (runEvents c (ks.map Ev.replay)).1.svcs = c.svcs ∧
    (runEvents c (ks.map Ev.replay)).1.nodes = c.nodes := by
  induction ks generalizing c with
  | nil => exact ⟨rfl, rfl, rfl, rfl, rfl⟩
  | cons k ks ih =>
    simp only [List.map_cons, runEvents, handle]
    cases c.slices.find? (fun sl => sl.key = k) with
    | none => exact ih c
    | some sl =>
      simp only []
      have h := sliceUpsert_stores c none sl
      have := ih (sliceUpsert c none sl)
      rw [h.1, h.2.2.2.2.1, h.2.2.1, h.2.1, h.2.2.2.1] at this
      exact this

/-- adding pods can only un-park addresses -/
theorem parkedAddrs_mono (pods pods' : List Pod) (sl : Slice) (a : String)
    (h : ∀ ea ∈ sl.addrPairs, ∀ tns tn, ea.1.target = some (tns, tn) →
      findPod pods' tns tn = none → findPod pods tns tn = none)
    (ha : a ∈ parkedAddrs pods' sl) : a ∈ parkedAddrs pods sl := by
  unfold parkedAddrs at *
  split
  · rename_i hc; rw [if_pos hc] at ha; exact ha
  · rename_i hc
    rw [if_neg hc] at ha
    rw [List.mem_filterMap] at ha ⊢
    obtain ⟨ea, hea, hv⟩ := ha
    refine ⟨ea, hea, ?_⟩
    cases htg : ea.1.target with
    | none => rw [htg] at hv; cases hv
    | some t =>
      obtain ⟨tns, tn⟩ := t
      rw [htg] at hv
      simp only [] at hv ⊢
      by_cases hn : (findPod pods' tns tn).isNone = true
      · rw [if_pos hn] at hv
        have : findPod pods tns tn = none := h ea hea tns tn htg (Option.isNone_iff_eq_none.mp hn)
        rw [this]
        simpa using hv
      · rw [if_neg hn] at hv; cases hv

/-! ### Pod writes -/

/-- no endpoint of any slice refers to the pod -/
def Unreferenced (c : Ctl) (ns name : String) : Prop :=
  ∀ sl ∈ c.slices, ∀ ea ∈ sl.addrPairs, ea.1.target ≠ some (ns, name)

/-- the slice has an endpoint that refers to the pod -/
def Refs (sl : Slice) (ns name : String) : Prop :=
  ∃ ea ∈ sl.addrPairs, ea.1.target = some (ns, name)

theorem PodEff.mono {c c2 : Ctl} {ks ks' : List String} (h : PodEff c c2 ks) (hs : ∀ k ∈ ks, k ∈ ks') : PodEff c c2 ks' :=
  ⟨h.slices, h.svcs, h.pods, h.nodes, h.smap, h.cache, h.index,
   fun a k hc => (h.resync a k hc).elim Or.inl (fun hk => Or.inr (hs k hk)), h.sub⟩

/-- the replays a pod update queues when node or service account changed: every slice of the pod's namespace that
    refers to the pod -/
theorem idReplays_eq (c : Ctl) (o p : Pod) :
    ∃ kx : List String, idReplays c o p = kx.map Ev.replay ∧
      (idChanged o p = true → ∀ x ∈ c.slices, x.ns = p.ns → Refs x p.ns p.name → x.key ∈ kx) := by
  unfold idReplays
  by_cases h : idChanged o p = true
  · rw [if_pos h]
    refine ⟨(c.slices.filter (fun sl => sl.ns = p.ns ∧ sl.eps.any (fun e => e.target = some (p.ns, p.name)))).map (·.key),
      by rw [List.map_map]; rfl, ?_⟩
    intro _ x hx hns hr
    rw [List.mem_map]
    refine ⟨x, List.mem_filter.mpr ⟨hx, ?_⟩, rfl⟩
    obtain ⟨ea, hea, htg⟩ := hr
    unfold Slice.addrPairs at hea
    obtain ⟨e, he, hea'⟩ := List.mem_flatMap.mp hea
    obtain ⟨a, _, hae⟩ := List.mem_map.mp hea'
    simp only [Bool.decide_and, Bool.and_eq_true, decide_eq_true_eq, List.any_eq_true]
    refine ⟨hns, e, he, ?_⟩
    rw [← hae] at htg
    exact htg
  · rw [if_neg h]
    exact ⟨[], rfl, fun hh => absurd hh h⟩

/-- the condition under which a Pod add/update is repaired by the controller (`P` = the slices exempt
    before the write):
    * the pod GETS its IP with this write (it is new, or had none): every endpoint that refers to it carries that
      IP (then the slice is waiting in `needResync` under that IP and is replayed) - finding
      `waiting-address-differs-from-pod-ip` otherwise; a new pod WITHOUT IP (the usual first event: Pending) needs
      nothing: the slices that refer to it wait on (`WaitP`);
    * an update: `recomputeServiceForPod` is not reached (its early exit is finding
      `health-built-before-service-known`), and either labels, service account and node are unchanged (phase,
      readiness, IP assignment, deletion timestamp are free), or node / service account / workload name change (then
      the slices of the pod's namespace that refer to it are replayed: `queueEndpointEventsForPod`, whatever else changed), or no
      endpoint of a slice that is not exempt refers to the pod (a pending pod that is bound to a node, relabelled, ... before the slice controller publishes
      it, or while the slices that refer to it wait for its IP) - findings
      `labels-built-before-pod-label-change`, `locality-built-before-node-change`, `identity-of-replaced-pod`
      otherwise. -/
def PodGood (c : Ctl) (P : Slice → Prop) (v : Pod) : Prop :=
  match findPod c.pods v.ns v.name with
  | none => v.ip = "" ∨ ∀ sl ∈ c.slices, ∀ ea ∈ sl.addrPairs, ea.1.target = some (v.ns, v.name) → ea.2 = v.ip
  | some o => NoRecompute c (some o) v ∧
      (podSig o = podSig v ∨
        (idChanged o v = true ∧ ∀ sl ∈ c.slices, ¬ P sl → Refs sl v.ns v.name → sl.ns = v.ns) ∨
        ∀ sl ∈ c.slices, ¬ P sl → ∀ ea ∈ sl.addrPairs, ea.1.target ≠ some (v.ns, v.name)) ∧
      (o.ip = "" → v.ip ≠ "" → ∀ sl ∈ c.slices, ∀ ea ∈ sl.addrPairs, ea.1.target = some (v.ns, v.name) → ea.2 = v.ip)

/-- Endpoint before pod, pod status changes, IP assignment: after a Pod add/update handled with the
    queue drained (the event, then the replays it queued) the invariant holds again. -/
theorem pod_write_inv (c : Ctl) (v : Pod) (c' : Ctl) (hph : v.phase ≠ "F") (hstep : stepC c (.pod v) = some c')
    {P P' : Slice → Prop} {Q : Svc → Prop} (hinv : InvExcept c P Q)
    (hwf : WF { c with pods := upsertBy (fun x => x.ns = v.ns ∧ x.name = v.name) v c.pods })
    (hnc : NoCachedAddr c) (hnc' : NoCachedAddr c')
    (hgood : PodGood c P v)
    (hPP' : ∀ x ∈ c.slices, P x → P' x ∨ (effIP c v ≠ "" ∧ setContains c.resync (effIP c v) x.key = true))
    (hnew : findPod c.pods v.ns v.name = none → v.ip = "" → ∀ x ∈ c.slices, Servable x → Refs x v.ns v.name → P' x) :
    InvExcept c' P' Q := by
  rw [stepC_pod c v hph] at hstep
  simp only [Option.some.injEq] at hstep
  subst hstep
  let c1 : Ctl := { c with pods := upsertBy (fun x => x.ns = v.ns ∧ x.name = v.name) v c.pods }
  have hfind : findPod c1.pods v.ns v.name = some v := by
    apply find_upsertBy
    simp
  -- pods other than `v` are found as before
  have hother : ∀ tns tn, ¬ (tns = v.ns ∧ tn = v.name) → findPod c1.pods tns tn = findPod c.pods tns tn := by
    intro tns tn hne
    apply find_upsertBy_other
    · simp only [Bool.decide_and, Bool.and_eq_false_iff, decide_eq_false_iff_not]
      by_cases h1 : v.ns = tns
      · right; intro h2; exact hne ⟨h1.symm, h2.symm⟩
      · left; exact h1
    · intro x hx
      simp only [Bool.decide_and, Bool.and_eq_true, decide_eq_true_eq] at hx
      simp only [Bool.decide_and, Bool.and_eq_false_iff, decide_eq_false_iff_not]
      by_cases h1 : x.ns = tns
      · right; intro h2; exact hne ⟨(hx.1.symm.trans h1).symm, (hx.2.symm.trans h2).symm⟩
      · left; exact h1
  -- the event and its effect
  have hev : ∃ (old : Option Pod) (kind : PodEvKind) (kx : List String), runEvents c1 [podEvOf c v] =
        ((podEvent c1 old v kind).1, kx.map Ev.replay ++ (podEvent c1 old v kind).2 ++ []) ∧
      kind ≠ .del ∧ (∀ o, old = some o → findPod c.pods v.ns v.name = some o) ∧
      (old = none → findPod c.pods v.ns v.name = none) ∧
      (∀ o, old = some o → idChanged o v = true →
        ∀ x ∈ c.slices, x.ns = v.ns → Refs x v.ns v.name → x.key ∈ kx) := by
    unfold podEvOf
    cases hfo : findPod c.pods v.ns v.name with
    | none =>
      refine ⟨none, .add, [], ?_, by simp, by simp, fun _ => rfl, by simp⟩
      simp [runEvents, handle, hfind]
    | some o =>
      obtain ⟨kx, hkx, hkxm⟩ := idReplays_eq c1 o v
      refine ⟨some o, .upd, kx, ?_, by simp, by simp, by simp, ?_⟩
      · simp [runEvents, handle, hfind, hkx]
      · intro o' ho'
        injection ho' with ho'
        rw [← ho']
        exact hkxm
  obtain ⟨old, kind, kx, hrun, hkind, hold, holdn, hkxm⟩ := hev
  have hnr : NoRecompute c1 old v := by
    cases old with
    | none => exact Or.inl rfl
    | some o =>
      have hfo := hold o rfl
      unfold PodGood at hgood
      rw [hfo] at hgood
      exact hgood.1
  obtain ⟨ks0, hR0, heff0, htake0, _⟩ := podEvent_eff c1 old v kind hnr
  -- all replays: those of the node / service account change, then those of the pod event
  have hks : ∃ ks, ks = kx ++ ks0 := ⟨_, rfl⟩
  obtain ⟨ks, hksd⟩ := hks
  have hR : kx.map Ev.replay ++ (podEvent c1 old v kind).2 = ks.map Ev.replay := by
    rw [hksd, List.map_append, hR0]
  have heff : PodEff c1 (podEvent c1 old v kind).1 ks :=
    heff0.mono (fun k hk => by rw [hksd]; exact List.mem_append_right _ hk)
  have htake : kind ≠ .del → v.ip ≠ "" → ∀ k', setContains c1.resync v.ip k' = true → k' ∈ ks := by
    intro h1 h2 k' h3
    rw [hksd]; exact List.mem_append_right _ (htake0 h1 h2 k' h3)
  -- an exempt slice stays exempt or is replayed
  have hPk : ∀ x ∈ c.slices, P x → P' x ∨ x.key ∈ ks := by
    intro x hx hp
    cases hPP' x hx hp with
    | inl h => exact Or.inl h
    | inr h =>
      right
      have := podEvent_replays_waiting c1 old v kind hkind x.key h.2 h.1
      rw [hR0, List.mem_map] at this
      obtain ⟨k', hk', he⟩ := this
      injection he with he
      rw [← he, hksd]; exact List.mem_append_right _ hk'
  have hrunAll : runAll c1 [podEvOf c v] = (runEvents (podEvent c1 old v kind).1 (ks.map Ev.replay)).1 := by
    show (runEvents (runEvents c1 _).1 (runEvents c1 _).2).1 = _
    rw [hrun]
    simp only [List.append_nil]
    rw [hR]
  show InvExcept (runAll c1 _) P' Q
  rw [hrunAll]
  have hnc'' : NoCachedAddr (runEvents (podEvent c1 old v kind).1 (ks.map Ev.replay)).1 := by
    rw [← hrunAll]; exact hnc'
  generalize hc2 : (podEvent c1 old v kind).1 = c2 at *
  have hwf2 : WF c2 := hwf.of_stores heff.slices heff.svcs heff.pods
  -- byIP after the replays is byIP of c2
  have hby : c2.byIP = (runEvents c2 (ks.map Ev.replay)).1.byIP := (replays_stores ks c2).2.1.symm
  have hsl : (runEvents c2 (ks.map Ev.replay)).1.slices = c.slices := by
    rw [(replays_stores ks c2).1, heff.slices]
  have hnc2 : ∀ sl ∈ c.slices, ∀ ea ∈ sl.addrPairs, ea.1.target = none → ∀ k, setContains c2.byIP ea.2 k = false := by
    intro sl hsl' ea hea htg
    rw [hby]
    apply hnc'' sl _ ea hea htg
    rw [hsl]
    exact hsl'
  have hexc : InvExcept c2 (fun x => P' x ∨ x.key ∈ ks) Q := by
    refine ⟨?_, ?_, ?_, ?_, ?_, ?_, by rw [heff.cache]; exact hinv.nodup⟩
    · intro x hx hs hnk
      rw [heff.slices] at hx
      have hnp : ¬ P x := fun hp => hnk (hPk x hx hp)
      have hfresh := hinv.fresh x hx hs hnp
      unfold EntryOK at hfresh ⊢
      rw [heff.cache, heff.pods, heff.nodes, heff.smap, hfresh]
      apply buildSlice_congr
      · intro ea hea tns tn htg
        by_cases hsame : tns = v.ns ∧ tn = v.name
        · rw [hsame.1, hsame.2, hfind]
          cases hfo : findPod c.pods v.ns v.name with
          | none =>
            exfalso
            unfold PodGood at hgood
            rw [hfo] at hgood
            have href : ea.1.target = some (v.ns, v.name) := by rw [htg, hsame.1, hsame.2]
            by_cases hvip : v.ip = ""
            · exact hnk (Or.inl (hnew hfo hvip x hx hs ⟨ea, hea, href⟩))
            have hg : ea.2 = v.ip ∧ v.ip ≠ "" := by
              cases hgood with
              | inl hz => exact absurd hz hvip
              | inr hall => exact ⟨hall x hx ea hea href, hvip⟩
            have hpark : ea.2 ∈ parkedAddrs c.pods x := by
              unfold parkedAddrs
              have : ¬ (x.fqdn = true ∨ x.svc = "") := by
                intro h
                cases h with
                | inl h => rw [hs.1] at h; cases h
                | inr h => exact hs.2 h
              rw [if_neg this, List.mem_filterMap]
              refine ⟨ea, hea, ?_⟩
              rw [htg, hsame.1, hsame.2]
              simp [hfo]
            have hreg := hinv.parked x hx hnp ea.2 hpark
            rw [hg.1] at hreg
            exact hnk (Or.inr (htake hkind hg.2 x.key hreg))
          | some o =>
            unfold PodGood at hgood
            rw [hfo] at hgood
            cases hgood.2.1 with
            | inl hsig =>
              simp only [podView, Option.map, Option.some.injEq, Prod.mk.injEq]
              refine ⟨hsig, ?_⟩
              simp only [podSig, Prod.mk.injEq] at hsig
              exact localityOf_congr _ _ _ hsig.2.2.2.2 hsig.2.2.1
            | inr hrest =>
              exfalso
              have href : ea.1.target = some (v.ns, v.name) := by rw [htg, hsame.1, hsame.2]
              cases hrest with
              | inl hid =>
                -- node / service account changed: the slice was replayed
                have hxns := hid.2 x hx hnp ⟨ea, hea, href⟩
                have hold' : old = some o := by
                  cases old with
                  | none => rw [holdn rfl] at hfo; cases hfo
                  | some o' =>
                    have := hold o' rfl
                    rw [hfo] at this
                    injection this with this
                    rw [this]
                have := hkxm o hold' hid.1 x hx hxns ⟨ea, hea, href⟩
                exact hnk (Or.inr (by rw [hksd]; exact List.mem_append_left _ this))
              | inr hun => exact hun x hx hnp ea hea href
        · rw [hother tns tn hsame]
      · intro ea hea htg
        rw [podByIP_empty _ _ _ _ (hnc x hx ea hea htg), podByIP_empty _ _ _ _ (hnc2 x hx ea hea htg)]
    · intro h n eps he
      rw [heff.cache] at he
      rw [heff.slices]
      exact hinv.noForeign h n eps he
    · intro x hx hnk a ha
      rw [heff.slices] at hx
      rw [heff.pods] at ha
      have ha' : a ∈ parkedAddrs c.pods x := by
        apply parkedAddrs_mono c.pods c1.pods x a _ ha
        intro ea hea tns tn htg hnone
        by_cases hsame : tns = v.ns ∧ tn = v.name
        · rw [hsame.1, hsame.2, hfind] at hnone; cases hnone
        · rw [hother tns tn hsame] at hnone; exact hnone
      cases heff.resync a x.key (hinv.parked x hx (fun hp => hnk (hPk x hx hp)) a ha') with
      | inl h => exact h
      | inr h => exact absurd (Or.inr h) hnk
    · intro sv hsv hq
      rw [heff.svcs] at hsv
      rw [heff.smap]
      exact hinv.smapSome sv hsv hq
    · intro h sv hl
      rw [heff.smap] at hl
      rw [heff.svcs]
      exact hinv.smapOnly h sv hl
    · intro h
      exact idxOK_unchanged c c2 h (by rw [heff.index]) (by rw [heff.cache]) (by rw [heff.smap]) (hinv.index h)
  exact (replays_inv ks c2 P' hexc hwf2).1

/-- A pod leaves the store (deleted, or hidden by the informer's field selector when it is evicted:
    then the event object `evp` is the new object, not the stored one).  Slices that still refer to the
    pod keep the endpoint they built from it - they are exempt afterwards (the slice controller's next
    write of the slice repairs them: `slice_write_inv`). -/
theorem pod_removed_inv (c : Ctl) (ns name : String) (evp : Pod)
    {P : Slice → Prop} {Q : Svc → Prop} (hinv : InvExcept c P Q) (hwf : WF c) (hnc : NoCachedAddr c)
    (hnc' : NoCachedAddr (runAll { c with pods := c.pods.filter (fun x => !(x.ns = ns ∧ x.name = name)) } [.podDel evp])) :
    InvExcept (runAll { c with pods := c.pods.filter (fun x => !(x.ns = ns ∧ x.name = name)) } [.podDel evp])
      (fun x => P x ∨ Refs x ns name) Q := by
  · let c1 : Ctl := { c with pods := c.pods.filter (fun x => !(x.ns = ns ∧ x.name = name)) }
    have hwf1 : WF c1 := by
      refine ⟨hwf.sliceEntryInj, hwf.sliceKeyInj, hwf.sliceNameInj, hwf.svcHostInj, hwf.svcNameInj, hwf.sliceSvc, ?_⟩
      intro a ha b hb
      exact hwf.podNameInj a (List.mem_filter.mp ha).1 b (List.mem_filter.mp hb).1
    have hother : ∀ tns tn, ¬ (tns = ns ∧ tn = name) → findPod c1.pods tns tn = findPod c.pods tns tn := by
      intro tns tn hne
      show (c.pods.filter (fun x => !(decide (x.ns = ns ∧ x.name = name)))).find? _ = c.pods.find? _
      apply find_filter_other (fun (x : Pod) => decide (x.ns = ns ∧ x.name = name))
      intro x hx
      simp only [decide_eq_true_eq] at hx
      simp only [Bool.decide_and, Bool.and_eq_false_iff, decide_eq_false_iff_not]
      by_cases h1 : x.ns = tns
      · right; intro h2; exact hne ⟨h1.symm.trans hx.1, h2.symm.trans hx.2⟩
      · left; exact h1
    obtain ⟨ks, hR, heff, _, _⟩ := podEvent_eff c1 none evp .del (Or.inl rfl)
    have hrunAll : runAll c1 [Ev.podDel evp] = (runEvents (podEvent c1 none evp .del).1 (ks.map Ev.replay)).1 := by
      show (runEvents (runEvents c1 _).1 (runEvents c1 _).2).1 = _
      simp only [runEvents, handle, List.append_nil]
      rw [hR]
    show InvExcept (runAll c1 _) (fun x => P x ∨ Refs x ns name) Q
    rw [hrunAll]
    have hnc'' : NoCachedAddr (runEvents (podEvent c1 none evp .del).1 (ks.map Ev.replay)).1 := by
      rw [← hrunAll]; exact hnc'
    generalize hc2 : (podEvent c1 none evp .del).1 = c2 at *
    have hwf2 : WF c2 := hwf1.of_stores heff.slices heff.svcs heff.pods
    have hby : c2.byIP = (runEvents c2 (ks.map Ev.replay)).1.byIP := (replays_stores ks c2).2.1.symm
    have hsl : (runEvents c2 (ks.map Ev.replay)).1.slices = c.slices := by
      rw [(replays_stores ks c2).1, heff.slices]
    have hnc2 : ∀ sl ∈ c.slices, ∀ ea ∈ sl.addrPairs, ea.1.target = none → ∀ k, setContains c2.byIP ea.2 k = false := by
      intro sl hsl' ea hea htg
      rw [hby]
      apply hnc'' sl _ ea hea htg
      rw [hsl]
      exact hsl'
    have hexc : InvExcept c2 (fun x => (P x ∨ Refs x ns name) ∨ x.key ∈ ks) Q := by
      refine ⟨?_, ?_, ?_, ?_, ?_, ?_, by rw [heff.cache]; exact hinv.nodup⟩
      · intro x hx hs hnk
        rw [heff.slices] at hx
        have hfresh := hinv.fresh x hx hs (fun hp => hnk (Or.inl (Or.inl hp)))
        unfold EntryOK at hfresh ⊢
        rw [heff.cache, heff.pods, heff.nodes, heff.smap, hfresh]
        apply buildSlice_congr
        · intro ea hea tns tn htg
          have hsame : ¬ (tns = ns ∧ tn = name) := by
            intro h
            exact hnk (Or.inl (Or.inr ⟨ea, hea, by rw [htg, h.1, h.2]⟩))
          rw [hother tns tn hsame]
        · intro ea hea htg
          rw [podByIP_empty _ _ _ _ (hnc x hx ea hea htg), podByIP_empty _ _ _ _ (hnc2 x hx ea hea htg)]
      · intro h n eps he
        rw [heff.cache] at he
        rw [heff.slices]
        exact hinv.noForeign h n eps he
      · intro x hx hnk a ha
        rw [heff.slices] at hx
        rw [heff.pods] at ha
        have ha' : a ∈ parkedAddrs c.pods x := by
          rw [parkedAddrs_congr c.pods c1.pods x]
          · exact ha
          · intro ea hea tns tn htg
            have hsame : ¬ (tns = ns ∧ tn = name) := by
              intro h
              exact hnk (Or.inl (Or.inr ⟨ea, hea, by rw [htg, h.1, h.2]⟩))
            rw [hother tns tn hsame]
        cases heff.resync a x.key (hinv.parked x hx (fun hp => hnk (Or.inl (Or.inl hp))) a ha') with
        | inl h => exact h
        | inr h => exact absurd (Or.inr h) hnk
      · intro sv hsv hq
        rw [heff.svcs] at hsv
        rw [heff.smap]
        exact hinv.smapSome sv hsv hq
      · intro h sv hl
        rw [heff.smap] at hl
        rw [heff.svcs]
        exact hinv.smapOnly h sv hl
      · intro h
        exact idxOK_unchanged c c2 h (by rw [heff.index]) (by rw [heff.cache]) (by rw [heff.smap]) (hinv.index h)
    exact (replays_inv ks c2 (fun x => P x ∨ Refs x ns name) hexc hwf2).1

/-- Pod deleted: the slices that still refer to it become exempt. -/
theorem pod_delete_inv (c : Ctl) (ns name : String) (c' : Ctl) (hstep : stepC c (.delPod ns name) = some c')
    {P : Slice → Prop} {Q : Svc → Prop} (hinv : InvExcept c P Q) (hwf : WF c) (hnc : NoCachedAddr c)
    (hnc' : NoCachedAddr c') : InvExcept c' (fun x => P x ∨ Refs x ns name) Q := by
  simp only [stepC] at hstep
  cases hfo : findPod c.pods ns name with
  | none => rw [hfo] at hstep; cases hstep
  | some o =>
    rw [hfo] at hstep
    simp only [Option.map, Option.some.injEq] at hstep
    subst hstep
    exact pod_removed_inv c ns name o hinv hwf hnc hnc'

/-- Pod evicted (phase Failed): the informer's field selector turns the write into a DELETE that carries
    the new object. -/
theorem pod_evict_inv (c : Ctl) (v : Pod) (c' : Ctl) (hph : v.phase = "F") (hstep : stepC c (.pod v) = some c')
    {P : Slice → Prop} {Q : Svc → Prop} (hinv : InvExcept c P Q) (hwf : WF c) (hnc : NoCachedAddr c)
    (hnc' : NoCachedAddr c') : InvExcept c' (fun x => P x ∨ Refs x v.ns v.name) Q := by
  simp only [stepC, hph, if_true] at hstep
  cases hfo : findPod c.pods v.ns v.name with
  | none => rw [hfo] at hstep; cases hstep
  | some o =>
    rw [hfo] at hstep
    simp only [Option.map, Option.some.injEq] at hstep
    subst hstep
    exact pod_removed_inv c v.ns v.name v hinv hwf hnc hnc'

/-! ### Node writes -/

/-- A change of the node store is harmless when it leaves the locality of every pod that a slice (not exempt)
    refers to as it was (the
    controller does not refresh endpoints on Node events - finding `locality-built-before-node-change`). -/
theorem nodes_change_inv (c : Ctl) (nodes' : List Node) {P : Slice → Prop} {Q : Svc → Prop}
    (hinv : InvExcept c P Q) (hnc : NoCachedAddr c)
    (hgood : ∀ sl ∈ c.slices, Servable sl → ¬ P sl → ∀ ea ∈ sl.addrPairs, ∀ tns tn, ea.1.target = some (tns, tn) →
      ∀ p, findPod c.pods tns tn = some p → localityOf nodes' p = localityOf c.nodes p) :
    InvExcept { c with nodes := nodes' } P Q := by
  refine ⟨?_, hinv.noForeign, hinv.parked, hinv.smapSome, hinv.smapOnly, ?_, hinv.nodup⟩
  · intro x hx hs hnp
    have hfresh := hinv.fresh x hx hs hnp
    unfold EntryOK at hfresh ⊢
    show cacheEntry c.cache x.host x.name = buildSlice c.pods nodes' c.byIP (alookup x.host c.smap) x
    rw [hfresh]
    apply buildSlice_congr
    · intro ea hea tns tn htg
      cases hf : findPod c.pods tns tn with
      | none => rfl
      | some p =>
        simp only [podView, Option.map, Option.some.injEq, Prod.mk.injEq, true_and]
        exact (hgood x hx hs hnp ea hea tns tn htg p hf).symm
    · intro ea hea htg
      rw [podByIP_empty _ _ _ _ (hnc x hx ea hea htg)]
      rfl
  · intro h
    exact idxOK_unchanged c _ h rfl rfl rfl (hinv.index h)

end IstioModel.C15
