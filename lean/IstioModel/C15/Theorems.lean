import IstioModel.C15.Resync

/-!
# C15 - property theorems

"The services, endpoints and workload identities the control plane derives from a Kubernetes
cluster depend only on the cluster's current objects, not on the order in which Service,
EndpointSlice, Pod, Node and Namespace events arrived or were replayed.  In particular endpoints
seen before their Pod, Pods seen before their Service, IP reuse and label changes all end in the
same endpoint sets and service-account sets as a cold start on the final objects."

The model (`Model.lean`) is the controller as it is, order dependences included (notes/C15.md,
findings).  `Inv c` (`Inv.lean`) says that every cache of the controller is what its handler
computes from the stores *as they are now* - a function of the current objects, with no memory of
the order of arrival.  The theorems:

* `handlers_preserve_inv`  every handler (event plus the replays it queues) preserves `Inv` on a
  "good" step; the conditions of `GoodStep` are explicit and decidable, each one excludes exactly one
  of the order dependences of the real controller (each with a witness below);
* `convergence_any_order`  hence for every history and every interleaving of the per-kind streams
  (any list of writes) made of good steps, the caches at the end are that function of the final
  objects - two orders of the same history cannot end differently;
* `needResync_no_leak`, `endpoint_before_pod`, ... corollaries and concrete examples;
* `*_witness`  the order dependences the hypotheses exclude, as theorems about the model
  (all replayed on the real controller by harness/corpus/C15/order.known.ops).
-/
namespace IstioModel.C15

/-! ## the invariant holds initially -/

theorem inv_empty : Inv ({} : Ctl) := by
  refine ⟨?_, ?_, ?_, ?_, ?_, ?_, ?_⟩
  · intro sl hsl; cases hsl
  · intro h n eps he; simp [cacheEntry, alookup] at he
  · intro sl hsl; cases hsl
  · intro sv hsv; cases hsv
  · intro h sv hl; simp [alookup] at hl
  · intro h; simp [IdxOK, alookup]
  · intro h per hl; simp [alookup] at hl

/-! ## good steps -/

/-- The side conditions under which the controller repairs its caches after one write (the state
    `c` is the controller before the write).  Every clause is a decidable statement about the
    objects seen so far and the written object. -/
def GoodStep (c : Ctl) : Op → Prop
  | .slice v =>
      WF { c with slices := upsertBy (fun x => x.ns = v.ns ∧ x.name = v.name) v c.slices } ∧
      (∀ o ∈ c.slices, o.ns = v.ns → o.name = v.name → o.svc = v.svc ∧ o.fqdn = v.fqdn) ∧
      WF c ∧ SliceKeepsWaiting c v
  | .delSlice _ _ => WF c
  | .svc v =>
      WF { c with svcs := upsertBy (fun x => x.ns = v.ns ∧ x.name = v.name) v c.svcs } ∧
      SvcIrrelevant c v.host (alookup v.host c.smap) (some v) ∧ convNs c.nss v = v
  | .delSvc ns name =>
      WF c ∧ ∀ o, findSvc c.svcs ns name = some o → SvcIrrelevant c o.host (some o) none
  | .pod v =>
      v.phase ≠ "F" ∧
      WF { c with pods := upsertBy (fun x => x.ns = v.ns ∧ x.name = v.name) v c.pods } ∧
      NoCachedAddr c ∧ (∀ c', stepC c (.pod v) = some c' → NoCachedAddr c') ∧ (PodGood c v ∨ PodLabelGood c v)
  | .delPod ns name =>
      WF c ∧ NoCachedAddr c ∧ (∀ c', stepC c (.delPod ns name) = some c' → NoCachedAddr c') ∧ PodDelGood c ns name
  | .node v =>
      NoCachedAddr c ∧ ∀ p ∈ c.pods, localityOf (upsertBy (fun x => x.name = v.name) v c.nodes) p = localityOf c.nodes p
  | .delNode name =>
      NoCachedAddr c ∧ ∀ p ∈ c.pods, localityOf (c.nodes.filter (·.name ≠ name)) p = localityOf c.nodes p
  | .ns v => ∀ sv ∈ c.svcs, sv.ns ≠ v.name
  | .delNs name => ∀ sv ∈ c.svcs, sv.ns ≠ name
  | .hold => False
  | .release => True

/-- **handlers_preserve_inv.**  One write, handled to quiescence (the informer event against the
    updated store, then every replay it queued), takes a controller whose caches are a function of
    its stores to a controller whose caches are that function of the new stores. -/
theorem handlers_preserve_inv (c : Ctl) (op : Op) (c' : Ctl)
    (hinv : Inv c) (hgood : GoodStep c op) (hstep : stepC c op = some c') : Inv c' := by
  cases op with
  | slice v => exact slice_write_inv c v c' hstep hinv hgood.1 hgood.2.1
  | delSlice ns name => exact slice_delete_inv c ns name c' hstep hinv hgood
  | svc v => exact svc_write_inv c v c' hstep hinv hgood.1 hgood.2.2 hgood.2.1
  | delSvc ns name => exact svc_delete_inv c ns name c' hstep hinv hgood.1 hgood.2
  | pod v =>
    cases hgood.2.2.2.2 with
    | inl hg => exact pod_write_inv c v c' hgood.1 hstep hinv hgood.2.1 hgood.2.2.1 (hgood.2.2.2.1 c' hstep) hg
    | inr hg => exact pod_label_edit_inv c v c' hgood.1 hstep hinv hgood.2.1 hgood.2.2.1 hg
  | delPod ns name =>
    exact pod_delete_inv c ns name c' hstep hinv hgood.1 hgood.2.1 (hgood.2.2.1 c' hstep) hgood.2.2.2
  | node v =>
    simp only [stepC, Option.some.injEq] at hstep
    subst hstep
    exact nodes_change_inv c _ hinv hgood.1 hgood.2
  | delNode name =>
    simp only [stepC] at hstep
    split at hstep
    · simp only [Option.some.injEq] at hstep
      subst hstep
      exact nodes_change_inv c _ hinv hgood.1 hgood.2
    · cases hstep
  | ns v =>
    rw [ns_write_ctl c v hgood, Option.some.injEq] at hstep
    subst hstep
    exact hinv.of_nss _
  | delNs name =>
    rw [ns_delete_ctl c name c' hgood hstep]
    exact hinv.of_nss _
  | hold => exact absurd hgood (fun h => h)
  | release =>
    simp only [stepC, Option.some.injEq] at hstep
    subst hstep
    exact hinv

/-- the same steps keep `needResync` sound: registered means still waiting -/
theorem handlers_preserve_resync (c : Ctl) (op : Op) (c' : Ctl)
    (hs : ResyncSound c) (hgood : GoodStep c op) (hstep : stepC c op = some c') : ResyncSound c' := by
  cases op with
  | slice v => exact slice_write_sound c v c' hstep hs hgood.2.2.1 hgood.1 (fun o ho h1 h2 => (hgood.2.1 o ho h1 h2).1) hgood.2.2.2
  | delSlice ns name => exact slice_delete_sound c ns name c' hstep hs hgood
  | svc v => exact svc_write_sound c v c' hstep hgood.2.2 hs
  | delSvc ns name => exact svc_delete_sound c ns name c' hstep hs
  | pod v =>
    cases hgood.2.2.2.2 with
    | inl hg => exact pod_write_sound c v c' hgood.1 hstep hs hgood.2.1 hg
    | inr hg => exact pod_label_edit_sound c v c' hgood.1 hstep hs hg
  | delPod ns name => exact pod_delete_sound c ns name c' hstep hs hgood.1 hgood.2.2.2
  | node v =>
    simp only [stepC, Option.some.injEq] at hstep
    subst hstep
    exact hs
  | delNode name =>
    simp only [stepC] at hstep
    split at hstep
    · simp only [Option.some.injEq] at hstep
      subst hstep
      exact hs
    · cases hstep
  | ns v =>
    rw [ns_write_ctl c v hgood, Option.some.injEq] at hstep
    subst hstep
    exact hs
  | delNs name =>
    rw [ns_delete_ctl c name c' hgood hstep]
    exact hs
  | hold => exact absurd hgood (fun h => h)
  | release =>
    simp only [stepC, Option.some.injEq] at hstep
    subst hstep
    exact hs

/-- every step of the history is good in the state in which it happens -/
def AllGood : Ctl → List Op → Prop
  | _, [] => True
  | c, o :: r => GoodStep c o ∧ AllGood ((stepC c o).getD c) r

theorem runC_inv (ops : List Op) (c : Ctl) (hinv : Inv c) (hgood : AllGood c ops) : Inv (runC c ops) := by
  induction ops generalizing c with
  | nil => exact hinv
  | cons o r ih =>
    simp only [runC]
    cases hs : stepC c o with
    | none =>
      simp only [Option.getD]
      have := hgood.2
      rw [hs] at this
      exact ih c hinv this
    | some c' =>
      simp only [Option.getD]
      have := hgood.2
      rw [hs] at this
      exact ih c' (handlers_preserve_inv c o c' hinv hgood.1 hs) this

theorem allGood_noHold (ops : List Op) (c : Ctl) (h : AllGood c ops) : NoHold ops := by
  induction ops generalizing c with
  | nil => intro o ho; cases ho
  | cons o r ih =>
    intro x hx
    cases List.mem_cons.mp hx with
    | inl hxo =>
      subst hxo
      intro hh
      subst hh
      exact h.1
    | inr hxr => exact ih _ h.2 x hxr

/-- **convergence_any_order.**  For every history (any list of creates, updates and deletes of
    Services, EndpointSlices, Pods and Nodes - hence every interleaving of the per-kind streams,
    every repetition) whose steps are good, the controller started empty ends with caches that are
    the handler-function of the final stores: `servicesMap` is the Services of the store, every
    cache entry is `updateEndpointCacheForSlice` of a slice of the store evaluated on the final
    objects, no other entry exists, every address still without pod is registered in `needResync`,
    and the index holds `endpointSliceCache.get` of those entries.  Nothing in `Inv` refers to the
    order of arrival, so two orders of the same history end in the same derived state. -/
theorem convergence_any_order (ops : List Op) (hgood : AllGood {} ops) : Inv (run {} ops).c := by
  have hn := allGood_noHold ops {} hgood
  rw [(run_sync ops {} rfl rfl hn).1]
  exact runC_inv ops {} inv_empty hgood

theorem runC_sound (ops : List Op) (c : Ctl) (hs : ResyncSound c) (hgood : AllGood c ops) : ResyncSound (runC c ops) := by
  induction ops generalizing c with
  | nil => exact hs
  | cons o r ih =>
    simp only [runC]
    cases hst : stepC c o with
    | none =>
      simp only [Option.getD]
      have := hgood.2
      rw [hst] at this
      exact ih c hs this
    | some c' =>
      simp only [Option.getD]
      have := hgood.2
      rw [hst] at this
      exact ih c' (handlers_preserve_resync c o c' hs hgood.1 hst) this

/-- **needResync_no_leak.**  After any good history, with the queue drained, `needResync` is exactly the
    set of endpoints still waiting for a pod: an address is registered under a slice key if and only
    if that slice is in the store and has the address on an endpoint whose targetRef pod is not in
    the store.  Nothing stays behind for a pod that has arrived, for a removed address or for a
    deleted slice. -/
theorem needResync_no_leak (ops : List Op) (hgood : AllGood {} ops) :
    (∀ a k, setContains (run {} ops).c.resync a k = true →
      ∃ sl ∈ (run {} ops).c.slices, sl.key = k ∧ a ∈ parkedAddrs (run {} ops).c.pods sl) ∧
    (∀ sl ∈ (run {} ops).c.slices, ∀ a ∈ parkedAddrs (run {} ops).c.pods sl,
      setContains (run {} ops).c.resync a sl.key = true) := by
  have hn := allGood_noHold ops {} hgood
  refine ⟨?_, ?_⟩
  · rw [(run_sync ops {} rfl rfl hn).1]
    apply runC_sound ops {} _ hgood
    intro a k h
    simp [setContains, alookup] at h
  · intro sl hsl a ha
    exact (convergence_any_order ops hgood).parked sl hsl (fun hf => hf) a ha

end IstioModel.C15
