import IstioModel.C15.Waiting

/-!
# C15 - property theorems

"The services, endpoints and workload identities the control plane derives from a Kubernetes
cluster depend only on the cluster's current objects, not on the order in which Service,
EndpointSlice, Pod, Node and Namespace events arrived or were replayed.  In particular endpoints
seen before their Pod, Pods seen before their Service, IP reuse and label changes all end in the
same endpoint sets and service-account sets as a cold start on the final objects."

The model (`Model.lean`) is the controller as it is, order dependences included (notes/C15.md,
findings).  `Inv c` (`Inv.lean`) says that every cache of the controller is what its handler
computes from the stores *as they are now*, and `PodCacheOK c` (`PodCache.lean`) that the pod cache
`podsByIP` / `ipByPods` is the set of running, ready pods of the store by IP - together a function of
the current objects, with no memory of the order of arrival.  The theorems:

* `handlers_preserve_inv`  every write handled to quiescence (the event against the updated store plus
  the replays it queues) preserves both on a "good" step; the conditions of `GoodStep` are explicit,
  decidable statements about the objects seen so far and the written object, each one excludes exactly
  one of the order dependences of the real controller (each with a witness below).  A pod that is
  deleted (or evicted) while slices still refer to it leaves those slices *stale* until the slice
  controller rewrites them (the causal Kubernetes order); the stale set is tracked along the history
  (`staleStep`) and exempted from the invariant meanwhile;
* `convergence_any_order`  hence for every history and every interleaving of the per-kind streams
  (any list of writes, each handled before the next: the class of schedules covered; the windows in
  which the stores run ahead of the handlers are covered for the cold start only, `ColdStart.lean`)
  made of good steps, the caches at the end are that function of the final objects - two orders of
  the same history cannot end differently;
* `needResync_no_leak`, `endpoint_before_pod`, ... corollaries and concrete examples;
* `*_witness`  the order dependences the hypotheses exclude, as theorems about the model
  (all replayed on the real controller by harness/corpus/C15/order.known.ops).
-/
namespace IstioModel.C15

/-! ## the invariant holds initially -/

theorem inv_empty : Inv ({} : Ctl) := by
  refine ⟨?_, ?_, ?_, ?_, ?_, ?_, ?_⟩
  · intro sl hsl; cases hsl
  · intro h n eps he; simp [cacheEntry, alookup] at he
  · intro sl hsl; cases hsl
  · intro sv hsv; cases hsv
  · intro h sv hl; simp [alookup] at hl
  · intro h; simp [IdxOK, alookup]
  · intro h per hl; simp [alookup] at hl

/-! ## slices left stale by a pod delete -/

/-- (namespace, name) of the slices whose cached endpoints may still show a pod that has been deleted
    since the slice was last written -/
abbrev StaleSet := List (String × String)

def StaleP (st : StaleSet) (x : Slice) : Prop := (x.ns, x.name) ∈ st

instance (sl : Slice) (ns name : String) : Decidable (Refs sl ns name) := by unfold Refs; exact inferInstance

/-- the slices of the store with an endpoint that refers to the pod -/
def refsOf (c : Ctl) (ns name : String) : StaleSet :=
  (c.slices.filter (fun x => decide (Refs x ns name))).map (fun x => (x.ns, x.name))

/-- bookkeeping of the stale set: a pod that leaves the store (delete, eviction) makes the slices that
    still refer to it stale; writing or deleting a slice clears it -/
def staleStep (c : Ctl) (st : StaleSet) : Op → StaleSet
  | .delPod ns name => if (findPod c.pods ns name).isSome then st ++ refsOf c ns name else st
  | .pod v => if v.phase = "F" ∧ (findPod c.pods v.ns v.name).isSome then st ++ refsOf c v.ns v.name else st
  | .slice v => st.filter (fun k => k ≠ (v.ns, v.name))
  | .delSlice ns name => st.filter (fun k => k ≠ (ns, name))
  | _ => st

/-! ## slices that wait for the IP of their pod -/

/-- exempt from the invariant for the time being: stale (a pod it shows was deleted) or waiting (a pod it refers to
    arrived without IP) -/
def Exempt (st : StaleSet) (wp : WaitSet) (x : Slice) : Prop := StaleP st x ∨ WaitP wp x

instance (st : StaleSet) (x : Slice) : Decidable (StaleP st x) := by unfold StaleP; exact inferInstance

instance (st : StaleSet) (wp : WaitSet) (x : Slice) : Decidable (Exempt st wp x) := by unfold Exempt; exact inferInstance

instance (sl : Slice) : Decidable (Servable sl) := by unfold Servable; exact inferInstance

/-- bookkeeping of the waiting pairs: a NEW pod without IP (Pending - the usual first event of a pod) makes the
    slices that already refer to it wait (they were parked in `needResync` under the endpoint address and this
    event does not replay them); a Pod event with an IP clears the pairs whose endpoint has that address (the
    slice is replayed); writing or deleting a slice clears its pairs -/
def waitStep (c : Ctl) (st : StaleSet) (wp : WaitSet) : Op → WaitSet
  | .pod v =>
    if v.phase = "F" then wp else
    match findPod c.pods v.ns v.name with
    | none =>
      if v.ip = "" then
        wp ++ (c.slices.filter (fun x => decide (¬ Exempt st wp x ∧ Servable x ∧ Refs x v.ns v.name))).map
          (fun x => ((x.ns, x.name), (v.ns, v.name)))
      else clearAt c wp v.ip
    | some _ => clearAt c wp v.ip
  | .slice v => wp.filter (fun e => e.1 ≠ (v.ns, v.name))
  | .delSlice ns name => wp.filter (fun e => e.1 ≠ (ns, name))
  | _ => wp

/-! ## good steps -/

/-- a label edit does not reach an exempt slice: no such slice belongs to a Service that
    `recomputeServiceForPod` visits for the new labels -/
def LabelFree (c : Ctl) (P : Slice → Prop) (v : Pod) : Prop :=
  ∀ x ∈ c.slices, P x → ∀ sv ∈ c.svcs, sv.ns = v.ns → selMatch sv.sel v.labels = true →
    ¬ (x.ns = sv.ns ∧ x.svc = sv.name)

/-- the node change leaves the locality of every pod that a slice (not exempt) refers to as it was: Node events
    refresh nothing (finding `locality-built-before-node-change`) -/
def LocalityKept (c : Ctl) (P : Slice → Prop) (nodes' : List Node) : Prop :=
  ∀ sl ∈ c.slices, Servable sl → ¬ P sl → ∀ ea ∈ sl.addrPairs, ∀ tns tn, ea.1.target = some (tns, tn) →
    ∀ p, findPod c.pods tns tn = some p → localityOf nodes' p = localityOf c.nodes p

/-- The side conditions under which the controller repairs its caches after one write (the state
    `c` is the controller before the write, `st` the slices currently stale, `wp` the waiting pairs).  Every
    clause is a decidable statement about the objects seen so far and the written object (`SvcIrrelevant` and
    `NoRecompute` read the pod cache, which is a function of the pods by `PodCacheOK`). -/
def GoodStep (c : Ctl) (st : StaleSet) (wp : WaitSet) : Op → Prop
  | .slice v =>
      WF { c with slices := upsertBy (fun x => x.ns = v.ns ∧ x.name = v.name) v c.slices } ∧
      (∀ o ∈ c.slices, o.ns = v.ns → o.name = v.name → o.svc = v.svc ∧ o.fqdn = v.fqdn) ∧
      WF c ∧ SliceKeepsWaiting c v
  | .delSlice _ _ => WF c
  | .svc v =>
      WF { c with svcs := upsertBy (fun x => x.ns = v.ns ∧ x.name = v.name) v c.svcs } ∧
      SvcIrrelevant c v.host (alookup v.host c.smap) (some v) ∧ convNs c.nss v = v
  | .delSvc ns name =>
      WF c ∧ ∀ o, findSvc c.svcs ns name = some o → SvcIrrelevant c o.host (some o) none
  | .pod v =>
      WF c ∧ PodKeysOK c.pods ∧ NoPodAtUntargeted c ∧
      (v.phase ≠ "F" →
        WF { c with pods := upsertBy (fun x => x.ns = v.ns ∧ x.name = v.name) v c.pods } ∧
        PodKeysOK (upsertBy (fun x => x.ns = v.ns ∧ x.name = v.name) v c.pods) ∧
        NoPodAtUntargeted { c with pods := upsertBy (fun x => x.ns = v.ns ∧ x.name = v.name) v c.pods } ∧
        NoIPLoss c v ∧
        (PodGood c (Exempt st wp) v ∨ (PodLabelGood c v ∧ LabelFree c (Exempt st wp) v)))
  | .delPod _ _ => WF c ∧ PodKeysOK c.pods ∧ NoPodAtUntargeted c
  | .node v =>
      NoPodAtUntargeted c ∧ LocalityKept c (Exempt st wp) (upsertBy (fun x => x.name = v.name) v c.nodes)
  | .delNode name =>
      NoPodAtUntargeted c ∧ LocalityKept c (Exempt st wp) (c.nodes.filter (·.name ≠ name))
  | .ns v => (∀ sv ∈ c.svcs, sv.ns ≠ v.name) ∨ NsQuiet c v
  | .delNs name => (∀ sv ∈ c.svcs, sv.ns ≠ name) ∨ ∀ o, c.nss.find? (fun n => n.name = name) = some o → o.td = false
  | .hold => False
  | .release => True

/-- what is established after every write: the caches are the handler-function of the stores (stale and waiting
    slices exempt), the pod cache is the function of the pods, `needResync` holds only what waits, and every
    waiting pair is registered in it -/
structure Stable (c : Ctl) (st : StaleSet) (wp : WaitSet) : Prop where
  inv : InvExcept c (Exempt st wp)
  pc : PodCacheOK c
  sound : ResyncSound c
  reg : RegOK c wp

theorem stable_empty : Stable ({} : Ctl) [] [] := by
  refine ⟨inv_empty.mono (fun _ _ h => absurd h (fun h => h)), ⟨?_, ?_⟩, ?_, ?_⟩
  · intro ip key
    constructor
    · intro h; simp [setContains, alookup] at h
    · intro ⟨p, hp, _⟩; cases hp
  · intro key ip
    constructor
    · intro h; simp [alookup] at h
    · intro h; simp [setContains, alookup] at h
  · intro a k h
    simp [setContains, alookup] at h
  · intro x hx; cases hx

theorem mem_refsOf (c : Ctl) (ns name : String) (x : Slice) (hx : x ∈ c.slices) (h : Refs x ns name) :
    StaleP (refsOf c ns name) x := by
  unfold StaleP refsOf
  rw [List.mem_map]
  exact ⟨x, List.mem_filter.mpr ⟨hx, by simpa using h⟩, rfl⟩

theorem noPodAt_removed (c c' : Ctl) (ns name : String) (hu : NoPodAtUntargeted c)
    (hst : SameSt { c with pods := c.pods.filter (fun x => !(x.ns = ns ∧ x.name = name)) } c') :
    NoPodAtUntargeted c' := by
  intro sl hsl ea hea htg p hp
  rw [hst.2] at hsl
  rw [hst.1] at hp
  exact hu sl hsl ea hea htg p (List.mem_filter.mp hp).1

/-- a pod leaves the store: everything is kept, the slices that refer to it become stale -/
theorem pod_removed_stable (c : Ctl) (st : StaleSet) (wp : WaitSet) (ns name : String) (evp o : Pod)
    (hfo : findPod c.pods ns name = some o) (hevp : evp.ns = ns ∧ evp.name = name)
    (hs : Stable c st wp) (hwf : WF c) (hk : PodKeysOK c.pods) (hu : NoPodAtUntargeted c) :
    Stable (runAll { c with pods := c.pods.filter (fun x => !(x.ns = ns ∧ x.name = name)) } [.podDel evp])
      (st ++ refsOf c ns name) wp := by
  have hst := runAll_one_st { c with pods := c.pods.filter (fun x => !(x.ns = ns ∧ x.name = name)) } (.podDel evp)
  have hpc' := pod_removed_podCache c ns name evp o hfo hevp hs.pc hk
  have hnc := noCachedAddr_of_objects c hs.pc hu
  have hnc' := noCachedAddr_of_objects _ hpc' (noPodAt_removed c _ ns name hu hst)
  refine ⟨?_, hpc', pod_removed_sound c ns name evp hs.sound hwf, ?_⟩
  · apply (pod_removed_inv c ns name evp hs.inv hwf hnc hnc').mono
    intro x hx hp
    rw [hst.2] at hx
    unfold Exempt StaleP
    rw [List.mem_append]
    cases hp with
    | inl h =>
      cases h with
      | inl h => exact Or.inl (Or.inl h)
      | inr h => exact Or.inr h
    | inr h => exact Or.inl (Or.inr (mem_refsOf c ns name x hx h))
  · intro x hx pn hp ea hea htg
    rw [hst.2] at hx
    rw [pod_removed_resync]
    exact hs.reg x hx pn hp ea hea htg

/-- a slice that waited still waits after a Pod event with IP `ip`, or was registered under `ip` (and is replayed) -/
theorem waitP_clearAt (c : Ctl) (wp : WaitSet) (ip : String) (hwf : WF c) (hreg : RegOK c wp) (x : Slice)
    (hx : x ∈ c.slices) (hw : WaitP wp x) :
    WaitP (clearAt c wp ip) x ∨ (ip ≠ "" ∧ setContains c.resync ip x.key = true) := by
  unfold clearAt
  by_cases hip : ip = ""
  · rw [if_pos hip]; exact Or.inl hw
  · rw [if_neg hip]
    unfold WaitP at hw ⊢
    obtain ⟨e, he, hex⟩ := List.mem_map.mp hw
    by_cases hh : HitBy c ip e
    · right
      refine ⟨hip, ?_⟩
      obtain ⟨x', hx', hid, ea, hea, htg, hea2⟩ := hh
      have hid' : (x'.ns, x'.name) = (x.ns, x.name) := hid.trans hex
      simp only [Prod.mk.injEq] at hid'
      have : x' = x := hwf.sliceNameInj x' hx' x hx hid'.1 hid'.2
      subst this
      rw [← hea2]
      apply hreg x' hx' e.2 _ ea hea htg
      rw [← hex]
      exact he
    · left
      rw [List.mem_map]
      exact ⟨e, List.mem_filter.mpr ⟨he, by simpa using hh⟩, hex⟩

theorem mem_clearAt (c : Ctl) (wp : WaitSet) (ip : String) (e : (String × String) × (String × String))
    (h : e ∈ clearAt c wp ip) : e ∈ wp ∧ (ip = "" ∨ ¬ HitBy c ip e) := by
  unfold clearAt at h
  by_cases hip : ip = ""
  · rw [if_pos hip] at h; exact ⟨h, Or.inl hip⟩
  · rw [if_neg hip] at h
    have := List.mem_filter.mp h
    exact ⟨this.1, Or.inr (by simpa using this.2)⟩

/-- **handlers_preserve_inv.**  One write, handled to quiescence (the informer event against the
    updated store, then every replay it queued), takes a controller whose caches are a function of
    its stores to a controller whose caches are that function of the new stores. -/
theorem handlers_preserve_inv (c : Ctl) (st : StaleSet) (wp : WaitSet) (op : Op) (c' : Ctl)
    (hs : Stable c st wp) (hgood : GoodStep c st wp op) (hstep : stepC c op = some c') :
    Stable c' (staleStep c st op) (waitStep c st wp op) := by
  have hpcO : (∀ v, op ≠ .pod v) → (∀ ns name, op ≠ .delPod ns name) → PodCacheOK c' := by
    intro h1 h2
    have := step_other_pc c op c' hstep h1 h2
    exact hs.pc.of_eq this.1 this.2.1 this.2.2
  -- a write that touches neither the slices nor `needResync`
  have hquiet : c'.resync = c.resync → c'.slices = c.slices → RegOK c' wp := by
    intro h1 h2 x hx pn hp ea hea htg
    rw [h2] at hx
    rw [h1]
    exact hs.reg x hx pn hp ea hea htg
  cases op with
  | slice v =>
    have hsl : c'.slices = upsertBy (fun x => x.ns = v.ns ∧ x.name = v.name) v c.slices := by
      simp only [stepC, Option.some.injEq] at hstep
      rw [← hstep]
      exact (runAll_one_st _ _).2
    have hne : ∀ x ∈ c'.slices, x ≠ v → (x.ns, x.name) ≠ (v.ns, v.name) := by
      intro x hx hxv hn
      simp only [Prod.mk.injEq] at hn
      rw [hsl] at hx
      exact hxv (hgood.1.sliceNameInj x hx v (mem_upsertBy_self _ v c.slices) hn.1 hn.2)
    refine ⟨?_, hpcO (by simp) (by simp), slice_write_sound c v c' hstep hs.sound hgood.2.2.1 hgood.1
      (fun o ho h1 h2 => (hgood.2.1 o ho h1 h2).1) hgood.2.2.2, ?_⟩
    · apply (slice_write_inv c v c' hstep hs.inv hgood.1 hgood.2.1).mono
      intro x hx hp
      have hid := hne x hx hp.2
      simp only [staleStep, waitStep, Exempt, StaleP, WaitP]
      cases hp.1 with
      | inl h =>
        left
        rw [List.mem_filter]
        exact ⟨h, decide_eq_true hid⟩
      | inr h =>
        right
        unfold WaitP at h
        obtain ⟨e, he, hex⟩ := List.mem_map.mp h
        rw [List.mem_map]
        exact ⟨e, List.mem_filter.mpr ⟨he, decide_eq_true (by rw [hex]; exact hid)⟩, hex⟩
    · intro x hx pn hp ea hea htg
      simp only [waitStep] at hp
      have hp' := List.mem_filter.mp hp
      have hid : (x.ns, x.name) ≠ (v.ns, v.name) := of_decide_eq_true hp'.2
      have hxv : x ≠ v := by intro h; rw [h] at hid; exact hid rfl
      have hxc : x ∈ c.slices := by
        rw [hsl] at hx
        cases mem_upsertBy _ v x c.slices hx with
        | inl h => exact absurd h hxv
        | inr h => exact h
      have hkey : x.key ≠ v.key := by
        intro hk
        rw [hsl] at hx
        exact hxv (hgood.1.sliceKeyInj x hx v (mem_upsertBy_self _ v c.slices) hk)
      rw [slice_write_sameBut c v c' hstep ea.2 x.key hkey]
      exact hs.reg x hxc pn hp'.1 ea hea htg
  | delSlice ns name =>
    obtain ⟨o, hfo, hsame⟩ := slice_delete_sameBut c ns name c' hstep
    have hsl : c'.slices = c.slices.filter (fun x => !(x.ns = ns ∧ x.name = name)) := by
      simp only [stepC, hfo, Option.map, Option.some.injEq] at hstep
      rw [← hstep]
      exact (runAll_one_st _ _).2
    have hne : ∀ x ∈ c'.slices, (x.ns, x.name) ≠ (ns, name) := by
      intro x hx hn
      simp only [Prod.mk.injEq] at hn
      rw [hsl] at hx
      have := (List.mem_filter.mp hx).2
      simp [hn.1, hn.2] at this
    refine ⟨?_, hpcO (by simp) (by simp), slice_delete_sound c ns name c' hstep hs.sound hgood, ?_⟩
    · apply (slice_delete_inv c ns name c' hstep hs.inv hgood).mono
      intro x hx hp
      have hid := hne x hx
      simp only [staleStep, waitStep, Exempt, StaleP, WaitP]
      cases hp with
      | inl h =>
        left
        rw [List.mem_filter]
        exact ⟨h, decide_eq_true hid⟩
      | inr h =>
        right
        unfold WaitP at h
        obtain ⟨e, he, hex⟩ := List.mem_map.mp h
        rw [List.mem_map]
        exact ⟨e, List.mem_filter.mpr ⟨he, decide_eq_true (by rw [hex]; exact hid)⟩, hex⟩
    · intro x hx pn hp ea hea htg
      simp only [waitStep] at hp
      have hp' := List.mem_filter.mp hp
      have hxc : x ∈ c.slices := by rw [hsl] at hx; exact (List.mem_filter.mp hx).1
      have hom := List.mem_of_find?_eq_some hfo
      have ho := List.find?_some hfo
      simp only [Bool.decide_and, Bool.and_eq_true, decide_eq_true_eq] at ho
      have hkey : x.key ≠ o.key := by
        intro hk
        have := hgood.sliceKeyInj x hxc o hom hk
        rw [this] at hx
        exact hne o hx (by simp [ho.1, ho.2])
      rw [hsame ea.2 x.key hkey]
      exact hs.reg x hxc pn hp'.1 ea hea htg
  | svc v =>
    exact ⟨svc_write_inv c v c' hstep hs.inv hgood.1 hgood.2.2 hgood.2.1, hpcO (by simp) (by simp),
      svc_write_sound c v c' hstep hgood.2.2 hs.sound,
      hquiet (step_quiet_resync c _ c' hstep trivial) (by
        simp only [stepC, Option.some.injEq] at hstep
        rw [← hstep]; exact (runAll_one_st _ _).2)⟩
  | delSvc ns name =>
    refine ⟨svc_delete_inv c ns name c' hstep hs.inv hgood.1 hgood.2, hpcO (by simp) (by simp),
      svc_delete_sound c ns name c' hstep hs.sound, hquiet (step_quiet_resync c _ c' hstep trivial) ?_⟩
    simp only [stepC] at hstep
    cases hf : findSvc c.svcs ns name with
    | none => rw [hf] at hstep; cases hstep
    | some o =>
      rw [hf] at hstep
      simp only [Option.map, Option.some.injEq] at hstep
      rw [← hstep]; exact (runAll_one_st _ _).2
  | pod v =>
    obtain ⟨hwf, hk, hu, hrest⟩ := hgood
    by_cases hph : v.phase = "F"
    · cases hfo : findPod c.pods v.ns v.name with
      | none => simp [stepC, hph, hfo] at hstep
      | some o =>
        simp only [stepC, hph, if_true, hfo, Option.map, Option.some.injEq] at hstep
        subst hstep
        have h1 : staleStep c st (.pod v) = st ++ refsOf c v.ns v.name := by simp [staleStep, hph, hfo]
        have h2 : waitStep c st wp (.pod v) = wp := by simp [waitStep, hph]
        rw [h1, h2]
        exact pod_removed_stable c st wp v.ns v.name v o hfo ⟨rfl, rfl⟩ hs hwf hk hu
    · obtain ⟨hwf1, hk1, hu1, hno, hg⟩ := hrest hph
      have h1 : staleStep c st (.pod v) = st := by simp [staleStep, hph]
      rw [h1]
      have hpc' := pod_write_podCache c v c' hph hstep hs.pc hk hk1
      have hst : SameSt { c with pods := upsertBy (fun x => x.ns = v.ns ∧ x.name = v.name) v c.pods } c' := by
        rw [stepC_pod c v hph, Option.some.injEq] at hstep
        rw [← hstep]
        exact runAll_one_st _ _
      have hnc := noCachedAddr_of_objects c hs.pc hu
      have hnc' : NoCachedAddr c' := by
        apply noCachedAddr_of_objects c' hpc'
        intro sl hsl ea hea htg p hp
        rw [hst.2] at hsl
        rw [hst.1] at hp
        exact hu1 sl hsl ea hea htg p hp
      have heip := effIP_eq c v hs.pc hk hk1 hno
      -- the waiting pairs afterwards: old pairs stay or are replayed, new pairs are registered
      have hwp : ∀ x ∈ c.slices, WaitP wp x →
          WaitP (waitStep c st wp (.pod v)) x ∨ (v.ip ≠ "" ∧ setContains c.resync v.ip x.key = true) := by
        intro x hx hw
        simp only [waitStep, hph, if_false]
        cases hfo : findPod c.pods v.ns v.name with
        | none =>
          simp only []
          by_cases hvip : v.ip = ""
          · rw [if_pos hvip]
            left
            unfold WaitP at hw ⊢
            rw [List.map_append, List.mem_append]
            exact Or.inl hw
          · rw [if_neg hvip]
            exact waitP_clearAt c wp v.ip hwf hs.reg x hx hw
        | some o => exact waitP_clearAt c wp v.ip hwf hs.reg x hx hw
      have hreg' : RegOK c' (waitStep c st wp (.pod v)) := by
        intro x hx pn hp ea hea htg
        have hxc : x ∈ c.slices := by rw [hst.2] at hx; exact hx
        apply pod_step_keeps c v c' hph hstep
        rotate_left
        · -- registered before the write
          simp only [waitStep, hph, if_false] at hp
          cases hfo : findPod c.pods v.ns v.name with
          | none =>
            rw [hfo] at hp
            simp only [] at hp
            by_cases hvip : v.ip = ""
            · rw [if_pos hvip] at hp
              cases List.mem_append.mp hp with
              | inl h => exact hs.reg x hxc pn h ea hea htg
              | inr h =>
                obtain ⟨y, hy, hye⟩ := List.mem_map.mp h
                have hy' := List.mem_filter.mp hy
                simp only [decide_eq_true_eq] at hy'
                simp only [Prod.mk.injEq] at hye
                have : y = x := hwf.sliceNameInj y hy'.1 x hxc hye.1.1 hye.1.2
                subst this
                apply hs.inv.parked y hxc hy'.2.1
                apply (mem_parkedAddrs c.pods y ea.2).mpr
                refine ⟨hy'.2.2.1, ea, hea, rfl, v.ns, v.name, ?_, hfo⟩
                rw [htg, ← hye.2]
            · rw [if_neg hvip] at hp
              exact hs.reg x hxc pn (mem_clearAt c wp v.ip _ hp).1 ea hea htg
          | some o =>
            rw [hfo] at hp
            exact hs.reg x hxc pn (mem_clearAt c wp v.ip _ hp).1 ea hea htg
        · -- and not under the IP the event works with
          rw [heip]
          by_cases hvip : v.ip = ""
          · exact Or.inr hvip
          · left
            intro hea2
            simp only [waitStep, hph, if_false] at hp
            have hcl : ((x.ns, x.name), pn) ∈ clearAt c wp v.ip := by
              cases hfo : findPod c.pods v.ns v.name with
              | none => rw [hfo] at hp; simp only [] at hp; rw [if_neg hvip] at hp; exact hp
              | some o => rw [hfo] at hp; exact hp
            cases (mem_clearAt c wp v.ip _ hcl).2 with
            | inl h => exact hvip h
            | inr h => exact h ⟨x, hxc, rfl, ea, hea, htg, hea2⟩
      cases hg with
      | inl hg =>
        refine ⟨?_, hpc', pod_write_sound c v c' hph hstep hs.sound hwf1 hg, hreg'⟩
        apply pod_write_inv c v c' hph hstep hs.inv hwf1 hnc hnc' hg
        · intro x hx hp
          cases hp with
          | inl h => exact Or.inl (Or.inl h)
          | inr h =>
            cases hwp x hx h with
            | inl h1 => exact Or.inl (Or.inr h1)
            | inr h1 => right; rw [heip]; exact h1
        · intro hfo hvip x hx hsv hr
          by_cases hex : Exempt st wp x
          · cases hex with
            | inl h => exact Or.inl h
            | inr h =>
              cases hwp x hx h with
              | inl h1 => exact Or.inr h1
              | inr h1 => exact absurd hvip h1.1
          · right
            simp only [waitStep, hph, if_false, hfo, hvip, if_true]
            unfold WaitP
            rw [List.map_append, List.mem_append]
            right
            rw [List.mem_map]
            refine ⟨((x.ns, x.name), (v.ns, v.name)), ?_, rfl⟩
            rw [List.mem_map]
            exact ⟨x, List.mem_filter.mpr ⟨hx, by simp [hex, hsv, hr]⟩, rfl⟩
      | inr hg =>
        refine ⟨?_, hpc', pod_label_edit_sound c v c' hph hstep hs.sound hwf1 hg.1, hreg'⟩
        apply (pod_label_edit_inv c v c' hph hstep hs.inv hwf1 hnc hg.1 hg.2).mono
        intro x hx hp
        have hxc : x ∈ c.slices := by rw [hst.2] at hx; exact hx
        cases hp with
        | inl h => exact Or.inl h
        | inr h =>
          cases hwp x hxc h with
          | inl h1 => exact Or.inr h1
          | inr h1 =>
            exfalso
            -- nothing is registered under the IP of a pod whose label edit is recomputed
            unfold PodLabelGood at hg
            cases hfo : findPod c.pods v.ns v.name with
            | none => rw [hfo] at hg; exact hg.1
            | some o =>
              rw [hfo] at hg
              have hnw := hg.1.2.2.2.2.2.2.1
              have := h1.2
              simp [setContains, hnw] at this
  | delPod ns name =>
    obtain ⟨hwf, hk, hu⟩ := hgood
    cases hfo : findPod c.pods ns name with
    | none => simp [stepC, hfo] at hstep
    | some o =>
      simp only [stepC, hfo, Option.map, Option.some.injEq] at hstep
      subst hstep
      have h1 : staleStep c st (.delPod ns name) = st ++ refsOf c ns name := by simp [staleStep, hfo]
      have h2 : waitStep c st wp (.delPod ns name) = wp := rfl
      rw [h1, h2]
      have ho := List.find?_some hfo
      simp only [Bool.decide_and, Bool.and_eq_true, decide_eq_true_eq] at ho
      exact pod_removed_stable c st wp ns name o o hfo ho hs hwf hk hu
  | node v =>
    simp only [stepC, Option.some.injEq] at hstep
    subst hstep
    exact ⟨nodes_change_inv c _ hs.inv (noCachedAddr_of_objects c hs.pc hgood.1) hgood.2, hs.pc.of_eq rfl rfl rfl, hs.sound,
      hs.reg⟩
  | delNode name =>
    simp only [stepC] at hstep
    split at hstep
    · simp only [Option.some.injEq] at hstep
      subst hstep
      exact ⟨nodes_change_inv c _ hs.inv (noCachedAddr_of_objects c hs.pc hgood.1) hgood.2, hs.pc.of_eq rfl rfl rfl, hs.sound,
        hs.reg⟩
    · cases hstep
  | ns v =>
    have hpc' := hpcO (by simp) (by simp)
    rw [ns_write_ctl c v hgood, Option.some.injEq] at hstep
    subst hstep
    exact ⟨hs.inv.of_nss _, hpc', hs.sound, hs.reg⟩
  | delNs name =>
    have hpc' := hpcO (by simp) (by simp)
    rw [ns_delete_ctl c name c' hgood hstep] at hpc' ⊢
    exact ⟨hs.inv.of_nss _, hpc', hs.sound, hs.reg⟩
  | hold => exact absurd hgood (fun h => h)
  | release =>
    simp only [stepC, Option.some.injEq] at hstep
    subst hstep
    exact hs

/-- every step of the history is good in the state (and with the stale and waiting sets) in which it happens -/
def AllGood : Ctl → StaleSet → WaitSet → List Op → Prop
  | _, _, _, [] => True
  | c, st, wp, o :: r => GoodStep c st wp o ∧
      AllGood ((stepC c o).getD c) (if (stepC c o).isSome then staleStep c st o else st)
        (if (stepC c o).isSome then waitStep c st wp o else wp) r

/-- the stale set and the waiting pairs at the end of the history -/
def ghostRun : Ctl → StaleSet → WaitSet → List Op → StaleSet × WaitSet
  | _, st, wp, [] => (st, wp)
  | c, st, wp, o :: r => ghostRun ((stepC c o).getD c) (if (stepC c o).isSome then staleStep c st o else st)
      (if (stepC c o).isSome then waitStep c st wp o else wp) r

def staleRun (c : Ctl) (st : StaleSet) (wp : WaitSet) (ops : List Op) : StaleSet := (ghostRun c st wp ops).1
def waitRun (c : Ctl) (st : StaleSet) (wp : WaitSet) (ops : List Op) : WaitSet := (ghostRun c st wp ops).2

theorem runC_stable (ops : List Op) (c : Ctl) (st : StaleSet) (wp : WaitSet) (hs : Stable c st wp)
    (hgood : AllGood c st wp ops) : Stable (runC c ops) (ghostRun c st wp ops).1 (ghostRun c st wp ops).2 := by
  induction ops generalizing c st wp with
  | nil => exact hs
  | cons o r ih =>
    simp only [runC, ghostRun]
    cases hst : stepC c o with
    | none =>
      simp only [Option.getD, Option.isSome, Bool.false_eq_true, if_false]
      have := hgood.2
      rw [hst] at this
      exact ih c st wp hs this
    | some c' =>
      simp only [Option.getD, Option.isSome, if_true]
      have := hgood.2
      rw [hst] at this
      exact ih c' _ _ (handlers_preserve_inv c st wp o c' hs hgood.1 hst) this

theorem allGood_noHold (ops : List Op) (c : Ctl) (st : StaleSet) (wp : WaitSet) (h : AllGood c st wp ops) : NoHold ops := by
  induction ops generalizing c st wp with
  | nil => intro o ho; cases ho
  | cons o r ih =>
    intro x hx
    cases List.mem_cons.mp hx with
    | inl hxo =>
      subst hxo
      intro hh
      subst hh
      exact h.1
    | inr hxr => exact ih _ _ _ h.2 x hxr

/-- **convergence_any_order.**  For every history (any list of creates, updates and deletes of
    Services, EndpointSlices, Pods, Nodes and Namespaces - hence every interleaving of the per-kind
    streams, every repetition - each write handled to quiescence before the next) whose steps are good,
    the controller started empty ends with caches that are the handler-function of the final stores:
    `servicesMap` is the Services of the store, every cache entry of a slice that is neither stale nor
    waiting is `updateEndpointCacheForSlice` of that slice evaluated on the final objects, no other entry
    exists, every address still without pod is registered in `needResync`, the index holds
    `endpointSliceCache.get` of those entries, and `podsByIP` / `ipByPods` hold exactly the running,
    ready pods of the store.  `EntryOK` reads the pod cache, which is itself this function of the Pod
    store; so nothing in the conclusion refers to the order of arrival, and two orders of the same
    history end in the same derived state. -/
theorem convergence_any_order (ops : List Op) (hgood : AllGood {} [] [] ops) :
    InvExcept (run {} ops).c (Exempt (staleRun {} [] [] ops) (waitRun {} [] [] ops)) ∧ PodCacheOK (run {} ops).c := by
  have hn := allGood_noHold ops {} [] [] hgood
  rw [(run_sync ops {} rfl rfl hn).1]
  have := runC_stable ops {} [] [] stable_empty hgood
  exact ⟨this.inv, this.pc⟩

/-- the same when every pod delete has been followed by the slice controller's write of the slices
    that referred to the pod and every pod has got its IP (nothing stale, nothing waiting at the end): the full
    invariant -/
theorem convergence_any_order_inv (ops : List Op) (hgood : AllGood {} [] [] ops)
    (hst : staleRun {} [] [] ops = []) (hwt : waitRun {} [] [] ops = []) :
    Inv (run {} ops).c := by
  have := (convergence_any_order ops hgood).1
  rw [hst, hwt] at this
  exact this.mono (fun _ _ h => by simp [Exempt, StaleP, WaitP] at h)

/-- **needResync_no_leak.**  After any good history, with the queue drained, `needResync` is exactly the
    set of endpoints still waiting for a pod: an address is registered under a slice key only if that slice
    is in the store and has the address on an endpoint whose targetRef pod is not in the store or is there
    without IP yet, and every address of a slice (neither stale nor waiting) whose targetRef pod is not in the
    store is registered.  Nothing stays behind for a pod that has arrived with its IP, for a removed address or
    for a deleted slice. -/
theorem needResync_no_leak (ops : List Op) (hgood : AllGood {} [] [] ops) :
    (∀ a k, setContains (run {} ops).c.resync a k = true →
      ∃ sl ∈ (run {} ops).c.slices, sl.key = k ∧ a ∈ parkedAddrs (visPods (run {} ops).c.pods) sl) ∧
    (∀ sl ∈ (run {} ops).c.slices, ¬ Exempt (staleRun {} [] [] ops) (waitRun {} [] [] ops) sl →
      ∀ a ∈ parkedAddrs (run {} ops).c.pods sl, setContains (run {} ops).c.resync a sl.key = true) := by
  have hn := allGood_noHold ops {} [] [] hgood
  refine ⟨?_, ?_⟩
  · rw [(run_sync ops {} rfl rfl hn).1]
    exact (runC_stable ops {} [] [] stable_empty hgood).sound
  · intro sl hsl hns a ha
    exact (convergence_any_order ops hgood).1.parked sl hsl hns a ha

end IstioModel.C15
