import IstioModel.C15.Lemmas

/-!
# C15 - property theorems

"The services, endpoints and workload identities the control plane derives from a Kubernetes
cluster depend only on the cluster's current objects, not on the order in which Service,
EndpointSlice, Pod, Node and Namespace events arrived or were replayed."

The model (`Model.lean`) is the controller as it is, including its order dependences (see
`notes/C15.md`, findings); the theorems below say where it converges and exhibit where it does not.
-/
namespace IstioModel.C15

/-! ## the caches after one handler -/

/-- entry of one slice in the endpoint slice cache -/
def cacheEntry (c : SliceCache) (host slice : String) : Option (List IEp) :=
  (alookup host c).bind (alookup slice)

theorem cacheEntry_update_same (c : SliceCache) (host slice : String) (eps : List IEp) :
    cacheEntry (cacheUpdate c host slice eps) host slice = some eps := by
  simp [cacheEntry, cacheUpdate, alookup_aset_same]

theorem cacheEntry_update_other (c : SliceCache) (host slice host2 slice2 : String) (eps : List IEp)
    (h : host2 ≠ host ∨ slice2 ≠ slice) :
    cacheEntry (cacheUpdate c host slice eps) host2 slice2 = cacheEntry c host2 slice2 := by
  unfold cacheEntry cacheUpdate
  by_cases hh : host2 = host
  · subst hh
    have hs : slice2 ≠ slice := by
      cases h with
      | inl h => exact absurd rfl h
      | inr h => exact h
    rw [alookup_aset_same]
    simp only [Option.bind]
    rw [alookup_aset_other _ _ _ _ hs]
    cases hl : alookup host2 c with
    | none => simp only [Option.getD]; split <;> simp [aerase, alookup]
    | some per =>
      simp only [Option.getD]
      split
      · rw [alookup_aerase_other _ _ _ hs]
      · rfl
  · rw [alookup_aset_other _ _ _ _ hh]

/-- `servicesMap` after a Service add/update event: the hostname maps to the converted latest
    object, every other hostname is untouched. -/
theorem service_upsert_smap (s : State) (svc : Svc) (h : String) :
    alookup h (serviceUpsert s svc).smap = if h = svc.host then some svc else alookup h s.smap := by
  unfold serviceUpsert refreshIndex
  simp only []
  split <;> simp [alookup_aset]

theorem service_delete_smap (s : State) (svc : Svc) (h : String) :
    alookup h (serviceDelete s svc).smap = if h = svc.host then none else alookup h s.smap := by
  simp [serviceDelete, alookup_aerase]

/-- After an EndpointSlice add/update/replay the cache entry of the slice is exactly what
    `updateEndpointCacheForSlice` computes from the stores as they are now ("handlers see the latest
    objects"), whatever was cached before. -/
theorem slice_event_entry_fresh (s : State) (old : Option Slice) (sl : Slice) (eps : List IEp)
    (h : buildSlice s.pods s.nodes s.byIP (alookup sl.host s.smap) sl = some eps) :
    cacheEntry (sliceUpsert s old sl).cache sl.host sl.name = some eps := by
  unfold sliceUpsert pushEDS updateSliceCache rebuildSlice
  cases old with
  | none => simp only []; rw [h]; simp [cacheEntry_update_same]
  | some o => simp only []; rw [h]; simp [cacheEntry_update_same]

/-- ... and the entries of all other slices are untouched. -/
theorem slice_event_entry_other (s : State) (old : Option Slice) (sl : Slice) (host2 slice2 : String)
    (h : host2 ≠ sl.host ∨ slice2 ≠ sl.name) :
    cacheEntry (sliceUpsert s old sl).cache host2 slice2 = cacheEntry s.cache host2 slice2 := by
  unfold sliceUpsert pushEDS updateSliceCache rebuildSlice
  cases old with
  | none =>
    simp only []
    split
    · rfl
    · simp [cacheEntry_update_other _ _ _ _ _ _ h]
  | some o =>
    simp only []
    split
    · rfl
    · simp [cacheEntry_update_other _ _ _ _ _ _ h]

end IstioModel.C15
