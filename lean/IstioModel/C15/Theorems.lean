import IstioModel.C15.PodCache

/-!
# C15 - property theorems

"The services, endpoints and workload identities the control plane derives from a Kubernetes
cluster depend only on the cluster's current objects, not on the order in which Service,
EndpointSlice, Pod, Node and Namespace events arrived or were replayed.  In particular endpoints
seen before their Pod, Pods seen before their Service, IP reuse and label changes all end in the
same endpoint sets and service-account sets as a cold start on the final objects."

The model (`Model.lean`) is the controller as it is, order dependences included (notes/C15.md,
findings).  `Inv c` (`Inv.lean`) says that every cache of the controller is what its handler
computes from the stores *as they are now*, and `PodCacheOK c` (`PodCache.lean`) that the pod cache
`podsByIP` / `ipByPods` is the set of running, ready pods of the store by IP - together a function of
the current objects, with no memory of the order of arrival.  The theorems:

* `handlers_preserve_inv`  every write handled to quiescence (the event against the updated store plus
  the replays it queues) preserves both on a "good" step; the conditions of `GoodStep` are explicit,
  decidable statements about the objects seen so far and the written object, each one excludes exactly
  one of the order dependences of the real controller (each with a witness below).  A pod that is
  deleted (or evicted) while slices still refer to it leaves those slices *stale* until the slice
  controller rewrites them (the causal Kubernetes order); the stale set is tracked along the history
  (`staleStep`) and exempted from the invariant meanwhile;
* `convergence_any_order`  hence for every history and every interleaving of the per-kind streams
  (any list of writes, each handled before the next: the class of schedules covered; the windows in
  which the stores run ahead of the handlers are covered for the cold start only, `ColdStart.lean`)
  made of good steps, the caches at the end are that function of the final objects - two orders of
  the same history cannot end differently;
* `needResync_no_leak`, `endpoint_before_pod`, ... corollaries and concrete examples;
* `*_witness`  the order dependences the hypotheses exclude, as theorems about the model
  (all replayed on the real controller by harness/corpus/C15/order.known.ops).
-/
namespace IstioModel.C15

/-! ## the invariant holds initially -/

theorem inv_empty : Inv ({} : Ctl) := by
  refine ⟨?_, ?_, ?_, ?_, ?_, ?_, ?_⟩
  · intro sl hsl; cases hsl
  · intro h n eps he; simp [cacheEntry, alookup] at he
  · intro sl hsl; cases hsl
  · intro sv hsv; cases hsv
  · intro h sv hl; simp [alookup] at hl
  · intro h; simp [IdxOK, alookup]
  · intro h per hl; simp [alookup] at hl

/-! ## slices left stale by a pod delete -/

/-- (namespace, name) of the slices whose cached endpoints may still show a pod that has been deleted
    since the slice was last written -/
abbrev StaleSet := List (String × String)

def StaleP (st : StaleSet) (x : Slice) : Prop := (x.ns, x.name) ∈ st

instance (sl : Slice) (ns name : String) : Decidable (Refs sl ns name) := by unfold Refs; exact inferInstance

/-- the slices of the store with an endpoint that refers to the pod -/
def refsOf (c : Ctl) (ns name : String) : StaleSet :=
  (c.slices.filter (fun x => decide (Refs x ns name))).map (fun x => (x.ns, x.name))

/-- bookkeeping of the stale set: a pod that leaves the store (delete, eviction) makes the slices that
    still refer to it stale; writing or deleting a slice clears it -/
def staleStep (c : Ctl) (st : StaleSet) : Op → StaleSet
  | .delPod ns name => if (findPod c.pods ns name).isSome then st ++ refsOf c ns name else st
  | .pod v => if v.phase = "F" ∧ (findPod c.pods v.ns v.name).isSome then st ++ refsOf c v.ns v.name else st
  | .slice v => st.filter (fun k => k ≠ (v.ns, v.name))
  | .delSlice ns name => st.filter (fun k => k ≠ (ns, name))
  | _ => st

/-! ## good steps -/

/-- a label edit does not reach a stale slice: no stale slice belongs to a Service that
    `recomputeServiceForPod` visits for the new labels -/
def LabelFree (c : Ctl) (st : StaleSet) (v : Pod) : Prop :=
  ∀ x ∈ c.slices, StaleP st x → ∀ sv ∈ c.svcs, sv.ns = v.ns → selMatch sv.sel v.labels = true →
    ¬ (x.ns = sv.ns ∧ x.svc = sv.name)

/-- The side conditions under which the controller repairs its caches after one write (the state
    `c` is the controller before the write, `st` the slices currently stale).  Every clause is a
    decidable statement about the objects seen so far and the written object (`SvcIrrelevant` reads the
    pod cache, which is a function of the pods by `PodCacheOK`). -/
def GoodStep (c : Ctl) (st : StaleSet) : Op → Prop
  | .slice v =>
      WF { c with slices := upsertBy (fun x => x.ns = v.ns ∧ x.name = v.name) v c.slices } ∧
      (∀ o ∈ c.slices, o.ns = v.ns → o.name = v.name → o.svc = v.svc ∧ o.fqdn = v.fqdn) ∧
      WF c ∧ SliceKeepsWaiting c v
  | .delSlice _ _ => WF c
  | .svc v =>
      WF { c with svcs := upsertBy (fun x => x.ns = v.ns ∧ x.name = v.name) v c.svcs } ∧
      SvcIrrelevant c v.host (alookup v.host c.smap) (some v) ∧ convNs c.nss v = v
  | .delSvc ns name =>
      WF c ∧ ∀ o, findSvc c.svcs ns name = some o → SvcIrrelevant c o.host (some o) none
  | .pod v =>
      WF c ∧ PodKeysOK c.pods ∧ NoPodAtUntargeted c ∧ PodIPStable c v ∧
      (v.phase ≠ "F" →
        WF { c with pods := upsertBy (fun x => x.ns = v.ns ∧ x.name = v.name) v c.pods } ∧
        PodKeysOK (upsertBy (fun x => x.ns = v.ns ∧ x.name = v.name) v c.pods) ∧
        NoPodAtUntargeted { c with pods := upsertBy (fun x => x.ns = v.ns ∧ x.name = v.name) v c.pods } ∧
        (PodGood c v ∨ (PodLabelGood c v ∧ LabelFree c st v)))
  | .delPod _ _ => WF c ∧ PodKeysOK c.pods ∧ NoPodAtUntargeted c
  | .node v =>
      NoPodAtUntargeted c ∧ ∀ p ∈ c.pods, localityOf (upsertBy (fun x => x.name = v.name) v c.nodes) p = localityOf c.nodes p
  | .delNode name =>
      NoPodAtUntargeted c ∧ ∀ p ∈ c.pods, localityOf (c.nodes.filter (·.name ≠ name)) p = localityOf c.nodes p
  | .ns v => ∀ sv ∈ c.svcs, sv.ns ≠ v.name
  | .delNs name => ∀ sv ∈ c.svcs, sv.ns ≠ name
  | .hold => False
  | .release => True

/-- what is established after every write: the caches are the handler-function of the stores (stale
    slices exempt), the pod cache is the function of the pods, `needResync` holds only what waits -/
structure Stable (c : Ctl) (st : StaleSet) : Prop where
  inv : InvExcept c (StaleP st)
  pc : PodCacheOK c
  sound : ResyncSound c

theorem stable_empty : Stable ({} : Ctl) [] := by
  refine ⟨inv_empty.mono (fun _ _ h => absurd h (fun h => h)), ⟨?_, ?_⟩, ?_⟩
  · intro ip key
    constructor
    · intro h; simp [setContains, alookup] at h
    · intro ⟨p, hp, _⟩; cases hp
  · intro key ip
    constructor
    · intro h; simp [alookup] at h
    · intro h; simp [setContains, alookup] at h
  · intro a k h
    simp [setContains, alookup] at h

theorem mem_refsOf (c : Ctl) (ns name : String) (x : Slice) (hx : x ∈ c.slices) (h : Refs x ns name) :
    StaleP (refsOf c ns name) x := by
  unfold StaleP refsOf
  rw [List.mem_map]
  exact ⟨x, List.mem_filter.mpr ⟨hx, by simpa using h⟩, rfl⟩

theorem noPodAt_removed (c c' : Ctl) (ns name : String) (hu : NoPodAtUntargeted c)
    (hst : SameSt { c with pods := c.pods.filter (fun x => !(x.ns = ns ∧ x.name = name)) } c') :
    NoPodAtUntargeted c' := by
  intro sl hsl ea hea htg p hp
  rw [hst.2] at hsl
  rw [hst.1] at hp
  exact hu sl hsl ea hea htg p (List.mem_filter.mp hp).1

/-- a pod leaves the store: everything is kept, the slices that refer to it become stale -/
theorem pod_removed_stable (c : Ctl) (st : StaleSet) (ns name : String) (evp o : Pod)
    (hfo : findPod c.pods ns name = some o) (hevp : evp.ns = ns ∧ evp.name = name)
    (hs : Stable c st) (hwf : WF c) (hk : PodKeysOK c.pods) (hu : NoPodAtUntargeted c)
    (hip : o.ip = "" ∨ evp.ip = "" ∨ evp.ip = o.ip) :
    Stable (runAll { c with pods := c.pods.filter (fun x => !(x.ns = ns ∧ x.name = name)) } [.podDel evp])
      (st ++ refsOf c ns name) := by
  have hst := runAll_one_st { c with pods := c.pods.filter (fun x => !(x.ns = ns ∧ x.name = name)) } (.podDel evp)
  have hpc' := pod_removed_podCache c ns name evp o hfo hevp hs.pc hk hip
  have hnc := noCachedAddr_of_objects c hs.pc hu
  have hnc' := noCachedAddr_of_objects _ hpc' (noPodAt_removed c _ ns name hu hst)
  refine ⟨?_, hpc', pod_removed_sound c ns name evp hs.sound hwf⟩
  apply (pod_removed_inv c ns name evp hs.inv hwf hnc hnc').mono
  intro x hx hp
  rw [hst.2] at hx
  unfold StaleP
  rw [List.mem_append]
  cases hp with
  | inl h => exact Or.inl h
  | inr h => exact Or.inr (mem_refsOf c ns name x hx h)

/-- **handlers_preserve_inv.**  One write, handled to quiescence (the informer event against the
    updated store, then every replay it queued), takes a controller whose caches are a function of
    its stores to a controller whose caches are that function of the new stores. -/
theorem handlers_preserve_inv (c : Ctl) (st : StaleSet) (op : Op) (c' : Ctl)
    (hs : Stable c st) (hgood : GoodStep c st op) (hstep : stepC c op = some c') :
    Stable c' (staleStep c st op) := by
  have hpcO : (∀ v, op ≠ .pod v) → (∀ ns name, op ≠ .delPod ns name) → PodCacheOK c' := by
    intro h1 h2
    have := step_other_pc c op c' hstep h1 h2
    exact hs.pc.of_eq this.1 this.2.1 this.2.2
  cases op with
  | slice v =>
    refine ⟨?_, hpcO (by simp) (by simp), slice_write_sound c v c' hstep hs.sound hgood.2.2.1 hgood.1
      (fun o ho h1 h2 => (hgood.2.1 o ho h1 h2).1) hgood.2.2.2⟩
    apply (slice_write_inv c v c' hstep hs.inv hgood.1 hgood.2.1).mono
    intro x hx hp
    simp only [staleStep, StaleP]
    rw [List.mem_filter]
    refine ⟨hp.1, ?_⟩
    simp only [ne_eq, decide_not, Bool.not_eq_true', decide_eq_false_iff_not, Prod.mk.injEq]
    intro hn
    apply hp.2
    simp only [stepC, Option.some.injEq] at hstep
    have hsl : c'.slices = upsertBy (fun x => x.ns = v.ns ∧ x.name = v.name) v c.slices := by
      rw [← hstep]
      exact (runAll_one_st _ _).2
    rw [hsl] at hx
    exact hgood.1.sliceNameInj x hx v (mem_upsertBy_self _ v c.slices) hn.1 hn.2
  | delSlice ns name =>
    refine ⟨?_, hpcO (by simp) (by simp), slice_delete_sound c ns name c' hstep hs.sound hgood⟩
    apply (slice_delete_inv c ns name c' hstep hs.inv hgood).mono
    intro x hx hp
    simp only [staleStep, StaleP]
    rw [List.mem_filter]
    refine ⟨hp, ?_⟩
    simp only [ne_eq, decide_not, Bool.not_eq_true', decide_eq_false_iff_not, Prod.mk.injEq]
    intro hn
    simp only [stepC] at hstep
    cases hf : findSlice c.slices ns name with
    | none => rw [hf] at hstep; cases hstep
    | some o =>
      rw [hf] at hstep
      simp only [Option.map, Option.some.injEq] at hstep
      have hsl : c'.slices = c.slices.filter (fun x => !(x.ns = ns ∧ x.name = name)) := by
        rw [← hstep]
        exact (runAll_one_st _ _).2
      rw [hsl] at hx
      have := (List.mem_filter.mp hx).2
      simp [hn.1, hn.2] at this
  | svc v =>
    exact ⟨svc_write_inv c v c' hstep hs.inv hgood.1 hgood.2.2 hgood.2.1, hpcO (by simp) (by simp),
      svc_write_sound c v c' hstep hgood.2.2 hs.sound⟩
  | delSvc ns name =>
    exact ⟨svc_delete_inv c ns name c' hstep hs.inv hgood.1 hgood.2, hpcO (by simp) (by simp),
      svc_delete_sound c ns name c' hstep hs.sound⟩
  | pod v =>
    obtain ⟨hwf, hk, hu, hip, hrest⟩ := hgood
    by_cases hph : v.phase = "F"
    · cases hfo : findPod c.pods v.ns v.name with
      | none => simp [stepC, hph, hfo] at hstep
      | some o =>
        simp only [stepC, hph, if_true, hfo, Option.map, Option.some.injEq] at hstep
        subst hstep
        have : staleStep c st (.pod v) = st ++ refsOf c v.ns v.name := by simp [staleStep, hph, hfo]
        rw [this]
        exact pod_removed_stable c st v.ns v.name v o hfo ⟨rfl, rfl⟩ hs hwf hk hu (hip o hfo)
    · obtain ⟨hwf1, hk1, hu1, hg⟩ := hrest hph
      have : staleStep c st (.pod v) = st := by simp [staleStep, hph]
      rw [this]
      have hpc' := pod_write_podCache c v c' hph hstep hs.pc hk hk1 hip
      have hst : SameSt { c with pods := upsertBy (fun x => x.ns = v.ns ∧ x.name = v.name) v c.pods } c' := by
        rw [stepC_pod c v hph, Option.some.injEq] at hstep
        rw [← hstep]
        exact runAll_one_st _ _
      have hnc := noCachedAddr_of_objects c hs.pc hu
      have hnc' : NoCachedAddr c' := by
        apply noCachedAddr_of_objects c' hpc'
        intro sl hsl ea hea htg p hp
        rw [hst.2] at hsl
        rw [hst.1] at hp
        exact hu1 sl hsl ea hea htg p hp
      cases hg with
      | inl hg =>
        exact ⟨pod_write_inv c v c' hph hstep hs.inv hwf1 hnc hnc' hg, hpc', pod_write_sound c v c' hph hstep hs.sound hwf1 hg⟩
      | inr hg =>
        exact ⟨pod_label_edit_inv c v c' hph hstep hs.inv hwf1 hnc hg.1 hg.2, hpc',
          pod_label_edit_sound c v c' hph hstep hs.sound hg.1⟩
  | delPod ns name =>
    obtain ⟨hwf, hk, hu⟩ := hgood
    cases hfo : findPod c.pods ns name with
    | none => simp [stepC, hfo] at hstep
    | some o =>
      simp only [stepC, hfo, Option.map, Option.some.injEq] at hstep
      subst hstep
      have : staleStep c st (.delPod ns name) = st ++ refsOf c ns name := by simp [staleStep, hfo]
      rw [this]
      have ho := List.find?_some hfo
      simp only [Bool.decide_and, Bool.and_eq_true, decide_eq_true_eq] at ho
      exact pod_removed_stable c st ns name o o hfo ho hs hwf hk hu (Or.inr (Or.inr rfl))
  | node v =>
    simp only [stepC, Option.some.injEq] at hstep
    subst hstep
    exact ⟨nodes_change_inv c _ hs.inv (noCachedAddr_of_objects c hs.pc hgood.1) hgood.2, hs.pc.of_eq rfl rfl rfl, hs.sound⟩
  | delNode name =>
    simp only [stepC] at hstep
    split at hstep
    · simp only [Option.some.injEq] at hstep
      subst hstep
      exact ⟨nodes_change_inv c _ hs.inv (noCachedAddr_of_objects c hs.pc hgood.1) hgood.2, hs.pc.of_eq rfl rfl rfl, hs.sound⟩
    · cases hstep
  | ns v =>
    have hpc' := hpcO (by simp) (by simp)
    rw [ns_write_ctl c v hgood, Option.some.injEq] at hstep
    subst hstep
    exact ⟨hs.inv.of_nss _, hpc', hs.sound⟩
  | delNs name =>
    have hpc' := hpcO (by simp) (by simp)
    rw [ns_delete_ctl c name c' hgood hstep] at hpc' ⊢
    exact ⟨hs.inv.of_nss _, hpc', hs.sound⟩
  | hold => exact absurd hgood (fun h => h)
  | release =>
    simp only [stepC, Option.some.injEq] at hstep
    subst hstep
    exact hs

/-- every step of the history is good in the state (and with the stale set) in which it happens -/
def AllGood : Ctl → StaleSet → List Op → Prop
  | _, _, [] => True
  | c, st, o :: r => GoodStep c st o ∧ AllGood ((stepC c o).getD c) (if (stepC c o).isSome then staleStep c st o else st) r

/-- the stale set at the end of the history -/
def staleRun : Ctl → StaleSet → List Op → StaleSet
  | _, st, [] => st
  | c, st, o :: r => staleRun ((stepC c o).getD c) (if (stepC c o).isSome then staleStep c st o else st) r

theorem runC_stable (ops : List Op) (c : Ctl) (st : StaleSet) (hs : Stable c st) (hgood : AllGood c st ops) :
    Stable (runC c ops) (staleRun c st ops) := by
  induction ops generalizing c st with
  | nil => exact hs
  | cons o r ih =>
    simp only [runC, staleRun]
    cases hst : stepC c o with
    | none =>
      simp only [Option.getD, Option.isSome, Bool.false_eq_true, if_false]
      have := hgood.2
      rw [hst] at this
      exact ih c st hs this
    | some c' =>
      simp only [Option.getD, Option.isSome, if_true]
      have := hgood.2
      rw [hst] at this
      exact ih c' _ (handlers_preserve_inv c st o c' hs hgood.1 hst) this

theorem allGood_noHold (ops : List Op) (c : Ctl) (st : StaleSet) (h : AllGood c st ops) : NoHold ops := by
  induction ops generalizing c st with
  | nil => intro o ho; cases ho
  | cons o r ih =>
    intro x hx
    cases List.mem_cons.mp hx with
    | inl hxo =>
      subst hxo
      intro hh
      subst hh
      exact h.1
    | inr hxr => exact ih _ _ h.2 x hxr

/-- **convergence_any_order.**  For every history (any list of creates, updates and deletes of
    Services, EndpointSlices, Pods, Nodes and Namespaces - hence every interleaving of the per-kind
    streams, every repetition - each write handled to quiescence before the next) whose steps are good,
    the controller started empty ends with caches that are the handler-function of the final stores:
    `servicesMap` is the Services of the store, every cache entry of a slice that is not stale is
    `updateEndpointCacheForSlice` of that slice evaluated on the final objects, no other entry exists,
    every address still without pod is registered in `needResync`, the index holds
    `endpointSliceCache.get` of those entries, and `podsByIP` / `ipByPods` hold exactly the running,
    ready pods of the store.  `EntryOK` reads the pod cache, which is itself this function of the Pod
    store; so nothing in the conclusion refers to the order of arrival, and two orders of the same
    history end in the same derived state. -/
theorem convergence_any_order (ops : List Op) (hgood : AllGood {} [] ops) :
    InvExcept (run {} ops).c (StaleP (staleRun {} [] ops)) ∧ PodCacheOK (run {} ops).c := by
  have hn := allGood_noHold ops {} [] hgood
  rw [(run_sync ops {} rfl rfl hn).1]
  have := runC_stable ops {} [] stable_empty hgood
  exact ⟨this.inv, this.pc⟩

/-- the same when every pod delete has been followed by the slice controller's write of the slices
    that referred to the pod (nothing stale at the end): the full invariant -/
theorem convergence_any_order_inv (ops : List Op) (hgood : AllGood {} [] ops) (hst : staleRun {} [] ops = []) :
    Inv (run {} ops).c := by
  have := (convergence_any_order ops hgood).1
  rw [hst] at this
  exact this.mono (fun _ _ h => by simp [StaleP] at h)

/-- **needResync_no_leak.**  After any good history, with the queue drained, `needResync` is exactly the
    set of endpoints still waiting for a pod: an address is registered under a slice key if and only
    if that slice is in the store and has the address on an endpoint whose targetRef pod is not in
    the store.  Nothing stays behind for a pod that has arrived, for a removed address or for a
    deleted slice.  (For a slice that is stale the "if" direction holds after its next write.) -/
theorem needResync_no_leak (ops : List Op) (hgood : AllGood {} [] ops) :
    (∀ a k, setContains (run {} ops).c.resync a k = true →
      ∃ sl ∈ (run {} ops).c.slices, sl.key = k ∧ a ∈ parkedAddrs (run {} ops).c.pods sl) ∧
    (∀ sl ∈ (run {} ops).c.slices, ¬ StaleP (staleRun {} [] ops) sl → ∀ a ∈ parkedAddrs (run {} ops).c.pods sl,
      setContains (run {} ops).c.resync a sl.key = true) := by
  have hn := allGood_noHold ops {} [] hgood
  refine ⟨?_, ?_⟩
  · rw [(run_sync ops {} rfl rfl hn).1]
    exact (runC_stable ops {} [] stable_empty hgood).sound
  · intro sl hsl hns a ha
    exact (convergence_any_order ops hgood).1.parked sl hsl hns a ha

end IstioModel.C15
