import IstioModel.C15.PodCache

/-!
# C15 - slices that wait for the IP of a pod ("endpoints seen before their Pod", realistic version)

The first event of a real pod is `Pending`, without IP.  A slice that was handled before (its endpoint is
parked in `needResync` under the endpoint address) is not replayed by that event; it is replayed by the
later pod event that carries the address.  In between the slice's cache entry is not the
handler-function of the stores (the handler would find the pod by name now), so the slice is exempt from
the invariant, like a slice left stale by a pod delete.  `WaitSet` is the ghost bookkeeping of these
(slice, pod) pairs; `RegOK` says that every waiting pair is still registered in `needResync` - which is
what makes the pod event that carries the address repair it.
-/
namespace IstioModel.C15

/-- (slice, pod) pairs, each by (namespace, name): the slice has an endpoint for the pod that was parked
    when the pod was not in the store, the pod has arrived since but has no IP yet -/
abbrev WaitSet := List ((String × String) × (String × String))

def WaitP (wp : WaitSet) (x : Slice) : Prop := (x.ns, x.name) ∈ wp.map (·.1)

instance (wp : WaitSet) (x : Slice) : Decidable (WaitP wp x) := by unfold WaitP; exact inferInstance

/-- every waiting pair is registered in `needResync` under the address of the endpoint -/
def RegOK (c : Ctl) (wp : WaitSet) : Prop :=
  ∀ x ∈ c.slices, ∀ pn, ((x.ns, x.name), pn) ∈ wp →
    ∀ ea ∈ x.addrPairs, ea.1.target = some pn → setContains c.resync ea.2 x.key = true

/-! ### what the handlers do to `needResync` -/

/-- registrations only grow -/
def ResyncGrows (c d : Ctl) : Prop := ∀ a k, setContains c.resync a k = true → setContains d.resync a k = true

theorem ResyncGrows.refl (c : Ctl) : ResyncGrows c c := fun _ _ h => h

theorem ResyncGrows.trans {a b c : Ctl} (h1 : ResyncGrows a b) (h2 : ResyncGrows b c) : ResyncGrows a c :=
  fun x k h => h2 x k (h1 x k h)

theorem ResyncGrows.of_eq {c d : Ctl} (h : d.resync = c.resync) : ResyncGrows c d := by
  intro a k hc; rw [h]; exact hc

theorem rebuildSlice_grows (c : Ctl) (host : String) (sl : Slice) : ResyncGrows c (rebuildSlice c host sl) := by
  unfold rebuildSlice
  split
  · exact ResyncGrows.refl c
  · intro a k h
    show setContains ((parkedAddrs c.pods sl).foldl (fun m a => setInsert m a sl.key) c.resync) a k = true
    rw [foldl_setInsert_contains, h]
    rfl

theorem rebuildService_grows (c : Ctl) (sv : Svc) : ResyncGrows c (rebuildService c sv) := by
  unfold rebuildService
  generalize svcSlices c sv = l
  induction l generalizing c with
  | nil => exact ResyncGrows.refl c
  | cons sl t ih =>
    simp only [List.foldl_cons]
    exact (rebuildSlice_grows c sv.host sl).trans (ih _)

theorem recompute_grows (c : Ctl) (p : Pod) : ResyncGrows c (recompute c p) := by
  rw [recompute_eq]
  generalize c.svcs.filter (fun sv => sv.ns = p.ns ∧ selMatch sv.sel p.labels) = l
  have : ∀ (acc : Ctl), ResyncGrows c acc → ResyncGrows c (l.foldl recomputeStep acc) := by
    induction l with
    | nil => intro acc h; exact h
    | cons sv t ih =>
      intro acc h
      simp only [List.foldl_cons]
      apply ih
      unfold recomputeStep
      split
      · exact h
      · exact h.trans ((rebuildService_grows _ _).trans
          (ResyncGrows.of_eq (refreshIndex_fields _ _).2.2.2.2.2.2.2.1))
  exact this c (ResyncGrows.refl c)

theorem sliceUpsert_grows (c : Ctl) (sl : Slice) : ResyncGrows c (sliceUpsert c none sl) := by
  intro a k h
  cases hb : buildSlice c.pods c.nodes c.byIP (alookup sl.host c.smap) sl with
  | none => rw [sliceUpsert_none c none sl hb]; exact h
  | some eps =>
    rw [sliceUpsert_some c none sl eps hb]
    show setContains ((parkedAddrs c.pods sl).foldl (fun m a => setInsert m a sl.key) c.resync) a k = true
    rw [foldl_setInsert_contains, h]
    rfl

theorem replays_grows (ks : List String) (c : Ctl) : ResyncGrows c (runEvents c (ks.map Ev.replay)).1 := by
  induction ks generalizing c with
  | nil => exact ResyncGrows.refl c
  | cons k ks ih =>
    simp only [List.map_cons, runEvents, handle]
    cases c.slices.find? (fun sl => sl.key = k) with
    | none => exact ih c
    | some sl => exact (sliceUpsert_grows c sl).trans (ih _)

/-- registrations under other keys are untouched -/
def ResyncSameBut (key : String) (c d : Ctl) : Prop :=
  ∀ a k, k ≠ key → setContains d.resync a k = setContains c.resync a k

theorem sliceUpsert_sameBut (c : Ctl) (old : Option Slice) (sl : Slice) : ResyncSameBut sl.key c (sliceUpsert c old sl) := by
  intro a k hk
  cases hb : buildSlice c.pods c.nodes c.byIP (alookup sl.host c.smap) sl with
  | none => rw [sliceUpsert_none c old sl hb]; exact sliceResync0_contains c old sl a k hk
  | some eps =>
    rw [sliceUpsert_some c old sl eps hb]
    show setContains ((parkedAddrs c.pods sl).foldl (fun m a => setInsert m a sl.key) (sliceResync0 c old sl)) a k = _
    rw [foldl_setInsert_contains, sliceResync0_contains c old sl a k hk]
    have : (k == sl.key) = false := by simp [hk]
    simp [this]

theorem sliceDelete_sameBut (c : Ctl) (sl : Slice) : ResyncSameBut sl.key c (sliceDelete c sl) := by
  intro a k hk
  rw [sliceDelete_eq]
  show setContains (endpointsDeleted c.resync sl.key sl.allAddrs) a k = _
  rw [endpointsDeleted_contains]
  have : (k == sl.key) = false := by simp [hk]
  simp [this]

theorem sliceEvent_sameBut (c : Ctl) (o sl : Slice) (hk : o.key = sl.key) : ResyncSameBut sl.key c (sliceEvent c o sl) := by
  unfold sliceEvent
  intro a k hne
  split
  · rw [sliceUpsert_sameBut _ (some o) sl a k hne]
    exact sliceDelete_sameBut c o a k (by rw [hk]; exact hne)
  · exact sliceUpsert_sameBut c (some o) sl a k hne

/-- Service and Namespace handlers leave `needResync` alone -/
theorem serviceUpsert_resync (c : Ctl) (sv : Svc) : (serviceUpsert c sv).resync = c.resync := by
  unfold serviceUpsert
  exact (refreshIndex_fields _ _).2.2.2.2.2.2.2.1

theorem reprocessNs_resync (c : Ctl) (ns : String) : (reprocessNs c ns).resync = c.resync := by
  unfold reprocessNs
  generalize c.svcs.filter (fun sv => sv.ns = ns) = l
  induction l generalizing c with
  | nil => rfl
  | cons sv t ih =>
    simp only [List.foldl_cons]
    rw [ih, serviceUpsert_resync]

/-- a Pod event keeps every registration that is not under the IP it works with -/
theorem podEvent_keeps (c : Ctl) (old : Option Pod) (p : Pod) (k : PodEvKind) (a k' : String)
    (ha : a ≠ effIP c p ∨ effIP c p = "") (h : setContains c.resync a k' = true) :
    setContains (podEvent c old p k).1.resync a k' = true := by
  unfold effIP at ha
  have htw : ∀ (d : Ctl) ip, a ≠ ip → setContains d.resync a k' = true → setContains (takeWaiting d ip).1.resync a k' = true := by
    intro d ip hne hd
    unfold takeWaiting
    cases alookup ip d.resync with
    | none => exact hd
    | some keys =>
      show setContains (aerase ip d.resync) a k' = true
      rw [setContains_aerase]
      simp [hne, hd]
  have hdel : ∀ (d : Ctl) ip key, (deleteIP d ip key).1.resync = d.resync := by
    intro d ip key
    unfold deleteIP
    simp only []
    split <;> rfl
  have hadd : ∀ (d : Ctl) ip b, a ≠ ip → setContains d.resync a k' = true →
      setContains (addPod d p ip b).1.resync a k' = true := by
    intro d ip b hne hd
    unfold addPod
    split
    · simp only []
      split
      · exact recompute_grows d p a k' hd
      · exact hd
    · exact htw (cachePod d p.key ip) ip hne hd
  unfold podEvent
  simp only []
  by_cases hip : (if p.ip = "" then (alookup p.key c.ipBy).getD "" else p.ip) = ""
  · rw [if_pos hip]; exact h
  · rw [if_neg hip]
    have ha : a ≠ (if p.ip = "" then (alookup p.key c.ipBy).getD "" else p.ip) := by
      cases ha with
      | inl h1 => exact h1
      | inr h1 => exact absurd h1 hip
    generalize (if p.ip = "" then (alookup p.key c.ipBy).getD "" else p.ip) = ip at *
    cases k with
    | del =>
      simp only [if_true]
      rw [hdel]; exact h
    | add =>
      simp only [reduceCtorEq, if_false]
      split
      · exact hadd _ ip false ha (htw c ip ha h)
      · exact htw c ip ha h
    | upd =>
      simp only [reduceCtorEq, if_false]
      split
      · rw [hdel]; exact htw c ip ha h
      · exact hadd _ ip _ ha (htw c ip ha h)

/-- the write does not take the IP away from a pod that is cached (a running, ready pod does not lose its IP;
    an eviction is a Failed-phase write and takes the other path) -/
def NoIPLoss (c : Ctl) (v : Pod) : Prop :=
  v.ip ≠ "" ∨ ∀ o, findPod c.pods v.ns v.name = some o → podOK o = false

/-- then the IP the Pod event works with is the pod's own -/
theorem effIP_eq (c : Ctl) (v : Pod) (hpc : PodCacheOK c) (hk : PodKeysOK c.pods)
    (hk1 : PodKeysOK (upsertBy (fun x => x.ns = v.ns ∧ x.name = v.name) v c.pods))
    (hno : NoIPLoss c v) : effIP c v = v.ip := by
  unfold effIP
  by_cases hv : v.ip = ""
  · simp only [hv, if_true]
    cases hl : alookup v.key c.ipBy with
    | none => rfl
    | some a =>
      exfalso
      obtain ⟨p, hp, hpk, _, hok⟩ := (hpc.mem a v.key).mp ((hpc.inv v.key a).mp hl)
      have hf := old_of_key c v hk hk1 p hp hpk
      cases hno with
      | inl h => exact h hv
      | inr h =>
        have := h p hf
        rw [hok] at this; cases this
  · simp [hv]

theorem podEvent_del_resync (c : Ctl) (old : Option Pod) (p : Pod) :
    (podEvent c old p .del).1.resync = c.resync ∧ (podEvent c old p .del).2 = [] := by
  unfold podEvent
  simp only []
  by_cases hip : (if p.ip = "" then (alookup p.key c.ipBy).getD "" else p.ip) = ""
  · rw [if_pos hip]; exact ⟨rfl, rfl⟩
  · rw [if_neg hip]
    generalize (if p.ip = "" then (alookup p.key c.ipBy).getD "" else p.ip) = ip at *
    simp only [if_true]
    refine ⟨?_, trivial⟩
    unfold deleteIP
    simp only []
    split <;> rfl

/-- a Pod event queues replays only -/
theorem podEvent_out_replays (c : Ctl) (old : Option Pod) (p : Pod) (k : PodEvKind) :
    ∀ e ∈ (podEvent c old p k).2, ∃ k', e = Ev.replay k' := by
  have htw : ∀ (d : Ctl) ip, ∀ e ∈ (takeWaiting d ip).2, ∃ k', e = Ev.replay k' := by
    intro d ip e he
    obtain ⟨ks, hks, _⟩ := takeWaiting_eff d ip
    rw [hks] at he
    obtain ⟨k', _, rfl⟩ := List.mem_map.mp he
    exact ⟨k', rfl⟩
  have hadd : ∀ (d : Ctl) ip b, ∀ e ∈ (addPod d p ip b).2, ∃ k', e = Ev.replay k' := by
    intro d ip b
    unfold addPod
    split
    · intro e he; simp at he
    · exact htw _ _
  unfold podEvent
  simp only []
  by_cases hip : (if p.ip = "" then (alookup p.key c.ipBy).getD "" else p.ip) = ""
  · rw [if_pos hip]; intro e he; simp at he
  · rw [if_neg hip]
    generalize (if p.ip = "" then (alookup p.key c.ipBy).getD "" else p.ip) = ip at *
    cases k with
    | del => simp only [if_true]; intro e he; simp at he
    | add =>
      simp only [reduceCtorEq, if_false]
      split
      · intro e he
        cases List.mem_append.mp he with
        | inl h => exact htw _ _ e h
        | inr h => exact hadd _ _ _ e h
      · exact htw _ _
    | upd =>
      simp only [reduceCtorEq, if_false]
      split
      · exact htw _ _
      · intro e he
        cases List.mem_append.mp he with
        | inl h => exact htw _ _ e h
        | inr h => exact hadd _ _ _ e h

theorem replayEvents_grows (l : List Ev) (c : Ctl) (h : ∀ e ∈ l, ∃ k', e = Ev.replay k') :
    ResyncGrows c (runEvents c l).1 := by
  induction l generalizing c with
  | nil => exact ResyncGrows.refl c
  | cons e r ih =>
    obtain ⟨k', rfl⟩ := h e (by simp)
    simp only [runEvents, handle]
    cases c.slices.find? (fun sl => sl.key = k') with
    | none => exact ih c (fun x hx => h x (List.mem_cons_of_mem _ hx))
    | some sl => exact (sliceUpsert_grows c sl).trans (ih _ (fun x hx => h x (List.mem_cons_of_mem _ hx)))

/-! ### the ghost bookkeeping -/

/-- the slice has an endpoint for pod `pn` at address `ip` -/
def RefsAt (x : Slice) (pn : String × String) (ip : String) : Prop :=
  ∃ ea ∈ x.addrPairs, ea.1.target = some pn ∧ ea.2 = ip

instance (x : Slice) (pn : String × String) (ip : String) : Decidable (RefsAt x pn ip) := by
  unfold RefsAt; exact inferInstance

/-- a pair is repaired by a Pod event that works with `ip`: its slice has the endpoint of the pair at `ip` (so it is
    registered under `ip` and replayed) -/
def HitBy (c : Ctl) (ip : String) (e : (String × String) × (String × String)) : Prop :=
  ∃ x ∈ c.slices, (x.ns, x.name) = e.1 ∧ RefsAt x e.2 ip

instance (c : Ctl) (ip : String) (e : (String × String) × (String × String)) : Decidable (HitBy c ip e) := by
  unfold HitBy; exact inferInstance

def clearAt (c : Ctl) (wp : WaitSet) (ip : String) : WaitSet :=
  if ip = "" then wp else wp.filter fun e => !(decide (HitBy c ip e))

/-! ### one write and `needResync` -/

/-- a Pod add/update handled to quiescence keeps every registration that is not under the pod's IP -/
theorem pod_step_keeps (c : Ctl) (v : Pod) (c' : Ctl) (hph : v.phase ≠ "F") (hstep : stepC c (.pod v) = some c')
    (a k : String) (ha : a ≠ effIP c v ∨ effIP c v = "") (h : setContains c.resync a k = true) :
    setContains c'.resync a k = true := by
  rw [stepC_pod c v hph] at hstep
  simp only [Option.some.injEq] at hstep
  subst hstep
  let c1 : Ctl := { c with pods := upsertBy (fun x => x.ns = v.ns ∧ x.name = v.name) v c.pods }
  have hfind : findPod c1.pods v.ns v.name = some v := by
    apply find_upsertBy
    simp
  have hev : ∃ (old : Option Pod) (kind : PodEvKind) (kx : List String),
      handle c1 (podEvOf c v) = ((podEvent c1 old v kind).1, kx.map Ev.replay ++ (podEvent c1 old v kind).2) := by
    unfold podEvOf
    cases findPod c.pods v.ns v.name with
    | none => exact ⟨none, .add, [], by simp [handle, hfind]⟩
    | some o =>
      obtain ⟨kx, hkx, _⟩ := idReplays_eq c1 o v
      exact ⟨some o, .upd, kx, by simp [handle, hfind, hkx]⟩
  obtain ⟨old, kind, kx, hh⟩ := hev
  have hrun : runAll c1 [podEvOf c v] =
      (runEvents (podEvent c1 old v kind).1 (kx.map Ev.replay ++ (podEvent c1 old v kind).2 ++ [])).1 := by
    simp only [runAll, runEvents, hh]
  show setContains (runAll c1 _).resync a k = true
  rw [hrun]
  apply replayEvents_grows _ _ (by
    intro e he
    rw [List.append_nil] at he
    cases List.mem_append.mp he with
    | inl h =>
      obtain ⟨k', _, rfl⟩ := List.mem_map.mp h
      exact ⟨k', rfl⟩
    | inr h => exact podEvent_out_replays c1 old v kind e h)
  exact podEvent_keeps c1 old v kind a k ha h

/-- a pod leaving the store does not touch `needResync` -/
theorem pod_removed_resync (c : Ctl) (ns name : String) (evp : Pod) :
    (runAll { c with pods := c.pods.filter (fun x => !(x.ns = ns ∧ x.name = name)) } [.podDel evp]).resync = c.resync := by
  have := podEvent_del_resync { c with pods := c.pods.filter (fun x => !(x.ns = ns ∧ x.name = name)) } none evp
  simp only [runAll, runEvents, handle, this.2, List.append_nil]
  exact this.1

/-- Service, Namespace and Node writes do not touch `needResync` -/
theorem step_quiet_resync (c : Ctl) (op : Op) (c' : Ctl) (hstep : stepC c op = some c')
    (hop : match op with
      | .svc _ | .delSvc _ _ | .ns _ | .delNs _ | .node _ | .delNode _ | .release => True
      | _ => False) : c'.resync = c.resync := by
  cases op with
  | pod v => exact absurd hop (fun h => h)
  | delPod ns name => exact absurd hop (fun h => h)
  | slice v => exact absurd hop (fun h => h)
  | delSlice ns name => exact absurd hop (fun h => h)
  | hold => exact absurd hop (fun h => h)
  | release =>
    simp only [stepC, Option.some.injEq] at hstep
    subst hstep; rfl
  | node v =>
    simp only [stepC, Option.some.injEq] at hstep
    subst hstep; rfl
  | delNode name =>
    simp only [stepC] at hstep
    split at hstep
    · simp only [Option.some.injEq] at hstep
      subst hstep; rfl
    · cases hstep
  | svc v =>
    simp only [stepC, Option.some.injEq] at hstep
    subst hstep
    split
    · simp only [runAll, runEvents, handle]
      split
      · rfl
      · simp only [List.append_nil, runEvents]
        exact serviceUpsert_resync _ _
    · simp only [runAll, runEvents, handle, List.append_nil]
      exact serviceUpsert_resync _ _
  | delSvc ns name =>
    simp only [stepC] at hstep
    cases hf : findSvc c.svcs ns name with
    | none => rw [hf] at hstep; cases hstep
    | some o =>
      rw [hf] at hstep
      simp only [Option.map, Option.some.injEq] at hstep
      subst hstep
      rfl
  | ns v =>
    simp only [stepC, Option.some.injEq] at hstep
    subst hstep
    split
    · simp only [runAll, runEvents, handle]
      split
      · rfl
      · simp only [List.append_nil, runEvents]
        split
        · exact reprocessNs_resync _ _
        · rfl
    · simp only [runAll, runEvents, handle, List.append_nil]
      split
      · exact reprocessNs_resync _ _
      · rfl
  | delNs name =>
    simp only [stepC] at hstep
    cases hf : c.nss.find? (fun n => n.name = name) with
    | none => rw [hf] at hstep; cases hstep
    | some o =>
      rw [hf] at hstep
      simp only [Option.map, Option.some.injEq] at hstep
      subst hstep
      simp only [runAll, runEvents, handle, List.append_nil]
      split
      · exact reprocessNs_resync _ _
      · rfl

/-- a slice write touches only the registrations of that slice -/
theorem slice_write_sameBut (c : Ctl) (v : Slice) (c' : Ctl) (hstep : stepC c (.slice v) = some c') :
    ResyncSameBut v.key c c' := by
  simp only [stepC, Option.some.injEq] at hstep
  subst hstep
  let c1 : Ctl := { c with slices := upsertBy (fun x => x.ns = v.ns ∧ x.name = v.name) v c.slices }
  have hfind : findSlice c1.slices v.ns v.name = some v := by
    apply find_upsertBy
    simp
  cases hfo : findSlice c.slices v.ns v.name with
  | none =>
    have hr : runAll c1 [Ev.slAdd v] = sliceUpsert c1 none v := by simp [runAll, runEvents, handle, hfind]
    show ResyncSameBut v.key c (runAll c1 [Ev.slAdd v])
    rw [hr]
    exact sliceUpsert_sameBut c1 none v
  | some o =>
    have ho := List.find?_some hfo
    simp only [Bool.decide_and, Bool.and_eq_true, decide_eq_true_eq] at ho
    have hkey : o.key = v.key := by simp [Slice.key, ho.1, ho.2]
    have hr : runAll c1 [Ev.slUpd o v] = sliceEvent c1 o v := by simp [runAll, runEvents, handle, hfind]
    show ResyncSameBut v.key c (runAll c1 [Ev.slUpd o v])
    rw [hr]
    exact sliceEvent_sameBut c1 o v hkey

theorem slice_delete_sameBut (c : Ctl) (ns name : String) (c' : Ctl) (hstep : stepC c (.delSlice ns name) = some c') :
    ∃ o, findSlice c.slices ns name = some o ∧ ResyncSameBut o.key c c' := by
  simp only [stepC] at hstep
  cases hf : findSlice c.slices ns name with
  | none => rw [hf] at hstep; cases hstep
  | some o =>
    rw [hf] at hstep
    simp only [Option.map, Option.some.injEq] at hstep
    subst hstep
    refine ⟨o, rfl, ?_⟩
    simp only [runAll, runEvents, handle, List.append_nil]
    exact sliceDelete_sameBut _ o

end IstioModel.C15
