import IstioModel.C15.Derive

/-! Decidability of the hypotheses of the C15 theorems (so that concrete histories can be checked
    against them by kernel evaluation: non-vacuity examples). -/
namespace IstioModel.C15

instance (c : Ctl) : Decidable (NoCachedAddr c) := by unfold NoCachedAddr; exact inferInstance

instance (c : Ctl) (h : String) (a b : Option Svc) : Decidable (SvcIrrelevant c h a b) := by
  unfold SvcIrrelevant; exact inferInstance

instance (c : Ctl) (v : Pod) : Decidable (PodGood c v) := by
  unfold PodGood
  cases findPod c.pods v.ns v.name <;> exact inferInstance

instance (c : Ctl) (v : Pod) : Decidable (PodLabelGood c v) := by
  unfold PodLabelGood
  cases findPod c.pods v.ns v.name <;> exact inferInstance

instance (c : Ctl) (v : Slice) : Decidable (SliceKeepsWaiting c v) := by
  unfold SliceKeepsWaiting; exact inferInstance

instance (c : Ctl) (ns name : String) : Decidable (PodDelGood c ns name) := by
  unfold PodDelGood; exact inferInstance

/-- `WF` as a conjunction of bounded quantifications -/
def WFc (c : Ctl) : Prop :=
  (∀ a ∈ c.slices, ∀ b ∈ c.slices, a.host = b.host → a.name = b.name → a = b) ∧
  (∀ a ∈ c.slices, ∀ b ∈ c.slices, a.key = b.key → a = b) ∧
  (∀ a ∈ c.slices, ∀ b ∈ c.slices, a.ns = b.ns → a.name = b.name → a = b) ∧
  (∀ a ∈ c.svcs, ∀ b ∈ c.svcs, a.host = b.host → a = b) ∧
  (∀ a ∈ c.svcs, ∀ b ∈ c.svcs, a.ns = b.ns → a.name = b.name → a = b) ∧
  (∀ sl ∈ c.slices, ∀ sv ∈ c.svcs, sl.host = sv.host → sl.ns = sv.ns ∧ sl.svc = sv.name) ∧
  (∀ a ∈ c.pods, ∀ b ∈ c.pods, a.ns = b.ns → a.name = b.name → a = b)

theorem wf_iff (c : Ctl) : WF c ↔ WFc c :=
  ⟨fun h => ⟨h.sliceEntryInj, h.sliceKeyInj, h.sliceNameInj, h.svcHostInj, h.svcNameInj, h.sliceSvc, h.podNameInj⟩,
   fun h => ⟨h.1, h.2.1, h.2.2.1, h.2.2.2.1, h.2.2.2.2.1, h.2.2.2.2.2.1, h.2.2.2.2.2.2⟩⟩

instance (c : Ctl) : Decidable (WFc c) := by unfold WFc; exact inferInstance

instance (c : Ctl) : Decidable (WF c) :=
  decidable_of_iff (WFc c) (wf_iff c).symm

instance (o : Option Ctl) (P : Ctl → Prop) [∀ c, Decidable (P c)] : Decidable (∀ c', o = some c' → P c') :=
  match o with
  | none => isTrue (fun _ h => by cases h)
  | some c => decidable_of_iff (P c) ⟨fun h c' e => by cases e; exact h, fun h => h c rfl⟩

instance (c : Ctl) (op : Op) : Decidable (GoodStep c op) := by
  cases op <;> unfold GoodStep <;> exact inferInstance

instance decAllGood : (c : Ctl) → (ops : List Op) → Decidable (AllGood c ops)
  | _, [] => isTrue trivial
  | c, o :: r =>
    have : Decidable (AllGood ((stepC c o).getD c) r) := decAllGood _ r
    by unfold AllGood; exact inferInstance

instance (c : Ctl) : Decidable (NoPodAtUntargeted c) := by unfold NoPodAtUntargeted; exact inferInstance

instance (c : Ctl) (h : String) (sv : Svc) : Decidable (DistinctEps c h sv) := by
  unfold DistinctEps; exact inferInstance

instance (c : Ctl) : Decidable (NodesUnique c) := by unfold NodesUnique; exact inferInstance

/-- decidable form of `SameObjects` -/
def SameObjectsB (c d : Ctl) : Prop :=
  ((∀ x ∈ c.svcs, x ∈ d.svcs) ∧ (∀ x ∈ d.svcs, x ∈ c.svcs)) ∧
  ((∀ x ∈ c.slices, x ∈ d.slices) ∧ (∀ x ∈ d.slices, x ∈ c.slices)) ∧
  ((∀ x ∈ c.pods, x ∈ d.pods) ∧ (∀ x ∈ d.pods, x ∈ c.pods)) ∧
  ((∀ x ∈ c.nodes, x ∈ d.nodes) ∧ (∀ x ∈ d.nodes, x ∈ c.nodes))

instance (c d : Ctl) : Decidable (SameObjectsB c d) := by unfold SameObjectsB; exact inferInstance

theorem sameObjects_of_b {c d : Ctl} (h : SameObjectsB c d) : SameObjects c d :=
  ⟨fun x => ⟨h.1.1 x, h.1.2 x⟩, fun x => ⟨h.2.1.1 x, h.2.1.2 x⟩, fun x => ⟨h.2.2.1.1 x, h.2.2.1.2 x⟩,
   fun x => ⟨h.2.2.2.1 x, h.2.2.2.2 x⟩⟩

/-- decidable form of the `DistinctEps` hypothesis -/
def DistinctB (c : Ctl) (h : String) : Prop :=
  match c.svcs.find? (fun sv => sv.host = h) with
  | none => True
  | some sv => DistinctEps c h sv

instance (c : Ctl) (h : String) : Decidable (DistinctB c h) := by
  unfold DistinctB
  cases c.svcs.find? (fun sv => sv.host = h) <;> exact inferInstance

theorem distinct_of_b {c : Ctl} {h : String} (hb : DistinctB c h) :
    ∀ sv, c.svcs.find? (fun sv => sv.host = h) = some sv → DistinctEps c h sv := by
  intro sv hf
  unfold DistinctB at hb
  rw [hf] at hb
  exact hb

end IstioModel.C15
