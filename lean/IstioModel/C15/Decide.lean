import IstioModel.C15.ColdStart

/-! Decidability of the hypotheses of the C15 theorems (so that concrete histories can be checked
    against them by kernel evaluation: non-vacuity examples). -/
namespace IstioModel.C15

instance (c : Ctl) (h : String) (a b : Option Svc) : Decidable (SvcIrrelevant c h a b) := by
  unfold SvcIrrelevant; exact inferInstance

instance (c : Ctl) (ns name : String) : Decidable (Unreferenced c ns name) := by
  unfold Unreferenced; exact inferInstance

instance (c : Ctl) (o : Option Pod) (v : Pod) : Decidable (NoRecompute c o v) := by
  unfold NoRecompute; exact inferInstance

instance (c : Ctl) (P : Slice → Prop) [DecidablePred P] (v : Pod) : Decidable (PodGood c P v) := by
  unfold PodGood
  cases findPod c.pods v.ns v.name with
  | none => simp only []; exact inferInstance
  | some o =>
    simp only []
    have i1 : Decidable (NoRecompute c (some o) v) := inferInstance
    have i2a : Decidable (idChanged o v = true ∧ ∀ sl ∈ c.slices, ¬ P sl → Refs sl v.ns v.name → sl.ns = v.ns) :=
      inferInstance
    have i2b : Decidable (∀ sl ∈ c.slices, ¬ P sl → ∀ ea ∈ sl.addrPairs, ea.1.target ≠ some (v.ns, v.name)) := inferInstance
    have i2 : Decidable (podSig o = podSig v ∨
        (idChanged o v = true ∧ ∀ sl ∈ c.slices, ¬ P sl → Refs sl v.ns v.name → sl.ns = v.ns) ∨
        ∀ sl ∈ c.slices, ¬ P sl → ∀ ea ∈ sl.addrPairs, ea.1.target ≠ some (v.ns, v.name)) :=
      @instDecidableOr _ _ inferInstance (@instDecidableOr _ _ i2a i2b)
    have i3 : Decidable (o.ip = "" → v.ip ≠ "" → ∀ sl ∈ c.slices, ∀ ea ∈ sl.addrPairs,
        ea.1.target = some (v.ns, v.name) → ea.2 = v.ip) := inferInstance
    exact @instDecidableAnd _ _ i1 (@instDecidableAnd _ _ i2 i3)

instance (c : Ctl) (P : Slice → Prop) [DecidablePred P] (v : Pod) : Decidable (LabelFree c P v) := by
  unfold LabelFree; exact inferInstance

instance (c : Ctl) (v : Ns) : Decidable (NsQuiet c v) := by
  unfold NsQuiet
  cases c.nss.find? (fun n => n.name = v.name) <;> simp only [] <;> exact inferInstance

instance (c : Ctl) (P : Slice → Prop) [DecidablePred P] (nodes' : List Node) : Decidable (LocalityKept c P nodes') := by
  unfold LocalityKept
  have : ∀ (tns tn : String), Decidable (∀ p, findPod c.pods tns tn = some p → localityOf nodes' p = localityOf c.nodes p) := by
    intro tns tn
    cases findPod c.pods tns tn with
    | none => exact isTrue (fun _ h => by cases h)
    | some o => exact decidable_of_iff (localityOf nodes' o = localityOf c.nodes o) ⟨fun h p e => by cases e; exact h, fun h => h o rfl⟩
  have : ∀ (ea : Ep × String), Decidable (∀ tns tn, ea.1.target = some (tns, tn) →
      ∀ p, findPod c.pods tns tn = some p → localityOf nodes' p = localityOf c.nodes p) := by
    intro ea
    cases ea.1.target with
    | none => exact isTrue (fun _ _ h => by cases h)
    | some t =>
      exact decidable_of_iff (∀ p, findPod c.pods t.1 t.2 = some p → localityOf nodes' p = localityOf c.nodes p)
        ⟨fun h tns tn e => by cases e; exact h, fun h => h t.1 t.2 rfl⟩
  exact inferInstance

instance (c : Ctl) (name : String) : Decidable (∀ o, c.nss.find? (fun n => n.name = name) = some o → o.td = false) := by
  cases c.nss.find? (fun n => n.name = name) with
  | none => exact isTrue (fun _ h => by cases h)
  | some o => exact decidable_of_iff (o.td = false) ⟨fun h o' e => by cases e; exact h, fun h => h o rfl⟩

instance (c : Ctl) (v : Pod) : Decidable (NoIPLoss c v) := by
  unfold NoIPLoss
  cases findPod c.pods v.ns v.name with
  | none => exact isTrue (Or.inr (fun _ h => by cases h))
  | some o =>
    exact decidable_of_iff (v.ip ≠ "" ∨ podOK o = false)
      ⟨fun h => h.elim Or.inl (fun h => Or.inr (fun o' e => by cases e; exact h)),
       fun h => h.elim Or.inl (fun h => Or.inr (h o rfl))⟩

instance (pods : List Pod) : Decidable (PodKeysOK pods) := by unfold PodKeysOK; exact inferInstance

instance (c : Ctl) : Decidable (NoPodAtUntargeted c) := by unfold NoPodAtUntargeted; exact inferInstance

instance (c : Ctl) (v : Pod) : Decidable (PodLabelGood c v) := by
  unfold PodLabelGood
  cases findPod c.pods v.ns v.name <;> exact inferInstance

instance (c : Ctl) (v : Slice) : Decidable (SliceKeepsWaiting c v) := by
  unfold SliceKeepsWaiting; exact inferInstance

/-- `WF` as a conjunction of bounded quantifications -/
def WFc (c : Ctl) : Prop :=
  (∀ a ∈ c.slices, ∀ b ∈ c.slices, a.host = b.host → a.name = b.name → a = b) ∧
  (∀ a ∈ c.slices, ∀ b ∈ c.slices, a.key = b.key → a = b) ∧
  (∀ a ∈ c.slices, ∀ b ∈ c.slices, a.ns = b.ns → a.name = b.name → a = b) ∧
  (∀ a ∈ c.svcs, ∀ b ∈ c.svcs, a.host = b.host → a = b) ∧
  (∀ a ∈ c.svcs, ∀ b ∈ c.svcs, a.ns = b.ns → a.name = b.name → a = b) ∧
  (∀ sl ∈ c.slices, ∀ sv ∈ c.svcs, sl.host = sv.host → sl.ns = sv.ns ∧ sl.svc = sv.name) ∧
  (∀ a ∈ c.pods, ∀ b ∈ c.pods, a.ns = b.ns → a.name = b.name → a = b)

theorem wf_iff (c : Ctl) : WF c ↔ WFc c :=
  ⟨fun h => ⟨h.sliceEntryInj, h.sliceKeyInj, h.sliceNameInj, h.svcHostInj, h.svcNameInj, h.sliceSvc, h.podNameInj⟩,
   fun h => ⟨h.1, h.2.1, h.2.2.1, h.2.2.2.1, h.2.2.2.2.1, h.2.2.2.2.2.1, h.2.2.2.2.2.2⟩⟩

instance (c : Ctl) : Decidable (WFc c) := by unfold WFc; exact inferInstance

instance (c : Ctl) : Decidable (WF c) :=
  decidable_of_iff (WFc c) (wf_iff c).symm

instance (o : Option Ctl) (P : Ctl → Prop) [∀ c, Decidable (P c)] : Decidable (∀ c', o = some c' → P c') :=
  match o with
  | none => isTrue (fun _ h => by cases h)
  | some c => decidable_of_iff (P c) ⟨fun h c' e => by cases e; exact h, fun h => h c rfl⟩

instance (st : StaleSet) (wp : WaitSet) : DecidablePred (Exempt st wp) := fun x => inferInstance

instance (c : Ctl) (st : StaleSet) (wp : WaitSet) (op : Op) : Decidable (GoodStep c st wp op) := by
  cases op <;> unfold GoodStep <;> exact inferInstance

instance decAllGood : (c : Ctl) → (st : StaleSet) → (wp : WaitSet) → (ops : List Op) → Decidable (AllGood c st wp ops)
  | _, _, _, [] => isTrue trivial
  | c, st, wp, o :: r =>
    have : Decidable (AllGood ((stepC c o).getD c) (if (stepC c o).isSome then staleStep c st o else st)
        (if (stepC c o).isSome then waitStep c st wp o else wp) r) := decAllGood _ _ _ r
    by unfold AllGood; exact inferInstance

instance (c : Ctl) : Decidable (NodesUnique c) := by unfold NodesUnique; exact inferInstance

/-- decidable form of `SameObjects` -/
def SameObjectsB (c d : Ctl) : Prop :=
  ((∀ x ∈ c.svcs, x ∈ d.svcs) ∧ (∀ x ∈ d.svcs, x ∈ c.svcs)) ∧
  ((∀ x ∈ c.slices, x ∈ d.slices) ∧ (∀ x ∈ d.slices, x ∈ c.slices)) ∧
  ((∀ x ∈ c.pods, x ∈ d.pods) ∧ (∀ x ∈ d.pods, x ∈ c.pods)) ∧
  ((∀ x ∈ c.nodes, x ∈ d.nodes) ∧ (∀ x ∈ d.nodes, x ∈ c.nodes))

instance (c d : Ctl) : Decidable (SameObjectsB c d) := by unfold SameObjectsB; exact inferInstance

theorem sameObjects_of_b {c d : Ctl} (h : SameObjectsB c d) : SameObjects c d :=
  ⟨fun x => ⟨h.1.1 x, h.1.2 x⟩, fun x => ⟨h.2.1.1 x, h.2.1.2 x⟩, fun x => ⟨h.2.2.1.1 x, h.2.2.1.2 x⟩,
   fun x => ⟨h.2.2.2.1 x, h.2.2.2.2 x⟩⟩

instance (v d : Option HostView) : Decidable (ViewAgree v d) := by
  unfold ViewAgree
  cases v <;> cases d <;> simp only [] <;> exact inferInstance

/-! ### the cold start -/

instance (c : Ctl) (op : Op) : Decidable (ColdOp c op) := by
  cases op <;> unfold ColdOp <;> exact inferInstance

instance decColdOps : (c : Ctl) → (objs : List Op) → Decidable (ColdOps c objs)
  | _, [] => isTrue trivial
  | c, o :: r =>
    have : Decidable (ColdOps (coldWrite c o).1 r) := decColdOps _ r
    by unfold ColdOps; exact inferInstance

instance (F : Ctl) : Decidable (ColdHyp F) :=
  decidable_of_iff (WF F ∧ PodKeysOK F.pods ∧ NoPodAtUntargeted F ∧ ∀ n ∈ F.nss, n.td = false)
    ⟨fun h => ⟨h.1, h.2.1, h.2.2.1, h.2.2.2⟩, fun h => ⟨h.wf, h.keys, h.nopod, h.notd⟩⟩

instance (a : Ev) : Decidable (∃ x, a = Ev.slAdd x) := by
  cases a with
  | slAdd x => exact isTrue ⟨x, rfl⟩
  | _ => exact isFalse (by intro ⟨x, h⟩; cases h)

instance (a : Ev) : Decidable (∃ x, a = Ev.svcAdd x) := by
  cases a with
  | svcAdd x => exact isTrue ⟨x, rfl⟩
  | _ => exact isFalse (by intro ⟨x, h⟩; cases h)

instance (E : List Ev) : Decidable (SvcBeforeSlice E) := by unfold SvcBeforeSlice; exact inferInstance

end IstioModel.C15
