import IstioModel.C15.Lemmas

/-!
# C15 - the invariant "the caches are a function of the objects seen so far"

`Inv c` says that every cache of the controller is what a handler would compute from the stores
as they are now.  `InvExcept c P` is the same with the slices satisfying `P` exempted: those are the
entries parked in `needResync` whose replay is still queued.
-/
namespace IstioModel.C15

/-! ### definitions -/

/-- a slice `updateEndpointCacheForSlice` does not skip -/
def Servable (sl : Slice) : Prop := sl.fqdn = false ∧ sl.svc ≠ ""

instance (sl : Slice) : Decidable (Servable sl) := by unfold Servable; exact inferInstance

/-- the cache entry of the slice is what its handler would compute now -/
def EntryOK (c : Ctl) (sl : Slice) : Prop :=
  cacheEntry c.cache sl.host sl.name = buildSlice c.pods c.nodes c.byIP (alookup sl.host c.smap) sl

/-- every address waiting for its pod is registered in `needResync` under the slice's key -/
def ParkedOK (c : Ctl) (sl : Slice) : Prop :=
  ∀ a ∈ parkedAddrs c.pods sl, setContains c.resync a sl.key = true

/-- the index holds, for the hostname, what `endpointSliceCache.get` returns now -/
def IdxOK (c : Ctl) (h : String) : Prop :=
  match alookup h c.index with
  | none => alookup h c.smap = none ∨ cacheGet c.cache h = []
  | some e => e.eps.getD [] = cacheGet c.cache h ∧ (cacheGet c.cache h ≠ [] → e.sas = sasOf (cacheGet c.cache h))

structure InvExcept (c : Ctl) (P : Slice → Prop) (Q : Svc → Prop := fun _ => False) : Prop where
  fresh : ∀ sl ∈ c.slices, Servable sl → ¬ P sl → EntryOK c sl
  noForeign : ∀ h n eps, cacheEntry c.cache h n = some eps →
    ∃ sl ∈ c.slices, Servable sl ∧ sl.host = h ∧ sl.name = n
  parked : ∀ sl ∈ c.slices, ¬ P sl → ParkedOK c sl
  smapSome : ∀ sv ∈ c.svcs, ¬ Q sv → alookup sv.host c.smap = some sv
  smapOnly : ∀ h sv, alookup h c.smap = some sv → sv ∈ c.svcs ∧ sv.host = h
  index : ∀ h, IdxOK c h
  nodup : ∀ h per, alookup h c.cache = some per → NodupKeys per

/-- The invariant: caches = function of the objects in the stores. -/
def Inv (c : Ctl) : Prop := InvExcept c (fun _ => False)

/-- Names are faithful: distinct objects have distinct keys and hostnames (true of every real
    cluster: Kubernetes names contain neither `/` nor, for services and namespaces, `.`). -/
structure WF (c : Ctl) : Prop where
  sliceEntryInj : ∀ a ∈ c.slices, ∀ b ∈ c.slices, a.host = b.host → a.name = b.name → a = b
  sliceKeyInj : ∀ a ∈ c.slices, ∀ b ∈ c.slices, a.key = b.key → a = b
  sliceNameInj : ∀ a ∈ c.slices, ∀ b ∈ c.slices, a.ns = b.ns → a.name = b.name → a = b
  svcHostInj : ∀ a ∈ c.svcs, ∀ b ∈ c.svcs, a.host = b.host → a = b
  svcNameInj : ∀ a ∈ c.svcs, ∀ b ∈ c.svcs, a.ns = b.ns → a.name = b.name → a = b
  sliceSvc : ∀ sl ∈ c.slices, ∀ sv ∈ c.svcs, sl.host = sv.host → sl.ns = sv.ns ∧ sl.svc = sv.name
  podNameInj : ∀ a ∈ c.pods, ∀ b ∈ c.pods, a.ns = b.ns → a.name = b.name → a = b

/-- no endpoint without targetRef has an address under which the pod cache holds a pod (the
    `getPodsByIP` guess of `Controller.getPod` then finds nothing) -/
def NoCachedAddr (c : Ctl) : Prop :=
  ∀ sl ∈ c.slices, ∀ ea ∈ sl.addrPairs, ea.1.target = none → ∀ k, setContains c.byIP ea.2 k = false

/-! ### the index -/

theorem idxUpdate_ok (ix : Index) (h ns : String) (eps : List IEp) :
    match alookup h (idxUpdate ix h ns eps) with
    | none => eps = []
    | some e => e.eps.getD [] = eps ∧ (eps ≠ [] → e.sas = sasOf eps) := by
  unfold idxUpdate
  by_cases he : eps.isEmpty = true
  · have : eps = [] := List.isEmpty_iff.mp he
    subst this
    simp only [List.isEmpty_nil, if_true]
    cases hl : alookup h ix with
    | none => simp [hl]
    | some e => simp [alookup_aset_same]
  · have hne : eps ≠ [] := fun h => he (by simp [h])
    simp only [he]
    simp [alookup_aset_same]

theorem idxUpdate_other (ix : Index) (h ns h2 : String) (eps : List IEp) (hn : h2 ≠ h) :
    alookup h2 (idxUpdate ix h ns eps) = alookup h2 ix := by
  unfold idxUpdate
  split
  · split
    · rfl
    · rw [alookup_aset_other _ _ _ _ hn]
  · rw [alookup_aset_other _ _ _ _ hn]

/-! ### needResync -/

theorem foldl_setInsert_contains (m : List (String × List String)) (l : List String) (key a k : String) :
    setContains (l.foldl (fun m a => setInsert m a key) m) a k =
      (setContains m a k || (decide (a ∈ l) && k == key)) := by
  induction l generalizing m with
  | nil => simp
  | cons x r ih =>
    simp only [List.foldl_cons]
    rw [ih, setContains_setInsert]
    by_cases hax : a = x
    · subst hax
      cases setContains m a k <;> cases (k == key) <;> simp
    · have : (a == x) = false := by simp [hax]
      simp [this, hax]

theorem endpointsDeleted_contains (m : List (String × List String)) (l : List String) (key a k : String) :
    setContains (endpointsDeleted m key l) a k =
      (setContains m a k && !(decide (a ∈ l) && k == key)) := by
  unfold endpointsDeleted
  induction l generalizing m with
  | nil => simp
  | cons x r ih =>
    simp only [List.foldl_cons]
    rw [ih, setContains_setDelete]
    by_cases hax : a = x
    · subst hax
      cases setContains m a k <;> cases (k == key) <;> simp
    · have : (a == x) = false := by simp [hax]
      simp [this, hax]

/-! ### stores -/

theorem mem_upsertBy {α : Type} (same : α → Bool) (v x : α) (l : List α) :
    x ∈ upsertBy same v l → x = v ∨ x ∈ l := by
  induction l with
  | nil => simp [upsertBy]
  | cons y r ih =>
    unfold upsertBy
    split
    · intro h
      cases List.mem_cons.mp h with
      | inl h => exact Or.inl h
      | inr h => exact Or.inr (List.mem_cons_of_mem _ h)
    · intro h
      cases List.mem_cons.mp h with
      | inl h => exact Or.inr (by simp [h])
      | inr h =>
        cases ih h with
        | inl h => exact Or.inl h
        | inr h => exact Or.inr (List.mem_cons_of_mem _ h)

theorem mem_upsertBy_self {α : Type} (same : α → Bool) (v : α) (l : List α) : v ∈ upsertBy same v l := by
  induction l with
  | nil => simp [upsertBy]
  | cons y r ih =>
    unfold upsertBy
    split
    · simp
    · exact List.mem_cons_of_mem _ ih

theorem mem_upsertBy_of_mem {α : Type} (same : α → Bool) (v x : α) (l : List α)
    (hx : x ∈ l) (hs : same x = false) : x ∈ upsertBy same v l := by
  induction l with
  | nil => cases hx
  | cons y r ih =>
    unfold upsertBy
    cases List.mem_cons.mp hx with
    | inl h =>
      subst h
      simp [hs]
    | inr h =>
      split
      · exact List.mem_cons_of_mem _ h
      · exact List.mem_cons_of_mem _ (ih h)

/-! ### what a slice's endpoints depend on -/

theorem flatMap_congr' {α β : Type} (l : List α) (f g : α → List β) (h : ∀ x ∈ l, f x = g x) :
    l.flatMap f = l.flatMap g := by
  induction l with
  | nil => rfl
  | cons x r ih =>
    simp only [List.flatMap_cons]
    rw [h x (by simp), ih (fun y hy => h y (List.mem_cons_of_mem _ hy))]

theorem filterMap_congr' {α β : Type} (l : List α) (f g : α → Option β) (h : ∀ x ∈ l, f x = g x) :
    l.filterMap f = l.filterMap g := by
  induction l with
  | nil => rfl
  | cons x r ih =>
    simp only [List.filterMap_cons]
    rw [h x (by simp), ih (fun y hy => h y (List.mem_cons_of_mem _ hy))]

/-- the part of a pod an endpoint is built from -/
def podSig (p : Pod) : String × String × Labels × String × String := (p.ns, p.name, p.labels, p.sa, p.node)

theorem mkIEp_congr (nodes nodes' : List Node) (p q : Pod) (a : String) (pt : String × Nat) (hl : Health)
    (hs : podSig p = podSig q) (hloc : localityOf nodes p = localityOf nodes' q) :
    mkIEp nodes (some p) a pt hl = mkIEp nodes' (some q) a pt hl := by
  simp only [podSig, Prod.mk.injEq] at hs
  obtain ⟨h1, h2, h3, h4, h5⟩ := hs
  simp only [mkIEp, hloc, h1, h2, h3, h4, h5]

theorem mkIEp_none (nodes nodes' : List Node) (a : String) (pt : String × Nat) (hl : Health) :
    mkIEp nodes none a pt hl = mkIEp nodes' none a pt hl := rfl

/-- what `getPod` contributes to an endpoint: the pod's signature and locality -/
def podView (nodes : List Node) (p : Option Pod) : Option ((String × String × Labels × String × String) × String) :=
  p.map (fun p => (podSig p, localityOf nodes p))

theorem mkIEp_congr_view (nodes nodes' : List Node) (p q : Option Pod) (a : String) (pt : String × Nat) (hl : Health)
    (h : podView nodes p = podView nodes' q) : mkIEp nodes p a pt hl = mkIEp nodes' q a pt hl := by
  cases p with
  | none =>
    cases q with
    | none => rfl
    | some q => simp [podView] at h
  | some p =>
    cases q with
    | none => simp [podView] at h
    | some q =>
      simp only [podView, Option.map, Option.some.injEq, Prod.mk.injEq] at h
      exact mkIEp_congr _ _ _ _ _ _ _ h.1 h.2

theorem buildAddr_congr (pods pods' : List Pod) (nodes nodes' : List Node) (byIP byIP' : List (String × List String))
    (svc : Option Svc) (sl : Slice) (e : Ep) (a : String)
    (ht : ∀ tns tn, e.target = some (tns, tn) →
      podView nodes (findPod pods tns tn) = podView nodes' (findPod pods' tns tn))
    (hn : e.target = none → podView nodes (podByIP pods byIP sl.ns a) = podView nodes' (podByIP pods' byIP' sl.ns a)) :
    buildAddr pods nodes byIP svc sl e a = buildAddr pods' nodes' byIP' svc sl e a := by
  unfold buildAddr
  cases htg : e.target with
  | none =>
    simp only []
    have := hn htg
    congr 1
    apply List.map_congr_left
    intro pt _
    exact mkIEp_congr_view _ _ _ _ _ _ _ this
  | some t =>
    obtain ⟨tns, tn⟩ := t
    simp only []
    have hv := ht tns tn htg
    cases h1 : findPod pods tns tn with
    | none =>
      cases h2 : findPod pods' tns tn with
      | none => rfl
      | some q => rw [h1, h2] at hv; simp [podView] at hv
    | some p =>
      cases h2 : findPod pods' tns tn with
      | none => rw [h1, h2] at hv; simp [podView] at hv
      | some q =>
        simp only []
        congr 1
        apply List.map_congr_left
        intro pt _
        apply mkIEp_congr_view
        rw [h1, h2] at hv
        exact hv

/-- `updateEndpointCacheForSlice` reads the pod and node stores only through the pods its
    endpoints refer to. -/
theorem buildSlice_congr (pods pods' : List Pod) (nodes nodes' : List Node) (byIP byIP' : List (String × List String))
    (svc : Option Svc) (sl : Slice)
    (ht : ∀ ea ∈ sl.addrPairs, ∀ tns tn, ea.1.target = some (tns, tn) →
      podView nodes (findPod pods tns tn) = podView nodes' (findPod pods' tns tn))
    (hn : ∀ ea ∈ sl.addrPairs, ea.1.target = none →
      podView nodes (podByIP pods byIP sl.ns ea.2) = podView nodes' (podByIP pods' byIP' sl.ns ea.2)) :
    buildSlice pods nodes byIP svc sl = buildSlice pods' nodes' byIP' svc sl := by
  unfold buildSlice
  split
  · rfl
  · congr 1
    apply flatMap_congr'
    intro ea hea
    rw [buildAddr_congr pods pods' nodes nodes' byIP byIP' svc sl ea.1 ea.2 (ht ea hea) (hn ea hea)]

theorem parkedAddrs_congr (pods pods' : List Pod) (sl : Slice)
    (ht : ∀ ea ∈ sl.addrPairs, ∀ tns tn, ea.1.target = some (tns, tn) →
      (findPod pods tns tn).isNone = (findPod pods' tns tn).isNone) :
    parkedAddrs pods sl = parkedAddrs pods' sl := by
  unfold parkedAddrs
  split
  · rfl
  · apply filterMap_congr'
    intro ea hea
    cases htg : ea.1.target with
    | none => rfl
    | some t =>
      obtain ⟨tns, tn⟩ := t
      simp only []
      rw [ht ea hea tns tn htg]

theorem podView_isNone (nodes nodes' : List Node) (p q : Option Pod) (h : podView nodes p = podView nodes' q) :
    p.isNone = q.isNone := by
  cases p <;> cases q <;> simp_all [podView]

theorem podByIP_none (pods : List Pod) (byIP : List (String × List String)) (ns a : String)
    (h : alookup a byIP = none) : podByIP pods byIP ns a = none := by
  simp [podByIP, h]

theorem podByIP_empty (pods : List Pod) (byIP : List (String × List String)) (ns a : String)
    (h : ∀ k, setContains byIP a k = false) : podByIP pods byIP ns a = none := by
  unfold podByIP
  cases hl : alookup a byIP with
  | none => simp
  | some l =>
    have : l = [] := by
      cases l with
      | nil => rfl
      | cons x r =>
        have := h x
        simp [setContains, hl] at this
    simp [this]

/-! ### the EndpointSlice handler in closed form -/

theorem buildSlice_none_iff (pods : List Pod) (nodes : List Node) (byIP : List (String × List String))
    (svc : Option Svc) (sl : Slice) : buildSlice pods nodes byIP svc sl = none ↔ ¬ Servable sl := by
  unfold buildSlice Servable
  by_cases h : sl.fqdn = true ∨ sl.svc = ""
  · simp only [h, if_true, true_iff]
    intro hs
    cases h with
    | inl h => rw [hs.1] at h; cases h
    | inr h => exact hs.2 h
  · simp only [h, if_false]
    constructor
    · intro hh; cases hh
    · intro hs
      exfalso; apply hs
      constructor
      · cases hf : sl.fqdn with
        | false => rfl
        | true => exact absurd (Or.inl hf) h
      · intro he; exact h (Or.inr he)

theorem parkedAddrs_not_servable (pods : List Pod) (sl : Slice) (h : ¬ Servable sl) : parkedAddrs pods sl = [] := by
  unfold parkedAddrs
  have : sl.fqdn = true ∨ sl.svc = "" := by
    unfold Servable at h
    cases hf : sl.fqdn with
    | true => exact Or.inl rfl
    | false =>
      right
      apply Classical.byContradiction
      intro hne
      exact h ⟨hf, hne⟩
  simp [this]

/-- `needResync` after `cleanupRemovedEndpoints` -/
def sliceResync0 (c : Ctl) (old : Option Slice) (sl : Slice) : List (String × List String) :=
  match old with
  | none => c.resync
  | some o => endpointsDeleted c.resync sl.key (o.allAddrs.filter (fun a => !sl.allAddrs.contains a))

theorem sliceUpsert_some (c : Ctl) (old : Option Slice) (sl : Slice) (eps : List IEp)
    (hb : buildSlice c.pods c.nodes c.byIP (alookup sl.host c.smap) sl = some eps) :
    sliceUpsert c old sl =
      { c with cache := cacheUpdate c.cache sl.host sl.name eps,
               resync := (parkedAddrs c.pods sl).foldl (fun m a => setInsert m a sl.key) (sliceResync0 c old sl),
               index := idxUpdate c.index sl.host sl.ns (cacheGet (cacheUpdate c.cache sl.host sl.name eps) sl.host) } := by
  unfold sliceUpsert pushEDS updateSliceCache rebuildSlice sliceResync0
  cases old with
  | none => simp only []; rw [hb]
  | some o => simp only []; rw [hb]

theorem sliceUpsert_none (c : Ctl) (old : Option Slice) (sl : Slice)
    (hb : buildSlice c.pods c.nodes c.byIP (alookup sl.host c.smap) sl = none) :
    sliceUpsert c old sl =
      { c with resync := sliceResync0 c old sl,
               index := idxUpdate c.index sl.host sl.ns (cacheGet c.cache sl.host) } := by
  unfold sliceUpsert pushEDS updateSliceCache rebuildSlice sliceResync0
  cases old with
  | none => simp only []; rw [hb]
  | some o => simp only []; rw [hb]

theorem sliceResync0_contains (c : Ctl) (old : Option Slice) (sl : Slice) (a k : String) (hk : k ≠ sl.key) :
    setContains (sliceResync0 c old sl) a k = setContains c.resync a k := by
  unfold sliceResync0
  cases old with
  | none => rfl
  | some o =>
    simp only []
    rw [endpointsDeleted_contains]
    have : (k == sl.key) = false := by simp [hk]
    simp [this]

/-! ### one EndpointSlice event (add, update or replay) -/

theorem idxOK_pushed (c c' : Ctl) (h ns : String)
    (hix : c'.index = idxUpdate c.index h ns (cacheGet c'.cache h)) : IdxOK c' h := by
  unfold IdxOK
  rw [hix]
  have := idxUpdate_ok c.index h ns (cacheGet c'.cache h)
  cases hl : alookup h (idxUpdate c.index h ns (cacheGet c'.cache h)) with
  | none => rw [hl] at this; exact Or.inr this
  | some e => rw [hl] at this; exact this

theorem idxOK_unchanged (c c' : Ctl) (h : String)
    (h1 : alookup h c'.index = alookup h c.index) (h2 : alookup h c'.cache = alookup h c.cache)
    (h3 : alookup h c'.smap = alookup h c.smap) (hok : IdxOK c h) : IdxOK c' h := by
  unfold IdxOK at *
  rw [h1, cacheGet_congr _ _ _ h2, h3]
  exact hok

theorem sliceUpsert_inv (c : Ctl) (P : Slice → Prop) (old : Option Slice) (sl : Slice) {Q : Svc → Prop}
    (hinv : InvExcept c P Q) (hwf : WF c) (hsl : sl ∈ c.slices) :
    InvExcept (sliceUpsert c old sl) (fun x => P x ∧ x ≠ sl) Q := by
  have hkey : ∀ x ∈ c.slices, x ≠ sl → x.key ≠ sl.key := fun x hx hne hk => hne (hwf.sliceKeyInj x hx sl hsl hk)
  have hent : ∀ x ∈ c.slices, x ≠ sl → x.host ≠ sl.host ∨ x.name ≠ sl.name := by
    intro x hx hne
    by_cases hh : x.host = sl.host
    · right; intro hn; exact hne (hwf.sliceEntryInj x hx sl hsl hh hn)
    · left; exact hh
  cases hb : buildSlice c.pods c.nodes c.byIP (alookup sl.host c.smap) sl with
  | none =>
    have hns : ¬ Servable sl := (buildSlice_none_iff _ _ _ _ _).mp hb
    rw [sliceUpsert_none c old sl hb]
    refine ⟨?_, ?_, ?_, ?_, ?_, ?_, hinv.nodup⟩
    · intro x hx hsx hnp
      have hne : x ≠ sl := fun h => hns (h ▸ hsx)
      have hnP : ¬ P x := fun hp => hnp ⟨hp, hne⟩
      exact hinv.fresh x hx hsx hnP
    · exact hinv.noForeign
    · intro x hx hnp a ha
      by_cases hxs : x = sl
      · subst hxs
        rw [parkedAddrs_not_servable _ _ hns] at ha
        cases ha
      · have hnP : ¬ P x := fun hp => hnp ⟨hp, hxs⟩
        have := hinv.parked x hx hnP a ha
        show setContains (sliceResync0 c old sl) a x.key = true
        rw [sliceResync0_contains _ _ _ _ _ (hkey x hx hxs)]
        exact this
    · exact hinv.smapSome
    · exact hinv.smapOnly
    · intro h
      by_cases hh : h = sl.host
      · subst hh
        exact idxOK_pushed c _ sl.host sl.ns rfl
      · exact idxOK_unchanged c _ h (idxUpdate_other _ _ _ _ _ hh) rfl rfl (hinv.index h)
  | some eps =>
    have hs : Servable sl := by
      apply Classical.byContradiction
      intro hns
      rw [(buildSlice_none_iff _ _ _ _ _).mpr hns] at hb
      cases hb
    rw [sliceUpsert_some c old sl eps hb]
    refine ⟨?_, ?_, ?_, ?_, ?_, ?_, fun h per hl => nodupKeys_cacheUpdate c.cache sl.host sl.name h eps per (hinv.nodup h) hl⟩
    · intro x hx hsx hnp
      by_cases hxs : x = sl
      · subst hxs
        show cacheEntry (cacheUpdate c.cache x.host x.name eps) x.host x.name = _
        rw [cacheEntry_update_same]
        exact hb.symm
      · have hnP : ¬ P x := fun hp => hnp ⟨hp, hxs⟩
        have := hinv.fresh x hx hsx hnP
        show cacheEntry (cacheUpdate c.cache sl.host sl.name eps) x.host x.name = _
        rw [cacheEntry_update_other _ _ _ _ _ _ (hent x hx hxs)]
        exact this
    · intro h n e he
      by_cases hh : h = sl.host ∧ n = sl.name
      · exact ⟨sl, hsl, hs, hh.1.symm, hh.2.symm⟩
      · have hor : h ≠ sl.host ∨ n ≠ sl.name := by
          by_cases h1 : h = sl.host
          · right; intro h2; exact hh ⟨h1, h2⟩
          · left; exact h1
        have he' : cacheEntry (cacheUpdate c.cache sl.host sl.name eps) h n = some e := he
        rw [cacheEntry_update_other _ _ _ _ _ _ hor] at he'
        exact hinv.noForeign h n e he'
    · intro x hx hnp a ha
      show setContains ((parkedAddrs c.pods sl).foldl (fun m a => setInsert m a sl.key) (sliceResync0 c old sl)) a x.key = true
      rw [foldl_setInsert_contains]
      by_cases hxs : x = sl
      · subst hxs
        have : a ∈ parkedAddrs c.pods x := ha
        simp [this]
      · have hnP : ¬ P x := fun hp => hnp ⟨hp, hxs⟩
        have := hinv.parked x hx hnP a ha
        rw [sliceResync0_contains _ _ _ _ _ (hkey x hx hxs), this]
        rfl
    · exact hinv.smapSome
    · exact hinv.smapOnly
    · intro h
      by_cases hh : h = sl.host
      · subst hh
        exact idxOK_pushed c _ sl.host sl.ns rfl
      · exact idxOK_unchanged c _ h (idxUpdate_other _ _ _ _ _ hh)
          (alookup_cacheUpdate_other _ _ _ _ _ hh) rfl (hinv.index h)

/-! ### replays (`podArrived`) -/

theorem InvExcept.mono {c : Ctl} {P Q : Slice → Prop} {S : Svc → Prop} (h : InvExcept c P S)
    (hpq : ∀ x ∈ c.slices, P x → Q x) : InvExcept c Q S :=
  ⟨fun x hx hs hq => h.fresh x hx hs (fun hp => hq (hpq x hx hp)), h.noForeign,
   fun x hx hq => h.parked x hx (fun hp => hq (hpq x hx hp)), h.smapSome, h.smapOnly, h.index, h.nodup⟩

theorem sliceUpsert_stores (c : Ctl) (old : Option Slice) (sl : Slice) :
    (sliceUpsert c old sl).slices = c.slices ∧ (sliceUpsert c old sl).svcs = c.svcs ∧
    (sliceUpsert c old sl).pods = c.pods ∧ (sliceUpsert c old sl).nodes = c.nodes ∧
    (sliceUpsert c old sl).byIP = c.byIP ∧ (sliceUpsert c old sl).smap = c.smap ∧
    (sliceUpsert c old sl).ipBy = c.ipBy := by
  cases hb : buildSlice c.pods c.nodes c.byIP (alookup sl.host c.smap) sl with
  | none => rw [sliceUpsert_none c old sl hb]; exact ⟨rfl, rfl, rfl, rfl, rfl, rfl, rfl⟩
  | some eps => rw [sliceUpsert_some c old sl eps hb]; exact ⟨rfl, rfl, rfl, rfl, rfl, rfl, rfl⟩

theorem WF.of_stores {c c' : Ctl} (h : WF c) (h1 : c'.slices = c.slices) (h2 : c'.svcs = c.svcs)
    (h3 : c'.pods = c.pods) : WF c' := by
  constructor
  · rw [h1]; exact h.sliceEntryInj
  · rw [h1]; exact h.sliceKeyInj
  · rw [h1]; exact h.sliceNameInj
  · rw [h2]; exact h.svcHostInj
  · rw [h2]; exact h.svcNameInj
  · rw [h1, h2]; exact h.sliceSvc
  · rw [h3]; exact h.podNameInj

/-- Once every queued replay has run, the replayed slices are no longer exempt. -/
theorem replays_inv (ks : List String) (c : Ctl) (P : Slice → Prop) {Q : Svc → Prop}
    (hinv : InvExcept c (fun x => P x ∨ x.key ∈ ks) Q) (hwf : WF c) :
    InvExcept (runEvents c (ks.map Ev.replay)).1 P Q ∧ (runEvents c (ks.map Ev.replay)).2 = [] := by
  induction ks generalizing c with
  | nil =>
    simp only [List.map_nil, runEvents]
    refine ⟨hinv.mono (fun x _ hp => ?_), trivial⟩
    cases hp with
    | inl h => exact h
    | inr h => cases h
  | cons k ks ih =>
    simp only [List.map_cons, runEvents, handle]
    cases hf : c.slices.find? (fun sl => sl.key = k) with
    | none =>
      simp only []
      have hno : ∀ x ∈ c.slices, x.key ≠ k := by
        intro x hx hk
        have := List.find?_eq_none.mp hf x hx
        simp [hk] at this
      have := ih c (hinv.mono (fun x hx hp => by
        cases hp with
        | inl h => exact Or.inl h
        | inr h =>
          cases List.mem_cons.mp h with
          | inl h => exact absurd h (hno x hx)
          | inr h => exact Or.inr h)) hwf
      exact ⟨this.1, by simp [this.2]⟩
    | some sl =>
      simp only []
      have hsl : sl ∈ c.slices := List.mem_of_find?_eq_some hf
      have hk : sl.key = k := by
        have := List.find?_some hf
        simpa using this
      have hst := sliceUpsert_stores c none sl
      have h1 := sliceUpsert_inv c _ none sl hinv hwf hsl
      have h2 : InvExcept (sliceUpsert c none sl) (fun x => P x ∨ x.key ∈ ks) Q := by
        apply h1.mono
        intro x hx hp
        rw [hst.1] at hx
        cases hp.1 with
        | inl h => exact Or.inl h
        | inr h =>
          cases List.mem_cons.mp h with
          | inl h => exact absurd (hwf.sliceKeyInj x hx sl hsl (by rw [h, hk])) hp.2
          | inr h => exact Or.inr h
      have := ih (sliceUpsert c none sl) h2 (hwf.of_stores hst.1 hst.2.1 hst.2.2.1)
      exact ⟨this.1, by simp [this.2]⟩

end IstioModel.C15
