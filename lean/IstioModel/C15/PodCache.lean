import IstioModel.C15.Resync

/-!
# C15 - the pod cache (`podsByIP` / `ipByPods`) is a function of the Pods of the store

`PodCacheOK c`: a key is cached under an IP exactly when the store holds a pod with this key and this
IP that is running, ready and not terminating, and `ipByPods` is the inverse map.  Every write handled
to quiescence preserves it (`step_podCache`), provided a pod's IP, once assigned, does not change to
another IP ... (no proviso since fix F4: `deleteIP` removes the pod from the IP it is cached under).  With it the side condition "no pod cached at the address of an endpoint without targetRef" is a
statement about the objects (`noCachedAddr_of_objects`).
-/
namespace IstioModel.C15

/-- the pod is cached by `PodCache.onEvent`: not Failed/Succeeded, has an IP, not terminating, ready -/
def podOK (p : Pod) : Bool := podShouldBeIn p && p.ready

theorem podOK_ip (p : Pod) (h : podOK p = true) : p.ip ≠ "" := by
  intro hz
  simp [podOK, podShouldBeIn, hz] at h

/-- the store holds a cached-worthy pod with this key at this IP -/
def Holds (pods : List Pod) (ip key : String) : Prop := ∃ p ∈ pods, p.key = key ∧ p.ip = ip ∧ podOK p = true

structure PCOK (B : List (String × List String)) (I : List (String × String)) (S : String → String → Prop) : Prop where
  mem : ∀ ip key, setContains B ip key = true ↔ S ip key
  inv : ∀ key ip, alookup key I = some ip ↔ setContains B ip key = true

/-- **the pod cache as a function of the objects** -/
def PodCacheOK (c : Ctl) : Prop := PCOK c.byIP c.ipBy (Holds c.pods)

theorem PCOK.congr {B I} {S S' : String → String → Prop} (h : PCOK B I S) (hs : ∀ ip k, S ip k ↔ S' ip k) : PCOK B I S' :=
  ⟨fun ip k => (h.mem ip k).trans (hs ip k), h.inv⟩

theorem PCOK.unique {B I S} (h : PCOK B I S) {ip ip' key : String}
    (h1 : setContains B ip key = true) (h2 : setContains B ip' key = true) : ip = ip' := by
  have a := (h.inv key ip).mpr h1
  have b := (h.inv key ip').mpr h2
  rw [a] at b
  exact Option.some.inj b

/-- `addPod`'s cache update: the key moves to `ip` -/
theorem cachePod_ok (c : Ctl) (key ip : String) (S : String → String → Prop) (h : PCOK c.byIP c.ipBy S) :
    PCOK (cachePod c key ip).byIP (cachePod c key ip).ipBy (fun ip' k' => if k' = key then ip' = ip else S ip' k') := by
  have hmem : ∀ ip' k', setContains (cachePod c key ip).byIP ip' k' =
      ((setContains c.byIP ip' k' && !(k' == key)) || (ip' == ip && k' == key)) := by
    intro ip' k'
    unfold cachePod
    cases hI : alookup key c.ipBy with
    | none =>
      simp only []
      rw [setContains_setInsert]
      cases hc : setContains c.byIP ip' k' with
      | false => rfl
      | true =>
        by_cases hk : k' = key
        · subst hk
          have := (h.inv k' ip').mpr hc
          rw [hI] at this; cases this
        · simp [hk]
    | some cur =>
      simp only []
      rw [setContains_setInsert, setContains_setDelete]
      cases hc : setContains c.byIP ip' k' with
      | false => rfl
      | true =>
        by_cases hk : k' = key
        · subst hk
          have := (h.inv k' ip').mpr hc
          rw [hI] at this
          have : cur = ip' := Option.some.inj this
          simp [this]
        · have : (k' == key) = false := by simp [hk]
          simp [this]
  constructor
  · intro ip' k'
    rw [hmem]
    by_cases hk : k' = key
    · simp [hk]
    · simp only [hk, if_false]
      rw [← h.mem ip' k']
      simp [hk]
  · intro k' ip'
    rw [hmem]
    show alookup k' (aset key ip c.ipBy) = some ip' ↔ _
    rw [alookup_aset]
    by_cases hk : k' = key
    · simp only [hk, if_true, Option.some.injEq, beq_self_eq_true, Bool.not_true, Bool.and_false, Bool.false_or,
        Bool.and_true, beq_iff_eq]
      exact eq_comm
    · simp only [hk, if_false]
      rw [h.inv k' ip']
      simp [hk]

/-- `deleteIP` (with fix F4: the IP the key is cached under wins over the event's): the key leaves the cache -/
theorem deleteIP_ok (c : Ctl) (ip0 key : String) (S : String → String → Prop) (h : PCOK c.byIP c.ipBy S) :
    PCOK (deleteIP c ip0 key).1.byIP (deleteIP c ip0 key).1.ipBy (fun ip' k' => k' ≠ key ∧ S ip' k') := by
  unfold deleteIP
  simp only []
  have hat : ∀ ip', setContains c.byIP ip' key = true → ip' = (alookup key c.ipBy).getD ip0 := by
    intro ip' hc
    rw [(h.inv key ip').mpr hc]
    rfl
  generalize (alookup key c.ipBy).getD ip0 = ip at *
  by_cases hc : setContains c.byIP ip key = true
  · rw [if_pos hc]
    simp only []
    have hmem : ∀ ip' k', setContains (setDelete c.byIP ip key) ip' k' = (setContains c.byIP ip' k' && !(k' == key)) := by
      intro ip' k'
      rw [setContains_setDelete]
      cases hcc : setContains c.byIP ip' k' with
      | false => rfl
      | true =>
        by_cases hk : k' = key
        · subst hk
          have := hat ip' hcc
          simp [this]
        · simp [hk]
    constructor
    · intro ip' k'
      rw [hmem, ← h.mem ip' k']
      by_cases hk : k' = key
      · simp [hk]
      · simp [hk]
    · intro k' ip'
      rw [hmem, alookup_aerase]
      by_cases hk : k' = key
      · simp [hk]
      · simp only [hk, if_false]
        rw [h.inv k' ip']
        simp [hk]
  · rw [if_neg hc]
    simp only []
    have hno : ∀ ip', setContains c.byIP ip' key = false := by
      intro ip'
      cases hcc : setContains c.byIP ip' key with
      | false => rfl
      | true =>
        have := hat ip' hcc
        subst this
        exact absurd hcc hc
    constructor
    · intro ip' k'
      rw [h.mem ip' k']
      constructor
      · intro hs
        refine ⟨?_, hs⟩
        intro hk
        subst hk
        have := (h.mem ip' k').mpr hs
        rw [hno ip'] at this; cases this
      · intro hs; exact hs.2
    · exact h.inv

/-! ### what does not touch the pod cache -/

/-- `d` has the pod cache of `c` -/
def SamePC (c d : Ctl) : Prop := d.byIP = c.byIP ∧ d.ipBy = c.ipBy ∧ d.pods = c.pods ∧ d.slices = c.slices

theorem SamePC.refl (c : Ctl) : SamePC c c := ⟨rfl, rfl, rfl, rfl⟩

theorem SamePC.trans {a b c : Ctl} (h1 : SamePC a b) (h2 : SamePC b c) : SamePC a c :=
  ⟨h2.1.trans h1.1, h2.2.1.trans h1.2.1, h2.2.2.1.trans h1.2.2.1, h2.2.2.2.trans h1.2.2.2⟩

theorem rebuildSlice_pc (c : Ctl) (host : String) (sl : Slice) : SamePC c (rebuildSlice c host sl) := by
  unfold rebuildSlice
  split <;> exact ⟨rfl, rfl, rfl, rfl⟩

theorem rebuildService_pc (c : Ctl) (sv : Svc) : SamePC c (rebuildService c sv) := by
  unfold rebuildService
  generalize svcSlices c sv = l
  induction l generalizing c with
  | nil => exact SamePC.refl c
  | cons sl t ih =>
    simp only [List.foldl_cons]
    exact (rebuildSlice_pc c sv.host sl).trans (ih _)

theorem refreshIndex_pc (c : Ctl) (sv : Svc) : SamePC c (refreshIndex c sv) :=
  ⟨(refreshIndex_fields c sv).2.2.2.2.1, (refreshIndex_fields c sv).2.2.2.2.2.2.2.2, (refreshIndex_fields c sv).2.2.1, (refreshIndex_fields c sv).1⟩

theorem recompute_pc (c : Ctl) (p : Pod) : SamePC c (recompute c p) := by
  rw [recompute_eq]
  generalize c.svcs.filter (fun sv => sv.ns = p.ns ∧ selMatch sv.sel p.labels) = l
  have : ∀ (acc : Ctl), SamePC c acc → SamePC c (l.foldl recomputeStep acc) := by
    induction l with
    | nil => intro acc h; exact h
    | cons sv t ih =>
      intro acc h
      simp only [List.foldl_cons]
      apply ih
      unfold recomputeStep
      split
      · exact h
      · exact h.trans ((rebuildService_pc _ _).trans (refreshIndex_pc _ _))
  exact this c (SamePC.refl c)

theorem sliceUpsert_pc (c : Ctl) (old : Option Slice) (sl : Slice) : SamePC c (sliceUpsert c old sl) :=
  ⟨(sliceUpsert_stores c old sl).2.2.2.2.1, (sliceUpsert_stores c old sl).2.2.2.2.2.2, (sliceUpsert_stores c old sl).2.2.1, (sliceUpsert_stores c old sl).1⟩

theorem replays_pc (ks : List String) (c : Ctl) : SamePC c (runEvents c (ks.map Ev.replay)).1 := by
  induction ks generalizing c with
  | nil => exact SamePC.refl c
  | cons k ks ih =>
    simp only [List.map_cons, runEvents, handle]
    cases c.slices.find? (fun sl => sl.key = k) with
    | none => exact ih c
    | some sl => exact (sliceUpsert_pc c none sl).trans (ih _)

theorem takeWaiting_pc (c : Ctl) (ip : String) : SamePC c (takeWaiting c ip).1 := by
  obtain ⟨_, _, he, h1, h2, _, _⟩ := takeWaiting_eff c ip
  exact ⟨h1, h2, he.pods, he.slices⟩

/-! ### the pod handler -/

theorem PCOK.of_same {c d : Ctl} {S} (h : PCOK c.byIP c.ipBy S) (hs : SamePC c d) : PCOK d.byIP d.ipBy S := by
  rw [hs.1, hs.2.1]; exact h

/-- `PodCache.onEvent` on the pod cache: afterwards the key of the event's pod is cached exactly when
    the event is not a delete and the pod is cached-worthy, and then under the pod's IP. -/
theorem podEvent_pc (c : Ctl) (old : Option Pod) (p : Pod) (k : PodEvKind) (S : String → String → Prop)
    (h : PCOK c.byIP c.ipBy S) (hne : ∀ k', ¬ S "" k')
    (hadd : k = .add → ∀ ip', ¬ S ip' p.key) :
    PCOK (podEvent c old p k).1.byIP (podEvent c old p k).1.ipBy
      (fun ip' k' => if k' = p.key then (k ≠ .del ∧ podOK p = true ∧ ip' = p.ip) else S ip' k') := by
  -- a cached-worthy pod whose key is already cached under `ip`
  have hsame : ∀ ip, k ≠ .del → podOK p = true → ip = p.ip → setContains c.byIP ip p.key = true →
      PCOK c.byIP c.ipBy (fun ip' k' => if k' = p.key then (k ≠ .del ∧ podOK p = true ∧ ip' = p.ip) else S ip' k') := by
    intro ip hk hok hip hc
    apply h.congr
    intro ip' k'
    by_cases hkk : k' = p.key
    · subst hkk
      simp only [if_true]
      constructor
      · intro hs
        have := h.unique hc ((h.mem ip' _).mpr hs)
        exact ⟨hk, hok, by rw [← this, hip]⟩
      · intro hs
        rw [hs.2.2, ← hip]
        exact (h.mem ip _).mp hc
    · simp [hkk]
  -- the key is not cached at all
  have hnone : (∀ ip', ¬ S ip' p.key) → ¬ (k ≠ .del ∧ podOK p = true) →
      PCOK c.byIP c.ipBy (fun ip' k' => if k' = p.key then (k ≠ .del ∧ podOK p = true ∧ ip' = p.ip) else S ip' k') := by
    intro hno hnot
    apply h.congr
    intro ip' k'
    by_cases hkk : k' = p.key
    · subst hkk
      simp only [if_true]
      constructor
      · intro hs; exact absurd hs (hno ip')
      · intro hs; exact absurd ⟨hs.1, hs.2.1⟩ hnot
    · simp [hkk]
  have hdel : ∀ (d : Ctl) (ip : String), SamePC c d → ¬ (k ≠ .del ∧ podOK p = true) →
      PCOK (deleteIP d ip p.key).1.byIP (deleteIP d ip p.key).1.ipBy
        (fun ip' k' => if k' = p.key then (k ≠ .del ∧ podOK p = true ∧ ip' = p.ip) else S ip' k') := by
    intro d ip hs hnot
    have hd := h.of_same hs
    apply (deleteIP_ok d ip p.key S hd).congr
    intro ip' k'
    by_cases hkk : k' = p.key
    · subst hkk
      simp only [if_true, ne_eq, not_true_eq_false, false_and, false_iff]
      intro hs'; exact hnot ⟨hs'.1, hs'.2.1⟩
    · simp [hkk]
  have hadd' : ∀ (d : Ctl) (ip : String) (b : Bool), SamePC c d → k ≠ .del → podOK p = true → ip = p.ip →
      PCOK (addPod d p ip b).1.byIP (addPod d p ip b).1.ipBy
        (fun ip' k' => if k' = p.key then (k ≠ .del ∧ podOK p = true ∧ ip' = p.ip) else S ip' k') := by
    intro d ip b hs hk hok hip
    have hd := h.of_same hs
    unfold addPod
    by_cases hc : setContains d.byIP ip p.key = true
    · rw [if_pos hc]
      simp only []
      have hc' : setContains c.byIP ip p.key = true := by rw [← hs.1]; exact hc
      have := hsame ip hk hok hip hc'
      split
      · exact this.of_same (hs.trans (recompute_pc d p))
      · exact this.of_same hs
    · rw [if_neg hc]
      have h1 := cachePod_ok d p.key ip S hd
      have h2 := h1.of_same (takeWaiting_pc (cachePod d p.key ip) ip)
      apply h2.congr
      intro ip' k'
      by_cases hkk : k' = p.key
      · subst hkk
        simp only [if_true]
        rw [hip]
        exact ⟨fun hh => ⟨hk, hok, hh⟩, fun hh => hh.2.2⟩
      · simp [hkk]
  unfold podEvent
  simp only []
  by_cases hip : (if p.ip = "" then (alookup p.key c.ipBy).getD "" else p.ip) = ""
  · rw [if_pos hip]
    have hpip : p.ip = "" := by
      by_cases hz : p.ip = ""
      · exact hz
      · simp [hz] at hip
    apply hnone
    · intro ip' hs
      have hc := (h.mem ip' _).mpr hs
      have hl := (h.inv _ _).mpr hc
      simp only [hpip, if_true, hl, Option.getD] at hip
      subst hip
      exact hne _ hs
    · intro hh
      exact podOK_ip p hh.2 hpip
  · rw [if_neg hip]
    generalize hipv : (if p.ip = "" then (alookup p.key c.ipBy).getD "" else p.ip) = ip at *
    have hipeq : p.ip ≠ "" → ip = p.ip := by
      intro hne'; rw [← hipv]; simp [hne']
    cases k with
    | del =>
      simp only [if_true]
      exact hdel c ip (SamePC.refl c) (by simp)
    | add =>
      simp only [reduceCtorEq, if_false]
      have htw := takeWaiting_pc c ip
      by_cases hok : (podShouldBeIn p && p.ready) = true
      · rw [if_pos hok]
        exact hadd' _ ip false htw (by simp) hok (hipeq (podOK_ip p hok))
      · rw [if_neg hok]
        exact (hnone (hadd rfl) (fun hh => hok hh.2)).of_same htw
    | upd =>
      simp only [reduceCtorEq, if_false]
      have htw := takeWaiting_pc c ip
      by_cases hok : (podShouldBeIn p && p.ready) = true
      · simp only [hok, Bool.not_true, Bool.false_eq_true, if_false]
        exact hadd' _ ip _ htw (by simp) hok (hipeq (podOK_ip p hok))
      · simp only [hok, Bool.not_false, if_true]
        exact hdel _ ip htw (fun hh => hok hh.2)

/-! ### the other handlers leave the pod cache alone -/

theorem serviceUpsert_pc (c : Ctl) (sv : Svc) : SamePC c (serviceUpsert c sv) := by
  unfold serviceUpsert
  exact SamePC.trans (b := { c with smap := aset sv.host sv c.smap }) ⟨rfl, rfl, rfl, rfl⟩ (refreshIndex_pc _ _)

theorem reprocessNs_pc (c : Ctl) (ns : String) : SamePC c (reprocessNs c ns) := by
  unfold reprocessNs
  generalize c.svcs.filter (fun sv => sv.ns = ns) = l
  induction l generalizing c with
  | nil => exact SamePC.refl c
  | cons sv t ih =>
    simp only [List.foldl_cons]
    exact (serviceUpsert_pc c _).trans (ih _)

theorem sliceDelete_pc (c : Ctl) (sl : Slice) : SamePC c (sliceDelete c sl) := by
  unfold sliceDelete pushEDS
  exact ⟨rfl, rfl, rfl, rfl⟩

theorem sliceEvent_pc (c : Ctl) (o sl : Slice) : SamePC c (sliceEvent c o sl) := by
  unfold sliceEvent
  split
  · exact (sliceDelete_pc c o).trans (sliceUpsert_pc _ _ _)
  · exact sliceUpsert_pc _ _ _

/-- an event that is not a Pod event neither touches the pod cache nor queues a replay -/
def Ev.notPod : Ev → Prop
  | .podAdd _ | .podUpd _ _ | .podDel _ => False
  | _ => True

theorem handle_pc (c : Ctl) (e : Ev) (h : e.notPod) : SamePC c (handle c e).1 ∧ (handle c e).2 = [] := by
  cases e with
  | podAdd v => exact absurd h (fun h => h)
  | podUpd o v => exact absurd h (fun h => h)
  | podDel v => exact absurd h (fun h => h)
  | svcAdd v =>
    simp only [handle]
    split
    · exact ⟨SamePC.refl c, rfl⟩
    · exact ⟨serviceUpsert_pc _ _, rfl⟩
  | svcUpd o v =>
    simp only [handle]
    exact ⟨serviceUpsert_pc _ _, trivial⟩
  | svcDel v => exact ⟨⟨rfl, rfl, rfl, rfl⟩, rfl⟩
  | nsAdd v =>
    simp only [handle]
    split
    · exact ⟨SamePC.refl c, rfl⟩
    · split
      · exact ⟨reprocessNs_pc _ _, rfl⟩
      · exact ⟨SamePC.refl c, rfl⟩
  | nsUpd o v =>
    simp only [handle]
    split
    · exact ⟨reprocessNs_pc _ _, trivial⟩
    · exact ⟨SamePC.refl c, trivial⟩
  | nsDel v =>
    simp only [handle]
    split
    · exact ⟨reprocessNs_pc _ _, trivial⟩
    · exact ⟨SamePC.refl c, trivial⟩
  | slAdd v =>
    simp only [handle]
    split
    · exact ⟨SamePC.refl c, rfl⟩
    · exact ⟨sliceUpsert_pc _ _ _, rfl⟩
  | slUpd o v =>
    simp only [handle]
    exact ⟨sliceEvent_pc _ _ _, trivial⟩
  | slDel v => exact ⟨sliceDelete_pc _ _, rfl⟩
  | replay k =>
    simp only [handle]
    split
    · exact ⟨SamePC.refl c, rfl⟩
    · exact ⟨sliceUpsert_pc _ _ _, rfl⟩

theorem runAll_one_pc (c : Ctl) (e : Ev) (h : e.notPod) : SamePC c (runAll c [e]) := by
  have := handle_pc c e h
  simp only [runAll, runEvents, this.2, List.append_nil]
  exact this.1

theorem runEvents_pc (l : List Ev) (c : Ctl) (h : ∀ e ∈ l, e.notPod) :
    SamePC c (runEvents c l).1 ∧ (runEvents c l).2 = [] := by
  induction l generalizing c with
  | nil => exact ⟨SamePC.refl c, rfl⟩
  | cons e r ih =>
    have he := handle_pc c e (h e (by simp))
    have hr := ih (handle c e).1 (fun x hx => h x (List.mem_cons_of_mem _ hx))
    simp only [runEvents]
    exact ⟨he.1.trans hr.1, by rw [he.2, hr.2]; rfl⟩

/-! ### Pod writes against the store -/

/-- distinct pods of the store have distinct keys (`namespace/name`; Kubernetes names have no `/`) -/
def PodKeysOK (pods : List Pod) : Prop := ∀ a ∈ pods, ∀ b ∈ pods, a.key = b.key → a = b

theorem key_of_names (a b : Pod) (h1 : a.ns = b.ns) (h2 : a.name = b.name) : a.key = b.key := by
  simp [Pod.key, h1, h2]

theorem holds_upsert (pods : List Pod) (v : Pod)
    (hk : PodKeysOK (upsertBy (fun x => x.ns = v.ns ∧ x.name = v.name) v pods)) (ip k : String) :
    Holds (upsertBy (fun x => x.ns = v.ns ∧ x.name = v.name) v pods) ip k ↔
      if k = v.key then (podOK v = true ∧ ip = v.ip) else Holds pods ip k := by
  have hv := mem_upsertBy_self (fun (x : Pod) => decide (x.ns = v.ns ∧ x.name = v.name)) v pods
  by_cases hkk : k = v.key
  · simp only [hkk, if_true]
    constructor
    · intro ⟨p, hp, hpk, hpi, hok⟩
      have : p = v := hk p hp v hv hpk
      subst this
      exact ⟨hok, hpi.symm⟩
    · intro ⟨hok, hip⟩
      exact ⟨v, hv, rfl, hip.symm, hok⟩
  · simp only [hkk, if_false]
    constructor
    · intro ⟨p, hp, hpk, hpi, hok⟩
      cases mem_upsertBy _ v p pods hp with
      | inl h => subst h; exact absurd hpk.symm hkk
      | inr h => exact ⟨p, h, hpk, hpi, hok⟩
    · intro ⟨p, hp, hpk, hpi, hok⟩
      refine ⟨p, ?_, hpk, hpi, hok⟩
      apply mem_upsertBy_of_mem _ v p pods hp
      simp only [decide_eq_false_iff_not]
      intro hn
      exact hkk (hpk.symm.trans (key_of_names p v hn.1 hn.2))

/-- same pods and slices -/
def SameSt (c d : Ctl) : Prop := d.pods = c.pods ∧ d.slices = c.slices

theorem SameSt.trans {a b c : Ctl} (h1 : SameSt a b) (h2 : SameSt b c) : SameSt a c :=
  ⟨h2.1.trans h1.1, h2.2.trans h1.2⟩

theorem podEvent_pods (c : Ctl) (old : Option Pod) (p : Pod) (k : PodEvKind) :
    SameSt c (podEvent c old p k).1 ∧ ∀ e ∈ (podEvent c old p k).2, e.notPod := by
  have htw : ∀ (d : Ctl) ip, SameSt d (takeWaiting d ip).1 ∧ ∀ e ∈ (takeWaiting d ip).2, e.notPod := by
    intro d ip
    obtain ⟨ks, hks, he, _⟩ := takeWaiting_eff d ip
    refine ⟨⟨he.pods, he.slices⟩, ?_⟩
    rw [hks]
    intro e he'
    obtain ⟨k, _, rfl⟩ := List.mem_map.mp he'
    trivial
  have hdel : ∀ (d : Ctl) ip key, SameSt d (deleteIP d ip key).1 := by
    intro d ip key
    unfold deleteIP
    simp only []
    split <;> exact ⟨rfl, rfl⟩
  have hadd : ∀ (d : Ctl) ip b, SameSt d (addPod d p ip b).1 ∧ ∀ e ∈ (addPod d p ip b).2, e.notPod := by
    intro d ip b
    unfold addPod
    split
    · refine ⟨?_, by simp⟩
      split
      · exact ⟨(recompute_pc d p).2.2.1, (recompute_pc d p).2.2.2⟩
      · exact ⟨rfl, rfl⟩
    · have := htw (cachePod d p.key ip) ip
      exact ⟨SameSt.trans (b := cachePod d p.key ip) ⟨rfl, rfl⟩ this.1, this.2⟩
  unfold podEvent
  simp only []
  by_cases hip : (if p.ip = "" then (alookup p.key c.ipBy).getD "" else p.ip) = ""
  · rw [if_pos hip]
    exact ⟨⟨rfl, rfl⟩, by simp⟩
  · rw [if_neg hip]
    generalize (if p.ip = "" then (alookup p.key c.ipBy).getD "" else p.ip) = ip at *
    cases k with
    | del =>
      simp only [if_true]
      exact ⟨hdel _ _ _, by simp⟩
    | add =>
      simp only [reduceCtorEq, if_false]
      split
      · refine ⟨(htw _ _).1.trans (hadd _ _ _).1, ?_⟩
        intro e he
        cases List.mem_append.mp he with
        | inl h => exact (htw _ _).2 e h
        | inr h => exact (hadd _ _ _).2 e h
      · exact htw _ _
    | upd =>
      simp only [reduceCtorEq, if_false]
      split
      · exact ⟨(htw _ _).1.trans (hdel _ _ _), (htw _ _).2⟩
      · refine ⟨(htw _ _).1.trans (hadd _ _ _).1, ?_⟩
        intro e he
        cases List.mem_append.mp he with
        | inl h => exact (htw _ _).2 e h
        | inr h => exact (hadd _ _ _).2 e h

/-- no handler touches the Pod and EndpointSlice stores, and only replays are queued -/
theorem idReplays_notPod (c : Ctl) (o p : Pod) : ∀ e ∈ idReplays c o p, e.notPod := by
  unfold idReplays
  split
  · intro e he
    obtain ⟨sl, _, rfl⟩ := List.mem_map.mp he
    trivial
  · intro e he; cases he

theorem handle_st (c : Ctl) (e : Ev) : SameSt c (handle c e).1 ∧ ∀ x ∈ (handle c e).2, x.notPod := by
  cases e with
  | podAdd v =>
    simp only [handle]
    split
    · exact ⟨⟨rfl, rfl⟩, by simp⟩
    · exact podEvent_pods _ _ _ _
  | podUpd o v =>
    simp only [handle]
    generalize (findPod c.pods v.ns v.name).getD v = cur
    refine ⟨(podEvent_pods c (some o) cur .upd).1, ?_⟩
    intro x hx
    cases List.mem_append.mp hx with
    | inl h => exact idReplays_notPod c o cur x h
    | inr h => exact (podEvent_pods c (some o) cur .upd).2 x h
  | podDel v => exact podEvent_pods _ _ _ _
  | svcAdd v => have := handle_pc c (.svcAdd v) trivial; exact ⟨⟨this.1.2.2.1, this.1.2.2.2⟩, by rw [this.2]; simp⟩
  | svcUpd o v => have := handle_pc c (.svcUpd o v) trivial; exact ⟨⟨this.1.2.2.1, this.1.2.2.2⟩, by rw [this.2]; simp⟩
  | svcDel v => have := handle_pc c (.svcDel v) trivial; exact ⟨⟨this.1.2.2.1, this.1.2.2.2⟩, by rw [this.2]; simp⟩
  | nsAdd v => have := handle_pc c (.nsAdd v) trivial; exact ⟨⟨this.1.2.2.1, this.1.2.2.2⟩, by rw [this.2]; simp⟩
  | nsUpd o v => have := handle_pc c (.nsUpd o v) trivial; exact ⟨⟨this.1.2.2.1, this.1.2.2.2⟩, by rw [this.2]; simp⟩
  | nsDel v => have := handle_pc c (.nsDel v) trivial; exact ⟨⟨this.1.2.2.1, this.1.2.2.2⟩, by rw [this.2]; simp⟩
  | slAdd v => have := handle_pc c (.slAdd v) trivial; exact ⟨⟨this.1.2.2.1, this.1.2.2.2⟩, by rw [this.2]; simp⟩
  | slUpd o v => have := handle_pc c (.slUpd o v) trivial; exact ⟨⟨this.1.2.2.1, this.1.2.2.2⟩, by rw [this.2]; simp⟩
  | slDel v => have := handle_pc c (.slDel v) trivial; exact ⟨⟨this.1.2.2.1, this.1.2.2.2⟩, by rw [this.2]; simp⟩
  | replay k => have := handle_pc c (.replay k) trivial; exact ⟨⟨this.1.2.2.1, this.1.2.2.2⟩, by rw [this.2]; simp⟩

theorem runAll_one_st (c : Ctl) (e : Ev) : SameSt c (runAll c [e]) := by
  have h := handle_st c e
  have hr := runEvents_pc ((handle c e).2 ++ []) (handle c e).1 (by
    intro x hx
    rw [List.append_nil] at hx
    exact h.2 x hx)
  simp only [runAll, runEvents]
  exact h.1.trans ⟨hr.1.2.2.1, hr.1.2.2.2⟩

theorem holds_no_empty (pods : List Pod) (k : String) : ¬ Holds pods "" k := by
  intro ⟨p, _, _, hip, hok⟩
  exact podOK_ip p hok hip

/-- a pod of the store with the key of `v` is the stored version of `v` -/
theorem old_of_key (c : Ctl) (v : Pod) (hk : PodKeysOK c.pods)
    (hk1 : PodKeysOK (upsertBy (fun x => x.ns = v.ns ∧ x.name = v.name) v c.pods)) :
    ∀ p ∈ c.pods, p.key = v.key → findPod c.pods v.ns v.name = some p := by
  intro p hp hpk
  have hv1 : v ∈ upsertBy (fun x => decide (x.ns = v.ns ∧ x.name = v.name)) v c.pods := mem_upsertBy_self _ v c.pods
  have hname : p.ns = v.ns ∧ p.name = v.name := by
    by_cases hn : p.ns = v.ns ∧ p.name = v.name
    · exact hn
    · have hp1 := mem_upsertBy_of_mem (fun x => decide (x.ns = v.ns ∧ x.name = v.name)) v p c.pods hp (by simpa using hn)
      have := hk1 p hp1 v hv1 hpk
      subst this
      exact ⟨rfl, rfl⟩
  cases hf : findPod c.pods v.ns v.name with
  | none =>
    have := List.find?_eq_none.mp hf p hp
    simp [hname.1, hname.2] at this
  | some o =>
    have ho := List.find?_some hf
    have hom := List.mem_of_find?_eq_some hf
    simp only [Bool.decide_and, Bool.and_eq_true, decide_eq_true_eq] at ho
    have : o = p := hk o hom p hp ((key_of_names o v ho.1 ho.2).trans hpk.symm)
    rw [this]

/-- a Pod add/update handled to quiescence keeps the pod cache a function of the pods -/
theorem pod_write_podCache (c : Ctl) (v : Pod) (c' : Ctl) (hph : v.phase ≠ "F") (hstep : stepC c (.pod v) = some c')
    (h : PodCacheOK c) (hk : PodKeysOK c.pods)
    (hk1 : PodKeysOK (upsertBy (fun x => x.ns = v.ns ∧ x.name = v.name) v c.pods)) : PodCacheOK c' := by
  rw [stepC_pod c v hph] at hstep
  simp only [Option.some.injEq] at hstep
  subst hstep
  let c1 : Ctl := { c with pods := upsertBy (fun x => x.ns = v.ns ∧ x.name = v.name) v c.pods }
  have hfind : findPod c1.pods v.ns v.name = some v := by
    apply find_upsertBy
    simp
  have hv1 : v ∈ c1.pods := mem_upsertBy_self _ v c.pods
  -- a pod of the old store with the key of `v` is the old version of `v`
  have hold : ∀ p ∈ c.pods, p.key = v.key → findPod c.pods v.ns v.name = some p := by
    intro p hp hpk
    have hname : p.ns = v.ns ∧ p.name = v.name := by
      by_cases hn : p.ns = v.ns ∧ p.name = v.name
      · exact hn
      · have hp1 : p ∈ c1.pods := mem_upsertBy_of_mem _ v p c.pods hp (by simpa using hn)
        have := hk1 p hp1 v hv1 hpk
        subst this
        exact ⟨rfl, rfl⟩
    cases hf : findPod c.pods v.ns v.name with
    | none =>
      have := List.find?_eq_none.mp hf p hp
      simp [hname.1, hname.2] at this
    | some o =>
      have ho := List.find?_some hf
      have hom := List.mem_of_find?_eq_some hf
      simp only [Bool.decide_and, Bool.and_eq_true, decide_eq_true_eq] at ho
      have : o = p := hk o hom p hp ((key_of_names o v ho.1 ho.2).trans hpk.symm)
      rw [this]
  have hev : ∃ (old : Option Pod) (kind : PodEvKind) (xs : List Ev),
      handle c1 (podEvOf c v) = ((podEvent c1 old v kind).1, xs ++ (podEvent c1 old v kind).2) ∧
      (∀ e ∈ xs, e.notPod) ∧ kind ≠ .del ∧ (kind = .add → findPod c.pods v.ns v.name = none) := by
    unfold podEvOf
    cases hfo : findPod c.pods v.ns v.name with
    | none => exact ⟨none, .add, [], by simp [handle, hfind], by simp, by simp, fun _ => rfl⟩
    | some o =>
      exact ⟨some o, .upd, idReplays c1 o v, by simp [handle, hfind], idReplays_notPod c1 o v, by simp, by simp⟩
  obtain ⟨old, kind, xs, hhandle, hxs, hkind, haddk⟩ := hev
  have hpc := podEvent_pc c1 old v kind (Holds c.pods) h (holds_no_empty c.pods)
    (by
      intro hka ip' ⟨p, hp, hpk, _, _⟩
      have := hold p hp hpk
      rw [haddk hka] at this; cases this)
  have hpods := podEvent_pods c1 old v kind
  have hre := runEvents_pc (xs ++ (podEvent c1 old v kind).2 ++ []) (podEvent c1 old v kind).1 (by
    intro e he
    rw [List.append_nil] at he
    cases List.mem_append.mp he with
    | inl h => exact hxs e h
    | inr h => exact hpods.2 e h)
  have hrun : runAll c1 [podEvOf c v] =
      (runEvents (podEvent c1 old v kind).1 (xs ++ (podEvent c1 old v kind).2 ++ [])).1 := by
    simp only [runAll, runEvents, hhandle]
  show PodCacheOK (runAll c1 _)
  rw [hrun]
  unfold PodCacheOK
  rw [hre.1.1, hre.1.2.1, hre.1.2.2.1, hpods.1.1]
  apply hpc.congr
  intro ip k
  rw [holds_upsert c.pods v hk1 ip k]
  by_cases hkk : k = v.key
  · simp only [hkk, if_true]
    exact ⟨fun hh => ⟨hh.2.1, hh.2.2⟩, fun hh => ⟨hkind, hh.1, hh.2⟩⟩
  · simp [hkk]

/-- a pod leaves the store (delete, or eviction with the new object on the event) -/
theorem pod_removed_podCache (c : Ctl) (ns name : String) (evp o : Pod)
    (hfo : findPod c.pods ns name = some o) (hevp : evp.ns = ns ∧ evp.name = name)
    (h : PodCacheOK c) (hk : PodKeysOK c.pods) :
    PodCacheOK (runAll { c with pods := c.pods.filter (fun x => !(x.ns = ns ∧ x.name = name)) } [.podDel evp]) := by
  let c1 : Ctl := { c with pods := c.pods.filter (fun x => !(x.ns = ns ∧ x.name = name)) }
  have ho := List.find?_some hfo
  have hom := List.mem_of_find?_eq_some hfo
  simp only [Bool.decide_and, Bool.and_eq_true, decide_eq_true_eq] at ho
  have hkey : o.key = evp.key := key_of_names o evp (ho.1.trans hevp.1.symm) (ho.2.trans hevp.2.symm)
  have hpc := podEvent_pc c1 none evp .del (Holds c.pods) h (holds_no_empty c.pods) (by intro hh; cases hh)
  have hpods := podEvent_pods c1 none evp .del
  have hre := runEvents_pc ((podEvent c1 none evp .del).2 ++ []) (podEvent c1 none evp .del).1 (by
    intro e he
    rw [List.append_nil] at he
    exact hpods.2 e he)
  have hrun : runAll c1 [Ev.podDel evp] = (runEvents (podEvent c1 none evp .del).1 ((podEvent c1 none evp .del).2 ++ [])).1 := by
    simp only [runAll, runEvents, handle]
  show PodCacheOK (runAll c1 _)
  rw [hrun]
  unfold PodCacheOK
  rw [hre.1.1, hre.1.2.1, hre.1.2.2.1, hpods.1.1]
  apply hpc.congr
  intro ip k
  by_cases hkk : k = evp.key
  · simp only [hkk, if_true, ne_eq, not_true_eq_false, false_and, false_iff]
    intro ⟨p, hp, hpk, _, _⟩
    have hp' := List.mem_filter.mp hp
    have : p = o := hk p hp'.1 o hom (hpk.trans hkey.symm)
    subst this
    simp [ho.1, ho.2] at hp'
  · simp only [hkk, if_false]
    constructor
    · intro ⟨p, hp, hpk, hpi, hok⟩
      refine ⟨p, List.mem_filter.mpr ⟨hp, ?_⟩, hpk, hpi, hok⟩
      simp only [Bool.not_eq_true', decide_eq_false_iff_not]
      intro hn
      exact hkk (hpk.symm.trans (key_of_names p evp (hn.1.trans hevp.1.symm) (hn.2.trans hevp.2.symm)))
    · intro ⟨p, hp, hpk, hpi, hok⟩
      exact ⟨p, (List.mem_filter.mp hp).1, hpk, hpi, hok⟩

/-! ### all writes -/

theorem PodCacheOK.of_eq {c d : Ctl} (h : PodCacheOK c) (h1 : d.byIP = c.byIP) (h2 : d.ipBy = c.ipBy)
    (h3 : d.pods = c.pods) : PodCacheOK d := by
  unfold PodCacheOK at *
  rw [h1, h2, h3]; exact h

/-- a write that is not a Pod write leaves the pod cache and the Pod store alone -/
theorem step_other_pc (c : Ctl) (op : Op) (c' : Ctl) (hstep : stepC c op = some c')
    (hop : ∀ v, op ≠ .pod v) (hop2 : ∀ ns name, op ≠ .delPod ns name) :
    c'.byIP = c.byIP ∧ c'.ipBy = c.ipBy ∧ c'.pods = c.pods := by
  cases op with
  | pod v => exact absurd rfl (hop v)
  | delPod ns name => exact absurd rfl (hop2 ns name)
  | hold => cases hstep
  | release =>
    simp only [stepC, Option.some.injEq] at hstep
    subst hstep; exact ⟨rfl, rfl, rfl⟩
  | node v =>
    simp only [stepC, Option.some.injEq] at hstep
    subst hstep; exact ⟨rfl, rfl, rfl⟩
  | delNode name =>
    simp only [stepC] at hstep
    split at hstep
    · simp only [Option.some.injEq] at hstep
      subst hstep; exact ⟨rfl, rfl, rfl⟩
    · cases hstep
  | slice v =>
    simp only [stepC, Option.some.injEq] at hstep
    subst hstep
    split
    · have := runAll_one_pc { c with slices := upsertBy (fun x => x.ns = v.ns ∧ x.name = v.name) v c.slices } (.slAdd v) trivial
      exact ⟨this.1, this.2.1, this.2.2.1⟩
    · rename_i o _
      have := runAll_one_pc { c with slices := upsertBy (fun x => x.ns = v.ns ∧ x.name = v.name) v c.slices } (.slUpd o v) trivial
      exact ⟨this.1, this.2.1, this.2.2.1⟩
  | delSlice ns name =>
    simp only [stepC] at hstep
    cases hf : findSlice c.slices ns name with
    | none => rw [hf] at hstep; cases hstep
    | some o =>
      rw [hf] at hstep
      simp only [Option.map, Option.some.injEq] at hstep
      subst hstep
      have := runAll_one_pc { c with slices := c.slices.filter (fun x => !(x.ns = ns ∧ x.name = name)) } (.slDel o) trivial
      exact ⟨this.1, this.2.1, this.2.2.1⟩
  | svc v =>
    simp only [stepC, Option.some.injEq] at hstep
    subst hstep
    split
    · have := runAll_one_pc { c with svcs := upsertBy (fun x => x.ns = v.ns ∧ x.name = v.name) v c.svcs } (.svcAdd v) trivial
      exact ⟨this.1, this.2.1, this.2.2.1⟩
    · rename_i o _
      have := runAll_one_pc { c with svcs := upsertBy (fun x => x.ns = v.ns ∧ x.name = v.name) v c.svcs } (.svcUpd o v) trivial
      exact ⟨this.1, this.2.1, this.2.2.1⟩
  | delSvc ns name =>
    simp only [stepC] at hstep
    cases hf : findSvc c.svcs ns name with
    | none => rw [hf] at hstep; cases hstep
    | some o =>
      rw [hf] at hstep
      simp only [Option.map, Option.some.injEq] at hstep
      subst hstep
      have := runAll_one_pc { c with svcs := c.svcs.filter (fun x => !(x.ns = ns ∧ x.name = name)) } (.svcDel o) trivial
      exact ⟨this.1, this.2.1, this.2.2.1⟩
  | ns v =>
    simp only [stepC, Option.some.injEq] at hstep
    subst hstep
    split
    · have := runAll_one_pc { c with nss := upsertBy (fun x => x.name = v.name) v c.nss } (.nsAdd v) trivial
      exact ⟨this.1, this.2.1, this.2.2.1⟩
    · rename_i o _
      have := runAll_one_pc { c with nss := upsertBy (fun x => x.name = v.name) v c.nss } (.nsUpd o v) trivial
      exact ⟨this.1, this.2.1, this.2.2.1⟩
  | delNs name =>
    simp only [stepC] at hstep
    cases hf : c.nss.find? (fun n => n.name = name) with
    | none => rw [hf] at hstep; cases hstep
    | some o =>
      rw [hf] at hstep
      simp only [Option.map, Option.some.injEq] at hstep
      subst hstep
      have := runAll_one_pc { c with nss := c.nss.filter (fun x => !(x.name = name)) } (.nsDel o) trivial
      exact ⟨this.1, this.2.1, this.2.2.1⟩

/-! ### the untargeted-endpoint side condition as a statement about the objects -/

/-- no pod of the store has the address of an endpoint without targetRef -/
def NoPodAtUntargeted (c : Ctl) : Prop :=
  ∀ sl ∈ c.slices, ∀ ea ∈ sl.addrPairs, ea.1.target = none → ∀ p ∈ c.pods, p.ip ≠ ea.2

/-- with the pod cache a function of the pods, "nothing cached at the address of an endpoint without
    targetRef" follows from the objects alone -/
theorem noCachedAddr_of_objects (c : Ctl) (h : PodCacheOK c) (hu : NoPodAtUntargeted c) : NoCachedAddr c := by
  intro sl hsl ea hea htg k
  cases hc : setContains c.byIP ea.2 k with
  | false => rfl
  | true =>
    obtain ⟨p, hp, _, hip, _⟩ := (h.mem ea.2 k).mp hc
    exact absurd hip (hu sl hsl ea hea htg p hp)

end IstioModel.C15
