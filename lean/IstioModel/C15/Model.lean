/-
C15 - executable model of the Kubernetes service registry controller's hand-written caches.

Go sources modelled (istio/istio, pilot/pkg/serviceregistry/kube):
  controller/controller.go      registerHandlers (handlers re-read the LATEST object from the informer
                                store), onServiceEvent, addOrUpdateService, deleteService,
                                buildEndpointsForService, recomputeServiceForPod, servicesMap
  controller/pod.go             PodCache.onEvent, addPod, deleteIP, shouldPodBeInEndpoints, IsPodReady,
                                labelFilter, queueEndpointEventOnPodArrival, endpointDeleted,
                                queueWaitingEndpointEvents (needResync), getPodKeys/getPodsByIP
  controller/endpointslice.go   onEventInternal, deleteEndpointSlice, cleanupRemovedEndpoints,
                                updateEndpointCacheForSlice, endpointHealthStatus, getPod,
                                buildIstioEndpointsWithService, podArrived, pushEDS,
                                endpointSliceCache.update/delete/get/has
  controller/endpoint_builder.go NewEndpointBuilder, buildIstioEndpoint (labels, locality, identity)
  conversion.go                 ConvertService (the printed part)
  pilot/pkg/model/endpointshards.go  UpdateServiceEndpoints, DeleteServiceShard (one registry shard)

The informer machinery is part of the model: a write updates the store of its kind and appends an
event to the controller's FIFO queue; an event is handled later against the stores as they are
then.  `held = true` is the situation in which the stores run ahead of the handlers.

Conventions: Go maps are association lists keyed by `String` (printed sorted); a Go set is a list
read as a set (printed sorted); where the Go code ranges over a map the model uses the list order
and the driver prints the result sorted, the generator stays inside the inputs on which the real
result does not depend on that order (see notes/C15.md).
-/
namespace IstioModel.C15

/-! ### association lists -/

def alookup {α : Type} (k : String) : List (String × α) → Option α
  | [] => none
  | (k', v) :: r => if k' = k then some v else alookup k r

/-- replace the value of `k` in place, or append a new entry -/
def aset {α : Type} (k : String) (v : α) : List (String × α) → List (String × α)
  | [] => [(k, v)]
  | (k', v') :: r => if k' = k then (k, v) :: r else (k', v') :: aset k v r

def aerase {α : Type} (k : String) : List (String × α) → List (String × α)
  | [] => []
  | (k', v') :: r => if k' = k then aerase k r else (k', v') :: aerase k r

def akeys {α : Type} (l : List (String × α)) : List String := l.map (·.1)

/-- `sets.InsertOrNew` -/
def setInsert (m : List (String × List String)) (k x : String) : List (String × List String) :=
  match alookup k m with
  | none => aset k [x] m
  | some l => if l.contains x then m else aset k (l ++ [x]) m

/-- `sets.DeleteCleanupLast` -/
def setDelete (m : List (String × List String)) (k x : String) : List (String × List String) :=
  match alookup k m with
  | none => m
  | some l =>
    let l' := l.filter (· ≠ x)
    if l'.isEmpty then aerase k m else aset k l' m

def setContains (m : List (String × List String)) (k x : String) : Bool :=
  match alookup k m with
  | none => false
  | some l => l.contains x

/-! ### objects as the informers see them -/

abbrev Labels := List (String × String)

structure Svc where
  ns : String
  name : String
  kind : String            -- "cip" | "hl" | "ext"
  ports : List (String × Nat)
  sel : Labels
  drain : Bool             -- label istio.io/persistent-session set
  td : Bool                -- annotation networking.istio.io/traffic-distribution: PreferClose
  x : Bool := false        -- annotation networking.istio.io/exportTo: "~" (exported to nobody)
  sas : Bool := false      -- annotation alpha.istio.io/kubernetes-serviceaccounts: "acct1,acct2"
  csa : Bool := false      -- annotation alpha.istio.io/canonical-serviceaccounts
  eip : Bool := false      -- spec.externalIPs
  nl : Bool := false       -- spec.internalTrafficPolicy: Local
  deriving DecidableEq, Repr, Inhabited

structure Ep where
  addrs : List String
  ready : Option Bool
  serving : Option Bool
  terminating : Option Bool
  target : Option (String × String)   -- targetRef kind Pod: (namespace, name)
  deriving DecidableEq, Repr, Inhabited

structure Slice where
  ns : String
  name : String
  svc : String             -- label kubernetes.io/service-name ("" = absent)
  fqdn : Bool              -- AddressType FQDN
  ports : List (String × Nat)
  eps : List Ep
  deriving DecidableEq, Repr, Inhabited

structure Pod where
  ns : String
  name : String
  ip : String
  phase : String           -- "P" | "R" | "S" | "F"
  ready : Bool             -- condition Ready = True
  deleting : Bool          -- deletionTimestamp set
  labels : Labels
  sa : String
  node : String
  deriving DecidableEq, Repr, Inhabited

structure Node where
  name : String
  region : String          -- topology.kubernetes.io/region, else failure-domain.beta.kubernetes.io/region
  zone : String            -- topology.kubernetes.io/zone, else the legacy label
  sub : String := ""       -- topology.istio.io/subzone
  deriving DecidableEq, Repr, Inhabited

/-- a Namespace: the only thing read is the traffic-distribution annotation -/
structure Ns where
  name : String
  td : Bool                -- annotation networking.istio.io/traffic-distribution: PreferClose
  deriving DecidableEq, Repr, Inhabited

def Svc.key (s : Svc) : String := s.ns ++ "/" ++ s.name
def Slice.key (s : Slice) : String := s.ns ++ "/" ++ s.name
def Pod.key (p : Pod) : String := p.ns ++ "/" ++ p.name

def domainSuffix : String := "company.com"

/-- `kube.ServiceHostname` -/
def hostOf (ns name : String) : String := name ++ "." ++ ns ++ ".svc." ++ domainSuffix
def Svc.host (s : Svc) : String := hostOf s.ns s.name
def Slice.host (s : Slice) : String := hostOf s.ns s.svc

/-! ### what the controller derives: endpoints -/

inductive Health | healthy | unhealthy | draining | terminating
  deriving DecidableEq, Repr, Inhabited

/-- `model.IstioEndpoint`, the fields the property observes. -/
structure IEp where
  addr : String
  port : Nat
  portName : String
  health : Health
  sa : String
  ns : String
  node : String
  tls : String
  locality : String
  workload : String
  labels : Labels
  network : String := ""
  hostname : String := ""
  subdomain : String := ""
  deriving DecidableEq, Repr, Inhabited

/-- `endpointHealthStatus`; `svc = none` is the nil `*model.Service` of a service not (yet) in
    `servicesMap`. -/
def healthOf (svc : Option Svc) (e : Ep) : Health :=
  if e.ready = none ∨ e.ready = some true then .healthy
  else match svc with
    | none => .unhealthy
    | some s =>
      if s.drain ∧ (e.serving = none ∨ e.serving = some true) ∧ (e.terminating = none ∨ e.terminating = some true)
      then .draining
      else if e.terminating = none ∨ e.terminating = some true then .terminating
      else .unhealthy

def labelSet (l : Labels) (k v : String) : Labels := aset k v l

/-- Go map built from a literal list: the last binding of a key wins. -/
def normLabels (l : Labels) : Labels := l.foldl (fun acc kv => aset kv.1 kv.2 acc) []

/-- `SanitizeLocalityLabel`: a label value without `/` uses `.` as separator -/
def sanitizeLocality (v : String) : String :=
  if v.toList.contains '/' then v else String.ofList (v.toList.map fun c => if c = '.' then '/' else c)

/-- `getPodLocality`: the pod's `istio-locality` label if it has one, else region/zone/subzone of the
    pod's node, read from the node store at the time the endpoint is built. -/
def localityOf (nodes : List Node) (p : Pod) : String :=
  match alookup "istio-locality" (normLabels p.labels) with
  | some v => if v ≠ "" then sanitizeLocality v else
      match nodes.find? (·.name = p.node) with
      | none => ""
      | some n => if n.region = "" ∧ n.zone = "" ∧ n.sub = "" then "" else n.region ++ "/" ++ n.zone ++ "/" ++ n.sub
  | none =>
    match nodes.find? (·.name = p.node) with
    | none => ""
    | some n => if n.region = "" ∧ n.zone = "" ∧ n.sub = "" then "" else n.region ++ "/" ++ n.zone ++ "/" ++ n.sub

/-- `strings.Split(s, "/")` on characters (structural, so that the kernel can evaluate it) -/
def splitSlash : List Char → List Char → List (List Char)
  | cur, [] => [cur.reverse]
  | cur, c :: r => if c = '/' then cur.reverse :: splitSlash [] r else splitSlash (c :: cur) r

/-- `SplitLocalityLabel`: region, zone and subzone -/
def splitLocality (loc : String) : String × String × String :=
  match splitSlash [] loc.toList with
  | [r] => (String.ofList r, "", "")
  | [r, z] => (String.ofList r, String.ofList z, "")
  | r :: z :: sz :: _ => (String.ofList r, String.ofList z, String.ofList sz)
  | [] => ("", "", "")

/-- pseudo labels (`@owner`, `@host`, `@sub`) carry pod fields that are not labels: the controlling
    ownerReference, `spec.hostname`, `spec.subdomain` (immutable for a pod) -/
def realLabels (l : Labels) : Labels := l.filter fun kv => kv.1.toList.head? ≠ some '@'

/-- `labelutil.AugmentLabels` followed by the network label assignment of `buildIstioEndpoint`
    (the network is empty in the universe, the key is still written). -/
def augment (podLabels : Labels) (locality node : String) : Labels :=
  let rz := splitLocality locality
  let l := normLabels (realLabels podLabels)
  let l := if rz.1 ≠ "" then labelSet l "topology.kubernetes.io/region" rz.1 else l
  let l := if rz.2.1 ≠ "" then labelSet l "topology.kubernetes.io/zone" rz.2.1 else l
  let l := if rz.2.2 ≠ "" then labelSet l "topology.istio.io/subzone" rz.2.2 else l
  let l := labelSet l "topology.istio.io/cluster" "fake"
  let l := if node ≠ "" then labelSet l "kubernetes.io/hostname" node else l
  labelSet l "topology.istio.io/network" ((alookup "topology.istio.io/network" l).getD "")

/-- `NewEndpointBuilder(pod).buildIstioEndpoint(...)` -/
def mkIEp (nodes : List Node) (pod : Option Pod) (addr : String) (port : String × Nat) (h : Health) : IEp :=
  match pod with
  | none => { addr := addr, port := port.2, portName := port.1, health := h, sa := "", ns := "", node := "",
              tls := "disabled", locality := "", workload := "", labels := augment [] "" "" }
  | some p =>
    let loc := localityOf nodes p
    let pl := normLabels p.labels
    { addr := addr, port := port.2, portName := port.1, health := h,
      sa := "spiffe://cluster.local/ns/" ++ p.ns ++ "/sa/" ++ p.sa, ns := p.ns, node := p.node,
      tls := (alookup "security.istio.io/tlsMode" pl).getD "disabled",
      locality := loc,
      workload := (alookup "service.istio.io/workload-name" pl).getD ((alookup "@owner" pl).getD p.name),  -- = workloadOf p
      labels := augment p.labels loc p.node,
      network := (alookup "topology.istio.io/network" pl).getD "",
      hostname := if (alookup "@sub" pl).getD "" ≠ "" then (match alookup "@host" pl with | some h => if h ≠ "" then h else p.name | none => p.name) else "",
      subdomain := (alookup "@sub" pl).getD "" }

def findPod (pods : List Pod) (ns name : String) : Option Pod :=
  pods.find? (fun p => p.ns = ns ∧ p.name = name)

/-- `Controller.getPod` without targetRef: the cached keys for the address, looked up in the pod
    store, first one in the slice's namespace. -/
def podByIP (pods : List Pod) (byIP : List (String × List String)) (ns addr : String) : Option Pod :=
  let keys := (alookup addr byIP).getD []
  (keys.filterMap (fun k => pods.find? (fun p => p.key = k))).find? (·.ns = ns)

/-- Result of looking at one address of one endpoint: the endpoints built for it (one per slice
    port) and whether the address has to wait for its pod. -/
structure AddrOut where
  eps : List IEp
  park : Bool

def buildAddr (pods : List Pod) (nodes : List Node) (byIP : List (String × List String))
    (svc : Option Svc) (sl : Slice) (e : Ep) (a : String) : AddrOut :=
  match e.target with
  | some (tns, tname) =>
    match findPod pods tns tname with
    | none => { eps := [], park := true }
    | some p => { eps := sl.ports.map (fun pt => mkIEp nodes (some p) a pt (healthOf svc e)), park := false }
  | none =>
    { eps := sl.ports.map (fun pt => mkIEp nodes (podByIP pods byIP sl.ns a) a pt (healthOf svc e)), park := false }

/-- all (endpoint, address) pairs of a slice in order -/
def Slice.addrPairs (sl : Slice) : List (Ep × String) :=
  sl.eps.flatMap (fun e => e.addrs.map (fun a => (e, a)))

def Slice.allAddrs (sl : Slice) : List String := sl.addrPairs.map (·.2)

/-- `updateEndpointCacheForSlice`: the endpoints of the slice (`none` when the function returns
    before touching the cache: FQDN slice or no service-name label). -/
def buildSlice (pods : List Pod) (nodes : List Node) (byIP : List (String × List String))
    (svc : Option Svc) (sl : Slice) : Option (List IEp) :=
  if sl.fqdn ∨ sl.svc = "" then none
  else some (sl.addrPairs.flatMap (fun ea => (buildAddr pods nodes byIP svc sl ea.1 ea.2).eps))

/-- the addresses `registerEndpointResync` is called for -/
def parkedAddrs (pods : List Pod) (sl : Slice) : List String :=
  if sl.fqdn ∨ sl.svc = "" then []
  else sl.addrPairs.filterMap (fun ea =>
    match ea.1.target with
    | some (tns, tname) => if (findPod pods tns tname).isNone then some ea.2 else none
    | none => none)

/-! ### endpointSliceCache -/

abbrev SliceCache := List (String × List (String × List IEp))

/-- `endpointSliceCache.update` (an empty endpoint list leaves an empty entry behind) -/
def cacheUpdate (c : SliceCache) (host slice : String) (eps : List IEp) : SliceCache :=
  let per := (alookup host c).getD []
  let per := if eps.isEmpty then aerase slice per else per
  aset host (aset slice eps per) c

/-- `endpointSliceCache.delete` guarded by `has` as in `deleteEndpointSlice` -/
def cacheDelete (c : SliceCache) (host slice : String) : SliceCache :=
  match alookup host c with
  | none => c
  | some per =>
    let per := aerase slice per
    if per.isEmpty then aerase host c else aset host per c

def dedupEps : List String → List IEp → List IEp
  | _, [] => []
  | seen, e :: r =>
    let k := e.addr ++ "|" ++ e.portName
    if seen.contains k then dedupEps seen r else e :: dedupEps (k :: seen) r

/-- insertion into a list sorted by key (`slices.Sort` on the slice names) -/
def insertKey {α : Type} (kv : String × α) : List (String × α) → List (String × α)
  | [] => [kv]
  | x :: r => if kv.1 ≤ x.1 then kv :: x :: r else x :: insertKey kv r

/-- the entries in key order (insertion sort: structural, so the kernel can evaluate it) -/
def sortKeys {α : Type} (l : List (String × α)) : List (String × α) := l.foldr insertKey []

/-- `endpointSliceCache.get`: all endpoints of a host, slices walked in NAME order, first occurrence
    of (address, port name) wins -/
def cacheGet (c : SliceCache) (host : String) : List IEp :=
  dedupEps [] ((sortKeys ((alookup host c).getD [])).flatMap (·.2))

/-! ### EndpointIndex, restricted to this registry's shard -/

structure IdxEntry where
  ns : String
  eps : Option (List IEp)      -- `Shards[shard]`, `none` = no shard of this registry
  sas : List String            -- `ServiceAccounts`
  deriving DecidableEq, Repr, Inhabited

abbrev Index := List (String × IdxEntry)

def sasOf (eps : List IEp) : List String :=
  (eps.map (·.sa)).filter (· ≠ "") |>.eraseDups

/-- `UpdateServiceEndpoints` -/
def idxUpdate (ix : Index) (host ns : String) (eps : List IEp) : Index :=
  if eps.isEmpty then
    match alookup host ix with
    | none => ix
    | some e => aset host { e with eps := none } ix     -- DeleteServiceShard, keys (and accounts) preserved
  else aset host { ns := ns, eps := some eps, sas := sasOf eps } ix

/-- `DeleteServiceShard(preserveKeys = false)` on service deletion -/
def idxDelete (ix : Index) (host : String) : Index := aerase host ix

/-! ### events and state -/

inductive Ev
  | svcAdd (s : Svc) | svcUpd (old new : Svc) | svcDel (s : Svc)
  | podAdd (p : Pod) | podUpd (old new : Pod) | podDel (p : Pod)
  | slAdd (s : Slice) | slUpd (old new : Slice) | slDel (s : Slice)
  | nsAdd (n : Ns) | nsUpd (old new : Ns) | nsDel (n : Ns)
  | replay (key : String)
  deriving DecidableEq, Repr, Inhabited

/-- the informer stores and the controller's caches: everything the handlers read or write -/
structure Ctl where
  -- informer stores
  svcs : List Svc := []
  slices : List Slice := []
  pods : List Pod := []
  nodes : List Node := []
  nss : List Ns := []
  -- controller caches
  smap : List (String × Svc) := []                 -- servicesMap (hostname -> the converted service)
  cache : SliceCache := []                         -- endpointsByServiceAndSlice
  byIP : List (String × List String) := []         -- podsByIP
  ipBy : List (String × String) := []              -- ipByPods
  resync : List (String × List String) := []       -- needResync
  index : Index := []
  deriving Repr, Inhabited

def findSvc (l : List Svc) (ns name : String) : Option Svc := l.find? (fun s => s.ns = ns ∧ s.name = name)
def findSlice (l : List Slice) (ns name : String) : Option Slice := l.find? (fun s => s.ns = ns ∧ s.name = name)

/-! ### EndpointSlice handler -/

/-- `pushEDS` for the single hostname of a slice -/
def pushEDS (s : Ctl) (host ns : String) : Ctl :=
  { s with index := idxUpdate s.index host ns (cacheGet s.cache host) }

/-- `updateEndpointCacheForSlice(host, sl)`: rebuild the cache entry of `sl` under `host` from the
    current stores, park the addresses whose pod is unknown -/
def rebuildSlice (s : Ctl) (host : String) (sl : Slice) : Ctl :=
  match buildSlice s.pods s.nodes s.byIP (alookup host s.smap) sl with
  | none => s
  | some eps =>
    { s with cache := cacheUpdate s.cache host sl.name eps,
             resync := (parkedAddrs s.pods sl).foldl (fun m a => setInsert m a sl.key) s.resync }

/-- `updateEndpointSlice` -/
def updateSliceCache (s : Ctl) (sl : Slice) : Ctl := rebuildSlice s sl.host sl

def endpointsDeleted (m : List (String × List String)) (key : String) (addrs : List String) :
    List (String × List String) :=
  addrs.foldl (fun m a => setDelete m a key) m

/-- `endpointSliceController.onEventInternal` for add / update / replay (`old` only for updates) -/
def sliceUpsert (s : Ctl) (old : Option Slice) (sl : Slice) : Ctl :=
  let s := match old with
    | none => s
    | some o => { s with resync := endpointsDeleted s.resync sl.key (o.allAddrs.filter (fun a => !sl.allAddrs.contains a)) }
  pushEDS (updateSliceCache s sl) sl.host sl.ns

/-- `onEventInternal` for delete: `deleteEndpointSlice` then `pushEDS` -/
def sliceDelete (s : Ctl) (sl : Slice) : Ctl :=
  let s := { s with resync := endpointsDeleted s.resync sl.key sl.allAddrs,
                    cache := cacheDelete s.cache sl.host sl.name }
  pushEDS s sl.host sl.ns

/-- `onEventInternal` for an update (with fix 1e33f42): a slice whose service-name label was edited is first
    removed from the cache of its previous Service -/
def sliceEvent (s : Ctl) (o sl : Slice) : Ctl :=
  sliceUpsert (if o.svc ≠ sl.svc then sliceDelete s o else s) (some o) sl

/-! ### Service handler -/

/-- the slices `buildIstioEndpointsWithService` lists for a service (informer store, by label) -/
def svcSlices (s : Ctl) (svc : Svc) : List Slice :=
  s.slices.filter (fun sl => sl.ns = svc.ns ∧ sl.svc = svc.name)

/-- `buildIstioEndpointsWithService(updateCache = false)`: nothing when the store has no slice of
    the service, else whatever the cache holds for the hostname -/
def cachedEndpoints (s : Ctl) (svc : Svc) : List IEp :=
  if (svcSlices s svc).isEmpty then [] else cacheGet s.cache svc.host

/-- `if len(endpoints) > 0 { EDSCacheUpdate(...) }` -/
def refreshIndex (s : Ctl) (svc : Svc) : Ctl :=
  let eps := cachedEndpoints s svc
  if eps.isEmpty then s else { s with index := idxUpdate s.index svc.host svc.ns eps }

/-- `buildIstioEndpointsWithService(updateCache = true)`: rebuild every listed slice -/
def rebuildService (s : Ctl) (svc : Svc) : Ctl :=
  (svcSlices s svc).foldl (fun s sl => rebuildSlice s svc.host sl) s

/-- `addOrUpdateService` (updateEDSCache = false, EnableK8SServiceSelectWorkloadEntries = true) -/
def serviceUpsert (s : Ctl) (svc : Svc) : Ctl :=
  refreshIndex { s with smap := aset svc.host svc s.smap } svc

/-- `deleteService` -/
def serviceDelete (s : Ctl) (svc : Svc) : Ctl :=
  { s with smap := aerase svc.host s.smap, index := idxDelete s.index svc.host }

/-! ### Pod handler -/

/-- `labels.Instance(selector).Match(podLabels)` -/
def selMatch (sel podLabels : Labels) : Bool :=
  let sl := normLabels sel
  let pl := normLabels podLabels
  !sl.isEmpty && sl.all (fun kv => alookup kv.1 pl = some kv.2)

/-- `recomputeServiceForPod`: services of the pod's namespace whose selector matches; one that is not in
    `servicesMap` (yet) is skipped (fix F3: it used to end the loop, in the unordered order of the lister). -/
def recompute (s : Ctl) (p : Pod) : Ctl :=
  let svcs := s.svcs.filter (fun sv => sv.ns = p.ns ∧ selMatch sv.sel p.labels)
  svcs.foldl (fun (acc : Ctl) sv =>
    match alookup sv.host acc.smap with
    | none => acc
    | some conv => refreshIndex (rebuildService acc conv) conv) s

def podShouldBeIn (p : Pod) : Bool := !(p.phase = "F" ∨ p.phase = "S") && p.ip ≠ "" && !p.deleting

/-- `queueWaitingEndpointEvents` / the needResync part of `addPod`: replay every slice waiting on `ip` -/
def takeWaiting (s : Ctl) (ip : String) : Ctl × List Ev :=
  match alookup ip s.resync with
  | none => (s, [])
  | some keys =>
    ({ s with resync := aerase ip s.resync },
     keys.map Ev.replay)

/-- `deleteIP` -/
def deleteIP (s : Ctl) (ip0 key : String) : Ctl × Bool :=
  -- (fix F4) the IP the pod is cached under wins over the event's
  let ip := (alookup key s.ipBy).getD ip0
  if setContains s.byIP ip key then
    ({ s with byIP := setDelete s.byIP ip key, ipBy := aerase key s.ipBy }, true)
  else (s, false)

/-- the pod cache part of `addPod`: drop the key from its previous IP, record it under `ip` -/
def cachePod (s : Ctl) (key ip : String) : Ctl :=
  let byIP := match alookup key s.ipBy with
    | some cur => setDelete s.byIP cur key
    | none => s.byIP
  { s with byIP := setInsert byIP ip key, ipBy := aset key ip s.ipBy }

/-- `addPod` -/
def addPod (s : Ctl) (p : Pod) (ip : String) (labelUpdated : Bool) : Ctl × List Ev :=
  if setContains s.byIP ip p.key then
    (if labelUpdated then recompute s p else s, [])
  else takeWaiting (cachePod s p.key ip) ip

/-- `labelFilter` (no ambient annotation in the universe): the label maps differ -/
def filterLabels (l : Labels) : Labels :=
  l.filter fun kv => kv.1.toList.head? ≠ some '@' || kv.1 = "@amb"

/-- `labelFilter`: the label maps differ, or the one annotation it looks at (pseudo label `@amb`); the other pseudo
    labels are pod fields it does not look at -/
def labelsChanged (old : Option Pod) (p : Pod) : Bool :=
  match old with
  | some o => decide (normLabels (filterLabels o.labels) ≠ normLabels (filterLabels p.labels))
  | none => false

inductive PodEvKind | add | upd | del
  deriving DecidableEq, Repr

/-- `PodCache.onEvent`; `p` is the latest pod of the store for add/update, the event's object for
    delete; `old` is the event's old object (label comparison). -/
def podEvent (s : Ctl) (old : Option Pod) (p : Pod) (k : PodEvKind) : Ctl × List Ev :=
  let ip := if p.ip = "" then (alookup p.key s.ipBy).getD "" else p.ip
  if ip = "" then (s, [])
  else
    let w := if k = .del then (s, []) else takeWaiting s ip
    let s := w.1
    let ok := podShouldBeIn p && p.ready
    match k with
    | .add => if ok then let r := addPod s p ip false; (r.1, w.2 ++ r.2) else (s, w.2)
    | .upd =>
      if !ok then ((deleteIP s ip p.key).1, w.2)
      else
        let r := addPod s p ip (labelsChanged old p)
        (r.1, w.2 ++ r.2)
    | .del => ((deleteIP s ip p.key).1, w.2)

/-- `queueEndpointEventsForPod` (fix ab6ec60): a pod update that changes the node or the service account replays the
    EndpointSlices of the pod's namespace that have an endpoint for the pod (they took node, locality and identity
    from the pod as it was when they were handled) -/
def workloadOf (p : Pod) : String :=
  (alookup "service.istio.io/workload-name" (normLabels p.labels)).getD ((alookup "@owner" (normLabels p.labels)).getD p.name)

/-- node, service account or workload name (controller owner reference) of the pod changed -/
def idChanged (o p : Pod) : Bool := o.node ≠ p.node || o.sa ≠ p.sa || workloadOf o ≠ workloadOf p

def idReplays (s : Ctl) (o p : Pod) : List Ev :=
  if idChanged o p then
    (s.slices.filter (fun sl => sl.ns = p.ns ∧ sl.eps.any (fun e => e.target = some (p.ns, p.name)))).map
      (fun sl => Ev.replay sl.key)
  else []

/-! ### the queue -/

/-- `ConvertService` with the namespace annotations read from the namespace store at handler time:
    the traffic distribution of the namespace applies when the Service has none -/
def convNs (nss : List Ns) (svc : Svc) : Svc :=
  match nss.find? (fun n => n.name = svc.ns) with
  | some n => if n.td then { svc with td := true } else svc
  | none => svc

/-- `reprocessServicesInNamespace`: `onServiceEvent(svc, svc, Update)` for every Service of the store -/
def reprocessNs (s : Ctl) (ns : String) : Ctl :=
  (s.svcs.filter (fun sv => sv.ns = ns)).foldl (fun s sv => serviceUpsert s (convNs s.nss sv)) s

/-- handle one event against the current stores (`registerHandlers`: add/update handlers re-read the
    latest object and skip when it is gone); returns the replays it queued -/
def handle (s : Ctl) : Ev → Ctl × List Ev
  | .svcAdd v =>
    match findSvc s.svcs v.ns v.name with
    | none => (s, [])
    | some cur => (serviceUpsert s (convNs s.nss cur), [])
  -- (fix F1) an update whose object is gone already is handled with the object the event carries
  | .svcUpd _ v =>
    let cur := (findSvc s.svcs v.ns v.name).getD v
    (serviceUpsert s (convNs s.nss cur), [])
  | .svcDel v => (serviceDelete s v, [])
  -- the Namespace handler (with fix 70cda90): the annotation before / after the event differs
  | .nsAdd v =>
    match s.nss.find? (fun n => n.name = v.name) with
    | none => (s, [])
    | some cur => (if cur.td then reprocessNs s cur.name else s, [])
  | .nsUpd o v =>
    let cur := (s.nss.find? (fun n => n.name = v.name)).getD v
    (if o.td ≠ cur.td then reprocessNs s cur.name else s, [])
  | .nsDel v => (if v.td then reprocessNs s v.name else s, [])
  | .podAdd v =>
    match findPod s.pods v.ns v.name with
    | none => (s, [])
    | some cur => podEvent s none cur .add
  | .podUpd o v =>
    let cur := (findPod s.pods v.ns v.name).getD v
    ((podEvent s (some o) cur .upd).1, idReplays s o cur ++ (podEvent s (some o) cur .upd).2)
  | .podDel v => podEvent s none v .del
  | .slAdd v =>
    match findSlice s.slices v.ns v.name with
    | none => (s, [])
    | some cur => (sliceUpsert s none cur, [])
  | .slUpd o v =>
    let cur := (findSlice s.slices v.ns v.name).getD v
    (sliceEvent s o cur, [])
  | .slDel v => (sliceDelete s v, [])
  | .replay key =>
    match s.slices.find? (fun sl => sl.key = key) with
    | none => (s, [])
    | some cur => (sliceUpsert s none cur, [])

/-- run a list of events in order, collecting the replays they queue behind them -/
def runEvents (s : Ctl) : List Ev → Ctl × List Ev
  | [] => (s, [])
  | e :: r =>
    let h := handle s e
    let t := runEvents h.1 r
    (t.1, h.2 ++ t.2)

/-- the waiting events, then the replays they queued (a replay queues nothing) -/
def runAll (s : Ctl) (q : List Ev) : Ctl :=
  let a := runEvents s q
  (runEvents a.1 a.2).1

/-- controller plus its event queue; `held` = the worker is blocked, the stores run ahead -/
structure State where
  c : Ctl := {}
  queue : List Ev := []
  held : Bool := false
  /-- pods that exist at the API server but are invisible to the pod informer: its field selector is
      `status.phase!=Failed` (a pod that turns Failed is delivered as a DELETE carrying the new object) -/
  hidden : List String := []
  deriving Repr, Inhabited

def drain (s : State) : State := { s with c := runAll s.c s.queue, queue := [] }

/-! ### writes (what the informers deliver) -/

def upsertBy {α : Type} (same : α → Bool) (v : α) : List α → List α
  | [] => [v]
  | x :: r => if same x then v :: r else x :: upsertBy same v r

/-- store update done, event appended; handled at once unless the queue is held -/
def enqueue (s : State) (c : Ctl) (e : Ev) : State :=
  let s := { s with c := c, queue := s.queue ++ [e] }
  if s.held then s else drain s

def writeSvc (s : State) (v : Svc) : State :=
  let e := match findSvc s.c.svcs v.ns v.name with
    | none => Ev.svcAdd v
    | some o => Ev.svcUpd o v
  enqueue s { s.c with svcs := upsertBy (fun x => x.ns = v.ns ∧ x.name = v.name) v s.c.svcs } e

def writeSlice (s : State) (v : Slice) : State :=
  let e := match findSlice s.c.slices v.ns v.name with
    | none => Ev.slAdd v
    | some o => Ev.slUpd o v
  enqueue s { s.c with slices := upsertBy (fun x => x.ns = v.ns ∧ x.name = v.name) v s.c.slices } e

def writePodVisible (s : State) (v : Pod) : State :=
  let e := match findPod s.c.pods v.ns v.name with
    | none => Ev.podAdd v
    | some o => Ev.podUpd o v
  enqueue s { s.c with pods := upsertBy (fun x => x.ns = v.ns ∧ x.name = v.name) v s.c.pods } e

/-- a write of a Failed pod: the informer sees a DELETE whose object is the new (Failed) pod if it
    knew the pod, nothing otherwise -/
def evictPod (s : State) (v : Pod) : State :=
  let s := { s with hidden := if s.hidden.contains v.key then s.hidden else s.hidden ++ [v.key] }
  match findPod s.c.pods v.ns v.name with
  | none => s
  | some _ => enqueue s { s.c with pods := s.c.pods.filter (fun x => !(x.ns = v.ns ∧ x.name = v.name)) } (.podDel v)

def writePod (s : State) (v : Pod) : State :=
  if v.phase = "F" then evictPod s v
  else writePodVisible { s with hidden := s.hidden.filter (· ≠ v.key) } v

def writeNs (s : State) (v : Ns) : State :=
  let e := match s.c.nss.find? (fun n => n.name = v.name) with
    | none => Ev.nsAdd v
    | some o => Ev.nsUpd o v
  enqueue s { s.c with nss := upsertBy (fun x => x.name = v.name) v s.c.nss } e

def delNs (s : State) (name : String) : Option State :=
  (s.c.nss.find? (fun n => n.name = name)).map fun o =>
    enqueue s { s.c with nss := s.c.nss.filter (fun x => !(x.name = name)) } (.nsDel o)

/-- Node events do not touch the observed caches (`onNodeEvent` only maintains node-port
    gateway data); the node store is read when endpoints are built. -/
def writeNode (s : State) (v : Node) : State :=
  { s with c := { s.c with nodes := upsertBy (fun x => x.name = v.name) v s.c.nodes } }

def delSvc (s : State) (ns name : String) : Option State :=
  (findSvc s.c.svcs ns name).map fun o =>
    enqueue s { s.c with svcs := s.c.svcs.filter (fun x => !(x.ns = ns ∧ x.name = name)) } (.svcDel o)

def delSlice (s : State) (ns name : String) : Option State :=
  (findSlice s.c.slices ns name).map fun o =>
    enqueue s { s.c with slices := s.c.slices.filter (fun x => !(x.ns = ns ∧ x.name = name)) } (.slDel o)

def delPod (s : State) (ns name : String) : Option State :=
  match findPod s.c.pods ns name with
  | some o => some (enqueue s { s.c with pods := s.c.pods.filter (fun x => !(x.ns = ns ∧ x.name = name)) } (.podDel o))
  | none =>
    -- a Failed pod is deleted at the API server: the informer never knew it
    if s.hidden.contains (ns ++ "/" ++ name) then some { s with hidden := s.hidden.filter (· ≠ ns ++ "/" ++ name) }
    else none

def delNode (s : State) (name : String) : Option State :=
  if s.c.nodes.any (·.name = name) then
    some { s with c := { s.c with nodes := s.c.nodes.filter (·.name ≠ name) } }
  else none

def hold (s : State) : State := { s with held := true }
def release (s : State) : State := drain { s with held := false }

/-! ### operations of a history -/

inductive Op
  | svc (v : Svc) | delSvc (ns name : String)
  | slice (v : Slice) | delSlice (ns name : String)
  | pod (v : Pod) | delPod (ns name : String)
  | node (v : Node) | delNode (name : String)
  | ns (v : Ns) | delNs (name : String)
  | hold | release
  deriving DecidableEq, Repr, Inhabited

/-- one operation; `none` = the operation does not apply (object absent) -/
def applyOp (s : State) : Op → Option State
  | .svc v => some (writeSvc s v)
  | .delSvc ns n => delSvc s ns n
  | .slice v => some (writeSlice s v)
  | .delSlice ns n => delSlice s ns n
  | .pod v => some (writePod s v)
  | .delPod ns n => delPod s ns n
  | .node v => some (writeNode s v)
  | .delNode n => delNode s n
  | .ns v => some (writeNs s v)
  | .delNs n => delNs s n
  | .hold => some (hold s)
  | .release => some (release s)

def run (s : State) : List Op → State
  | [] => s
  | o :: r => run ((applyOp s o).getD s) r

/-! ### the property view and the cold start -/

/-- What the property talks about, per hostname: the service, the endpoints of this registry in
    the index and the service accounts. -/
structure HostView where
  svc : Svc
  eps : List IEp
  sas : List String
  deriving DecidableEq, Repr

def hostView (s : Ctl) (host : String) : Option HostView :=
  (alookup host s.smap).map fun sv =>
    match alookup host s.index with
    | none => { svc := sv, eps := [], sas := [] }
    | some e => { svc := sv, eps := e.eps.getD [], sas := e.sas }

/-- the final objects of a state, as the writes that create them, kinds in the given order -/
def finalOps (s : Ctl) (order : List String) : List Op :=
  order.flatMap fun k =>
    if k = "node" then s.nodes.map Op.node
    else if k = "ns" then s.nss.map Op.ns
    else if k = "svc" then s.svcs.map Op.svc
    else if k = "pod" then s.pods.map Op.pod
    else if k = "slice" then s.slices.map Op.slice
    else []

/-- A controller whose stores hold all objects before the first handler runs, Add events in the
    given kind order: the situation of a cold start. -/
def coldRun (objs : List Op) : State :=
  release (run (hold {}) objs)

end IstioModel.C15
