import IstioModel.C15.Recompute

/-!
# C15 - `needResync` does not leak

`ResyncSound c`: every registration in `needResync` belongs to a slice of the store that has this
address on an endpoint whose targetRef pod is not in the store, or is there without an IP yet (Pending).  Together with `Inv.parked` (every
such address is registered) `needResync` is exactly the set of endpoints still waiting for a pod.
-/
namespace IstioModel.C15

/-- the pods that have an IP: a pod without IP (Pending) is, for the slices that wait for it, as good as absent -/
def visPods (pods : List Pod) : List Pod := pods.filter (fun p => p.ip ≠ "")

theorem findPod_vis_none (pods : List Pod) (ns name : String) (h : findPod pods ns name = none) :
    findPod (visPods pods) ns name = none := by
  unfold findPod visPods at *
  rw [List.find?_eq_none] at *
  intro x hx
  exact h x (List.mem_filter.mp hx).1

def ResyncSound (c : Ctl) : Prop :=
  ∀ a k, setContains c.resync a k = true → ∃ sl ∈ c.slices, sl.key = k ∧ a ∈ parkedAddrs (visPods c.pods) sl

theorem mem_parkedAddrs (pods : List Pod) (sl : Slice) (a : String) :
    a ∈ parkedAddrs pods sl ↔ Servable sl ∧ ∃ ea ∈ sl.addrPairs, ea.2 = a ∧
      ∃ tns tn, ea.1.target = some (tns, tn) ∧ findPod pods tns tn = none := by
  by_cases hs : Servable sl
  · unfold parkedAddrs
    have : ¬ (sl.fqdn = true ∨ sl.svc = "") := by
      intro h
      cases h with
      | inl h => rw [hs.1] at h; cases h
      | inr h => exact hs.2 h
    rw [if_neg this, List.mem_filterMap]
    constructor
    · intro h
      obtain ⟨ea, hea, hv⟩ := h
      refine ⟨hs, ea, hea, ?_⟩
      cases htg : ea.1.target with
      | none => rw [htg] at hv; cases hv
      | some t =>
        obtain ⟨tns, tn⟩ := t
        rw [htg] at hv
        simp only [] at hv
        by_cases hn : (findPod pods tns tn).isNone = true
        · rw [if_pos hn] at hv
          exact ⟨by simpa using hv, tns, tn, rfl, Option.isNone_iff_eq_none.mp hn⟩
        · rw [if_neg hn] at hv; cases hv
    · intro h
      obtain ⟨_, ea, hea, hea2, tns, tn, htg, hf⟩ := h
      refine ⟨ea, hea, ?_⟩
      rw [htg]
      simp [hf, hea2]
  · rw [parkedAddrs_not_servable _ _ hs]
    simp [hs]

theorem parkedAddrs_sub_all (pods : List Pod) (sl : Slice) (a : String) (h : a ∈ parkedAddrs pods sl) :
    a ∈ sl.allAddrs := by
  obtain ⟨_, ea, hea, hea2, _⟩ := (mem_parkedAddrs pods sl a).mp h
  unfold Slice.allAddrs
  exact List.mem_map.mpr ⟨ea, hea, hea2⟩

/-- absent, or in the store without IP -/
def Gone (pods : List Pod) (ns name : String) : Prop := ∀ p, findPod pods ns name = some p → p.ip = ""

theorem findPod_vis_iff (pods : List Pod) (ns name : String)
    (hinj : ∀ a ∈ pods, ∀ b ∈ pods, a.ns = b.ns → a.name = b.name → a = b) :
    findPod (visPods pods) ns name = none ↔ Gone pods ns name := by
  constructor
  · intro h p hp
    apply Classical.byContradiction
    intro hne
    have hm : p ∈ visPods pods := by
      unfold visPods
      exact List.mem_filter.mpr ⟨List.mem_of_find?_eq_some hp, by simpa using hne⟩
    unfold findPod at h hp
    have hpn := List.find?_some hp
    exact List.find?_eq_none.mp h p hm hpn
  · intro h
    cases hf : findPod (visPods pods) ns name with
    | none => rfl
    | some q =>
      exfalso
      unfold findPod at hf
      have hq := List.mem_of_find?_eq_some hf
      have hqn := List.find?_some hf
      unfold visPods at hq
      have hq' := List.mem_filter.mp hq
      cases hp : findPod pods ns name with
      | none =>
        unfold findPod at hp
        exact List.find?_eq_none.mp hp q hq'.1 hqn
      | some p =>
        have hpm := List.mem_of_find?_eq_some hp
        have hpn := List.find?_some hp
        simp only [Bool.decide_and, Bool.and_eq_true, decide_eq_true_eq] at hqn hpn
        have : p = q := hinj p hpm q hq'.1 (hpn.1.trans hqn.1.symm) (hpn.2.trans hqn.2.symm)
        have hz := h p hp
        rw [this] at hz
        simp [hz] at hq'

theorem parked_vis_gone (pods : List Pod) (sl : Slice) (a : String) (h : a ∈ parkedAddrs (visPods pods) sl) :
    Servable sl ∧ ∃ ea ∈ sl.addrPairs, ea.2 = a ∧ ∃ tns tn, ea.1.target = some (tns, tn) ∧ Gone pods tns tn := by
  obtain ⟨hs, ea, hea, hea2, tns, tn, htg, hm⟩ := (mem_parkedAddrs (visPods pods) sl a).mp h
  refine ⟨hs, ea, hea, hea2, tns, tn, htg, ?_⟩
  intro p hp
  apply Classical.byContradiction
  intro hne
  have hmem : p ∈ visPods pods := by
    unfold visPods
    exact List.mem_filter.mpr ⟨List.mem_of_find?_eq_some hp, by simpa using hne⟩
  unfold findPod at hm hp
  have hpn := List.find?_some hp
  exact List.find?_eq_none.mp hm p hmem hpn

theorem parked_vis_of_gone (pods : List Pod) (sl : Slice) (a : String)
    (hinj : ∀ a ∈ pods, ∀ b ∈ pods, a.ns = b.ns → a.name = b.name → a = b)
    (h : Servable sl ∧ ∃ ea ∈ sl.addrPairs, ea.2 = a ∧ ∃ tns tn, ea.1.target = some (tns, tn) ∧ Gone pods tns tn) :
    a ∈ parkedAddrs (visPods pods) sl := by
  obtain ⟨hs, ea, hea, hea2, tns, tn, htg, hg⟩ := h
  exact (mem_parkedAddrs (visPods pods) sl a).mpr ⟨hs, ea, hea, hea2, tns, tn, htg, (findPod_vis_iff pods tns tn hinj).mpr hg⟩

/-- what the handler registers (pod absent) is waiting in the weaker sense too -/
theorem parkedAddrs_vis (pods : List Pod) (sl : Slice) (a : String) (h : a ∈ parkedAddrs pods sl) :
    a ∈ parkedAddrs (visPods pods) sl := by
  apply parkedAddrs_mono (visPods pods) pods sl a _ h
  intro ea hea tns tn htg hnone
  exact findPod_vis_none pods tns tn hnone

/-- one slice handler: its own surviving registrations must be waiting now (`hown`) -/
theorem sliceUpsert_sound (c : Ctl) (old : Option Slice) (sl : Slice) (hsl : sl ∈ c.slices)
    (hpre : ∀ a k, setContains c.resync a k = true → k ≠ sl.key →
      ∃ x ∈ c.slices, x.key = k ∧ a ∈ parkedAddrs (visPods c.pods) x)
    (hown : ∀ a, setContains (sliceResync0 c old sl) a sl.key = true → a ∈ parkedAddrs (visPods c.pods) sl) :
    ResyncSound (sliceUpsert c old sl) := by
  have hr0 : ∀ a k, setContains (sliceResync0 c old sl) a k = true → setContains c.resync a k = true := by
    intro a k h
    unfold sliceResync0 at h
    cases old with
    | none => exact h
    | some o =>
      simp only [] at h
      rw [endpointsDeleted_contains] at h
      simp only [Bool.and_eq_true] at h
      exact h.1
  have hst := sliceUpsert_stores c old sl
  intro a k h
  rw [hst.1, hst.2.2.1]
  have hin : setContains (sliceResync0 c old sl) a k = true ∨ (k = sl.key ∧ a ∈ parkedAddrs (visPods c.pods) sl) := by
    cases hb : buildSlice c.pods c.nodes c.byIP (alookup sl.host c.smap) sl with
    | none =>
      rw [sliceUpsert_none c old sl hb] at h
      exact Or.inl h
    | some eps =>
      rw [sliceUpsert_some c old sl eps hb] at h
      have h' : setContains ((parkedAddrs c.pods sl).foldl (fun m a => setInsert m a sl.key) (sliceResync0 c old sl)) a k = true := h
      rw [foldl_setInsert_contains] at h'
      simp only [Bool.or_eq_true, Bool.and_eq_true, decide_eq_true_eq, beq_iff_eq] at h'
      cases h' with
      | inl h1 => exact Or.inl h1
      | inr h1 => exact Or.inr ⟨h1.2, parkedAddrs_vis _ _ _ h1.1⟩
  cases hin with
  | inl h0 =>
    by_cases hk : k = sl.key
    · subst hk
      exact ⟨sl, hsl, rfl, hown a h0⟩
    · exact hpre a k (hr0 a k h0) hk
  | inr h1 => exact ⟨sl, hsl, h1.1.symm, h1.2⟩

theorem replays_sound (ks : List String) (c : Ctl) (hs : ResyncSound c) (hwf : WF c) :
    ResyncSound (runEvents c (ks.map Ev.replay)).1 := by
  induction ks generalizing c with
  | nil => exact hs
  | cons k ks ih =>
    simp only [List.map_cons, runEvents, handle]
    cases hf : c.slices.find? (fun sl => sl.key = k) with
    | none => exact ih c hs hwf
    | some sl =>
      simp only []
      have hsl : sl ∈ c.slices := List.mem_of_find?_eq_some hf
      have hst := sliceUpsert_stores c none sl
      apply ih _ _ (hwf.of_stores hst.1 hst.2.1 hst.2.2.1)
      apply sliceUpsert_sound c none sl hsl
      · intro a k' h _; exact hs a k' h
      · intro a h
        obtain ⟨x, hx, hxk, hxa⟩ := hs a sl.key h
        rw [hwf.sliceKeyInj x hx sl hsl hxk] at hxa
        exact hxa

/-- a slice write keeps `needResync` sound when an address that was waiting and is kept by the new
    version is still waiting (same missing targetRef) -/
def SliceKeepsWaiting (c : Ctl) (v : Slice) : Prop :=
  ∀ o ∈ c.slices, o.ns = v.ns → o.name = v.name → ∀ a ∈ parkedAddrs (visPods c.pods) o, a ∈ v.allAddrs → a ∈ parkedAddrs (visPods c.pods) v

theorem slice_write_sound (c : Ctl) (v : Slice) (c' : Ctl) (hstep : stepC c (.slice v) = some c')
    (hs : ResyncSound c) (hwf0 : WF c)
    (hwf : WF { c with slices := upsertBy (fun x => x.ns = v.ns ∧ x.name = v.name) v c.slices })
    (hsame : ∀ o ∈ c.slices, o.ns = v.ns → o.name = v.name → o.svc = v.svc)
    (hkeep : SliceKeepsWaiting c v) : ResyncSound c' := by
  simp only [stepC, Option.some.injEq] at hstep
  subst hstep
  let c1 : Ctl := { c with slices := upsertBy (fun x => x.ns = v.ns ∧ x.name = v.name) v c.slices }
  have hfind : findSlice c1.slices v.ns v.name = some v := by
    apply find_upsertBy
    simp
  have hv1 : v ∈ c1.slices := mem_upsertBy_self _ _ _
  have hkeepmem : ∀ x ∈ c.slices, ¬ (x.ns = v.ns ∧ x.name = v.name) → x ∈ c1.slices := by
    intro x hx hne
    apply mem_upsertBy_of_mem _ _ _ _ hx
    simp only [Bool.decide_and, Bool.and_eq_false_iff, decide_eq_false_iff_not]
    by_cases h1 : x.ns = v.ns
    · right; intro h2; exact hne ⟨h1, h2⟩
    · left; exact h1
  -- registrations of other slices
  have hpre : ∀ a k, setContains c1.resync a k = true → k ≠ v.key →
      ∃ x ∈ c1.slices, x.key = k ∧ a ∈ parkedAddrs (visPods c1.pods) x := by
    intro a k h hk
    obtain ⟨x, hx, hxk, hxa⟩ := hs a k h
    refine ⟨x, hkeepmem x hx ?_, hxk, hxa⟩
    intro hsame
    apply hk
    rw [← hxk]
    simp [Slice.key, hsame.1, hsame.2]
  cases hfo : findSlice c.slices v.ns v.name with
  | none =>
    have hrun : runAll c1 [Ev.slAdd v] = sliceUpsert c1 none v := by simp [runAll, runEvents, handle, hfind]
    show ResyncSound (runAll c1 [Ev.slAdd v])
    rw [hrun]
    apply sliceUpsert_sound c1 none v hv1 hpre
    intro a h
    exfalso
    obtain ⟨x, hx, hxk, _⟩ := hs a v.key h
    have hne : ¬ (x.ns = v.ns ∧ x.name = v.name) := by
      intro hsame
      have := List.find?_eq_none.mp hfo x hx
      simp [hsame.1, hsame.2] at this
    have hx1 := hkeepmem x hx hne
    have := hwf.sliceKeyInj x hx1 v hv1 hxk
    subst this
    exact hne ⟨rfl, rfl⟩
  | some o =>
    have ho : o ∈ c.slices := List.mem_of_find?_eq_some hfo
    have hon : o.ns = v.ns ∧ o.name = v.name := by
      have := List.find?_some hfo
      simpa using this
    have hrun : runAll c1 [Ev.slUpd o v] = sliceUpsert c1 (some o) v := by
      simp [runAll, runEvents, handle, hfind, sliceEvent, hsame o ho hon.1 hon.2]
    show ResyncSound (runAll c1 [Ev.slUpd o v])
    rw [hrun]
    apply sliceUpsert_sound c1 (some o) v hv1 hpre
    intro a h
    unfold sliceResync0 at h
    simp only [] at h
    rw [endpointsDeleted_contains] at h
    simp only [Bool.and_eq_true, Bool.not_eq_true', Bool.and_eq_false_iff, decide_eq_false_iff_not,
      beq_eq_false_iff_ne] at h
    obtain ⟨x, hx, hxk, hxa⟩ := hs a v.key h.1
    have hok : o.key = v.key := by simp [Slice.key, hon.1, hon.2]
    have hxo : x = o := hwf0.sliceKeyInj x hx o ho (hxk.trans hok.symm)
    subst hxo
    have hkept : a ∈ v.allAddrs := by
      cases h.2 with
      | inl hnm =>
        apply Classical.byContradiction
        intro hnv
        apply hnm
        rw [List.mem_filter]
        exact ⟨parkedAddrs_sub_all _ _ _ hxa, by simpa using hnv⟩
      | inr hne => exact absurd rfl hne
    exact hkeep x hx hon.1 hon.2 a hxa hkept

theorem slice_delete_sound (c : Ctl) (ns name : String) (c' : Ctl) (hstep : stepC c (.delSlice ns name) = some c')
    (hs : ResyncSound c) (hwf : WF c) : ResyncSound c' := by
  simp only [stepC] at hstep
  cases hf : findSlice c.slices ns name with
  | none => rw [hf] at hstep; cases hstep
  | some o =>
    rw [hf] at hstep
    simp only [Option.map, Option.some.injEq] at hstep
    subst hstep
    have ho : o ∈ c.slices := List.mem_of_find?_eq_some hf
    have hon : o.ns = ns ∧ o.name = name := by
      have := List.find?_some hf
      simpa using this
    let c1 : Ctl := { c with slices := c.slices.filter (fun x => !(x.ns = ns ∧ x.name = name)) }
    show ResyncSound (runAll c1 [Ev.slDel o])
    have : runAll c1 [Ev.slDel o] = sliceDelete c1 o := by simp [runAll, runEvents, handle]
    rw [this, sliceDelete_eq]
    intro a k h
    have h' : setContains (endpointsDeleted c.resync o.key o.allAddrs) a k = true := h
    rw [endpointsDeleted_contains] at h'
    simp only [Bool.and_eq_true, Bool.not_eq_true', Bool.and_eq_false_iff, decide_eq_false_iff_not,
      beq_eq_false_iff_ne] at h'
    obtain ⟨x, hx, hxk, hxa⟩ := hs a k h'.1
    have hxo : x ≠ o := by
      intro hxo
      subst hxo
      cases h'.2 with
      | inl hnm => exact hnm (parkedAddrs_sub_all _ _ _ hxa)
      | inr hne => exact hne hxk.symm
    refine ⟨x, ?_, hxk, hxa⟩
    show x ∈ c.slices.filter _
    rw [List.mem_filter]
    refine ⟨hx, ?_⟩
    simp only [Bool.not_eq_true', decide_eq_false_iff_not]
    intro hsame
    exact hxo (hwf.sliceNameInj x hx o ho (hsame.1.trans hon.1.symm) (hsame.2.trans hon.2.symm))

/-! ### Pod events -/

theorem pod_write_sound (c : Ctl) (v : Pod) (c' : Ctl) (hph : v.phase ≠ "F") (hstep : stepC c (.pod v) = some c')
    (hs : ResyncSound c)
    (hwf : WF { c with pods := upsertBy (fun x => x.ns = v.ns ∧ x.name = v.name) v c.pods })
    {P : Slice → Prop} (hgood : PodGood c P v) : ResyncSound c' := by
  rw [stepC_pod c v hph] at hstep
  simp only [Option.some.injEq] at hstep
  subst hstep
  let c1 : Ctl := { c with pods := upsertBy (fun x => x.ns = v.ns ∧ x.name = v.name) v c.pods }
  have hfind : findPod c1.pods v.ns v.name = some v := by
    apply find_upsertBy
    simp
  have hother : ∀ tns tn, ¬ (tns = v.ns ∧ tn = v.name) → findPod c1.pods tns tn = findPod c.pods tns tn := by
    intro tns tn hne
    apply find_upsertBy_other
    · simp only [Bool.decide_and, Bool.and_eq_false_iff, decide_eq_false_iff_not]
      by_cases h1 : v.ns = tns
      · right; intro h2; exact hne ⟨h1.symm, h2.symm⟩
      · left; exact h1
    · intro x hx
      simp only [Bool.decide_and, Bool.and_eq_true, decide_eq_true_eq] at hx
      simp only [Bool.decide_and, Bool.and_eq_false_iff, decide_eq_false_iff_not]
      by_cases h1 : x.ns = tns
      · right; intro h2; exact hne ⟨(hx.1.symm.trans h1).symm, (hx.2.symm.trans h2).symm⟩
      · left; exact h1
  have hev : ∃ (old : Option Pod) (kind : PodEvKind) (kx : List String), runEvents c1 [podEvOf c v] =
        ((podEvent c1 old v kind).1, kx.map Ev.replay ++ (podEvent c1 old v kind).2 ++ []) ∧
      kind ≠ .del ∧ (∀ o, old = some o → findPod c.pods v.ns v.name = some o) := by
    unfold podEvOf
    cases hfo : findPod c.pods v.ns v.name with
    | none =>
      refine ⟨none, .add, [], ?_, by simp, by simp⟩
      simp [runEvents, handle, hfind]
    | some o =>
      obtain ⟨kx, hkx, _⟩ := idReplays_eq c1 o v
      refine ⟨some o, .upd, kx, ?_, by simp, by simp⟩
      simp [runEvents, handle, hfind, hkx]
  obtain ⟨old, kind, kx, hrun, hkind, hold⟩ := hev
  have hnr : NoRecompute c1 old v := by
    cases old with
    | none => exact Or.inl rfl
    | some o =>
      have hfo := hold o rfl
      unfold PodGood at hgood
      rw [hfo] at hgood
      exact hgood.1
  obtain ⟨ks0, hR0, heff, _, herased⟩ := podEvent_eff c1 old v kind hnr
  have hrunAll : runAll c1 [podEvOf c v] = (runEvents (podEvent c1 old v kind).1 ((kx ++ ks0).map Ev.replay)).1 := by
    show (runEvents (runEvents c1 _).1 (runEvents c1 _).2).1 = _
    rw [hrun]
    simp only [List.append_nil]
    rw [List.map_append, hR0]
  show ResyncSound (runAll c1 _)
  rw [hrunAll]
  generalize hc2 : (podEvent c1 old v kind).1 = c2 at *
  apply replays_sound (kx ++ ks0) c2 _ (hwf.of_stores heff.slices heff.svcs heff.pods)
  intro a k h
  have h1 : setContains c.resync a k = true := heff.sub a k h
  obtain ⟨x, hx, hxk, hxa⟩ := hs a k h1
  rw [heff.slices, heff.pods]
  refine ⟨x, hx, hxk, ?_⟩
  obtain ⟨hsv, ea, hea, hea2, tns, tn, htg, hmiss⟩ := parked_vis_gone c.pods x a hxa
  apply parked_vis_of_gone c1.pods x a hwf.podNameInj
  refine ⟨hsv, ea, hea, hea2, tns, tn, htg, ?_⟩
  by_cases hsame : tns = v.ns ∧ tn = v.name
  · rw [hsame.1, hsame.2]
    intro p hp
    rw [hfind] at hp
    injection hp with hp
    rw [← hp]
    apply Classical.byContradiction
    intro hvip
    exfalso
    rw [hsame.1, hsame.2] at hmiss htg
    have hav : ea.2 = v.ip := by
      unfold PodGood at hgood
      cases hfo : findPod c.pods v.ns v.name with
      | none =>
        rw [hfo] at hgood
        cases hgood with
        | inl hz => exact absurd hz hvip
        | inr hall => exact hall x hx ea hea htg
      | some o =>
        rw [hfo] at hgood
        exact hgood.2.2 (hmiss o hfo) hvip x hx ea hea htg
    have := herased hkind hvip k
    rw [← hav, hea2, h] at this
    cases this
  · intro p hp
    rw [hother tns tn hsame] at hp
    exact hmiss p hp

/-- a pod leaves the store (delete or eviction): registrations stay sound - whatever waited still waits -/
theorem pod_removed_sound (c : Ctl) (ns name : String) (evp : Pod) (hs : ResyncSound c) (hwf : WF c) :
    ResyncSound (runAll { c with pods := c.pods.filter (fun x => !(x.ns = ns ∧ x.name = name)) } [.podDel evp]) := by
  · let c1 : Ctl := { c with pods := c.pods.filter (fun x => !(x.ns = ns ∧ x.name = name)) }
    have hwf1 : WF c1 := by
      refine ⟨hwf.sliceEntryInj, hwf.sliceKeyInj, hwf.sliceNameInj, hwf.svcHostInj, hwf.svcNameInj, hwf.sliceSvc, ?_⟩
      intro a ha b hb
      exact hwf.podNameInj a (List.mem_filter.mp ha).1 b (List.mem_filter.mp hb).1
    have hother : ∀ tns tn, ¬ (tns = ns ∧ tn = name) → findPod c1.pods tns tn = findPod c.pods tns tn := by
      intro tns tn hne
      show (c.pods.filter (fun x => !(decide (x.ns = ns ∧ x.name = name)))).find? _ = c.pods.find? _
      apply find_filter_other (fun (x : Pod) => decide (x.ns = ns ∧ x.name = name))
      intro x hx
      simp only [decide_eq_true_eq] at hx
      simp only [Bool.decide_and, Bool.and_eq_false_iff, decide_eq_false_iff_not]
      by_cases h1 : x.ns = tns
      · right; intro h2; exact hne ⟨h1.symm.trans hx.1, h2.symm.trans hx.2⟩
      · left; exact h1
    have hgone : findPod c1.pods ns name = none := by
      show (c.pods.filter (fun x => !(decide (x.ns = ns ∧ x.name = name)))).find? _ = none
      rw [List.find?_eq_none]
      intro x hx
      have := (List.mem_filter.mp hx).2
      simp only [Bool.not_eq_true', decide_eq_false_iff_not] at this
      simpa using this
    obtain ⟨ks, hR, heff, _, _⟩ := podEvent_eff c1 none evp .del (Or.inl rfl)
    have hrunAll : runAll c1 [Ev.podDel evp] = (runEvents (podEvent c1 none evp .del).1 (ks.map Ev.replay)).1 := by
      show (runEvents (runEvents c1 _).1 (runEvents c1 _).2).1 = _
      simp only [runEvents, handle, List.append_nil]
      rw [hR]
    show ResyncSound (runAll c1 _)
    rw [hrunAll]
    generalize hc2 : (podEvent c1 none evp .del).1 = c2 at *
    apply replays_sound ks c2 _ (hwf1.of_stores heff.slices heff.svcs heff.pods)
    intro a k h
    obtain ⟨x, hx, hxk, hxa⟩ := hs a k (heff.sub a k h)
    rw [heff.slices, heff.pods]
    refine ⟨x, hx, hxk, ?_⟩
    obtain ⟨hsv, ea, hea, hea2, tns, tn, htg, hmiss⟩ := parked_vis_gone c.pods x a hxa
    apply parked_vis_of_gone c1.pods x a hwf1.podNameInj
    refine ⟨hsv, ea, hea, hea2, tns, tn, htg, ?_⟩
    intro p hp
    by_cases hsame : tns = ns ∧ tn = name
    · rw [hsame.1, hsame.2, hgone] at hp; cases hp
    · rw [hother tns tn hsame] at hp; exact hmiss p hp

theorem pod_delete_sound (c : Ctl) (ns name : String) (c' : Ctl) (hstep : stepC c (.delPod ns name) = some c')
    (hs : ResyncSound c) (hwf : WF c) : ResyncSound c' := by
  simp only [stepC] at hstep
  cases hfo : findPod c.pods ns name with
  | none => rw [hfo] at hstep; cases hstep
  | some o =>
    rw [hfo] at hstep
    simp only [Option.map, Option.some.injEq] at hstep
    subst hstep
    exact pod_removed_sound c ns name o hs hwf

theorem pod_evict_sound (c : Ctl) (v : Pod) (c' : Ctl) (hph : v.phase = "F") (hstep : stepC c (.pod v) = some c')
    (hs : ResyncSound c) (hwf : WF c) : ResyncSound c' := by
  simp only [stepC, hph, if_true] at hstep
  cases hfo : findPod c.pods v.ns v.name with
  | none => rw [hfo] at hstep; cases hstep
  | some o =>
    rw [hfo] at hstep
    simp only [Option.map, Option.some.injEq] at hstep
    subst hstep
    exact pod_removed_sound c v.ns v.name v hs hwf

/-! ### label edit: `recomputeServiceForPod` only adds registrations of waiting addresses -/

theorem rebuildSlice_sound (c : Ctl) (sl : Slice) (hsl : sl ∈ c.slices) (hs : ResyncSound c) :
    ResyncSound (rebuildSlice c sl.host sl) ∧ (rebuildSlice c sl.host sl).slices = c.slices ∧
    (rebuildSlice c sl.host sl).pods = c.pods := by
  unfold rebuildSlice
  cases buildSlice c.pods c.nodes c.byIP (alookup sl.host c.smap) sl with
  | none => exact ⟨hs, rfl, rfl⟩
  | some eps =>
    refine ⟨?_, rfl, rfl⟩
    intro a k h
    have h' : setContains ((parkedAddrs c.pods sl).foldl (fun m a => setInsert m a sl.key) c.resync) a k = true := h
    rw [foldl_setInsert_contains] at h'
    simp only [Bool.or_eq_true, Bool.and_eq_true, decide_eq_true_eq, beq_iff_eq] at h'
    cases h' with
    | inl h1 => exact hs a k h1
    | inr h1 => exact ⟨sl, hsl, h1.2.symm, parkedAddrs_vis _ _ _ h1.1⟩

theorem rebuildService_sound (c : Ctl) (sv : Svc) (hs : ResyncSound c) :
    ResyncSound (refreshIndex (rebuildService c sv) sv) := by
  have hf := refreshIndex_fields (rebuildService c sv) sv
  have hmain : ∀ (l : List Slice) (c : Ctl), (∀ sl ∈ l, sl ∈ c.slices ∧ sl.host = sv.host) → ResyncSound c →
      ResyncSound (l.foldl (fun s sl => rebuildSlice s sv.host sl) c) := by
    intro l
    induction l with
    | nil => intro c _ hs; exact hs
    | cons sl t ih =>
      intro c hl hs
      simp only [List.foldl_cons]
      have h1 := hl sl (by simp)
      have hr := rebuildSlice_sound c sl h1.1 hs
      rw [h1.2] at hr
      apply ih _ _ hr.1
      intro x hx
      have := hl x (List.mem_cons_of_mem _ hx)
      rw [hr.2.1]
      exact this
  have hl : ∀ sl ∈ svcSlices c sv, sl ∈ c.slices ∧ sl.host = sv.host := by
    intro sl hsl
    unfold svcSlices at hsl
    have := List.mem_filter.mp hsl
    simp only [Bool.decide_and, Bool.and_eq_true, decide_eq_true_eq] at this
    exact ⟨this.1, by simp [Slice.host, Svc.host, this.2.1, this.2.2]⟩
  have hr := hmain (svcSlices c sv) c hl hs
  intro a k h
  rw [hf.2.2.2.2.2.2.2.1] at h
  rw [hf.1, hf.2.2.1]
  exact hr a k h

theorem recompute_fold_sound (l : List Svc) (c : Ctl) (hs : ResyncSound c) :
    ResyncSound (l.foldl recomputeStep c) := by
  induction l generalizing c with
  | nil => exact hs
  | cons sv t ih =>
    simp only [List.foldl_cons]
    apply ih
    unfold recomputeStep
    split
    · exact hs
    · exact rebuildService_sound c _ hs

theorem pod_label_edit_sound (c : Ctl) (v : Pod) (c' : Ctl) (hph : v.phase ≠ "F") (hstep : stepC c (.pod v) = some c')
    (hs : ResyncSound c) (hwf : WF { c with pods := upsertBy (fun x => x.ns = v.ns ∧ x.name = v.name) v c.pods })
    (hgood : PodLabelGood c v) : ResyncSound c' := by
  rw [stepC_pod c v hph] at hstep
  simp only [Option.some.injEq] at hstep
  subst hstep
  let c1 : Ctl := { c with pods := upsertBy (fun x => x.ns = v.ns ∧ x.name = v.name) v c.pods }
  have hfind : findPod c1.pods v.ns v.name = some v := by
    apply find_upsertBy
    simp
  have hother : ∀ tns tn, ¬ (tns = v.ns ∧ tn = v.name) → findPod c1.pods tns tn = findPod c.pods tns tn := by
    intro tns tn hne
    apply find_upsertBy_other
    · simp only [Bool.decide_and, Bool.and_eq_false_iff, decide_eq_false_iff_not]
      by_cases h1 : v.ns = tns
      · right; intro h2; exact hne ⟨h1.symm, h2.symm⟩
      · left; exact h1
    · intro x hx
      simp only [Bool.decide_and, Bool.and_eq_true, decide_eq_true_eq] at hx
      simp only [Bool.decide_and, Bool.and_eq_false_iff, decide_eq_false_iff_not]
      by_cases h1 : x.ns = tns
      · right; intro h2; exact hne ⟨(hx.1.symm.trans h1).symm, (hx.2.symm.trans h2).symm⟩
      · left; exact h1
  unfold PodLabelGood at hgood
  cases hfo : findPod c.pods v.ns v.name with
  | none => rw [hfo] at hgood; exact absurd hgood (fun h => h)
  | some o =>
    rw [hfo] at hgood
    obtain ⟨hch, hsa, hnode, hip, hok, hcached, hnowait, _, hoip, hwl⟩ := hgood
    have hrun : runAll c1 [podEvOf c v] = recompute c1 v := by
      have hev : podEvOf c v = Ev.podUpd o v := by unfold podEvOf; rw [hfo]
      have htw : takeWaiting c1 v.ip = (c1, []) := by
        unfold takeWaiting
        show (match alookup v.ip c.resync with | none => (c1, []) | some keys => _) = _
        rw [hnowait]
      have hpe : podEvent c1 (some o) v .upd = (recompute c1 v, []) := by
        unfold podEvent
        simp only [hip, if_false, reduceCtorEq, htw, hok, Bool.not_true, Bool.false_eq_true, List.nil_append]
        unfold addPod
        have : setContains c1.byIP v.ip v.key = true := hcached
        rw [if_pos this, hch]
        simp
      rw [hev]
      have hid : idReplays c1 o v = [] := by
        unfold idReplays idChanged
        simp [hsa, hnode, hwl]
      simp [runAll, runEvents, handle, hfind, hpe, hid]
    show ResyncSound (runAll c1 _)
    rw [hrun, recompute_eq]
    apply recompute_fold_sound
    intro a k h
    obtain ⟨x, hx, hxk, hxa⟩ := hs a k h
    refine ⟨x, hx, hxk, ?_⟩
    show a ∈ parkedAddrs (visPods c1.pods) x
    obtain ⟨hsv, ea, hea, hea2, tns, tn, htg, hmiss⟩ := parked_vis_gone c.pods x a hxa
    apply parked_vis_of_gone c1.pods x a hwf.podNameInj
    refine ⟨hsv, ea, hea, hea2, tns, tn, htg, ?_⟩
    intro p hp
    by_cases hsame : tns = v.ns ∧ tn = v.name
    · rw [hsame.1, hsame.2] at hmiss
      exact absurd (hmiss o hfo) hoip
    · rw [hother tns tn hsame] at hp; exact hmiss p hp

/-! ### Service and Node writes do not touch `needResync`, slices or pods -/

theorem svc_write_sound (c : Ctl) (v : Svc) (c' : Ctl) (hstep : stepC c (.svc v) = some c')
    (hconv : convNs c.nss v = v) (hs : ResyncSound c) : ResyncSound c' := by
  simp only [stepC, Option.some.injEq] at hstep
  subst hstep
  let c1 : Ctl := { c with svcs := upsertBy (fun x => x.ns = v.ns ∧ x.name = v.name) v c.svcs }
  have hfind : findSvc c1.svcs v.ns v.name = some v := by
    apply find_upsertBy
    simp
  have hfin : ResyncSound (serviceUpsert c1 v) := by
    unfold serviceUpsert
    have hf := refreshIndex_fields { c1 with smap := aset v.host v c1.smap } v
    intro a k h
    rw [hf.2.2.2.2.2.2.2.1] at h
    rw [hf.1, hf.2.2.1]
    exact hs a k h
  cases hfo : findSvc c.svcs v.ns v.name with
  | none =>
    show ResyncSound (runAll c1 [Ev.svcAdd v])
    have hc1 : convNs c1.nss v = v := hconv
    have : runAll c1 [Ev.svcAdd v] = serviceUpsert c1 v := by simp [runAll, runEvents, handle, hfind, hc1]
    rw [this]; exact hfin
  | some o =>
    show ResyncSound (runAll c1 [Ev.svcUpd o v])
    have hc1 : convNs c1.nss v = v := hconv
    have : runAll c1 [Ev.svcUpd o v] = serviceUpsert c1 v := by simp [runAll, runEvents, handle, hfind, hc1]
    rw [this]; exact hfin

theorem svc_delete_sound (c : Ctl) (ns name : String) (c' : Ctl) (hstep : stepC c (.delSvc ns name) = some c')
    (hs : ResyncSound c) : ResyncSound c' := by
  simp only [stepC] at hstep
  cases hfo : findSvc c.svcs ns name with
  | none => rw [hfo] at hstep; cases hstep
  | some o =>
    rw [hfo] at hstep
    simp only [Option.map, Option.some.injEq] at hstep
    subst hstep
    have : ∀ c1 : Ctl, runAll c1 [Ev.svcDel o] = serviceDelete c1 o := by
      intro c1; simp [runAll, runEvents, handle]
    rw [this]
    exact hs

end IstioModel.C15
