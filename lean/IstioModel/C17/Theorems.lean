import IstioModel.C17.Lemmas
import IstioModel.C17.Monitor

/-!
C17 - the obligations (the only counted module; definitions and helper lemmas are in Sort.lean and
Lemmas.lean, the pre-repair behaviour in Unfixed.lean).

What is proved, clause by clause of the property statement:
* "Ties between objects of equal age are broken by a total, stable rule": `cmp_total_*` - each modelled
  comparator is a strict total order on a stated key (or a witness that it is not: `cmp_witness_*`),
  and `*_canonical`: therefore EVERY sort routine (any ordered permutation - stable or not, any Go
  release) returns the same list for every permutation of an input with pairwise distinct keys.
* "regardless of the order in which the objects were created or listed, of map iteration order": for the
  modelled folds over Go maps (`fold_perm_*`) and for six small models of real generation pipelines
  (`Deterministic ...`: service index, shared-address virtual hosts, ClusterLoadAssignment, EnvoyFilter
  order, TrafficExtension order, DestinationRule merge) the output is the same for every permutation of
  the listing / every enumeration of the map.  Each model is tied to the real functions by an op of
  stream `cmp`.
  HOW MUCH THESE SAY.  Every pipeline sorts first and folds afterwards, and every `*_deterministic`
  theorem is a COROLLARY OF SORT CANONICITY: it rewrites the sorted list and never looks at the fold, so
  it would hold for any fold placed after the sort.  What they establish is that the comparator in front
  of the fold leaves no tie on the stated key.  What the fold itself computes is stated separately, where
  there is a fold worth the name: `serviceIndex_winner` (P1: which service wins a hostname),
  `vipOwners_spec` / `vipOwners_owner_least` (P2: which virtual host keeps a shared address),
  `mergedFor_src` / `mergedFor_policy` / `mergedFor_subset_owner` (P6: merge order, first traffic policy
  wins, first definition of a subset wins).  P3 groups by locality (`fold_perm_groupByLocality`); P4 and P5
  are two sorts in a row and have no fold beyond concatenation and filtering.
* NOT proved (explored by stream `perm`): that every other path of the real generators has this shape;
  "which control-plane instance or process performs it" (two processes are compared, nothing is proved
  about Go's runtime); byte-level protobuf marshalling.
-/
namespace IstioModel.C17

/-- Determinism of a generator over listings: every permutation of a valid listing gives the same output. -/
def Deterministic {α β : Type} (gen : List α → β) (valid : List α → Prop) : Prop :=
  ∀ l₁ l₂ : List α, valid l₁ → l₁.Perm l₂ → gen l₁ = gen l₂

/-! ### Generic: any sort routine is canonical under a total comparator -/

/-- An ordered permutation is unique as soon as distinct members are comparable. -/
theorem sorted_perm_unique {α : Type} (lt : α → α → Bool) (l₁ l₂ : List α) (p : l₁.Perm l₂)
    (s₁ : l₁.Pairwise (fun a b => lt b a = false)) (s₂ : l₂.Pairwise (fun a b => lt b a = false))
    (tot : ∀ a b, a ∈ l₁ → b ∈ l₁ → a ≠ b → lt a b = true ∨ lt b a = true) : l₁ = l₂ :=
  sorted_perm_unique_aux lt l₁ l₂ p s₁ s₂ tot

/-- **Canonical ordering.** For every sort routine (`IsSort`: any function returning an ordered
    permutation), if distinct members of the input are comparable, the result is the same for every
    permutation of the input. -/
theorem sort_canonical {α : Type} {lt : α → α → Bool} {sort : List α → List α} (hs : IsSort lt sort)
    {l₁ l₂ : List α} (tot : ∀ a b, a ∈ l₁ → b ∈ l₁ → a ≠ b → lt a b = true ∨ lt b a = true)
    (p : l₁.Perm l₂) : sort l₁ = sort l₂ :=
  sort_canonical_aux hs tot p

/-- Two different sort routines (stable / unstable, two releases of the Go runtime) agree as well. -/
theorem sort_routine_irrelevant {α : Type} {lt : α → α → Bool} {s₁ s₂ : List α → List α}
    (h₁ : IsSort lt s₁) (h₂ : IsSort lt s₂) {l₁ l₂ : List α}
    (tot : ∀ a b, a ∈ l₁ → b ∈ l₁ → a ≠ b → lt a b = true ∨ lt b a = true)
    (p : l₁.Perm l₂) : s₁ l₁ = s₂ l₂ :=
  sort_routine_irrelevant_aux h₁ h₂ tot p

/-- Key form: `cmp` a strict total order on `key`, keys pairwise distinct. -/
theorem sort_canonical_key {α κ : Type} {cmp : α → α → Ordering} {key : α → κ}
    (h : TotalOnKey cmp key) {sort : List α → List α} (hs : IsSort (ltOf cmp) sort)
    {l₁ l₂ : List α} (hd : KeysDistinct key l₁) (p : l₁.Perm l₂) : sort l₁ = sort l₂ :=
  sort_canonical_key_aux h hs hd p

/-- The reference sort of the driver (stable insertion sort) is a sort routine. -/
theorem isort_isSort {α : Type} {lt : α → α → Bool} (w : WeakOrder lt) : IsSort lt (isort lt) :=
  isort_isSort_aux w

/-- A tie between two different objects: a stable sort returns them in input order. -/
theorem tie_depends_on_input_order {α : Type} (lt : α → α → Bool) (a b : α)
    (h₁ : lt a b = false) (h₂ : lt b a = false) :
    isort lt [a, b] = [a, b] ∧ isort lt [b, a] = [b, a] :=
  tie_depends_on_input_order_aux lt a b h₁ h₂

/-- Selecting the best entry of a map by a rule that is total on the entries is independent of the
    enumeration of the map. -/
theorem argBest_perm {α : Type} {lt : α → α → Bool} (w : WeakOrder lt) {l₁ l₂ : List α}
    (tot : ∀ a b, a ∈ l₁ → b ∈ l₁ → a ≠ b → lt a b = true ∨ lt b a = true)
    (p : l₁.Perm l₂) : argBest lt l₁ = argBest lt l₂ :=
  argBest_perm_aux w tot p

/-! ### model.SortServicesByCreationTime                                             (op `svc`) -/

def Svc.key (s : Svc) : Nat × String × String × String × String × String :=
  (s.time, s.name, s.ns, s.objName, s.host, s.addr)

/-- The comparator is a strict total order on (time, name, namespace, object name, hostname, address). -/
theorem cmp_total_services : TotalOnKey svcCmp Svc.key :=
  (natCmp_total Svc.time).lex ((strCmp_total Svc.name).lex ((strCmp_total Svc.ns).lex
    ((strCmp_total Svc.objName).lex ((strCmp_total Svc.host).lex (strCmp_total Svc.addr)))))

/-- Any sort routine, any two listings of the same services: the same order - provided no two
    different services share the whole key (evaluated on every real listing by the harness). -/
theorem sortServices_canonical {sort : List Svc → List Svc} (hs : IsSort (ltOf svcCmp) sort)
    {l₁ l₂ : List Svc} (hd : KeysDistinct Svc.key l₁) (p : l₁.Perm l₂) : sort l₁ = sort l₂ :=
  sort_canonical_key_aux cmp_total_services hs hd p

theorem sortServicesByCreationTime_perm : Deterministic sortServicesByCreationTime (KeysDistinct Svc.key) :=
  fun _ _ hd p => sortServices_canonical (isort_isSort_aux cmp_total_services.weakOrder) hd p

/-! ### sortConfigByCreationTime, sortMergedVirtualServicesByCreationTime           (op `cfg`) -/

theorem cmp_total_configByCreationTime :
    TotalOnKey cfgCmp (fun c : Cfg => (c.time, c.name, c.ns)) :=
  (natCmp_total Cfg.time).lex ((strCmp_total Cfg.name).lex (strCmp_total Cfg.ns))

/-- "Oldest first, then name, then namespace" decides between any two objects of one kind. -/
theorem tie_rule_total (a b : Cfg) (h : (a.name, a.ns) ≠ (b.name, b.ns)) :
    ltOf cfgCmp a b = true ∨ ltOf cfgCmp b a = true :=
  cmp_total_configByCreationTime.comparable (fun e => h (congrArg Prod.snd e))

theorem sortConfig_canonical {sort : List Cfg → List Cfg} (hs : IsSort (ltOf cfgCmp) sort)
    {l₁ l₂ : List Cfg} (hd : NamesDistinct l₁) (p : l₁.Perm l₂) : sort l₁ = sort l₂ :=
  sort_canonical_key_aux cmp_total_configByCreationTime hs (keysDistinct_of_names hd) p

theorem sortConfigByCreationTime_perm : Deterministic sortConfigByCreationTime NamesDistinct :=
  fun _ _ hd p => sortConfig_canonical (isort_isSort_aux cmp_total_configByCreationTime.weakOrder) hd p

/-- Across kinds the key is not unique: two objects of different kinds with the same name, namespace
    and age tie (the function is only called on lists of one kind). -/
theorem cmp_witness_configByCreationTime :
    let a : Cfg := { id := 0, time := 1, name := "x", ns := "default", sel := false, kind := "VirtualService" }
    let b : Cfg := { id := 0, time := 1, name := "x", ns := "default", sel := false, kind := "DestinationRule" }
    a ≠ b ∧ cfgCmp a b = .eq ∧ cfgCmp b a = .eq := by decide

/-! ### Gateway API conversion: sortConfigByCreationTime / sortRoutesByCreationTime  (op `gwcfg`) -/

theorem cmp_total_gatewayConfigs :
    TotalOnKey gwCfgCmp (fun c : Cfg => (c.time, c.ns, c.name)) :=
  (natCmp_total Cfg.time).lex ((strCmp_total Cfg.ns).lex (strCmp_total Cfg.name))

theorem sortGatewayConfigs_perm : Deterministic sortGatewayConfigs NamesDistinct :=
  fun _ _ hd p => sort_canonical_key_aux cmp_total_gatewayConfigs (isort_isSort_aux cmp_total_gatewayConfigs.weakOrder)
    (fun a b ha hb hne e => hd a b ha hb hne (by
      have h1 : a.ns = b.ns := congrArg (fun k => k.2.1) e
      have h2 : a.name = b.name := congrArg (fun k => k.2.2) e
      simp [h1, h2])) p

/-! ### sortConfigBySelectorAndCreationTime                                          (op `dr`) -/

theorem cmp_total_configBySelector :
    TotalOnKey drCmp (fun c : Cfg => (c.sel, c.time, c.name, c.ns)) :=
  (selCmp_total.lex cmp_total_configByCreationTime).congr (fun a b => (drCmp_eq a b).symm)

theorem sortConfigBySelector_canonical {sort : List Cfg → List Cfg} (hs : IsSort (ltOf drCmp) sort)
    {l₁ l₂ : List Cfg} (hd : NamesDistinct l₁) (p : l₁.Perm l₂) : sort l₁ = sort l₂ :=
  sort_canonical_key_aux cmp_total_configBySelector hs
    (fun a b ha hb hne e => hd a b ha hb hne (congrArg (fun k => k.2.2) e)) p

theorem sortConfigBySelectorAndCreationTime_perm :
    Deterministic sortConfigBySelectorAndCreationTime NamesDistinct :=
  fun _ _ hd p => sortConfigBySelector_canonical (isort_isSort_aux cmp_total_configBySelector.weakOrder) hd p

/-- Non-vacuity: three DestinationRules of equal age, one with a selector. -/
example :
    let a : Cfg := { id := 0, time := 1, name := "b", ns := "default", sel := false }
    let b : Cfg := { id := 1, time := 1, name := "a", ns := "ns1", sel := false }
    let c : Cfg := { id := 2, time := 1, name := "z", ns := "default", sel := true }
    sortConfigBySelectorAndCreationTime [a, b, c] = [c, b, a] ∧
    sortConfigBySelectorAndCreationTime [b, c, a] = [c, b, a] := by decide

/-! ### model.SortWorkloadsByCreationTime                                            (op `wl`) -/

theorem cmp_total_workloads : TotalOnKey (cmpOfLess wlLess) (fun w : Wl => (w.time, w.uid)) :=
  ((natCmp_total Wl.time).lex (strCmp_total Wl.uid)).congr (fun a b => (wlLess_eq a b).symm)

theorem sortWorkloads_canonical {sort : List Wl → List Wl} (hs : IsSort wlLess sort) {l₁ l₂ : List Wl}
    (hd : KeysDistinct (fun w : Wl => w.uid) l₁) (p : l₁.Perm l₂) : sort l₁ = sort l₂ :=
  sort_canonical_less_aux cmp_total_workloads hs
    (fun a b ha hb hne e => hd a b ha hb hne (congrArg Prod.snd e)) p

theorem sortWorkloadsByCreationTime_perm :
    Deterministic sortWorkloadsByCreationTime (KeysDistinct (fun w : Wl => w.uid)) :=
  fun _ _ hd p => sortWorkloads_canonical (isort_isSort_less_aux cmp_total_workloads) hd p

/-! ### EndpointShards.Keys                                                          (op `keys`) -/

theorem cmp_total_shardKeys :
    TotalOnKey (cmpOfLess shardLess) (fun k : ShardKey => (k.provider, k.cluster)) :=
  ((strCmp_total ShardKey.provider).lex (strCmp_total ShardKey.cluster)).congr (fun a b => (shardLess_eq a b).symm)

/-- Any sort routine, any enumeration of the `Shards` map: the same key list. -/
theorem shardKeys_canonical {sort : List ShardKey → List ShardKey} (hs : IsSort shardLess sort)
    {l₁ l₂ : List ShardKey} (p : l₁.Perm l₂) : sort l₁ = sort l₂ :=
  sort_canonical_less_aux cmp_total_shardKeys hs (keysDistinct_of_injective _ shardKey_injective l₁) p

theorem fold_perm_shardKeys {l₁ l₂ : List ShardKey} (p : l₁.Perm l₂) : shardKeys l₁ = shardKeys l₂ := by
  unfold shardKeys
  have hl := p.length_eq
  by_cases h : l₁.length ≥ 2
  · have h2 : l₂.length ≥ 2 := by omega
    simp only [h, h2, if_true]
    exact shardKeys_canonical (isort_isSort_less_aux cmp_total_shardKeys) p
  · have h2 : ¬ l₂.length ≥ 2 := by omega
    simp only [h, h2, if_false]
    exact perm_short_eq p (by omega)

/-! ### sets.SortedList, sort.Strings, slices.Sort on strings                        (op `set`) -/

theorem cmp_total_strings : TotalOnKey (cmpOfLess strLess) (fun s : String => s) :=
  (strCmp_total (fun s : String => s)).congr (fun a b => (cmpOfLess_str (fun s : String => s) a b).symm)

theorem sortedList_canonical {sort : List String → List String} (hs : IsSort strLess sort)
    {l₁ l₂ : List String} (p : l₁.Perm l₂) : sort l₁ = sort l₂ :=
  sort_canonical_less_aux cmp_total_strings hs (keysDistinct_of_injective _ (fun _ _ h => h) l₁) p

theorem fold_perm_sortedList {l₁ l₂ : List String} (p : l₁.Perm l₂) : sortedList l₁ = sortedList l₂ :=
  sortedList_canonical (isort_isSort_less_aux cmp_total_strings) p

/-- `pickFirstVisibleNamespace` (feature flag off): independent of the iteration order of `byNamespace`. -/
theorem fold_perm_pickFirst {l₁ l₂ : List String} (p : l₁.Perm l₂) : pickFirst l₁ = pickFirst l₂ := by
  unfold pickFirst
  rw [fold_perm_sortedList p]

/-! ### EndpointBuilder.generate: localities                                         (op `eds`) -/

/-- The locality groups do not depend on the iteration order of `localityEpMap`. -/
theorem fold_perm_groupByLocality (eps : List Ep) {e₁ e₂ : List String} (p : e₁.Perm e₂) :
    groupByLocality eps e₁ = groupByLocality eps e₂ := by
  unfold groupByLocality
  have hl := p.length_eq
  by_cases h : e₁.length ≥ 2
  · have h2 : e₂.length ≥ 2 := by omega
    simp only [h, h2, if_true]
    rw [fold_perm_sortedList p]
  · have h2 : ¬ e₂.length ≥ 2 := by omega
    simp only [h, h2, if_false]
    rw [perm_short_eq p (by omega)]

/-! ### PushOrder, watchedResourcesByOrder                                           (op `push`) -/

theorem pushOrder_nodup : pushOrder.Nodup := by decide

/-- The types listed in `PushOrder` are pushed in that order whatever the map iteration order. -/
theorem fold_perm_watched_known {l₁ l₂ : List String} (p : l₁.Perm l₂) :
    pushOrder.filter (fun t => l₁.contains t) = pushOrder.filter (fun t => l₂.contains t) := by
  apply List.filter_congr
  intro t _
  have : (t ∈ l₁) ↔ (t ∈ l₂) := p.mem_iff
  by_cases h : t ∈ l₁
  · simp [h, this.1 h]
  · have h2 : t ∉ l₂ := fun x => h (this.2 x)
    simp [h, h2]

/-- With at most one watched type outside `PushOrder` the whole order is canonical. -/
theorem fold_perm_watchedByOrder {l₁ l₂ : List String} (p : l₁.Perm l₂)
    (h : (l₁.filter (fun t => !pushOrder.contains t)).length < 2) :
    watchedByOrder l₁ = watchedByOrder l₂ := by
  rw [watchedByOrder_shape, watchedByOrder_shape, fold_perm_watched_known p,
    perm_short_eq (p.filter _) h]

/-- Two watched types outside `PushOrder` (ECDS and NDS are not listed) are pushed in map order -
    as the comment on `PushOrder` says ("pushed in random order after the types listed here"). -/
theorem watchedByOrder_tail_witness :
    watchedByOrder ["CDS", "NDS", "ECDS"] ≠ watchedByOrder ["ECDS", "CDS", "NDS"] := by decide

/-! ### TranslateRouteMatch                                                          (op `hdr`) -/

theorem cmp_total_headerName : TotalOnKey (cmpOfLess mtLess) (fun m : Mt => m.name) :=
  (strCmp_total (fun m : Mt => m.name)).congr (fun a b => (cmpOfLess_str (fun m : Mt => m.name) a b).symm)

/-- The header-name comparator alone is not total on matchers: a name present in both `headers`
    and `withoutHeaders` gives two matchers that tie (hence the stable sort over a canonical input). -/
theorem cmp_witness_headerName :
    let a : Mt := { name := "x-a", invert := false, m := 1 }
    let b : Mt := { name := "x-a", invert := true, m := 2 }
    a ≠ b ∧ mtLess a b = false ∧ mtLess b a = false := by decide

/-- The generated match does not depend on the iteration order of the three maps of the
    `HTTPMatchRequest`. -/
theorem fold_perm_translateMatch {i j : MatchIn}
    (hh : MapKeys i.headers) (hw : MapKeys i.without) (hq : MapKeys i.query)
    (ph : i.headers.Perm j.headers) (pw : i.without.Perm j.without) (pq : i.query.Perm j.query)
    (hm : i.method = j.method) (ha : i.authority = j.authority) (hs : i.scheme = j.scheme) :
    translateMatch i = translateMatch j := by
  unfold translateMatch
  rw [byKey_perm hh ph, byKey_perm hw pw, byKey_perm hq pq]
  cases i; cases j; simp_all

/-! ### pickBestVisibleNamespace                                                     (op `pick`) -/

/-- `betterVisibleService` is a strict total order on (Kubernetes?, age of a non-Kubernetes service,
    namespace). -/
theorem cmp_total_better :
    TotalOnKey betterCmp (fun s : NsSvc => (s.kube, effTime s, s.ns)) :=
  kubeCmp_total.lex ((natCmp_total effTime).lex (strCmp_total NsSvc.ns))

/-- The picked namespace does not depend on the iteration order of `byNamespace` (its keys are the
    namespaces: distinct entries have distinct namespaces). -/
theorem fold_perm_pickBest : Deterministic pickBest (KeysDistinct (fun s : NsSvc => s.ns)) := by
  intro l₁ l₂ hd p
  unfold pickBest
  have e : better = ltOf betterCmp := by funext a b; exact better_eq a b
  have w : WeakOrder better := by rw [e]; exact cmp_total_better.weakOrder
  have tot : ∀ a b, a ∈ l₁ → b ∈ l₁ → a ≠ b → better a b = true ∨ better b a = true := by
    intro a b ha hb hne
    rw [e]
    exact cmp_total_better.comparable (fun k => hd a b ha hb hne (congrArg (fun k => k.2.2) k))
  rw [argBest_perm_aux w tot p]

/-! ### endpointSliceCache.get                                                       (op `slices`) -/

theorem cmp_total_sliceName : TotalOnKey (cmpOfLess sliceLess) (fun s : Slice => s.name) :=
  (strCmp_total (fun s : Slice => s.name)).congr (fun a b => (cmpOfLess_str (fun s : Slice => s.name) a b).symm)

/-- The endpoints of a service do not depend on the iteration order of its slices (slice names are
    map keys). -/
theorem fold_perm_sliceEndpoints : Deterministic sliceEndpoints (KeysDistinct (fun s : Slice => s.name)) := by
  intro l₁ l₂ hd p
  unfold sliceEndpoints
  rw [sort_canonical_less_aux cmp_total_sliceName (isort_isSort_less_aux cmp_total_sliceName) hd p]

/-! ### inbound cluster ports (C17-7), outbound listener keys (C17-8)                (ops `inb`, `lst`) -/

theorem cmp_total_ports : TotalOnKey (cmpOfLess natLessB) (fun n : Nat => n) :=
  (natCmp_total (fun n : Nat => n)).congr (fun a b => (cmpOfLess_nat (fun n : Nat => n) a b).symm)

theorem fold_perm_sortedPorts {l₁ l₂ : List Nat} (p : l₁.Perm l₂) : sortedPorts l₁ = sortedPorts l₂ :=
  sort_canonical_less_aux cmp_total_ports (isort_isSort_less_aux cmp_total_ports)
    (keysDistinct_of_injective _ (fun _ _ h => h) l₁) p

theorem cmp_total_listenerKeys : TotalOnKey (cmpOfLess lkeyLess) (fun k : LKey => (k.bind, k.port)) :=
  ((strCmp_total LKey.bind).lex (natCmp_total LKey.port)).congr (fun a b => (lkeyLess_eq a b).symm)

theorem fold_perm_sortedLKeys {l₁ l₂ : List LKey} (p : l₁.Perm l₂) : sortedLKeys l₁ = sortedLKeys l₂ :=
  sort_canonical_less_aux cmp_total_listenerKeys (isort_isSort_less_aux cmp_total_listenerKeys)
    (keysDistinct_of_injective _ (fun a b h => by cases a; cases b; simp at h; simp [h]) l₁) p

/-! ### P1: services -> ServiceIndex                                                  (ops `sidx`, `alias`) -/

/-- **Pipeline P1 is deterministic**: every listing of the same services (no two sharing the whole
    comparator key) gives the same `ServiceIndex.HostnameAndNamespace`.  (Corollary of sort canonicity; the
    fold is specified by `serviceIndex_winner`.) -/
theorem serviceIndex_deterministic : Deterministic serviceIndex (KeysDistinct Svc.key) := by
  intro l₁ l₂ hd p
  unfold serviceIndex
  rw [sortServicesByCreationTime_perm l₁ l₂ hd p]

/-- ... and what it holds is the specified winner: for every (hostname, namespace), the first
    Kubernetes service among its claimants in the canonical order, else the first claimant. -/
theorem serviceIndex_winner (listing : List Svc) (k : SKey) :
    idxLookup k (serviceIndex listing) =
      winnerOf ((sortServicesByCreationTime listing).filter (fun s => s.skey = k)) := by
  unfold serviceIndex
  have := indexFold_lookup k (sortServicesByCreationTime listing) [] [] (fun k' => by simp [idxLookup, winnerOf_nil])
  simpa using this

/-- Non-vacuity: two ServiceEntries and a Kubernetes service claim one host in one namespace; the
    Kubernetes service wins although it is the youngest; any listing gives the same index. -/
example :
    let a : Svc := { id := 0, time := 1, name := "h.example.com", ns := "default", objName := "se-b", host := "h.example.com", addr := "0.0.0.0" }
    let b : Svc := { a with id := 1, objName := "se-a" }
    let c : Svc := { a with id := 2, time := 9, name := "h", objName := "", kube := true }
    (idxLookup ("h.example.com", "default") (serviceIndex [a, b, c])).map (·.id) = some 2 ∧
    (idxLookup ("h.example.com", "default") (serviceIndex [a, b])).map (·.id) = some 1 ∧
    serviceIndex [c, a, b] = serviceIndex [b, c, a] := by decide

theorem cmp_total_aliases : TotalOnKey (cmpOfLess aliasLess) (fun a : String × String => a) :=
  ((strCmp_total (fun a : String × String => a.1)).lex (strCmp_total (fun a : String × String => a.2))).congr
    (fun a b => (aliasLess_eq a b).symm)

/-- The aliases of a service do not depend on the iteration order of the `resolvedAliases` map. -/
theorem fold_perm_sortAliases {l₁ l₂ : List (String × String)} (p : l₁.Perm l₂) : sortAliases l₁ = sortAliases l₂ :=
  sort_canonical_less_aux cmp_total_aliases (isort_isSort_less_aux cmp_total_aliases)
    (keysDistinct_of_injective _ (fun _ _ h => h) l₁) p

/-! ### P2: which virtual host owns a shared address (C17-4); routeCache.Services     (op `vh`) -/

theorem cmp_total_vsvcHost : TotalOnKey (cmpOfLess vsvcLess) (fun s : VSvc => s.host) :=
  (strCmp_total (fun s : VSvc => s.host)).congr (fun a b => (cmpOfLess_str (fun s : VSvc => s.host) a b).symm)

/-- **Pipeline P2 is deterministic**: hostnames are the keys of the `serviceRegistry` map; every
    enumeration of the map leaves a shared address with the same virtual host.  (Corollary of sort
    canonicity; the fold is specified by `vipOwners_spec`.) -/
theorem vipOwners_deterministic : Deterministic vipOwners (KeysDistinct (fun s : VSvc => s.host)) := by
  intro l₁ l₂ hd p
  unfold vipOwners
  rw [sort_canonical_less_aux cmp_total_vsvcHost (isort_isSort_less_aux cmp_total_vsvcHost) hd p]

/-- ... and what the fold computes is the specified owner: a virtual host keeps its service's address iff the
    address is not empty and the service is the first, in hostname order, of the services with that address.
    (This is about `claimVips`, the fold after the sort - `vipOwners_deterministic` alone would hold for any fold.) -/
theorem vipOwners_spec (enum : List VSvc) (nd : (enum.map (·.host)).Nodup) :
    vipOwners enum = (isort vsvcLess enum).map (fun s => (s.host, keepsVip [] (isort vsvcLess enum) s)) := by
  unfold vipOwners
  exact claimVips_spec _ [] (((isort_perm vsvcLess enum).map _).nodup_iff.2 nd)

/-- The first claimant in hostname order is the claimant with the least hostname: no service with the same
    address has a smaller hostname than the owner. -/
theorem vipOwners_owner_least (enum : List VSvc) (v h : String)
    (e : firstClaimant v (isort vsvcLess enum) = some h) : ∀ s ∈ enum, s.vip = v → ¬ s.host < h := by
  intro s hs hv
  exact firstClaimant_least v _ h ((isort_isSort_less_aux cmp_total_vsvcHost).sorted enum) e s
    ((isort_perm vsvcLess enum).mem_iff.2 hs) hv

/-- Non-vacuity: three hosts of one ServiceEntry share its address, a fourth has its own; the least hostname keeps
    the shared address whatever the enumeration. -/
example :
    let a : VSvc := { host := "ext2.example.com", vip := "240.240.0.1" }
    let b : VSvc := { host := "api.example.com", vip := "240.240.0.1" }
    let c : VSvc := { host := "db.example.com", vip := "240.240.0.1" }
    let d : VSvc := { host := "www.example.com", vip := "240.240.0.9" }
    vipOwners [a, b, c, d] = [("api.example.com", true), ("db.example.com", false), ("ext2.example.com", false), ("www.example.com", true)] ∧
    vipOwners [d, c, a, b] = vipOwners [a, b, c, d] := by decide +kernel

/-- `<=` used as `less` (httproute.go) is not a strict order ... -/
theorem le_as_less_witness : hostLeLess "a.example.com" "a.example.com" = true := by decide

/-- ... but the hostnames are the keys of a map, and on pairwise different strings it sorts exactly
    as `<` does: `routeCache.Services` is canonical (not a defect; observed on real route cache keys
    by `perm` key `RKEY`). -/
theorem routeCacheServices_eq_sorted {l : List String} (nd : l.Nodup) : routeCacheServices l = sortedList l := by
  unfold routeCacheServices sortedList
  apply isort_congr_nodup
  · exact nd
  · intro a b _ _ hne
    unfold hostLeLess strLess
    rcases str_trichotomy a b with ⟨h1, h2, _⟩ | h | ⟨h1, h2, _⟩
    · have : a ≤ b := String.not_lt.1 h2
      simp [h1, this]
    · exact absurd h hne
    · have : ¬ a ≤ b := fun hle => h2 (by
        rcases str_trichotomy a b with ⟨x, _, _⟩ | x | ⟨_, _, x3⟩
        · exact x
        · exact absurd x hne
        · exact absurd (String.le_antisymm hle (String.not_lt.1 h2)) x3)
      simp [h2, this]

theorem routeCacheServices_deterministic : Deterministic routeCacheServices List.Nodup := by
  intro l₁ l₂ nd p
  rw [routeCacheServices_eq_sorted nd, routeCacheServices_eq_sorted (p.nodup_iff.1 nd), fold_perm_sortedList p]

/-! ### P3: endpoint shards -> ClusterLoadAssignment                                  (op `eds`) -/

/-- Shard keys are the keys of the `Shards` map. -/
def ShardsValid (shards : List (ShardKey × List Ep)) : Prop := (shards.map (·.1)).Nodup

theorem claEndpoints_deterministic : Deterministic claEndpoints ShardsValid := by
  intro s₁ s₂ nd p
  unfold claEndpoints
  have pl := p.filter (fun s : ShardKey × List Ep => !s.2.isEmpty)
  have nd₁ : ((s₁.filter (fun s => !s.2.isEmpty)).map (·.1)).Nodup :=
    List.Nodup.sublist ((List.filter_sublist).map _) nd
  have nd₂ : ((s₂.filter (fun s => !s.2.isEmpty)).map (·.1)).Nodup :=
    (pl.map _).nodup_iff.1 nd₁
  dsimp only
  rw [fold_perm_shardKeys (pl.map (·.1))]
  congr 1
  funext k
  have pk := pl.filter (fun s : ShardKey × List Ep => s.1 = k)
  rw [perm_short_eq pk (filter_key_length_le_one k _ nd₁)]

/-- **Pipeline P3 is deterministic**: every enumeration of the `Shards` map and of `localityEpMap`
    gives the same ClusterLoadAssignment (order of localities, order of endpoints inside them).  (Sort
    canonicity of the shard keys and of the locality names, plus: a map has one shard per key.) -/
theorem cla_deterministic {s₁ s₂ : List (ShardKey × List Ep)} {e₁ e₂ : List String}
    (nd : ShardsValid s₁) (p : s₁.Perm s₂) (pe : e₁.Perm e₂) :
    clusterLoadAssignment s₁ e₁ = clusterLoadAssignment s₂ e₂ := by
  unfold clusterLoadAssignment
  rw [claEndpoints_deterministic s₁ s₂ nd p, fold_perm_groupByLocality _ pe]

/-- Non-vacuity: two shards, three localities. -/
example :
    let k1 : ShardKey := { cluster := "c1", provider := "Kubernetes" }
    let k2 : ShardKey := { cluster := "c2", provider := "External" }
    clusterLoadAssignment [(k1, [⟨0, "r2"⟩, ⟨1, "r1/z1"⟩]), (k2, [⟨2, "r2"⟩, ⟨3, ""⟩])] ["r2", "r1/z1", ""] =
      [("", [3]), ("r1/z1", [1]), ("r2", [2, 0])] ∧
    clusterLoadAssignment [(k2, [⟨2, "r2"⟩, ⟨3, ""⟩]), (k1, [⟨0, "r2"⟩, ⟨1, "r1/z1"⟩])] ["", "r2", "r1/z1"] =
      [("", [3]), ("r1/z1", [1]), ("r2", [2, 0])] := by decide

/-! ### P4: EnvoyFilter listing -> order of application                               (op `ef`) -/

/-- `sortEnvoyFilters` is a strict total order on (priority, creation time, name) - names are unique
    within the namespace it is applied to. -/
theorem cmp_total_envoyFilters : TotalOnKey efCmp (fun f : EF => (f.prio, f.time, f.name)) :=
  (intCmp_total EF.prio).lex ((natCmp_total EF.time).lex (strCmp_total EF.name))

/-- The second comparator (`PushContext.EnvoyFilters`) is NOT total: it compares `time.Time` structs
    with `!=`, so the same instant in two representations skips the name tie-break and ties. -/
theorem cmp_witness_envoyFilterMergeLess :
    let a : EF := { id := 0, ns := "default", name := "a", prio := 0, time := 5, zone := 0 }
    let b : EF := { id := 1, ns := "default", name := "b", prio := 0, time := 5, zone := 1 }
    a ≠ b ∧ efMergeLess "istio-system" a b = false ∧ efMergeLess "istio-system" b a = false := by decide

/-- EnvoyFilters are unique by (namespace, name). -/
def EFValid (l : List EF) : Prop := KeysDistinct (fun f : EF => (f.ns, f.name)) l

theorem efPerNs_deterministic (ns : String) {l₁ l₂ : List EF} (hd : EFValid l₁) (p : l₁.Perm l₂) :
    isort (ltOf efCmp) (l₁.filter (fun f => f.ns = ns)) = isort (ltOf efCmp) (l₂.filter (fun f => f.ns = ns)) := by
  apply sort_canonical_key_aux cmp_total_envoyFilters (isort_isSort_aux cmp_total_envoyFilters.weakOrder)
  · intro a b ha hb hne e
    have ha' := List.mem_filter.1 ha
    have hb' := List.mem_filter.1 hb
    have hna : a.ns = ns := by simpa using ha'.2
    have hnb : b.ns = ns := by simpa using hb'.2
    have hn : a.name = b.name := congrArg (fun k => k.2.2) e
    exact hd a b ha'.1 hb'.1 hne (by simp [hna, hnb, hn])
  · exact p.filter _

/-- **Pipeline P4 is deterministic** - although its second comparator is not total: its input is the
    canonical concatenation of the per-namespace lists, and a sort routine is a function.  (Corollary of sort
    canonicity of the FIRST sort only.  The second sort is modelled by the stable `isort`; the real one is
    `sort.Slice`, which is not stable above 12 elements: where `efMergeLess` ties - the same instant in two
    representations, `cmp_witness_envoyFilterMergeLess` - the model and the real code may order differently
    while each is deterministic.  Stream `cmp` therefore emits listings of more than 12 filters only without
    such ties.) -/
theorem envoyFilterOrder_deterministic (root proxyNs : String) :
    Deterministic (envoyFilterOrder root proxyNs) EFValid := by
  intro l₁ l₂ hd p
  unfold envoyFilterOrder
  simp only
  rw [efPerNs_deterministic root hd p, efPerNs_deterministic proxyNs hd p]

/-! ### P5: TrafficExtension listing -> order per phase                               (op `te`) -/

theorem cmp_total_trafficExtensionByCreationTime : TotalOnKey teCmp (fun t : TE => (t.time, t.name, t.ns)) :=
  (natCmp_total TE.time).lex ((strCmp_total TE.name).lex (strCmp_total TE.ns))

/-- `sortByPriority` orders by priority only: extensions of equal priority tie and keep their input
    order (`sort.SliceStable`) - which is the canonical creation-time order. -/
theorem cmp_witness_trafficExtensionPriority :
    let a : TE := { id := 0, time := 1, name := "a", ns := "default", prio := some 1, phase := 0 }
    let b : TE := { id := 1, time := 2, name := "b", ns := "default", prio := some 1, phase := 0 }
    a ≠ b ∧ tePrioLess a b = false ∧ tePrioLess b a = false := by decide

def TEValid (l : List TE) : Prop := KeysDistinct (fun t : TE => (t.name, t.ns)) l

/-- **Pipeline P5 is deterministic.**  (Corollary of sort canonicity of the creation-time sort; the priority
    sort after it is `sort.SliceStable`, modelled by the stable `isort`.) -/
theorem trafficExtensions_deterministic (root proxyNs : String) (phase : Nat) :
    Deterministic (fun l => trafficExtensions root proxyNs l phase) TEValid := by
  intro l₁ l₂ hd p
  unfold trafficExtensions
  simp only
  rw [sort_canonical_key_aux cmp_total_trafficExtensionByCreationTime
    (isort_isSort_aux cmp_total_trafficExtensionByCreationTime.weakOrder)
    (fun a b ha hb hne e => hd a b ha hb hne (congrArg Prod.snd e)) p]

/-! ### P6: DestinationRule listing -> the merged rule of one host                     (op `drm`) -/

theorem cmp_total_destinationRules :
    TotalOnKey drRuleCmp (fun d : DRule => (d.cfg.sel, d.cfg.time, d.cfg.name, d.cfg.ns)) :=
  ⟨fun a b => cmp_total_configBySelector.eq_iff a.cfg b.cfg, fun a b => cmp_total_configBySelector.swap a.cfg b.cfg,
   fun a b c => cmp_total_configBySelector.trans a.cfg b.cfg c.cfg⟩

/-- DestinationRules are unique by (name, namespace). -/
def RulesDistinct (l : List DRule) : Prop := KeysDistinct (fun d : DRule => (d.cfg.name, d.cfg.ns)) l

/-- The merge order of the rules of one host does not depend on the listing (a corollary of sort canonicity). -/
theorem mergeGroup_deterministic (ns host : String) : Deterministic (mergeGroup ns host) RulesDistinct := by
  intro l₁ l₂ hd p
  unfold mergeGroup drLess
  rw [sort_canonical_key_aux cmp_total_destinationRules (isort_isSort_aux cmp_total_destinationRules.weakOrder)
    (fun a b ha hb hne e => hd a b ha hb hne (congrArg (fun k => k.2.2) e)) p]

/-- **Pipeline P6 is deterministic** (again by sort canonicity; what the fold does is in the three theorems below). -/
theorem mergedFor_deterministic (ns host : String) : Deterministic (mergedFor ns host) RulesDistinct := by
  intro l₁ l₂ hd p
  unfold mergedFor
  rw [mergeGroup_deterministic ns host l₁ l₂ hd p]

/-- The fold, part 1: `from` lists the rules of the host in merge order (oldest first; name, namespace on ties). -/
theorem mergedFor_src (ns host : String) (listing : List DRule) (h : mergeGroup ns host listing ≠ []) :
    (mergedFor ns host listing).map (·.src) = some ((mergeGroup ns host listing).map (·.cfg.id)) := by
  unfold mergedFor mergeFold
  cases hg : mergeGroup ns host listing with
  | nil => exact absurd hg h
  | cons d r =>
    rw [List.foldl_cons]
    show (r.foldl mergeStep (some _)).map (·.src) = _
    rw [mergeFold_src_aux]
    simp

/-- The fold, part 2: the top-level traffic policy is the one of the first rule in merge order that has one
    ("so if two destination rule have top level traffic policies we take the first one"). -/
theorem mergedFor_policy (ns host : String) (listing : List DRule) (h : mergeGroup ns host listing ≠ []) :
    (mergedFor ns host listing).map (·.policy) = some (firstPolicy (mergeGroup ns host listing)) := by
  unfold mergedFor mergeFold
  cases hg : mergeGroup ns host listing with
  | nil => exact absurd hg h
  | cons d r =>
    rw [List.foldl_cons]
    show (r.foldl mergeStep (some _)).map (·.policy) = _
    rw [mergeFold_policy_aux]
    simp [firstPolicy]

/-- The fold, part 3: a subset name resolves to the subset of the first rule in merge order that defines it. -/
theorem mergedFor_subset_owner (ns host s : String) (listing : List DRule) :
    (mergedFor ns host listing).bind (fun m => lookupOwner s m.subsets) = firstWithSubset s (mergeGroup ns host listing) := by
  unfold mergedFor mergeFold
  cases hg : mergeGroup ns host listing with
  | nil => simp [firstWithSubset]
  | cons d r =>
    rw [List.foldl_cons]
    show (r.foldl mergeStep (some _)).bind (fun m => lookupOwner s m.subsets) = _
    rw [mergeFold_owner_aux]
    have := lookupOwner_new s d.cfg.id [] rfl d.subsets
    have hf : d.subsets.filter (fun x => !([] : List String).contains x) = d.subsets :=
      List.filter_eq_self.2 (fun x _ => by simp)
    rw [hf] at this
    show (lookupOwner s (d.subsets.map (fun s => (s, d.cfg.id)))).or _ = _
    rw [this]
    by_cases hc : s ∈ d.subsets
    · simp [hc, firstWithSubset]
    · simp [hc, firstWithSubset]

/-- Non-vacuity: three rules for one host (and one for another host): the oldest has no traffic policy, the two
    younger ones tie on age; subsets overlap. Every listing gives the same merged rule. -/
example :
    let mk (i t : Nat) (n h : String) (ss : List String) (p : String) : DRule :=
      { cfg := { id := i, time := t, name := n, ns := "default", sel := false }, host := h, subsets := ss, policy := p }
    let a := mk 0 1 "z-oldest" "ext1.example.com" ["v1"] ""
    let b := mk 1 2 "b" "ext1.example.com" ["v1", "v2"] "100"
    let c := mk 2 2 "a" "ext1.example.com" ["v3", "v2"] "200"
    let d := mk 3 0 "other" "ext2.example.com" ["v1"] "300"
    mergedFor "default" "ext1.example.com" [a, b, c, d] =
      some { src := [0, 2, 1], subsets := [("v1", 0), ("v3", 2), ("v2", 2)], policy := "200" } ∧
    mergedFor "default" "ext1.example.com" [d, c, b, a] = mergedFor "default" "ext1.example.com" [a, b, c, d] ∧
    mergedFor "ns1" "ext1.example.com" [a, b, c, d] = none := by decide +kernel

/-! ### The monitor of the permutation harness                                        (stream `mon`) -/

/-- The monitor accepts exactly when all runs produced the same digest.  (This is an equality check;
    the digests themselves - sha256 over the serialized resources - are computed by unverified Go.) -/
theorem allEqualB_iff (l : List String) : allEqualB l = true ↔ ∀ x ∈ l, ∀ y ∈ l, x = y := by
  cases l with
  | nil => simp [allEqualB]
  | cons d ds =>
    simp only [allEqualB, List.all_eq_true, beq_iff_eq]
    constructor
    · intro h x hx y hy
      have hx' : x = d := by
        rcases List.mem_cons.1 hx with e | e
        · exact e
        · exact h x e
      have hy' : y = d := by
        rcases List.mem_cons.1 hy with e | e
        · exact e
        · exact h y e
      rw [hx', hy']
    · intro h x hx
      exact h x (List.mem_cons_of_mem _ hx) d (List.mem_cons_self)

end IstioModel.C17
