import IstioModel.C17.Sort
import IstioModel.C17.Monitor

/-!
C17 - the property theorems.

For every comparator of the anchored code: `cmp_total_<name>` (a strict total order on the stated
key) and `<name>_canonical` (hence every Go sort routine returns the same list for every permutation
of an input with distinct keys), or a witness that it is not (`..._witness`): two different objects
that tie, so that a stable sort returns them in input order.  For every fold over a Go map:
`fold_perm_<name>` - the result is invariant under permutation of the enumeration of the map - and
for the folds of the pinned tree that were not, a `..._witness_unfixed` (replayed on the real code by
the witness corpus of stream `perm`, see notes/C17.md).  `allEqualB_iff` is the soundness and
completeness of the monitor run over the observations of the permutation harness.
-/
namespace IstioModel.C17

/-! ### model.SortServicesByCreationTime -/

def Svc.key (s : Svc) : Nat × String × String × String × String × String :=
  (s.time, s.name, s.ns, s.objName, s.host, s.addr)

/-- The repaired comparator is a strict total order on (time, name, namespace, object name,
    hostname, address). -/
theorem cmp_total_services : TotalOnKey svcCmp Svc.key :=
  (natCmp_total Svc.time).lex ((strCmp_total Svc.name).lex ((strCmp_total Svc.ns).lex
    ((strCmp_total Svc.objName).lex ((strCmp_total Svc.host).lex (strCmp_total Svc.addr)))))

/-- Any sort routine, any two listings of the same services: the same order - provided no two
    different services share the whole key (one Service per (ServiceEntry, host, address), one per
    Kubernetes service). -/
theorem sortServices_canonical {sort : List Svc → List Svc} (hs : IsSort (ltOf svcCmp) sort)
    {l₁ l₂ : List Svc} (hd : KeysDistinct Svc.key l₁) (p : l₁.Perm l₂) : sort l₁ = sort l₂ :=
  sort_canonical_key cmp_total_services hs hd p

theorem sortServicesByCreationTime_perm {l₁ l₂ : List Svc} (hd : KeysDistinct Svc.key l₁)
    (p : l₁.Perm l₂) : sortServicesByCreationTime l₁ = sortServicesByCreationTime l₂ :=
  sortServices_canonical (isort_isSort cmp_total_services.weakOrder) hd p

/-- The comparator of the pinned tree is total only on (time, name, namespace). -/
theorem cmp_total_services_unfixed :
    TotalOnKey svcCmpUnfixed (fun s : Svc => (s.time, s.name, s.ns)) :=
  (natCmp_total Svc.time).lex ((strCmp_total Svc.name).lex (strCmp_total Svc.ns))

/-- The two services of a ServiceEntry `se` in `default` with host `ext1.example.com` and two addresses. -/
def witnessSvcA : Svc :=
  { id := 0, time := 5, name := "ext1.example.com", ns := "default", objName := "se", host := "ext1.example.com", addr := "240.240.0.1" }
def witnessSvcB : Svc := { witnessSvcA with id := 1, addr := "240.241.0.1" }

/-- Finding C17-2 (DESIGN F9 confirmed): under the comparator of the pinned tree two different
    services tie, and the stable sort returns them in the order the registry listed them. -/
theorem cmp_witness_services_unfixed :
    witnessSvcA ≠ witnessSvcB ∧
    svcCmpUnfixed witnessSvcA witnessSvcB = .eq ∧ svcCmpUnfixed witnessSvcB witnessSvcA = .eq ∧
    sortServicesUnfixed [witnessSvcA, witnessSvcB] = [witnessSvcA, witnessSvcB] ∧
    sortServicesUnfixed [witnessSvcB, witnessSvcA] = [witnessSvcB, witnessSvcA] := by
  decide

/-- The repaired comparator orders the same two services one way whatever the listing. -/
example : sortServicesByCreationTime [witnessSvcB, witnessSvcA] = [witnessSvcA, witnessSvcB] ∧
    sortServicesByCreationTime [witnessSvcA, witnessSvcB] = [witnessSvcA, witnessSvcB] := by decide

example : KeysDistinct Svc.key [witnessSvcA, witnessSvcB] := by
  intro a b ha hb hne
  simp at ha hb
  rcases ha with rfl | rfl <;> rcases hb with rfl | rfl <;> first | exact absurd rfl hne | decide

/-! ### sortConfigByCreationTime (also sortMergedVirtualServicesByCreationTime) -/

theorem cmp_total_configByCreationTime :
    TotalOnKey cfgCmp (fun c : Cfg => (c.time, c.name, c.ns)) :=
  (natCmp_total Cfg.time).lex ((strCmp_total Cfg.name).lex (strCmp_total Cfg.ns))

/-- `tie_rule_total`: "oldest first, then name, then namespace" decides between any two objects of
    one kind (which differ in name or namespace). -/
theorem tie_rule_total (a b : Cfg) (h : (a.name, a.ns) ≠ (b.name, b.ns)) :
    ltOf cfgCmp a b = true ∨ ltOf cfgCmp b a = true :=
  cmp_total_configByCreationTime.comparable (fun e => h (by
    have := congrArg Prod.snd e
    exact this))

/-- Objects of one kind are unique by (name, namespace). -/
def NamesDistinct (l : List Cfg) : Prop := KeysDistinct (fun c : Cfg => (c.name, c.ns)) l

theorem keysDistinct_of_names {l : List Cfg} (h : NamesDistinct l) :
    KeysDistinct (fun c : Cfg => (c.time, c.name, c.ns)) l :=
  fun a b ha hb hne e => h a b ha hb hne (congrArg Prod.snd e)

theorem sortConfig_canonical {sort : List Cfg → List Cfg} (hs : IsSort (ltOf cfgCmp) sort)
    {l₁ l₂ : List Cfg} (hd : NamesDistinct l₁) (p : l₁.Perm l₂) : sort l₁ = sort l₂ :=
  sort_canonical_key cmp_total_configByCreationTime hs (keysDistinct_of_names hd) p

theorem sortConfigByCreationTime_perm {l₁ l₂ : List Cfg} (hd : NamesDistinct l₁) (p : l₁.Perm l₂) :
    sortConfigByCreationTime l₁ = sortConfigByCreationTime l₂ :=
  sortConfig_canonical (isort_isSort cmp_total_configByCreationTime.weakOrder) hd p

/-- Across kinds the key is not unique: two objects of different kinds with the same name, namespace
    and age tie (the function is only called on lists of one kind). -/
theorem cmp_witness_configByCreationTime :
    let a : Cfg := { id := 0, time := 1, name := "x", ns := "default", sel := false }
    let b : Cfg := { id := 1, time := 1, name := "x", ns := "default", sel := false }
    a ≠ b ∧ cfgCmp a b = .eq ∧ cfgCmp b a = .eq := by decide

/-! ### sortConfigBySelectorAndCreationTime -/

def selCmp (a b : Cfg) : Ordering :=
  if a.sel && !b.sel then .lt else if !a.sel && b.sel then .gt else .eq

theorem selCmp_total : TotalOnKey selCmp Cfg.sel := by
  constructor
  · intro a b; unfold selCmp; cases a.sel <;> cases b.sel <;> simp
  · intro a b; unfold selCmp; cases a.sel <;> cases b.sel <;> simp [Ordering.swap]
  · intro a b c; unfold selCmp; cases a.sel <;> cases b.sel <;> cases c.sel <;> simp

theorem drCmp_eq (a b : Cfg) : drCmp a b = andThen (selCmp a b) (cfgCmp a b) := by
  unfold drCmp selCmp cfgCmp
  cases a.sel <;> cases b.sel <;> simp [andThen]

/-- Rules with a workload selector first, then oldest, name, namespace: total on that key. -/
theorem cmp_total_configBySelector :
    TotalOnKey drCmp (fun c : Cfg => (c.sel, c.time, c.name, c.ns)) :=
  (selCmp_total.lex cmp_total_configByCreationTime).congr (fun a b => (drCmp_eq a b).symm)

theorem sortConfigBySelector_canonical {sort : List Cfg → List Cfg} (hs : IsSort (ltOf drCmp) sort)
    {l₁ l₂ : List Cfg} (hd : NamesDistinct l₁) (p : l₁.Perm l₂) : sort l₁ = sort l₂ :=
  sort_canonical_key cmp_total_configBySelector hs
    (fun a b ha hb hne e => hd a b ha hb hne (congrArg (fun k => k.2.2) e)) p

theorem sortConfigBySelectorAndCreationTime_perm {l₁ l₂ : List Cfg} (hd : NamesDistinct l₁)
    (p : l₁.Perm l₂) :
    sortConfigBySelectorAndCreationTime l₁ = sortConfigBySelectorAndCreationTime l₂ :=
  sortConfigBySelector_canonical (isort_isSort cmp_total_configBySelector.weakOrder) hd p

/-- Non-vacuity: three DestinationRules of equal age, one with a selector. -/
example :
    let a : Cfg := { id := 0, time := 1, name := "b", ns := "default", sel := false }
    let b : Cfg := { id := 1, time := 1, name := "a", ns := "ns1", sel := false }
    let c : Cfg := { id := 2, time := 1, name := "z", ns := "default", sel := true }
    sortConfigBySelectorAndCreationTime [a, b, c] = [c, b, a] ∧
    sortConfigBySelectorAndCreationTime [b, c, a] = [c, b, a] := by decide

/-! ### model.SortWorkloadsByCreationTime -/

theorem wlLess_eq (a b : Wl) :
    cmpOfLess wlLess a b = andThen (natCmp a.time b.time) (strCmp a.uid b.uid) := by
  unfold cmpOfLess wlLess natCmp strCmp
  by_cases h1 : a.time < b.time
  · have h2 : a.time ≠ b.time := by omega
    simp [h1, h2, andThen]
  · by_cases h2 : a.time = b.time
    · rcases str_trichotomy a.uid b.uid with ⟨c1, c2, c3⟩ | c | ⟨c1, c2, c3⟩
      · simp [h2, c1, andThen]
      · simp [h2, c, String.lt_irrefl, andThen]
      · simp [h2, c1, c2, c3, andThen]
    · have h3 : b.time < a.time := by omega
      have h4 : b.time ≠ a.time := by omega
      simp [h1, h2, h3, h4, andThen]

/-- Workloads are ordered by (creation time, uid); the uid is unique. -/
theorem cmp_total_workloads : TotalOnKey (cmpOfLess wlLess) (fun w : Wl => (w.time, w.uid)) :=
  ((natCmp_total Wl.time).lex (strCmp_total Wl.uid)).congr (fun a b => (wlLess_eq a b).symm)

theorem sortWorkloads_canonical {sort : List Wl → List Wl} (hs : IsSort wlLess sort) {l₁ l₂ : List Wl}
    (hd : KeysDistinct (fun w : Wl => w.uid) l₁) (p : l₁.Perm l₂) : sort l₁ = sort l₂ :=
  sort_canonical_less cmp_total_workloads hs
    (fun a b ha hb hne e => hd a b ha hb hne (congrArg Prod.snd e)) p

theorem sortWorkloadsByCreationTime_perm {l₁ l₂ : List Wl}
    (hd : KeysDistinct (fun w : Wl => w.uid) l₁) (p : l₁.Perm l₂) :
    sortWorkloadsByCreationTime l₁ = sortWorkloadsByCreationTime l₂ :=
  sortWorkloads_canonical (isort_isSort_less cmp_total_workloads) hd p

/-! ### EndpointShards.Keys -/

theorem shardLess_eq (a b : ShardKey) :
    cmpOfLess shardLess a b = andThen (strCmp a.provider b.provider) (strCmp a.cluster b.cluster) := by
  unfold cmpOfLess shardLess strCmp
  rcases str_trichotomy a.provider b.provider with ⟨h1, h2, h3⟩ | h | ⟨h1, h2, h3⟩
  · have h3' : b.provider ≠ a.provider := fun e => h3 e.symm
    simp [h1, h3, andThen]
  · rcases str_trichotomy a.cluster b.cluster with ⟨c1, c2, c3⟩ | c | ⟨c1, c2, c3⟩
    · simp [h, c1, String.lt_irrefl, andThen]
    · simp [h, c, String.lt_irrefl, andThen]
    · simp [h, c1, c2, c3, String.lt_irrefl, andThen]
  · have h3' : b.provider ≠ a.provider := fun e => h3 e.symm
    simp [h1, h2, h3, h3', andThen]

theorem cmp_total_shardKeys :
    TotalOnKey (cmpOfLess shardLess) (fun k : ShardKey => (k.provider, k.cluster)) :=
  ((strCmp_total ShardKey.provider).lex (strCmp_total ShardKey.cluster)).congr (fun a b => (shardLess_eq a b).symm)

theorem shardKey_injective (a b : ShardKey) (h : (a.provider, a.cluster) = (b.provider, b.cluster)) :
    a = b := by
  cases a; cases b; simp at h; simp [h]

/-- Any sort routine, any enumeration of the `Shards` map: the same key list. -/
theorem shardKeys_canonical {sort : List ShardKey → List ShardKey} (hs : IsSort shardLess sort)
    {l₁ l₂ : List ShardKey} (p : l₁.Perm l₂) : sort l₁ = sort l₂ :=
  sort_canonical_less cmp_total_shardKeys hs (keysDistinct_of_injective _ shardKey_injective l₁) p

theorem fold_perm_shardKeys {l₁ l₂ : List ShardKey} (p : l₁.Perm l₂) : shardKeys l₁ = shardKeys l₂ := by
  unfold shardKeys
  have hl := p.length_eq
  by_cases h : l₁.length ≥ 2
  · have h2 : l₂.length ≥ 2 := by omega
    simp only [h, h2, if_true]
    exact shardKeys_canonical (isort_isSort_less cmp_total_shardKeys) p
  · have h2 : ¬ l₂.length ≥ 2 := by omega
    simp only [h, h2, if_false]
    exact perm_short_eq p (by omega)

/-! ### sets.SortedList, sort.Strings -/

theorem cmp_total_strings : TotalOnKey (cmpOfLess strLess) (fun s : String => s) :=
  (strCmp_total (fun s : String => s)).congr (fun a b => (cmpOfLess_str (fun s : String => s) a b).symm)

theorem sortedList_canonical {sort : List String → List String} (hs : IsSort strLess sort)
    {l₁ l₂ : List String} (p : l₁.Perm l₂) : sort l₁ = sort l₂ :=
  sort_canonical_less cmp_total_strings hs (keysDistinct_of_injective _ (fun _ _ h => h) l₁) p

theorem fold_perm_sortedList {l₁ l₂ : List String} (p : l₁.Perm l₂) : sortedList l₁ = sortedList l₂ :=
  sortedList_canonical (isort_isSort_less cmp_total_strings) p

/-! ### EndpointBuilder.generate: localities -/

/-- The locality groups do not depend on the iteration order of `localityEpMap`. -/
theorem fold_perm_groupByLocality (eps : List Ep) {e₁ e₂ : List String} (p : e₁.Perm e₂) :
    groupByLocality eps e₁ = groupByLocality eps e₂ := by
  unfold groupByLocality
  have hl := p.length_eq
  by_cases h : e₁.length ≥ 2
  · have h2 : e₂.length ≥ 2 := by omega
    simp only [h, h2, if_true]
    rw [fold_perm_sortedList p]
  · have h2 : ¬ e₂.length ≥ 2 := by omega
    simp only [h, h2, if_false]
    rw [perm_short_eq p (by omega)]

/-- Non-vacuity: endpoints arriving in shard order, three localities. -/
example : groupByLocality [⟨0, "r2"⟩, ⟨1, "r1/z1"⟩, ⟨2, "r2"⟩, ⟨3, ""⟩] ["r2", "r1/z1", ""] =
    [("", [3]), ("r1/z1", [1]), ("r2", [0, 2])] := by decide

/-! ### PushOrder, watchedResourcesByOrder -/

theorem pushOrder_nodup : pushOrder.Nodup := by decide

/-- The types listed in `PushOrder` are pushed in that order whatever the map iteration order. -/
theorem fold_perm_watched_known {l₁ l₂ : List String} (p : l₁.Perm l₂) :
    pushOrder.filter (fun t => l₁.contains t) = pushOrder.filter (fun t => l₂.contains t) := by
  apply List.filter_congr
  intro t _
  have : (t ∈ l₁) ↔ (t ∈ l₂) := p.mem_iff
  by_cases h : t ∈ l₁
  · simp [h, this.1 h]
  · have h2 : t ∉ l₂ := fun x => h (this.2 x)
    simp [h, h2]

/-- ... and all of them before any other type; the other types keep map order. -/
theorem watchedByOrder_shape (l : List String) :
    watchedByOrder l = pushOrder.filter (fun t => l.contains t) ++ l.filter (fun t => !pushOrder.contains t) := rfl

theorem watched_tail_perm {l₁ l₂ : List String} (p : l₁.Perm l₂) :
    (l₁.filter (fun t => !pushOrder.contains t)).Perm (l₂.filter (fun t => !pushOrder.contains t)) :=
  p.filter _

/-- With at most one watched type outside `PushOrder` the whole order is canonical. -/
theorem fold_perm_watchedByOrder {l₁ l₂ : List String} (p : l₁.Perm l₂)
    (h : (l₁.filter (fun t => !pushOrder.contains t)).length < 2) :
    watchedByOrder l₁ = watchedByOrder l₂ := by
  rw [watchedByOrder_shape, watchedByOrder_shape, fold_perm_watched_known p,
    perm_short_eq (watched_tail_perm p) h]

/-- Two watched types outside `PushOrder` (ECDS and NDS are not listed) are pushed in map order -
    as the comment on `PushOrder` says ("pushed in random order after the types listed here"). -/
theorem watchedByOrder_tail_witness :
    watchedByOrder ["CDS", "NDS", "ECDS"] ≠ watchedByOrder ["ECDS", "CDS", "NDS"] := by decide

/-! ### TranslateRouteMatch -/

theorem cmp_total_entries : TotalOnKey (cmpOfLess entryLess) (fun e : String × Nat => e.1) :=
  (strCmp_total (fun e : String × Nat => e.1)).congr
    (fun a b => (cmpOfLess_str (fun e : String × Nat => e.1) a b).symm)

/-- Keys of a Go map are distinct: entries with equal names are equal. -/
def MapKeys (l : List (String × Nat)) : Prop := KeysDistinct (fun e : String × Nat => e.1) l

theorem byKey_perm {l₁ l₂ : List (String × Nat)} (hd : MapKeys l₁) (p : l₁.Perm l₂) :
    byKey l₁ = byKey l₂ :=
  sort_canonical_less cmp_total_entries (isort_isSort_less cmp_total_entries) hd p

/-- The generated match does not depend on the iteration order of the three maps of the
    `HTTPMatchRequest` (repaired code). -/
theorem fold_perm_translateMatch {i j : MatchIn}
    (hh : MapKeys i.headers) (hw : MapKeys i.without) (hq : MapKeys i.query)
    (ph : i.headers.Perm j.headers) (pw : i.without.Perm j.without) (pq : i.query.Perm j.query)
    (hm : i.method = j.method) (ha : i.authority = j.authority) (hs : i.scheme = j.scheme) :
    translateMatch i = translateMatch j := by
  unfold translateMatch
  rw [byKey_perm hh ph, byKey_perm hw pw, byKey_perm hq pq]
  cases i; cases j; simp_all

/-- The header-name comparator alone is not total on matchers: a name present in both `headers`
    and `withoutHeaders` gives two matchers that tie (hence the stable sort over a canonical input). -/
theorem cmp_witness_headerName :
    let a : Mt := { name := "x-a", invert := false, m := 1 }
    let b : Mt := { name := "x-a", invert := true, m := 2 }
    a ≠ b ∧ mtLess a b = false ∧ mtLess b a = false := by decide

theorem cmp_total_headerName : TotalOnKey (cmpOfLess mtLess) (fun m : Mt => m.name) :=
  (strCmp_total (fun m : Mt => m.name)).congr (fun a b => (cmpOfLess_str (fun m : Mt => m.name) a b).symm)

/-- Finding C17-1: on the pinned tree two iteration orders of a two-key `queryParams` map (or of
    two JWT-claim headers) gave different routes. -/
theorem translateMatch_witness_unfixed :
    let i : MatchIn := { headers := [("@request.auth.claims.sub", 1), ("@request.auth.claims.iss", 2)], without := [],
                         query := [("q", 1), ("user", 2)], method := false, authority := false, scheme := false }
    let j : MatchIn := { i with headers := i.headers.reverse, query := i.query.reverse }
    (translateMatchUnfixed i).query ≠ (translateMatchUnfixed j).query ∧
    (translateMatchUnfixed i).dynMeta ≠ (translateMatchUnfixed j).dynMeta ∧
    translateMatch i = translateMatch j := by decide +kernel

/-! ### pickBestVisibleNamespace -/

def effTime (s : NsSvc) : Nat := if s.kube then 0 else s.time

def kubeCmp (a b : NsSvc) : Ordering :=
  if a.kube && !b.kube then .lt else if !a.kube && b.kube then .gt else .eq

theorem kubeCmp_total : TotalOnKey kubeCmp NsSvc.kube := by
  constructor
  · intro a b; unfold kubeCmp; cases a.kube <;> cases b.kube <;> simp
  · intro a b; unfold kubeCmp; cases a.kube <;> cases b.kube <;> simp [Ordering.swap]
  · intro a b c; unfold kubeCmp; cases a.kube <;> cases b.kube <;> cases c.kube <;> simp

def betterCmp (a b : NsSvc) : Ordering :=
  andThen (kubeCmp a b) (andThen (natCmp (effTime a) (effTime b)) (strCmp a.ns b.ns))

theorem better_eq (a b : NsSvc) : better a b = ltOf betterCmp a b := by
  unfold better ltOf betterCmp kubeCmp effTime natCmp strCmp
  cases ha : a.kube <;> cases hb : b.kube <;> simp [andThen]
  · by_cases h1 : a.time < b.time
    · have : a.time ≠ b.time := by omega
      simp [h1, this]
    · by_cases h2 : a.time = b.time
      · simp [h2]
        rcases str_trichotomy a.ns b.ns with ⟨c1, _, _⟩ | c | ⟨_, c2, c3⟩
        · simp [c1]
        · simp [c, String.lt_irrefl]
        · simp [c2, c3]
      · simp [h1, h2]
  · rcases str_trichotomy a.ns b.ns with ⟨c1, _, _⟩ | c | ⟨_, c2, c3⟩
    · simp [c1]
    · simp [c, String.lt_irrefl]
    · simp [c2, c3]

/-- `betterVisibleService` is a strict total order on (Kubernetes?, age of a non-Kubernetes service,
    namespace). -/
theorem cmp_total_better :
    TotalOnKey betterCmp (fun s : NsSvc => (s.kube, effTime s, s.ns)) :=
  kubeCmp_total.lex ((natCmp_total effTime).lex (strCmp_total NsSvc.ns))

/-- The keys of `byNamespace` are namespaces: distinct entries have distinct namespaces. -/
def NamespacesDistinct (l : List NsSvc) : Prop := KeysDistinct (fun s : NsSvc => s.ns) l

/-- The picked namespace does not depend on the iteration order of `byNamespace` (repaired code). -/
theorem fold_perm_pickBest {l₁ l₂ : List NsSvc} (hd : NamespacesDistinct l₁) (p : l₁.Perm l₂) :
    pickBest l₁ = pickBest l₂ := by
  unfold pickBest
  have e : better = ltOf betterCmp := by funext a b; exact better_eq a b
  have w : WeakOrder better := by rw [e]; exact cmp_total_better.weakOrder
  have tot : ∀ a b, a ∈ l₁ → b ∈ l₁ → a ≠ b → better a b = true ∨ better b a = true := by
    intro a b ha hb hne
    rw [e]
    exact cmp_total_better.comparable (fun k => hd a b ha hb hne (congrArg (fun k => k.2.2) k))
  rw [argBest_perm w tot p]

/-- Finding C17-5: on the pinned tree two equally old services of two namespaces (or two Kubernetes
    services) were picked by iteration order. -/
theorem pickBest_witness_unfixed :
    let a : NsSvc := { ns := "istio-system", kube := false, time := 1 }
    let b : NsSvc := { ns := "ns1", kube := false, time := 1 }
    let c : NsSvc := { ns := "ns2", kube := true, time := 3 }
    let d : NsSvc := { ns := "ns3", kube := true, time := 2 }
    pickBestUnfixed [a, b] ≠ pickBestUnfixed [b, a] ∧ pickBestUnfixed [c, d] ≠ pickBestUnfixed [d, c] ∧
    pickBest [a, b] = pickBest [b, a] ∧ pickBest [c, d] = pickBest [d, c] := by decide

/-- Where the old rule was decisive the repaired rule agrees with it: one Kubernetes service, or a
    strictly oldest non-Kubernetes service. -/
example :
    let a : NsSvc := { ns := "z", kube := false, time := 1 }
    let b : NsSvc := { ns := "a", kube := false, time := 2 }
    let k : NsSvc := { ns := "m", kube := true, time := 9 }
    pickBest [b, a] = "z" ∧ pickBestUnfixed [b, a] = "z" ∧ pickBest [a, b, k] = "m" ∧ pickBestUnfixed [a, b, k] = "m" := by
  decide

/-! ### endpointSliceCache.get -/

theorem cmp_total_sliceName : TotalOnKey (cmpOfLess sliceLess) (fun s : Slice => s.name) :=
  (strCmp_total (fun s : Slice => s.name)).congr (fun a b => (cmpOfLess_str (fun s : Slice => s.name) a b).symm)

/-- The endpoints of a service do not depend on the iteration order of its slices (repaired code);
    slice names are map keys. -/
theorem fold_perm_sliceEndpoints {l₁ l₂ : List Slice} (hd : KeysDistinct (fun s : Slice => s.name) l₁)
    (p : l₁.Perm l₂) : sliceEndpoints l₁ = sliceEndpoints l₂ := by
  unfold sliceEndpoints
  rw [sort_canonical_less cmp_total_sliceName (isort_isSort_less cmp_total_sliceName) hd p]

/-- Finding C17-3: on the pinned tree the order of the endpoints followed the iteration order. -/
theorem sliceEndpoints_witness_unfixed :
    let s1 : Slice := { name := "b-abc", eps := [("10.0.0.1", 1), ("10.0.0.2", 2)] }
    let s2 : Slice := { name := "b-xyz", eps := [("10.0.0.3", 3), ("10.0.0.1", 4)] }
    sliceEndpointsUnfixed [s1, s2] ≠ sliceEndpointsUnfixed [s2, s1] ∧
    sliceEndpoints [s1, s2] = sliceEndpoints [s2, s1] := by decide

/-! ### sorted walks over map keys introduced by the repairs -/

theorem cmp_total_ports : TotalOnKey (cmpOfLess natLessB) (fun n : Nat => n) :=
  (natCmp_total (fun n : Nat => n)).congr (fun a b => (cmpOfLess_nat (fun n : Nat => n) a b).symm)

/-- Inbound cluster ports (also: any `slices.Sort` over integer map keys). -/
theorem fold_perm_sortedPorts {l₁ l₂ : List Nat} (p : l₁.Perm l₂) : sortedPorts l₁ = sortedPorts l₂ :=
  sort_canonical_less cmp_total_ports (isort_isSort_less cmp_total_ports)
    (keysDistinct_of_injective _ (fun _ _ h => h) l₁) p

theorem lkeyLess_eq (a b : LKey) :
    cmpOfLess lkeyLess a b = andThen (strCmp a.bind b.bind) (natCmp a.port b.port) := by
  unfold cmpOfLess lkeyLess strCmp natCmp
  rcases str_trichotomy a.bind b.bind with ⟨h1, h2, h3⟩ | h | ⟨h1, h2, h3⟩
  · simp [h1, h3, andThen]
  · by_cases c1 : a.port < b.port
    · simp [h, c1, andThen]
    · by_cases c2 : a.port = b.port
      · simp [h, c2, andThen]
      · have c3 : b.port < a.port := by omega
        simp [h, c1, c2, c3, andThen]
  · have h3' : b.bind ≠ a.bind := fun e => h3 e.symm
    simp [h1, h2, h3, h3', andThen]

theorem cmp_total_listenerKeys : TotalOnKey (cmpOfLess lkeyLess) (fun k : LKey => (k.bind, k.port)) :=
  ((strCmp_total LKey.bind).lex (natCmp_total LKey.port)).congr (fun a b => (lkeyLess_eq a b).symm)

/-- Sidecar outbound listeners (bind, port). -/
theorem fold_perm_sortedLKeys {l₁ l₂ : List LKey} (p : l₁.Perm l₂) : sortedLKeys l₁ = sortedLKeys l₂ :=
  sort_canonical_less cmp_total_listenerKeys (isort_isSort_less cmp_total_listenerKeys)
    (keysDistinct_of_injective _ (fun a b h => by cases a; cases b; simp at h; simp [h]) l₁) p

/-! ### From canonical listings to deterministic generation (the shape of the argument) -/

/-- The property at full strength, for an abstract generator `gen` that receives the objects in the
    order some store or registry listed them: every listing of the same objects gives the same
    output.  For the real generators this is NOT proved - it is what the permutation harness
    explores (stream `perm`). -/
def FullStatement {α β : Type} (gen : List α → β) : Prop :=
  ∀ l₁ l₂ : List α, l₁.Perm l₂ → gen l₁ = gen l₂

/-- The part that is proved: a generator that looks at its input only through a sort with a
    comparator that is total on the (pairwise distinct) keys of the objects satisfies the full
    statement on such inputs.  What remains for a real generator is that *every* path from a listing
    or a map to the output goes through such a sort (or through an order-independent fold). -/
theorem generation_deterministic_partial {α κ β : Type} {cmp : α → α → Ordering} {key : α → κ}
    (h : TotalOnKey cmp key) {sort : List α → List α} (hs : IsSort (ltOf cmp) sort)
    (g : List α → β) {l₁ l₂ : List α} (hd : KeysDistinct key l₁) (p : l₁.Perm l₂) :
    g (sort l₁) = g (sort l₂) := by
  rw [sort_canonical_key h hs hd p]

/-- Without the sort the full statement fails already for the identity generator. -/
theorem fullStatement_witness : ¬ FullStatement (fun l : List Nat => l) := by
  intro h
  have := h [1, 2] [2, 1] (List.Perm.swap 2 1 [])
  exact absurd this (by decide)

/-! ### The monitor of the permutation harness -/

/-- Soundness and completeness of the monitor: it accepts exactly when all runs produced the same
    digest. -/
theorem allEqualB_iff (l : List String) : allEqualB l = true ↔ ∀ x ∈ l, ∀ y ∈ l, x = y := by
  cases l with
  | nil => simp [allEqualB]
  | cons d ds =>
    simp only [allEqualB, List.all_eq_true, beq_iff_eq]
    constructor
    · intro h x hx y hy
      have hx' : x = d := by
        rcases List.mem_cons.1 hx with e | e
        · exact e
        · exact h x e
      have hy' : y = d := by
        rcases List.mem_cons.1 hy with e | e
        · exact e
        · exact h y e
      rw [hx', hy']
    · intro h x hx
      exact h x (List.mem_cons_of_mem _ hx) d (List.mem_cons_self)

/-- A rejected observation contains two runs that differ (what the replay reports). -/
theorem allEqualB_false (l : List String) (h : allEqualB l = false) : ∃ x ∈ l, ∃ y ∈ l, x ≠ y := by
  apply Classical.byContradiction
  intro hn
  have : allEqualB l = true := (allEqualB_iff l).2 (fun x hx y hy => by
    apply Classical.byContradiction
    intro hne
    exact hn ⟨x, hx, y, hy, hne⟩)
  rw [this] at h
  exact Bool.noConfusion h

example : allEqualB ["3.ab", "3.ab", "3.ab"] = true ∧ allEqualB ["3.ab", "3.cd", "3.ab"] = false := by decide

end IstioModel.C17
