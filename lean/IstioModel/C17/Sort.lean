import IstioModel.C17.Model

/-!
C17 - generic theory: a sort is any function that returns an ordered permutation; for a comparator
that is a strict total order on a key, and inputs whose distinct members have distinct keys, the
result does not depend on the input order (`sort_canonical_aux`).  Core Lean only.
-/
namespace IstioModel.C17

/-- What is assumed about a Go sort routine called with `less = lt`: the result is a permutation
    of the input in which no later element is smaller than an earlier one.  Nothing else (no
    stability, no particular algorithm). -/
structure IsSort {α : Type} (lt : α → α → Bool) (sort : List α → List α) : Prop where
  perm   : ∀ l, (sort l).Perm l
  sorted : ∀ l, (sort l).Pairwise (fun a b => lt b a = false)

/-- `cmp` is a strict total order on the key projection `key`: a total preorder whose ties are
    exactly the pairs with equal keys. -/
structure TotalOnKey {α κ : Type} (cmp : α → α → Ordering) (key : α → κ) : Prop where
  eq_iff : ∀ a b, cmp a b = .eq ↔ key a = key b
  swap   : ∀ a b, cmp b a = (cmp a b).swap
  trans  : ∀ a b c, cmp a b ≠ .gt → cmp b c ≠ .gt → cmp a c ≠ .gt

/-- An ordered permutation is unique as soon as distinct members are comparable. -/
theorem sorted_perm_unique_aux {α : Type} (lt : α → α → Bool) :
    ∀ (l₁ l₂ : List α), l₁.Perm l₂ →
      l₁.Pairwise (fun a b => lt b a = false) → l₂.Pairwise (fun a b => lt b a = false) →
      (∀ a b, a ∈ l₁ → b ∈ l₁ → a ≠ b → lt a b = true ∨ lt b a = true) → l₁ = l₂
  | [], l₂, p, _, _, _ => by
      have := p.symm.eq_nil; exact this.symm
  | a :: t₁, [], p, _, _, _ => by
      have := p.eq_nil; exact absurd this (by simp)
  | a :: t₁, b :: t₂, p, s₁, s₂, tot => by
      have hab : a = b := by
        apply Classical.byContradiction
        intro hne
        have ha2 : a ∈ b :: t₂ := (p.mem_iff).1 (List.mem_cons_self)
        have hb1 : b ∈ a :: t₁ := (p.mem_iff).2 (List.mem_cons_self)
        have ha2' : a ∈ t₂ := by
          cases List.mem_cons.1 ha2 with
          | inl h => exact absurd h hne
          | inr h => exact h
        have hb1' : b ∈ t₁ := by
          cases List.mem_cons.1 hb1 with
          | inl h => exact absurd h.symm hne
          | inr h => exact h
        have h1 : lt b a = false := (List.pairwise_cons.1 s₁).1 b hb1'
        have h2 : lt a b = false := (List.pairwise_cons.1 s₂).1 a ha2'
        cases tot a b List.mem_cons_self hb1 hne with
        | inl h => rw [h2] at h; exact Bool.noConfusion h
        | inr h => rw [h1] at h; exact Bool.noConfusion h
      subst hab
      have pt : t₁.Perm t₂ := p.cons_inv
      have ih := sorted_perm_unique_aux lt t₁ t₂ pt (List.pairwise_cons.1 s₁).2 (List.pairwise_cons.1 s₂).2
        (fun x y hx hy hne => tot x y (List.mem_cons_of_mem _ hx) (List.mem_cons_of_mem _ hy) hne)
      rw [ih]

/-- **Canonical ordering.** For every sort routine, if distinct members of the input are comparable
    under `lt`, the result is the same for every permutation of the input. -/
theorem sort_canonical_aux {α : Type} {lt : α → α → Bool} {sort : List α → List α} (hs : IsSort lt sort)
    {l₁ l₂ : List α} (tot : ∀ a b, a ∈ l₁ → b ∈ l₁ → a ≠ b → lt a b = true ∨ lt b a = true)
    (p : l₁.Perm l₂) : sort l₁ = sort l₂ := by
  apply sorted_perm_unique_aux lt
  · exact (hs.perm l₁).trans (p.trans (hs.perm l₂).symm)
  · exact hs.sorted l₁
  · exact hs.sorted l₂
  · intro a b ha hb hne
    exact tot a b ((hs.perm l₁).mem_iff.1 ha) ((hs.perm l₁).mem_iff.1 hb) hne

/-- Two different sort routines (say a stable and an unstable one, or two releases of the Go
    runtime) agree as well. -/
theorem sort_routine_irrelevant_aux {α : Type} {lt : α → α → Bool} {s₁ s₂ : List α → List α}
    (h₁ : IsSort lt s₁) (h₂ : IsSort lt s₂) {l₁ l₂ : List α}
    (tot : ∀ a b, a ∈ l₁ → b ∈ l₁ → a ≠ b → lt a b = true ∨ lt b a = true)
    (p : l₁.Perm l₂) : s₁ l₁ = s₂ l₂ := by
  apply sorted_perm_unique_aux lt
  · exact (h₁.perm l₁).trans (p.trans (h₂.perm l₂).symm)
  · exact h₁.sorted l₁
  · exact h₂.sorted l₂
  · intro a b ha hb hne
    exact tot a b ((h₁.perm l₁).mem_iff.1 ha) ((h₁.perm l₁).mem_iff.1 hb) hne

/-- Keys are pairwise distinct in `l`: distinct members have distinct keys. -/
def KeysDistinct {α κ : Type} (key : α → κ) (l : List α) : Prop :=
  ∀ a b, a ∈ l → b ∈ l → a ≠ b → key a ≠ key b

theorem TotalOnKey.comparable {α κ : Type} {cmp : α → α → Ordering} {key : α → κ}
    (h : TotalOnKey cmp key) {a b : α} (hk : key a ≠ key b) :
    ltOf cmp a b = true ∨ ltOf cmp b a = true := by
  unfold ltOf
  have hne : cmp a b ≠ .eq := fun e => hk ((h.eq_iff a b).1 e)
  have hs := h.swap a b
  cases hc : cmp a b with
  | lt => left; rfl
  | eq => exact absurd hc hne
  | gt => right; rw [hs, hc]; rfl

/-- **Canonical ordering, key form.** `cmp` a strict total order on `key`, keys pairwise distinct:
    every sort routine returns the same list for every permutation of the input. -/
theorem sort_canonical_key_aux {α κ : Type} {cmp : α → α → Ordering} {key : α → κ}
    (h : TotalOnKey cmp key) {sort : List α → List α} (hs : IsSort (ltOf cmp) sort)
    {l₁ l₂ : List α} (hd : KeysDistinct key l₁) (p : l₁.Perm l₂) : sort l₁ = sort l₂ :=
  sort_canonical_aux hs (fun a b ha hb hne => h.comparable (hd a b ha hb hne)) p

/-! ### The reference sort `isort` is a sort, and it is stable -/

theorem insertBy_perm {α : Type} (lt : α → α → Bool) (x : α) :
    ∀ l : List α, (insertBy lt x l).Perm (x :: l)
  | [] => List.Perm.refl _
  | y :: ys => by
      unfold insertBy
      split
      · exact ((insertBy_perm lt x ys).cons y).trans (List.Perm.swap x y ys)
      · exact List.Perm.refl _

theorem isort_perm {α : Type} (lt : α → α → Bool) : ∀ l : List α, (isort lt l).Perm l
  | [] => List.Perm.refl _
  | x :: xs => (insertBy_perm lt x (isort lt xs)).trans ((isort_perm lt xs).cons x)

/-- `lt` behaves like the `less` of a strict weak order: asymmetric, and "not greater" is transitive. -/
structure WeakOrder {α : Type} (lt : α → α → Bool) : Prop where
  asymm : ∀ a b, lt a b = true → lt b a = false
  trans : ∀ a b c, lt b a = false → lt c b = false → lt c a = false

theorem insertBy_sorted {α : Type} {lt : α → α → Bool} (w : WeakOrder lt) (x : α) :
    ∀ l : List α, l.Pairwise (fun a b => lt b a = false) →
      (insertBy lt x l).Pairwise (fun a b => lt b a = false)
  | [], _ => by simp [insertBy]
  | y :: ys, h => by
      unfold insertBy
      have hy := List.pairwise_cons.1 h
      split
      · rename_i hyx
        apply List.pairwise_cons.2
        constructor
        · intro z hz
          have hz' : z ∈ x :: ys := (insertBy_perm lt x ys).mem_iff.1 hz
          cases List.mem_cons.1 hz' with
          | inl e => subst e; exact w.asymm _ _ hyx
          | inr e => exact hy.1 z e
        · exact insertBy_sorted w x ys hy.2
      · rename_i hyx
        have hyx' : lt y x = false := by cases h' : lt y x <;> simp_all
        apply List.pairwise_cons.2
        constructor
        · intro z hz
          cases List.mem_cons.1 hz with
          | inl e => subst e; exact hyx'
          | inr e => exact w.trans _ _ _ hyx' (hy.1 z e)
        · exact h

theorem isort_sorted {α : Type} {lt : α → α → Bool} (w : WeakOrder lt) :
    ∀ l : List α, (isort lt l).Pairwise (fun a b => lt b a = false)
  | [] => List.Pairwise.nil
  | x :: xs => insertBy_sorted w x _ (isort_sorted w xs)

theorem isort_isSort_aux {α : Type} {lt : α → α → Bool} (w : WeakOrder lt) : IsSort lt (isort lt) :=
  ⟨isort_perm lt, isort_sorted w⟩

theorem TotalOnKey.weakOrder {α κ : Type} {cmp : α → α → Ordering} {key : α → κ}
    (h : TotalOnKey cmp key) : WeakOrder (ltOf cmp) := by
  constructor
  · intro a b hab
    unfold ltOf at *
    have := h.swap a b
    cases hc : cmp a b <;> simp_all [Ordering.swap]
  · intro a b c h1 h2
    unfold ltOf at *
    have s1 := h.swap a b
    have s2 := h.swap b c
    have s3 := h.swap a c
    have t := h.trans a b c
    cases hab : cmp a b <;> cases hbc : cmp b c <;> cases hac : cmp a c <;>
      simp_all [Ordering.swap]

/-- A tie between two different objects makes the result of a stable sort depend on the order in
    which the objects arrive. -/
theorem tie_depends_on_input_order_aux {α : Type} (lt : α → α → Bool) (a b : α)
    (h₁ : lt a b = false) (h₂ : lt b a = false) :
    isort lt [a, b] = [a, b] ∧ isort lt [b, a] = [b, a] := by
  simp [isort, insertBy, h₁, h₂]

/-- With any sort routine the result for a two-element input is one of the two orders (it is a
    permutation of the input) - nothing more is claimed. -/
theorem tie_result_is_one_of_two_aux {α : Type} {lt : α → α → Bool} {sort : List α → List α}
    (hs : IsSort lt sort) (a b : α) : sort [a, b] = [a, b] ∨ sort [a, b] = [b, a] := by
  have p := hs.perm [a, b]
  have hl := p.length_eq
  match hsort : sort [a, b], hl, p with
  | [x, y], _, p =>
    have hx : x ∈ [a, b] := p.mem_iff.1 (by simp)
    have hy : y ∈ [a, b] := p.mem_iff.1 (by simp)
    have ha : a ∈ [x, y] := p.mem_iff.2 (by simp)
    have hb : b ∈ [x, y] := p.mem_iff.2 (by simp)
    simp at hx hy ha hb
    by_cases hab : a = b
    · subst hab; simp_all
    · rcases hx with rfl | rfl <;> rcases hy with rfl | rfl <;> simp_all

/-! ### Building blocks for `TotalOnKey` -/

theorem strCmp_total {α : Type} (f : α → String) :
    TotalOnKey (fun a b => strCmp (f a) (f b)) f := by
  constructor
  · intro a b
    unfold strCmp
    by_cases h1 : f a < f b
    · simp [h1]; intro e; rw [e] at h1; exact String.lt_irrefl _ h1
    · by_cases h2 : f a = f b <;> simp [h1, h2]
  · intro a b
    unfold strCmp
    by_cases h1 : f a < f b
    · have h2 : ¬ f b < f a := String.lt_asymm h1
      have h3 : f b ≠ f a := fun e => by rw [e] at h1; exact String.lt_irrefl _ h1
      simp [h1, h2, h3, Ordering.swap]
    · by_cases h2 : f a = f b
      · simp [h2, String.lt_irrefl, Ordering.swap]
      · have h3 : f b < f a := by
          have := String.not_lt.1 h1
          rcases String.le_total (f a) (f b) with h | h
          · exact absurd (String.le_antisymm h this) h2
          · apply Classical.byContradiction
            intro hn
            exact h2 (String.le_antisymm (String.not_lt.1 hn) this)
        have h4 : f b ≠ f a := fun e => h2 e.symm
        simp [h1, h2, h3, Ordering.swap]
  · intro a b c
    unfold strCmp
    intro hab hbc
    have hab' : f a ≤ f b := by
      by_cases h1 : f a < f b
      · exact String.not_lt.1 (String.lt_asymm h1)
      · by_cases h2 : f a = f b
        · rw [h2]; exact String.not_lt.1 (String.lt_irrefl _)
        · simp [h1, h2] at hab
    have hbc' : f b ≤ f c := by
      by_cases h1 : f b < f c
      · exact String.not_lt.1 (String.lt_asymm h1)
      · by_cases h2 : f b = f c
        · rw [h2]; exact String.not_lt.1 (String.lt_irrefl _)
        · simp [h1, h2] at hbc
    have hac : f a ≤ f c := String.le_trans hab' hbc'
    by_cases h1 : f a < f c
    · simp [h1]
    · by_cases h2 : f a = f c
      · simp [h2]
      · exact absurd (String.le_antisymm hac (String.not_lt.1 h1)) h2

theorem natCmp_total {α : Type} (f : α → Nat) :
    TotalOnKey (fun a b => natCmp (f a) (f b)) f := by
  constructor
  · intro a b
    unfold natCmp
    by_cases h1 : f a < f b
    · simp [h1]; omega
    · by_cases h2 : f a = f b <;> simp [h1, h2]
  · intro a b
    unfold natCmp
    by_cases h1 : f a < f b
    · have h2 : ¬ f b < f a := by omega
      have h3 : f b ≠ f a := by omega
      simp [h1, h2, h3, Ordering.swap]
    · by_cases h2 : f a = f b
      · simp [h2, Ordering.swap]
      · have h3 : f b < f a := by omega
        have h4 : f b ≠ f a := by omega
        simp [h1, h2, h3, Ordering.swap]
  · intro a b c
    unfold natCmp
    intro hab hbc
    have hab' : f a ≤ f b := by
      by_cases h1 : f a < f b
      · omega
      · by_cases h2 : f a = f b
        · omega
        · simp [h1, h2] at hab
    have hbc' : f b ≤ f c := by
      by_cases h1 : f b < f c
      · omega
      · by_cases h2 : f b = f c
        · omega
        · simp [h1, h2] at hbc
    by_cases h1 : f a < f c
    · simp [h1]
    · by_cases h2 : f a = f c
      · simp [h2]
      · omega

/-- Lexicographic composition (`if r := c₁(a,b); r != 0 { return r }; return c₂(a,b)`). -/
theorem TotalOnKey.lex {α κ₁ κ₂ : Type} {c₁ c₂ : α → α → Ordering} {k₁ : α → κ₁} {k₂ : α → κ₂}
    (h₁ : TotalOnKey c₁ k₁) (h₂ : TotalOnKey c₂ k₂) :
    TotalOnKey (fun a b => andThen (c₁ a b) (c₂ a b)) (fun a => (k₁ a, k₂ a)) := by
  constructor
  · intro a b
    have e1 := h₁.eq_iff a b
    have e2 := h₂.eq_iff a b
    cases h : c₁ a b <;> simp_all [andThen]
  · intro a b
    have s1 := h₁.swap a b
    have s2 := h₂.swap a b
    cases h : c₁ a b <;> simp_all [andThen, Ordering.swap]
  · intro a b c
    have t1 := h₁.trans a b c
    have t2 := h₂.trans a b c
    have eab := h₁.eq_iff a b
    have ebc := h₁.eq_iff b c
    have eac := h₁.eq_iff a c
    have sab := h₁.swap a b
    have sbc := h₁.swap b c
    have sac := h₁.swap a c
    have t1' := h₁.trans c a b
    have t1'' := h₁.trans b c a
    cases hab : c₁ a b <;> cases hbc : c₁ b c <;> cases hac : c₁ a c <;>
      simp_all [andThen, Ordering.swap]

/-! ### Further building blocks -/

theorem TotalOnKey.congr {α κ : Type} {c c' : α → α → Ordering} {k : α → κ}
    (h : TotalOnKey c k) (e : ∀ a b, c a b = c' a b) : TotalOnKey c' k := by
  have : c = c' := by funext a b; exact e a b
  rw [← this]; exact h

/-- Changing the key along an injection-preserving map: same ties, other name for the key. -/
theorem TotalOnKey.rekey {α κ κ' : Type} {c : α → α → Ordering} {k : α → κ} (k' : α → κ')
    (h : TotalOnKey c k) (e : ∀ a b, k a = k b ↔ k' a = k' b) : TotalOnKey c k' :=
  ⟨fun a b => (h.eq_iff a b).trans (e a b), h.swap, h.trans⟩

/-- `less(a, b)` recovered from the three-way view of `less`. -/
theorem ltOf_cmpOfLess {α : Type} (less : α → α → Bool) : ltOf (cmpOfLess less) = less := by
  funext a b
  unfold ltOf cmpOfLess
  cases h1 : less a b <;> cases h2 : less b a <;> simp

/-- The three cases of a string comparison. -/
theorem str_trichotomy (x y : String) :
    (x < y ∧ ¬ y < x ∧ x ≠ y) ∨ (x = y) ∨ (y < x ∧ ¬ x < y ∧ x ≠ y) := by
  by_cases h1 : x < y
  · left
    exact ⟨h1, String.lt_asymm h1, fun e => by rw [e] at h1; exact String.lt_irrefl _ h1⟩
  · by_cases h2 : x = y
    · right; left; exact h2
    · right; right
      have h3 : y < x := by
        apply Classical.byContradiction
        intro hn
        exact h2 (String.le_antisymm (String.not_lt.1 hn) (String.not_lt.1 h1))
      exact ⟨h3, h1, h2⟩

theorem cmpOfLess_str {α : Type} (f : α → String) (a b : α) :
    cmpOfLess (fun a b => decide (f a < f b)) a b = strCmp (f a) (f b) := by
  unfold cmpOfLess strCmp
  rcases str_trichotomy (f a) (f b) with ⟨h1, h2, h3⟩ | h | ⟨h1, h2, h3⟩
  · simp [h1]
  · simp [h, String.lt_irrefl]
  · simp [h1, h2, h3]

theorem cmpOfLess_nat {α : Type} (f : α → Nat) (a b : α) :
    cmpOfLess (fun a b => decide (f a < f b)) a b = natCmp (f a) (f b) := by
  unfold cmpOfLess natCmp
  by_cases h1 : f a < f b
  · simp [h1]
  · by_cases h2 : f a = f b
    · simp [h2]
    · have h3 : f b < f a := by omega
      simp [h1, h2, h3]

/-- Canonical ordering for a `less`-style comparator whose three-way view is total on a key. -/
theorem sort_canonical_less_aux {α κ : Type} {less : α → α → Bool} {key : α → κ}
    (h : TotalOnKey (cmpOfLess less) key) {sort : List α → List α} (hs : IsSort less sort)
    {l₁ l₂ : List α} (hd : KeysDistinct key l₁) (p : l₁.Perm l₂) : sort l₁ = sort l₂ := by
  have e := ltOf_cmpOfLess less
  have hs' : IsSort (ltOf (cmpOfLess less)) sort := by rw [e]; exact hs
  exact sort_canonical_key_aux h hs' hd p

theorem isort_isSort_less_aux {α κ : Type} {less : α → α → Bool} {key : α → κ}
    (h : TotalOnKey (cmpOfLess less) key) : IsSort less (isort less) := by
  have w := h.weakOrder
  rw [ltOf_cmpOfLess] at w
  exact isort_isSort_aux w

theorem keysDistinct_of_injective {α κ : Type} (key : α → κ) (inj : ∀ a b, key a = key b → a = b)
    (l : List α) : KeysDistinct key l :=
  fun a b _ _ hne hk => hne (inj a b hk)

theorem KeysDistinct.perm {α κ : Type} {key : α → κ} {l₁ l₂ : List α} (h : KeysDistinct key l₁)
    (p : l₁.Perm l₂) : KeysDistinct key l₂ :=
  fun a b ha hb => h a b (p.mem_iff.2 ha) (p.mem_iff.2 hb)

/-- Lists shorter than two are fixed by permutation (the `if len(x) >= 2` guards). -/
theorem perm_short_eq {α : Type} : ∀ {l₁ l₂ : List α}, l₁.Perm l₂ → l₁.length < 2 → l₁ = l₂
  | [], l₂, p, _ => (p.symm.eq_nil).symm
  | [a], l₂, p, _ => by
    have hl := p.length_eq
    match l₂, hl with
    | [b], _ =>
      have : a ∈ [b] := p.mem_iff.1 (by simp)
      simp at this; rw [this]
  | _ :: _ :: _, _, _, h => by simp at h; omega

/-! ### Selecting the best element of a map (`argBest`) -/

theorem foldBest_mem {α : Type} (lt : α → α → Bool) :
    ∀ (xs : List α) (b : α), xs.foldl (fun b s => if lt s b then s else b) b ∈ b :: xs
  | [], b => by simp
  | x :: xs, b => by
    simp only [List.foldl_cons]
    have ih := foldBest_mem lt xs (if lt x b then x else b)
    cases h : lt x b <;> simp [h] at ih ⊢ <;> rcases ih with ih | ih <;> simp [ih]

theorem foldBest_le {α : Type} {lt : α → α → Bool} (w : WeakOrder lt) :
    ∀ (xs : List α) (b : α) (y : α), y ∈ b :: xs →
      lt y (xs.foldl (fun b s => if lt s b then s else b) b) = false
  | [], b, y, hy => by
    simp at hy; subst hy; simp
    cases h : lt y y
    · rfl
    · have := w.asymm y y h; rw [h] at this; exact Bool.noConfusion this
  | x :: xs, b, y, hy => by
    simp only [List.foldl_cons]
    have hbb : lt b b = false := by
      cases h : lt b b
      · rfl
      · have := w.asymm b b h; rw [h] at this; exact Bool.noConfusion this
    cases h : lt x b
    · -- best stays b
      simp only [Bool.false_eq_true, if_false]
      rcases List.mem_cons.1 hy with e | hy'
      · exact foldBest_le w xs b y (by rw [e]; simp)
      · rcases List.mem_cons.1 hy' with e | hy''
        · -- y = x, lt x b = false, and fold result r satisfies lt b r = false ... need lt x r = false
          subst e
          have hr := foldBest_le w xs b b (by simp)
          exact w.trans _ _ _ hr h
        · exact foldBest_le w xs b y (List.mem_cons_of_mem _ hy'')
    · simp only [if_true]
      rcases List.mem_cons.1 hy with e | hy'
      · -- y = b, lt x b = true so lt b x = false; fold result r from x: lt x r = false → lt b r = false
        subst e
        have hr := foldBest_le w xs x x (by simp)
        exact w.trans _ _ _ hr (w.asymm _ _ h)
      · rcases List.mem_cons.1 hy' with e | hy''
        · subst e; exact foldBest_le w xs y y (by simp)
        · exact foldBest_le w xs x y (List.mem_cons_of_mem _ hy'')

/-- The selected element is a member that no member beats. -/
theorem argBest_spec_aux {α : Type} {lt : α → α → Bool} (w : WeakOrder lt) {l : List α} {m : α}
    (h : argBest lt l = some m) : m ∈ l ∧ ∀ y ∈ l, lt y m = false := by
  match l, h with
  | x :: xs, h =>
    simp only [argBest, Option.some.injEq] at h
    subst h
    exact ⟨foldBest_mem lt xs x, fun y hy => foldBest_le w xs x y hy⟩

/-- **Order-independence of a best-element selection.** If distinct members are comparable, every
    enumeration of the same entries selects the same element. -/
theorem argBest_perm_aux {α : Type} {lt : α → α → Bool} (w : WeakOrder lt) {l₁ l₂ : List α}
    (tot : ∀ a b, a ∈ l₁ → b ∈ l₁ → a ≠ b → lt a b = true ∨ lt b a = true)
    (p : l₁.Perm l₂) : argBest lt l₁ = argBest lt l₂ := by
  cases h₁ : argBest lt l₁ with
  | none =>
    have : l₁ = [] := by
      match l₁, h₁ with
      | [], _ => rfl
    subst this
    have := p.symm.eq_nil
    subst this; rfl
  | some m₁ =>
    cases h₂ : argBest lt l₂ with
    | none =>
      have : l₂ = [] := by
        match l₂, h₂ with
        | [], _ => rfl
      subst this
      have := p.eq_nil
      subst this
      simp [argBest] at h₁
    | some m₂ =>
      have s₁ := argBest_spec_aux w h₁
      have s₂ := argBest_spec_aux w h₂
      have m₂in : m₂ ∈ l₁ := p.mem_iff.2 s₂.1
      have a := s₁.2 m₂ m₂in
      have b := s₂.2 m₁ (p.mem_iff.1 s₁.1)
      by_cases e : m₁ = m₂
      · rw [e]
      · rcases tot m₁ m₂ s₁.1 m₂in e with t | t
        · rw [b] at t; exact Bool.noConfusion t
        · rw [a] at t; exact Bool.noConfusion t

end IstioModel.C17
