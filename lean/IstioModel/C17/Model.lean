/-
C17 - executable models of the comparators and ordered folds that make xDS generation canonical.

Go sources modelled (istio/istio):
  pilot/pkg/model/push_context.go   SortServicesByCreationTime, sortConfigBySelectorAndCreationTime
  pilot/pkg/model/config.go         sortConfigByCreationTime / configCompareByCreationTime
  pilot/pkg/model/endpointshards.go EndpointShards.Keys
  pilot/pkg/networking/core/route/route.go  TranslateRouteMatch (header / metadata / query-parameter lists)
  pkg/util/sets/set.go              SortedList
  pilot/pkg/xds/endpoints/endpoint_builder.go  generate (grouping by locality, sort.Strings(locs))
  pilot/pkg/xds/ads.go              PushOrder, Connection.watchedResourcesByOrder

Conventions: Go's sort routines (`slices.SortFunc`, `slices.SortStableFunc`, `sort.Slice`,
`sort.Strings`, `slices.Sort`) are NOT modelled by one algorithm in the theorems: a sort is *any*
function returning an ordered permutation of its input (`IsSort`, Theorems.lean).  The executable
reference used by the driver is the stable insertion sort `isort`, which is exactly
`slices.SortStableFunc` and, where no two elements tie, every Go sort.  A Go map is the list of its
entries in *some* enumeration order; every function below that ranges over a map takes that
enumeration as its argument, so "independent of map iteration order" is a theorem about
permutations of the argument.  `time.Time` is a `Nat` (creation timestamps have second resolution),
`strings.Compare` is `strCmp` (Lean compares code points, Go compares UTF-8 bytes: the same order).
The models are those of the tree as repaired by the C17 fix commits; the behaviour of the pinned tree
before the repairs is kept in Unfixed.lean (historical record, not an obligation).
-/
namespace IstioModel.C17

/-! ### Sorting -/

/-- Insert `x` before the first element that is not smaller than it. -/
def insertBy {α : Type} (lt : α → α → Bool) (x : α) : List α → List α
  | [] => [x]
  | y :: ys => if lt y x then y :: insertBy lt x ys else x :: y :: ys

/-- Stable insertion sort (`slices.SortStableFunc`): elements that tie keep their input order. -/
def isort {α : Type} (lt : α → α → Bool) : List α → List α
  | [] => []
  | x :: xs => insertBy lt x (isort lt xs)

/-- `strings.Compare`, `cmp.Compare` on strings. -/
def strCmp (a b : String) : Ordering := if a < b then .lt else if a = b then .eq else .gt

/-- `time.Time.Compare`, `cmp.Compare` on integers. -/
def natCmp (a b : Nat) : Ordering := if a < b then .lt else if a = b then .eq else .gt

/-- The Go idiom `if r := c₁; r != 0 { return r }; return c₂`. -/
def andThen (c₁ c₂ : Ordering) : Ordering :=
  match c₁ with
  | .eq => c₂
  | .lt => .lt
  | .gt => .gt

/-- `less(a, b)` of a three-way comparison function: `cmp(a, b) < 0`. -/
def ltOf {α : Type} (cmp : α → α → Ordering) (a b : α) : Bool := cmp a b == .lt

/-- Three-way view of a `less` function (`sort.Slice`). -/
def cmpOfLess {α : Type} (less : α → α → Bool) (a b : α) : Ordering :=
  if less a b then .lt else if less b a then .gt else .eq

/-! ### model.SortServicesByCreationTime -/

/-- The fields of `model.Service` the comparator reads: `CreationTime`, `Attributes.Name`,
    `Attributes.Namespace`, and - since the repair of finding C17-2 - `Attributes.K8sAttributes.ObjectName`,
    `Hostname`, `DefaultAddress`; `kube` = `Attributes.ServiceRegistry == Kubernetes` (read by the service
    index, not by the comparator). `id` is the harness' object id. For a service that comes from a
    ServiceEntry `name` is the hostname, `objName` the ServiceEntry's name, and there is one service
    per (host, address) pair of the entry. -/
structure Svc where
  id      : Nat
  time    : Nat
  name    : String
  ns      : String
  objName : String
  host    : String
  addr    : String
  kube    : Bool := false
  deriving DecidableEq, Repr, Inhabited

/-- The comparator (as repaired by C17-2: ties fall back on object name, hostname and address). -/
def svcCmp (i j : Svc) : Ordering :=
  andThen (natCmp i.time j.time) (andThen (strCmp i.name j.name) (andThen (strCmp i.ns j.ns)
    (andThen (strCmp i.objName j.objName) (andThen (strCmp i.host j.host) (strCmp i.addr j.addr)))))

/-- `SortServicesByCreationTime` (`slices.SortStableFunc`). -/
def sortServicesByCreationTime (l : List Svc) : List Svc := isort (ltOf svcCmp) l

/-! ### sortConfigByCreationTime, sortConfigBySelectorAndCreationTime -/

/-- The fields of `config.Config` the comparators read: `CreationTimestamp`, `Name`, `Namespace`,
    and for DestinationRules `sel` = `Spec.GetWorkloadSelector() != nil`. -/
structure Cfg where
  id   : Nat
  time : Nat
  name : String
  ns   : String
  sel  : Bool
  kind : String := ""   -- `GroupVersionKind`; not read by the comparators
  deriving DecidableEq, Repr, Inhabited

/-- `configCompareByCreationTime`. -/
def cfgCmp (a b : Cfg) : Ordering :=
  andThen (natCmp a.time b.time) (andThen (strCmp a.name b.name) (strCmp a.ns b.ns))

/-- Reference result of `sortConfigByCreationTime` (`slices.SortFunc`, not stable). -/
def sortConfigByCreationTime (l : List Cfg) : List Cfg := isort (ltOf cfgCmp) l

/-- The comparison closure of `sortConfigBySelectorAndCreationTime`. -/
def drCmp (a b : Cfg) : Ordering :=
  if a.sel && !b.sel then .lt
  else if !a.sel && b.sel then .gt
  else andThen (natCmp a.time b.time) (andThen (strCmp a.name b.name) (strCmp a.ns b.ns))

def sortConfigBySelectorAndCreationTime (l : List Cfg) : List Cfg := isort (ltOf drCmp) l

/-- The `less` of `sortConfigByCreationTime` / `sortRoutesByCreationTime` of the Gateway API conversion
    (pilot/pkg/config/kube/gateway/conversion.go): creation time, NAMESPACE, then name. -/
def gwCfgCmp (a b : Cfg) : Ordering :=
  andThen (natCmp a.time b.time) (andThen (strCmp a.ns b.ns) (strCmp a.name b.name))

def sortGatewayConfigs (l : List Cfg) : List Cfg := isort (ltOf gwCfgCmp) l

/-! ### model.SortWorkloadsByCreationTime -/

/-- `WorkloadInfo`: creation time and `Workload.Uid`. -/
structure Wl where
  id   : Nat
  time : Nat
  uid  : String
  deriving DecidableEq, Repr, Inhabited

/-- The `less` closure (`sort.SliceStable`). -/
def wlLess (a b : Wl) : Bool :=
  if a.time = b.time then decide (a.uid < b.uid) else decide (a.time < b.time)

def sortWorkloadsByCreationTime (l : List Wl) : List Wl := isort wlLess l

/-! ### EndpointShards.Keys -/

structure ShardKey where
  cluster  : String
  provider : String
  deriving DecidableEq, Repr, Inhabited

/-- The `less` closure of `Keys`. -/
def shardLess (a b : ShardKey) : Bool :=
  if a.provider = b.provider then decide (a.cluster < b.cluster) else decide (a.provider < b.provider)

/-- `EndpointShards.Keys` on an enumeration of the `Shards` map. -/
def shardKeys (enum : List ShardKey) : List ShardKey :=
  if enum.length ≥ 2 then isort shardLess enum else enum

/-! ### sets.SortedList, sort.Strings -/

def strLess (a b : String) : Bool := decide (a < b)

/-- `sets.SortedList` / `sort.Strings` on an enumeration of the set. -/
def sortedList (enum : List String) : List String := isort strLess enum

/-! ### EndpointBuilder.generate: grouping by locality -/

/-- An endpoint that passed the filters: locality label and an opaque id. -/
structure Ep where
  id  : Nat
  loc : String
  deriving DecidableEq, Repr, Inhabited

/-- The keys of `localityEpMap` in first-occurrence order (one possible enumeration of the map). -/
def localitiesOf : List Ep → List String
  | [] => []
  | e :: es => e.loc :: (localitiesOf es).filter (· ≠ e.loc)

/-- `generate`: endpoints are appended to their locality's group in input order; the groups are
    emitted in `sort.Strings` order of the locality labels.  `enum` is the enumeration of
    `localityEpMap` (any permutation of `localitiesOf eps`). -/
def groupByLocality (eps : List Ep) (enum : List String) : List (String × List Nat) :=
  let locs := if enum.length ≥ 2 then sortedList enum else enum
  locs.map (fun l => (l, (eps.filter (·.loc = l)).map (·.id)))

/-! ### PushOrder / watchedResourcesByOrder -/

/-- `xds.PushOrder` (short names of the type URLs). -/
def pushOrder : List String := ["CDS", "EDS", "LDS", "RDS", "SDS", "WDS", "WL", "WAUTH"]

/-- `Connection.watchedResourcesByOrder` on an enumeration of `proxy.WatchedResources`:
    the known types in `PushOrder` order, then the others in map order. -/
def watchedByOrder (enum : List String) : List String :=
  pushOrder.filter (fun t => enum.contains t) ++ enum.filter (fun t => !pushOrder.contains t)

/-! ### TranslateRouteMatch: header, dynamic-metadata and query-parameter lists -/

def claimPrefix : String := "@request.auth.claims"

/-- `jwt.ToRoutingClaim(name).Match`. -/
def isRoutingClaim (name : String) : Bool :=
  if !(name.toLower.startsWith claimPrefix) then false
  else
    let rest := (name.drop claimPrefix.length).toString
    (rest.startsWith "." && rest.length > 1) ||
      (rest.startsWith "[" && rest.endsWith "]" && rest.length > 2)

/-- One generated matcher: header / claim / query-parameter name, `invert`, and the opaque id of
    the `StringMatch` it was translated from. -/
structure Mt where
  name   : String
  invert : Bool
  m      : Nat
  deriving DecidableEq, Repr, Inhabited

/-- The part of `HTTPMatchRequest` that is held in Go maps, as enumerations. -/
structure MatchIn where
  headers   : List (String × Nat)
  without   : List (String × Nat)
  query     : List (String × Nat)
  method    : Bool
  authority : Bool
  scheme    : Bool
  deriving Repr, Inhabited

structure MatchOut where
  headers : List Mt
  dynMeta : List Mt
  query   : List Mt
  deriving DecidableEq, Repr, Inhabited

def mtLess (a b : Mt) : Bool := decide (a.name < b.name)

def hdrOf (inv : Bool) (e : String × Nat) : Mt := { name := e.1, invert := inv, m := e.2 }

/-- Header matchers appended by the two map loops, before the sort. -/
def rawHeaders (i : MatchIn) : List Mt :=
  (i.headers.filter (fun e => !isRoutingClaim e.1)).map (hdrOf false) ++
  (i.without.filter (fun e => !isRoutingClaim e.1)).map (hdrOf true)

def rawMeta (i : MatchIn) : List Mt :=
  (i.headers.filter (fun e => isRoutingClaim e.1)).map (hdrOf false) ++
  (i.without.filter (fun e => isRoutingClaim e.1)).map (hdrOf true)

def pseudoHeaders (i : MatchIn) : List Mt :=
  (if i.method then [{ name := ":method", invert := false, m := 0 }] else []) ++
  (if i.authority then [{ name := ":authority", invert := false, m := 0 }] else []) ++
  (if i.scheme then [{ name := ":scheme", invert := false, m := 0 }] else [])

/-- The body of `TranslateRouteMatch` on given visiting orders of the three maps: header matchers
    sorted by name (stable), dynamic-metadata and query-parameter matchers in visiting order. -/
def assembleMatch (i : MatchIn) : MatchOut :=
  { headers := isort mtLess (rawHeaders i) ++ pseudoHeaders i
    dynMeta := rawMeta i
    query   := i.query.map (hdrOf false) }

def entryLess (a b : String × Nat) : Bool := decide (a.1 < b.1)

/-- `sortedKeys(m)` followed by the lookup: the entries of a match map in key order. -/
def byKey (enum : List (String × Nat)) : List (String × Nat) := isort entryLess enum

/-- `TranslateRouteMatch` (as repaired by C17-1): the three maps are walked in key order and the header
    sort is stable. -/
def translateMatch (i : MatchIn) : MatchOut :=
  assembleMatch { i with headers := byKey i.headers, without := byKey i.without, query := byKey i.query }

/-! ### pickBestVisibleNamespace -/

/-- A visible service of `byNamespace`: its namespace, whether it is a Kubernetes service, its age. -/
structure NsSvc where
  ns   : String
  kube : Bool
  time : Nat
  deriving DecidableEq, Repr, Inhabited

/-- `betterVisibleService(a, b)`. -/
def better (a b : NsSvc) : Bool :=
  if a.kube != b.kube then a.kube
  else if !a.kube && a.time != b.time then decide (a.time < b.time)
  else decide (a.ns < b.ns)

/-- `best := first; for the rest: if lt s best then best := s`. -/
def argBest {α : Type} (lt : α → α → Bool) : List α → Option α
  | [] => none
  | x :: xs => some (xs.foldl (fun b s => if lt s b then s else b) x)

/-- `pickBestVisibleNamespace` as repaired, on an enumeration of the visible entries of `byNamespace`. -/
def pickBest (enum : List NsSvc) : String :=
  match argBest better enum with
  | some s => s.ns
  | none => ""

/-- `pickFirstVisibleNamespace` (PILOT_SIDECAR_PICK_BEST_SERVICE_NAMESPACE=false), on an enumeration of
    the visible namespaces of `byNamespace`: `sort.Strings`, first. -/
def pickFirst (enum : List String) : String := (sortedList enum).headD ""

/-! ### endpointSliceCache.get -/

/-- One cached EndpointSlice of a service: slice name and its endpoints (address/port key, payload id). -/
structure Slice where
  name : String
  eps  : List (String × Nat)
  deriving DecidableEq, Repr, Inhabited

def sliceLess (a b : Slice) : Bool := decide (a.name < b.name)

/-- Keep the first endpoint of every key (`found.InsertContains(key)`). -/
def dedupKeys : List (String × Nat) → List String → List (String × Nat)
  | [], _ => []
  | e :: es, seen => if seen.contains e.1 then dedupKeys es seen else e :: dedupKeys es (e.1 :: seen)

/-- The endpoints of the slices visited in the given order, first endpoint of every key kept. -/
def concatSlices (visit : List Slice) : List (String × Nat) := dedupKeys (visit.flatMap (·.eps)) []

/-- `endpointSliceCache.get` (as repaired by C17-3): slices in name order. -/
def sliceEndpoints (enum : List Slice) : List (String × Nat) := concatSlices (isort sliceLess enum)

/-! ### sorted walks over map keys introduced by the repairs C17-7 (inbound cluster ports) and C17-8 (listener keys) -/

/-- `listenerKey{bind, port}` ordering of `finalizeOutboundListeners`. -/
structure LKey where
  bind : String
  port : Nat
  deriving DecidableEq, Repr, Inhabited

def lkeyLess (a b : LKey) : Bool := if a.bind ≠ b.bind then decide (a.bind < b.bind) else decide (a.port < b.port)

def natLessB (a b : Nat) : Bool := decide (a < b)

/-- Keys of a `map[int]...` in `slices.Sort` order (inbound cluster ports). -/
def sortedPorts (enum : List Nat) : List Nat := isort natLessB enum

/-- Keys of the outbound listener map in emission order. -/
def sortedLKeys (enum : List LKey) : List LKey := isort lkeyLess enum

end IstioModel.C17
