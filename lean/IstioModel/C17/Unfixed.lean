import IstioModel.C17.Lemmas

/-!
C17 - historical record, NOT a counted module and not tied to the current tree: the behaviour of the
pinned tree BEFORE the C17 repairs, with witnesses that it depended on the order of its input.  Each
witness was replayed on the real pre-repair code by the witness meshes of `harness/corpus/C17`
(see notes/C17.md); a regression to this behaviour fails stream `cmp` and the witness corpus.
-/
namespace IstioModel.C17

/-- `SortServicesByCreationTime` before C17-2: creation time, name, namespace only. -/
def svcCmpUnfixed (i j : Svc) : Ordering :=
  andThen (natCmp i.time j.time) (andThen (strCmp i.name j.name) (strCmp i.ns j.ns))

def sortServicesUnfixed (l : List Svc) : List Svc := isort (ltOf svcCmpUnfixed) l

theorem cmp_total_services_unfixed :
    TotalOnKey svcCmpUnfixed (fun s : Svc => (s.time, s.name, s.ns)) :=
  (natCmp_total Svc.time).lex ((strCmp_total Svc.name).lex (strCmp_total Svc.ns))

/-- The two services of a ServiceEntry `se` in `default` with host `ext1.example.com` and two addresses. -/
def witnessSvcA : Svc :=
  { id := 0, time := 5, name := "ext1.example.com", ns := "default", objName := "se", host := "ext1.example.com", addr := "240.240.0.1" }
def witnessSvcB : Svc := { witnessSvcA with id := 1, addr := "240.241.0.1" }

/-- Finding C17-2 (DESIGN F9 confirmed): two different services tied, and the stable sort returned
    them in the order the registry listed them. -/
theorem cmp_witness_services_unfixed :
    witnessSvcA ≠ witnessSvcB ∧
    svcCmpUnfixed witnessSvcA witnessSvcB = .eq ∧ svcCmpUnfixed witnessSvcB witnessSvcA = .eq ∧
    sortServicesUnfixed [witnessSvcA, witnessSvcB] = [witnessSvcA, witnessSvcB] ∧
    sortServicesUnfixed [witnessSvcB, witnessSvcA] = [witnessSvcB, witnessSvcA] := by
  decide

/-- `TranslateRouteMatch` before C17-1: the maps were walked in iteration order. -/
def translateMatchUnfixed (i : MatchIn) : MatchOut := assembleMatch i

theorem translateMatch_witness_unfixed :
    let i : MatchIn := { headers := [("@request.auth.claims.sub", 1), ("@request.auth.claims.iss", 2)], without := [],
                         query := [("q", 1), ("user", 2)], method := false, authority := false, scheme := false }
    let j : MatchIn := { i with headers := i.headers.reverse, query := i.query.reverse }
    (translateMatchUnfixed i).query ≠ (translateMatchUnfixed j).query ∧
    (translateMatchUnfixed i).dynMeta ≠ (translateMatchUnfixed j).dynMeta ∧
    translateMatch i = translateMatch j := by decide +kernel

/-- `pickBestVisibleNamespace` before C17-5: the first Kubernetes service met won outright,
    otherwise a strictly older service replaced the current best. -/
def pickBestUnfixedGo : Option NsSvc → List NsSvc → String
  | best, [] => match best with
    | some b => b.ns
    | none => ""
  | best, s :: rest =>
    if s.kube then s.ns
    else match best with
      | none => pickBestUnfixedGo (some s) rest
      | some b => if s.time < b.time then pickBestUnfixedGo (some s) rest else pickBestUnfixedGo (some b) rest

def pickBestUnfixed (enum : List NsSvc) : String := pickBestUnfixedGo none enum

theorem pickBest_witness_unfixed :
    let a : NsSvc := { ns := "istio-system", kube := false, time := 1 }
    let b : NsSvc := { ns := "ns1", kube := false, time := 1 }
    let c : NsSvc := { ns := "ns2", kube := true, time := 3 }
    let d : NsSvc := { ns := "ns3", kube := true, time := 2 }
    pickBestUnfixed [a, b] ≠ pickBestUnfixed [b, a] ∧ pickBestUnfixed [c, d] ≠ pickBestUnfixed [d, c] ∧
    pickBest [a, b] = pickBest [b, a] ∧ pickBest [c, d] = pickBest [d, c] := by decide

/-- Where the old rule was decisive the repaired rule agrees with it. -/
example :
    let a : NsSvc := { ns := "z", kube := false, time := 1 }
    let b : NsSvc := { ns := "a", kube := false, time := 2 }
    let k : NsSvc := { ns := "m", kube := true, time := 9 }
    pickBest [b, a] = "z" ∧ pickBestUnfixed [b, a] = "z" ∧ pickBest [a, b, k] = "m" ∧ pickBestUnfixed [a, b, k] = "m" := by
  decide

/-- `endpointSliceCache.get` before C17-3: slices in map iteration order. -/
def sliceEndpointsUnfixed (enum : List Slice) : List (String × Nat) := concatSlices enum

theorem sliceEndpoints_witness_unfixed :
    let s1 : Slice := { name := "b-abc", eps := [("10.0.0.1", 1), ("10.0.0.2", 2)] }
    let s2 : Slice := { name := "b-xyz", eps := [("10.0.0.3", 3), ("10.0.0.1", 4)] }
    sliceEndpointsUnfixed [s1, s2] ≠ sliceEndpointsUnfixed [s2, s1] ∧
    sliceEndpoints [s1, s2] = sliceEndpoints [s2, s1] := by decide

/-- `BuildSidecarVirtualHostWrapper` before C17-4: the services were visited in map iteration order. -/
def vipOwnersUnfixed (enum : List VSvc) : List (String × Bool) := claimVips enum []

theorem vipOwners_witness_unfixed :
    let a : VSvc := { host := "api.example.com", vip := "240.240.0.1" }
    let b : VSvc := { host := "db.example.com", vip := "240.240.0.1" }
    vipOwnersUnfixed [a, b] = [("api.example.com", true), ("db.example.com", false)] ∧
    vipOwnersUnfixed [b, a] = [("db.example.com", true), ("api.example.com", false)] ∧
    vipOwners [a, b] = vipOwners [b, a] := by decide

end IstioModel.C17
