import IstioModel.C17.Model

/-!
C17 - small but real models of generation pipelines: from a *listing* (a registry's `Services()`, a
store's `List()`, a Go map in iteration order) through the sorts and folds of the real code to the
part of the output whose bytes depend on the order.  Each is tied to the real code by a `cmp` op
and has a determinism theorem over every permutation of its inputs (Theorems.lean).  Core Lean only.

  P1 `serviceIndex`            PushContext.initServiceRegistry: SortServicesByCreationTime, then the
                               winner of every (hostname, namespace) in ServiceIndex.HostnameAndNamespace
                               (first in order; a Kubernetes service displaces a non-Kubernetes one)   op `sidx`
     `sortAliases`             resolveServiceAliases: the aliases of a concrete service              op `alias`
  P2 `vipOwners`               BuildSidecarVirtualHostWrapper + dedupeDomains: services without a
                               VirtualService visited in hostname order, a shared address is claimed
                               by the first virtual host                                              op `vh`
     `routeCacheServices`      httproute.go: routeCache.Services, sort.SliceStable with `<=` as less  op `vh`
  P3 `clusterLoadAssignment`   snapshotShards (EndpointShards.Keys) + EndpointBuilder.generate        op `eds`
  P4 `envoyFilterOrder`        initEnvoyFilters (sortEnvoyFilters per namespace) + PushContext.EnvoyFilters
                               (root namespace ++ proxy namespace, sort.Slice)                        op `ef`
  P5 `trafficExtensions`       initTrafficExtensions (sortConfigByCreationTime) +
                               TrafficExtensionsByListenerInfo + sortByPriority                      op `te`
  P6 `mergedFor`               setDestinationRules: sortConfigBySelectorAndCreationTime, then
                               mergeDestinationRule one rule at a time (subsets first-wins by name, the
                               first top-level traffic policy is kept, `from` in merge order); rules
                               without workloadSelector and with equal exportTo                       op `drm`
-/
namespace IstioModel.C17

/-! ### P1: services -> ServiceIndex -/

/-- Key of `ServiceIndex.HostnameAndNamespace`: (hostname, namespace). -/
abbrev SKey := String × String

def Svc.skey (s : Svc) : SKey := (s.host, s.ns)

def idxLookup (k : SKey) : List (SKey × Svc) → Option Svc
  | [] => none
  | e :: r => if e.1 = k then some e.2 else idxLookup k r

def idxSet (k : SKey) (v : Svc) : List (SKey × Svc) → List (SKey × Svc)
  | [] => [(k, v)]
  | e :: r => if e.1 = k then (k, v) :: r else e :: idxSet k v r

/-- One iteration of the loop of `initServiceRegistry`:
    `if existing != nil && !(existing is not Kubernetes && s is Kubernetes) { ignore } else { hostMap[ns] = s }`. -/
def indexStep (idx : List (SKey × Svc)) (s : Svc) : List (SKey × Svc) :=
  match idxLookup s.skey idx with
  | some e => if !e.kube && s.kube then idxSet s.skey s idx else idx
  | none => idxSet s.skey s idx

/-- `initServiceRegistry` on a listing of the registries: sort, then fold. -/
def serviceIndex (listing : List Svc) : List (SKey × Svc) :=
  (sortServicesByCreationTime listing).foldl indexStep []

/-- The specification of the winner among the services claiming one key, in index order: the first
    Kubernetes service if there is one, else the first service. -/
def winnerOf (l : List Svc) : Option Svc :=
  match l.find? (·.kube) with
  | some k => some k
  | none => l.head?

/-- The alias comparator of `resolveServiceAliases` on `NamespacedHostname` (namespace, hostname). -/
def aliasLess (a b : String × String) : Bool :=
  if a.1 ≠ b.1 then decide (a.1 < b.1) else decide (a.2 < b.2)

/-- The aliases of one concrete service, from an enumeration of the `resolvedAliases` map. -/
def sortAliases (enum : List (String × String)) : List (String × String) := isort aliasLess enum

/-! ### P2: services of a sidecar route -> which virtual host owns a shared address -/

/-- A service on the route's port: hostname and its address for the proxy ("" = none). -/
structure VSvc where
  host : String
  vip  : String
  deriving DecidableEq, Repr, Inhabited

def vsvcLess (a b : VSvc) : Bool := decide (a.host < b.host)

/-- `dedupeDomains` restricted to the address domain: a virtual host keeps its service's address
    unless an earlier virtual host claimed it. Result: (hostname, keeps the address domain). -/
def claimVips : List VSvc → List String → List (String × Bool)
  | [], _ => []
  | s :: r, claimed =>
    if s.vip = "" then (s.host, false) :: claimVips r claimed
    else if claimed.contains s.vip then (s.host, false) :: claimVips r claimed
    else (s.host, true) :: claimVips r (s.vip :: claimed)

/-- `BuildSidecarVirtualHostWrapper` (as repaired by C17-4) on an enumeration of the `serviceRegistry`
    map: the services without a VirtualService are visited in hostname order. -/
def vipOwners (enum : List VSvc) : List (String × Bool) := claimVips (isort vsvcLess enum) []

/-- Specification side of P2: the hostname of the first service of a list that has address `v`. -/
def firstClaimant (v : String) : List VSvc → Option String
  | [] => none
  | s :: r => if s.vip = v then some s.host else firstClaimant v r

/-- Specification side of P2, what `claimVips` computes said without the accumulator: a virtual host keeps its
    service's address iff the address is not empty, was not claimed before the list started (`c`), and the
    service is the first of the list with that address. -/
def keepsVip (c : List String) (l : List VSvc) (s : VSvc) : Bool :=
  decide (s.vip ≠ "") && !c.contains s.vip && (firstClaimant s.vip l == some s.host)

/-- The `less` of `sort.SliceStable(services, ...)` in buildSidecarOutboundVirtualHosts: `<=`, not `<`. -/
def hostLeLess (a b : String) : Bool := decide (a ≤ b)

/-- `routeCache.Services` (hostnames), from an enumeration of the `servicesByName` map. -/
def routeCacheServices (enum : List String) : List String := isort hostLeLess enum

/-! ### P3: endpoint shards -> ClusterLoadAssignment -/

/-- `snapshotShards` + `generate`: shards with endpoints in `Keys()` order, concatenated, grouped by
    locality; `locEnum` is the iteration order of `localityEpMap`. -/
def claEndpoints (shards : List (ShardKey × List Ep)) : List Ep :=
  let live := shards.filter (fun s => !s.2.isEmpty)
  (shardKeys (live.map (·.1))).flatMap (fun k => (live.filter (fun s => s.1 = k)).flatMap (·.2))

def clusterLoadAssignment (shards : List (ShardKey × List Ep)) (locEnum : List String) : List (String × List Nat) :=
  groupByLocality (claEndpoints shards) locEnum

/-! ### P4: EnvoyFilter listing -> order of the filters applied to a proxy -/

def intCmp (a b : Int) : Ordering := if a < b then .lt else if a = b then .eq else .gt

/-- `EnvoyFilterWrapper`: priority, creation time as an instant plus the representation Go's `!=` on
    `time.Time` also sees (`zone`: location pointer / monotonic reading), name, namespace. -/
structure EF where
  id   : Nat
  ns   : String
  name : String
  prio : Int
  time : Nat
  zone : Nat
  deriving DecidableEq, Repr, Inhabited

/-- `sortEnvoyFilters` (one namespace): priority, `creationTime.Compare`, name. -/
def efCmp (a b : EF) : Ordering :=
  andThen (intCmp a.prio b.prio) (andThen (natCmp a.time b.time) (strCmp a.name b.name))

/-- The `less` of the `sort.Slice` in `PushContext.EnvoyFilters`. Note `ifilter.creationTime !=
    jfilter.creationTime` compares the `time.Time` structs: the same instant in two representations
    is "different" and then neither is `Before` the other. -/
def efMergeLess (root : String) (a b : EF) : Bool :=
  if a.prio ≠ b.prio then decide (a.prio < b.prio)
  else if a.ns ≠ b.ns ∧ (a.ns = root ∨ b.ns = root) then decide (a.ns = root)
  else if a.time ≠ b.time ∨ a.zone ≠ b.zone then decide (a.time < b.time)
  else decide (a.name ++ "." ++ a.ns < b.name ++ "." ++ b.ns)

/-- `initEnvoyFilters` + `EnvoyFilters(proxy)` on a listing of the store (selectors match). -/
def envoyFilterOrder (root proxyNs : String) (listing : List EF) : List EF :=
  let perNs := fun ns => isort (ltOf efCmp) (listing.filter (fun f => f.ns = ns))
  let matched := (if root ≠ "" then perNs root else []) ++ (if proxyNs ≠ root then perNs proxyNs else [])
  isort (efMergeLess root) matched

/-! ### P5: TrafficExtension listing -> order per phase -/

/-- `TrafficExtensionWrapper`: creation time, name, namespace, priority (nil = math.MinInt32), phase. -/
structure TE where
  id    : Nat
  time  : Nat
  name  : String
  ns    : String
  prio  : Option Int
  phase : Nat
  deriving DecidableEq, Repr, Inhabited

def teCmp (a b : TE) : Ordering :=
  andThen (natCmp a.time b.time) (andThen (strCmp a.name b.name) (strCmp a.ns b.ns))

def TE.prioVal (t : TE) : Int := t.prio.getD (-2147483648)

/-- The `less` of `sortByPriority` (`sort.SliceStable`, highest first). -/
def tePrioLess (a b : TE) : Bool := decide (b.prioVal < a.prioVal)

/-- `initTrafficExtensions` + `TrafficExtensionsByListenerInfo` + `sortByPriority` for one phase. -/
def trafficExtensions (root proxyNs : String) (listing : List TE) (phase : Nat) : List TE :=
  let sorted := isort (ltOf teCmp) listing
  let nss := if proxyNs = root then [proxyNs] else [proxyNs, root]
  isort tePrioLess ((nss.flatMap (fun ns => sorted.filter (fun t => t.ns = ns))).filter (fun t => t.phase = phase))

/-! ### P6: DestinationRule listing -> the merged rule of one host (destination_rule.go) -/

/-- A DestinationRule without workloadSelector and without exportTo: the comparator key (`cfg`, `sel = false`),
    the host, the names of its subsets, its top-level traffic policy ("" = none). -/
structure DRule where
  cfg     : Cfg
  host    : String
  subsets : List String
  policy  : String
  deriving DecidableEq, Repr, Inhabited

/-- `ConsolidatedDestRule`: `from` (ids, in merge order), the subsets with the id of the rule each came
    from, the top-level traffic policy. -/
structure MergedDR where
  src     : List Nat
  subsets : List (String × Nat)
  policy  : String
  deriving DecidableEq, Repr, Inhabited

/-- One call of `mergeDestinationRule` for a host that has at most one consolidated entry: the first rule is
    taken as it is (`ConvertConsolidatedDestRule`); a later rule adds the subsets whose name the merged rule
    does not have yet (`existingSubset` is computed before the loop) and gives its traffic policy only if the
    merged rule has none. -/
def mergeStep (m : Option MergedDR) (d : DRule) : Option MergedDR :=
  match m with
  | none => some { src := [d.cfg.id], subsets := d.subsets.map (fun s => (s, d.cfg.id)), policy := d.policy }
  | some m =>
    some { src := m.src ++ [d.cfg.id]
           subsets := m.subsets ++ ((d.subsets.filter (fun s => !(m.subsets.map (·.1)).contains s)).map (fun s => (s, d.cfg.id)))
           policy := if m.policy = "" then d.policy else m.policy }

def mergeFold (l : List DRule) : Option MergedDR := l.foldl mergeStep none

/-- `sortConfigBySelectorAndCreationTime` reads the `config.Config` of the rule only. -/
def drRuleCmp (a b : DRule) : Ordering := drCmp a.cfg b.cfg

def drLess (a b : DRule) : Bool := ltOf drRuleCmp a b

/-- The rules of one namespace for one host, in the order `setDestinationRules` merges them. -/
def mergeGroup (ns host : String) (listing : List DRule) : List DRule :=
  (isort drLess listing).filter (fun d => d.cfg.ns = ns ∧ d.host = host)

/-- Specification side of P6: the first non-empty traffic policy of a list of rules. -/
def firstPolicy : List DRule → String
  | [] => ""
  | d :: r => if d.policy = "" then firstPolicy r else d.policy

/-- Specification side of P6: the id of the first rule that has a subset called `s`. -/
def firstWithSubset (s : String) : List DRule → Option Nat
  | [] => none
  | d :: r => if d.subsets.contains s then some d.cfg.id else firstWithSubset s r

/-- The rule a subset name resolves to in a list of (name, id of the rule it came from): the first entry
    (what `for _, subset := range rule.Subsets` finds first). -/
def lookupOwner (s : String) : List (String × Nat) → Option Nat
  | [] => none
  | e :: r => if e.1 = s then some e.2 else lookupOwner s r

/-- `setDestinationRules` on a listing of the store, read at `namespaceLocal[ns].destRules[host]`. -/
def mergedFor (ns host : String) (listing : List DRule) : Option MergedDR :=
  mergeFold (mergeGroup ns host listing)

end IstioModel.C17
