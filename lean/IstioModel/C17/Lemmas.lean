import IstioModel.C17.Sort
import IstioModel.C17.Pipeline

/-!
C17 - helper lemmas about the concrete comparators and pipeline models (closed forms of `less`
closures, association-list lemmas, congruence of the insertion sort).  NOT a counted module; the
obligations are in Theorems.lean.  Core Lean only.
-/
namespace IstioModel.C17

/-! ### Integers -/

theorem intCmp_total {α : Type} (f : α → Int) : TotalOnKey (fun a b => intCmp (f a) (f b)) f := by
  constructor
  · intro a b
    unfold intCmp
    by_cases h1 : f a < f b
    · simp [h1]; omega
    · by_cases h2 : f a = f b <;> simp [h1, h2]
  · intro a b
    unfold intCmp
    by_cases h1 : f a < f b
    · have h2 : ¬ f b < f a := by omega
      have h3 : f b ≠ f a := by omega
      simp [h1, h2, h3, Ordering.swap]
    · by_cases h2 : f a = f b
      · simp [h2, Ordering.swap]
      · have h3 : f b < f a := by omega
        have h4 : f b ≠ f a := by omega
        simp [h1, h2, h3, Ordering.swap]
  · intro a b c
    unfold intCmp
    intro hab hbc
    have hab' : f a ≤ f b := by
      by_cases h1 : f a < f b
      · omega
      · by_cases h2 : f a = f b
        · omega
        · simp [h1, h2] at hab
    have hbc' : f b ≤ f c := by
      by_cases h1 : f b < f c
      · omega
      · by_cases h2 : f b = f c
        · omega
        · simp [h1, h2] at hbc
    by_cases h1 : f a < f c
    · simp [h1]
    · by_cases h2 : f a = f c
      · simp [h2]
      · omega

/-- A generator that sees a listing only through a total sort gives the same output for every
    permutation of the listing (congruence of `sort_canonical_key`). -/
theorem sort_congr {α κ β : Type} {cmp : α → α → Ordering} {key : α → κ}
    (h : TotalOnKey cmp key) {sort : List α → List α} (hs : IsSort (ltOf cmp) sort)
    (g : List α → β) {l₁ l₂ : List α} (hd : KeysDistinct key l₁) (p : l₁.Perm l₂) :
    g (sort l₁) = g (sort l₂) := by
  rw [sort_canonical_key_aux h hs hd p]

/-! ### Configs -/

/-- Objects of one kind are unique by (name, namespace). -/
def NamesDistinct (l : List Cfg) : Prop := KeysDistinct (fun c : Cfg => (c.name, c.ns)) l

theorem keysDistinct_of_names {l : List Cfg} (h : NamesDistinct l) :
    KeysDistinct (fun c : Cfg => (c.time, c.name, c.ns)) l :=
  fun a b ha hb hne e => h a b ha hb hne (congrArg Prod.snd e)

def selCmp (a b : Cfg) : Ordering :=
  if a.sel && !b.sel then .lt else if !a.sel && b.sel then .gt else .eq

theorem selCmp_total : TotalOnKey selCmp Cfg.sel := by
  constructor
  · intro a b; unfold selCmp; cases a.sel <;> cases b.sel <;> simp
  · intro a b; unfold selCmp; cases a.sel <;> cases b.sel <;> simp [Ordering.swap]
  · intro a b c; unfold selCmp; cases a.sel <;> cases b.sel <;> cases c.sel <;> simp

theorem drCmp_eq (a b : Cfg) : drCmp a b = andThen (selCmp a b) (cfgCmp a b) := by
  unfold drCmp selCmp cfgCmp
  cases a.sel <;> cases b.sel <;> simp [andThen]

/-! ### Closed forms of `less` closures -/

theorem wlLess_eq (a b : Wl) :
    cmpOfLess wlLess a b = andThen (natCmp a.time b.time) (strCmp a.uid b.uid) := by
  unfold cmpOfLess wlLess natCmp strCmp
  by_cases h1 : a.time < b.time
  · have h2 : a.time ≠ b.time := by omega
    simp [h1, h2, andThen]
  · by_cases h2 : a.time = b.time
    · rcases str_trichotomy a.uid b.uid with ⟨c1, c2, c3⟩ | c | ⟨c1, c2, c3⟩
      · simp [h2, c1, andThen]
      · simp [h2, c, String.lt_irrefl, andThen]
      · simp [h2, c1, c2, c3, andThen]
    · have h3 : b.time < a.time := by omega
      have h4 : b.time ≠ a.time := by omega
      simp [h1, h2, h3, h4, andThen]

theorem shardLess_eq (a b : ShardKey) :
    cmpOfLess shardLess a b = andThen (strCmp a.provider b.provider) (strCmp a.cluster b.cluster) := by
  unfold cmpOfLess shardLess strCmp
  rcases str_trichotomy a.provider b.provider with ⟨h1, h2, h3⟩ | h | ⟨h1, h2, h3⟩
  · simp [h1, h3, andThen]
  · rcases str_trichotomy a.cluster b.cluster with ⟨c1, c2, c3⟩ | c | ⟨c1, c2, c3⟩
    · simp [h, c1, String.lt_irrefl, andThen]
    · simp [h, c, String.lt_irrefl, andThen]
    · simp [h, c1, c2, c3, String.lt_irrefl, andThen]
  · have h3' : b.provider ≠ a.provider := fun e => h3 e.symm
    simp [h1, h2, h3, h3', andThen]

theorem shardKey_injective (a b : ShardKey) (h : (a.provider, a.cluster) = (b.provider, b.cluster)) :
    a = b := by
  cases a; cases b; simp at h; simp [h]

theorem lkeyLess_eq (a b : LKey) :
    cmpOfLess lkeyLess a b = andThen (strCmp a.bind b.bind) (natCmp a.port b.port) := by
  unfold cmpOfLess lkeyLess strCmp natCmp
  rcases str_trichotomy a.bind b.bind with ⟨h1, h2, h3⟩ | h | ⟨h1, h2, h3⟩
  · simp [h1, h3, andThen]
  · by_cases c1 : a.port < b.port
    · simp [h, c1, andThen]
    · by_cases c2 : a.port = b.port
      · simp [h, c2, andThen]
      · have c3 : b.port < a.port := by omega
        simp [h, c1, c2, c3, andThen]
  · have h3' : b.bind ≠ a.bind := fun e => h3 e.symm
    simp [h1, h2, h3, h3', andThen]

theorem aliasLess_eq (a b : String × String) :
    cmpOfLess aliasLess a b = andThen (strCmp a.1 b.1) (strCmp a.2 b.2) := by
  unfold cmpOfLess aliasLess strCmp
  rcases str_trichotomy a.1 b.1 with ⟨h1, h2, h3⟩ | h | ⟨h1, h2, h3⟩
  · simp [h1, h3, andThen]
  · rcases str_trichotomy a.2 b.2 with ⟨c1, c2, c3⟩ | c | ⟨c1, c2, c3⟩
    · simp [h, c1, andThen]
    · simp [h, c, String.lt_irrefl, andThen]
    · simp [h, c1, c2, c3, andThen]
  · have h3' : b.1 ≠ a.1 := fun e => h3 e.symm
    simp [h1, h2, h3, h3', andThen]

/-! ### pickBestVisibleNamespace -/

def effTime (s : NsSvc) : Nat := if s.kube then 0 else s.time

def kubeCmp (a b : NsSvc) : Ordering :=
  if a.kube && !b.kube then .lt else if !a.kube && b.kube then .gt else .eq

theorem kubeCmp_total : TotalOnKey kubeCmp NsSvc.kube := by
  constructor
  · intro a b; unfold kubeCmp; cases a.kube <;> cases b.kube <;> simp
  · intro a b; unfold kubeCmp; cases a.kube <;> cases b.kube <;> simp [Ordering.swap]
  · intro a b c; unfold kubeCmp; cases a.kube <;> cases b.kube <;> cases c.kube <;> simp

def betterCmp (a b : NsSvc) : Ordering :=
  andThen (kubeCmp a b) (andThen (natCmp (effTime a) (effTime b)) (strCmp a.ns b.ns))

theorem better_eq (a b : NsSvc) : better a b = ltOf betterCmp a b := by
  unfold better ltOf betterCmp kubeCmp effTime natCmp strCmp
  cases ha : a.kube <;> cases hb : b.kube <;> simp [andThen]
  · by_cases h1 : a.time < b.time
    · have : a.time ≠ b.time := by omega
      simp [h1, this]
    · by_cases h2 : a.time = b.time
      · simp [h2]
        rcases str_trichotomy a.ns b.ns with ⟨c1, _, _⟩ | c | ⟨_, c2, c3⟩
        · simp [c1]
        · simp [c, String.lt_irrefl]
        · simp [c2, c3]
      · simp [h1, h2]
  · rcases str_trichotomy a.ns b.ns with ⟨c1, _, _⟩ | c | ⟨_, c2, c3⟩
    · simp [c1]
    · simp [c, String.lt_irrefl]
    · simp [c2, c3]

/-! ### TranslateRouteMatch -/

theorem cmp_total_entries : TotalOnKey (cmpOfLess entryLess) (fun e : String × Nat => e.1) :=
  (strCmp_total (fun e : String × Nat => e.1)).congr
    (fun a b => (cmpOfLess_str (fun e : String × Nat => e.1) a b).symm)

/-- Keys of a Go map are distinct: entries with equal names are equal. -/
def MapKeys (l : List (String × Nat)) : Prop := KeysDistinct (fun e : String × Nat => e.1) l

theorem byKey_perm {l₁ l₂ : List (String × Nat)} (hd : MapKeys l₁) (p : l₁.Perm l₂) :
    byKey l₁ = byKey l₂ :=
  sort_canonical_less_aux cmp_total_entries (isort_isSort_less_aux cmp_total_entries) hd p

/-! ### watchedResourcesByOrder -/

theorem watchedByOrder_shape (l : List String) :
    watchedByOrder l = pushOrder.filter (fun t => l.contains t) ++ l.filter (fun t => !pushOrder.contains t) := rfl

/-! ### The insertion sort only looks at pairs of members -/

theorem insertBy_congr {α : Type} (lt₁ lt₂ : α → α → Bool) (x : α) :
    ∀ l : List α, (∀ y ∈ l, lt₁ y x = lt₂ y x) → insertBy lt₁ x l = insertBy lt₂ x l
  | [], _ => rfl
  | y :: ys, h => by
    unfold insertBy
    have hy := h y (by simp)
    rw [hy, insertBy_congr lt₁ lt₂ x ys (fun z hz => h z (List.mem_cons_of_mem _ hz))]

theorem isort_congr_nodup {α : Type} (lt₁ lt₂ : α → α → Bool) :
    ∀ l : List α, l.Nodup → (∀ a b, a ∈ l → b ∈ l → a ≠ b → lt₁ a b = lt₂ a b) → isort lt₁ l = isort lt₂ l
  | [], _, _ => rfl
  | x :: xs, nd, h => by
    have ndc := List.nodup_cons.1 nd
    have ih := isort_congr_nodup lt₁ lt₂ xs ndc.2
      (fun a b ha hb hne => h a b (List.mem_cons_of_mem _ ha) (List.mem_cons_of_mem _ hb) hne)
    simp only [isort]
    rw [ih]
    apply insertBy_congr
    intro y hy
    have hy' : y ∈ xs := (isort_perm lt₂ xs).mem_iff.1 hy
    have hne : y ≠ x := fun e => ndc.1 (e ▸ hy')
    exact h y x (List.mem_cons_of_mem _ hy') (by simp) hne

/-! ### P1: the service index -/

theorem idxLookup_idxSet_same (k : SKey) (v : Svc) :
    ∀ idx : List (SKey × Svc), idxLookup k (idxSet k v idx) = some v
  | [] => by simp [idxSet, idxLookup]
  | e :: r => by
    unfold idxSet
    by_cases h : e.1 = k
    · simp [h, idxLookup]
    · simp [h, idxLookup, idxLookup_idxSet_same k v r]

theorem idxLookup_idxSet_ne (k k' : SKey) (v : Svc) (hne : k' ≠ k) :
    ∀ idx : List (SKey × Svc), idxLookup k' (idxSet k v idx) = idxLookup k' idx
  | [] => by
    simp only [idxSet, idxLookup]
    have : ¬ k = k' := fun e => hne e.symm
    simp [this]
  | e :: r => by
    unfold idxSet
    by_cases h : e.1 = k
    · have h2 : ¬ e.1 = k' := fun e2 => hne (e2.symm.trans h)
      have h3 : ¬ k = k' := fun e => hne e.symm
      rw [if_pos h]
      simp only [idxLookup, h2, h3, if_false]
    · rw [if_neg h]
      by_cases h2 : e.1 = k'
      · simp only [idxLookup, h2, if_true]
      · simp only [idxLookup, h2, if_false]
        exact idxLookup_idxSet_ne k k' v hne r

theorem winnerOf_nil : winnerOf [] = none := rfl

theorem winnerOf_none {l : List Svc} (h : winnerOf l = none) : l = [] := by
  unfold winnerOf at h
  cases hf : l.find? (·.kube) with
  | some k => simp [hf] at h
  | none =>
    simp [hf] at h
    exact h

/-- Appending one service to the claimants of a key: the rule of `indexStep`. -/
theorem winnerOf_snoc (l : List Svc) (s : Svc) :
    winnerOf (l ++ [s]) =
      match winnerOf l with
      | none => some s
      | some e => if !e.kube && s.kube then some s else some e := by
  unfold winnerOf
  cases hf : l.find? (·.kube) with
  | some k =>
    have hk : k.kube = true := by
      have := List.find?_some hf
      simpa using this
    simp [List.find?_append, hf, hk]
  | none =>
    cases l with
    | nil =>
      cases hs : s.kube <;> simp [List.find?, hs]
    | cons a r =>
      have ha : a.kube = false := by
        have := List.find?_eq_none.1 hf a (by simp)
        simpa using this
      have hr : r.find? (·.kube) = none := by
        simpa [List.find?, ha] using hf
      cases hs : s.kube <;> simp [List.find?_append, List.find?, hs, ha, hr]

/-- Invariant of the fold of `initServiceRegistry`: after the services `done`, the index holds for
    every key the winner among the claimants of that key in `done`. -/
theorem indexFold_lookup (k : SKey) :
    ∀ (todo done : List Svc) (idx : List (SKey × Svc)),
      (∀ k', idxLookup k' idx = winnerOf (done.filter (fun s => s.skey = k'))) →
      idxLookup k (todo.foldl indexStep idx) = winnerOf ((done ++ todo).filter (fun s => s.skey = k))
  | [], done, idx, inv => by simp [inv k]
  | s :: todo, done, idx, inv => by
    have step : ∀ k', idxLookup k' (indexStep idx s) = winnerOf ((done ++ [s]).filter (fun t => t.skey = k')) := by
      intro k'
      by_cases hk : s.skey = k'
      · subst hk
        have hw := inv s.skey
        rw [List.filter_append]
        simp only [List.filter_cons, decide_true, List.filter_nil, if_true]
        rw [winnerOf_snoc, ← hw]
        unfold indexStep
        cases hl : idxLookup s.skey idx with
        | none => simp [idxLookup_idxSet_same]
        | some e =>
          by_cases hc : (!e.kube && s.kube) = true
          · simp [hc, idxLookup_idxSet_same]
          · simp [hc, hl]
      · have hne : k' ≠ s.skey := fun e => hk e.symm
        rw [List.filter_append]
        have : ([s].filter (fun t => t.skey = k')) = [] := by simp [hk]
        rw [this, List.append_nil, ← inv k']
        unfold indexStep
        cases hl : idxLookup s.skey idx with
        | none => simp [idxLookup_idxSet_ne _ _ _ hne]
        | some e =>
          by_cases hc : (!e.kube && s.kube) = true
          · simp [hc, idxLookup_idxSet_ne _ _ _ hne]
          · simp [hc]
    have := indexFold_lookup k todo (done ++ [s]) (indexStep idx s) step
    simpa [List.foldl_cons, List.append_assoc] using this

/-! ### P3: shards keyed by a Go map -/

theorem filter_key_length_le_one {κ β : Type} [DecidableEq κ] (k : κ) :
    ∀ l : List (κ × β), (l.map (·.1)).Nodup → (l.filter (fun s => s.1 = k)).length < 2
  | [], _ => by simp
  | e :: r, nd => by
    rw [List.map_cons] at nd
    have ndc := List.nodup_cons.1 nd
    have ih := filter_key_length_le_one k r ndc.2
    by_cases h : e.1 = k
    · have : r.filter (fun s => s.1 = k) = [] := by
        apply List.filter_eq_nil_iff.2
        intro x hx hxk
        have hxk' : x.1 = k := by simpa using hxk
        exact ndc.1 (List.mem_map.2 ⟨x, hx, hxk'.trans h.symm⟩)
      simp [h, this]
    · simp [h]
      exact ih

/-! ### P2: `claimVips` without the accumulator -/

theorem firstClaimant_host_mem (v : String) : ∀ (l : List VSvc) (h : String), firstClaimant v l = some h → h ∈ l.map (·.host)
  | [], h, e => by simp [firstClaimant] at e
  | s :: r, h, e => by
    by_cases hv : s.vip = v
    · simp [firstClaimant, hv] at e
      simp [e]
    · simp [firstClaimant, hv] at e
      simp [firstClaimant_host_mem v r h e]

theorem claimVips_spec : ∀ (l : List VSvc) (c : List String), (l.map (·.host)).Nodup →
    claimVips l c = l.map (fun s => (s.host, keepsVip c l s))
  | [], c, _ => by simp [claimVips]
  | s :: r, c, nd => by
    rw [List.map_cons] at nd
    have ndc := List.nodup_cons.1 nd
    have tail : ∀ c', (∀ t ∈ r, keepsVip c' r t = keepsVip c (s :: r) t) →
        claimVips r c' = r.map (fun t => (t.host, keepsVip c (s :: r) t)) := by
      intro c' h
      rw [claimVips_spec r c' ndc.2]
      apply List.map_congr_left
      intro t ht
      rw [h t ht]
    have hne : ∀ t ∈ r, t.host ≠ s.host := fun t ht e => ndc.1 (e ▸ List.mem_map.2 ⟨t, ht, rfl⟩)
    have self : firstClaimant s.vip (s :: r) = some s.host := by simp [firstClaimant]
    unfold claimVips
    by_cases h1 : s.vip = ""
    · simp only [h1, if_true, List.map_cons]
      rw [tail c]
      · simp [keepsVip, h1]
      · intro t ht
        unfold keepsVip
        by_cases e : s.vip = t.vip
        · have : t.vip = "" := by rw [← e, h1]
          simp [this]
        · simp [firstClaimant, e]
    · by_cases h2 : c.contains s.vip = true
      · have hm : s.vip ∈ c := by simpa using h2
        simp only [h1, h2, if_true, if_false, List.map_cons]
        rw [tail c]
        · simp [keepsVip, hm]
        · intro t ht
          unfold keepsVip
          by_cases e : s.vip = t.vip
          · rw [← e]; simp [hm]
          · simp [firstClaimant, e]
      · simp only [h1, h2, if_false, List.map_cons]
        rw [tail (s.vip :: c)]
        · have hm : ¬ s.vip ∈ c := by simpa using h2
          simp [keepsVip, h1, hm, self]
        · intro t ht
          unfold keepsVip
          by_cases e : s.vip = t.vip
          · have hh : ¬ s.host = t.host := fun x => hne t ht x.symm
            simp [firstClaimant, e, hh]
          · have e' : ¬ t.vip = s.vip := fun x => e x.symm
            simp [firstClaimant, e, e']

/-- In a list ordered by hostname the first claimant of an address has the least hostname among the claimants. -/
theorem firstClaimant_least (v : String) : ∀ (l : List VSvc) (h : String),
    l.Pairwise (fun a b => vsvcLess b a = false) → firstClaimant v l = some h →
    ∀ s ∈ l, s.vip = v → ¬ s.host < h
  | [], _, _, e => by simp [firstClaimant] at e
  | x :: r, h, pw, e => by
    have pwc := List.pairwise_cons.1 pw
    intro s hs hv
    by_cases hx : x.vip = v
    · simp [firstClaimant, hx] at e
      rcases List.mem_cons.1 hs with rfl | hr
      · rw [← e]; exact String.lt_irrefl _
      · have := pwc.1 s hr
        rw [← e]
        simpa [vsvcLess] using this
    · simp [firstClaimant, hx] at e
      rcases List.mem_cons.1 hs with rfl | hr
      · exact absurd hv hx
      · exact firstClaimant_least v r h pwc.2 e s hr hv

/-! ### P6: the fold of mergeDestinationRule -/

theorem mergeFold_src_aux : ∀ (l : List DRule) (m : MergedDR),
    (l.foldl mergeStep (some m)).map (·.src) = some (m.src ++ l.map (·.cfg.id))
  | [], m => by simp
  | d :: r, m => by
    rw [List.foldl_cons]
    show (r.foldl mergeStep (some _)).map (·.src) = _
    rw [mergeFold_src_aux r]
    simp

theorem mergeFold_policy_aux : ∀ (l : List DRule) (m : MergedDR),
    (l.foldl mergeStep (some m)).map (·.policy) = some (if m.policy = "" then firstPolicy l else m.policy)
  | [], m => by simp [firstPolicy]
  | d :: r, m => by
    rw [List.foldl_cons]
    show (r.foldl mergeStep (some _)).map (·.policy) = _
    rw [mergeFold_policy_aux r]
    by_cases h : m.policy = ""
    · by_cases h2 : d.policy = ""
      · simp [h, h2, firstPolicy]
      · simp [h, h2, firstPolicy]
    · simp [h]

theorem lookupOwner_append (s : String) : ∀ (a b : List (String × Nat)),
    lookupOwner s (a ++ b) = (lookupOwner s a).or (lookupOwner s b)
  | [], b => by simp [lookupOwner]
  | e :: r, b => by
    by_cases h : e.1 = s
    · simp [lookupOwner, h]
    · simp [lookupOwner, h, lookupOwner_append s r b]

theorem lookupOwner_none_iff (s : String) : ∀ (a : List (String × Nat)),
    lookupOwner s a = none ↔ (a.map (·.1)).contains s = false
  | [] => by simp [lookupOwner]
  | e :: r => by
    by_cases h : e.1 = s
    · simp [lookupOwner, h]
    · have h' : ¬ s = e.1 := fun x => h x.symm
      simp [lookupOwner, h, h', lookupOwner_none_iff s r]

theorem lookupOwner_new (s : String) (id : Nat) (names : List String) (hn : names.contains s = false) :
    ∀ subs : List String,
    lookupOwner s ((subs.filter (fun x => !names.contains x)).map (fun x => (x, id)))
      = if subs.contains s then some id else none
  | [] => by simp [lookupOwner]
  | x :: r => by
    have ih := lookupOwner_new s id names hn r
    by_cases hx : x = s
    · subst hx
      rw [List.filter_cons]
      simp only [hn, Bool.not_false, if_true, List.map_cons, lookupOwner]
      simp
    · have hx' : ¬ s = x := fun e => hx e.symm
      by_cases hc : names.contains x = true
      · rw [List.filter_cons]
        simp only [hc, Bool.not_true, Bool.false_eq_true, if_false]
        rw [ih]
        simp [hx']
      · rw [List.filter_cons]
        have hc' : names.contains x = false := by simpa using hc
        simp only [hc', Bool.not_false, if_true, List.map_cons, lookupOwner, hx, if_false]
        rw [ih]
        simp [hx']

theorem mergeFold_owner_aux (s : String) : ∀ (l : List DRule) (m : MergedDR),
    (l.foldl mergeStep (some m)).bind (fun r => lookupOwner s r.subsets)
      = (lookupOwner s m.subsets).or (firstWithSubset s l)
  | [], m => by simp [firstWithSubset]
  | d :: r, m => by
    rw [List.foldl_cons]
    show (r.foldl mergeStep (some _)).bind (fun r => lookupOwner s r.subsets) = _
    rw [mergeFold_owner_aux s r]
    simp only [lookupOwner_append]
    cases hm : lookupOwner s m.subsets with
    | some e => simp
    | none =>
      have hn := (lookupOwner_none_iff s m.subsets).1 hm
      rw [lookupOwner_new s d.cfg.id _ hn d.subsets]
      by_cases hc : d.subsets.contains s = true
      · have hm' : s ∈ d.subsets := by simpa using hc
        simp [hm', firstWithSubset]
      · have hm' : ¬ s ∈ d.subsets := by simpa using hc
        simp [hm', firstWithSubset]


end IstioModel.C17
