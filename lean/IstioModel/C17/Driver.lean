import IstioModel.Common.Wire
import IstioModel.C17.Model
import IstioModel.C17.Pipeline
import IstioModel.C17.Monitor

/-! Line-protocol driver for C17 (streams `cmp` and `mon`). See harness/c17. -/
namespace IstioModel.C17
open IstioModel.Wire

def elems (t : String) : List String := if t == "-" then [] else t.splitOn ","

def joinElems (l : List String) : String := if l.isEmpty then "-" else ",".intercalate l

def fieldsOf (e : String) : List String := (e.splitOn ";").map dec

def natLess (a b : Nat) : Bool := decide (a < b)

/-- Group adjacent elements that tie (the sort used by the real code is not stable there);
    ids inside a group ascending. -/
def groupTies {α : Type} (tie : α → α → Bool) (idOf : α → Nat) : List α → List (List Nat)
  | [] => []
  | x :: xs =>
    match groupTies tie idOf xs, xs with
    | g :: gs, y :: _ => if tie x y then (idOf x :: g) :: gs else [idOf x] :: g :: gs
    | _, _ => [[idOf x]]

def showGroups (gs : List (List Nat)) : String :=
  joinElems (gs.map (fun g => "=".intercalate ((isort natLess g).map toString)))

def parseSvc (e : String) : Option Svc :=
  match fieldsOf e with
  | [i, t, n, s, o, h, a] =>
    some { id := i.toNat!, time := t.toNat!, name := n, ns := s, objName := o, host := h, addr := a }
  | [i, t, n, s, o, h, a, k] =>
    some { id := i.toNat!, time := t.toNat!, name := n, ns := s, objName := o, host := h, addr := a, kube := k == "1" }
  | _ => none

def parseInt (s : String) : Int :=
  if s.startsWith "-" then -((s.drop 1).toString.toNat! : Int) else (s.toNat! : Int)

def parsePair (e : String) : Option (String × String) :=
  match fieldsOf e with
  | [a, b] => some (a, b)
  | _ => none

def parseEF (e : String) : Option EF :=
  match fieldsOf e with
  | [i, ns, n, p, t, z] => some { id := i.toNat!, ns := ns, name := n, prio := parseInt p, time := t.toNat!, zone := z.toNat! }
  | _ => none

def parseTE (e : String) : Option TE :=
  match fieldsOf e with
  | [i, t, n, ns, p, ph] =>
    some { id := i.toNat!, time := t.toNat!, name := n, ns := ns, prio := if p == "-" then none else some (parseInt p), phase := ph.toNat! }
  | _ => none

/-- `id;time;name;ns;host;subsets;policy`: subsets `v1+v2` or `-`, policy `0` = none. -/
def parseDRule (e : String) : Option DRule :=
  match fieldsOf e with
  | [i, t, n, ns, h, ss, p] =>
    some { cfg := { id := i.toNat!, time := t.toNat!, name := n, ns := ns, sel := false }, host := h,
           subsets := if ss == "-" then [] else ss.splitOn "+", policy := if p == "0" then "" else p }
  | _ => none

def showMerged : Option MergedDR → String
  | none => "none"
  | some m =>
    s!"from={joinElems (m.src.map toString)} subsets={joinElems (m.subsets.map (fun e => e.1 ++ "@" ++ toString e.2))} policy={if m.policy == "" then "0" else m.policy}"

def showIds {α : Type} (idOf : α → Nat) (l : List α) : String := joinElems (l.map (fun x => toString (idOf x)))

/-- `ns;kube;time;visible`: only visible entries take part (`IsServiceVisible` is C07's subject). -/
def parseNsSvc (e : String) : Option NsSvc :=
  match fieldsOf e with
  | [n, k, t, v] => if v == "1" then some { ns := n, kube := k == "1", time := t.toNat! } else none
  | _ => none

def parseKeyId (e : String) : Option (String × Nat) :=
  match (e.splitOn "@").reverse with
  | m :: rest => some (dec ("@".intercalate rest.reverse), m.toNat!)
  | [] => none

/-- One slice token `name;key@id,...`. -/
def parseSlice (t : String) : Option Slice :=
  match t.splitOn ";" with
  | [n, eps] => some { name := dec n, eps := (elems eps).filterMap parseKeyId }
  | _ => none

def parseCfg (e : String) : Option Cfg :=
  match fieldsOf e with
  | [i, t, n, s, b] => some { id := i.toNat!, time := t.toNat!, name := n, ns := s, sel := b == "1" }
  | _ => none

def parseWl (e : String) : Option Wl :=
  match fieldsOf e with
  | [i, t, u] => some { id := i.toNat!, time := t.toNat!, uid := u }
  | _ => none

def parseKey (e : String) : Option ShardKey :=
  match fieldsOf e with
  | [p, c] => some { provider := p, cluster := c }
  | _ => none

def parseNM (t : String) : List (String × Nat) :=
  (elems t).filterMap (fun e =>
    match (e.splitOn "@").reverse with
    | m :: rest => some (dec ("@".intercalate rest.reverse), m.toNat!)
    | [] => none)

def parseEp (e : String) : Option Ep :=
  match e.splitOn "@" with
  | [i, l] => some { id := i.toNat!, loc := dec l }
  | _ => none

/-- One shard token `provider;cluster;id@loc,...`. -/
def parseShard (t : String) : Option (ShardKey × List Ep) :=
  match t.splitOn ";" with
  | [p, c, eps] => some ({ provider := dec p, cluster := dec c }, (elems eps).filterMap parseEp)
  | _ => none

/-- The `eds` op: pipeline P3; the enumeration of `localityEpMap` handed to the model is the
    first-occurrence order (any other gives the same result: `cla_perm`). -/
def edsOp (toks : List String) : String :=
  let shards := toks.filterMap parseShard
  let groups := clusterLoadAssignment shards (localitiesOf (claEndpoints shards))
  joinElems (groups.map (fun g => enc g.1 ++ ":" ++ "+".intercalate (g.2.map toString)))

def showMt (x : Mt) : String := (if x.invert then "!" else "") ++ enc x.name ++ "@" ++ toString x.m

def showMatchOut (o : MatchOut) : String :=
  s!"h={joinElems (o.headers.map showMt)} m={joinElems (o.dynMeta.map showMt)} q={joinElems (o.query.map showMt)}"

def flag (s : String) (i : Nat) : Bool := (s.toList.drop i).head? == some '1'

def stepCmp (toks : List String) : String :=
  match toks with
  | "case" :: _ => "ok"
  | ["svc", l] =>
    joinElems ((sortServicesByCreationTime ((elems l).filterMap parseSvc)).map (fun s => toString s.id))
  | ["cfg", l] =>
    showGroups (groupTies (fun a b => cfgCmp a b == .eq) (·.id) (sortConfigByCreationTime ((elems l).filterMap parseCfg)))
  | ["gwcfg", l] =>
    showGroups (groupTies (fun a b => gwCfgCmp a b == .eq) (·.id) (sortGatewayConfigs ((elems l).filterMap parseCfg)))
  | ["dr", l] =>
    showGroups (groupTies (fun a b => drCmp a b == .eq) (·.id) (sortConfigBySelectorAndCreationTime ((elems l).filterMap parseCfg)))
  | ["wl", l] =>
    joinElems ((sortWorkloadsByCreationTime ((elems l).filterMap parseWl)).map (fun w => toString w.id))
  | ["keys", l] =>
    joinElems ((shardKeys ((elems l).filterMap parseKey)).map (fun k => enc k.provider ++ ";" ++ enc k.cluster))
  | ["set", l] => encList ((sortedList (decList l)).eraseDups)
  | ["push", l] =>
    let r := watchedByOrder (decList l)
    encList (r.filter (fun t => pushOrder.contains t)) ++ "|" ++
      encList (isort strLess (r.filter (fun t => !pushOrder.contains t)))
  | "eds" :: shards => edsOp shards
  | ["pick", l, _] => enc (pickBest ((elems l).filterMap parseNsSvc))
  | ["pickf", l, _] =>
    enc (pickFirst (((elems l).filterMap parsePair).filterMap (fun p => if p.2 == "1" then some p.1 else none)))
  | ["sidx", l] =>
    let listing := (elems l).filterMap parseSvc
    let idx := (serviceIndex listing).map (fun e => enc e.1.1 ++ ";" ++ enc e.1.2 ++ "=" ++ toString e.2.id)
    s!"pub={showIds (·.id) (sortServicesByCreationTime listing)} idx={joinElems (isort strLess idx)}"
  | ["alias", _, l] =>
    joinElems ((sortAliases ((elems l).filterMap parsePair)).map (fun a => enc a.1 ++ ";" ++ enc a.2))
  | ["vh", l] =>
    let svcs := ((elems l).filterMap parsePair).map (fun p => ({ host := p.1, vip := p.2 } : VSvc))
    let own := (vipOwners svcs).map (fun o => enc o.1 ++ ":" ++ boolTok o.2)
    s!"own={joinElems (isort strLess own)} svcs={joinElems ((routeCacheServices (svcs.map (·.host))).map enc)}"
  | ["ef", l, ns] => showIds (·.id) (envoyFilterOrder "istio-system" (dec ns) ((elems l).filterMap parseEF))
  | ["te", l, ns] =>
    let listing := (elems l).filterMap parseTE
    " ".intercalate ((List.range 4).map (fun ph =>
      toString ph ++ ":" ++ showIds (·.id) (trafficExtensions "istio-system" (dec ns) listing ph)))
  | ["drm", l, ns, h] => showMerged (mergedFor (dec ns) (dec h) ((elems l).filterMap parseDRule))
  | ["inb", l] => joinElems (((sortedPorts ((elems l).map (·.toNat!))).eraseDups).map toString)
  | ["lst", l] =>
    let keys := ((elems l).filterMap parsePair).map (fun p => ({ bind := p.1, port := p.2.toNat! } : LKey))
    joinElems (((sortedLKeys keys).eraseDups).map (fun k => k.bind ++ "_" ++ toString k.port))
  | "slices" :: sl =>
    joinElems ((sliceEndpoints (sl.filterMap parseSlice)).map (fun e => enc e.1 ++ "@" ++ toString e.2))
  | ["hdr", h, w, q, mas] =>
    showMatchOut (translateMatch { headers := parseNM h, without := parseNM w, query := parseNM q,
                                   method := flag mas 0, authority := flag mas 1, scheme := flag mas 2 })
  | _ => "bad-op"

def stepMon (toks : List String) : String :=
  match toks with
  | "case" :: _ => "ok"
  | "obs" :: ty :: ds => if allEqualB ds then "ok" else s!"bad {ty}"
  | _ => "bad-op"

def step (s : Unit) (toks : List String) : Unit × String :=
  match toks with
  | "obs" :: _ => (s, stepMon toks)
  | "skip" :: _ => (s, "skip")
  | "panic" :: _ => (s, "panic")
  | "timeout" :: _ => (s, "timeout")
  | _ => (s, stepCmp toks)

end IstioModel.C17
