/-!
C17 - the monitor run over the observations of the permutation harness.  An observation line lists,
for one mesh and one xDS type, the digest of the ordered resource list of every run (K builds with
permuted insertion order x R regenerations x 2 processes); generation was deterministic on that
mesh iff all digests are equal.  Core Lean only.
-/
namespace IstioModel.C17

/-- All elements of the list are equal (to the first one). -/
def allEqualB : List String → Bool
  | [] => true
  | d :: ds => ds.all (fun x => x == d)

end IstioModel.C17
