/-
C08 - target semantics: how Envoy's RBAC filters decide a request, written from the Envoy
documentation (config.rbac.v3: "ALLOW: allows the request if and only if there is a policy that
matches; DENY: allows the request if and only if there are no policies that match; LOG: always
allows"; "a policy matches if and only if at least one of its permissions match the action taking
place AND at least one of its principals match the downstream"; type.matcher.v3 StringMatcher /
ValueMatcher / MetadataMatcher / route.v3 HeaderMatcher; core.v3 CidrRange).  No Envoy binary
exists in the sandbox: these definitions are assumptions (trusted base), kept short.
-/
import IstioModel.C08.Model

namespace IstioModel.C08

/-! ## Requests -/

/-- Peer identity carried by the client certificate of an Istio mTLS connection
    (URI SAN `spiffe://<td>/ns/<ns>/sa/<sa>`). -/
structure Identity where
  td : Str
  ns : Str
  sa : Str
deriving Repr, DecidableEq, Inhabited

/-- Istio's notation of the principal (no scheme), e.g. `cluster.local/ns/default/sa/bookinfo`. -/
def Identity.principal (i : Identity) : Str :=
  i.td ++ "/ns/".toList ++ i.ns ++ "/sa/".toList ++ i.sa

/-- The URI SAN Envoy sees. -/
def Identity.uriSan (i : Identity) : Str := spiffePrefix ++ i.principal

/-- The HTTP view of a request (absent on a raw TCP connection). `path` is the `:path` header with
    query string and fragment removed (what `url_path` matches); header names are lower case as
    Envoy stores them; one value per name (Envoy joins repeated headers with ","). -/
structure Http where
  host : Str
  method : Str
  path : Str
  headers : List (Str × Str)
deriving Repr, DecidableEq, Inhabited

/-- A dynamic-metadata leaf: a string, a list (its string elements; the string matchers the
    compiler emits never match a non-string element), or any other kind of value (number, bool,
    null, struct). -/
inductive MVal
  | str (s : Str)
  | strs (l : List Str)
  | other
deriving Repr, DecidableEq, Inhabited

/-- An IP address: family and the address as a number (32 or 128 bits).  A numeral denotes an IPv4
    address. -/
structure IP where
  v6 : Bool := false
  val : Nat
deriving Repr, DecidableEq, Inhabited

instance (n : Nat) : OfNat IP n := ⟨{ val := n }⟩

structure Request where
  srcIP : IP             -- direct remote (peer) address
  remoteIP : IP          -- `remote_ip`: client address after XFF / proxy protocol
  dstIP : IP
  dstPort : Nat
  sni : Str
  peer : Option Identity -- `none`: plaintext / no client certificate
  http : Option Http
  /-- dynamic metadata, flattened: (filter name, key path) -> leaf value -/
  metadata : List ((Str × List Str) × MVal)
deriving Repr, Inhabited

/-! ## Regular expressions: direct semantics of the generated shapes -/

inductive Piece
  | lit (s : Str)       -- literal text (QuoteMeta'd in the RE2 text)
  | dotStar             -- `.*`
  | dotPlus             -- `.+`
  | noSlashStar         -- `[^/]*`
deriving Repr, DecidableEq, Inhabited

/-- `f` holds for some suffix of the string. -/
def anySuffix (f : Str → Bool) : Str → Bool
  | [] => f []
  | c :: cs => f (c :: cs) || anySuffix f cs

/-- `f` holds for some suffix reached by dropping only characters other than '/'. -/
def anyNoSlash (f : Str → Bool) : Str → Bool
  | [] => f []
  | c :: cs => f (c :: cs) || (c != '/' && anyNoSlash f cs)

/-- Full match (RE2 `FullMatch`, as Envoy's safe_regex does) of a sequence of pieces. -/
def matchPieces : List Piece → Str → Bool
  | [], s => s.isEmpty
  | .lit l :: ps, s => l.isPrefixOf s && matchPieces ps (s.drop l.length)
  | .dotStar :: ps, s => anySuffix (matchPieces ps) s
  | .dotPlus :: ps, s =>
    match s with
    | [] => false
    | _ :: t => anySuffix (matchPieces ps) t
  | .noSlashStar :: ps, s => anyNoSlash (matchPieces ps) s

/-- literal parts separated by `.*` -/
def globPieces : List Str → List Piece
  | [] => []
  | [p] => [.lit p]
  | p :: rest => .lit p :: .dotStar :: globPieces rest

/-- The alternatives (each a piece sequence) a generated regex stands for. -/
def Rx.alts : Rx → List (List Piece)
  | .anyNonEmpty => [[.dotPlus]]
  | .prefixSuffix p s => [[.lit p, .dotStar, .lit s]]
  | .nsGlob parts => [[.dotStar, .lit "/ns/".toList] ++ globPieces parts ++ [.lit ['/'], .dotStar]]
  | .saPath ns sa =>
    [ [.lit spiffePrefix, .dotPlus, .lit "/ns/".toList, .lit ns, .lit ['/'], .lit "sa/".toList, .lit sa],
      [.lit spiffePrefix, .dotPlus, .lit "/ns/".toList, .lit ns, .lit ['/'], .lit "sa/".toList, .lit sa, .lit ['/'], .dotPlus],
      [.lit spiffePrefix, .dotPlus, .lit "/ns/".toList, .lit ns, .lit ['/'], .dotPlus, .lit ['/'], .lit "sa/".toList, .lit sa],
      [.lit spiffePrefix, .dotPlus, .lit "/ns/".toList, .lit ns, .lit ['/'], .dotPlus, .lit ['/'], .lit "sa/".toList, .lit sa, .lit ['/'], .dotPlus] ]
  | .tdGlob p s => [[.lit spiffePrefix, .lit p, .noSlashStar, .lit s, .lit ['/'], .dotStar]]

def Rx.matches (r : Rx) (s : Str) : Bool := r.alts.any (matchPieces · s)

/-! ## Matchers -/

def evalStrM : StrM → Str → Bool
  | .exact s ic, x => if ic then lower x == lower s else x == s
  | .pfx s ic, x => if ic then hasPrefix (lower s) (lower x) else hasPrefix s x
  | .sfx s ic, x => if ic then hasSuffix (lower s) (lower x) else hasSuffix s x
  | .regex r, x => r.matches x

/-- `CidrRange` containment: same address family and the first `len` bits agree (an IPv4 address is
    never inside an IPv6 range, nor the other way round). -/
def Cidr.contains (c : Cidr) (ip : IP) : Bool :=
  c.v6 == ip.v6 && (ip.val >>> (c.width - c.len)) == (c.addr >>> (c.width - c.len))

mutual
def evalVal : ValM → MVal → Bool
  | .str m, .str s => evalStrM m s
  | .str _, .strs _ => false
  | .listM v, .strs l => l.any fun s => evalVal v (.str s)
  | .listM _, .str _ => false
  | .str _, .other => false
  | .listM _, .other => false
  | .orM l, x => evalValAny l x
def evalValAny : List ValM → MVal → Bool
  | [], _ => false
  | v :: vs, x => evalVal v x || evalValAny vs x
end

def lookupMeta (req : Request) (filter : Str) (path : List Str) : Option MVal :=
  (req.metadata.find? fun e => e.1.1 == filter && e.1.2 == path).map (·.2)

/-- MetadataMatcher: the value at `filter`/`path` must exist and match. -/
def evalMeta (m : MetaM) (req : Request) : Bool :=
  match lookupMeta req m.filter m.path with
  | some x => evalVal m.value x
  | none => false

/-- Header lookup: name compared case-insensitively; `:authority` / `:method` come from the
    request line. -/
def lookupHeader (name : Str) (h : Http) : Option Str :=
  if lower name = hostHeader then some h.host
  else if lower name = methodHeader then some h.method
  else (h.headers.find? fun e => lower e.1 == lower name).map (·.2)

/-- HeaderMatcher: `present_match` or `string_match` on the header value; an absent header (or a
    connection without HTTP) does not match. -/
def evalHeader (name : Str) (m : Option StrM) (req : Request) : Bool :=
  match req.http with
  | none => false
  | some h =>
    match lookupHeader name h with
    | none => false
    | some v => match m with
      | none => true
      | some sm => evalStrM sm v

/-- The name the `authenticated` principal (or Istio's `io.istio.peer_principal` filter state) is
    matched against. -/
def peerName (req : Request) : Option Str := req.peer.map Identity.uriSan

/-- `f` holds for some suffix of the segment list. -/
def anyTail (f : List Str → Bool) : List Str → Bool
  | [] => f []
  | s :: ss => f (s :: ss) || anyTail f ss

/-- Path templates (`uri_template`), on '/'-separated segments: `*` = exactly one non-empty
    segment, `**` = one or more segments (possibly empty ones), literals match themselves.
    (Envoy additionally restricts the characters to RFC 3986 pchar; not modelled.) -/
def templateSegs : List Str → List Str → Bool
  | [], segs => segs.isEmpty
  | t :: ts, segs =>
    match segs with
    | [] => false
    | s :: ss =>
      if t = "**".toList then anyTail (templateSegs ts) ss
      else (if t = star then !s.isEmpty else s == t) && templateSegs ts ss

def templateMatch (tmpl path : Str) : Bool := templateSegs (splitOn '/' tmpl) (splitOn '/' path)

mutual
def evalM : Matcher → Request → Bool
  | .any, _ => true
  | .and l, r => evalAll l r
  | .or l, r => evalAny l r
  | .not m, r => !evalM m r
  | .destIP c, r => c.contains r.dstIP
  | .destPort p, r => r.dstPort == p
  | .sni m, r => evalStrM m r.sni
  | .urlPath m, r => match r.http with | some h => evalStrM m h.path | none => false
  | .uriTemplate t, r => match r.http with | some h => templateMatch t h.path | none => false
  | .authenticated m, r => match peerName r with | some n => evalStrM m n | none => false
  | .filterState k m, r =>
    if k = peerPrincipalKey then (match peerName r with | some n => evalStrM m n | none => false) else false
  | .directRemoteIP c, r => c.contains r.srcIP
  | .remoteIP c, r => c.contains r.remoteIP
  | .header n m, r => evalHeader n m r
  | .metadata m, r => evalMeta m r
def evalAll : List Matcher → Request → Bool
  | [], _ => true
  | m :: ms, r => evalM m r && evalAll ms r
def evalAny : List Matcher → Request → Bool
  | [], _ => false
  | m :: ms, r => evalM m r || evalAny ms r
end

/-- A policy matches iff some permission AND some principal match. -/
def evalPolicy (p : EPolicy) (req : Request) : Bool :=
  evalAny p.permissions req && evalAny p.principals req

/-- `true` = the request passes this RBAC. -/
def evalRBAC (r : RBAC) (req : Request) : Bool :=
  match r.action with
  | .allow => r.policies.any fun e => evalPolicy e.2 req
  | .deny => !(r.policies.any fun e => evalPolicy e.2 req)
  | .log => true

/-- A filter without `rules` enforces nothing; shadow rules never affect the decision. -/
def evalFilter (f : Filter) (req : Request) : Bool :=
  match f.rules with
  | none => true
  | some r => evalRBAC r req

/-- The filter chain: the request is admitted iff every filter, in order, lets it pass. -/
def evalFilters (fs : List Filter) (req : Request) : Bool := fs.all (evalFilter · req)

/-- A generated filter lets the request pass: RBAC as above; the ext_authz filter of a CUSTOM provider
    is taken to allow (the external authorizer's answer is outside the statement). -/
def evalG : GFilter → Request → Bool
  | .rbac f, r => evalFilter f r
  | .extAuthz _ _ _ _, _ => true

def evalGs (fs : List GFilter) (req : Request) : Bool := fs.all (evalG · req)

/-! ## CUSTOM: when the external authorizer is consulted

An RBAC filter evaluates its shadow rules next to its enforced ones; when a shadow policy matches it
writes the name of the matching policy (Envoy keeps the policies in a map ordered by name: the first
one in that order) to its dynamic metadata under `<shadow prefix>shadow_effective_policy_id`.  The
`ext_authz` filter of a CUSTOM provider is enabled by a metadata matcher on exactly that key: it is
consulted when the stored id starts with `istio-ext-authz-<provider>`.  A later RBAC filter of the
same name overwrites the key only when one of ITS shadow policies matches. -/

/-- The smallest name (byte order). -/
def minName : List Str → Option Str
  | [] => none
  | n :: ns => match minName ns with
    | none => some n
    | some m => if strLt m n then some m else some n

/-- The id the shadow engine of the filter writes for the request, if any. -/
def shadowWrite (f : Filter) (req : Request) : Option Str :=
  match f.shadow with
  | some r => minName ((r.policies.filter fun e => evalPolicy e.2 req).map (·.1))
  | none => none

/-- Walks the chain: `cur` is the value currently stored under the CUSTOM shadow key; returns the id
    prefixes of the `ext_authz` filters whose enabling matcher holds, in chain order. -/
def extAuthzEnabled : List GFilter → Option Str → Request → List Str
  | [], _, _ => []
  | .rbac f :: rest, cur, req =>
    extAuthzEnabled rest
      (if f.shadowPrefix == extAuthzShadowPrefix then (shadowWrite f req).orElse (fun _ => cur) else cur) req
  | .extAuthz _ _ pfx _ :: rest, cur, req =>
    (if cur.any (hasPrefix pfx) then [pfx] else []) ++ extAuthzEnabled rest cur req

/-- The same walk, returning WHERE the check requests go: the targets of the consulted filters. -/
def extAuthzTargets : List GFilter → Option Str → Request → List ExtTarget
  | [], _, _ => []
  | .rbac f :: rest, cur, req =>
    extAuthzTargets rest
      (if f.shadowPrefix == extAuthzShadowPrefix then (shadowWrite f req).orElse (fun _ => cur) else cur) req
  | .extAuthz _ _ pfx t :: rest, cur, req =>
    (if cur.any (hasPrefix pfx) then [t] else []) ++ extAuthzTargets rest cur req

end IstioModel.C08
