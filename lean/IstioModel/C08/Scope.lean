/-
C08 - the hypotheses of the main theorems as computable predicates (core Lean only: the driver
evaluates them on every generated case, stream `hyps`).
-/
import IstioModel.C08.Spec

namespace IstioModel.C08

/-- A peer identity as Istio issues it: non-empty trust domain and no '/' inside trust domain,
    namespace and service account. -/
def Identity.wf (i : Identity) : Bool :=
  !i.td.isEmpty && !i.td.contains '/' && !i.ns.contains '/' && !i.sa.contains '/'

/-- Neither the trust domain nor the namespace is literally `ns` (the unanchored `.*/ns/` of the
    namespace matcher would otherwise find a second anchor). -/
def Identity.nsSafe (i : Identity) : Bool := i.td != "ns".toList && i.ns != "ns".toList

/-- `namespaces` / `source.namespace` value without wildcard and without '/'. -/
def nsValueExact (v : Str) : Bool := !v.contains '*' && !v.contains '/'

/-- `namespaces` / `source.namespace` values whose translation is proved exact: no '/', and one of
    the documented forms - exact, `prefix*` (incl. `*`), `*suffix` with a suffix other than `a` and
    `sa` (for those two the generated regex over-matches: finding 1). -/
def nsValueOK (v : Str) : Bool :=
  !v.contains '/' &&
  (!v.contains '*' ||
   (hasSuffix star v && !v.dropLast.contains '*') ||
   (hasPrefix star v && !(v.drop 1).contains '*' && v.drop 1 != [] && v.drop 1 != "a".toList &&
     v.drop 1 != "sa".toList))

/-- The peer identity (if any) has the Istio form. -/
def Request.peerWF (r : Request) : Bool := r.peer.all (·.wf)

/-- ... and neither its trust domain nor its namespace is literally `ns` (finding 1, anchor form). -/
def Request.peerNs (r : Request) : Bool := r.peer.all fun i => i.wf && i.nsSafe

/-- The header `request.headers[<name>]` designates is absent from the request or has a non-empty
    value (for an empty value the generated `present_match` of the value `*` differs from the
    documented "not empty": finding 4). -/
def headerNonEmpty (key : Str) (r : Request) : Bool :=
  r.http.all fun h =>
    match extractNameInBrackets (trimPrefix attrRequestHeader key) with
    | some name => (lookupHeader name h).all (!·.isEmpty)
    | none => true

/-- Side conditions, per (attribute, value, request), under which the translation of a principal-side
    value is proved exact.  They only concern the part of the request the matcher reads: a policy
    that uses none of these attributes puts no condition on the request at all. -/
def prinValueOK (g : Gen) (key v : Str) (r : Request) : Bool :=
  match g with
  | .srcNamespace => nsValueOK v && r.peerNs
  | .srcServiceAccount pns => !pns.contains '/' && r.peerWF
  | .srcTrustDomain => !v.contains '/' && r.peerWF
  | .requestHeader => v != star || headerNonEmpty key r
  | _ => true

def permTranslated (tcp : Bool) (r : MRule) : Bool :=
  if r.g.extended then
    (r.values.isEmpty || (genExtPermission r.g r.key r.values tcp).isSome) &&
    (r.notValues.isEmpty || (genExtPermission r.g r.key r.notValues tcp).isSome)
  else (r.values ++ r.notValues).all fun v => (genPermission r.g r.key v tcp).isSome

def prinTranslated (tcp auth : Bool) (r : MRule) : Bool :=
  if r.g.extended then
    (r.values.isEmpty || (genExtPrincipal r.g r.key r.values tcp).isSome) &&
    (r.notValues.isEmpty || (genExtPrincipal r.g r.key r.notValues tcp).isSome)
  else (r.values ++ r.notValues).all fun v => (genPrincipal r.g r.key v tcp auth).isSome

def modelTranslated (tcp auth : Bool) (m : Model) : Bool :=
  m.permissions.all (fun rl => rl.all (permTranslated tcp)) &&
  m.principals.all (fun rl => rl.all (prinTranslated tcp auth))

/-- The issuer does not itself start with the whole `prefix` of a `prefix*` value that contains a
    '/' (the case in which the generated issuer/subject split is not a prefix match - finding 2). -/
def rpPrefixOK (v i : Str) : Bool :=
  !(v != star && !hasPrefix star v && hasSuffix star v && v.contains '/' && hasPrefix v.dropLast i)

/-- JWT claims as RequestAuthentication admits them: issuer and subject (when present as strings)
    are non-empty and the subject carries no '/'. -/
def Request.jwtOK (r : Request) : Bool :=
  match claim r ["iss".toList], claim r ["sub".toList] with
  | some (.str i), some (.str s) => !i.isEmpty && !s.isEmpty && !s.contains '/'
  | _, _ => true

/-- `rpPrefixOK` against the request's issuer. -/
def rpValueOK (v : Str) (r : Request) : Bool :=
  match claim r ["iss".toList] with
  | some (.str i) => rpPrefixOK v i
  | _ => true

/-- Extended generators whose aggregated matcher is proved exact (`matcher_correct_jwt_claims`,
    `matcher_correct_envoy_filter`). -/
def Gen.extInScope : Gen → Bool
  | .requestAudiences | .requestPresenter | .requestClaim | .envoyFilter => true
  | _ => false

/-- A model rule inside the proven scope: a non-extended generator whose values satisfy
    `prinValueOK` (wildcard-free namespaces, '/'-free trust domains, ...), or one of the extended
    generators proved exact (JWT audiences / presenter / claims, experimental metadata). -/
def mruleInScope (req : Request) (mr : MRule) : Bool :=
  if mr.g = .requestPrincipal then req.jwtOK && (mr.values ++ mr.notValues).all (rpValueOK · req)
  else (!mr.g.extended || mr.g.extInScope) && (mr.values ++ mr.notValues).all (prinValueOK mr.g mr.key · req)

/-- The model after `MigrateTrustDomain`. -/
def migratedModel (o : BuildOpts) (pns : Str) (r : Rule) (m : Model) : Model :=
  migrateTrustDomain o.bundle (nBasePrincipals pns r) m

def ruleInScope (o : BuildOpts) (req : Request) (pns : Str) (r : Rule) : Bool :=
  match newModel pns r with
  | none => true
  | some m =>
    ((migratedModel o pns r m).permissions ++ (migratedModel o pns r m).principals).all
      fun rl => rl.all (mruleInScope req)

/-- Every (attribute, value) pair of the policies lies in the scope for which the value -> matcher
    translation is proved exact. -/
def inScope (o : BuildOpts) (req : Request) (ps : List Policy) : Bool :=
  ps.all fun p => p.rules.all (ruleInScope o req p.ns)

/-- Trust-domain migration changes nothing for this rule, in the compiler and in the semantics. -/
def migrationNoopB (o : BuildOpts) (pns : Str) (r : Rule) : Bool :=
  (match newModel pns r with
   | none => true
   | some m => migrateTrustDomain o.bundle (nBasePrincipals pns r) m == m) &&
  expandRule o.bundle r == r

/-- The trust-domain part of a five-part principal value is `*` or contains no `*`. -/
def plainTD (v : Str) : Bool :=
  match splitOn '/' v with
  | [td, _, _, _, _] => td == star || !td.contains '*'
  | _ => true

/-- The trust-domain part of a five-part principal value is not a `prefix*` pattern over a trust
    domain of the bundle.  (For such a value `MigrateTrustDomain` rewrites the value to the mesh's
    trust domains although nothing in the API makes a `*` in the middle of a value a wildcard:
    finding 5, `alias_prefix_td_witness`.)  `*`, wildcard-free and `*suffix` parts all pass. -/
def tdPartOK (bundle : List Str) (v : Str) : Bool :=
  match splitOn '/' v with
  | [td, _, _, _, _] => td == star || !(bundle.any fun t => tdPrefixMatch t td)
  | _ => true

/-- The bundle: non-empty, entries without `*` and without '/' (mesh config validation,
    `ValidateTrustDomain`, admits DNS-label trust domains only). -/
def bundleOK (b : List Str) : Bool := !b.isEmpty && b.all fun t => !t.contains '*' && !t.contains '/'

/-- Every `principals`-style value of the rule is inside the proved alias reading: values of `from`
    entries (rewritten once) need `tdPartOK`; values of `when source.principal` are rewritten once per
    `from` entry (the rules are shared by pointer), which is only idempotent for plain trust-domain
    parts, so with two or more `from` entries they need `plainTD`. -/
def rulePlain (b : List Str) (r : Rule) : Bool :=
  r.froms.all (fun s => (s.principals ++ s.notPrincipals).all (tdPartOK b)) &&
  r.whens.all (fun c => c.key != attrSrcPrincipal ||
    (c.values ++ c.notValues).all (if r.froms.length ≤ 1 then tdPartOK b else plainTD))

/-- Trust-domain migration is covered: either it changes nothing, or bundle and values are plain
    (`migration_sem`). -/
def migrationOKB (o : BuildOpts) (pns : Str) (r : Rule) : Bool :=
  migrationNoopB o pns r || (bundleOK o.bundle && rulePlain o.bundle r)

def ruleTranslatedB (o : BuildOpts) (pns : Str) (r : Rule) : Bool :=
  match newModel pns r with
  | none => true
  | some m => modelTranslated o.forTCP o.useAuth (migratedModel o pns r m)

def entriesDistinctB (o : BuildOpts) (ps : List Policy) : Bool :=
  [true, false].all fun allow =>
    Decidable.decide (((ps.flatMap (policyEntries o allow)).map (·.1)).Nodup)

/-- All hypotheses of the main theorems as one computable check on (options, policies, request). -/
def hypsB (o : BuildOpts) (ps : List Policy) (req : Request) : Bool :=
  (ps.all fun p => p.rules.all fun r => migrationOKB o p.ns r && ruleInScope o req p.ns r) &&
  entriesDistinctB o ps

def customEntriesDistinctB (o : BuildOpts) (ps : List Policy) : Bool :=
  Decidable.decide ((((ps.filter (·.action == .custom)).flatMap (customEntries o)).map (·.1)).Nodup)

/-- Along the chain: the generated names of a provider's CUSTOM policies never carry the id prefix of a
    provider whose filters come later. -/
def isolatedAlongB (o : BuildOpts) (cps : List Policy) : List Str → Bool
  | [] => true
  | pr :: t =>
    (cps.all fun p => p.provider != pr ||
      t.all fun q => (customEntries o p).all fun e => !hasPrefix (extPrefix q) e.1) &&
    isolatedAlongB o cps t

def customIsolatedB (o : BuildOpts) (ps : List Policy) : Bool :=
  isolatedAlongB o (ps.filter (·.action == .custom)) (sortDedup ((ps.filter (·.action == .custom)).map (·.provider)))

def hypsAllB (o : BuildOpts) (ps : List Policy) (req : Request) : Bool :=
  hypsB o ps req && customEntriesDistinctB o ps

/-- The rule the compiler effectively translates for a policy of the given action: the rule itself
    (ALLOW) or its remaining conditions (every other action). -/
def effectiveRule (tcp : Bool) (p : Policy) (r : Rule) : Rule :=
  if p.action == .allow then r else remainingRule tcp p.ns r

/-- All hypotheses of `compile_all_exact` as one computable check. -/
def hypsOnB (o : BuildOpts) (ps : List Policy) (req : Request) : Bool :=
  (ps.all fun p => p.rules.all fun r =>
      migrationOKB o p.ns (effectiveRule o.forTCP p r) && ruleInScope o req p.ns (effectiveRule o.forTCP p r)) &&
  entriesDistinctB o ps && customEntriesDistinctB o ps

def translatableB (o : BuildOpts) (ps : List Policy) : Bool :=
  ps.all fun p => p.rules.all (ruleTranslatedB o p.ns)

end IstioModel.C08
