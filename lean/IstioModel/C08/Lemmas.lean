/-
C08 - helper lemmas (strings as lists, the generated regex shapes, Boolean list folds).
Not counted as obligations; everything here is used by Theorems.lean.
-/
import IstioModel.C08.Spec

namespace IstioModel.C08

/-! ## prefix / suffix as Booleans -/

theorem isPrefixOf_append_cancel (pre d s : Str) :
    (pre ++ d).isPrefixOf (pre ++ s) = d.isPrefixOf s := by
  rw [Bool.eq_iff_iff]
  simp [List.isPrefixOf_iff_prefix, List.prefix_append_right_inj]

theorem isPrefixOf_self_append (pre s : Str) : pre.isPrefixOf (pre ++ s) = true := by
  simp [List.isPrefixOf_iff_prefix]

theorem beq_append_cancel (pre a b : Str) : ((pre ++ a) == (pre ++ b)) = (a == b) := by
  rw [Bool.eq_iff_iff]
  simp

theorem anySuffix_iff (f : Str → Bool) (s : Str) :
    anySuffix f s = true ↔ ∃ t, t <:+ s ∧ f t = true := by
  induction s with
  | nil => simp [anySuffix]
  | cons c cs ih =>
    simp only [anySuffix, Bool.or_eq_true, ih, List.suffix_cons_iff]
    constructor
    · rintro (h | ⟨t, ht, hf⟩)
      · exact ⟨c :: cs, Or.inl rfl, h⟩
      · exact ⟨t, Or.inr ht, hf⟩
    · rintro ⟨t, (rfl | ht), hf⟩
      · exact Or.inl hf
      · exact Or.inr ⟨t, ht, hf⟩

theorem anySuffix_beq (suf s : Str) : anySuffix (· == suf) s = suf.isSuffixOf s := by
  rw [Bool.eq_iff_iff, anySuffix_iff, List.isSuffixOf_iff_suffix]
  constructor
  · rintro ⟨t, ht, hf⟩
    have : t = suf := by simpa using hf
    exact this ▸ ht
  · intro h
    exact ⟨suf, h, by simp⟩

/-- A literal at the end of a piece sequence consumes exactly the rest. -/
theorem lit_end (suf t : Str) : (suf.isPrefixOf t && (t.drop suf.length).isEmpty) = (t == suf) := by
  rw [Bool.eq_iff_iff]
  simp only [Bool.and_eq_true, List.isPrefixOf_iff_prefix, List.isEmpty_iff, beq_iff_eq]
  constructor
  · rintro ⟨⟨r, rfl⟩, h2⟩
    simp at h2
    simp [h2]
  · rintro rfl
    simp

theorem matchPieces_lit_end (l t : Str) : matchPieces [.lit l] t = (t == l) := by
  simp [matchPieces, lit_end]

theorem funext_lit_end (l : Str) : (matchPieces [.lit l]) = (· == l) := by
  funext t; exact matchPieces_lit_end l t


/-! ## '/'-separated segments and the generated regex shapes -/

/-- `a` then a slash then `r`. -/
def sl (a r : Str) : Str := a ++ '/' :: r

theorem sl_nil (r : Str) : sl [] r = '/' :: r := rfl
theorem sl_cons (c : Char) (a r : Str) : sl (c :: a) r = c :: sl a r := rfl

theorem sl_inj {a s u w : Str} (ha : '/' ∉ a) (hs : '/' ∉ s) : sl a u = sl s w ↔ a = s ∧ u = w := by
  induction a generalizing s with
  | nil =>
    cases s with
    | nil => simp [sl]
    | cons d s' =>
      simp only [List.mem_cons, not_or] at hs
      simp [sl]
      intro h; exact absurd h hs.1
  | cons c a' ih =>
    simp only [List.mem_cons, not_or] at ha
    cases s with
    | nil =>
      simp [sl]
      intro h; exact absurd h.symm ha.1
    | cons d s' =>
      simp only [List.mem_cons, not_or] at hs
      simp only [sl_cons, List.cons.injEq, ih ha.2 hs.2]
      constructor
      · rintro ⟨rfl, rfl, rfl⟩; exact ⟨⟨rfl, rfl⟩, rfl⟩
      · rintro ⟨⟨rfl, rfl⟩, rfl⟩; exact ⟨rfl, rfl, rfl⟩

theorem sl_prefix_sl {a s u w : Str} (ha : '/' ∉ a) (hs : '/' ∉ s) :
    sl a u <+: sl s w ↔ a = s ∧ u <+: w := by
  induction a generalizing s with
  | nil =>
    cases s with
    | nil => simp [sl, List.cons_prefix_cons]
    | cons d s' =>
      simp only [List.mem_cons, not_or] at hs
      simp [sl, List.cons_prefix_cons]
      intro h; exact absurd h hs.1
  | cons c a' ih =>
    simp only [List.mem_cons, not_or] at ha
    cases s with
    | nil =>
      simp [sl, List.cons_prefix_cons]
      intro h; exact absurd h.symm ha.1
    | cons d s' =>
      simp only [List.mem_cons, not_or] at hs
      simp only [sl_cons, List.cons_prefix_cons, ih ha.2 hs.2, List.cons.injEq]
      constructor
      · rintro ⟨rfl, rfl, h⟩; exact ⟨⟨rfl, rfl⟩, h⟩
      · rintro ⟨⟨rfl, rfl⟩, h⟩; exact ⟨rfl, rfl, h⟩

theorem slash_mem_sl (a r : Str) : '/' ∈ sl a r := by simp [sl]

theorem not_sl_prefix {a u s : Str} (hs : '/' ∉ s) : ¬ sl a u <+: s := by
  intro h
  exact hs (h.subset (slash_mem_sl a u))

theorem not_sl_eq {a u s : Str} (hs : '/' ∉ s) : sl a u ≠ s := by
  intro h
  exact hs (h ▸ slash_mem_sl a u)

/-- Suffixes of `a/r` that start with a slash (a slash-free). -/
theorem suffix_sl {a r t : Str} (ha : '/' ∉ a) (ht : t.head? = some '/') :
    t <:+ sl a r ↔ t = '/' :: r ∨ t <:+ r := by
  induction a with
  | nil => simp [sl, List.suffix_cons_iff]
  | cons c a' ih =>
    simp only [List.mem_cons, not_or] at ha
    rw [sl_cons, List.suffix_cons_iff, ih ha.2]
    constructor
    · rintro (h | h)
      · subst h; simp at ht; exact absurd ht.symm ha.1
      · exact h
    · intro h; exact Or.inr h

theorem not_suffix_slashFree {s t : Str} (hs : '/' ∉ s) (ht : t.head? = some '/') : ¬ t <:+ s := by
  intro h
  cases t with
  | nil => simp at ht
  | cons c t' =>
    simp at ht; subst ht
    exact hs (h.subset (by simp))


theorem mp_nil (s : Str) : matchPieces [] s = true ↔ s = [] := by simp [matchPieces]

theorem mp_lit (l : Str) (ps : List Piece) (s : Str) :
    matchPieces (.lit l :: ps) s = true ↔ ∃ r, s = l ++ r ∧ matchPieces ps r = true := by
  simp only [matchPieces, Bool.and_eq_true, List.isPrefixOf_iff_prefix]
  constructor
  · rintro ⟨⟨r, rfl⟩, h⟩
    exact ⟨r, rfl, by simpa using h⟩
  · rintro ⟨r, rfl, h⟩
    exact ⟨⟨r, rfl⟩, by simpa using h⟩

theorem mp_star (ps : List Piece) (s : Str) :
    matchPieces (.dotStar :: ps) s = true ↔ ∃ t, t <:+ s ∧ matchPieces ps t = true := by
  simp only [matchPieces, anySuffix_iff]

theorem mp_plus (ps : List Piece) (s : Str) :
    matchPieces (.dotPlus :: ps) s = true ↔
      ∃ c s', s = c :: s' ∧ ∃ t, t <:+ s' ∧ matchPieces ps t = true := by
  cases s with
  | nil => simp [matchPieces]
  | cons c s' =>
    simp only [matchPieces, anySuffix_iff, List.cons.injEq]
    constructor
    · intro h; exact ⟨c, s', ⟨rfl, rfl⟩, h⟩
    · rintro ⟨_, _, ⟨rfl, rfl⟩, h⟩; exact h

theorem mp_star_end (s : Str) : matchPieces [.dotStar] s = true := by
  rw [mp_star]; exact ⟨[], List.nil_suffix, by simp [matchPieces]⟩

theorem mp_plus_end (s : Str) : matchPieces [.dotPlus] s = true ↔ s ≠ [] := by
  rw [mp_plus]
  constructor
  · rintro ⟨c, s', rfl, _⟩; simp
  · intro h
    cases s with
    | nil => exact absurd rfl h
    | cons c s' => exact ⟨c, s', rfl, [], List.nil_suffix, by simp [matchPieces]⟩

/-- The URI SAN as a chain of '/'-separated segments. -/
theorem uriSan_sl (i : Identity) :
    i.uriSan = sl "spiffe:".toList (sl [] (sl i.td (sl "ns".toList (sl i.ns (sl "sa".toList i.sa))))) := by
  have h1 : spiffePrefix = "spiffe:".toList ++ ['/', '/'] := by decide
  have h2 : "/ns/".toList = '/' :: ("ns".toList ++ ['/']) := by decide
  have h3 : "/sa/".toList = '/' :: ("sa".toList ++ ['/']) := by decide
  unfold Identity.uriSan Identity.principal sl
  rw [h1, h2, h3]
  simp only [List.append_assoc, List.cons_append, List.nil_append]

/-- All suffixes of a URI SAN that begin with a slash. -/
theorem uriSan_slash_suffixes (i : Identity) (htd : '/' ∉ i.td) (hns : '/' ∉ i.ns) (hsa : '/' ∉ i.sa)
    (t : Str) (ht : t.head? = some '/') (h : t <:+ i.uriSan) :
    t = '/' :: sl [] (sl i.td (sl "ns".toList (sl i.ns (sl "sa".toList i.sa)))) ∨
    t = '/' :: sl i.td (sl "ns".toList (sl i.ns (sl "sa".toList i.sa))) ∨
    t = '/' :: sl "ns".toList (sl i.ns (sl "sa".toList i.sa)) ∨
    t = '/' :: sl i.ns (sl "sa".toList i.sa) ∨
    t = '/' :: sl "sa".toList i.sa ∨
    t = '/' :: i.sa := by
  rw [uriSan_sl] at h
  have e1 : '/' ∉ "spiffe:".toList := by decide
  have e2 : '/' ∉ ([] : Str) := by simp
  have e3 : '/' ∉ "ns".toList := by decide
  have e4 : '/' ∉ "sa".toList := by decide
  rcases (suffix_sl e1 ht).1 h with h | h
  · exact Or.inl h
  rcases (suffix_sl e2 ht).1 h with h | h
  · exact Or.inr (Or.inl h)
  rcases (suffix_sl htd ht).1 h with h | h
  · exact Or.inr (Or.inr (Or.inl h))
  rcases (suffix_sl e3 ht).1 h with h | h
  · exact Or.inr (Or.inr (Or.inr (Or.inl h)))
  rcases (suffix_sl hns ht).1 h with h | h
  · exact Or.inr (Or.inr (Or.inr (Or.inr (Or.inl h))))
  rcases (suffix_sl e4 ht).1 h with h | h
  · exact Or.inr (Or.inr (Or.inr (Or.inr (Or.inr h))))
  exact absurd h (not_suffix_slashFree hsa ht)

/-- `.*/ns/<p>/.*` (the namespace matcher for a wildcard-free value) on an Istio identity. -/
theorem rx_ns_exact (p : Str) (i : Identity) (hp : '/' ∉ p)
    (htd : '/' ∉ i.td) (hns : '/' ∉ i.ns) (hsa : '/' ∉ i.sa)
    (h1 : i.td ≠ "ns".toList) (h2 : i.ns ≠ "ns".toList) :
    Rx.matches (.nsGlob [p]) i.uriSan = (i.ns == p) := by
  have e3 : '/' ∉ "ns".toList := by decide
  have e4 : '/' ∉ "sa".toList := by decide
  have e0 : '/' ∉ ([] : Str) := by simp
  rw [Bool.eq_iff_iff]
  simp only [Rx.matches, Rx.alts, globPieces, List.any_cons, List.any_nil, Bool.or_false,
    List.cons_append, List.nil_append, beq_iff_eq]
  rw [mp_star]
  constructor
  · rintro ⟨t, hts, hm⟩
    rw [mp_lit] at hm
    obtain ⟨r, rfl, hm⟩ := hm
    rw [mp_lit] at hm
    obtain ⟨r2, rfl, hm⟩ := hm
    rw [mp_lit] at hm
    obtain ⟨r3, rfl, -⟩ := hm
    have ht : ("/ns/".toList ++ (p ++ (['/'] ++ r3))) = '/' :: sl "ns".toList (sl p r3) := by
      simp [sl]
    rw [ht] at hts
    have hh : ('/' :: sl "ns".toList (sl p r3)).head? = some '/' := rfl
    rcases uriSan_slash_suffixes i htd hns hsa _ hh hts with h | h | h | h | h | h
    all_goals simp only [List.cons.injEq, true_and] at h
    · rw [sl_inj e3 e0] at h; exact absurd h.1 (by decide)
    · rw [sl_inj e3 htd] at h; exact absurd h.1.symm h1
    · rw [sl_inj e3 e3, sl_inj hp hns] at h; exact h.2.1.symm
    · rw [sl_inj e3 hns] at h; exact absurd h.1.symm h2
    · rw [sl_inj e3 e4] at h; exact absurd h.1 (by decide)
    · exact absurd h (not_sl_eq hsa)
  · rintro rfl
    refine ⟨'/' :: sl "ns".toList (sl i.ns (sl "sa".toList i.sa)), ?_, ?_⟩
    · rw [uriSan_sl]
      refine ⟨"spiffe:".toList ++ '/' :: '/' :: i.td, ?_⟩
      simp only [sl, List.append_assoc, List.cons_append, List.nil_append]
    · rw [mp_lit]
      refine ⟨i.ns ++ '/' :: sl "sa".toList i.sa, by simp [sl], ?_⟩
      rw [mp_lit]
      refine ⟨'/' :: sl "sa".toList i.sa, rfl, ?_⟩
      rw [mp_lit]
      exact ⟨sl "sa".toList i.sa, rfl, mp_star_end _⟩



theorem splitOn_ne_nil (c : Char) (s : Str) : splitOn c s ≠ [] := by
  induction s with
  | nil => simp [splitOn]
  | cons x xs ih =>
    simp only [splitOn]
    split
    · simp
    · split <;> simp

theorem splitOn_of_not_mem (c : Char) (s : Str) (h : c ∉ s) : splitOn c s = [s] := by
  induction s with
  | nil => simp [splitOn]
  | cons x xs ih =>
    simp only [List.mem_cons, not_or] at h
    simp [splitOn, Ne.symm h.1, ih h.2]

/-- A glob match of a name followed by a match of the rest is a match of the concatenation. -/
theorem mp_glob_append (parts : List Str) (rest : List Piece) (s u : Str) (hne : parts ≠ [])
    (hg : globParts parts s = true) (hr : matchPieces rest u = true) :
    matchPieces (globPieces parts ++ rest) (s ++ u) = true := by
  induction parts generalizing s with
  | nil => exact absurd rfl hne
  | cons p tl ih =>
    cases tl with
    | nil =>
      simp only [globParts, beq_iff_eq] at hg
      subst hg
      simp only [globPieces, List.cons_append, List.nil_append]
      rw [mp_lit]; exact ⟨u, rfl, hr⟩
    | cons q r =>
      simp only [globParts, Bool.and_eq_true, List.isPrefixOf_iff_prefix, anySuffix_iff] at hg
      obtain ⟨⟨s', rfl⟩, t, hts, hgt⟩ := hg
      simp only [List.drop_left] at hts
      simp only [globPieces, List.cons_append]
      rw [mp_lit]
      refine ⟨s' ++ u, by simp, ?_⟩
      rw [mp_star]
      obtain ⟨w, rfl⟩ := hts
      exact ⟨t ++ u, ⟨w, by simp⟩, ih t (by simp) hgt⟩

/-- Completeness of the namespace matcher for every value: whatever the glob reading of the value
    matches, the generated regex matches. -/
theorem rx_ns_complete (v : Str) (i : Identity) (h : globForm v i.ns = true) :
    Rx.matches (.nsGlob (splitOn '*' v)) i.uriSan = true := by
  simp only [Rx.matches, Rx.alts, List.any_cons, List.any_nil, Bool.or_false, List.cons_append,
    List.nil_append]
  rw [mp_star]
  refine ⟨"/ns/".toList ++ (i.ns ++ '/' :: sl "sa".toList i.sa), ?_, ?_⟩
  · rw [uriSan_sl]
    refine ⟨"spiffe:".toList ++ '/' :: '/' :: i.td, ?_⟩
    have h2 : "/ns/".toList = '/' :: ("ns".toList ++ ['/']) := by decide
    rw [h2]
    simp only [sl, List.append_assoc, List.cons_append, List.nil_append]
  · rw [mp_lit]
    refine ⟨_, rfl, ?_⟩
    apply mp_glob_append _ _ _ _ (splitOn_ne_nil _ _) h
    rw [mp_lit]
    exact ⟨sl "sa".toList i.sa, rfl, mp_star_end _⟩



/-- Every character of every literal of a matching piece sequence occurs in the string. -/
theorem mp_lit_mem (ps : List Piece) (s : Str) (h : matchPieces ps s = true)
    (l : Str) (hl : Piece.lit l ∈ ps) (c : Char) (hc : c ∈ l) : c ∈ s := by
  induction ps generalizing s with
  | nil => simp at hl
  | cons p ps ih =>
    cases p with
    | lit l' =>
      rw [mp_lit] at h
      obtain ⟨r, rfl, hr⟩ := h
      simp only [List.mem_cons, Piece.lit.injEq] at hl
      rcases hl with rfl | hl
      · simp [hc]
      · exact List.mem_append_right _ (ih r hr hl)
    | dotStar =>
      rw [mp_star] at h
      obtain ⟨t, hts, ht⟩ := h
      simp only [List.mem_cons, reduceCtorEq, false_or] at hl
      exact hts.subset (ih t ht hl)
    | dotPlus =>
      rw [mp_plus] at h
      obtain ⟨c', s', rfl, t, hts, ht⟩ := h
      simp only [List.mem_cons, reduceCtorEq, false_or] at hl
      exact List.mem_cons_of_mem _ (hts.subset (ih t ht hl))
    | noSlashStar =>
      simp only [List.mem_cons, reduceCtorEq, false_or] at hl
      simp only [matchPieces] at h
      have : ∀ (x : Str), anyNoSlash (matchPieces ps) x = true → c ∈ x := by
        intro x
        induction x with
        | nil => intro hx; simp only [anyNoSlash] at hx; exact ih [] hx hl
        | cons d x' ihx =>
          intro hx
          simp only [anyNoSlash, Bool.or_eq_true, Bool.and_eq_true] at hx
          rcases hx with hx | ⟨_, hx⟩
          · exact ih _ hx hl
          · exact List.mem_cons_of_mem _ (ihx hx)
      exact this s h

theorem prefix_of_slashFree_sl {a s w : Str} (ha : '/' ∉ a) (h : a <+: sl s w) : a <+: s := by
  induction a generalizing s with
  | nil => exact List.nil_prefix
  | cons c a' ih =>
    simp only [List.mem_cons, not_or] at ha
    cases s with
    | nil =>
      simp [sl, List.cons_prefix_cons] at h
      exact absurd h.1.symm ha.1
    | cons d s' =>
      rw [sl_cons, List.cons_prefix_cons] at h
      rw [List.cons_prefix_cons]
      exact ⟨h.1, ih ha.2 h.2⟩

theorem anyNoSlash_sl (f : Str → Bool) (g r : Str) (hg : '/' ∉ g) :
    anyNoSlash f (sl g r) = true ↔ ∃ g', g' <:+ g ∧ f (sl g' r) = true := by
  induction g with
  | nil =>
    simp only [sl_nil, anyNoSlash, bne_self_eq_false, Bool.false_and, Bool.or_false]
    constructor
    · intro h; exact ⟨[], List.suffix_refl _, h⟩
    · rintro ⟨g', hg', h⟩
      have : g' = [] := by simpa using hg'
      subst this; exact h
  | cons c g' ih =>
    simp only [List.mem_cons, not_or] at hg
    have hc : (c != '/') = true := by simp [Ne.symm hg.1]
    simp only [sl_cons, anyNoSlash, hc, Bool.true_and, Bool.or_eq_true, ih hg.2, List.suffix_cons_iff]
    constructor
    · rintro (h | ⟨g'', hs, h⟩)
      · exact ⟨c :: g', Or.inl rfl, h⟩
      · exact ⟨g'', Or.inr hs, h⟩
    · rintro ⟨g'', (rfl | hs), h⟩
      · exact Or.inl h
      · exact Or.inr ⟨g'', hs, h⟩

theorem uriSan_prefix (i : Identity) :
    i.uriSan = spiffePrefix ++ sl i.td (sl "ns".toList (sl i.ns (sl "sa".toList i.sa))) := by
  have h2 : "/ns/".toList = '/' :: ("ns".toList ++ ['/']) := by decide
  have h3 : "/sa/".toList = '/' :: ("sa".toList ++ ['/']) := by decide
  unfold Identity.uriSan Identity.principal sl
  rw [h2, h3]
  simp only [List.append_assoc, List.cons_append, List.nil_append]

/-- `spiffe://<a>[^/]*<b>/.*` on an Istio identity: the trust domain is `a`, anything, `b`. -/
theorem rx_td_glob (a b : Str) (i : Identity) (ha : '/' ∉ a) (hb : '/' ∉ b) (htd : '/' ∉ i.td) :
    Rx.matches (.tdGlob a b) i.uriSan = (hasPrefix a i.td && hasSuffix b (i.td.drop a.length)) := by
  rw [Bool.eq_iff_iff]
  simp only [Rx.matches, Rx.alts, List.any_cons, List.any_nil, Bool.or_false, Bool.and_eq_true,
    List.isPrefixOf_iff_prefix, List.isSuffixOf_iff_suffix]
  rw [uriSan_prefix, mp_lit]
  constructor
  · rintro ⟨r, hr, hm⟩
    have hr' := List.append_cancel_left hr
    subst hr'
    rw [mp_lit] at hm
    obtain ⟨r1, hr1, hm⟩ := hm
    have hpre : a <+: i.td := prefix_of_slashFree_sl ha ⟨r1, hr1.symm⟩
    obtain ⟨g, hg⟩ := hpre
    have hgs : '/' ∉ g := by rw [← hg] at htd; simp at htd; exact htd.2
    have hr1' : r1 = sl g (sl "ns".toList (sl i.ns (sl "sa".toList i.sa))) := by
      rw [← hg] at hr1
      simp only [sl, List.append_assoc] at hr1 ⊢
      exact (List.append_cancel_left hr1).symm
    subst hr1'
    simp only [matchPieces] at hm
    rw [anyNoSlash_sl _ _ _ hgs] at hm
    obtain ⟨g', hg', hm⟩ := hm
    change matchPieces [.lit b, .lit ['/'], .dotStar] _ = true at hm
    rw [mp_lit] at hm
    obtain ⟨r2, hr2, hm⟩ := hm
    rw [mp_lit] at hm
    obtain ⟨r3, rfl, -⟩ := hm
    have hg's : '/' ∉ g' := fun hm => hgs (hg'.subset hm)
    have : sl g' (sl "ns".toList (sl i.ns (sl "sa".toList i.sa))) = sl b r3 := by
      rw [hr2]; simp [sl]
    rw [sl_inj hg's hb] at this
    refine ⟨⟨g, hg⟩, ?_⟩
    rw [← hg]
    simp only [List.drop_left]
    exact this.1 ▸ hg'
  · rintro ⟨⟨g, hg⟩, hsuf⟩
    rw [← hg] at hsuf htd
    simp only [List.drop_left] at hsuf
    have hgs : '/' ∉ g := by simp at htd; exact htd.2
    refine ⟨_, rfl, ?_⟩
    rw [mp_lit]
    refine ⟨sl g (sl "ns".toList (sl i.ns (sl "sa".toList i.sa))), ?_, ?_⟩
    · rw [← hg]; simp [sl]
    · simp only [matchPieces]
      rw [anyNoSlash_sl _ _ _ hgs]
      refine ⟨b, hsuf, ?_⟩
      change matchPieces [.lit b, .lit ['/'], .dotStar] _ = true
      rw [mp_lit]
      refine ⟨'/' :: sl "ns".toList (sl i.ns (sl "sa".toList i.sa)), by simp [sl], ?_⟩
      rw [mp_lit]
      exact ⟨_, rfl, mp_star_end _⟩

/-- exact trust domain: prefix `spiffe://<v>/`. -/
theorem td_exact_prefix (v : Str) (i : Identity) (hv : '/' ∉ v) (htd : '/' ∉ i.td) :
    hasPrefix (spiffePrefix ++ v ++ ['/']) i.uriSan = (i.td == v) := by
  unfold hasPrefix
  rw [uriSan_prefix, List.append_assoc, isPrefixOf_append_cancel, Bool.eq_iff_iff]
  have : v ++ ['/'] = sl v [] := rfl
  rw [this, List.isPrefixOf_iff_prefix, sl_prefix_sl hv htd, beq_iff_eq]
  constructor
  · rintro ⟨h, -⟩; exact h.symm
  · intro h; exact ⟨h.symm, List.nil_prefix⟩


theorem lit_ns_eq (r : Str) : "/ns/".toList ++ r = '/' :: sl "ns".toList r := by
  have h2 : "/ns/".toList = '/' :: ("ns".toList ++ ['/']) := by decide
  rw [h2]; simp [sl]

theorem lit_sa_eq (r : Str) : "sa/".toList ++ r = sl "sa".toList r := by
  have h2 : "sa/".toList = "sa".toList ++ ['/'] := by decide
  rw [h2]; simp [sl]

/-- The part common to the four alternatives of the service-account regex, forward direction. -/
theorem sa_front_fwd (NS : Str) (REST : List Piece) (i : Identity) (hNS : '/' ∉ NS)
    (htd : '/' ∉ i.td) (hns : '/' ∉ i.ns) (hsa : '/' ∉ i.sa)
    (h : matchPieces (.lit spiffePrefix :: .dotPlus :: .lit "/ns/".toList :: .lit NS :: .lit ['/'] :: REST)
          i.uriSan = true) :
    (NS = i.ns ∧ matchPieces REST (sl "sa".toList i.sa) = true) ∨
    (i.ns = "ns".toList ∧ NS = "sa".toList ∧ matchPieces REST i.sa = true) := by
  have e3 : '/' ∉ "ns".toList := by decide
  have e4 : '/' ∉ "sa".toList := by decide
  rw [uriSan_prefix, mp_lit] at h
  obtain ⟨r, hr, h⟩ := h
  have hr' := List.append_cancel_left hr
  subst hr'
  rw [mp_plus] at h
  obtain ⟨c, s', hs', t, hts, h⟩ := h
  rw [mp_lit] at h
  obtain ⟨r1, rfl, h⟩ := h
  rw [mp_lit] at h
  obtain ⟨r2, rfl, h⟩ := h
  rw [mp_lit] at h
  obtain ⟨r4, rfl, h⟩ := h
  have ht : "/ns/".toList ++ (NS ++ (['/'] ++ r4)) = '/' :: sl "ns".toList (sl NS r4) := by
    rw [lit_ns_eq]; simp [sl]
  rw [ht] at hts
  have hh : ('/' :: sl "ns".toList (sl NS r4)).head? = some '/' := rfl
  -- s' is a suffix of the whole, so t is a suffix of sl td X3
  have hts2 : ('/' :: sl "ns".toList (sl NS r4)) <:+ sl i.td (sl "ns".toList (sl i.ns (sl "sa".toList i.sa))) := by
    rw [hs']; exact List.suffix_cons_iff.2 (Or.inr hts)
  rcases (suffix_sl htd hh).1 hts2 with h1 | h1
  · simp only [List.cons.injEq, true_and] at h1
    rw [sl_inj e3 e3, sl_inj hNS hns] at h1
    exact Or.inl ⟨h1.2.1, h1.2.2 ▸ h⟩
  rcases (suffix_sl e3 hh).1 h1 with h1 | h1
  · simp only [List.cons.injEq, true_and] at h1
    rw [sl_inj e3 hns, sl_inj hNS e4] at h1
    exact Or.inr ⟨h1.1.symm, h1.2.1, h1.2.2 ▸ h⟩
  rcases (suffix_sl hns hh).1 h1 with h1 | h1
  · simp only [List.cons.injEq, true_and] at h1
    rw [sl_inj e3 e4] at h1
    exact absurd h1.1 (by decide)
  rcases (suffix_sl e4 hh).1 h1 with h1 | h1
  · simp only [List.cons.injEq, true_and] at h1
    exact absurd h1 (not_sl_eq hsa)
  exact absurd h1 (not_suffix_slashFree hsa hh)

theorem sa_front_bwd (REST : List Piece) (i : Identity) (htdne : i.td ≠ [])
    (h : matchPieces REST (sl "sa".toList i.sa) = true) :
    matchPieces (.lit spiffePrefix :: .dotPlus :: .lit "/ns/".toList :: .lit i.ns :: .lit ['/'] :: REST)
          i.uriSan = true := by
  rw [uriSan_prefix, mp_lit]
  refine ⟨_, rfl, ?_⟩
  rw [mp_plus]
  cases htd : i.td with
  | nil => exact absurd htd htdne
  | cons c td' =>
    refine ⟨c, sl td' (sl "ns".toList (sl i.ns (sl "sa".toList i.sa))), rfl, ?_⟩
    refine ⟨'/' :: sl "ns".toList (sl i.ns (sl "sa".toList i.sa)), ⟨td', by simp [sl]⟩, ?_⟩
    rw [mp_lit]
    refine ⟨sl i.ns (sl "sa".toList i.sa), by rw [lit_ns_eq], ?_⟩
    rw [mp_lit]
    refine ⟨'/' :: sl "sa".toList i.sa, by simp [sl], ?_⟩
    rw [mp_lit]
    exact ⟨_, rfl, h⟩

theorem sa_mid_false (R : List Piece) (sa : Str) (hsa : '/' ∉ sa) (l : Str) (hl : Piece.lit l ∈ R)
    (hsl : '/' ∈ l) : matchPieces (.dotPlus :: .lit ['/'] :: R) (sl "sa".toList sa) = false := by
  rw [Bool.eq_false_iff]
  intro h
  rw [mp_plus] at h
  obtain ⟨c, s'', hs, t2, ht2, h⟩ := h
  rw [mp_lit] at h
  obtain ⟨r, rfl, h⟩ := h
  have hsa2 : "sa".toList = ['s', 'a'] := by decide
  rw [hsa2, sl_cons] at hs
  simp only [List.cons.injEq] at hs
  obtain ⟨-, rfl⟩ := hs
  have ha : '/' ∉ ['a'] := by decide
  have hh : (['/'] ++ r).head? = some '/' := rfl
  rcases (suffix_sl ha hh).1 ht2 with h1 | h1
  · simp only [List.singleton_append, List.cons.injEq, true_and] at h1
    subst h1
    exact hsa (mp_lit_mem R r h l hl '/' hsl)
  · exact not_suffix_slashFree hsa hh h1

/-- `spiffe://.+/ns/<NS>/(.+/|)sa/<SA>(/.+)?` on an Istio identity. -/
theorem rx_sa (NS SA : Str) (i : Identity) (hNS : '/' ∉ NS)
    (htdne : i.td ≠ []) (htd : '/' ∉ i.td) (hns : '/' ∉ i.ns) (hsa : '/' ∉ i.sa) :
    Rx.matches (.saPath NS SA) i.uriSan = (i.ns == NS && i.sa == SA) := by
  have hsl : '/' ∈ "sa/".toList := by decide
  rw [Bool.eq_iff_iff]
  simp only [Rx.matches, Rx.alts, List.any_cons, List.any_nil, Bool.or_false, Bool.or_eq_true,
    Bool.and_eq_true, beq_iff_eq]
  constructor
  · rintro (h | h | h | h)
    · rcases sa_front_fwd NS _ i hNS htd hns hsa h with ⟨h1, h2⟩ | ⟨_, _, h2⟩
      · rw [mp_lit] at h2
        obtain ⟨r, hr, h2⟩ := h2
        rw [lit_sa_eq, sl_inj (by decide) (by decide)] at hr
        rw [mp_lit] at h2
        obtain ⟨r', hr', h2⟩ := h2
        rw [mp_nil] at h2
        subst h2
        exact ⟨h1.symm, by rw [hr.2, hr']; simp⟩
      · exact absurd (mp_lit_mem _ _ h2 _ (by simp) '/' hsl) hsa
    · rcases sa_front_fwd NS _ i hNS htd hns hsa h with ⟨h1, h2⟩ | ⟨_, _, h2⟩
      · rw [mp_lit] at h2
        obtain ⟨r, hr, h2⟩ := h2
        rw [lit_sa_eq, sl_inj (by decide) (by decide)] at hr
        rw [← hr.2] at h2
        exact absurd (mp_lit_mem _ _ h2 ['/'] (by simp) '/' (by simp)) hsa
      · exact absurd (mp_lit_mem _ _ h2 _ (by simp) '/' hsl) hsa
    · rcases sa_front_fwd NS _ i hNS htd hns hsa h with ⟨h1, h2⟩ | ⟨_, _, h2⟩
      · rw [sa_mid_false _ _ hsa _ (by simp) hsl] at h2
        exact absurd h2 (by simp)
      · exact absurd (mp_lit_mem _ _ h2 _ (by simp) '/' hsl) hsa
    · rcases sa_front_fwd NS _ i hNS htd hns hsa h with ⟨h1, h2⟩ | ⟨_, _, h2⟩
      · rw [sa_mid_false _ _ hsa _ (by simp) hsl] at h2
        exact absurd h2 (by simp)
      · exact absurd (mp_lit_mem _ _ h2 _ (by simp) '/' hsl) hsa
  · rintro ⟨rfl, rfl⟩
    refine Or.inl (sa_front_bwd _ i htdne ?_)
    rw [mp_lit]
    refine ⟨i.sa, (lit_sa_eq _).symm, ?_⟩
    rw [mp_lit]
    exact ⟨[], by simp, by simp [matchPieces]⟩


theorem cut_eq (c : Char) (s a b : Str) (h : cut c s = some (a, b)) : s = a ++ c :: b ∧ c ∉ a := by
  induction s generalizing a with
  | nil => simp [cut] at h
  | cons x xs ih =>
    simp only [cut] at h
    by_cases hx : x = c
    · simp only [hx, if_true, Option.some.injEq, Prod.mk.injEq] at h
      obtain ⟨rfl, rfl⟩ := h
      simp [hx]
    · simp only [hx, if_false] at h
      cases hc : cut c xs with
      | none => simp [hc] at h
      | some ab =>
        obtain ⟨a', b'⟩ := ab
        simp only [hc, Option.some.injEq, Prod.mk.injEq] at h
        obtain ⟨rfl, rfl⟩ := h
        obtain ⟨h1, h2⟩ := ih a' hc
        refine ⟨by simp [h1], ?_⟩
        simp only [List.mem_cons, not_or]
        exact ⟨fun e => hx e.symm, h2⟩



/-! ## more string lemmas; namespace values in the documented forms -/

theorem sl_reverse (a u : Str) : (sl a u).reverse = sl u.reverse a.reverse := by
  simp [sl]

theorem suffix_of_slashFree_sl {x a w : Str} (hx : '/' ∉ x) (h : x <:+ sl a w) : x <:+ w := by
  rw [← List.reverse_prefix, sl_reverse] at h
  have := prefix_of_slashFree_sl (by simpa using hx) h
  rwa [List.reverse_prefix] at this

theorem hasPrefix_star_iff (v : Str) : hasPrefix star v = true ↔ ∃ t, v = '*' :: t := by
  cases v with
  | nil => simp [hasPrefix, star, List.isPrefixOf]
  | cons c t =>
    simp only [hasPrefix, star, List.isPrefixOf, Bool.and_eq_true, beq_iff_eq, List.cons.injEq]
    constructor
    · rintro ⟨h, -⟩; exact ⟨t, h.symm, rfl⟩
    · rintro ⟨t', h, -⟩; exact ⟨h.symm, by cases t <;> trivial⟩

theorem hasSuffix_star_iff (v : Str) : hasSuffix star v = true ↔ ∃ t, v = t ++ ['*'] := by
  rw [hasSuffix, List.isSuffixOf_iff_suffix]
  constructor
  · rintro ⟨t, h⟩; exact ⟨t, h.symm⟩
  · rintro ⟨t, h⟩; exact ⟨t, h.symm⟩

theorem dropLast_append_singleton (a : Str) (c : Char) : (a ++ [c]).dropLast = a := by simp

theorem splitOn_sl (c : Char) (a r : Str) (ha : c ∉ a) : splitOn c (a ++ c :: r) = a :: splitOn c r := by
  induction a with
  | nil => simp [splitOn]
  | cons x xs ih =>
    simp only [List.mem_cons, not_or] at ha
    simp only [List.cons_append, splitOn]
    rw [if_neg (fun e => ha.1 e.symm), ih ha.2]

theorem splitOn_parts_not_mem (c : Char) (s : Str) : ∀ p ∈ splitOn c s, c ∉ p := by
  induction s with
  | nil => simp [splitOn]
  | cons x xs ih =>
    simp only [splitOn]
    by_cases hx : x = c
    · simp only [hx, if_true, List.mem_cons]
      rintro p (rfl | hp)
      · simp
      · exact ih p hp
    · simp only [hx, if_false]
      cases hs : splitOn c xs with
      | nil => exact absurd hs (splitOn_ne_nil c xs)
      | cons h t =>
        rw [hs] at ih
        simp only [List.mem_cons]
        rintro p (rfl | hp)
        · simp only [List.mem_cons, not_or]
          exact ⟨fun e => hx e.symm, ih h (by simp)⟩
        · exact ih p (by simp [hp])

theorem mp_lit_nil (ps : List Piece) (s : Str) : matchPieces (.lit [] :: ps) s = matchPieces ps s := by
  simp [matchPieces]

/-- A URI-SAN suffix that starts with `/ns/` starts at the namespace segment (identities with
    trust domain and namespace other than "ns"). -/
theorem ns_anchor (i : Identity) (htd : '/' ∉ i.td) (hns : '/' ∉ i.ns) (hsa : '/' ∉ i.sa)
    (h1 : i.td ≠ "ns".toList) (h2 : i.ns ≠ "ns".toList) (r : Str)
    (h : ('/' :: sl "ns".toList r) <:+ i.uriSan) : r = sl i.ns (sl "sa".toList i.sa) := by
  have e3 : '/' ∉ "ns".toList := by decide
  have e4 : '/' ∉ "sa".toList := by decide
  have e0 : '/' ∉ ([] : Str) := by simp
  have hh : ('/' :: sl "ns".toList r).head? = some '/' := rfl
  rcases uriSan_slash_suffixes i htd hns hsa _ hh h with h | h | h | h | h | h
  all_goals simp only [List.cons.injEq, true_and] at h
  · rw [sl_inj e3 e0] at h; exact absurd h.1 (by decide)
  · rw [sl_inj e3 htd] at h; exact absurd h.1.symm h1
  · rw [sl_inj e3 e3] at h; exact h.2
  · rw [sl_inj e3 hns] at h; exact absurd h.1.symm h2
  · rw [sl_inj e3 e4] at h; exact absurd h.1 (by decide)
  · exact absurd h (not_sl_eq hsa)

/-- Where the '/' after a run `y` can be in `<ns>/sa/<sa>`. -/
theorem slash_positions (y rest N S : Str) (hN : '/' ∉ N) (hS : '/' ∉ S)
    (h : y ++ '/' :: rest = sl N (sl "sa".toList S)) : y = N ∨ y = N ++ '/' :: "sa".toList := by
  have hsa : '/' ∉ "sa".toList := by decide
  have h' : N ++ '/' :: (sl "sa".toList S) = y ++ '/' :: rest := h.symm
  rcases List.append_eq_append_iff.1 h' with ⟨a', hy, hx⟩ | ⟨c', hN', hx⟩
  · cases a' with
    | nil => left; simpa using hy
    | cons c a'' =>
      simp only [List.cons_append, List.cons.injEq] at hx
      obtain ⟨rfl, hx⟩ := hx
      have hx' : "sa".toList ++ '/' :: S = a'' ++ '/' :: rest := hx
      rcases List.append_eq_append_iff.1 hx' with ⟨b', hb, hz⟩ | ⟨d', hd, hz⟩
      · cases b' with
        | nil =>
          right
          rw [hy]
          simp only [List.append_nil] at hb
          rw [hb]
        | cons c2 b'' =>
          simp only [List.cons_append, List.cons.injEq] at hz
          exact absurd (by rw [hz.2]; simp) hS
      · cases d' with
        | nil =>
          right
          rw [hy]
          simp only [List.append_nil] at hd
          rw [← hd]
        | cons c2 d'' =>
          simp only [List.cons_append, List.cons.injEq] at hz
          obtain ⟨rfl, -⟩ := hz
          exact absurd (by rw [hd]; simp) hsa
  · cases c' with
    | nil => left; simpa using hN'.symm
    | cons c c'' =>
      simp only [List.cons_append, List.cons.injEq] at hx
      obtain ⟨rfl, -⟩ := hx
      exact absurd (by rw [hN']; simp) hN

theorem rx_ns_complete_parts (parts : List Str) (i : Identity) (hne : parts ≠ [])
    (h : globParts parts i.ns = true) : Rx.matches (.nsGlob parts) i.uriSan = true := by
  simp only [Rx.matches, Rx.alts, List.any_cons, List.any_nil, Bool.or_false, List.cons_append,
    List.nil_append]
  rw [mp_star]
  refine ⟨"/ns/".toList ++ (i.ns ++ '/' :: sl "sa".toList i.sa), ?_, ?_⟩
  · rw [uriSan_sl]
    refine ⟨"spiffe:".toList ++ '/' :: '/' :: i.td, ?_⟩
    have h2 : "/ns/".toList = '/' :: ("ns".toList ++ ['/']) := by decide
    rw [h2]
    simp only [sl, List.append_assoc, List.cons_append, List.nil_append]
  · rw [mp_lit]
    refine ⟨_, rfl, ?_⟩
    apply mp_glob_append _ _ _ _ hne h
    rw [mp_lit]
    exact ⟨sl "sa".toList i.sa, rfl, mp_star_end _⟩

/-- `.*/ns/<p>.*/.*` (value `p*`, incl. `*`): exact. -/
theorem rx_ns_prefix (p : Str) (i : Identity) (hp : '/' ∉ p)
    (htd : '/' ∉ i.td) (hns : '/' ∉ i.ns) (hsa : '/' ∉ i.sa)
    (h1 : i.td ≠ "ns".toList) (h2 : i.ns ≠ "ns".toList) :
    Rx.matches (.nsGlob [p, []]) i.uriSan = hasPrefix p i.ns := by
  rw [Bool.eq_iff_iff]
  constructor
  · intro h
    simp only [Rx.matches, Rx.alts, globPieces, List.any_cons, List.any_nil, Bool.or_false,
      List.cons_append, List.nil_append] at h
    rw [mp_star] at h
    obtain ⟨t, hts, hm⟩ := h
    rw [mp_lit] at hm
    obtain ⟨r, rfl, hm⟩ := hm
    rw [mp_lit] at hm
    obtain ⟨r2, rfl, -⟩ := hm
    rw [lit_ns_eq] at hts
    have := ns_anchor i htd hns hsa h1 h2 _ hts
    rw [hasPrefix, List.isPrefixOf_iff_prefix]
    exact prefix_of_slashFree_sl hp ⟨r2, this⟩
  · intro h
    apply rx_ns_complete_parts [p, []] i (by simp)
    simp only [globParts, Bool.and_eq_true, anySuffix_iff]
    exact ⟨h, [], List.nil_suffix, by simp⟩

/-- `.*/ns/.*<q>/.*` (value `*q`): exact unless `q` is `a` or `sa` - then `.*` can run over the
    '/' after the namespace and `q` is found at the end of `<ns>/sa` (finding 1). -/
theorem rx_ns_suffix (q : Str) (i : Identity) (hq : '/' ∉ q) (hqne : q ≠ [])
    (hqa : q ≠ "a".toList) (hqsa : q ≠ "sa".toList)
    (htd : '/' ∉ i.td) (hns : '/' ∉ i.ns) (hsa : '/' ∉ i.sa)
    (h1 : i.td ≠ "ns".toList) (h2 : i.ns ≠ "ns".toList) :
    Rx.matches (.nsGlob [[], q]) i.uriSan = hasSuffix q i.ns := by
  rw [Bool.eq_iff_iff]
  constructor
  · intro h
    simp only [Rx.matches, Rx.alts, globPieces, List.any_cons, List.any_nil, Bool.or_false,
      List.cons_append, List.nil_append] at h
    rw [mp_star] at h
    obtain ⟨t, hts, hm⟩ := h
    rw [mp_lit] at hm
    obtain ⟨r, rfl, hm⟩ := hm
    rw [mp_lit_nil, mp_star] at hm
    obtain ⟨t2, ht2, hm⟩ := hm
    rw [mp_lit] at hm
    obtain ⟨r3, rfl, hm⟩ := hm
    rw [mp_lit] at hm
    obtain ⟨r4, rfl, -⟩ := hm
    rw [lit_ns_eq] at hts
    have hr := ns_anchor i htd hns hsa h1 h2 _ hts
    obtain ⟨x, hx⟩ := ht2
    -- r = x ++ q ++ "/" ++ r4 = <ns>/sa/<sa>
    have hpos := slash_positions (x ++ q) r4 i.ns i.sa hns hsa (by
      rw [← hr, ← hx]; simp)
    rw [hasSuffix, List.isSuffixOf_iff_suffix]
    rcases hpos with hpos | hpos
    · exact ⟨x, hpos⟩
    · -- q is a slash-free suffix of <ns>/sa: so of "sa"
      have hsuf : q <:+ sl i.ns "sa".toList := ⟨x, hpos⟩
      have hq2 : q <:+ "sa".toList := suffix_of_slashFree_sl hq hsuf
      have : q = [] ∨ q = "a".toList ∨ q = "sa".toList := by
        have hsa2 : "sa".toList = ['s', 'a'] := by decide
        have ha2 : "a".toList = ['a'] := by decide
        rw [hsa2] at hq2 ⊢
        rw [ha2]
        rw [List.suffix_cons_iff] at hq2
        rcases hq2 with h | h
        · exact Or.inr (Or.inr h)
        · rw [List.suffix_cons_iff] at h
          rcases h with h | h
          · exact Or.inr (Or.inl h)
          · exact Or.inl (by simpa using h)
      rcases this with h | h | h
      · exact absurd h hqne
      · exact absurd h hqa
      · exact absurd h hqsa
  · intro h
    apply rx_ns_complete_parts [[], q] i (by simp)
    rw [hasSuffix, List.isSuffixOf_iff_suffix] at h
    simp only [globParts, Bool.and_eq_true, anySuffix_iff, List.length_nil, List.drop_zero]
    exact ⟨by simp [hasPrefix], q, h, by simp⟩

end IstioModel.C08
