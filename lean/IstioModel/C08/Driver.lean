import IstioModel.Common.Wire
import IstioModel.C08.Scope

/-! Line-protocol driver for C08 (streams `compile`, `requests`, `tcp`). See harness/c08.

    case <n> ...                                   -> ok      (reset)
    td <list>                                      -> ok      trust domain bundle (local first)
    wl <root ns> <ns> <labels> [<sidecar|router|waypoint> [<svc name|objectName|ns|k8s/ext or -> [<flags: term,nosel>]]] -> ok
    pol <ALLOW|DENY|AUDIT|CUSTOM|UNKNOWN> <ns> <name> <dry> <provider> <selector> <targetRefs> [legacy] -> ok
    rule                                           -> ok      new rule in the last policy
    from <field>=<list> ...                        -> ok      new source in the last rule
    to <field>=<list> ...                          -> ok      new operation in the last rule
    when <key> <values> <notValues>                -> ok
    build <http|tcp|tcphttp> <useAuthenticated> [in|gw|out] -> canonical S-expression of the generated filters
                                                      (one plugin builder per case and useAuthenticated value: lazy cache)
    req <attr>=<value> ...                         -> <decision of the generated filters> <decision of the spec>
-/
namespace IstioModel.C08
open IstioModel.Wire

structure DState where
  bundle : List Str := ["cluster.local".toList]
  wl : Workload := { rootNs := "istio-system".toList, ns := "foo".toList, labels := [] }
  policies : List Policy := []
  opts : BuildOpts := { bundle := [], forTCP := false, useAuth := true }
  filters : List GFilter := []
  custom : CustomOpts := { providers := [], multi := false }
  term : Bool := false
  /-- the plugin builders of the case, per useAuthenticated value (true, false): the inputs they were
      created with (first build) and their cache -/
  plugT : Option ((Workload × List Str × CustomOpts × List Policy) × Plugin) := none
  plugF : Option ((Workload × List Str × CustomOpts × List Policy) × Plugin) := none
deriving Inhabited

def S (s : Str) : String := enc (String.ofList s)
def L (t : String) : List Str := (decList t).map String.toList

def modifyLast {α : Type} (f : α → α) : List α → List α
  | [] => []
  | [a] => [f a]
  | a :: rest => a :: modifyLast f rest

def kv (t : String) : String × String :=
  match t.splitOn "=" with
  | k :: rest => (k, "=".intercalate rest)
  | [] => ("", "")

def setSrc (s : Source) (k : String) (v : List Str) : Source :=
  match k with
  | "pr" => { s with principals := v } | "npr" => { s with notPrincipals := v }
  | "rp" => { s with requestPrincipals := v } | "nrp" => { s with notRequestPrincipals := v }
  | "ns" => { s with namespaces := v } | "nns" => { s with notNamespaces := v }
  | "ip" => { s with ipBlocks := v } | "nip" => { s with notIpBlocks := v }
  | "rip" => { s with remoteIpBlocks := v } | "nrip" => { s with notRemoteIpBlocks := v }
  | "sa" => { s with serviceAccounts := v } | "nsa" => { s with notServiceAccounts := v }
  | "td" => { s with trustDomains := v } | "ntd" => { s with notTrustDomains := v }
  | _ => s

def setOp (o : Operation) (k : String) (v : List Str) : Operation :=
  match k with
  | "h" => { o with hosts := v } | "nh" => { o with notHosts := v }
  | "p" => { o with ports := v } | "np" => { o with notPorts := v }
  | "m" => { o with methods := v } | "nm" => { o with notMethods := v }
  | "pa" => { o with paths := v } | "npa" => { o with notPaths := v }
  | _ => o

def labelsOf (t : String) : List (Str × Str) :=
  (decList t).map fun e => ((kv e).1.toList, (kv e).2.toList)

def refsOf (t : String) : List (Str × Str × Str × Str) :=
  (decList t).map fun e =>
    let q := splitOn '|' e.toList
    (q.headD [], (q.drop 1).headD [], (q.drop 2).headD [], (q.drop 3).headD [])

def actionOf : String → Action
  | "DENY" => .deny | "AUDIT" => .audit | "CUSTOM" => .custom | "UNKNOWN" => .unknown | _ => .allow

/-! ### canonical printing -/

def showStrM : StrM → String
  | .exact s ic => s!"({if ic then "iexact" else "exact"} {S s})"
  | .pfx s ic => s!"({if ic then "iprefix" else "prefix"} {S s})"
  | .sfx s ic => s!"({if ic then "isuffix" else "suffix"} {S s})"
  | .regex r => s!"(regex {S r.text})"

def showCidr (c : Cidr) : String := s!"{S (addrString c.v6 c.addr)}/{c.len}"

mutual
def showVal : ValM → String
  | .str m => s!"(str {showStrM m})"
  | .orM l => "(or" ++ showVals l ++ ")"
  | .listM v => s!"(list {showVal v})"
def showVals : List ValM → String
  | [] => ""
  | v :: vs => " " ++ showVal v ++ showVals vs
end

def showMeta (m : MetaM) : String :=
  s!"(meta {S m.filter} path={encList (m.path.map String.ofList)} {showVal m.value})"

mutual
def showM : Matcher → String
  | .any => "any"
  | .and l => "(and" ++ showMs l ++ ")"
  | .or l => "(or" ++ showMs l ++ ")"
  | .not m => s!"(not {showM m})"
  | .destIP c => s!"(dip {showCidr c})"
  | .destPort p => s!"(dport {p})"
  | .sni m => s!"(sni {showStrM m})"
  | .urlPath m => s!"(path {showStrM m})"
  | .uriTemplate t => s!"(tmpl {S t})"
  | .authenticated m => s!"(auth {showStrM m})"
  | .filterState k m => s!"(fstate {S k} {showStrM m})"
  | .directRemoteIP c => s!"(drip {showCidr c})"
  | .remoteIP c => s!"(rip {showCidr c})"
  | .header n none => s!"(hdr {S n} present)"
  | .header n (some m) => s!"(hdr {S n} {showStrM m})"
  | .metadata m => showMeta m
def showMs : List Matcher → String
  | [] => ""
  | m :: ms => " " ++ showM m ++ showMs ms
end

def showEPolicy (name : Str) (p : EPolicy) : String :=
  s!"({S name} perms=[{(showMs p.permissions).trimAscii}] prins=[{(showMs p.principals).trimAscii}])"

def showRBAC : Option RBAC → String
  | none => "nil"
  | some r =>
    let a := match r.action with | .allow => "ALLOW" | .deny => "DENY" | .log => "LOG"
    let sorted := r.policies.mergeSort fun x y => !(String.ofList y.1 < String.ofList x.1)
    "(" ++ a ++ String.join (sorted.map fun e => " " ++ showEPolicy e.1 e.2) ++ ")"

def showFilter (f : Filter) : String :=
  s!"(filter {S f.name} rules={showRBAC f.rules} shadow={showRBAC f.shadow} sprefix={S f.shadowPrefix} stat={S f.statPrefix})"

/-- the ext_authz target: kind, cluster, authority / URI host, failure mode, status on error, path prefix -/
def showTarget (t : ExtTarget) : String :=
  s!"({if t.http then "http" else "grpc"} cluster={S t.cluster} host={S t.hostname} failopen={boolTok t.failOpen} " ++
  s!"status={match t.status with | some c => toString c | none => "nil"} prefix={S t.pathPrefix})"

/-- label of a target on `req` lines -/
def targetLabel (t : ExtTarget) : String := showTarget t

/-- The service index the harness registers (hostname, namespace). -/
def registry : List (Str × Str) :=
  [ ("my-custom-ext-authz.foo.svc.cluster.local".toList, "foo".toList),
    ("authz.foo.svc.cluster.local".toList, "foo".toList),
    ("authz2.bar.svc.cluster.local".toList, "bar".toList),
    ("ext.example.com".toList, "foo".toList), ("ext.example.com".toList, "bar".toList) ]

/-- One provider token of the `custom` op: `name|grpc/http|service|port|failopen|status|prefix`, or (older
    corpus files) a bare name, `http:`-prefixed for the HTTP kind, with the default service and port. -/
def specOf (t : Str) : ProviderSpec :=
  match splitOn '|' t with
  | [n, k, svc, port, fo, st, pp] =>
    { name := n, http := k == "http".toList, service := svc, port := (String.ofList port).toNat?.getD 0,
      failOpen := fo == "1".toList, statusOnError := st, pathPrefix := pp }
  | _ =>
    let http := hasPrefix "http:".toList t
    { name := if http then t.drop 5 else t, http := http,
      service := "foo/my-custom-ext-authz.foo.svc.cluster.local".toList, port := 9000 }

def showG : GFilter → String
  | .rbac f => showFilter f
  | .extAuthz name rbacName pre t =>
    s!"(extauthz {S name} enabled=(meta {S rbacName} path=istio_ext_authz_shadow_effective_policy_id (str (prefix {S pre}))) " ++
    s!"target={showTarget t})"

def showFilters (fs : List GFilter) : String := "[" ++ " ".intercalate (fs.map showG) ++ "]"

/-! ### requests -/

def natTok (t : String) : Nat := t.toNat?.getD 0

def zip3 : List String → List String → List String → List (String × String × String)
  | a :: as, b :: bs, c :: cs => (a, b, c) :: zip3 as bs cs
  | _, _, _ => []

def splitBar (s : String) : List Str := (splitOn '|' s.toList)

def parseReq (toks : List String) : Request :=
  let get (k : String) : Option String := (toks.map kv).lookup k
  let gs (k : String) : Str := ((get k).map dec).getD "" |>.toList
  let gl (k : String) : List String := decList ((get k).getD "-")
  let peer : Option Identity :=
    match get "peer" with
    | none => none
    | some "-" => none
    | some t => match decList t with
      | [a, b, c] => some ⟨a.toList, b.toList, c.toList⟩
      | _ => none
  let http : Option Http :=
    if (get "http").getD "0" == "1" then
      some { host := gs "host", method := gs "method", path := gs "path",
             headers := (gl "hn").zip (gl "hv") |>.map fun e => (e.1.toList, e.2.toList) }
    else none
  let metas := (zip3 (gl "mf") (gl "mp") (gl "mt")).zip (gl "mv") |>.map fun e =>
    let f := e.1.1; let p := e.1.2.1; let t := e.1.2.2; let v := e.2
    ((f.toList, if p.isEmpty then [] else splitBar p),
     -- leaf types: s = string, l = list (its string elements), anything else (n number, b bool) = other
     if t == "l" then MVal.strs (if v.isEmpty then [] else splitBar v)
     else if t == "s" then MVal.str v.toList else MVal.other)
  -- an address token: decimal IPv4 number, or `6:<decimal 128-bit number>`
  let ipTok (t : String) : IP :=
    if t.startsWith "6:" then { v6 := true, val := natTok (String.ofList (t.toList.drop 2)) } else { val := natTok t }
  { srcIP := ipTok ((get "sip").getD "0"), remoteIP := ipTok ((get "rip").getD "0"),
    dstIP := ipTok ((get "dip").getD "0"), dstPort := natTok ((get "dport").getD "0"),
    sni := gs "sni", peer := peer, http := http, metadata := metas }

def hasRule (s : DState) : Bool :=
  match s.policies.getLast? with
  | some p => !p.rules.isEmpty
  | none => false

def decTok (b : Bool) : String := if b then "allow" else "deny"

def step (s : DState) (toks : List String) : DState × String :=
  match toks with
  | "case" :: _ => ({}, "ok")
  | ["td", l] => ({ s with bundle := L l }, "ok")
  | ["custom", provs, multi] =>
    ({ s with custom := CustomOpts.ofSpecs registry ((L provs).map specOf) (tokBool multi) }, "ok")
  | "wl" :: root :: ns :: labels :: rest =>
    -- rest: proxy type (sidecar | router | waypoint); service `name|objectName|ns|k8s` / `..|ext` (or -);
    -- flags: `term` = NewWaypointTerminationBuilder, `nosel` = EnableSelectorBasedK8sGatewayPolicy off
    let flags := decList ((rest.drop 2).headD "-")
    let term := flags.contains "term"
    let svc : Option Service :=
      match splitBar (dec ((rest.drop 1).headD "-")) with
      | [n, on, sns, reg] => some { name := n, objectName := on, ns := sns, k8s := reg == "k8s".toList }
      | _ => none
    let w : Workload := { rootNs := (dec root).toList, ns := (dec ns).toList, labels := labelsOf labels,
                          waypoint := rest.headD "" == "waypoint", service := svc,
                          selectorGatewayPolicy := !flags.contains "nosel" }
    ({ s with wl := if term then w.termination else w, term := term }, "ok")
  | "pol" :: a :: ns :: name :: dry :: prov :: rest =>
    let refs := refsOf ((rest.drop 1).headD "-")
    let legacy := (rest.drop 2).headD "" == "legacy"
    ({ s with policies := s.policies ++ [{ ns := (dec ns).toList, name := (dec name).toList, action := actionOf a,
                                           dryRun := isDryRun (if dry == "0" then none else some (dec dry).toList), provider := (dec prov).toList,
                                           -- (`%7B%7D` = `selector: {}`: non-nil without labels = no label to match)
                                           selector := if rest.headD "-" == "%7B%7D" then [] else labelsOf (rest.headD "-"),
                                           targetRefs := if legacy then refs.drop 1 else refs,
                                           targetRef := if legacy then refs.head? else none, rules := [] }] }, "ok")
  | ["rule"] =>
    if s.policies.isEmpty then (s, "bad-op") else
    ({ s with policies := modifyLast (fun p => { p with rules := p.rules ++ [{}] }) s.policies }, "ok")
  | "from" :: fields =>
    if !(hasRule s) then (s, "bad-op") else
    let src := fields.foldl (fun acc t => setSrc acc (kv t).1 (L (kv t).2)) ({} : Source)
    ({ s with policies := modifyLast (fun p => { p with rules := modifyLast (fun r => { r with froms := r.froms ++ [src] }) p.rules }) s.policies }, "ok")
  | "to" :: fields =>
    if !(hasRule s) then (s, "bad-op") else
    let op := fields.foldl (fun acc t => setOp acc (kv t).1 (L (kv t).2)) ({} : Operation)
    ({ s with policies := modifyLast (fun p => { p with rules := modifyLast (fun r => { r with tos := r.tos ++ [op] }) p.rules }) s.policies }, "ok")
  | ["when", key, vs, nvs] =>
    if !(hasRule s) then (s, "bad-op") else
    let c : Condition := ⟨(dec key).toList, L vs, L nvs⟩
    ({ s with policies := modifyLast (fun p => { p with rules := modifyLast (fun r => { r with whens := r.whens ++ [c] }) p.rules }) s.policies }, "ok")
  | "build" :: kind :: auth :: rest =>
    let useAuth := if s.term then terminationUseAuth (tokBool auth) else tokBool auth
    let o : BuildOpts := { bundle := s.bundle, forTCP := kind != "http", useAuth := useAuth,
                           tcpRulesAsHTTP := kind == "tcphttp" }
    let call : Call := if kind == "tcp" then .tcp else if kind == "tcphttp" then .tcpHttp
                       else .http (rest.headD "in" == "out")
    let cur := if useAuth then s.plugT else s.plugF
    let (snap, pl) := cur.getD ((s.wl, s.bundle, s.custom, s.policies), {})
    let (pl', fs) := pl.call (buildFresh snap.1 snap.2.1 useAuth snap.2.2.1 snap.2.2.2) call
    let s := if useAuth then { s with plugT := some (snap, pl') } else { s with plugF := some (snap, pl') }
    ({ s with opts := o, filters := fs }, showFilters fs)
  | "req" :: attrs =>
    let r := parseReq attrs
    -- decision of the generated filters, decision of the statement, ext_authz filters consulted (provider part of
    -- the id prefix they look for), providers the statement says must be asked
    -- (named by their TARGET: kind and upstream cluster)
    let asked := (extAuthzTargets s.filters none r).map targetLabel
    let mustAsk := (specAskTargets s.wl s.bundle s.custom s.opts.forTCP s.opts.shapeTCP s.policies r).map targetLabel
    (s, s!"{decTok (evalGs s.filters r)} {decTok (specDecisionOn s.wl s.bundle s.custom s.opts.forTCP s.policies r)} " ++
        s!"ext={encList asked} ask={encList mustAsk}")
  | _ => (s, "bad-op")

/-- Stream `hyps` (not compared with the implementation): for every `req` line, whether the
    hypotheses of the main theorems hold for (options, applying policies, request), whether
    everything is translatable, and the two decisions - so that the check can report how much of the
    generated input space the theorems cover and re-confirm their conclusion on it. -/
def stepHyps (s : DState) (toks : List String) : DState × String :=
  match toks with
  | "req" :: attrs =>
    let r := parseReq attrs
    let sel := selectPolicies s.wl s.policies
    let mig := sel.all fun p => p.rules.all fun ru => migrationOKB s.opts p.ns ru
    let scope := sel.all fun p => p.rules.all fun ru => ruleInScope s.opts r p.ns ru
    (s, s!"hyps={boolTok (hypsOnB s.opts sel r)} tr={boolTok (translatableB s.opts sel)} " ++
        s!"compiled={decTok (evalGs s.filters r)} spec={decTok (specDecisionOn s.wl s.bundle s.custom s.opts.forTCP s.policies r)} " ++
        s!"mig={boolTok mig} scope={boolTok scope} names={boolTok (entriesDistinctB s.opts sel)} " ++
        s!"iso={boolTok (customIsolatedB s.opts sel)} " ++
        s!"ext={encList ((extAuthzTargets s.filters none r).map showTarget)} " ++
        s!"ask={encList ((specAskTargets s.wl s.bundle s.custom s.opts.forTCP s.opts.shapeTCP s.policies r).map showTarget)}")
  | "build" :: _ => let (s', _) := step s toks; (s', "built")
  | _ => step s toks

end IstioModel.C08
