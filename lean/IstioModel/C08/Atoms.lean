/-
C08 - `matcher_correct_*`: every value -> Envoy matcher translation of the Istio generators means
exactly what the policy value denotes (or, where that is false, the precise partial statement and
a proved counterexample).
-/
import IstioModel.C08.Lemmas
import IstioModel.C08.Scope

namespace IstioModel.C08

/-! ## 1. Value -> matcher translations (`matcher_correct_*`) -/


theorem rx_anyNonEmpty (x : Str) : Rx.matches .anyNonEmpty x = !x.isEmpty := by
  cases x with
  | nil => simp [Rx.matches, Rx.alts, matchPieces]
  | cons c cs =>
    simp only [Rx.matches, Rx.alts, List.any_cons, List.any_nil, Bool.or_false, matchPieces]
    have : anySuffix (fun x : Str => x.isEmpty) cs = true := by
      rw [anySuffix_iff]; exact ⟨[], List.nil_suffix, by simp⟩
    rw [this]; rfl

theorem rx_prefixSuffix (p s x : Str) :
    Rx.matches (.prefixSuffix p s) (p ++ x) = s.isSuffixOf x := by
  simp only [Rx.matches, Rx.alts, List.any_cons, List.any_nil, Bool.or_false, matchPieces,
    isPrefixOf_self_append, Bool.true_and, List.drop_left]
  have : (fun t : Str => s.isPrefixOf t && (t.drop s.length).isEmpty) = (· == s) := by
    funext t; exact lit_end s t
  rw [this, anySuffix_beq]

/-- `matcher.StringMatcherWithPrefix(v, pre)` evaluated on `pre ++ s` is the value form of `v` on `s`
    (for `*` the prefixed string is non-empty iff `s` is, unless a prefix was added). -/
theorem matcher_correct_string (v pre s : Str) (h : pre = [] ∨ s ≠ []) :
    evalStrM (stringMatcherWithPrefix v pre) (pre ++ s) = strForm v s := by
  unfold stringMatcherWithPrefix strForm
  by_cases h1 : v = star
  · simp only [h1, if_true, evalStrM, rx_anyNonEmpty]
    rcases h with rfl | h
    · simp
    · cases s with
      | nil => exact absurd rfl h
      | cons c cs => simp
  · simp only [h1, if_false]
    by_cases h2 : hasPrefix star v = true
    · simp only [h2, if_true]
      by_cases h3 : pre.isEmpty = true
      · have : pre = [] := by simpa using h3
        subst this
        simp [evalStrM]
      · have h3' : pre.isEmpty = false := by simpa using h3
        simp only [h3', Bool.false_eq_true, if_false, evalStrM]
        rw [rx_prefixSuffix]
    · simp only [h2]
      by_cases h3 : hasSuffix star v = true
      · simp [h3, evalStrM, isPrefixOf_append_cancel]
      · simp [h3, evalStrM, beq_append_cancel]


theorem matcher_correct_header (ic : Bool) (k v : Str) (req : Request) :
    evalM (headerMatcherIC ic k v) req =
      req.http.any fun h => (lookupHeader k h).any (hdrForm ic v ·) := by
  unfold headerMatcherIC hdrForm
  cases hreq : req.http with
  | none => repeat' split
            all_goals simp [evalM, evalHeader, hreq]
  | some h =>
    cases hl : lookupHeader k h with
    | none => repeat' split
              all_goals simp [evalM, evalHeader, hreq, hl]
    | some x =>
      by_cases h1 : v = star
      · simp [h1, evalM, evalHeader, hreq, hl]
      · by_cases h2 : hasPrefix star v = true
        · cases ic <;> simp [h1, h2, evalM, evalHeader, hreq, hl, evalStrM]
        · by_cases h3 : hasSuffix star v = true
          · cases ic <;> simp [h1, h2, h3, evalM, evalHeader, hreq, hl, evalStrM]
          · cases ic <;> simp [h1, h2, h3, evalM, evalHeader, hreq, hl, evalStrM]

theorem matcher_correct_cidr (c : Cidr) (ip : IP) : c.contains ip = cidrHas c ip := by
  simp [Cidr.contains, cidrHas, Nat.shiftRight_eq_div_pow]

theorem eval_principalAuthenticated (m : StrM) (auth : Bool) (req : Request) :
    evalM (principalAuthenticated m auth) req = (peerName req).any (evalStrM m ·) := by
  cases auth <;> cases h : peerName req <;> simp [principalAuthenticated, evalM, h]


/-- The Istio principal of an identity is never the empty string. -/
theorem principal_ne_nil (i : Identity) : i.principal ≠ [] := by
  simp [Identity.principal]

/-- `source.principal` / `principals`: value forms over `<td>/ns/<ns>/sa/<sa>`, translated with the
    `spiffe://` prefix (exact, prefix, and the generated regex `spiffe://.*<suffix>` for `*suffix`). -/
theorem matcher_correct_principal (v : Str) (auth : Bool) (req : Request) :
    evalM (principalAuthenticated (stringMatcherWithPrefix v spiffePrefix) auth) req =
      req.peer.any fun id => strForm v id.principal := by
  rw [eval_principalAuthenticated]
  cases h : req.peer with
  | none => simp [peerName, h]
  | some id =>
    simp only [peerName, h, Option.map_some, Option.any_some, Identity.uriSan]
    exact matcher_correct_string v spiffePrefix id.principal (Or.inr (principal_ne_nil id))

/-- Permission-side atom: whenever the generator produces a matcher, it means the policy value. -/
def PermAtomExact (g : Gen) (key v : Str) (tcp : Bool) (req : Request) : Prop :=
  ∀ p, genPermission g key v tcp = some p → evalM p req = specAtom g key v req

/-- Principal-side atom. -/
def PrinAtomExact (g : Gen) (key v : Str) (tcp auth : Bool) (req : Request) : Prop :=
  ∀ p, genPrincipal g key v tcp auth = some p → evalM p req = specAtom g key v req

theorem lower_hostHeader : lower hostHeader = hostHeader := by decide
theorem lower_methodHeader : lower methodHeader = methodHeader := by decide
theorem method_ne_host : methodHeader ≠ hostHeader := by decide

/-- Every permission generator of the non-extended kind (destination.ip, destination.port,
    connection.sni, hosts, methods, paths) is exact, on HTTP and on TCP chains. -/
theorem matcher_correct_permission (g : Gen) (key v : Str) (tcp : Bool) (req : Request) :
    PermAtomExact g key v tcp req := by
  intro p hp
  cases g <;> simp only [genPermission] at hp <;> try (cases hp; done)
  case destIP =>
    cases hc : parseCidr v with
    | none => simp [hc] at hp
    | some c =>
      simp only [hc, Option.map_some, Option.some.injEq] at hp
      subst hp
      simp [evalM, specAtom, hc, matcher_correct_cidr]
  case destPort =>
    cases hc : parsePort v with
    | none => simp [hc] at hp
    | some c =>
      simp only [hc, Option.map_some, Option.some.injEq] at hp
      subst hp
      simp [evalM, specAtom, hc]
  case connSNI =>
    simp only [Option.some.injEq] at hp
    subst hp
    have := matcher_correct_string v [] req.sni (Or.inl rfl)
    simpa [evalM, specAtom, stringMatcher] using this
  case host =>
    cases tcp <;> simp at hp
    subst hp
    rw [hostMatcher, matcher_correct_header]
    simp [specAtom, lookupHeader, lower_hostHeader]
  case method =>
    cases tcp <;> simp at hp
    subst hp
    rw [headerMatcher, matcher_correct_header]
    simp [specAtom, lookupHeader, lower_methodHeader, method_ne_host]
  case path =>
    cases tcp <;> simp at hp
    by_cases ht : containsPathTemplate v = true
    · simp only [ht, if_true, Option.some.injEq] at hp
      subst hp
      cases hh : req.http <;> simp [evalM, specAtom, hh, ht]
    · have ht' : containsPathTemplate v = false := by simpa using ht
      simp only [ht', Bool.false_eq_true, if_false, Option.some.injEq] at hp
      subst hp
      have := fun s => matcher_correct_string v [] s (Or.inl rfl)
      cases hh : req.http <;> simp [evalM, specAtom, hh, ht, stringMatcher] at this ⊢
      exact this _


theorem wf_iff (i : Identity) : i.wf = true ↔ i.td ≠ [] ∧ '/' ∉ i.td ∧ '/' ∉ i.ns ∧ '/' ∉ i.sa := by
  simp [Identity.wf, and_assoc]

theorem peerWF_some {req : Request} {i : Identity} (h : req.peerWF = true) (hp : req.peer = some i) :
    i.td ≠ [] ∧ '/' ∉ i.td ∧ '/' ∉ i.ns ∧ '/' ∉ i.sa := by
  simp only [Request.peerWF, hp, Option.all_some] at h
  exact (wf_iff i).1 h

theorem peerNs_some {req : Request} {i : Identity} (h : req.peerNs = true) (hp : req.peer = some i) :
    (i.td ≠ [] ∧ '/' ∉ i.td ∧ '/' ∉ i.ns ∧ '/' ∉ i.sa) ∧ i.td ≠ "ns".toList ∧ i.ns ≠ "ns".toList := by
  simp only [Request.peerNs, hp, Option.all_some, Bool.and_eq_true] at h
  refine ⟨(wf_iff i).1 h.1, ?_⟩
  simpa [Identity.nsSafe] using h.2

/-- Under `headerNonEmpty key` the header the key designates, when present, has a non-empty value. -/
theorem lookupHeader_ne_nil {req : Request} {h : Http} {key : Str} (hr : headerNonEmpty key req = true)
    (hh : req.http = some h) (name x : Str)
    (hn : extractNameInBrackets (trimPrefix attrRequestHeader key) = some name)
    (hl : lookupHeader name h = some x) : x.isEmpty = false := by
  simp only [headerNonEmpty, hh, Option.all_some, hn, hl, Bool.not_eq_true'] at hr
  exact hr

theorem matcher_correct_namespace_partial (key v : Str) (tcp auth : Bool) (req : Request)
    (hv : nsValueExact v = true) (hr : req.peerNs = true) :
    PrinAtomExact .srcNamespace key v tcp auth req := by
  intro p hp
  simp only [genPrincipal, Option.some.injEq] at hp
  subst hp
  rw [eval_principalAuthenticated]
  simp only [nsValueExact, Bool.and_eq_true, Bool.not_eq_true', List.contains_eq_mem,
    decide_eq_false_iff_not] at hv
  cases h : req.peer with
  | none => simp [peerName, specAtom, h]
  | some i =>
    obtain ⟨hw, hs⟩ := peerNs_some hr h
    simp only [peerName, h, Option.map_some, Option.any_some, evalStrM, specAtom, globForm,
      splitOn_of_not_mem '*' v hv.1, globParts]
    exact rx_ns_exact v i hv.2 hw.2.1 hw.2.2.1 hw.2.2.2 hs.1 hs.2

theorem splitOn_nil (c : Char) : splitOn c [] = [[]] := rfl

theorem matcher_correct_namespace_forms (key v : Str) (tcp auth : Bool) (req : Request)
    (hv : nsValueOK v = true) (hr : req.peerNs = true) :
    PrinAtomExact .srcNamespace key v tcp auth req := by
  intro p hp
  simp only [genPrincipal, Option.some.injEq] at hp
  subst hp
  rw [eval_principalAuthenticated]
  unfold nsValueOK at hv
  simp only [Bool.and_eq_true, Bool.or_eq_true, Bool.not_eq_true', List.contains_eq_mem,
    decide_eq_false_iff_not, bne_iff_ne, ne_eq] at hv
  obtain ⟨hsl, hforms⟩ := hv
  cases h : req.peer with
  | none => simp [peerName, specAtom, h]
  | some i =>
    obtain ⟨hw, hs⟩ := peerNs_some hr h
    simp only [peerName, h, Option.map_some, Option.any_some, evalStrM, specAtom, globForm]
    rcases hforms with (hno | ⟨hsuf, hp⟩) | ⟨⟨⟨⟨hpre, hq⟩, hqne⟩, hqa⟩, hqsa⟩
    · rw [splitOn_of_not_mem '*' v hno]
      simp only [globParts]
      exact rx_ns_exact v i hsl hw.2.1 hw.2.2.1 hw.2.2.2 hs.1 hs.2
    · obtain ⟨t, rfl⟩ := (hasSuffix_star_iff v).1 hsuf
      simp only [dropLast_append_singleton] at hp
      have hts : '/' ∉ t := fun hm => hsl (List.mem_append_left _ hm)
      have : splitOn '*' (t ++ ['*']) = [t, []] := by
        rw [splitOn_sl '*' t [] hp, splitOn_nil]
      rw [this, rx_ns_prefix t i hts hw.2.1 hw.2.2.1 hw.2.2.2 hs.1 hs.2]
      simp only [globParts, Bool.and_eq_true]
      rw [Bool.eq_iff_iff]
      simp only [Bool.and_eq_true, anySuffix_iff]
      constructor
      · intro hh; exact ⟨hh, [], List.nil_suffix, by simp⟩
      · intro hh; exact hh.1
    · obtain ⟨q, rfl⟩ := (hasPrefix_star_iff v).1 hpre
      simp only [List.drop_succ_cons, List.drop_zero] at hq hqne hqa hqsa
      have hqs : '/' ∉ q := fun hm => hsl (List.mem_cons_of_mem _ hm)
      have : splitOn '*' ('*' :: q) = [[], q] := by
        have := splitOn_sl '*' [] q (by simp)
        simp only [List.nil_append] at this
        rw [this, splitOn_of_not_mem '*' q hq]
      rw [this, rx_ns_suffix q i hqs hqne hqa hqsa hw.2.1 hw.2.2.1 hw.2.2.2 hs.1 hs.2]
      simp only [globParts, List.length_nil, List.drop_zero, anySuffix_beq]
      simp [hasPrefix, hasSuffix]

theorem matcher_correct_serviceaccount (pns key v : Str) (tcp auth : Bool) (req : Request)
    (hv : pns.contains '/' = false) (hr : req.peerWF = true) :
    PrinAtomExact (.srcServiceAccount pns) key v tcp auth req := by
  intro p hp
  simp only [genPrincipal, Option.some.injEq] at hp
  subst hp
  rw [eval_principalAuthenticated]
  have hNS : '/' ∉ (saSplit pns v).1 := by
    unfold saSplit
    cases hc : cut '/' v with
    | none => simpa using hv
    | some ab => obtain ⟨a, b⟩ := ab; exact (cut_eq _ _ _ _ hc).2
  cases h : req.peer with
  | none => simp [peerName, specAtom, h]
  | some i =>
    have hw := peerWF_some hr h
    simp only [peerName, h, Option.map_some, Option.any_some, evalStrM, specAtom]
    exact rx_sa _ _ i hNS hw.1 hw.2.1 hw.2.2.1 hw.2.2.2

theorem matcher_correct_trustdomain (key v : Str) (tcp auth : Bool) (req : Request)
    (hv : v.contains '/' = false) (hr : req.peerWF = true) :
    PrinAtomExact .srcTrustDomain key v tcp auth req := by
  intro p hp
  simp only [genPrincipal, Option.some.injEq] at hp
  subst hp
  rw [eval_principalAuthenticated]
  have hv' : '/' ∉ v := by simpa using hv
  cases h : req.peer with
  | none => simp [peerName, specAtom, h]
  | some i =>
    have hw := peerWF_some hr h
    simp only [peerName, h, Option.map_some, Option.any_some, specAtom, trustDomainMatcher, tdForm]
    by_cases h1 : v = star
    · simp only [h1, if_true, evalStrM, Bool.false_eq_true, if_false]
      simp [Identity.uriSan, hasPrefix, isPrefixOf_self_append]
    · simp only [h1, if_false]
      cases hc : cut '*' v with
      | none =>
        simp only [evalStrM, Bool.false_eq_true, if_false]
        exact td_exact_prefix v i hv' hw.2.1
      | some ab =>
        obtain ⟨a, b⟩ := ab
        obtain ⟨he, -⟩ := cut_eq _ _ _ _ hc
        have ha : '/' ∉ a := fun hm => hv' (by rw [he]; simp [hm])
        have hb : '/' ∉ b := fun hm => hv' (by rw [he]; simp [hm])
        simp only [evalStrM]
        exact rx_td_glob a b i ha hb hw.2.1

/-- Every principal generator of the non-extended kind (source.ip, remote.ip, namespaces, service
    accounts, trust domains, principals, request headers) is exact under `prinValueOK`, a condition
    on the value and on the part of the request this very matcher reads. -/
theorem matcher_correct_principals (g : Gen) (key v : Str) (tcp auth : Bool) (req : Request)
    (hv : prinValueOK g key v req = true) :
    PrinAtomExact g key v tcp auth req := by
  cases g
  case srcNamespace =>
    simp only [prinValueOK, Bool.and_eq_true] at hv
    exact matcher_correct_namespace_forms key v tcp auth req hv.1 hv.2
  case srcServiceAccount pns =>
    simp only [prinValueOK, Bool.and_eq_true, Bool.not_eq_true'] at hv
    exact matcher_correct_serviceaccount pns key v tcp auth req hv.1 hv.2
  case srcTrustDomain =>
    simp only [prinValueOK, Bool.and_eq_true, Bool.not_eq_true'] at hv
    exact matcher_correct_trustdomain key v tcp auth req hv.1 hv.2
  case srcPrincipal =>
    intro p hp
    simp only [genPrincipal, Option.some.injEq] at hp
    subst hp
    simp [matcher_correct_principal, specAtom]
  case srcIP =>
    intro p hp
    simp only [genPrincipal] at hp
    cases hc : parseCidr v with
    | none => simp [hc] at hp
    | some c =>
      simp only [hc, Option.map_some, Option.some.injEq] at hp
      subst hp
      simp [evalM, specAtom, hc, matcher_correct_cidr]
  case remoteIP =>
    intro p hp
    simp only [genPrincipal] at hp
    cases hc : parseCidr v with
    | none => simp [hc] at hp
    | some c =>
      simp only [hc, Option.map_some, Option.some.injEq] at hp
      subst hp
      simp [evalM, specAtom, hc, matcher_correct_cidr]
  case requestHeader =>
    intro p hp
    simp only [genPrincipal] at hp
    cases tcp <;> simp only [Bool.false_eq_true, if_false, if_true] at hp <;> try (cases hp; done)
    cases hn : extractNameInBrackets (trimPrefix attrRequestHeader key) with
    | none => simp [hn] at hp
    | some name =>
      simp only [hn, Option.some.injEq] at hp
      subst hp
      rw [headerMatcher, matcher_correct_header]
      simp only [specAtom, hn]
      cases hh : req.http with
      | none => rfl
      | some h =>
        simp only [Option.any_some]
        cases hl : lookupHeader name h with
        | none => rfl
        | some x =>
          simp only [Option.any_some]
          by_cases hv' : v = star
          · have hr : headerNonEmpty key req = true := by
              simpa [prinValueOK, hv'] using hv
            have := lookupHeader_ne_nil hr hh name x hn hl
            simp [hv', hdrForm, this]
          · simp [hv']
  all_goals (intro p hp; simp only [genPrincipal] at hp; cases hp)




/-- Full-strength statement for namespaces: every value (wildcards anywhere) is matched exactly. -/
def NamespaceMatcherExact : Prop :=
  ∀ (v : Str) (auth : Bool) (req : Request), req.peerNs = true →
    PrinAtomExact .srcNamespace [] v false auth req

def nsWitnessReq : Request :=
  { srcIP := 0, remoteIP := 0, dstIP := 0, dstPort := 80, sni := [],
    peer := some ⟨"cluster.local".toList, "foo".toList, "bar".toList⟩, http := none, metadata := [] }

/-- The full statement is FALSE: the generated regex `.*/ns/.*sa/.*` lets `.*` run across the '/'
    after the namespace, so the value `*sa` (namespaces ending in "sa") matches the identity
    `cluster.local/ns/foo/sa/bar`, whose namespace is `foo`. (Replayed on the real code: corpus
    `requests.ns-wildcard.ops`.) -/
theorem matcher_correct_namespace_witness : ¬ NamespaceMatcherExact := by
  intro h
  have := h "*sa".toList true nsWitnessReq (by decide) _ rfl
  revert this
  decide

def nsWitnessReq2 : Request :=
  { nsWitnessReq with peer := some ⟨"cluster.local".toList, "ns".toList, "bar".toList⟩ }

/-- Two more shapes of the same defect (the regex `.*/ns/<value>/.*` is not anchored to the namespace
    segment of the identity): the validator-accepted value `foo/sa` - which no namespace equals -
    matches every workload of namespace `foo`; and the wildcard-free value `sa` matches a workload of
    the namespace named `ns` (`spiffe://cluster.local/ns/ns/sa/bar` contains `/ns/sa/`).  (Replayed
    on the real code: corpus `requests.ns-wildcard.ops`, cases 2 and 3.) -/
theorem matcher_namespace_slash_witness :
    (genPrincipal .srcNamespace [] "foo/sa".toList false true).map (evalM · nsWitnessReq) = some true ∧
    specAtom .srcNamespace [] "foo/sa".toList nsWitnessReq = false := by decide

theorem matcher_namespace_anchor_witness :
    nsValueOK "sa".toList = true ∧
    (genPrincipal .srcNamespace [] "sa".toList false true).map (evalM · nsWitnessReq2) = some true ∧
    specAtom .srcNamespace [] "sa".toList nsWitnessReq2 = false ∧
    nsWitnessReq2.peerNs = false := by decide

/-- What does hold for every namespace value: the generated matcher never misses a namespace the
    value denotes (so DENY `namespaces` / ALLOW `notNamespaces` stay safe). -/
theorem matcher_namespace_complete (key v : Str) (tcp auth : Bool) (req : Request) (p : Matcher)
    (hp : genPrincipal .srcNamespace key v tcp auth = some p)
    (hs : specAtom .srcNamespace key v req = true) : evalM p req = true := by
  simp only [genPrincipal, Option.some.injEq] at hp
  subst hp
  rw [eval_principalAuthenticated]
  cases h : req.peer with
  | none => simp [specAtom, h] at hs
  | some i =>
    simp only [specAtom, h, Option.any_some] at hs
    simp only [peerName, h, Option.map_some, Option.any_some, evalStrM]
    exact rx_ns_complete v i hs

/-- Full-strength statement for `request.headers[..]`: exact for every request. -/
def HeaderMatcherExact : Prop :=
  ∀ (key v : Str) (auth : Bool) (req : Request), PrinAtomExact .requestHeader key v false auth req

def headerWitnessReq : Request :=
  { srcIP := 0, remoteIP := 0, dstIP := 0, dstPort := 80, sni := [], peer := none,
    http := some { host := "example.com".toList, method := "GET".toList, path := "/".toList,
                   headers := [("x-token".toList, [])] },
    metadata := [] }

/-- The full statement is FALSE: the value `*` compiles to `present_match: true`, which a header
    with an EMPTY value satisfies, while the API documents `*` as "the value is not empty"
    (finding 4; replayed on the real code: corpus `requests.header-presence.ops`). -/
theorem matcher_correct_header_witness : ¬ HeaderMatcherExact := by
  intro h
  have := h "request.headers[x-token]".toList star true headerWitnessReq _ rfl
  revert this
  decide

/-! ## Envoy accepts the generated matchers

Envoy's proto constraints (protoc-gen-validate) refuse a StringMatcher with an EMPTY `prefix` or
`suffix` - a listener carrying one is NACKed as a whole.  The generators never emit one: `*` is
recognised first (the comment in string.go / header.go).  The harness checks the constraint on the real
protos of every build (`ValidateAll`, oracle clause `envoy-rejects-config`). -/

/-- A string matcher Envoy accepts: no empty prefix / suffix. -/
def StrM.accepted : StrM → Bool
  | .pfx s _ => !s.isEmpty
  | .sfx s _ => !s.isEmpty
  | _ => true

theorem stringMatcherWithPrefix_accepted (v pre : Str) : (stringMatcherWithPrefix v pre).accepted = true := by
  unfold stringMatcherWithPrefix
  split
  · rfl
  · rename_i hstar
    split
    · rename_i hp
      obtain ⟨t, rfl⟩ := (hasPrefix_star_iff v).1 hp
      split
      · have : t ≠ [] := fun e => hstar (by rw [e]; rfl)
        simpa [StrM.accepted] using this
      · rfl
    · split
      · rename_i hs
        obtain ⟨t, rfl⟩ := (hasSuffix_star_iff v).1 hs
        have : t ≠ [] := fun e => hstar (by rw [e]; rfl)
        simp [StrM.accepted, this]
      · rfl

theorem headerMatcher_accepted (ic : Bool) (k v : Str) :
    ∀ m, headerMatcherIC ic k v = .header k (some m) → m.accepted = true := by
  intro m hm
  unfold headerMatcherIC at hm
  split at hm
  · cases hm
  · rename_i hstar
    split at hm
    · rename_i hp
      obtain ⟨t, rfl⟩ := (hasPrefix_star_iff v).1 hp
      simp only [Matcher.header.injEq, Option.some.injEq, true_and] at hm
      subst hm
      have : t ≠ [] := fun e => hstar (by rw [e]; rfl)
      simpa [StrM.accepted] using this
    · split at hm
      · rename_i hs
        obtain ⟨t, rfl⟩ := (hasSuffix_star_iff v).1 hs
        simp only [Matcher.header.injEq, Option.some.injEq, true_and] at hm
        subst hm
        have : t ≠ [] := fun e => hstar (by rw [e]; rfl)
        simp [StrM.accepted, this]
      · simp only [Matcher.header.injEq, Option.some.injEq, true_and] at hm
        subst hm; rfl

end IstioModel.C08
