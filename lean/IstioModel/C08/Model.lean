/-
C08 - executable model of the AuthorizationPolicy -> Envoy RBAC compiler.

Source language : AuthorizationPolicy rules (from / to / when, values and notValues).
Compiler (Go)   : pilot/pkg/security/authz/model/{model,generator,permission,principal,util}.go,
                  pilot/pkg/security/authz/matcher/{string,header,metadata,template}.go,
                  pilot/pkg/security/authz/builder/builder.go, pilot/pkg/security/trustdomain/bundle.go,
                  pilot/pkg/model/authorization.go (partition by action).
Target language : the subset of the Envoy RBAC messages Istio emits (`Matcher` below merges
                  `rbac.Permission` and `rbac.Principal`: both have any/and/or/not, header, metadata;
                  the position inside `EPolicy` tells which one it is).

Strings are `List Char` (`Str`) so that prefix/suffix reasoning uses the core `List` lemmas; the
driver converts at the boundary.  Everything here is core Lean, total and computable.
-/
namespace IstioModel.C08

abbrev Str := List Char

/-! ## String helpers (Go `strings` functions used by the compiler) -/

/-- ASCII lower-casing of one character (Envoy `ignore_case` is ASCII only). -/
def lowerC (c : Char) : Char :=
  if 'A' ≤ c ∧ c ≤ 'Z' then Char.ofNat (c.toNat + 32) else c

def lower (s : Str) : Str := s.map lowerC

/-- `strings.HasPrefix s p`. -/
abbrev hasPrefix (p s : Str) : Bool := p.isPrefixOf s
/-- `strings.HasSuffix s p`. -/
abbrev hasSuffix (p s : Str) : Bool := p.isSuffixOf s

def star : Str := ['*']

/-- `strings.Split(s, string(c))` for a single-byte separator. -/
def splitOn (c : Char) : Str → List Str
  | [] => [[]]
  | x :: xs =>
    if x = c then [] :: splitOn c xs
    else match splitOn c xs with
      | h :: t => (x :: h) :: t
      | [] => [[x]]

/-- `strings.Cut(s, string(c))`: (before, after, found). -/
def cut (c : Char) : Str → Option (Str × Str)
  | [] => none
  | x :: xs =>
    if x = c then some ([], xs)
    else match cut c xs with
      | some (a, b) => some (x :: a, b)
      | none => none

/-- `strings.LastIndex`-based split: (before last c, after last c). -/
def cutLast (c : Char) (s : Str) : Option (Str × Str) :=
  match cut c s.reverse with
  | some (a, b) => some (b.reverse, a.reverse)
  | none => none

def join (sep : Str) : List Str → Str
  | [] => []
  | [a] => a
  | a :: rest => a ++ sep ++ join sep rest

/-- `strings.TrimPrefix(s, p)`. -/
def trimPrefix (p s : Str) : Str := if p.isPrefixOf s then s.drop p.length else s
/-- `strings.TrimSuffix(s, p)`. -/
def trimSuffix (p s : Str) : Str := if p.isSuffixOf s then s.take (s.length - p.length) else s

/-- `strings.Trim(s, cutset)`. -/
def trimSet (set : Str) (s : Str) : Str :=
  ((s.dropWhile (set.contains ·)).reverse.dropWhile (set.contains ·)).reverse

def isMeta (c : Char) : Bool := "\\.+*?()|[]{}^$".toList.contains c

/-- `regexp.QuoteMeta`. -/
def quoteMeta : Str → Str
  | [] => []
  | c :: cs => if isMeta c then '\\' :: c :: quoteMeta cs else c :: quoteMeta cs

def isDigit (c : Char) : Bool := '0' ≤ c ∧ c ≤ '9'

def digitsVal : Str → Nat → Nat
  | [], acc => acc
  | c :: cs, acc => digitsVal cs (acc * 10 + (c.toNat - 48))

/-- decimal number made of ASCII digits only (non-empty). -/
def parseNat (s : Str) : Option Nat :=
  if s.isEmpty || !s.all isDigit then none else some (digitsVal s 0)

def natToStr (n : Nat) : Str := (toString n).toList

/-! ## Source language: AuthorizationPolicy -/

structure Source where
  principals : List Str := []
  notPrincipals : List Str := []
  requestPrincipals : List Str := []
  notRequestPrincipals : List Str := []
  namespaces : List Str := []
  notNamespaces : List Str := []
  ipBlocks : List Str := []
  notIpBlocks : List Str := []
  remoteIpBlocks : List Str := []
  notRemoteIpBlocks : List Str := []
  serviceAccounts : List Str := []
  notServiceAccounts : List Str := []
  trustDomains : List Str := []
  notTrustDomains : List Str := []
deriving Repr, DecidableEq, Inhabited

structure Operation where
  hosts : List Str := []
  notHosts : List Str := []
  ports : List Str := []
  notPorts : List Str := []
  methods : List Str := []
  notMethods : List Str := []
  paths : List Str := []
  notPaths : List Str := []
deriving Repr, DecidableEq, Inhabited

structure Condition where
  key : Str
  values : List Str
  notValues : List Str
deriving Repr, DecidableEq, Inhabited

/-- One `Rule`. A `from` entry whose `source` is nil and a `to` entry whose `operation` is nil behave
    like entries with all fields empty (`if s := from.Source; s != nil`), so they are represented so. -/
structure Rule where
  froms : List Source := []
  tos : List Operation := []
  whens : List Condition := []
deriving Repr, DecidableEq, Inhabited

/-- `unknown`: an action value outside the enum (`updateAuthorizationPoliciesResult` logs and ignores
    such a policy; validation cannot produce it). -/
inductive Action | allow | deny | audit | custom | unknown
deriving Repr, DecidableEq, Inhabited

structure Policy where
  ns : Str
  name : Str
  action : Action
  dryRun : Bool := false
  provider : Str := []
  selector : List (Str × Str) := []     -- spec.selector.matchLabels (empty = no selector)
  /-- spec.targetRefs: (group, kind, name, namespace) -/
  targetRefs : List (Str × Str × Str × Str) := []
  /-- the legacy single spec.targetRef -/
  targetRef : Option (Str × Str × Str × Str) := none
  rules : List Rule := []
deriving Repr, DecidableEq, Inhabited

/-- `model.GetTargetRefs`: the list, or else the legacy single reference. -/
def Policy.refs (p : Policy) : List (Str × Str × Str × Str) :=
  if p.targetRefs.isEmpty then p.targetRef.toList else p.targetRefs

/-- A `model.Service` as far as policy attachment reads it (`WithService`). -/
structure Service where
  name : Str               -- Attributes.Name (the hostname for a ServiceEntry service)
  objectName : Str := []   -- Attributes.ObjectName (the name of the Service / ServiceEntry object)
  ns : Str
  k8s : Bool := true       -- registry Kubernetes (else External)
deriving Repr, DecidableEq, Inhabited

/-- `ptr.NonEmptyOrDefault(ObjectName, Name)`: the name targetRefs are compared with. -/
def Service.policyName (s : Service) : Str := if s.objectName.isEmpty then s.name else s.objectName

/-- The workload the filters are generated for (`WorkloadPolicyMatcher` of a sidecar: no
    gateway-name label, no targetRefs) and the mesh root namespace. -/
structure Workload where
  rootNs : Str
  ns : Str
  labels : List (Str × Str)
  /-- the proxy is a waypoint (`Proxy.IsWaypointProxy`, `WorkloadPolicyMatcher.IsWaypoint`) -/
  waypoint : Bool := false
  /-- `WithService` (`NewBuilderForService`): the service the chain is built for -/
  service : Option Service := none
  /-- `features.EnableSelectorBasedK8sGatewayPolicy` (default on) -/
  selectorGatewayPolicy : Bool := true
deriving Repr, DecidableEq, Inhabited

/-! ## Attribute vocabulary (model.go constants, `New` switch) -/

/-- The generator types of generator.go. -/
inductive Gen
  | destIP | destPort | connSNI | envoyFilter
  | srcIP | remoteIP | srcNamespace | srcTrustDomain
  | srcServiceAccount (policyNs : Str)
  | srcPrincipal | requestPrincipal | requestAudiences | requestPresenter
  | requestHeader | requestClaim
  | host | path | method
deriving Repr, DecidableEq, Inhabited

def attrRequestHeader : Str := "request.headers".toList
def attrSrcIP : Str := "source.ip".toList
def attrRemoteIP : Str := "remote.ip".toList
def attrSrcNamespace : Str := "source.namespace".toList
def attrSrcServiceAccount : Str := "source.serviceAccount".toList
def attrSrcTrustDomain : Str := "source.trustDomain".toList
def attrSrcPrincipal : Str := "source.principal".toList
def attrRequestPrincipal : Str := "request.auth.principal".toList
def attrRequestAudiences : Str := "request.auth.audiences".toList
def attrRequestPresenter : Str := "request.auth.presenter".toList
def attrRequestClaims : Str := "request.auth.claims".toList
def attrDestIP : Str := "destination.ip".toList
def attrDestPort : Str := "destination.port".toList
def attrConnSNI : Str := "connection.sni".toList
def attrEnvoyFilter : Str := "experimental.envoy.filters.".toList
def methodHeader : Str := ":method".toList
def pathMatcherKey : Str := "path-matcher".toList
def hostHeader : Str := ":authority".toList

/-- The `switch` of `model.New` over a `when` key; `none` = "unknown attribute" error. -/
def classify (policyNs : Str) (k : Str) : Option Gen :=
  if k = attrDestIP then some .destIP
  else if k = attrDestPort then some .destPort
  else if k = attrConnSNI then some .connSNI
  else if hasPrefix attrEnvoyFilter k then some .envoyFilter
  else if k = attrSrcIP then some .srcIP
  else if k = attrRemoteIP then some .remoteIP
  else if k = attrSrcNamespace then some .srcNamespace
  else if k = attrSrcTrustDomain then some .srcTrustDomain
  else if k = attrSrcServiceAccount then some (.srcServiceAccount policyNs)
  else if k = attrSrcPrincipal then some .srcPrincipal
  else if k = attrRequestPrincipal then some .requestPrincipal
  else if k = attrRequestAudiences then some .requestAudiences
  else if k = attrRequestPresenter then some .requestPresenter
  else if hasPrefix attrRequestHeader k then some .requestHeader
  else if hasPrefix attrRequestClaims k then some .requestClaim
  else none

/-- Generators whose `when` conditions are consolidated into the permission (`basePermission`). -/
def Gen.isPerm : Gen → Bool
  | .destIP | .destPort | .connSNI | .envoyFilter | .host | .path | .method => true
  | _ => false

/-- Generators installed with `appendLastExtended` / `insertFrontExtended` (value lists aggregated). -/
def Gen.extended : Gen → Bool
  | .envoyFilter | .requestPrincipal | .requestAudiences | .requestPresenter | .requestClaim => true
  | _ => false

/-! ## Target language: the Envoy RBAC subset Istio emits -/

/-- The regular-expression shapes Istio generates (never a user regex). `Rx.text` is the RE2 text
    put into `safe_regex`, `Rx.matches` (Envoy.lean) its direct semantics. -/
inductive Rx
  | anyNonEmpty                       -- `.+`
  | prefixSuffix (p s : Str)          -- p ++ `.*` ++ QuoteMeta s                (principal `*suffix`)
  | nsGlob (parts : List Str)         -- `.*/ns/` ++ join `.*` (QuoteMeta parts) ++ `/.*`
  | saPath (ns sa : Str)              -- `spiffe://.+/ns/NS/(.+/|)sa/SA(/.+)?`
  | tdGlob (p s : Str)                -- `spiffe://` Q p `[^/]*` Q s `/.*`
deriving Repr, DecidableEq, Inhabited

def Rx.text : Rx → Str
  | .anyNonEmpty => ".+".toList
  | .prefixSuffix p s => p ++ ".*".toList ++ quoteMeta s
  | .nsGlob parts => ".*/ns/".toList ++ join ".*".toList (parts.map quoteMeta) ++ "/.*".toList
  | .saPath ns sa => "spiffe://.+/ns/".toList ++ quoteMeta ns ++ "/(.+/|)sa/".toList ++ quoteMeta sa ++ "(/.+)?".toList
  | .tdGlob p s => "spiffe://".toList ++ quoteMeta p ++ "[^/]*".toList ++ quoteMeta s ++ "/.*".toList

/-- `envoy.type.matcher.v3.StringMatcher` (exact / prefix / suffix with `ignore_case`, safe_regex). -/
inductive StrM
  | exact (s : Str) (ic : Bool)
  | pfx (s : Str) (ic : Bool)
  | sfx (s : Str) (ic : Bool)
  | regex (r : Rx)
deriving Repr, DecidableEq, Inhabited

/-- `core.v3.CidrRange`: address as a number (32 bits, or 128 bits when `v6`), prefix length. -/
structure Cidr where
  addr : Nat
  len : Nat
  v6 : Bool := false
deriving Repr, DecidableEq, Inhabited

/-- Width of the address family in bits. -/
def Cidr.width (c : Cidr) : Nat := if c.v6 then 128 else 32

/-- `envoy.type.matcher.v3.ValueMatcher` subset: string_match, or_match, list_match{one_of}. -/
inductive ValM
  | str (m : StrM)
  | orM (l : List ValM)
  | listM (v : ValM)
deriving Repr, Inhabited

structure MetaM where
  filter : Str
  path : List Str
  value : ValM
deriving Repr, Inhabited

/-- `rbac.v3.Permission` and `rbac.v3.Principal` merged. -/
inductive Matcher
  | any
  | and (l : List Matcher)
  | or (l : List Matcher)
  | not (m : Matcher)
  -- Permission only
  | destIP (c : Cidr)
  | destPort (p : Nat)
  | sni (m : StrM)
  | urlPath (m : StrM)
  | uriTemplate (t : Str)
  -- Principal only
  | authenticated (m : StrM)
  | filterState (key : Str) (m : StrM)
  | directRemoteIP (c : Cidr)
  | remoteIP (c : Cidr)
  -- both
  | header (name : Str) (m : Option StrM)      -- `none` = present_match: true
  | metadata (m : MetaM)
deriving Repr, Inhabited

/-- `rbac.v3.Policy`. -/
structure EPolicy where
  permissions : List Matcher
  principals : List Matcher
deriving Repr, Inhabited

inductive RAction | allow | deny | log
deriving Repr, DecidableEq, Inhabited

/-- `rbac.v3.RBAC`; `policies` is the Go map, kept as an association list with unique keys
    (`upsert`), printed sorted by the driver. -/
structure RBAC where
  action : RAction
  policies : List (Str × EPolicy)
deriving Repr, Inhabited

/-- One generated filter (`envoy.filters.http.rbac` / `envoy.filters.network.rbac`). -/
structure Filter where
  name : Str
  rules : Option RBAC
  shadow : Option RBAC
  shadowPrefix : Str
  statPrefix : Str
deriving Repr, Inhabited

/-! ## matcher/string.go, matcher/header.go -/

def spiffePrefix : Str := "spiffe://".toList

/-- `matcher.StringMatcherWithPrefix(v, prefix)`. -/
def stringMatcherWithPrefix (v pre : Str) : StrM :=
  if v = star then .regex .anyNonEmpty
  else if hasPrefix star v then
    (if pre.isEmpty then .sfx (v.drop 1) false else .regex (.prefixSuffix pre (v.drop 1)))
  else if hasSuffix star v then .pfx (pre ++ v.dropLast) false
  else .exact (pre ++ v) false

/-- `matcher.StringMatcher(v)`. -/
def stringMatcher (v : Str) : StrM := stringMatcherWithPrefix v []

/-- The common body of `matcher.HeaderMatcher` (ic = false) and `matcher.HostMatcher` (ic = true). -/
def headerMatcherIC (ic : Bool) (k v : Str) : Matcher :=
  if v = star then .header k none
  else if hasPrefix star v then .header k (some (.sfx (v.drop 1) ic))
  else if hasSuffix star v then .header k (some (.pfx v.dropLast ic))
  else .header k (some (.exact v ic))

def headerMatcher (k v : Str) : Matcher := headerMatcherIC false k v
def hostMatcher (k v : Str) : Matcher := headerMatcherIC true k v

/-- `matcher.OrMatcher`. -/
def orMatcher : List ValM → ValM
  | [m] => m
  | ms => .orM ms

/-- `matcher.StringOrMatcher`. -/
def stringOrMatcher (vs : List Str) : ValM := orMatcher (vs.map fun v => .str (stringMatcher v))

def jwtFilterName : Str := "envoy.filters.http.jwt_authn".toList
def jwtPayload : Str := "payload".toList

/-- `MetadataStringMatcherForJWTClaim`. -/
def jwtClaimStr (claim : Str) (m : StrM) : MetaM :=
  { filter := jwtFilterName, path := [jwtPayload, claim], value := .str m }

/-- `MetadataListValueMatcherForJWTClaims` (useExtendedJwt = true). -/
def jwtClaimsList (claims : List Str) (v : ValM) : MetaM :=
  { filter := jwtFilterName, path := jwtPayload :: claims, value := .orM [.listM v, v] }

/-! ## IP / port parsing (`netip.ParseAddr` / `ParsePrefix`; `convertToPort`) -/

def parseOctet (s : Str) : Option Nat :=
  if s.isEmpty || s.length > 3 || !s.all isDigit then none
  else if s.length > 1 && s.head? == some '0' then none
  else if digitsVal s 0 > 255 then none else some (digitsVal s 0)

def parseIPv4 (s : Str) : Option Nat :=
  match splitOn '.' s with
  | [a, b, c, d] =>
    match parseOctet a, parseOctet b, parseOctet c, parseOctet d with
    | some a, some b, some c, some d => some (((a * 256 + b) * 256 + c) * 256 + d)
    | _, _, _, _ => none
  | _ => none

def isHex (c : Char) : Bool := isDigit c || ('a' ≤ c && c ≤ 'f') || ('A' ≤ c && c ≤ 'F')

def hexVal (c : Char) : Nat :=
  if isDigit c then c.toNat - 48 else if 'a' ≤ c && c ≤ 'f' then c.toNat - 87 else c.toNat - 55

def hexNum (s : Str) : Nat := s.foldl (fun acc c => acc * 16 + hexVal c) 0

/-- The group loop of `netip.parseIPv6`: 16-bit groups read so far, position of `::` (in groups). -/
def parseV6Loop : Nat → Str → List Nat → Option Nat → Option (List Nat × Option Nat)
  | 0, _, _, _ => none
  | fuel + 1, s, gs, ell =>
    if gs.length ≥ 8 then (if s.isEmpty then some (gs, ell) else none)
    else
      let digs := s.takeWhile isHex
      let rest := s.drop digs.length
      if digs.isEmpty || digs.length > 4 then none
      else if rest.head? == some '.' then
        -- embedded IPv4: must replace the final two groups
        if (ell.isNone && gs.length != 6) || gs.length > 6 then none
        else match parseIPv4 s with
          | some a => some (gs ++ [a / 65536, a % 65536], ell)
          | none => none
      else
        let gs := gs ++ [hexNum digs]
        match rest with
        | [] => some (gs, ell)
        | c :: rest1 =>
          if c != ':' then none
          else match rest1 with
            | [] => none
            | ':' :: rest2 =>
              if ell.isSome then none
              else if rest2.isEmpty then some (gs, some gs.length)
              else parseV6Loop fuel rest2 gs (some gs.length)
            | _ => parseV6Loop fuel rest1 gs ell

def groupsVal (gs : List Nat) : Nat := gs.foldl (fun acc g => acc * 65536 + g) 0

/-- `netip.parseIPv6`: (address, has a zone). -/
def parseIPv6 (s0 : Str) : Option (Nat × Bool) :=
  let (s, zone) : Str × Option Str := match cut '%' s0 with
    | some (a, z) => (a, some z)
    | none => (s0, none)
  if zone == some [] then none
  else
    let r : Option (List Nat × Option Nat) :=
      if hasPrefix "::".toList s then
        if (s.drop 2).isEmpty then some ([], some 0) else parseV6Loop 10 (s.drop 2) [] (some 0)
      else parseV6Loop 10 s [] none
    match r with
    | none => none
    | some (gs, ell) =>
      if gs.length < 8 then
        match ell with
        | none => none
        | some e => some (groupsVal (gs.take e ++ List.replicate (8 - gs.length) 0 ++ gs.drop e), zone.isSome)
      else if ell.isSome then none
      else some (groupsVal gs, zone.isSome)

/-- `netip.ParseAddr`: the first of '.', ':', '%' selects the family.  (v6, address, has a zone) -/
def parseAddr (s : Str) : Option (Bool × Nat × Bool) :=
  match s.find? (fun c => c == '.' || c == ':' || c == '%') with
  | some '.' => (parseIPv4 s).map fun a => (false, a, false)
  | some ':' => (parseIPv6 s).map fun (a, z) => (true, a, z)
  | _ => none

/-- Prefix length text of `netip.ParsePrefix`: decimal, no sign, no leading zero, at most `max`. -/
def parseBits (max : Nat) (s : Str) : Option Nat :=
  if s.isEmpty || !s.all isDigit then none
  else if s.length > 1 && s.head? == some '0' then none
  else if s.length > 3 then none
  else if digitsVal s 0 > max then none else some (digitsVal s 0)

/-- `util.AddrStrToCidrRange` = `AddrStrToPrefix` (ParsePrefix, or ParseAddr with the full length; a
    zone is dropped by `PrefixFrom` and refused by `ParsePrefix`) + `PrefixToCidrRange`. -/
def parseCidr (s : Str) : Option Cidr :=
  if s.isEmpty then none
  else if s.contains '/' then
    match cutLast '/' s with
    | some (ip, bits) =>
      match parseAddr ip with
      | some (v6, a, zone) =>
        if zone then none
        else match parseBits (if v6 then 128 else 32) bits with
          | some b => some ⟨a, b, v6⟩
          | none => none
      | none => none
    | none => none
  else match parseAddr s with
    | some (v6, a, _) => some ⟨a, if v6 then 128 else 32, v6⟩
    | none => none

/-! `netip.Addr.String()` (the `address_prefix` text of the generated CidrRange) -/

def hexDigitChar (n : Nat) : Char := if n < 10 then Char.ofNat (48 + n) else Char.ofNat (87 + n)

def hexStr (n : Nat) : Str :=
  if n < 16 then [hexDigitChar n]
  else if n < 256 then [hexDigitChar (n / 16), hexDigitChar (n % 16)]
  else if n < 4096 then [hexDigitChar (n / 256), hexDigitChar (n / 16 % 16), hexDigitChar (n % 16)]
  else [hexDigitChar (n / 4096 % 16), hexDigitChar (n / 256 % 16), hexDigitChar (n / 16 % 16), hexDigitChar (n % 16)]

def v6Groups (a : Nat) : List Nat := (List.range 8).map fun i => a / 65536 ^ (7 - i) % 65536

def dottedStr (a : Nat) : Str :=
  join ['.'] [natToStr (a / 16777216 % 256), natToStr (a / 65536 % 256), natToStr (a / 256 % 256), natToStr (a % 256)]

/-- First longest run (length >= 2) of zero groups: (start, end). -/
def zeroRun (gs : List Nat) : Option (Nat × Nat) :=
  (List.range 8).foldl (fun best i =>
    let l := ((gs.drop i).takeWhile (· == 0)).length
    let bl := match best with | some (s, e) => e - s | none => 0
    if l ≥ 2 && l > bl then some (i, i + l) else best) none

def addrString (v6 : Bool) (a : Nat) : Str :=
  if !v6 then dottedStr a
  else if a / 4294967296 == 65535 then "::ffff:".toList ++ dottedStr (a % 4294967296)
  else
    let gs := v6Groups a
    match zeroRun gs with
    | none => join [':'] (gs.map hexStr)
    | some (s, e) => join [':'] ((gs.take s).map hexStr) ++ "::".toList ++ join [':'] ((gs.drop e).map hexStr)

/-- `convertToPort`. -/
def parsePort (s : Str) : Option Nat :=
  if s.isEmpty || !s.all isDigit then none
  else if digitsVal s 0 > 65535 then none else some (digitsVal s 0)

/-! ## model/util.go -/

def lbr : Str := ['[']
def rbr : Str := [']']

/-- `extractNameInBrackets`. -/
def extractNameInBrackets (s : Str) : Option Str :=
  if !hasPrefix lbr s || !hasSuffix rbr s then none
  else some (trimPrefix lbr (trimSuffix rbr s))

/-- `findEndBracket` of `extractNameInNestedBrackets`: `s` starts right after the opening `[`;
    returns (name, rest after `]`). -/
def findEndBracket : Str → Option (Str × Str)
  | [] => none
  | c :: cs =>
    if c = '[' then none
    else if c = ']' then some ([], cs)
    else match findEndBracket cs with
      | some (a, r) => some (c :: a, r)
      | none => none

def nestedLoop (whole : Str) : Nat → Str → List Str → Option (List Str)
  | 0, _, _ => none
  | fuel + 1, s, acc =>
    match s with
    | [] => some acc
    | c :: cs =>
      match (if c = '[' then findEndBracket cs else none) with
      | some (name, rest) => nestedLoop whole fuel rest (acc ++ [name])
      | none => (extractNameInBrackets whole).map fun r => [r]

/-- `extractNameInNestedBrackets`. -/
def extractNameInNestedBrackets (s : Str) : Option (List Str) :=
  nestedLoop s (s.length + 1) s []

/-! ## matcher/template.go, security.ContainsPathTemplate -/

def matchOneTemplate : Str := "{*}".toList
def matchAnyTemplate : Str := "{**}".toList

def containsSub (sub : Str) : Str → Bool
  | [] => sub.isEmpty
  | c :: cs => hasPrefix sub (c :: cs) || containsSub sub cs

def containsPathTemplate (v : Str) : Bool :=
  containsSub matchOneTemplate v || containsSub matchAnyTemplate v

/-- `sanitizePathTemplate` (`strings.NewReplacer("{*}", "*", "{**}", "**")`). -/
def sanitizeAux : Nat → Str → Str
  | _, [] => []
  | skip + 1, _ :: cs => sanitizeAux skip cs
  | 0, c :: cs =>
    if hasPrefix matchOneTemplate (c :: cs) then '*' :: sanitizeAux 2 cs
    else if hasPrefix matchAnyTemplate (c :: cs) then '*' :: '*' :: sanitizeAux 3 cs
    else c :: sanitizeAux 0 cs

def sanitizePathTemplate (s : Str) : Str := sanitizeAux 0 s

/-! ## generator.go -/

def peerPrincipalKey : Str := "io.istio.peer_principal".toList

/-- `principalAuthenticated`. -/
def principalAuthenticated (m : StrM) (useAuthenticated : Bool) : Matcher :=
  if useAuthenticated then .authenticated m else .filterState peerPrincipalKey m

/-- `serviceAccountRegex` arguments: (namespace, service account). -/
def saSplit (defaultNs v : Str) : Str × Str :=
  match cut '/' v with
  | some (ns, sa) => (ns, sa)
  | none => (defaultNs, v)

/-- `srcTrustDomainGenerator.principal` string matcher. -/
def trustDomainMatcher (v : Str) : StrM :=
  if v = star then .pfx spiffePrefix false
  else match cut '*' v with
    | none => .pfx (spiffePrefix ++ v ++ ['/']) false
    | some (a, b) => .regex (.tdGlob a b)

/-- `generator.permission(key, value, forTCP)`; `none` = error. -/
def genPermission (g : Gen) (_key v : Str) (forTCP : Bool) : Option Matcher :=
  match g with
  | .destIP => (parseCidr v).map .destIP
  | .destPort => (parsePort v).map .destPort
  | .connSNI => some (.sni (stringMatcher v))
  | .host => if forTCP then none else some (hostMatcher hostHeader v)
  | .path =>
    if forTCP then none
    else if containsPathTemplate v then some (.uriTemplate (sanitizePathTemplate v))
    else some (.urlPath (stringMatcher v))
  | .method => if forTCP then none else some (headerMatcher methodHeader v)
  | _ => none  -- "unimplemented" (and the extended envoyFilter generator is never called here)

/-- `generator.principal(key, value, forTCP, useAuthenticated)`; `none` = error. -/
def genPrincipal (g : Gen) (key v : Str) (forTCP useAuth : Bool) : Option Matcher :=
  match g with
  | .srcIP => (parseCidr v).map .directRemoteIP
  | .remoteIP => (parseCidr v).map .remoteIP
  | .srcNamespace => some (principalAuthenticated (.regex (.nsGlob (splitOn '*' v))) useAuth)
  | .srcServiceAccount pns =>
    some (principalAuthenticated (.regex (.saPath (saSplit pns v).1 (saSplit pns v).2)) useAuth)
  | .srcTrustDomain => some (principalAuthenticated (trustDomainMatcher v) useAuth)
  | .srcPrincipal => some (principalAuthenticated (stringMatcherWithPrefix v spiffePrefix) useAuth)
  | .requestHeader =>
    if forTCP then none
    else match extractNameInBrackets (trimPrefix attrRequestHeader key) with
      | some h => some (headerMatcher h v)
      | none => none
  | _ => none

/-- One value of `requestPrincipalGenerator.extendedPrincipal`: the (iss, sub) string matchers. -/
def requestPrincipalPair (value : Str) : StrM × StrM :=
  let found := (cutLast '/' value).isSome
  let iss := match cutLast '/' value with | some (a, _) => a | none => value
  let sub := match cutLast '/' value with | some (_, b) => b | none => []
  if value = star then (.regex .anyNonEmpty, .regex .anyNonEmpty)
  else if hasPrefix star value then
    if found then
      ((if iss = star then .regex .anyNonEmpty else .sfx (trimPrefix star iss) false), .exact sub false)
    else (.regex .anyNonEmpty, .sfx (trimPrefix star value) false)
  else if hasSuffix star value then
    if found then
      (.exact iss false, (if sub = star then .regex .anyNonEmpty else .pfx (trimSuffix star sub) false))
    else (.pfx (trimSuffix star value) false, .regex .anyNonEmpty)
  else (.exact iss false, .exact sub false)

def requestPrincipalOne (value : Str) : Matcher :=
  .and [.metadata (jwtClaimStr "iss".toList (requestPrincipalPair value).1),
        .metadata (jwtClaimStr "sub".toList (requestPrincipalPair value).2)]

/-- `extendedGenerator.extendedPrincipal(key, values, forTCP)` (called with non-empty values). -/
def genExtPrincipal (g : Gen) (key : Str) (values : List Str) (forTCP : Bool) : Option Matcher :=
  match g with
  | .requestPrincipal =>
    if forTCP then none
    else match values.map requestPrincipalOne with
      | [one] => some one
      | l => some (.or l)
  | .requestAudiences =>
    if forTCP then none else some (.metadata (jwtClaimsList ["aud".toList] (stringOrMatcher values)))
  | .requestPresenter =>
    if forTCP then none else some (.metadata (jwtClaimsList ["azp".toList] (stringOrMatcher values)))
  | .requestClaim =>
    if forTCP then none
    else match extractNameInNestedBrackets (trimPrefix attrRequestClaims key) with
      | some claims => some (.metadata (jwtClaimsList claims (stringOrMatcher values)))
      | none => none
  | _ => none

def envoyFilterValue (value : Str) : ValM :=
  if hasPrefix lbr value && hasSuffix rbr value then
    .listM (.str (stringMatcher (trimSet "[]".toList value)))
  else .str (stringMatcher value)

/-- `strings.SplitN(strings.TrimSuffix(strings.TrimPrefix(key, "experimental."), "]"), "[", 2)`. -/
def envoyFilterKey (key : Str) : Option (Str × Str) :=
  cut '[' (trimSuffix rbr (trimPrefix "experimental.".toList key))

/-- `extendedGenerator.extendedPermission`. -/
def genExtPermission (g : Gen) (key : Str) (values : List Str) (_forTCP : Bool) : Option Matcher :=
  match g with
  | .envoyFilter =>
    match envoyFilterKey key with
    | some (f, k) => some (.metadata { filter := f, path := [k], value := orMatcher (values.map envoyFilterValue) })
    | none => none
  | _ => none

/-! ## model.go: `rule`, `ruleList`, `Model`, `New`, `MigrateTrustDomain`, `Generate` -/

structure MRule where
  key : Str
  values : List Str
  notValues : List Str
  g : Gen
deriving Repr, DecidableEq, Inhabited

structure Model where
  permissions : List (List MRule)
  principals : List (List MRule)
deriving Repr, DecidableEq, Inhabited

def appendLast (l : List MRule) (g : Gen) (key : Str) (vs nvs : List Str) : List MRule :=
  if vs.isEmpty && nvs.isEmpty then l else l ++ [⟨key, vs, nvs, g⟩]

def insertFront (g : Gen) (key : Str) (vs nvs : List Str) (l : List MRule) : List MRule :=
  if vs.isEmpty && nvs.isEmpty then l else ⟨key, vs, nvs, g⟩ :: l

/-- The `when` loop of `New`: (basePermission, basePrincipal); `none` = unknown attribute. -/
def baseRules (pns : Str) : List Condition → List MRule → List MRule → Option (List MRule × List MRule)
  | [], perm, prin => some (perm, prin)
  | c :: cs, perm, prin =>
    match classify pns c.key with
    | none => none
    | some g =>
      if g.isPerm then baseRules pns cs (appendLast perm g c.key c.values c.notValues) prin
      else baseRules pns cs perm (appendLast prin g c.key c.values c.notValues)

/-- The `from` body of `New`. -/
def sourceRules (pns : Str) (s : Source) (base : List MRule) : List MRule :=
  insertFront .srcPrincipal attrSrcPrincipal s.principals s.notPrincipals <|
  insertFront .requestPrincipal attrRequestPrincipal s.requestPrincipals s.notRequestPrincipals <|
  insertFront (.srcServiceAccount pns) attrSrcServiceAccount s.serviceAccounts s.notServiceAccounts <|
  insertFront .srcTrustDomain attrSrcTrustDomain s.trustDomains s.notTrustDomains <|
  insertFront .srcNamespace attrSrcNamespace s.namespaces s.notNamespaces <|
  insertFront .remoteIP attrRemoteIP s.remoteIpBlocks s.notRemoteIpBlocks <|
  insertFront .srcIP attrSrcIP s.ipBlocks s.notIpBlocks base

/-- The `to` body of `New`. -/
def operationRules (o : Operation) (base : List MRule) : List MRule :=
  insertFront .host hostHeader o.hosts o.notHosts <|
  insertFront .method methodHeader o.methods o.notMethods <|
  insertFront .path pathMatcherKey o.paths o.notPaths <|
  insertFront .destPort attrDestPort o.ports o.notPorts base

/-- `model.New`. -/
def newModel (pns : Str) (r : Rule) : Option Model :=
  match baseRules pns r.whens [] [] with
  | none => none
  | some (bperm, bprin) =>
    some { principals := if r.froms.isEmpty then [bprin] else r.froms.map (sourceRules pns · bprin),
           permissions := if r.tos.isEmpty then [bperm] else r.tos.map (operationRules · bperm) }

/-! ### trustdomain/bundle.go -/

def tdPrefixMatch (a pattern : Str) : Bool :=
  hasSuffix star pattern && hasPrefix (trimSuffix star pattern) a

def tdSuffixMatch (a pattern : Str) : Bool :=
  hasPrefix star pattern && hasSuffix (trimPrefix star pattern) a

/-- `stringMatch(a, list)` of trustdomain/util.go. -/
def tdStringMatch (a : Str) (list : List Str) : Bool :=
  list.any fun s => a == s || s == star || tdPrefixMatch a s || tdPrefixMatch s a ||
    tdSuffixMatch a s || tdSuffixMatch s a

def clusterLocal : Str := "cluster.local".toList

/-- `replaceTrustDomainInPrincipal` for a principal already known to have 5 parts. -/
def replaceTD (td : Str) (parts : List Str) : Str := td ++ ['/'] ++ join ['/'] (parts.drop 1)

def replaceTrustDomainsLoop (principal tdFrom : Str) (parts : List Str) : List Str → List Str → List Str
  | [], acc => acc
  | td :: tds, acc =>
    let np := if tdSuffixMatch td tdFrom then principal else replaceTD td parts
    replaceTrustDomainsLoop principal tdFrom parts tds (if acc.contains np then acc else acc ++ [np])

/-- `Bundle.ReplaceTrustDomainAliases`. -/
def replaceTrustDomainAliases (bundle : List Str) (principals : List Str) : List Str :=
  principals.flatMap fun principal =>
    let parts := splitOn '/' principal
    if parts.length != 5 || parts.head? == some star then [principal]
    else
      let tdFrom := parts.headD []
      if tdStringMatch tdFrom bundle || tdFrom == clusterLocal then
        replaceTrustDomainsLoop principal tdFrom parts bundle []
      else [principal]

def filterDuplicates : List Str → List Str → List Str
  | [], acc => acc
  | x :: xs, acc => filterDuplicates xs (if acc.contains x then acc else acc ++ [x])

/-- `Bundle.ExpandTrustDomainAliases`. -/
def expandTrustDomainAliases (bundle : List Str) (values : List Str) : List Str :=
  filterDuplicates (values.flatMap fun v => if bundle.contains v then bundle else [v]) []

/-- One application of the body of `MigrateTrustDomain` to one rule. -/
def migrateRule (bundle : List Str) (r : MRule) : MRule :=
  if r.key = attrSrcPrincipal then
    { r with values := if r.values.isEmpty then r.values else replaceTrustDomainAliases bundle r.values,
             notValues := if r.notValues.isEmpty then r.notValues else replaceTrustDomainAliases bundle r.notValues }
  else if r.key = attrSrcTrustDomain then
    { r with values := if r.values.isEmpty then r.values else expandTrustDomainAliases bundle r.values,
             notValues := if r.notValues.isEmpty then r.notValues else expandTrustDomainAliases bundle r.notValues }
  else r

def iterate {α : Type} (f : α → α) : Nat → α → α
  | 0, a => a
  | n + 1, a => iterate f n (f a)

/-- `Model.MigrateTrustDomain`. The rules coming from `when` conditions are *shared by pointer*
    between all principal lists (`ruleList.copy` copies the slice of pointers), so they are
    rewritten once per principal list; the rules of a `from` entry are rewritten once. -/
def migrateTrustDomain (bundle : List Str) (nBase : Nat) (m : Model) : Model :=
  { m with principals := m.principals.map fun rl =>
      let own := rl.length - nBase
      (rl.take own).map (migrateRule bundle) ++
        (rl.drop own).map (iterate (migrateRule bundle) m.principals.length) }

/-! ### Generate -/

/-- The value loop of `rule.permission` / `rule.principal` with `checkError`: for ALLOW an error
    aborts (`none`), otherwise the value is skipped. -/
def collect (allow : Bool) (f : Str → Option Matcher) : List Str → Option (List Matcher)
  | [] => some []
  | v :: vs =>
    match f v with
    | some p => (collect allow f vs).map (p :: ·)
    | none => if allow then none else collect allow f vs

/-- The extended branch with `checkError`. -/
def collectExt (allow : Bool) (f : List Str → Option Matcher) (wrap : Matcher → Matcher) (vs : List Str) :
    Option (List Matcher) :=
  if vs.isEmpty then some []
  else match f vs with
    | some p => some [wrap p]
    | none => if allow then none else some []

def orClause (l : List Matcher) : List Matcher := if l.isEmpty then [] else [.or l]
def notOrClause (l : List Matcher) : List Matcher := if l.isEmpty then [] else [.not (.or l)]

def seq2 (a b : Option (List Matcher)) : Option (List Matcher) :=
  match a, b with
  | some x, some y => some (x ++ y)
  | _, _ => none

/-- `rule.permission(forTCP, action)`. -/
def rulePermission (forTCP allow : Bool) (r : MRule) : Option (List Matcher) :=
  if r.g.extended then
    seq2 (collectExt allow (genExtPermission r.g r.key · forTCP) id r.values)
         (collectExt allow (genExtPermission r.g r.key · forTCP) .not r.notValues)
  else
    seq2 ((collect allow (genPermission r.g r.key · forTCP) r.values).map orClause)
         ((collect allow (genPermission r.g r.key · forTCP) r.notValues).map notOrClause)

/-- `rule.principal(forTCP, useAuthenticated, action)`. -/
def rulePrincipal (forTCP useAuth allow : Bool) (r : MRule) : Option (List Matcher) :=
  if r.g.extended then
    seq2 (collectExt allow (genExtPrincipal r.g r.key · forTCP) id r.values)
         (collectExt allow (genExtPrincipal r.g r.key · forTCP) .not r.notValues)
  else
    seq2 ((collect allow (genPrincipal r.g r.key · forTCP useAuth) r.values).map orClause)
         ((collect allow (genPrincipal r.g r.key · forTCP useAuth) r.notValues).map notOrClause)

def concatRules (f : MRule → Option (List Matcher)) : List MRule → Option (List Matcher)
  | [] => some []
  | r :: rs => seq2 (f r) (concatRules f rs)

def andOrAny (l : List Matcher) : Matcher := .and (if l.isEmpty then [.any] else l)

/-- `generatePermission`. -/
def generatePermission (forTCP allow : Bool) (rl : List MRule) : Option Matcher :=
  (concatRules (rulePermission forTCP allow) rl).map andOrAny

/-- `generatePrincipal`. -/
def generatePrincipal (forTCP useAuth allow : Bool) (rl : List MRule) : Option Matcher :=
  (concatRules (rulePrincipal forTCP useAuth allow) rl).map andOrAny

def mapAll {α β : Type} (f : α → Option β) : List α → Option (List β)
  | [] => some []
  | a :: as =>
    match f a, mapAll f as with
    | some b, some bs => some (b :: bs)
    | _, _ => none

/-- `Model.Generate(forTCP, useAuthenticated, action)`; `none` = error (rule skipped). -/
def generate (m : Model) (forTCP useAuth allow : Bool) : Option EPolicy :=
  match mapAll (generatePermission forTCP allow) m.permissions,
        mapAll (generatePrincipal forTCP useAuth allow) m.principals with
  | some perms, some prins =>
    if perms.isEmpty || prins.isEmpty then none else some ⟨perms, prins⟩
  | _, _ => none

/-! ## builder.go -/

/-- `strconv.ParseBool` values that read as true. -/
def parseBoolTrue (v : Str) : Bool :=
  ["1".toList, "t".toList, "T".toList, "TRUE".toList, "true".toList, "True".toList].contains v

/-- `isDryRun`: the `istio.io/dry-run` annotation, if present, parses as true (a parse error is
    logged and reads as false). -/
def isDryRun : Option Str → Bool
  | none => false
  | some v => parseBoolTrue v

/-- `rbacPolicyMatchNever`. -/
def rbacPolicyMatchNever : EPolicy := ⟨[.not .any], [.not .any]⟩

def policyName (ns name : Str) (i : Nat) : Str :=
  "ns[".toList ++ ns ++ "]-policy[".toList ++ name ++ "]-rule[".toList ++ natToStr i ++ "]".toList

/-- Go map assignment `m[k] = v` on an association list with unique keys. -/
def upsert (l : List (Str × EPolicy)) (k : Str) (v : EPolicy) : List (Str × EPolicy) :=
  match l with
  | [] => [(k, v)]
  | (k', v') :: rest => if k' = k then (k, v) :: rest else (k', v') :: upsert rest k v

def gatewayNameLabel : Str := "gateway.networking.k8s.io/gateway-name".toList
def gatewayGroup : Str := "gateway.networking.k8s.io".toList

def lookupLabel (k : Str) : List (Str × Str) → Option Str
  | [] => none
  | (k', v) :: rest => if k' = k then some v else lookupLabel k rest

/-- `config.CanonicalGroup`: the empty (core) group is written `core`. -/
def canonGroup (g : Str) : Str := if g.isEmpty then "core".toList else g

/-- `matchesGroupKind`. A targetRef is (group, kind, name, namespace). -/
def refIs (ref : Str × Str × Str × Str) (group kind : Str) : Bool :=
  canonGroup ref.1 == canonGroup group && ref.2.1 == kind

def waypointClassName : Str := "istio-waypoint".toList
def istioNetworkingGroup : Str := "networking.istio.io".toList

/-- The body of the targetRef loop of `ShouldAttachPolicy` for one reference: `true` = `return true`,
    `false` = fall through / `continue`. -/
def refAttaches (w : Workload) (gw : Str) (p : Policy) (ref : Str × Str × Str × Str) : Bool :=
  -- Service attached
  (w.waypoint && refIs ref [] "Service".toList &&
    w.service.any fun s => ref.2.2.1 == s.policyName && p.ns == s.ns && s.k8s) ||
  -- ServiceEntry attached
  (w.waypoint && refIs ref istioNetworkingGroup "ServiceEntry".toList &&
    w.service.any fun s => ref.2.2.1 == s.policyName && p.ns == s.ns && !s.k8s) ||
  -- GatewayClass of the waypoints, root namespace
  (p.ns == w.rootNs && w.waypoint && refIs ref gatewayGroup "GatewayClass".toList &&
    ref.2.2.1 == waypointClassName) ||
  -- namespace does not match -> continue; foreign targetRef namespace -> continue; Gateway attached
  (if w.ns != p.ns then false
   else if !(ref.2.2.2.isEmpty || ref.2.2.2 == w.ns) then false
   else refIs ref gatewayGroup "Gateway".toList && ref.2.2.1 == gw)

/-- `WorkloadPolicyMatcher.ShouldAttachPolicy`. -/
def shouldAttach (w : Workload) (p : Policy) : Bool :=
  match lookupLabel gatewayNameLabel w.labels with
  | none =>
    -- non-gateway: targetRefs are ignored altogether, else the selector decides
    if !p.refs.isEmpty then false else p.selector.all (w.labels.contains ·)
  | some gw =>
    if p.refs.isEmpty then
      -- gateways need the feature flag for selector policies, waypoints never use a selector
      if w.waypoint || !w.selectorGatewayPolicy then false else p.selector.all (w.labels.contains ·)
    else p.refs.any (refAttaches w gw p)

/-- `ListAuthorizationPolicies`: the namespaces searched. -/
def lookupNamespaces (w : Workload) : List Str :=
  [w.rootNs, w.ns] ++ (w.service.map (·.ns)).toList

/-- `GetAuthorizationPolicies` + `ListAuthorizationPolicies`: policies of the root namespace, of the
    workload's namespace and of the namespace of the service the chain is built for, that attach (a
    policy with an action outside the enum lands in none of the per-action lists:
    `updateAuthorizationPoliciesResult`; every consumer below filters by action). -/
def selectPolicies (w : Workload) (ps : List Policy) : List Policy :=
  ps.filter fun p => (lookupNamespaces w).contains p.ns && shouldAttach w p

/-- `NewWaypointTerminationBuilder`: the HBONE termination layer of a waypoint selects like an ordinary
    gateway workload (`IsWaypoint = false`, no service) ... -/
def Workload.termination (w : Workload) : Workload := { w with waypoint := false, service := none }

structure BuildOpts where
  bundle : List Str            -- trustdomain.Bundle.TrustDomains (local trust domain first)
  forTCP : Bool
  useAuth : Bool               -- !option.UseFilterState
  /-- `BuildTCPRulesAsHTTPFilter`: rules generated for TCP (`forTCP`), carried by HTTP filters. -/
  tcpRulesAsHTTP : Bool := false
deriving Repr, Inhabited

/-- The generated filters are network (TCP) filters. -/
def BuildOpts.shapeTCP (o : BuildOpts) : Bool := o.forTCP && !o.tcpRulesAsHTTP

/-- Number of principal-side rules coming from `when` conditions (shared by all `from` entries). -/
def nBasePrincipals (pns : Str) (r : Rule) : Nat :=
  match baseRules pns r.whens [] [] with
  | some (_, b) => b.length
  | none => 0

/-- The body of the rule loop of `Builder.build` for one rule: the generated Envoy policy, if any. -/
def compileRule (o : BuildOpts) (allow : Bool) (pns : Str) (r : Rule) : Option EPolicy :=
  match newModel pns r with
  | none => none
  | some m =>
    generate (migrateTrustDomain o.bundle (nBasePrincipals pns r) m) o.forTCP o.useAuth allow

/-- The entries the rule loop of `Builder.build` writes for the rules of one policy (rule index in
    the name; a rule whose model or generation fails is skipped). -/
def ruleEntries (o : BuildOpts) (allow : Bool) (p : Policy) : List Rule → Nat → List (Str × EPolicy)
  | [], _ => []
  | r :: rs, i =>
    match compileRule o allow p.ns r with
    | some e => (policyName p.ns p.name i, e) :: ruleEntries o allow p rs (i + 1)
    | none => ruleEntries o allow p rs (i + 1)

/-- All entries one policy contributes to `currentRule.Policies` (a rule-less policy contributes the
    policy that never matches). -/
def policyEntries (o : BuildOpts) (allow : Bool) (p : Policy) : List (Str × EPolicy) :=
  if p.rules.isEmpty then [(policyName p.ns p.name 0, rbacPolicyMatchNever)]
  else ruleEntries o allow p p.rules 0

/-- Successive Go map assignments. -/
def upsertAll (acc : List (Str × EPolicy)) (entries : List (Str × EPolicy)) : List (Str × EPolicy) :=
  entries.foldl (fun a e => upsert a e.1 e.2) acc

structure Built where
  rules : Option RBAC
  shadow : Option RBAC
deriving Repr, Inhabited

/-- `Builder.build(policies, action, forTCP, logger)` for the non-CUSTOM builder: dry-run policies
    fill `shadowRules`, the others `enforceRules`; a map that received no policy is nil. -/
def buildAction (o : BuildOpts) (action : RAction) (policies : List Policy) : Option Built :=
  if policies.isEmpty then none
  else
    some { rules := if policies.any (fun p => !p.dryRun) then
                      some ⟨action, upsertAll [] ((policies.filter (fun p => !p.dryRun)).flatMap (policyEntries o (action == .allow)))⟩
                    else none,
           shadow := if policies.any (·.dryRun) then
                      some ⟨action, upsertAll [] ((policies.filter (·.dryRun)).flatMap (policyEntries o (action == .allow)))⟩
                    else none }

/-- `shadowRuleStatPrefix` (a nil RBAC reports action ALLOW). -/
def shadowRuleStatPrefix : Option RBAC → Str
  | none => "istio_dry_run_allow_".toList
  | some r => match r.action with
    | .allow => "istio_dry_run_allow_".toList
    | .deny => "istio_dry_run_deny_".toList
    | .log => []

/-- `buildHTTP` / `buildTCP` for the non-CUSTOM builder. -/
def toFilter (forTCP : Bool) (b : Built) : Filter :=
  { name := if forTCP then "envoy.filters.network.rbac".toList else "envoy.filters.http.rbac".toList,
    rules := b.rules, shadow := b.shadow, shadowPrefix := shadowRuleStatPrefix b.shadow,
    statPrefix := if forTCP then "tcp.".toList else [] }

def optFilter (forTCP : Bool) : Option Built → List Filter
  | none => []
  | some b => [toFilter forTCP b]

/-- `updateAuthorizationPoliciesResult` partition + `builder.New` + `build[T]` for the
    ALLOW/DENY/AUDIT builder: filters in the order AUDIT, DENY, ALLOW (`New` returns nil, hence no
    filter, when there is no such policy - the three `build` calls then return nil as well). -/
def compileSelected (o : BuildOpts) (ps : List Policy) : List Filter :=
  optFilter o.shapeTCP (buildAction o .log (ps.filter (·.action == .audit))) ++
  optFilter o.shapeTCP (buildAction o .deny (ps.filter (·.action == .deny))) ++
  optFilter o.shapeTCP (buildAction o .allow (ps.filter (·.action == .allow)))

/-- Selection for the workload, then the builder. -/
def compile (w : Workload) (o : BuildOpts) (ps : List Policy) : List Filter :=
  compileSelected o (selectPolicies w ps)

/-! ## CUSTOM action (`Option.IsCustomBuilder`, extauthz.go)

The CUSTOM builder compiles the CUSTOM policies with the DENY error handling into one RBAC filter
per provider that only carries *shadow* rules (never enforced; the matched policy id is written to
dynamic metadata), followed by the provider's ext_authz filter, enabled by a metadata prefix match on
that id.  If the provider is not (validly) defined in the mesh config, or several providers are
used while the multi-provider feature is off, the policies are enforced as DENY instead.
Dry-run CUSTOM policies are not emitted (after the fix recorded in notes/C08.md). Only gRPC
providers are modelled (they exist for HTTP and TCP chains). -/

/-- Where an `ext_authz` filter sends its check request (`generateGRPCConfig` / `generateHTTPConfig`):
    kind of service, upstream cluster, authority / host of the server URI, failure mode, status on
    error, path prefix (HTTP kind). -/
structure ExtTarget where
  http : Bool := false
  cluster : Str := []
  hostname : Str := []
  failOpen : Bool := false
  status : Option Nat := none
  pathPrefix : Str := []
deriving Repr, DecidableEq, Inhabited

/-- The network `ext_authz` filter has no status-on-error (and no path prefix: it is gRPC only). -/
def ExtTarget.onChain (tcpShape : Bool) (t : ExtTarget) : ExtTarget :=
  if tcpShape then { t with status := none } else t

/-- One `extensionProviders` entry of the mesh config (envoyExtAuthzGrpc / envoyExtAuthzHttp). -/
structure ProviderSpec where
  name : Str
  http : Bool := false
  service : Str
  port : Nat
  failOpen : Bool := false
  statusOnError : Str := []
  pathPrefix : Str := []
deriving Repr, DecidableEq, Inhabited

/-- `model.LookupCluster` over the service index (hostname, namespace): `<ns>/<host>` must exist; a bare
    host must exist in exactly one namespace.  Yields (hostname, cluster name). -/
def lookupCluster (registry : List (Str × Str)) (service : Str) (port : Nat) : Option (Str × Str) :=
  if service.isEmpty then none
  else
    let cluster (h : Str) : Str := "outbound|".toList ++ natToStr port ++ "||".toList ++ h
    match splitOn '/' service with
    | [ns, h] => if registry.contains (h, ns) then some (h, cluster h) else none
    | _ =>
      match (registry.filter fun e => e.1 == service) with
      | [_] => some (service, cluster service)
      | _ => none

/-- The codes of `envoy.type.v3.StatusCode`. -/
def envoyStatusCodes : List Nat :=
  [0, 100, 200, 201, 202, 203, 204, 205, 206, 207, 208, 226, 300, 301, 302, 303, 304, 305, 307, 308,
   400, 401, 402, 403, 404, 405, 406, 407, 408, 409, 410, 411, 412, 413, 414, 415, 416, 417, 421, 422,
   423, 424, 426, 428, 429, 431, 500, 501, 502, 503, 504, 505, 506, 507, 508, 510, 511]

/-- `parseStatusOnError`: `some none` = not set, `some (some c)` = code, `none` = error.  (`ParseInt`
    reads an optional sign.) -/
def parseStatusOnError (s : Str) : Option (Option Nat) :=
  if s.isEmpty then some none
  else
    let (neg, digits) : Bool × Str := match s with
      | '-' :: r => (true, r)
      | '+' :: r => (false, r)
      | _ => (false, s)
    if digits.isEmpty || !digits.all isDigit || digits.length > 9 then none
    else
      let v := digitsVal digits 0
      if neg && v != 0 then none
      -- (code 0, the enum's `Empty` placeholder, is refused: Envoy rejects it - fix 2aba4fa in /repo)
      else if envoyStatusCodes.contains v && v != 0 then some (some v) else none

/-- `validateProviderName`: lowercase letters, digits and '-', at most 63, no '-' at either end. -/
def providerNameOK (n : Str) : Bool :=
  !n.isEmpty && n.length ≤ 63 &&
  n.all (fun c => ('a' ≤ c && c ≤ 'z') || isDigit c || c == '-') &&
  n.head? != some '-' && n.getLast? != some '-'

/-- `buildExtAuthzGRPC` / `buildExtAuthzHTTP` (with the agent-side validation that precedes them): the
    target, or `none` when the entry has an error (port, service lookup, status, path prefix). -/
def resolveProvider (registry : List (Str × Str)) (p : ProviderSpec) : Option ExtTarget :=
  if p.port < 1 || p.port > 65535 then none
  else match lookupCluster registry p.service p.port, parseStatusOnError p.statusOnError with
    | some (h, c), some st =>
      if p.http && !p.pathPrefix.isEmpty && p.pathPrefix.head? != some '/' then none
      else some { http := p.http, cluster := c, hostname := h, failOpen := p.failOpen, status := st,
                  pathPrefix := if p.http then p.pathPrefix else [] }
    | _, _ => none

/-- `processExtensionProvider`: the usable providers with their targets.  An entry with an empty,
    ill-formed or repeated name, or whose config has an error, makes the provider unusable (policies
    naming it are enforced as DENY); of several entries with one name the last one counts - and carries
    the duplicate error. -/
def processProviders (registry : List (Str × Str)) (specs : List ProviderSpec) : List (Str × ExtTarget) :=
  (specs.filterMap fun p =>
    if !providerNameOK p.name || (specs.filter (·.name == p.name)).length > 1 then none
    else (resolveProvider registry p).map fun t => (p.name, t))

structure CustomOpts where
  providers : List Str    -- extension providers defined (and valid) in the mesh config
  multi : Bool            -- PILOT_ENABLE_MULTIPLE_CUSTOM_AUTHZ_PROVIDERS
  /-- the providers of type envoyExtAuthzHttp (they have no network ext_authz filter: a CUSTOM policy
      naming one is skipped on a TCP filter chain) -/
  httpProviders : List Str := []
  /-- where each usable provider's authorizer lives -/
  targets : List (Str × ExtTarget) := []
deriving Repr, Inhabited

def CustomOpts.targetOf (c : CustomOpts) (pr : Str) : ExtTarget :=
  match c.targets.find? (·.1 == pr) with
  | some e => e.2
  | none => {}

/-- The CUSTOM options the mesh config defines. -/
def CustomOpts.ofSpecs (registry : List (Str × Str)) (specs : List ProviderSpec) (multi : Bool) : CustomOpts :=
  let ts := processProviders registry specs
  { providers := ts.map (·.1), multi := multi,
    httpProviders := (ts.filter (·.2.http)).map (·.1), targets := ts }

/-- A generated filter: an RBAC filter or the ext_authz filter of a provider (its enabling metadata
    matcher - RBAC filter name and policy-id prefix - and its target). -/
inductive GFilter
  | rbac (f : Filter)
  | extAuthz (name : Str) (rbacName : Str) (idPrefix : Str) (target : ExtTarget := {})
deriving Repr, Inhabited

def extAuthzMatchPrefix : Str := "istio-ext-authz".toList
def badCustomActionSuffix : Str := "-deny-due-to-bad-CUSTOM-action".toList

/-- The id prefix the `ext_authz` filter of a provider looks for. -/
def extPrefix (pr : Str) : Str := extAuthzMatchPrefix ++ ['-'] ++ pr

/-- The prefix `policyName` adds for the CUSTOM builder. -/
def customPrefix (provider : Str) : Str :=
  if provider.isEmpty then extAuthzMatchPrefix ++ ['-'] else extAuthzMatchPrefix ++ ['-'] ++ provider ++ ['-']

def customEntries (o : BuildOpts) (p : Policy) : List (Str × EPolicy) :=
  (policyEntries o false p).map fun e => (customPrefix p.provider ++ e.1, e.2)

/-- `sort.Strings` order (bytes = code points). -/
def strLt : Str → Str → Bool
  | [], [] => false
  | [], _ :: _ => true
  | _ :: _, [] => false
  | a :: as, b :: bs => a.toNat < b.toNat || (a == b && strLt as bs)

def insertSorted (x : Str) : List Str → List Str
  | [] => [x]
  | y :: ys => if strLt y x then y :: insertSorted x ys else x :: y :: ys

def dedupStr : List Str → List Str
  | [] => []
  | x :: xs => x :: (dedupStr xs).filter (· != x)

/-- `maps.Keys` + `sort.Strings` of a set of names: distinct names, sorted. -/
def sortDedup (l : List Str) : List Str := (dedupStr l).foldr insertSorted []

def rbacFilterName (tcp : Bool) : Str :=
  if tcp then "envoy.filters.network.rbac".toList else "envoy.filters.http.rbac".toList

def extAuthzFilterName (tcp : Bool) : Str :=
  if tcp then "envoy.filters.network.ext_authz".toList else "envoy.filters.http.ext_authz".toList

/-- `providerRules[provider].Policies`: the non-dry-run CUSTOM policies of the provider. -/
def providerRules (o : BuildOpts) (cps : List Policy) (prov : Str) : List (Str × EPolicy) :=
  upsertAll [] ((cps.filter fun p => p.provider == prov && !p.dryRun).flatMap (customEntries o))

/-- `getBadCustomDenyRules`: the provider's policies enforced as DENY. -/
def badCustomFilter (o : BuildOpts) (cps : List Policy) (prov : Str) : Filter :=
  { name := rbacFilterName o.shapeTCP,
    rules := some ⟨.deny, (providerRules o cps prov).map fun e => (e.1 ++ badCustomActionSuffix, e.2)⟩,
    shadow := none, shadowPrefix := [], statPrefix := if o.shapeTCP then "tcp.".toList else [] }

/-- The shadow-rules stat prefix of the CUSTOM builder (also the prefix of the dynamic metadata keys the
    shadow engine writes). -/
def extAuthzShadowPrefix : Str := "istio_ext_authz_".toList

def customFilters (o : BuildOpts) (cps : List Policy) (prov : Str) (t : ExtTarget := {}) : List GFilter :=
  [ .rbac { name := rbacFilterName o.shapeTCP, rules := none,
            shadow := some ⟨.deny, providerRules o cps prov⟩,
            shadowPrefix := extAuthzShadowPrefix,
            statPrefix := if o.shapeTCP then "tcp.".toList else [] },
    .extAuthz (extAuthzFilterName o.shapeTCP) (rbacFilterName o.shapeTCP) (extAuthzMatchPrefix ++ ['-'] ++ prov)
      (t.onChain o.shapeTCP) ]

/-- `builder.New` + `build[T]` for the CUSTOM builder on the selected policies. -/
def compileCustomSelected (o : BuildOpts) (c : CustomOpts) (ps : List Policy) : List GFilter :=
  if (ps.filter (·.action == .custom)).isEmpty then []
  else if (sortDedup ((ps.filter (·.action == .custom)).map (·.provider))).length > 1 && !c.multi then
    (sortDedup ((ps.filter (·.action == .custom)).map (·.provider))).map fun pr =>
      .rbac (badCustomFilter o (ps.filter (·.action == .custom)) pr)
  else
    (sortDedup ((ps.filter (·.action == .custom)).map (·.provider))).flatMap fun pr =>
      if c.providers.contains pr then
        (if o.shapeTCP && c.httpProviders.contains pr then []
         else customFilters o (ps.filter (·.action == .custom)) pr (c.targetOf pr))
      else [.rbac (badCustomFilter o (ps.filter (·.action == .custom)) pr)]

/-- The plugin's `BuildHTTP(class)`: nothing on sidecar outbound listeners, the same filters on sidecar
    inbound and gateway listeners. -/
def forListenerClass (outbound : Bool) (fs : List GFilter) : List GFilter := if outbound then [] else fs

/-- The whole authorization part of a filter chain: CUSTOM filters first, then AUDIT, DENY, ALLOW
    (the order in which the authz plugin adds them). -/
def compileAll (w : Workload) (o : BuildOpts) (c : CustomOpts) (ps : List Policy) : List GFilter :=
  compileCustomSelected o c (selectPolicies w ps) ++ (compile w o ps).map .rbac

/-! ## The authz plugin (`pilot/pkg/networking/plugin/authz/authorization.go`)

One `Builder` per proxy is shared by all filter chains of its listeners: `BuildTCP` and `BuildHTTP`
build lazily and keep their result, `BuildHTTP` yields nothing for sidecar outbound listeners,
`BuildTCPRulesAsHTTPFilter` is not cached.  (The CUSTOM and the Local builder are two such objects
called side by side; `compileAll` is their joint output, so one cache models both.) -/

inductive Call
  | tcp                      -- BuildTCP()
  | http (outbound : Bool)   -- BuildHTTP(class); outbound = ListenerClassSidecarOutbound
  | tcpHttp                  -- BuildTCPRulesAsHTTPFilter()
deriving Repr, DecidableEq, Inhabited

/-- What the underlying `builder.Builder` produces for a call, for fixed policies. -/
def buildFresh (w : Workload) (bundle : List Str) (useAuth : Bool) (c : CustomOpts) (ps : List Policy) :
    Call → List GFilter
  | .tcp => compileAll w { bundle := bundle, forTCP := true, useAuth := useAuth } c ps
  | .http _ => compileAll w { bundle := bundle, forTCP := false, useAuth := useAuth } c ps
  | .tcpHttp => compileAll w { bundle := bundle, forTCP := true, useAuth := useAuth, tcpRulesAsHTTP := true } c ps

/-- The plugin builder's state: `tcpBuilt`/`tcpFilters`, `httpBuilt`/`httpFilters`. -/
structure Plugin where
  tcp : Option (List GFilter) := none
  http : Option (List GFilter) := none
deriving Repr, Inhabited

def Plugin.call (fresh : Call → List GFilter) (p : Plugin) : Call → Plugin × List GFilter
  | .tcp =>
    match p.tcp with
    | some f => (p, f)
    | none => ({ p with tcp := some (fresh .tcp) }, fresh .tcp)
  | .http true => (p, [])
  | .http false =>
    match p.http with
    | some f => (p, f)
    | none => ({ p with http := some (fresh (.http false)) }, fresh (.http false))
  | .tcpHttp => (p, fresh .tcpHttp)

/-- A sequence of calls on one plugin builder: the outputs. -/
def Plugin.run (fresh : Call → List GFilter) : Plugin → List Call → List (List GFilter)
  | _, [] => []
  | p, c :: cs => (p.call fresh c).2 :: Plugin.run fresh (p.call fresh c).1 cs

/-- What each call must yield, whatever was called before. -/
def callResult (fresh : Call → List GFilter) : Call → List GFilter
  | .http true => []
  | c => fresh c

/-- `NewWaypointTerminationBuilder`: ... and never reads the peer from the filter state. -/
def terminationUseAuth (_useAuth : Bool) : Bool := true

end IstioModel.C08
