/-
C08 - source semantics: what an AuthorizationPolicy set decides for a request, written from the
property statement and the AuthorizationPolicy API documentation.  Independent of the compiler
(Model.lean): it only shares the source syntax (structures, the attribute vocabulary `classify`,
value syntax parsers for CIDR / port / "ns/sa" / bracketed keys).

  * a request matching any DENY policy is rejected; otherwise it is admitted iff there is no ALLOW
    policy or some ALLOW policy matches it (dry-run, AUDIT and CUSTOM policies do not take part);
  * a policy matches iff one of its rules matches; a rule matches iff some `from` source, some `to`
    operation and all `when` conditions hold (a missing `from` / `to` list holds);
  * a field holds iff (values empty or some value matches) and no notValue matches;
  * value forms: exact, `prefix*`, `*suffix`, `*` (presence).
-/
import IstioModel.C08.Envoy

namespace IstioModel.C08

/-! ## Value forms -/

/-- exact / `prefix*` / `*suffix` / `*` = present and non-empty. -/
def strForm (v s : Str) : Bool :=
  if v = star then !s.isEmpty
  else if hasPrefix star v then hasSuffix (v.drop 1) s
  else if hasSuffix star v then hasPrefix v.dropLast s
  else s == v

/-- The same forms for the pseudo-headers `:authority` / `:method`, which every HTTP request carries
    with a non-empty value (`*` = present); `ic` = compare case-insensitively (hosts).  For
    `request.headers[..]` the value `*` means present AND non-empty (`specAtom`), as the API
    documents ("`*` will match when value is not empty"). -/
def hdrForm (ic : Bool) (v s : Str) : Bool :=
  if v = star then true
  else if hasPrefix star v then
    (if ic then hasSuffix (lower (v.drop 1)) (lower s) else hasSuffix (v.drop 1) s)
  else if hasSuffix star v then
    (if ic then hasPrefix (lower v.dropLast) (lower s) else hasPrefix v.dropLast s)
  else (if ic then lower s == lower v else s == v)

/-- Glob over one name: literal parts separated by `*`, each `*` standing for any text. -/
def globParts : List Str → Str → Bool
  | [], s => s.isEmpty
  | [p], s => s == p
  | p :: q :: rest, s => hasPrefix p s && anySuffix (globParts (q :: rest)) (s.drop p.length)

def globForm (v s : Str) : Bool := globParts (splitOn '*' v) s

/-- trust domain value: `*` = any, no `*` = equal, otherwise one `*` standing for any text. -/
def tdForm (v td : Str) : Bool :=
  if v = star then true
  else match cut '*' v with
    | none => td == v
    | some (a, b) => hasPrefix a td && hasSuffix b (td.drop a.length)

/-- CIDR containment over `Nat`: same family, and the first `len` bits of the address agree. -/
def cidrHas (c : Cidr) (ip : IP) : Bool :=
  c.v6 == ip.v6 && ip.val / 2 ^ (c.width - c.len) == c.addr / 2 ^ (c.width - c.len)

/-- A string-or-list attribute (JWT claim, metadata) matches a value form. -/
def mvalForm (v : Str) : Option MVal → Bool
  | some (.str s) => strForm v s
  | some (.strs l) => l.any (strForm v)
  | some .other => false   -- a claim that is a number / bool / object equals no string value
  | none => false

def claim (req : Request) (path : List Str) : Option MVal := lookupMeta req jwtFilterName (jwtPayload :: path)

/-! ## One value of one attribute -/

/-- Does value `v` of the attribute designated by (`g`, `key`) match the request?
    An unparsable value (bad CIDR / port / key syntax) matches nothing; an HTTP attribute does not
    exist on a raw TCP connection and then matches nothing. -/
def specAtom (g : Gen) (key v : Str) (req : Request) : Bool :=
  match g with
  | .srcPrincipal => req.peer.any fun id => strForm v id.principal
  | .srcNamespace => req.peer.any fun id => globForm v id.ns
  | .srcServiceAccount pns => req.peer.any fun id => id.ns == (saSplit pns v).1 && id.sa == (saSplit pns v).2
  | .srcTrustDomain => req.peer.any fun id => tdForm v id.td
  | .srcIP => (parseCidr v).any (cidrHas · req.srcIP)
  | .remoteIP => (parseCidr v).any (cidrHas · req.remoteIP)
  | .destIP => (parseCidr v).any (cidrHas · req.dstIP)
  | .destPort => (parsePort v).any (req.dstPort == ·)
  | .connSNI => strForm v req.sni
  | .host => req.http.any fun h => hdrForm true v h.host
  | .method => req.http.any fun h => hdrForm false v h.method
  | .path => req.http.any fun h =>
      if containsPathTemplate v then templateMatch (sanitizePathTemplate v) h.path else strForm v h.path
  | .requestHeader =>
    req.http.any fun h =>
      match extractNameInBrackets (trimPrefix attrRequestHeader key) with
      | some name => (lookupHeader name h).any fun x => if v = star then !x.isEmpty else hdrForm false v x
      | none => false
  | .requestPrincipal =>
    match claim req ["iss".toList], claim req ["sub".toList] with
    | some (.str i), some (.str s) => !i.isEmpty && !s.isEmpty && strForm v (i ++ ['/'] ++ s)
    | _, _ => false
  | .requestAudiences => mvalForm v (claim req ["aud".toList])
  | .requestPresenter => mvalForm v (claim req ["azp".toList])
  | .requestClaim =>
    match extractNameInNestedBrackets (trimPrefix attrRequestClaims key) with
    | some path => mvalForm v (claim req path)
    | none => false
  | .envoyFilter =>
    match envoyFilterKey key with
    | some (f, k) =>
      if hasPrefix lbr v && hasSuffix rbr v then
        (match lookupMeta req f [k] with
         | some (.strs l) => l.any (strForm (trimSet "[]".toList v))
         | _ => false)
      else (match lookupMeta req f [k] with
         | some (.str s) => strForm v s
         | _ => false)
    | none => false

/-- values OR, notValues NOT(OR). -/
def specField (g : Gen) (key : Str) (values notValues : List Str) (req : Request) : Bool :=
  (values.isEmpty || values.any (specAtom g key · req)) && !(notValues.any (specAtom g key · req))

/-! ## Rules, policies, decision -/

def srcMatches (pns : Str) (s : Source) (req : Request) : Bool :=
  specField .srcPrincipal attrSrcPrincipal s.principals s.notPrincipals req &&
  specField .requestPrincipal attrRequestPrincipal s.requestPrincipals s.notRequestPrincipals req &&
  specField (.srcServiceAccount pns) attrSrcServiceAccount s.serviceAccounts s.notServiceAccounts req &&
  specField .srcTrustDomain attrSrcTrustDomain s.trustDomains s.notTrustDomains req &&
  specField .srcNamespace attrSrcNamespace s.namespaces s.notNamespaces req &&
  specField .remoteIP attrRemoteIP s.remoteIpBlocks s.notRemoteIpBlocks req &&
  specField .srcIP attrSrcIP s.ipBlocks s.notIpBlocks req

def opMatches (o : Operation) (req : Request) : Bool :=
  specField .host hostHeader o.hosts o.notHosts req &&
  specField .method methodHeader o.methods o.notMethods req &&
  specField .path pathMatcherKey o.paths o.notPaths req &&
  specField .destPort attrDestPort o.ports o.notPorts req

/-- A condition on an attribute that does not exist never holds. -/
def whenHolds (pns : Str) (c : Condition) (req : Request) : Bool :=
  match classify pns c.key with
  | some g => specField g c.key c.values c.notValues req
  | none => false

def ruleMatches (pns : Str) (r : Rule) (req : Request) : Bool :=
  (r.froms.isEmpty || r.froms.any (srcMatches pns · req)) &&
  (r.tos.isEmpty || r.tos.any (opMatches · req)) &&
  r.whens.all (whenHolds pns · req)

def policyMatches (p : Policy) (req : Request) : Bool := p.rules.any (ruleMatches p.ns · req)

/-! ## Trust domain aliases

The mesh has a local trust domain and aliases (`bundle`, local first); all of them name the same
identities.  A principal value `<td>/ns/<ns>/sa/<sa>` whose trust domain is one of the bundle (or the
conventional `cluster.local`, which stands for the local trust domain) denotes that identity in
every trust domain of the bundle; when the trust-domain part is a `*suffix` pattern that covers some
trust domains of the bundle, the value stands as written (it covers those itself) and in addition
denotes the same identity in the bundle's other trust domains; a `trustDomains` value that is one of
the bundle denotes all of them.  Anything else is taken literally (in particular a `*` elsewhere in
the trust-domain part is an ordinary character, as in every exact-match value). -/

/-- The `*suffix` trust-domain part `pat` covers trust domain `t`. -/
def coversTD (pat t : Str) : Bool := hasPrefix star pat && hasSuffix (pat.drop 1) t

def aliasValues (bundle : List Str) (v : Str) : List Str :=
  match splitOn '/' v with
  | [td, a, b, c, d] =>
    if td == star then [v]
    else if bundle.contains td || td == clusterLocal then
      bundle.map fun t => join ['/'] [t, a, b, c, d]
    else if bundle.any (coversTD td) then
      bundle.map fun t => if coversTD td t then v else join ['/'] [t, a, b, c, d]
    else [v]
  | _ => [v]

def aliasTD (bundle : List Str) (v : Str) : List Str := if bundle.contains v then bundle else [v]

def expandSource (b : List Str) (s : Source) : Source :=
  { s with principals := s.principals.flatMap (aliasValues b),
           notPrincipals := s.notPrincipals.flatMap (aliasValues b),
           trustDomains := s.trustDomains.flatMap (aliasTD b),
           notTrustDomains := s.notTrustDomains.flatMap (aliasTD b) }

def expandCondition (b : List Str) (c : Condition) : Condition :=
  if c.key = attrSrcPrincipal then
    { c with values := c.values.flatMap (aliasValues b), notValues := c.notValues.flatMap (aliasValues b) }
  else if c.key = attrSrcTrustDomain then
    { c with values := c.values.flatMap (aliasTD b), notValues := c.notValues.flatMap (aliasTD b) }
  else c

def expandRule (b : List Str) (r : Rule) : Rule :=
  { r with froms := r.froms.map (expandSource b), whens := r.whens.map (expandCondition b) }

def expandPolicy (b : List Str) (p : Policy) : Policy := { p with rules := p.rules.map (expandRule b) }

/-! ## Rules that cannot be expressed (clause 2 of the statement)

A field cannot be expressed on a filter chain when its attribute is HTTP-only and the chain is TCP,
or when its map-style key cannot be read (`request.headers.x[y]`); a value cannot be expressed when
it does not parse (CIDR, port).  An ALLOW rule with such a field or value matches nothing; a rule of
any other action (DENY, AUDIT, CUSTOM) is enforced on its remaining conditions.

Outside the clause: a `when` key that names NO attribute of the API at all (`unknown.key`,
`source.ipx`).  Validation rejects it (so it is outside the property's quantifier); there is no
condition to set aside, `whenHolds` is false and the rule matches nothing under EVERY action - which
is also what the code does (`model.New` fails, the builder skips the rule): `unknown_key_rule_lost`.
The unconditional theorems below (`compile_all_exact`) hold with this reading. -/

/-- Attributes that exist only for HTTP requests. -/
def Gen.httpOnly : Gen → Bool
  | .host | .method | .path | .requestHeader | .requestPrincipal | .requestAudiences
  | .requestPresenter | .requestClaim => true
  | _ => false

/-- The bracketed part of a map-style key can be read. -/
def keyReadable (g : Gen) (key : Str) : Bool :=
  match g with
  | .requestHeader => (extractNameInBrackets (trimPrefix attrRequestHeader key)).isSome
  | .requestClaim => (extractNameInNestedBrackets (trimPrefix attrRequestClaims key)).isSome
  | .envoyFilter => (envoyFilterKey key).isSome
  | _ => true

def attrExpressible (tcp : Bool) (g : Gen) (key : Str) : Bool := !(tcp && g.httpOnly) && keyReadable g key

def valueParses (g : Gen) (v : Str) : Bool :=
  match g with
  | .destIP | .srcIP | .remoteIP => (parseCidr v).isSome
  | .destPort => (parsePort v).isSome
  | _ => true

/-- The field is absent, or its attribute and all its values can be expressed. -/
def fieldExpressible (tcp : Bool) (g : Gen) (key : Str) (vs nvs : List Str) : Bool :=
  (vs.isEmpty && nvs.isEmpty) ||
  (attrExpressible tcp g key && vs.all (valueParses g) && nvs.all (valueParses g))

/-- The values of a field that remain: none if the attribute cannot be expressed, else the parsing ones. -/
def remaining (tcp : Bool) (g : Gen) (key : Str) (vs : List Str) : List Str :=
  if attrExpressible tcp g key then vs.filter (valueParses g) else []

def srcExpressible (tcp : Bool) (pns : Str) (s : Source) : Bool :=
  fieldExpressible tcp .srcPrincipal attrSrcPrincipal s.principals s.notPrincipals &&
  fieldExpressible tcp .requestPrincipal attrRequestPrincipal s.requestPrincipals s.notRequestPrincipals &&
  fieldExpressible tcp (.srcServiceAccount pns) attrSrcServiceAccount s.serviceAccounts s.notServiceAccounts &&
  fieldExpressible tcp .srcTrustDomain attrSrcTrustDomain s.trustDomains s.notTrustDomains &&
  fieldExpressible tcp .srcNamespace attrSrcNamespace s.namespaces s.notNamespaces &&
  fieldExpressible tcp .remoteIP attrRemoteIP s.remoteIpBlocks s.notRemoteIpBlocks &&
  fieldExpressible tcp .srcIP attrSrcIP s.ipBlocks s.notIpBlocks

def opExpressible (tcp : Bool) (o : Operation) : Bool :=
  fieldExpressible tcp .host hostHeader o.hosts o.notHosts &&
  fieldExpressible tcp .method methodHeader o.methods o.notMethods &&
  fieldExpressible tcp .path pathMatcherKey o.paths o.notPaths &&
  fieldExpressible tcp .destPort attrDestPort o.ports o.notPorts

def whenExpressible (tcp : Bool) (pns : Str) (c : Condition) : Bool :=
  match classify pns c.key with
  | some g => fieldExpressible tcp g c.key c.values c.notValues
  | none => true     -- a condition on an unknown attribute never holds anyway

def ruleExpressible (tcp : Bool) (pns : Str) (r : Rule) : Bool :=
  r.froms.all (srcExpressible tcp pns) && r.tos.all (opExpressible tcp) && r.whens.all (whenExpressible tcp pns)

def remainingSource (tcp : Bool) (pns : Str) (s : Source) : Source :=
  { principals := remaining tcp .srcPrincipal attrSrcPrincipal s.principals,
    notPrincipals := remaining tcp .srcPrincipal attrSrcPrincipal s.notPrincipals,
    requestPrincipals := remaining tcp .requestPrincipal attrRequestPrincipal s.requestPrincipals,
    notRequestPrincipals := remaining tcp .requestPrincipal attrRequestPrincipal s.notRequestPrincipals,
    namespaces := remaining tcp .srcNamespace attrSrcNamespace s.namespaces,
    notNamespaces := remaining tcp .srcNamespace attrSrcNamespace s.notNamespaces,
    ipBlocks := remaining tcp .srcIP attrSrcIP s.ipBlocks,
    notIpBlocks := remaining tcp .srcIP attrSrcIP s.notIpBlocks,
    remoteIpBlocks := remaining tcp .remoteIP attrRemoteIP s.remoteIpBlocks,
    notRemoteIpBlocks := remaining tcp .remoteIP attrRemoteIP s.notRemoteIpBlocks,
    serviceAccounts := remaining tcp (.srcServiceAccount pns) attrSrcServiceAccount s.serviceAccounts,
    notServiceAccounts := remaining tcp (.srcServiceAccount pns) attrSrcServiceAccount s.notServiceAccounts,
    trustDomains := remaining tcp .srcTrustDomain attrSrcTrustDomain s.trustDomains,
    notTrustDomains := remaining tcp .srcTrustDomain attrSrcTrustDomain s.notTrustDomains }

def remainingOp (tcp : Bool) (o : Operation) : Operation :=
  { hosts := remaining tcp .host hostHeader o.hosts, notHosts := remaining tcp .host hostHeader o.notHosts,
    ports := remaining tcp .destPort attrDestPort o.ports, notPorts := remaining tcp .destPort attrDestPort o.notPorts,
    methods := remaining tcp .method methodHeader o.methods, notMethods := remaining tcp .method methodHeader o.notMethods,
    paths := remaining tcp .path pathMatcherKey o.paths, notPaths := remaining tcp .path pathMatcherKey o.notPaths }

def remainingCondition (tcp : Bool) (pns : Str) (c : Condition) : Condition :=
  match classify pns c.key with
  | some g => { c with values := remaining tcp g c.key c.values, notValues := remaining tcp g c.key c.notValues }
  | none => c

/-- The rule with only the conditions that can be expressed. -/
def remainingRule (tcp : Bool) (pns : Str) (r : Rule) : Rule :=
  { froms := r.froms.map (remainingSource tcp pns), tos := r.tos.map (remainingOp tcp),
    whens := r.whens.map (remainingCondition tcp pns) }

/-- Clause 2 as a reading of a policy on a chain: an ALLOW policy keeps only its expressible rules
    (the others match nothing); a policy of any other action keeps every rule, reduced to its
    remaining conditions. -/
def clause2 (tcp : Bool) (p : Policy) : Policy :=
  if p.action == .allow then { p with rules := p.rules.filter (ruleExpressible tcp p.ns) }
  else { p with rules := p.rules.map (remainingRule tcp p.ns) }

/-! ## Which policies apply to a workload

Written from the API documentation of `AuthorizationPolicy` (`selector`, `targetRefs`), independently
of the control flow of `ShouldAttachPolicy` (`Model.shouldAttach`); `applies_eq_shouldAttach` /
`selectPolicies_eq_applies` (Theorems.lean) prove the two equal.

* A policy is considered for a workload when it lives in the mesh root namespace, in the workload's
  namespace or - for the chain a waypoint builds for a service - in that service's namespace.
* Without `targetRefs` the `selector` decides (no selector = every workload of the scope).  Workloads
  that are Gateway API gateways (label `gateway.networking.k8s.io/gateway-name`) take selector
  policies only while the selector-based gateway policy feature is on; "waypoint proxies are required
  to use targetRefs: selector policies are ignored".
* With `targetRefs` (or the legacy single `targetRef`) the policy applies only to Gateway API
  workloads, and only when one reference designates the workload:
  `Gateway` <name>        - the workload is that Gateway, policy in the Gateway's namespace; "cross
                            namespace references are not supported": a reference naming another
                            namespace designates nothing;
  `GatewayClass` istio-waypoint - every waypoint, policy in the root namespace;
  `Service` <name>        - the waypoint chain built for that Kubernetes Service, policy in the
                            service's namespace;
  `ServiceEntry` <name>   - likewise for the service of that ServiceEntry (External registry). -/

def nsInScope (w : Workload) (p : Policy) : Bool :=
  p.ns == w.rootNs || p.ns == w.ns || w.service.any fun s => p.ns == s.ns

def isGatewayAPI (w : Workload) : Bool := (lookupLabel gatewayNameLabel w.labels).isSome

def selectorMatches (w : Workload) (p : Policy) : Bool := p.selector.all fun kv => w.labels.contains kv

/-- One `targetRefs` entry designates the workload. -/
def refDesignates (w : Workload) (p : Policy) (ref : Str × Str × Str × Str) : Bool :=
  if refIs ref gatewayGroup "Gateway".toList then
    lookupLabel gatewayNameLabel w.labels == some ref.2.2.1 && p.ns == w.ns &&
      (ref.2.2.2.isEmpty || ref.2.2.2 == w.ns)
  else if refIs ref gatewayGroup "GatewayClass".toList then
    w.waypoint && ref.2.2.1 == waypointClassName && p.ns == w.rootNs
  else if refIs ref [] "Service".toList then
    w.waypoint && w.service.any fun s => s.k8s && s.policyName == ref.2.2.1 && s.ns == p.ns
  else if refIs ref istioNetworkingGroup "ServiceEntry".toList then
    w.waypoint && w.service.any fun s => !s.k8s && s.policyName == ref.2.2.1 && s.ns == p.ns
  else false

def applies (w : Workload) (p : Policy) : Bool :=
  nsInScope w p &&
  (if p.refs.isEmpty then
     selectorMatches w p && (!isGatewayAPI w || (!w.waypoint && w.selectorGatewayPolicy))
   else isGatewayAPI w && p.refs.any (refDesignates w p))

/-- Policies that are enforced with the given action (dry-run policies are not enforced). -/
def enforced (a : Action) (ps : List Policy) : List Policy :=
  ps.filter fun p => p.action == a && !p.dryRun

/-- The statement's sentence for the policies that apply. `true` = admitted. -/
def decision (ps : List Policy) (req : Request) : Bool :=
  if (enforced .deny ps).any (policyMatches · req) then false
  else if (enforced .allow ps).isEmpty then true
  else (enforced .allow ps).any (policyMatches · req)

/-! ## CUSTOM

A CUSTOM policy delegates the decision to its extension provider (taken to allow here: the external
authorizer's answer is outside the statement).  It is enforced as DENY - the documented fail-closed
behaviour - when its provider is not defined in the mesh config, or when the workload's CUSTOM
policies name several providers while the multi-provider feature is off.  A dry-run CUSTOM policy
has no effect. -/

def customBad (c : CustomOpts) (ps : List Policy) (p : Policy) : Bool :=
  let cps := ps.filter (·.action == .custom)
  (cps.any (fun a => cps.any fun b => a.provider != b.provider) && !c.multi) || !c.providers.contains p.provider

def customDenies (c : CustomOpts) (ps : List Policy) (req : Request) : Bool :=
  (enforced .custom ps).any fun p => customBad c ps p && policyMatches p req

/-- The extension providers whose authorizer the request has to be sent to (sorted): the CUSTOM
    policies are not in the fail-closed mode, the provider is defined in the mesh config and usable on
    this kind of chain (an HTTP-type provider cannot serve a raw TCP chain), and an enforced CUSTOM
    policy naming it matches the request. -/
def customAsks (c : CustomOpts) (tcpShape : Bool) (ps : List Policy) (req : Request) : List Str :=
  let cps := ps.filter (·.action == .custom)
  if cps.any (fun a => cps.any fun b => a.provider != b.provider) && !c.multi then []
  else (sortDedup (cps.map (·.provider))).filter fun pr =>
    c.providers.contains pr && !(tcpShape && c.httpProviders.contains pr) &&
    (enforced .custom ps).any fun p => p.provider == pr && policyMatches p req

/-- Decision with the CUSTOM part. -/
def specDecisionAll (w : Workload) (bundle : List Str) (c : CustomOpts) (ps : List Policy) (req : Request) : Bool :=
  !(customDenies c ((ps.filter (applies w)).map (expandPolicy bundle)) req) &&
  decision ((ps.filter (applies w)).map (expandPolicy bundle)) req

/-- **The statement**: decision for a request on a chain of the given kind (`tcp`), clause 2 included. -/
def specDecisionOn (w : Workload) (bundle : List Str) (c : CustomOpts) (tcp : Bool) (ps : List Policy)
    (req : Request) : Bool :=
  specDecisionAll w bundle c (ps.map (clause2 tcp)) req

/-- **The statement, CUSTOM half**: whom to ask, on a chain generated for `tcp` rules and shaped as
    network (`tcpShape`) or HTTP filters. -/
def specAsksOn (w : Workload) (bundle : List Str) (c : CustomOpts) (tcp tcpShape : Bool) (ps : List Policy)
    (req : Request) : List Str :=
  customAsks c tcpShape (((ps.map (clause2 tcp)).filter (applies w)).map (expandPolicy bundle)) req

/-- ... and where: the authorizer of a provider is the service its mesh-config entry names. -/
def specAskTargets (w : Workload) (bundle : List Str) (c : CustomOpts) (tcp tcpShape : Bool) (ps : List Policy)
    (req : Request) : List ExtTarget :=
  (specAsksOn w bundle c tcp tcpShape ps req).map fun pr => (c.targetOf pr).onChain tcpShape

/-- The decision the policy semantics define for a request to workload `w` in a mesh with the
    trust domain bundle `bundle`. -/
def specDecision (w : Workload) (bundle : List Str) (ps : List Policy) (req : Request) : Bool :=
  decision ((ps.filter (applies w)).map (expandPolicy bundle)) req

end IstioModel.C08
