/-
C08 - helper lemmas from one model rule up to the builder's filter chain (not counted as
obligations; used by Theorems.lean).
-/
import IstioModel.C08.Atoms

namespace IstioModel.C08

/-! ## 2. Rules: values OR, notValues NOT(OR), conditions AND -/

theorem evalAny_eq (l : List Matcher) (req : Request) : evalAny l req = l.any (evalM · req) := by
  induction l with
  | nil => simp [evalAny]
  | cons a t ih => simp [evalAny, ih]

theorem evalAll_eq (l : List Matcher) (req : Request) : evalAll l req = l.all (evalM · req) := by
  induction l with
  | nil => simp [evalAll]
  | cons a t ih => simp [evalAll, ih]

theorem evalAll_append (a b : List Matcher) (req : Request) :
    evalAll (a ++ b) req = (evalAll a req && evalAll b req) := by
  simp [evalAll_eq]

/-- What `collect` produces means: OR over the values that could be translated. -/
theorem collect_sem (allow : Bool) (f : Str → Option Matcher) (a : Str → Bool) (req : Request)
    (vs : List Str) (l : List Matcher) (hc : collect allow f vs = some l)
    (hex : ∀ v ∈ vs, ∀ p, f v = some p → evalM p req = a v) :
    evalAny l req = (vs.filter fun v => (f v).isSome).any a ∧
    l.isEmpty = (vs.filter fun v => (f v).isSome).isEmpty := by
  induction vs generalizing l with
  | nil =>
    simp only [collect, Option.some.injEq] at hc
    subst hc
    simp [evalAny]
  | cons v vs ih =>
    simp only [collect] at hc
    cases hf : f v with
    | some p =>
      simp only [hf] at hc
      cases hr : collect allow f vs with
      | none => simp [hr] at hc
      | some l' =>
        simp only [hr, Option.map_some, Option.some.injEq] at hc
        subst hc
        obtain ⟨ih1, -⟩ := ih l' hr (fun w hw => hex w (List.mem_cons_of_mem _ hw))
        simp [evalAny, List.filter_cons, hf, ih1, hex v (by simp) p hf]
    | none =>
      simp only [hf] at hc
      cases allow
      · simp only [Bool.false_eq_true, if_false] at hc
        obtain ⟨ih1, ih2⟩ := ih l hc (fun w hw => hex w (List.mem_cons_of_mem _ hw))
        simp [List.filter_cons, hf, ih1, ih2]
      · simp at hc

/-- For ALLOW (errors abort) a successful `collect` translated every value. -/
theorem collect_allow_all (f : Str → Option Matcher) (vs : List Str) (l : List Matcher)
    (hc : collect true f vs = some l) : ∀ v ∈ vs, (f v).isSome = true := by
  induction vs generalizing l with
  | nil => simp
  | cons v vs ih =>
    simp only [collect] at hc
    cases hf : f v with
    | none => simp [hf] at hc
    | some p =>
      simp only [hf] at hc
      cases hr : collect true f vs with
      | none => simp [hr] at hc
      | some l' =>
        intro w hw
        simp only [List.mem_cons] at hw
        rcases hw with rfl | hw
        · simp [hf]
        · exact ih l' hr w hw

/-- For DENY / AUDIT (errors skipped) `collect` never fails. -/
theorem collect_deny_some (f : Str → Option Matcher) (vs : List Str) :
    ∃ l, collect false f vs = some l := by
  induction vs with
  | nil => exact ⟨[], rfl⟩
  | cons v vs ih =>
    obtain ⟨l, hl⟩ := ih
    simp only [collect]
    cases f v with
    | some p => exact ⟨p :: l, by simp [hl]⟩
    | none => exact ⟨l, by simp [hl]⟩

theorem filter_all_some {f : Str → Option Matcher} {vs : List Str}
    (h : ∀ v ∈ vs, (f v).isSome = true) : (vs.filter fun v => (f v).isSome) = vs := by
  rw [List.filter_eq_self]; exact h

theorem eval_orClause (l : List Matcher) (req : Request) :
    evalAll (orClause l) req = (l.isEmpty || evalAny l req) := by
  cases l <;> simp [orClause, evalAll, evalM]

theorem eval_notOrClause (l : List Matcher) (req : Request) :
    evalAll (notOrClause l) req = !(evalAny l req) := by
  cases l <;> simp [notOrClause, evalAll, evalM, evalAny]

theorem eval_andOrAny (l : List Matcher) (req : Request) : evalM (andOrAny l) req = evalAll l req := by
  cases l <;> simp [andOrAny, evalM, evalAll]


theorem seq2_some {a b : Option (List Matcher)} {cl : List Matcher} (h : seq2 a b = some cl) :
    ∃ x y, a = some x ∧ b = some y ∧ cl = x ++ y := by
  cases a <;> cases b <;> simp [seq2] at h
  exact ⟨_, _, rfl, rfl, h.symm⟩

/-- values OR / notValues NOT(OR), non-extended generators, every value translated. -/
theorem clause_exact (allow : Bool) (f : Str → Option Matcher) (a : Str → Bool) (req : Request)
    (vs nvs : List Str) (cl : List Matcher)
    (h : seq2 ((collect allow f vs).map orClause) ((collect allow f nvs).map notOrClause) = some cl)
    (hex : ∀ v ∈ vs ++ nvs, ∀ p, f v = some p → evalM p req = a v)
    (htr : ∀ v ∈ vs ++ nvs, (f v).isSome = true) :
    evalAll cl req = ((vs.isEmpty || vs.any a) && !(nvs.any a)) := by
  obtain ⟨x, y, hx, hy, rfl⟩ := seq2_some h
  cases h1 : collect allow f vs with
  | none => simp [h1] at hx
  | some l1 =>
    cases h2 : collect allow f nvs with
    | none => simp [h2] at hy
    | some l2 =>
      simp only [h1, h2, Option.map_some, Option.some.injEq] at hx hy
      subst hx; subst hy
      obtain ⟨e1, e1'⟩ := collect_sem allow f a req vs l1 h1 (fun v hv => hex v (List.mem_append_left _ hv))
      obtain ⟨e2, -⟩ := collect_sem allow f a req nvs l2 h2 (fun v hv => hex v (List.mem_append_right _ hv))
      rw [filter_all_some (fun v hv => htr v (List.mem_append_left _ hv))] at e1 e1'
      rw [filter_all_some (fun v hv => htr v (List.mem_append_right _ hv))] at e2
      rw [evalAll_append, eval_orClause, eval_notOrClause, e1, e1', e2]

/-- ALLOW: a generated clause list translated everything. -/
theorem clause_allow (f : Str → Option Matcher) (a : Str → Bool) (req : Request)
    (vs nvs : List Str) (cl : List Matcher)
    (h : seq2 ((collect true f vs).map orClause) ((collect true f nvs).map notOrClause) = some cl)
    (hex : ∀ v ∈ vs ++ nvs, ∀ p, f v = some p → evalM p req = a v) :
    evalAll cl req = ((vs.isEmpty || vs.any a) && !(nvs.any a)) := by
  apply clause_exact true f a req vs nvs cl h hex
  obtain ⟨x, y, hx, hy, -⟩ := seq2_some h
  cases h1 : collect true f vs with
  | none => simp [h1] at hx
  | some l1 =>
    cases h2 : collect true f nvs with
    | none => simp [h2] at hy
    | some l2 =>
      intro v hv
      rcases List.mem_append.1 hv with hv | hv
      · exact collect_allow_all f vs l1 h1 v hv
      · exact collect_allow_all f nvs l2 h2 v hv

theorem any_filter_le {α : Type} (p q : α → Bool) (l : List α) (h : l.any q = false) :
    (l.filter p).any q = false := by
  rw [List.any_filter]
  rw [List.any_eq_false] at h ⊢
  intro x hx
  simp [h x hx]

/-- DENY / AUDIT: whatever is generated holds whenever the field holds in the policy semantics. -/
theorem clause_deny (f : Str → Option Matcher) (a : Str → Bool) (req : Request)
    (vs nvs : List Str) (cl : List Matcher)
    (h : seq2 ((collect false f vs).map orClause) ((collect false f nvs).map notOrClause) = some cl)
    (hex : ∀ v ∈ vs ++ nvs, ∀ p, f v = some p → evalM p req = a v)
    (hnone : (∀ v, f v = none) ∨ (∀ v, f v = none → a v = false))
    (hs : ((vs.isEmpty || vs.any a) && !(nvs.any a)) = true) :
    evalAll cl req = true := by
  obtain ⟨x, y, hx, hy, rfl⟩ := seq2_some h
  cases h1 : collect false f vs with
  | none => simp [h1] at hx
  | some l1 =>
    cases h2 : collect false f nvs with
    | none => simp [h2] at hy
    | some l2 =>
      simp only [h1, h2, Option.map_some, Option.some.injEq] at hx hy
      subst hx; subst hy
      obtain ⟨e1, e1'⟩ := collect_sem false f a req vs l1 h1 (fun v hv => hex v (List.mem_append_left _ hv))
      obtain ⟨e2, -⟩ := collect_sem false f a req nvs l2 h2 (fun v hv => hex v (List.mem_append_right _ hv))
      simp only [Bool.and_eq_true, Bool.or_eq_true, Bool.not_eq_true'] at hs
      rw [evalAll_append, eval_orClause, eval_notOrClause, e1, e1', e2,
        any_filter_le _ _ _ hs.2]
      simp only [Bool.not_false, Bool.and_true, Bool.or_eq_true]
      rcases hs.1 with hv | hv
      · left
        have : vs = [] := by simpa using hv
        simp [this]
      · rcases hnone with hn | hn
        · left
          simp [hn]
        · right
          rw [List.any_eq_true] at hv ⊢
          obtain ⟨v, hvm, hav⟩ := hv
          refine ⟨v, ?_, hav⟩
          rw [List.mem_filter]
          refine ⟨hvm, ?_⟩
          cases hfv : f v with
          | some p => rfl
          | none => rw [hn v hfv] at hav; exact absurd hav (by simp)

/-- The extended branch, translated. -/
theorem collectExt_exact (allow : Bool) (F : List Str → Option Matcher) (a : Str → Bool)
    (req : Request) (neg : Bool) (vs : List Str) (cl : List Matcher)
    (h : collectExt allow F (if neg then Matcher.not else id) vs = some cl)
    (hex : vs ≠ [] → ∀ p, F vs = some p → evalM p req = vs.any a)
    (htr : vs ≠ [] → (F vs).isSome = true) :
    evalAll cl req = (if neg then !(vs.any a) else (vs.isEmpty || vs.any a)) := by
  unfold collectExt at h
  cases vs with
  | nil =>
    simp only [List.isEmpty_nil, if_true, Option.some.injEq] at h
    subst h
    cases neg <;> simp [evalAll]
  | cons v vs' =>
    simp only [List.isEmpty_cons, Bool.false_eq_true, if_false] at h
    cases hF : F (v :: vs') with
    | none => simp [hF] at htr
    | some p =>
      simp only [hF, Option.some.injEq] at h
      subst h
      have := hex (by simp) p hF
      cases neg <;> simp [evalAll, evalM, this]

theorem collectExt_allow_tr (F : List Str → Option Matcher) (w : Matcher → Matcher) (vs : List Str)
    (cl : List Matcher) (h : collectExt true F w vs = some cl) : vs ≠ [] → (F vs).isSome = true := by
  intro hne
  unfold collectExt at h
  cases vs with
  | nil => exact absurd rfl hne
  | cons v vs' =>
    simp only [List.isEmpty_cons, Bool.false_eq_true, if_false] at h
    cases hF : F (v :: vs') with
    | none => simp [hF] at h
    | some p => rfl

/-- The extended branch for DENY / AUDIT: sound. -/
theorem collectExt_deny (F : List Str → Option Matcher) (a : Str → Bool)
    (req : Request) (neg : Bool) (vs : List Str) (cl : List Matcher)
    (h : collectExt false F (if neg then Matcher.not else id) vs = some cl)
    (hex : vs ≠ [] → ∀ p, F vs = some p → evalM p req = vs.any a)
    (hs : (if neg then !(vs.any a) else (vs.isEmpty || vs.any a)) = true) :
    evalAll cl req = true := by
  unfold collectExt at h
  cases vs with
  | nil =>
    simp only [List.isEmpty_nil, if_true, Option.some.injEq] at h
    subst h; simp [evalAll]
  | cons v vs' =>
    simp only [List.isEmpty_cons, Bool.false_eq_true, if_false] at h
    cases hF : F (v :: vs') with
    | none =>
      simp only [hF, Option.some.injEq] at h
      subst h; simp [evalAll]
    | some p =>
      simp only [hF, Option.some.injEq] at h
      subst h
      have := hex (by simp) p hF
      cases neg <;> simp_all [evalAll, evalM]


/-- Extended generators (JWT principals / audiences / presenter / claims, experimental metadata):
    the aggregated matcher means OR over the values. -/
def ExtExact (g : Gen) (key : Str) (vs : List Str) (tcp : Bool) (req : Request) : Prop :=
  (∀ p, genExtPermission g key vs tcp = some p → evalM p req = vs.any (specAtom g key · req)) ∧
  (∀ p, genExtPrincipal g key vs tcp = some p → evalM p req = vs.any (specAtom g key · req))

/-- Every matcher generated for this model rule means what the policy value means (on this
    request). The permission side of non-extended generators needs no hypothesis
    (`matcher_correct_permission`). -/
def MRuleExact (tcp auth : Bool) (req : Request) (r : MRule) : Prop :=
  (r.g.extended = false → ∀ v ∈ r.values ++ r.notValues, PrinAtomExact r.g r.key v tcp auth req) ∧
  (r.g.extended = true → ExtExact r.g r.key r.values tcp req ∧ ExtExact r.g r.key r.notValues tcp req)

/-- The policy semantics of one model rule = one field of the source rule. -/
def fieldSem (req : Request) (r : MRule) : Bool := specField r.g r.key r.values r.notValues req

theorem genPermission_none_cases (g : Gen) (key : Str) (tcp : Bool) :
    (∀ v, genPermission g key v tcp = none) ∨
    (∀ v req, genPermission g key v tcp = none → specAtom g key v req = false) := by
  cases g <;> cases tcp <;> simp [genPermission, specAtom] <;>
    (try (right; intro v req h; simp [h]))
  right
  intro v req h
  split at h <;> simp at h

theorem genPrincipal_none_cases (g : Gen) (key : Str) (tcp auth : Bool) :
    (∀ v, genPrincipal g key v tcp auth = none) ∨
    (∀ v req, genPrincipal g key v tcp auth = none → specAtom g key v req = false) := by
  cases g <;> cases tcp <;> simp [genPrincipal, specAtom] <;>
    (try (right; intro v req h; simp [h]))
  all_goals
    cases extractNameInBrackets (trimPrefix attrRequestHeader key) <;> simp

theorem rulePermission_exact (tcp allow auth : Bool) (req : Request) (r : MRule) (cl : List Matcher)
    (h : rulePermission tcp allow r = some cl) (hex : MRuleExact tcp auth req r)
    (htr : permTranslated tcp r = true) : evalAll cl req = fieldSem req r := by
  unfold rulePermission at h
  unfold permTranslated at htr
  unfold fieldSem specField
  cases hext : r.g.extended
  · simp only [hext, Bool.false_eq_true, if_false] at h htr
    refine clause_exact allow _ (specAtom r.g r.key · req) req _ _ cl h ?_ ?_
    · intro v _ p hp; exact matcher_correct_permission r.g r.key v tcp req p hp
    · rw [List.all_eq_true] at htr; exact htr
  · simp only [hext, if_true, Bool.and_eq_true, Bool.or_eq_true] at h htr
    obtain ⟨x, y, hx, hy, rfl⟩ := seq2_some h
    obtain ⟨e1, e2⟩ := hex.2 hext
    have hx' := collectExt_exact allow _ (specAtom r.g r.key · req) req false r.values x hx
      (fun _ => e1.1) (fun hne => by
        rcases htr.1 with h0 | h0
        · exact absurd (by simpa using h0) hne
        · exact h0)
    have hy' := collectExt_exact allow _ (specAtom r.g r.key · req) req true r.notValues y hy
      (fun _ => e2.1) (fun hne => by
        rcases htr.2 with h0 | h0
        · exact absurd (by simpa using h0) hne
        · exact h0)
    simp only [Bool.false_eq_true, if_false, if_true] at hx' hy'
    rw [evalAll_append, hx', hy']

theorem rulePrincipal_exact (tcp allow auth : Bool) (req : Request) (r : MRule) (cl : List Matcher)
    (h : rulePrincipal tcp auth allow r = some cl) (hex : MRuleExact tcp auth req r)
    (htr : prinTranslated tcp auth r = true) : evalAll cl req = fieldSem req r := by
  unfold rulePrincipal at h
  unfold prinTranslated at htr
  unfold fieldSem specField
  cases hext : r.g.extended
  · simp only [hext, Bool.false_eq_true, if_false] at h htr
    refine clause_exact allow _ (specAtom r.g r.key · req) req _ _ cl h ?_ ?_
    · intro v hv p hp; exact hex.1 hext v hv p hp
    · rw [List.all_eq_true] at htr; exact htr
  · simp only [hext, if_true, Bool.and_eq_true, Bool.or_eq_true] at h htr
    obtain ⟨x, y, hx, hy, rfl⟩ := seq2_some h
    obtain ⟨e1, e2⟩ := hex.2 hext
    have hx' := collectExt_exact allow _ (specAtom r.g r.key · req) req false r.values x hx
      (fun _ => e1.2) (fun hne => by
        rcases htr.1 with h0 | h0
        · exact absurd (by simpa using h0) hne
        · exact h0)
    have hy' := collectExt_exact allow _ (specAtom r.g r.key · req) req true r.notValues y hy
      (fun _ => e2.2) (fun hne => by
        rcases htr.2 with h0 | h0
        · exact absurd (by simpa using h0) hne
        · exact h0)
    simp only [Bool.false_eq_true, if_false, if_true] at hx' hy'
    rw [evalAll_append, hx', hy']

/-- ALLOW: whatever is generated for a rule is exact (an error would have dropped the rule). -/
theorem rulePermission_allow (tcp auth : Bool) (req : Request) (r : MRule) (cl : List Matcher)
    (h : rulePermission tcp true r = some cl) (hex : MRuleExact tcp auth req r) :
    evalAll cl req = fieldSem req r := by
  apply rulePermission_exact tcp true auth req r cl h hex
  unfold rulePermission at h
  unfold permTranslated
  cases hext : r.g.extended
  · simp only [hext, Bool.false_eq_true, if_false] at h ⊢
    obtain ⟨x, y, hx, hy, -⟩ := seq2_some h
    cases h1 : collect true (genPermission r.g r.key · tcp) r.values with
    | none => simp [h1] at hx
    | some l1 =>
      cases h2 : collect true (genPermission r.g r.key · tcp) r.notValues with
      | none => simp [h2] at hy
      | some l2 =>
        rw [List.all_eq_true]
        intro v hv
        rcases List.mem_append.1 hv with hv | hv
        · exact collect_allow_all _ _ l1 h1 v hv
        · exact collect_allow_all _ _ l2 h2 v hv
  · simp only [hext, if_true] at h ⊢
    obtain ⟨x, y, hx, hy, -⟩ := seq2_some h
    simp only [Bool.and_eq_true, Bool.or_eq_true]
    constructor
    · by_cases hv : r.values = []
      · left; simp [hv]
      · right; exact collectExt_allow_tr _ _ _ _ hx hv
    · by_cases hv : r.notValues = []
      · left; simp [hv]
      · right; exact collectExt_allow_tr _ _ _ _ hy hv

theorem rulePrincipal_allow (tcp auth : Bool) (req : Request) (r : MRule) (cl : List Matcher)
    (h : rulePrincipal tcp auth true r = some cl) (hex : MRuleExact tcp auth req r) :
    evalAll cl req = fieldSem req r := by
  apply rulePrincipal_exact tcp true auth req r cl h hex
  unfold rulePrincipal at h
  unfold prinTranslated
  cases hext : r.g.extended
  · simp only [hext, Bool.false_eq_true, if_false] at h ⊢
    obtain ⟨x, y, hx, hy, -⟩ := seq2_some h
    cases h1 : collect true (genPrincipal r.g r.key · tcp auth) r.values with
    | none => simp [h1] at hx
    | some l1 =>
      cases h2 : collect true (genPrincipal r.g r.key · tcp auth) r.notValues with
      | none => simp [h2] at hy
      | some l2 =>
        rw [List.all_eq_true]
        intro v hv
        rcases List.mem_append.1 hv with hv | hv
        · exact collect_allow_all _ _ l1 h1 v hv
        · exact collect_allow_all _ _ l2 h2 v hv
  · simp only [hext, if_true] at h ⊢
    obtain ⟨x, y, hx, hy, -⟩ := seq2_some h
    simp only [Bool.and_eq_true, Bool.or_eq_true]
    constructor
    · by_cases hv : r.values = []
      · left; simp [hv]
      · right; exact collectExt_allow_tr _ _ _ _ hx hv
    · by_cases hv : r.notValues = []
      · left; simp [hv]
      · right; exact collectExt_allow_tr _ _ _ _ hy hv

/-- DENY / AUDIT: the generated clauses hold whenever the field holds (untranslatable values are
    skipped, which can only widen the match). -/
theorem rulePermission_deny (tcp auth : Bool) (req : Request) (r : MRule) (cl : List Matcher)
    (h : rulePermission tcp false r = some cl) (hex : MRuleExact tcp auth req r)
    (hs : fieldSem req r = true) : evalAll cl req = true := by
  unfold rulePermission at h
  unfold fieldSem specField at hs
  cases hext : r.g.extended
  · simp only [hext, Bool.false_eq_true, if_false] at h
    refine clause_deny _ (specAtom r.g r.key · req) req _ _ cl h ?_ ?_ hs
    · intro v _ p hp; exact matcher_correct_permission r.g r.key v tcp req p hp
    · rcases genPermission_none_cases r.g r.key tcp with hn | hn
      · exact Or.inl hn
      · exact Or.inr (fun v hv => hn v req hv)
  · simp only [hext, if_true] at h
    obtain ⟨x, y, hx, hy, rfl⟩ := seq2_some h
    obtain ⟨e1, e2⟩ := hex.2 hext
    simp only [Bool.and_eq_true] at hs
    rw [evalAll_append]
    rw [collectExt_deny _ (specAtom r.g r.key · req) req false r.values x hx (fun _ => e1.1) (by simpa using hs.1)]
    rw [collectExt_deny _ (specAtom r.g r.key · req) req true r.notValues y hy (fun _ => e2.1) (by simpa using hs.2)]
    rfl

theorem rulePrincipal_deny (tcp auth : Bool) (req : Request) (r : MRule) (cl : List Matcher)
    (h : rulePrincipal tcp auth false r = some cl) (hex : MRuleExact tcp auth req r)
    (hs : fieldSem req r = true) : evalAll cl req = true := by
  unfold rulePrincipal at h
  unfold fieldSem specField at hs
  cases hext : r.g.extended
  · simp only [hext, Bool.false_eq_true, if_false] at h
    refine clause_deny _ (specAtom r.g r.key · req) req _ _ cl h ?_ ?_ hs
    · intro v hv p hp; exact hex.1 hext v hv p hp
    · rcases genPrincipal_none_cases r.g r.key tcp auth with hn | hn
      · exact Or.inl hn
      · exact Or.inr (fun v hv => hn v req hv)
  · simp only [hext, if_true] at h
    obtain ⟨x, y, hx, hy, rfl⟩ := seq2_some h
    obtain ⟨e1, e2⟩ := hex.2 hext
    simp only [Bool.and_eq_true] at hs
    rw [evalAll_append]
    rw [collectExt_deny _ (specAtom r.g r.key · req) req false r.values x hx (fun _ => e1.2) (by simpa using hs.1)]
    rw [collectExt_deny _ (specAtom r.g r.key · req) req true r.notValues y hy (fun _ => e2.2) (by simpa using hs.2)]
    rfl


/-! ## 3. Rule lists, `Generate`, `New` -/

/-- AND of the fields of one permission / principal list. -/
def mrulesHold (req : Request) (rl : List MRule) : Bool := rl.all (fieldSem req)

theorem concat_exact (f : MRule → Option (List Matcher)) (req : Request) (rl : List MRule)
    (l : List Matcher) (h : concatRules f rl = some l)
    (hr : ∀ r ∈ rl, ∀ cl, f r = some cl → evalAll cl req = fieldSem req r) :
    evalAll l req = mrulesHold req rl := by
  induction rl generalizing l with
  | nil =>
    simp only [concatRules, Option.some.injEq] at h
    subst h; simp [evalAll, mrulesHold]
  | cons r rs ih =>
    simp only [concatRules] at h
    obtain ⟨x, y, hx, hy, rfl⟩ := seq2_some h
    rw [evalAll_append, hr r (by simp) x hx, ih y hy (fun r' hr' => hr r' (List.mem_cons_of_mem _ hr'))]
    simp [mrulesHold]

theorem concat_deny (f : MRule → Option (List Matcher)) (req : Request) (rl : List MRule)
    (l : List Matcher) (h : concatRules f rl = some l)
    (hr : ∀ r ∈ rl, ∀ cl, f r = some cl → fieldSem req r = true → evalAll cl req = true)
    (hs : mrulesHold req rl = true) : evalAll l req = true := by
  induction rl generalizing l with
  | nil =>
    simp only [concatRules, Option.some.injEq] at h
    subst h; simp [evalAll]
  | cons r rs ih =>
    simp only [concatRules] at h
    obtain ⟨x, y, hx, hy, rfl⟩ := seq2_some h
    simp only [mrulesHold, List.all_cons, Bool.and_eq_true] at hs
    rw [evalAll_append, hr r (by simp) x hx hs.1,
      ih y hy (fun r' hr' => hr r' (List.mem_cons_of_mem _ hr')) hs.2]
    rfl

theorem mapAll_any {α β : Type} (f : α → Option β) (ev : β → Bool) (sem : α → Bool)
    (ls : List α) (ms : List β) (h : mapAll f ls = some ms)
    (hr : ∀ x ∈ ls, ∀ y, f x = some y → ev y = sem x) : ms.any ev = ls.any sem := by
  induction ls generalizing ms with
  | nil => simp only [mapAll, Option.some.injEq] at h; subst h; rfl
  | cons a as ih =>
    simp only [mapAll] at h
    cases h1 : f a with
    | none => simp [h1] at h
    | some b =>
      cases h2 : mapAll f as with
      | none => simp [h1, h2] at h
      | some bs =>
        simp only [h1, h2, Option.some.injEq] at h
        subst h
        simp [hr a (by simp) b h1, ih bs h2 (fun x hx => hr x (List.mem_cons_of_mem _ hx))]

theorem mapAll_any_deny {α β : Type} (f : α → Option β) (ev : β → Bool) (sem : α → Bool)
    (ls : List α) (ms : List β) (h : mapAll f ls = some ms)
    (hr : ∀ x ∈ ls, ∀ y, f x = some y → sem x = true → ev y = true)
    (hs : ls.any sem = true) : ms.any ev = true := by
  induction ls generalizing ms with
  | nil => simp at hs
  | cons a as ih =>
    simp only [mapAll] at h
    cases h1 : f a with
    | none => simp [h1] at h
    | some b =>
      cases h2 : mapAll f as with
      | none => simp [h1, h2] at h
      | some bs =>
        simp only [h1, h2, Option.some.injEq] at h
        subst h
        simp only [List.any_cons, Bool.or_eq_true] at hs ⊢
        rcases hs with hs | hs
        · exact Or.inl (hr a (by simp) b h1 hs)
        · exact Or.inr (ih bs h2 (fun x hx => hr x (List.mem_cons_of_mem _ hx)) hs)

theorem mapAll_length {α β : Type} (f : α → Option β) (ls : List α) (ms : List β)
    (h : mapAll f ls = some ms) : ms.length = ls.length := by
  induction ls generalizing ms with
  | nil => simp only [mapAll, Option.some.injEq] at h; subst h; rfl
  | cons a as ih =>
    simp only [mapAll] at h
    cases h1 : f a with
    | none => simp [h1] at h
    | some b =>
      cases h2 : mapAll f as with
      | none => simp [h1, h2] at h
      | some bs =>
        simp only [h1, h2, Option.some.injEq] at h
        subst h
        simp [ih bs h2]

/-- The policy semantics of a model: some permission list holds and some principal list holds. -/
def modelSem (req : Request) (m : Model) : Bool :=
  m.permissions.any (mrulesHold req) && m.principals.any (mrulesHold req)

def ModelExact (tcp auth : Bool) (req : Request) (m : Model) : Prop :=
  ∀ rl ∈ m.permissions ++ m.principals, ∀ mr ∈ rl, MRuleExact tcp auth req mr

/-- `Model.Generate`: if a policy is generated and nothing was skipped, it matches exactly the
    requests the rule matches. -/
theorem generate_exact (m : Model) (tcp auth allow : Bool) (req : Request) (e : EPolicy)
    (h : generate m tcp auth allow = some e) (hex : ModelExact tcp auth req m)
    (htr : allow = true ∨ modelTranslated tcp auth m = true) :
    evalPolicy e req = modelSem req m := by
  unfold generate at h
  cases h1 : mapAll (generatePermission tcp allow) m.permissions with
  | none => simp [h1] at h
  | some perms =>
    cases h2 : mapAll (generatePrincipal tcp auth allow) m.principals with
    | none => simp [h1, h2] at h
    | some prins =>
      simp only [h1, h2] at h
      split at h
      · simp at h
      · simp only [Option.some.injEq] at h
        subst h
        unfold evalPolicy modelSem
        rw [evalAny_eq, evalAny_eq]
        congr 1
        · apply mapAll_any _ _ _ _ _ h1
          intro rl hrl mm hmm
          unfold generatePermission at hmm
          cases hc : concatRules (rulePermission tcp allow) rl with
          | none => simp [hc] at hmm
          | some l =>
            simp only [hc, Option.map_some, Option.some.injEq] at hmm
            subst hmm
            rw [eval_andOrAny]
            apply concat_exact _ _ _ _ hc
            intro r hr cl hcl
            have hexr := hex rl (List.mem_append_left _ hrl) r hr
            rcases htr with rfl | htr
            · exact rulePermission_allow tcp auth req r cl hcl hexr
            · apply rulePermission_exact tcp allow auth req r cl hcl hexr
              simp only [modelTranslated, Bool.and_eq_true, List.all_eq_true] at htr
              exact htr.1 rl hrl r hr
        · apply mapAll_any _ _ _ _ _ h2
          intro rl hrl mm hmm
          unfold generatePrincipal at hmm
          cases hc : concatRules (rulePrincipal tcp auth allow) rl with
          | none => simp [hc] at hmm
          | some l =>
            simp only [hc, Option.map_some, Option.some.injEq] at hmm
            subst hmm
            rw [eval_andOrAny]
            apply concat_exact _ _ _ _ hc
            intro r hr cl hcl
            have hexr := hex rl (List.mem_append_right _ hrl) r hr
            rcases htr with rfl | htr
            · exact rulePrincipal_allow tcp auth req r cl hcl hexr
            · apply rulePrincipal_exact tcp allow auth req r cl hcl hexr
              simp only [modelTranslated, Bool.and_eq_true, List.all_eq_true] at htr
              exact htr.2 rl hrl r hr

/-- `Model.Generate` for DENY / AUDIT: the generated policy matches whenever the rule matches. -/
theorem generate_deny (m : Model) (tcp auth : Bool) (req : Request) (e : EPolicy)
    (h : generate m tcp auth false = some e) (hex : ModelExact tcp auth req m)
    (hs : modelSem req m = true) : evalPolicy e req = true := by
  unfold generate at h
  cases h1 : mapAll (generatePermission tcp false) m.permissions with
  | none => simp [h1] at h
  | some perms =>
    cases h2 : mapAll (generatePrincipal tcp auth false) m.principals with
    | none => simp [h1, h2] at h
    | some prins =>
      simp only [h1, h2] at h
      split at h
      · simp at h
      · simp only [Option.some.injEq] at h
        subst h
        unfold modelSem at hs
        simp only [Bool.and_eq_true] at hs
        unfold evalPolicy
        rw [evalAny_eq, evalAny_eq, Bool.and_eq_true]
        constructor
        · apply mapAll_any_deny _ _ _ _ _ h1 _ hs.1
          intro rl hrl mm hmm hsem
          unfold generatePermission at hmm
          cases hc : concatRules (rulePermission tcp false) rl with
          | none => simp [hc] at hmm
          | some l =>
            simp only [hc, Option.map_some, Option.some.injEq] at hmm
            subst hmm
            rw [eval_andOrAny]
            apply concat_deny _ _ _ _ hc _ hsem
            intro r hr cl hcl hf
            exact rulePermission_deny tcp auth req r cl hcl (hex rl (List.mem_append_left _ hrl) r hr) hf
        · apply mapAll_any_deny _ _ _ _ _ h2 _ hs.2
          intro rl hrl mm hmm hsem
          unfold generatePrincipal at hmm
          cases hc : concatRules (rulePrincipal tcp auth false) rl with
          | none => simp [hc] at hmm
          | some l =>
            simp only [hc, Option.map_some, Option.some.injEq] at hmm
            subst hmm
            rw [eval_andOrAny]
            apply concat_deny _ _ _ _ hc _ hsem
            intro r hr cl hcl hf
            exact rulePrincipal_deny tcp auth req r cl hcl (hex rl (List.mem_append_right _ hrl) r hr) hf




theorem specField_nil (g : Gen) (k : Str) (req : Request) : specField g k [] [] req = true := by
  simp [specField]

theorem mrulesHold_appendLast (req : Request) (l : List MRule) (g : Gen) (k : Str) (vs nvs : List Str) :
    mrulesHold req (appendLast l g k vs nvs) = (mrulesHold req l && specField g k vs nvs req) := by
  unfold appendLast
  split
  · rename_i h
    simp only [Bool.and_eq_true, List.isEmpty_iff] at h
    simp [h.1, h.2, specField_nil]
  · simp [mrulesHold, fieldSem]

theorem mrulesHold_insertFront (req : Request) (l : List MRule) (g : Gen) (k : Str) (vs nvs : List Str) :
    mrulesHold req (insertFront g k vs nvs l) = (specField g k vs nvs req && mrulesHold req l) := by
  unfold insertFront
  split
  · rename_i h
    simp only [Bool.and_eq_true, List.isEmpty_iff] at h
    simp [h.1, h.2, specField_nil]
  · simp [mrulesHold, fieldSem]

theorem mrulesHold_sourceRules (req : Request) (pns : Str) (s : Source) (base : List MRule) :
    mrulesHold req (sourceRules pns s base) = (srcMatches pns s req && mrulesHold req base) := by
  simp only [sourceRules, mrulesHold_insertFront, srcMatches, Bool.and_assoc]

theorem mrulesHold_operationRules (req : Request) (o : Operation) (base : List MRule) :
    mrulesHold req (operationRules o base) = (opMatches o req && mrulesHold req base) := by
  simp only [operationRules, mrulesHold_insertFront, opMatches, Bool.and_assoc]

theorem baseRules_sem (req : Request) (pns : Str) (ws : List Condition) (perm prin bperm bprin : List MRule)
    (h : baseRules pns ws perm prin = some (bperm, bprin)) :
    (mrulesHold req bperm && mrulesHold req bprin) =
      (mrulesHold req perm && mrulesHold req prin && ws.all (whenHolds pns · req)) := by
  induction ws generalizing perm prin with
  | nil =>
    simp only [baseRules, Option.some.injEq, Prod.mk.injEq] at h
    obtain ⟨rfl, rfl⟩ := h
    simp
  | cons c cs ih =>
    simp only [baseRules] at h
    cases hc : classify pns c.key with
    | none => simp [hc] at h
    | some g =>
      simp only [hc] at h
      split at h
      · rw [ih _ _ h, mrulesHold_appendLast]
        simp only [List.all_cons, whenHolds, hc]
        cases mrulesHold req perm <;> cases mrulesHold req prin <;>
          cases specField g c.key c.values c.notValues req <;> simp
      · rw [ih _ _ h, mrulesHold_appendLast]
        simp only [List.all_cons, whenHolds, hc]
        cases mrulesHold req perm <;> cases mrulesHold req prin <;>
          cases specField g c.key c.values c.notValues req <;> simp

theorem baseRules_none (req : Request) (pns : Str) (ws : List Condition) (perm prin : List MRule)
    (h : baseRules pns ws perm prin = none) : ws.all (whenHolds pns · req) = false := by
  induction ws generalizing perm prin with
  | nil => simp [baseRules] at h
  | cons c cs ih =>
    simp only [baseRules] at h
    cases hc : classify pns c.key with
    | none => simp [whenHolds, hc]
    | some g =>
      simp only [hc] at h
      split at h <;> simp [ih _ _ h]

theorem any_map_and {α : Type} (l : List α) (f : α → Bool) (b : Bool) :
    l.any (fun x => f x && b) = (l.any f && b) := by
  cases b
  · simp
  · simp

/-- `model.New` consolidates a rule into permissions and principals without changing what it
    matches: some `to` AND some `from` AND all `when`. -/
theorem newModel_sem (req : Request) (pns : Str) (r : Rule) (m : Model)
    (h : newModel pns r = some m) : modelSem req m = ruleMatches pns r req := by
  unfold newModel at h
  cases hb : baseRules pns r.whens [] [] with
  | none => simp [hb] at h
  | some bb =>
    obtain ⟨bperm, bprin⟩ := bb
    simp only [hb, Option.some.injEq] at h
    subst h
    have hbase := baseRules_sem req pns r.whens [] [] bperm bprin hb
    simp only [mrulesHold, List.all_nil, Bool.true_and] at hbase
    unfold modelSem ruleMatches
    simp only
    have hperm : (if r.tos.isEmpty then [bperm] else r.tos.map (operationRules · bperm)).any (mrulesHold req) =
        ((r.tos.isEmpty || r.tos.any (opMatches · req)) && mrulesHold req bperm) := by
      by_cases ht : r.tos = []
      · simp [ht]
      · have : r.tos.isEmpty = false := by simpa using ht
        simp only [this, Bool.false_eq_true, if_false, List.any_map, Function.comp_def,
          mrulesHold_operationRules, Bool.false_or]
        exact any_map_and _ _ _
    have hprin : (if r.froms.isEmpty then [bprin] else r.froms.map (sourceRules pns · bprin)).any (mrulesHold req) =
        ((r.froms.isEmpty || r.froms.any (srcMatches pns · req)) && mrulesHold req bprin) := by
      by_cases ht : r.froms = []
      · simp [ht]
      · have : r.froms.isEmpty = false := by simpa using ht
        simp only [this, Bool.false_eq_true, if_false, List.any_map, Function.comp_def,
          mrulesHold_sourceRules, Bool.false_or]
        exact any_map_and _ _ _
    rw [hperm, hprin, ← hbase]
    simp only [mrulesHold]
    generalize (r.tos.isEmpty || r.tos.any (opMatches · req)) = a
    generalize (r.froms.isEmpty || r.froms.any (srcMatches pns · req)) = b
    cases a <;> cases b <;> cases bperm.all (fieldSem req) <;> cases bprin.all (fieldSem req) <;> rfl

theorem newModel_none (req : Request) (pns : Str) (r : Rule) (h : newModel pns r = none) :
    ruleMatches pns r req = false := by
  unfold newModel at h
  cases hb : baseRules pns r.whens [] [] with
  | some bb => simp [hb] at h
  | none => simp [ruleMatches, baseRules_none req pns r.whens [] [] hb]




theorem collect_some_of_all (allow : Bool) (f : Str → Option Matcher) (vs : List Str)
    (h : allow = false ∨ ∀ v ∈ vs, (f v).isSome = true) : ∃ l, collect allow f vs = some l := by
  induction vs with
  | nil => exact ⟨[], rfl⟩
  | cons v vs ih =>
    obtain ⟨l, hl⟩ := ih (h.imp id (fun h w hw => h w (List.mem_cons_of_mem _ hw)))
    simp only [collect]
    cases hf : f v with
    | some p => exact ⟨p :: l, by simp [hl]⟩
    | none =>
      rcases h with rfl | h
      · exact ⟨l, by simp [hl]⟩
      · have := h v (by simp); simp [hf] at this

theorem collectExt_some (allow : Bool) (F : List Str → Option Matcher) (w : Matcher → Matcher)
    (vs : List Str) (h : allow = false ∨ vs.isEmpty = true ∨ (F vs).isSome = true) :
    ∃ l, collectExt allow F w vs = some l := by
  unfold collectExt
  by_cases hv : vs.isEmpty = true
  · simp [hv]
  · simp only [hv, Bool.false_eq_true, if_false]
    cases hF : F vs with
    | some p => exact ⟨_, rfl⟩
    | none =>
      rcases h with rfl | h | h
      · exact ⟨[], by simp⟩
      · exact absurd h hv
      · simp [hF] at h

theorem seq2_some_intro {a b : Option (List Matcher)} (ha : ∃ x, a = some x) (hb : ∃ y, b = some y) :
    ∃ l, seq2 a b = some l := by
  obtain ⟨x, rfl⟩ := ha
  obtain ⟨y, rfl⟩ := hb
  exact ⟨x ++ y, rfl⟩

theorem rulePermission_some (tcp allow : Bool) (r : MRule)
    (h : allow = false ∨ permTranslated tcp r = true) : ∃ cl, rulePermission tcp allow r = some cl := by
  unfold rulePermission
  unfold permTranslated at h
  cases hext : r.g.extended
  · simp only [hext, Bool.false_eq_true, if_false] at h ⊢
    apply seq2_some_intro
    · obtain ⟨l, hl⟩ := collect_some_of_all allow (genPermission r.g r.key · tcp) r.values
        (h.imp id (fun h v hv => by rw [List.all_eq_true] at h; exact h v (List.mem_append_left _ hv)))
      exact ⟨_, by rw [hl]; rfl⟩
    · obtain ⟨l, hl⟩ := collect_some_of_all allow (genPermission r.g r.key · tcp) r.notValues
        (h.imp id (fun h v hv => by rw [List.all_eq_true] at h; exact h v (List.mem_append_right _ hv)))
      exact ⟨_, by rw [hl]; rfl⟩
  · simp only [hext, if_true, Bool.and_eq_true, Bool.or_eq_true] at h ⊢
    apply seq2_some_intro
    · exact collectExt_some _ _ _ _ (h.imp id (fun h => h.1))
    · exact collectExt_some _ _ _ _ (h.imp id (fun h => h.2))

theorem rulePrincipal_some (tcp auth allow : Bool) (r : MRule)
    (h : allow = false ∨ prinTranslated tcp auth r = true) :
    ∃ cl, rulePrincipal tcp auth allow r = some cl := by
  unfold rulePrincipal
  unfold prinTranslated at h
  cases hext : r.g.extended
  · simp only [hext, Bool.false_eq_true, if_false] at h ⊢
    apply seq2_some_intro
    · obtain ⟨l, hl⟩ := collect_some_of_all allow (genPrincipal r.g r.key · tcp auth) r.values
        (h.imp id (fun h v hv => by rw [List.all_eq_true] at h; exact h v (List.mem_append_left _ hv)))
      exact ⟨_, by rw [hl]; rfl⟩
    · obtain ⟨l, hl⟩ := collect_some_of_all allow (genPrincipal r.g r.key · tcp auth) r.notValues
        (h.imp id (fun h v hv => by rw [List.all_eq_true] at h; exact h v (List.mem_append_right _ hv)))
      exact ⟨_, by rw [hl]; rfl⟩
  · simp only [hext, if_true, Bool.and_eq_true, Bool.or_eq_true] at h ⊢
    apply seq2_some_intro
    · exact collectExt_some _ _ _ _ (h.imp id (fun h => h.1))
    · exact collectExt_some _ _ _ _ (h.imp id (fun h => h.2))

theorem concatRules_some (f : MRule → Option (List Matcher)) (rl : List MRule)
    (h : ∀ r ∈ rl, ∃ cl, f r = some cl) : ∃ l, concatRules f rl = some l := by
  induction rl with
  | nil => exact ⟨[], rfl⟩
  | cons r rs ih =>
    simp only [concatRules]
    exact seq2_some_intro (h r (by simp)) (ih (fun r' hr' => h r' (List.mem_cons_of_mem _ hr')))

theorem mapAll_some {α β : Type} (f : α → Option β) (ls : List α)
    (h : ∀ x ∈ ls, ∃ y, f x = some y) : ∃ ms, mapAll f ls = some ms := by
  induction ls with
  | nil => exact ⟨[], rfl⟩
  | cons a as ih =>
    obtain ⟨b, hb⟩ := h a (by simp)
    obtain ⟨bs, hbs⟩ := ih (fun x hx => h x (List.mem_cons_of_mem _ hx))
    exact ⟨b :: bs, by simp [mapAll, hb, hbs]⟩

/-- `Generate` succeeds for DENY / AUDIT (errors are ignored) and whenever nothing is
    untranslatable. -/
theorem generate_some (m : Model) (tcp auth allow : Bool)
    (hne : m.permissions ≠ [] ∧ m.principals ≠ [])
    (h : allow = false ∨ modelTranslated tcp auth m = true) :
    ∃ e, generate m tcp auth allow = some e := by
  unfold generate
  obtain ⟨perms, hp⟩ := mapAll_some (generatePermission tcp allow) m.permissions (by
    intro rl hrl
    unfold generatePermission
    obtain ⟨l, hl⟩ := concatRules_some (rulePermission tcp allow) rl (by
      intro r hr
      apply rulePermission_some
      rcases h with h | h
      · exact Or.inl h
      · right
        simp only [modelTranslated, Bool.and_eq_true, List.all_eq_true] at h
        exact h.1 rl hrl r hr)
    exact ⟨_, by rw [hl]; rfl⟩)
  obtain ⟨prins, hq⟩ := mapAll_some (generatePrincipal tcp auth allow) m.principals (by
    intro rl hrl
    unfold generatePrincipal
    obtain ⟨l, hl⟩ := concatRules_some (rulePrincipal tcp auth allow) rl (by
      intro r hr
      apply rulePrincipal_some
      rcases h with h | h
      · exact Or.inl h
      · right
        simp only [modelTranslated, Bool.and_eq_true, List.all_eq_true] at h
        exact h.2 rl hrl r hr)
    exact ⟨_, by rw [hl]; rfl⟩)
  have h1 : perms.isEmpty = false := by
    have := mapAll_length _ _ _ hp
    cases perms with
    | nil => simp at this; exact absurd this.symm (by simpa using hne.1)
    | cons _ _ => rfl
  have h2 : prins.isEmpty = false := by
    have := mapAll_length _ _ _ hq
    cases prins with
    | nil => simp at this; exact absurd this.symm (by simpa using hne.2)
    | cons _ _ => rfl
  simp [hp, hq, h1, h2]

theorem newModel_nonempty (pns : Str) (r : Rule) (m : Model) (h : newModel pns r = some m) :
    m.permissions ≠ [] ∧ m.principals ≠ [] := by
  unfold newModel at h
  cases hb : baseRules pns r.whens [] [] with
  | none => simp [hb] at h
  | some bb =>
    obtain ⟨bperm, bprin⟩ := bb
    simp only [hb, Option.some.injEq] at h
    subst h
    constructor
    · by_cases ht : r.tos = []
      · simp [ht]
      · have : r.tos.isEmpty = false := by simpa using ht
        simp [this, ht]
    · by_cases ht : r.froms = []
      · simp [ht]
      · have : r.froms.isEmpty = false := by simpa using ht
        simp [this, ht]

/-! ## 4. One rule through the builder -/

/-- `MigrateTrustDomain` does not change what the rule's model matches, read with the statement's
    alias semantics (`expandRule`). Discharged by `migrationSem_of_noop` (migration changes
    nothing) or `migration_sem` (plain bundle and values) in Theorems.lean. -/
def MigrationSem (o : BuildOpts) (req : Request) (pns : Str) (r : Rule) : Prop :=
  ∀ m, newModel pns r = some m →
    modelSem req (migratedModel o pns r m) = ruleMatches pns (expandRule o.bundle r) req

def RuleExact (o : BuildOpts) (req : Request) (pns : Str) (r : Rule) : Prop :=
  ∀ m, newModel pns r = some m → ModelExact o.forTCP o.useAuth req (migratedModel o pns r m)

def RuleTranslated (o : BuildOpts) (pns : Str) (r : Rule) : Prop :=
  ∀ m, newModel pns r = some m → modelTranslated o.forTCP o.useAuth (migratedModel o pns r m) = true

theorem migrated_nonempty (o : BuildOpts) (pns : Str) (r : Rule) (m : Model)
    (h : m.permissions ≠ [] ∧ m.principals ≠ []) :
    (migratedModel o pns r m).permissions ≠ [] ∧ (migratedModel o pns r m).principals ≠ [] := by
  unfold migratedModel migrateTrustDomain
  refine ⟨h.1, ?_⟩
  simp only [ne_eq, List.map_eq_nil_iff]
  exact h.2

theorem expandCondition_key (b : List Str) (c : Condition) : (expandCondition b c).key = c.key := by
  unfold expandCondition
  split
  · rfl
  · split <;> rfl

theorem baseRules_none_expand (req : Request) (b : List Str) (pns : Str) (ws : List Condition)
    (perm prin : List MRule) (h : baseRules pns ws perm prin = none) :
    (ws.map (expandCondition b)).all (whenHolds pns · req) = false := by
  induction ws generalizing perm prin with
  | nil => simp [baseRules] at h
  | cons c cs ih =>
    simp only [baseRules] at h
    cases hc : classify pns c.key with
    | none => simp [whenHolds, expandCondition_key, hc]
    | some g =>
      simp only [hc] at h
      split at h <;> simp [ih _ _ h]

theorem newModel_none_expand (req : Request) (b : List Str) (pns : Str) (r : Rule)
    (h : newModel pns r = none) : ruleMatches pns (expandRule b r) req = false := by
  unfold newModel at h
  cases hb : baseRules pns r.whens [] [] with
  | some bb => simp [hb] at h
  | none => simp [ruleMatches, expandRule, baseRules_none_expand req b pns r.whens [] [] hb]

theorem compileRule_exact (o : BuildOpts) (allow : Bool) (req : Request) (pns : Str) (r : Rule)
    (e : EPolicy) (h : compileRule o allow pns r = some e) (hmig : MigrationSem o req pns r)
    (hex : RuleExact o req pns r) (htr : allow = true ∨ RuleTranslated o pns r) :
    evalPolicy e req = ruleMatches pns (expandRule o.bundle r) req := by
  unfold compileRule at h
  cases hm : newModel pns r with
  | none => simp [hm] at h
  | some m =>
    simp only [hm] at h
    rw [← hmig m hm]
    exact generate_exact (migratedModel o pns r m) _ _ allow req e h (hex m hm)
      (htr.imp id (fun t => t m hm))

/-- A rule is skipped by the DENY / AUDIT builder only when it has a condition on an unknown
    attribute - and then it matches nothing in the policy semantics either. -/
theorem compileRule_none (o : BuildOpts) (allow : Bool) (req : Request) (pns : Str) (r : Rule)
    (h : compileRule o allow pns r = none)
    (htr : allow = false ∨ RuleTranslated o pns r) :
    ruleMatches pns (expandRule o.bundle r) req = false := by
  unfold compileRule at h
  cases hm : newModel pns r with
  | none => exact newModel_none_expand req o.bundle pns r hm
  | some m =>
    simp only [hm] at h
    obtain ⟨e, he⟩ := generate_some (migratedModel o pns r m) o.forTCP o.useAuth allow
      (migrated_nonempty o pns r m (newModel_nonempty pns r m hm)) (htr.imp id (fun t => t m hm))
    have : generate (migrateTrustDomain o.bundle (nBasePrincipals pns r) m) o.forTCP o.useAuth allow = some e := he
    rw [this] at h; cases h

theorem compileRule_deny (o : BuildOpts) (req : Request) (pns : Str) (r : Rule)
    (e : EPolicy) (h : compileRule o false pns r = some e) (hmig : MigrationSem o req pns r)
    (hex : RuleExact o req pns r) (hs : ruleMatches pns (expandRule o.bundle r) req = true) :
    evalPolicy e req = true := by
  unfold compileRule at h
  cases hm : newModel pns r with
  | none => simp [hm] at h
  | some m =>
    simp only [hm] at h
    apply generate_deny (migratedModel o pns r m) _ _ req e h (hex m hm)
    rw [hmig m hm]; exact hs

/-! ## 5. The builder: one RBAC per action, map of named policies -/

/-- Does the Envoy policy generated for rule `r` (if any) match the request? -/
def ruleVerdict (o : BuildOpts) (allow : Bool) (pns : Str) (req : Request) (r : Rule) : Bool :=
  match compileRule o allow pns r with
  | some e => evalPolicy e req
  | none => false

def compiledPolicyMatch (o : BuildOpts) (allow : Bool) (req : Request) (p : Policy) : Bool :=
  p.rules.any (ruleVerdict o allow p.ns req)

theorem ruleEntries_any (o : BuildOpts) (allow : Bool) (p : Policy) (req : Request)
    (rules : List Rule) (i : Nat) :
    (ruleEntries o allow p rules i).any (fun e => evalPolicy e.2 req) =
      rules.any (ruleVerdict o allow p.ns req) := by
  induction rules generalizing i with
  | nil => rfl
  | cons r rs ih =>
    simp only [ruleEntries, List.any_cons, ruleVerdict]
    cases compileRule o allow p.ns r with
    | none => simp [ih (i + 1), ruleVerdict]
    | some e => simp [ih (i + 1), ruleVerdict]

theorem eval_matchNever (req : Request) : evalPolicy rbacPolicyMatchNever req = false := by
  simp [evalPolicy, rbacPolicyMatchNever, evalAny, evalM]

/-- A rule-less policy compiles to the policy that never matches; otherwise one entry per
    generated rule. -/
theorem policyEntries_any (o : BuildOpts) (allow : Bool) (p : Policy) (req : Request) :
    (policyEntries o allow p).any (fun e => evalPolicy e.2 req) = compiledPolicyMatch o allow req p := by
  unfold policyEntries compiledPolicyMatch
  by_cases h : p.rules = []
  · simp [h, eval_matchNever]
  · have : p.rules.isEmpty = false := by simpa using h
    simp only [this, Bool.false_eq_true, if_false]
    exact ruleEntries_any o allow p req p.rules 0

theorem upsert_of_not_mem (l : List (Str × EPolicy)) (k : Str) (v : EPolicy)
    (h : k ∉ l.map (·.1)) : upsert l k v = l ++ [(k, v)] := by
  induction l with
  | nil => rfl
  | cons a t ih =>
    obtain ⟨k', v'⟩ := a
    simp only [List.map_cons, List.mem_cons, not_or] at h
    simp only [upsert, List.cons_append]
    rw [if_neg (fun e => h.1 e.symm), ih h.2]

theorem upsertAll_eq (acc entries : List (Str × EPolicy))
    (h : ((acc ++ entries).map (·.1)).Nodup) : upsertAll acc entries = acc ++ entries := by
  induction entries generalizing acc with
  | nil => simp [upsertAll]
  | cons e es ih =>
    have hk : e.1 ∉ acc.map (·.1) := by
      simp only [List.map_append, List.map_cons] at h
      rw [List.nodup_append] at h
      intro hm
      exact h.2.2 _ hm _ (List.mem_cons_self) rfl
    simp only [upsertAll, List.foldl_cons]
    rw [upsert_of_not_mem acc e.1 e.2 hk]
    have := ih (acc ++ [(e.1, e.2)]) (by simpa using h)
    simpa [upsertAll] using this

theorem flatMap_filter_sublist {α β : Type} (q : α → Bool) (g : α → List β) (ps : List α) :
    ((ps.filter q).flatMap g).Sublist (ps.flatMap g) := by
  induction ps with
  | nil => simp
  | cons a t ih =>
    simp only [List.filter_cons, List.flatMap_cons]
    split
    · simp only [List.flatMap_cons]
      exact List.Sublist.append (List.Sublist.refl _) ih
    · exact List.Sublist.trans ih (List.sublist_append_right _ _)

/-- The names of the generated RBAC policies (`ns[..]-policy[..]-rule[i]`) are pairwise distinct -
    Kubernetes object names are unique per namespace and contain no brackets. -/
def EntriesDistinct (o : BuildOpts) (ps : List Policy) : Prop :=
  ∀ allow, ((ps.flatMap (policyEntries o allow)).map (·.1)).Nodup

theorem entries_any (o : BuildOpts) (allow : Bool) (req : Request) (ps : List Policy) (q : Policy → Bool)
    (hnd : EntriesDistinct o ps) :
    (upsertAll [] ((ps.filter q).flatMap (policyEntries o allow))).any (fun e => evalPolicy e.2 req) =
      (ps.filter q).any (compiledPolicyMatch o allow req) := by
  rw [upsertAll_eq]
  · simp only [List.nil_append, List.any_flatMap, policyEntries_any]
  · simp only [List.nil_append]
    exact List.Nodup.sublist ((flatMap_filter_sublist q _ ps).map _) (hnd allow)


theorem EntriesDistinct.filter {o : BuildOpts} {ps : List Policy} (h : EntriesDistinct o ps)
    (q : Policy → Bool) : EntriesDistinct o (ps.filter q) := by
  intro allow
  exact List.Nodup.sublist ((flatMap_filter_sublist q _ ps).map _) (h allow)

/-- The filter generated for one action decides as: AUDIT never rejects; DENY rejects iff some
    enforced (non dry-run) policy's generated rules match; ALLOW admits iff no policy is enforced or
    some enforced policy's generated rules match. -/
theorem buildAction_eval (o : BuildOpts) (action : RAction) (req : Request) (ps : List Policy)
    (hnd : EntriesDistinct o ps) :
    evalFilters (optFilter o.shapeTCP (buildAction o action ps)) req =
      match action with
      | .log => true
      | .deny => !((ps.filter (fun p => !p.dryRun)).any (compiledPolicyMatch o false req))
      | .allow => (ps.filter (fun p => !p.dryRun)).isEmpty ||
                  (ps.filter (fun p => !p.dryRun)).any (compiledPolicyMatch o true req) := by
  unfold buildAction
  by_cases hps : ps = []
  · subst hps
    cases action <;> simp [optFilter, evalFilters]
  · have hne : ps.isEmpty = false := by simpa using hps
    simp only [hne, Bool.false_eq_true, if_false, optFilter, evalFilters, List.all_cons,
      List.all_nil, Bool.and_true, evalFilter, toFilter]
    by_cases hany : ps.any (fun p => !p.dryRun) = true
    · have hf : (ps.filter (fun p => !p.dryRun)).isEmpty = false := by
        rw [List.any_eq_true] at hany
        obtain ⟨p, hp, hd⟩ := hany
        have : p ∈ ps.filter (fun p => !p.dryRun) := List.mem_filter.2 ⟨hp, hd⟩
        cases hl : ps.filter (fun p => !p.dryRun) with
        | nil => rw [hl] at this; simp at this
        | cons _ _ => rfl
      simp only [hany, if_true, evalRBAC]
      cases action
      · simp only [beq_self_eq_true, hf, Bool.false_or]
        exact entries_any o true req ps _ hnd
      · have : (RAction.deny == RAction.allow) = false := by decide
        simp only [this]
        rw [entries_any o false req ps _ hnd]
      · rfl
    · have hany' : ps.any (fun p => !p.dryRun) = false := by simpa using hany
      have hf : ps.filter (fun p => !p.dryRun) = [] := by
        rw [List.filter_eq_nil_iff]
        rw [List.any_eq_false] at hany'
        exact hany'
      simp only [hany', Bool.false_eq_true, if_false, hf]
      cases action <;> simp

theorem filter_action_dry (a : Action) (ps : List Policy) :
    (ps.filter (·.action == a)).filter (fun p => !p.dryRun) = enforced a ps := by
  simp [enforced, List.filter_filter, Bool.and_comm]

/-- What the generated filter chain decides, in terms of the per-policy verdicts. -/
theorem compileSelected_eval (o : BuildOpts) (req : Request) (ps : List Policy)
    (hnd : EntriesDistinct o ps) :
    evalFilters (compileSelected o ps) req =
      (!((enforced .deny ps).any (compiledPolicyMatch o false req)) &&
       ((enforced .allow ps).isEmpty || (enforced .allow ps).any (compiledPolicyMatch o true req))) := by
  unfold compileSelected
  have happ : ∀ a b : List Filter, evalFilters (a ++ b) req = (evalFilters a req && evalFilters b req) := by
    intro a b; simp [evalFilters]
  rw [happ, happ, buildAction_eval o .log req _ (hnd.filter _), buildAction_eval o .deny req _ (hnd.filter _),
    buildAction_eval o .allow req _ (hnd.filter _)]
  simp only [filter_action_dry, Bool.true_and]

end IstioModel.C08
