/-
C08 - clause 2 of the statement ("where a rule cannot be expressed ...") and the exact theorems.

`deny_rule_remaining`, `allow_rule_dropped`, the linking lemma `translated_link` (the generators
succeed iff the rule is expressible in the syntactic sense of Spec.lean) and `compile_all_exact`:
the generated filter chain decides every request exactly as `specDecisionOn` says, on HTTP and TCP
chains, with nothing assumed translatable.
-/
import IstioModel.C08.Theorems

namespace IstioModel.C08


/-! ## 16. Clause 2: rules that cannot be expressed -/

/-- Linking: a permission generator succeeds on a value iff attribute and value are expressible. -/
theorem genPermission_isSome (g : Gen) (key v : Str) (tcp : Bool) (hg : g.isPerm = true) (he : g.extended = false) :
    (genPermission g key v tcp).isSome = (attrExpressible tcp g key && valueParses g v) := by
  cases g <;> simp [Gen.isPerm, Gen.extended] at hg he <;> cases tcp <;>
    simp [genPermission, attrExpressible, valueParses, Gen.httpOnly, keyReadable]
  all_goals (split <;> simp)

theorem genPrincipal_isSome (g : Gen) (key v : Str) (tcp auth : Bool) (hg : g.isPerm = false)
    (he : g.extended = false) :
    (genPrincipal g key v tcp auth).isSome = (attrExpressible tcp g key && valueParses g v) := by
  cases g <;> simp [Gen.isPerm, Gen.extended] at hg he <;> cases tcp <;>
    simp [genPrincipal, attrExpressible, valueParses, Gen.httpOnly, keyReadable]
  all_goals (cases extractNameInBrackets (trimPrefix attrRequestHeader key) <;> simp)

theorem genExtPermission_isSome (g : Gen) (key : Str) (vs : List Str) (tcp : Bool) (hg : g.isPerm = true)
    (he : g.extended = true) :
    (genExtPermission g key vs tcp).isSome = attrExpressible tcp g key := by
  cases g <;> simp [Gen.isPerm, Gen.extended] at hg he
  simp only [genExtPermission, attrExpressible, Gen.httpOnly, keyReadable, Bool.and_false, Bool.not_false,
    Bool.true_and]
  cases envoyFilterKey key with
  | none => rfl
  | some fk => obtain ⟨f, k⟩ := fk; rfl

theorem genExtPrincipal_isSome (g : Gen) (key : Str) (vs : List Str) (tcp : Bool) (hg : g.isPerm = false)
    (he : g.extended = true) :
    (genExtPrincipal g key vs tcp).isSome = attrExpressible tcp g key := by
  cases g <;> simp [Gen.isPerm, Gen.extended] at hg he <;> cases tcp <;>
    simp [genExtPrincipal, attrExpressible, Gen.httpOnly, keyReadable]
  · split <;> simp
  · cases extractNameInNestedBrackets (trimPrefix attrRequestClaims key) <;> simp


/-- The remaining conditions, on one model rule. -/
def remMRule (tcp : Bool) (mr : MRule) : MRule :=
  { mr with values := remaining tcp mr.g mr.key mr.values,
            notValues := remaining tcp mr.g mr.key mr.notValues }

theorem collect_filter (f : Str → Option Matcher) (p : Str → Bool) (vs : List Str)
    (h : ∀ v, (f v).isSome = p v) : collect false f (vs.filter p) = collect false f vs := by
  induction vs with
  | nil => rfl
  | cons v t ih =>
    simp only [List.filter_cons]
    cases hp : p v with
    | true =>
      have : (f v).isSome = true := by rw [h v, hp]
      obtain ⟨m, hm⟩ := Option.isSome_iff_exists.1 this
      simp [collect, hm, ih]
    | false =>
      have : (f v).isSome = false := by rw [h v, hp]
      have hn : f v = none := by simpa using this
      simp [collect, hn, ih]

theorem collect_remaining (tcp : Bool) (g : Gen) (key : Str) (f : Str → Option Matcher) (vs : List Str)
    (h : ∀ v, (f v).isSome = (attrExpressible tcp g key && valueParses g v)) :
    collect false f (remaining tcp g key vs) = collect false f vs := by
  unfold remaining
  cases ha : attrExpressible tcp g key with
  | false =>
    simp only [Bool.false_eq_true, if_false]
    have hn : ∀ v, f v = none := by
      intro v
      have := h v
      rw [ha, Bool.false_and] at this
      simpa using this
    rw [collect_deny_nil f vs hn]; rfl
  | true =>
    simp only [if_true]
    exact collect_filter f (valueParses g) vs (fun v => by rw [h v, ha, Bool.true_and])

theorem valueParses_ext (g : Gen) (he : g.extended = true) (v : Str) : valueParses g v = true := by
  cases g <;> simp [Gen.extended] at he <;> rfl

theorem collectExt_remaining (tcp : Bool) (g : Gen) (key : Str) (F : List Str → Option Matcher)
    (w : Matcher → Matcher) (vs : List Str) (he : g.extended = true)
    (h : ∀ l, (F l).isSome = attrExpressible tcp g key) :
    collectExt false F w (remaining tcp g key vs) = collectExt false F w vs := by
  unfold remaining
  cases ha : attrExpressible tcp g key with
  | false =>
    simp only [Bool.false_eq_true, if_false]
    have hn : F vs = none := by
      have := h vs
      rw [ha] at this
      simpa using this
    unfold collectExt
    simp only [List.isEmpty_nil, if_true, hn, Bool.false_eq_true, if_false]
    split <;> rfl
  | true =>
    simp only [if_true]
    have : vs.filter (valueParses g) = vs := by
      rw [List.filter_eq_self]; intro v _; exact valueParses_ext g he v
    rw [this]

/-- DENY / AUDIT / CUSTOM: what is generated for a permission rule is what is generated for its
    remaining conditions. -/
theorem rulePermission_remaining (tcp : Bool) (mr : MRule) (hg : mr.g.isPerm = true) :
    rulePermission tcp false (remMRule tcp mr) = rulePermission tcp false mr := by
  unfold rulePermission remMRule
  cases he : mr.g.extended with
  | false =>
    simp only [Bool.false_eq_true, if_false]
    rw [collect_remaining tcp mr.g mr.key _ mr.values (fun v => genPermission_isSome mr.g mr.key v tcp hg he),
      collect_remaining tcp mr.g mr.key _ mr.notValues (fun v => genPermission_isSome mr.g mr.key v tcp hg he)]
  | true =>
    simp only [if_true]
    rw [collectExt_remaining tcp mr.g mr.key _ _ mr.values he (fun l => genExtPermission_isSome mr.g mr.key l tcp hg he),
      collectExt_remaining tcp mr.g mr.key _ _ mr.notValues he (fun l => genExtPermission_isSome mr.g mr.key l tcp hg he)]

theorem rulePrincipal_remaining (tcp auth : Bool) (mr : MRule) (hg : mr.g.isPerm = false) :
    rulePrincipal tcp auth false (remMRule tcp mr) = rulePrincipal tcp auth false mr := by
  unfold rulePrincipal remMRule
  cases he : mr.g.extended with
  | false =>
    simp only [Bool.false_eq_true, if_false]
    rw [collect_remaining tcp mr.g mr.key _ mr.values (fun v => genPrincipal_isSome mr.g mr.key v tcp auth hg he),
      collect_remaining tcp mr.g mr.key _ mr.notValues (fun v => genPrincipal_isSome mr.g mr.key v tcp auth hg he)]
  | true =>
    simp only [if_true]
    rw [collectExt_remaining tcp mr.g mr.key _ _ mr.values he (fun l => genExtPrincipal_isSome mr.g mr.key l tcp hg he),
      collectExt_remaining tcp mr.g mr.key _ _ mr.notValues he (fun l => genExtPrincipal_isSome mr.g mr.key l tcp hg he)]

theorem rulePermission_empty (tcp : Bool) (k : Str) (g : Gen) : rulePermission tcp false ⟨k, [], [], g⟩ = some [] := by
  unfold rulePermission
  split <;> rfl

theorem rulePrincipal_empty (tcp auth : Bool) (k : Str) (g : Gen) :
    rulePrincipal tcp auth false ⟨k, [], [], g⟩ = some [] := by
  unfold rulePrincipal
  split <;> rfl


theorem seq2_nil_right (x : Option (List Matcher)) : seq2 x (some []) = x := by
  cases x <;> simp [seq2]

theorem seq2_assoc (a b c : Option (List Matcher)) : seq2 (seq2 a b) c = seq2 a (seq2 b c) := by
  cases a <;> cases b <;> cases c <;> simp [seq2]

theorem concatRules_append (F : MRule → Option (List Matcher)) (a b : List MRule) :
    concatRules F (a ++ b) = seq2 (concatRules F a) (concatRules F b) := by
  induction a with
  | nil => simp [concatRules, seq2_nil_left]
  | cons x t ih => simp [concatRules, ih, seq2_assoc]

theorem concatRules_map (F : MRule → Option (List Matcher)) (T : MRule → MRule) (l : List MRule) :
    concatRules F (l.map T) = concatRules (F ∘ T) l := by
  induction l with
  | nil => rfl
  | cons x t ih => simp [concatRules, ih]

theorem cr_insertFront (F : MRule → Option (List Matcher)) (hF : ∀ k g, F ⟨k, [], [], g⟩ = some [])
    (g : Gen) (k : Str) (vs nvs : List Str) (l : List MRule) :
    concatRules F (insertFront g k vs nvs l) = seq2 (F ⟨k, vs, nvs, g⟩) (concatRules F l) := by
  unfold insertFront
  split
  · rename_i h
    simp only [Bool.and_eq_true, List.isEmpty_iff] at h
    rw [h.1, h.2, hF, seq2_nil_left]
  · rfl

theorem cr_appendLast (F : MRule → Option (List Matcher)) (hF : ∀ k g, F ⟨k, [], [], g⟩ = some [])
    (g : Gen) (k : Str) (vs nvs : List Str) (l : List MRule) :
    concatRules F (appendLast l g k vs nvs) = seq2 (concatRules F l) (F ⟨k, vs, nvs, g⟩) := by
  unfold appendLast
  split
  · rename_i h
    simp only [Bool.and_eq_true, List.isEmpty_iff] at h
    rw [h.1, h.2, hF, seq2_nil_right]
  · rw [concatRules_append]
    simp [concatRules, seq2_nil_right]

/-- A rule transformer that respects the remaining conditions of every rule it is applied to. -/
def RespectsRemaining (tcp : Bool) (F : MRule → Option (List Matcher)) (ok : MRule → Prop) : Prop :=
  (∀ k g, F ⟨k, [], [], g⟩ = some []) ∧
  ∀ mr, ok mr → F (remMRule tcp mr) = F mr

theorem operationRules_remaining (tcp : Bool) (F : MRule → Option (List Matcher))
    (hF : RespectsRemaining tcp F (fun mr => mr.g.isPerm = true)) (op : Operation) (B B' : List MRule)
    (hB : concatRules F B = concatRules F B') :
    concatRules F (operationRules (remainingOp tcp op) B') = concatRules F (operationRules op B) := by
  unfold operationRules remainingOp
  simp only [cr_insertFront F hF.1, hB]
  have h1 := hF.2 ⟨hostHeader, op.hosts, op.notHosts, .host⟩ rfl
  have h2 := hF.2 ⟨methodHeader, op.methods, op.notMethods, .method⟩ rfl
  have h3 := hF.2 ⟨pathMatcherKey, op.paths, op.notPaths, .path⟩ rfl
  have h4 := hF.2 ⟨attrDestPort, op.ports, op.notPorts, .destPort⟩ rfl
  simp only [remMRule] at h1 h2 h3 h4
  rw [h1, h2, h3, h4]

/-- A principal-side model rule whose key determines its generator as `New` does. -/
def PrinOK (mr : MRule) : Prop :=
  mr.g.isPerm = false ∧ (mr.key = attrSrcPrincipal → mr.g = .srcPrincipal) ∧
  (mr.key = attrSrcTrustDomain → mr.g = .srcTrustDomain)

theorem sourceRules_remaining (tcp : Bool) (pns : Str) (F : MRule → Option (List Matcher))
    (hF : RespectsRemaining tcp F PrinOK) (s : Source) :
    concatRules F (sourceRules pns (remainingSource tcp pns s) []) = concatRules F (sourceRules pns s []) := by
  unfold sourceRules remainingSource
  simp only [cr_insertFront F hF.1]
  have ok : ∀ (k : Str) (vs nvs : List Str) (g : Gen), g.isPerm = false →
      (k = attrSrcPrincipal → g = .srcPrincipal) → (k = attrSrcTrustDomain → g = .srcTrustDomain) →
      F ⟨k, remaining tcp g k vs, remaining tcp g k nvs, g⟩ = F ⟨k, vs, nvs, g⟩ := by
    intro k vs nvs g h1 h2 h3
    have := hF.2 ⟨k, vs, nvs, g⟩ ⟨h1, h2, h3⟩
    simpa only [remMRule] using this
  rw [ok attrSrcPrincipal _ _ .srcPrincipal rfl (fun _ => rfl) (fun h => absurd h (by decide)),
    ok attrRequestPrincipal _ _ .requestPrincipal rfl (fun h => absurd h (by decide)) (fun h => absurd h (by decide)),
    ok attrSrcServiceAccount _ _ (.srcServiceAccount pns) rfl (fun h => absurd h (by decide)) (fun h => absurd h (by decide)),
    ok attrSrcTrustDomain _ _ .srcTrustDomain rfl (fun h => absurd h (by decide)) (fun _ => rfl),
    ok attrSrcNamespace _ _ .srcNamespace rfl (fun h => absurd h (by decide)) (fun h => absurd h (by decide)),
    ok attrRemoteIP _ _ .remoteIP rfl (fun h => absurd h (by decide)) (fun h => absurd h (by decide)),
    ok attrSrcIP _ _ .srcIP rfl (fun h => absurd h (by decide)) (fun h => absurd h (by decide))]

theorem remainingCondition_key (tcp : Bool) (pns : Str) (c : Condition) :
    (remainingCondition tcp pns c).key = c.key := by
  unfold remainingCondition
  split <;> rfl

/-- The `when` loop on the remaining conditions generates the same clauses. -/
theorem baseRules_remaining (tcp : Bool) (pns : Str) (Fp Fq : MRule → Option (List Matcher))
    (hp : RespectsRemaining tcp Fp (fun mr => mr.g.isPerm = true))
    (hq : RespectsRemaining tcp Fq PrinOK)
    (ws : List Condition) (P Q P' Q' : List MRule)
    (hP : concatRules Fp P = concatRules Fp P') (hQ : concatRules Fq Q = concatRules Fq Q') :
    match baseRules pns ws P Q, baseRules pns (ws.map (remainingCondition tcp pns)) P' Q' with
    | some (bp, bq), some (bp', bq') => concatRules Fp bp = concatRules Fp bp' ∧ concatRules Fq bq = concatRules Fq bq'
    | none, none => True
    | _, _ => False := by
  induction ws generalizing P Q P' Q' with
  | nil => simp only [baseRules, List.map_nil]; exact ⟨hP, hQ⟩
  | cons c cs ih =>
    simp only [baseRules, List.map_cons, remainingCondition_key]
    cases hc : classify pns c.key with
    | none => trivial
    | some g =>
      simp only
      have hrem : remainingCondition tcp pns c =
          { c with values := remaining tcp g c.key c.values, notValues := remaining tcp g c.key c.notValues } := by
        unfold remainingCondition; rw [hc]
      rw [hrem]
      cases hg : g.isPerm with
      | true =>
        simp only [if_true]
        apply ih
        · rw [cr_appendLast Fp hp.1, cr_appendLast Fp hp.1, hP]
          have := hp.2 ⟨c.key, c.values, c.notValues, g⟩ hg
          simp only [remMRule] at this
          rw [this]
        · exact hQ
      | false =>
        simp only [Bool.false_eq_true, if_false]
        apply ih
        · exact hP
        · rw [cr_appendLast Fq hq.1, cr_appendLast Fq hq.1, hQ]
          have := hq.2 ⟨c.key, c.values, c.notValues, g⟩ ⟨hg,
            fun hk => by
              have h' := hc; rw [show c.key = attrSrcPrincipal from hk, classify_principal] at h'
              exact (Option.some.inj h').symm,
            fun hk => by
              have h' := hc; rw [show c.key = attrSrcTrustDomain from hk, classify_td] at h'
              exact (Option.some.inj h').symm⟩
          simp only [remMRule] at this
          rw [this]


theorem remaining_id (tcp : Bool) (g : Gen) (key : Str) (vs : List Str)
    (h1 : attrExpressible tcp g key = true) (h2 : ∀ v, valueParses g v = true) : remaining tcp g key vs = vs := by
  unfold remaining
  rw [if_pos h1, List.filter_eq_self]
  intro v _; exact h2 v

theorem migrateRule_other (b : List Str) (mr : MRule) (h1 : mr.key ≠ attrSrcPrincipal)
    (h2 : mr.key ≠ attrSrcTrustDomain) : migrateRule b mr = mr := by
  simp [migrateRule, h1, h2]

theorem iterate_id {α : Type} (f : α → α) (a : α) (h : f a = a) (n : Nat) : iterate f n a = a := by
  induction n with
  | zero => rfl
  | succ n ih => simp [iterate, h, ih]

theorem migrateRule_key (b : List Str) (mr : MRule) : (migrateRule b mr).key = mr.key ∧ (migrateRule b mr).g = mr.g := by
  unfold migrateRule
  split
  · exact ⟨rfl, rfl⟩
  · split <;> exact ⟨rfl, rfl⟩

theorem migrateRule_empty (b : List Str) (k : Str) (g : Gen) : migrateRule b ⟨k, [], [], g⟩ = ⟨k, [], [], g⟩ := by
  unfold migrateRule
  split
  · simp
  · split <;> simp

/-- `rulePrincipal` after any number of trust-domain rewritings respects the remaining conditions. -/
theorem respects_prin (tcp auth : Bool) (b : List Str) (n : Nat) :
    RespectsRemaining tcp (rulePrincipal tcp auth false ∘ iterate (migrateRule b) n) PrinOK := by
  constructor
  · intro k g
    simp only [Function.comp]
    rw [iterate_id _ _ (migrateRule_empty b k g) n]
    exact rulePrincipal_empty tcp auth k g
  · intro mr ⟨hperm, hp, ht⟩
    simp only [Function.comp]
    by_cases h1 : mr.key = attrSrcPrincipal
    · have hg := hp h1
      have : remMRule tcp mr = mr := by
        unfold remMRule
        rw [hg, remaining_id tcp .srcPrincipal mr.key mr.values (by simp [attrExpressible, Gen.httpOnly, keyReadable]) (fun _ => rfl),
          remaining_id tcp .srcPrincipal mr.key mr.notValues (by simp [attrExpressible, Gen.httpOnly, keyReadable]) (fun _ => rfl)]
        cases mr; simp_all
      rw [this]
    · by_cases h2 : mr.key = attrSrcTrustDomain
      · have hg := ht h2
        have : remMRule tcp mr = mr := by
          unfold remMRule
          rw [hg, remaining_id tcp .srcTrustDomain mr.key mr.values (by simp [attrExpressible, Gen.httpOnly, keyReadable]) (fun _ => rfl),
            remaining_id tcp .srcTrustDomain mr.key mr.notValues (by simp [attrExpressible, Gen.httpOnly, keyReadable]) (fun _ => rfl)]
          cases mr; simp_all
        rw [this]
      · rw [iterate_id _ _ (migrateRule_other b mr h1 h2) n,
          iterate_id _ _ (migrateRule_other b (remMRule tcp mr) h1 h2) n]
        exact rulePrincipal_remaining tcp auth mr hperm

theorem respects_perm (tcp : Bool) :
    RespectsRemaining tcp (rulePermission tcp false) (fun mr => mr.g.isPerm = true) :=
  ⟨fun k g => rulePermission_empty tcp k g, fun mr h => rulePermission_remaining tcp mr h⟩


theorem iterate_one {α : Type} (f : α → α) (a : α) : iterate f 1 a = f a := rfl

/-- The principal generated for one (migrated) `from` entry, in terms of its own and base rules. -/
theorem generatePrincipal_migrated (tcp auth : Bool) (b : List Str) (n : Nat) (own base : List MRule) :
    generatePrincipal tcp auth false
      (((own ++ base).take ((own ++ base).length - base.length)).map (migrateRule b) ++
       ((own ++ base).drop ((own ++ base).length - base.length)).map (iterate (migrateRule b) n)) =
    (seq2 (concatRules (rulePrincipal tcp auth false ∘ iterate (migrateRule b) 1) own)
          (concatRules (rulePrincipal tcp auth false ∘ iterate (migrateRule b) n) base)).map andOrAny := by
  unfold generatePrincipal
  simp only [List.length_append, Nat.add_sub_cancel, List.take_left', List.drop_left']
  rw [concatRules_append, concatRules_map, concatRules_map]
  rfl

/-- **DENY / AUDIT / CUSTOM: enforced on the remaining conditions - every field.** On any chain the
    Envoy policy generated for a rule of a non-ALLOW policy is exactly the one generated for the
    rule reduced to the conditions that can be expressed (HTTP-only `from` / `to` / `when` fields on
    TCP, unreadable map keys, unparsable values removed). -/
theorem deny_rule_remaining (o : BuildOpts) (pns : Str) (r : Rule) :
    compileRule o false pns r = compileRule o false pns (remainingRule o.forTCP pns r) := by
  have hbase := baseRules_remaining o.forTCP pns (rulePermission o.forTCP false)
    (rulePrincipal o.forTCP o.useAuth false ∘ iterate (migrateRule o.bundle)
      (if r.froms.isEmpty then 1 else r.froms.length))
    (respects_perm o.forTCP) (respects_prin o.forTCP o.useAuth o.bundle _) r.whens [] [] [] [] rfl rfl
  unfold compileRule newModel nBasePrincipals remainingRule
  simp only
  cases hb : baseRules pns r.whens [] [] with
  | none =>
    rw [hb] at hbase
    cases hb' : baseRules pns (r.whens.map (remainingCondition o.forTCP pns)) [] [] with
    | none => rfl
    | some x => rw [hb'] at hbase; exact absurd hbase (by simp)
  | some bb =>
    obtain ⟨bp, bq⟩ := bb
    rw [hb] at hbase
    cases hb' : baseRules pns (r.whens.map (remainingCondition o.forTCP pns)) [] [] with
    | none => rw [hb'] at hbase; exact absurd hbase (by simp)
    | some bb' =>
      obtain ⟨bp', bq'⟩ := bb'
      rw [hb'] at hbase
      obtain ⟨hbp, hbq⟩ := hbase
      simp only [List.isEmpty_map]
      unfold generate migrateTrustDomain
      simp only
      -- permissions
      have hperms : mapAll (generatePermission o.forTCP false)
            (if r.tos.isEmpty then [bp] else r.tos.map (operationRules · bp)) =
          mapAll (generatePermission o.forTCP false)
            (if r.tos.isEmpty then [bp'] else (r.tos.map (remainingOp o.forTCP)).map (operationRules · bp')) := by
        by_cases ht : r.tos.isEmpty = true
        · simp only [ht, if_true, mapAll, generatePermission, hbp]
        · have ht' : r.tos.isEmpty = false := by simpa using ht
          simp only [ht', Bool.false_eq_true, if_false, List.map_map]
          apply mapAll_map_congr
          intro op _
          simp only [Function.comp, generatePermission]
          rw [operationRules_remaining o.forTCP _ (respects_perm o.forTCP) op bp bp' hbp]
      -- principals
      have hprins : mapAll (generatePrincipal o.forTCP o.useAuth false)
            ((if r.froms.isEmpty then [bq] else r.froms.map (sourceRules pns · bq)).map fun rl =>
              (rl.take (rl.length - bq.length)).map (migrateRule o.bundle) ++
              (rl.drop (rl.length - bq.length)).map (iterate (migrateRule o.bundle)
                (if r.froms.isEmpty then [bq] else r.froms.map (sourceRules pns · bq)).length)) =
          mapAll (generatePrincipal o.forTCP o.useAuth false)
            ((if r.froms.isEmpty then [bq'] else (r.froms.map (remainingSource o.forTCP pns)).map (sourceRules pns · bq')).map fun rl =>
              (rl.take (rl.length - bq'.length)).map (migrateRule o.bundle) ++
              (rl.drop (rl.length - bq'.length)).map (iterate (migrateRule o.bundle)
                (if r.froms.isEmpty then [bq'] else (r.froms.map (remainingSource o.forTCP pns)).map (sourceRules pns · bq')).length)) := by
        by_cases hf : r.froms.isEmpty = true
        · simp only [hf, if_true] at hbq ⊢
          simp only [List.map_cons, List.map_nil, List.length_cons, List.length_nil, Nat.zero_add, mapAll]
          have e1 := generatePrincipal_migrated o.forTCP o.useAuth o.bundle 1 [] bq
          have e2 := generatePrincipal_migrated o.forTCP o.useAuth o.bundle 1 [] bq'
          simp only [List.nil_append] at e1 e2
          rw [e1, e2, hbq]
        · have hf' : r.froms.isEmpty = false := by simpa using hf
          simp only [hf', Bool.false_eq_true, if_false] at hbq ⊢
          simp only [List.map_map, List.length_map]
          apply mapAll_map_congr
          intro s _
          simp only [Function.comp]
          rw [sourceRules_append pns s bq, sourceRules_append pns (remainingSource o.forTCP pns s) bq',
            generatePrincipal_migrated, generatePrincipal_migrated, hbq,
            sourceRules_remaining o.forTCP pns _ (respects_prin o.forTCP o.useAuth o.bundle 1) s]
      rw [hperms, hprins]


theorem rulePermission_allow_translated (tcp : Bool) (r : MRule) (cl : List Matcher)
    (h : rulePermission tcp true r = some cl) : permTranslated tcp r = true := by
  unfold rulePermission at h
  unfold permTranslated
  cases hext : r.g.extended
  · simp only [hext, Bool.false_eq_true, if_false] at h ⊢
    obtain ⟨x, y, hx, hy, -⟩ := seq2_some h
    cases h1 : collect true (genPermission r.g r.key · tcp) r.values with
    | none => simp [h1] at hx
    | some l1 =>
      cases h2 : collect true (genPermission r.g r.key · tcp) r.notValues with
      | none => simp [h2] at hy
      | some l2 =>
        rw [List.all_eq_true]
        intro v hv
        rcases List.mem_append.1 hv with hv | hv
        · exact collect_allow_all _ _ l1 h1 v hv
        · exact collect_allow_all _ _ l2 h2 v hv
  · simp only [hext, if_true] at h ⊢
    obtain ⟨x, y, hx, hy, -⟩ := seq2_some h
    simp only [Bool.and_eq_true, Bool.or_eq_true]
    constructor
    · by_cases hv : r.values = []
      · left; simp [hv]
      · right; exact collectExt_allow_tr _ _ _ _ hx hv
    · by_cases hv : r.notValues = []
      · left; simp [hv]
      · right; exact collectExt_allow_tr _ _ _ _ hy hv

theorem rulePrincipal_allow_translated (tcp auth : Bool) (r : MRule) (cl : List Matcher)
    (h : rulePrincipal tcp auth true r = some cl) : prinTranslated tcp auth r = true := by
  unfold rulePrincipal at h
  unfold prinTranslated
  cases hext : r.g.extended
  · simp only [hext, Bool.false_eq_true, if_false] at h ⊢
    obtain ⟨x, y, hx, hy, -⟩ := seq2_some h
    cases h1 : collect true (genPrincipal r.g r.key · tcp auth) r.values with
    | none => simp [h1] at hx
    | some l1 =>
      cases h2 : collect true (genPrincipal r.g r.key · tcp auth) r.notValues with
      | none => simp [h2] at hy
      | some l2 =>
        rw [List.all_eq_true]
        intro v hv
        rcases List.mem_append.1 hv with hv | hv
        · exact collect_allow_all _ _ l1 h1 v hv
        · exact collect_allow_all _ _ l2 h2 v hv
  · simp only [hext, if_true] at h ⊢
    obtain ⟨x, y, hx, hy, -⟩ := seq2_some h
    simp only [Bool.and_eq_true, Bool.or_eq_true]
    constructor
    · by_cases hv : r.values = []
      · left; simp [hv]
      · right; exact collectExt_allow_tr _ _ _ _ hx hv
    · by_cases hv : r.notValues = []
      · left; simp [hv]
      · right; exact collectExt_allow_tr _ _ _ _ hy hv

theorem concatRules_some_all (F : MRule → Option (List Matcher)) (rl : List MRule) (l : List Matcher)
    (h : concatRules F rl = some l) : ∀ r ∈ rl, ∃ cl, F r = some cl := by
  induction rl generalizing l with
  | nil => simp
  | cons a t ih =>
    simp only [concatRules] at h
    obtain ⟨x, y, hx, hy, -⟩ := seq2_some h
    intro r hr
    simp only [List.mem_cons] at hr
    rcases hr with rfl | hr
    · exact ⟨x, hx⟩
    · exact ih y hy r hr

theorem mapAll_some_all {α β : Type} (f : α → Option β) (ls : List α) (ms : List β)
    (h : mapAll f ls = some ms) : ∀ x ∈ ls, ∃ y, f x = some y := by
  induction ls generalizing ms with
  | nil => simp
  | cons a t ih =>
    simp only [mapAll] at h
    cases h1 : f a with
    | none => simp [h1] at h
    | some b =>
      cases h2 : mapAll f t with
      | none => simp [h1, h2] at h
      | some bs =>
        intro x hx
        simp only [List.mem_cons] at hx
        rcases hx with rfl | hx
        · exact ⟨b, h1⟩
        · exact ih bs h2 x hx

/-- ALLOW: a generated policy means that nothing of the model was untranslatable. -/
theorem generate_allow_translated (m : Model) (tcp auth : Bool) (e : EPolicy)
    (h : generate m tcp auth true = some e) : modelTranslated tcp auth m = true := by
  unfold generate at h
  cases h1 : mapAll (generatePermission tcp true) m.permissions with
  | none => simp [h1] at h
  | some perms =>
    cases h2 : mapAll (generatePrincipal tcp auth true) m.principals with
    | none => simp [h1, h2] at h
    | some prins =>
      unfold modelTranslated
      simp only [Bool.and_eq_true, List.all_eq_true]
      constructor
      · intro rl hrl r hr
        obtain ⟨mm, hmm⟩ := mapAll_some_all _ _ _ h1 rl hrl
        unfold generatePermission at hmm
        cases hc : concatRules (rulePermission tcp true) rl with
        | none => simp [hc] at hmm
        | some l =>
          obtain ⟨cl, hcl⟩ := concatRules_some_all _ _ _ hc r hr
          exact rulePermission_allow_translated tcp r cl hcl
      · intro rl hrl r hr
        obtain ⟨mm, hmm⟩ := mapAll_some_all _ _ _ h2 rl hrl
        unfold generatePrincipal at hmm
        cases hc : concatRules (rulePrincipal tcp auth true) rl with
        | none => simp [hc] at hmm
        | some l =>
          obtain ⟨cl, hcl⟩ := concatRules_some_all _ _ _ hc r hr
          exact rulePrincipal_allow_translated tcp auth r cl hcl

/-! ### Linking: "the generators succeed" = the syntactic `ruleExpressible` -/

theorem all_const_false {α : Type} (l : List α) : l.all (fun _ => false) = l.isEmpty := by
  cases l <;> rfl

theorem permTranslated_link (tcp : Bool) (k : Str) (vs nvs : List Str) (g : Gen) (hg : g.isPerm = true) :
    permTranslated tcp ⟨k, vs, nvs, g⟩ = fieldExpressible tcp g k vs nvs := by
  unfold permTranslated fieldExpressible
  cases he : g.extended with
  | false =>
    simp only [Bool.false_eq_true, if_false]
    have : (fun v => (genPermission g k v tcp).isSome) = fun v => attrExpressible tcp g k && valueParses g v := by
      funext v; exact genPermission_isSome g k v tcp hg he
    rw [this]
    cases ha : attrExpressible tcp g k with
    | false =>
      simp only [Bool.false_and, all_const_false, Bool.or_false]
      cases vs <;> cases nvs <;> rfl
    | true =>
      simp only [Bool.true_and, List.all_append]
      cases vs <;> cases nvs <;> simp
  | true =>
    simp only [if_true, genExtPermission_isSome g k _ tcp hg he]
    have hp : ∀ l : List Str, l.all (valueParses g) = true := by
      intro l; rw [List.all_eq_true]; intro v _; exact valueParses_ext g he v
    rw [hp vs, hp nvs]
    cases attrExpressible tcp g k <;> cases vs.isEmpty <;> cases nvs.isEmpty <;> rfl

theorem prinTranslated_link (tcp auth : Bool) (k : Str) (vs nvs : List Str) (g : Gen) (hg : g.isPerm = false) :
    prinTranslated tcp auth ⟨k, vs, nvs, g⟩ = fieldExpressible tcp g k vs nvs := by
  unfold prinTranslated fieldExpressible
  cases he : g.extended with
  | false =>
    simp only [Bool.false_eq_true, if_false]
    have : (fun v => (genPrincipal g k v tcp auth).isSome) = fun v => attrExpressible tcp g k && valueParses g v := by
      funext v; exact genPrincipal_isSome g k v tcp auth hg he
    rw [this]
    cases ha : attrExpressible tcp g k with
    | false =>
      simp only [Bool.false_and, all_const_false, Bool.or_false]
      cases vs <;> cases nvs <;> rfl
    | true =>
      simp only [Bool.true_and, List.all_append]
      cases vs <;> cases nvs <;> simp
  | true =>
    simp only [if_true, genExtPrincipal_isSome g k _ tcp hg he]
    have hp : ∀ l : List Str, l.all (valueParses g) = true := by
      intro l; rw [List.all_eq_true]; intro v _; exact valueParses_ext g he v
    rw [hp vs, hp nvs]
    cases attrExpressible tcp g k <;> cases vs.isEmpty <;> cases nvs.isEmpty <;> rfl


theorem all_insertFront (P : MRule → Bool) (hP : ∀ k g, P ⟨k, [], [], g⟩ = true)
    (g : Gen) (k : Str) (vs nvs : List Str) (l : List MRule) :
    (insertFront g k vs nvs l).all P = (P ⟨k, vs, nvs, g⟩ && l.all P) := by
  unfold insertFront
  split
  · rename_i h
    simp only [Bool.and_eq_true, List.isEmpty_iff] at h
    rw [h.1, h.2, hP, Bool.true_and]
  · rfl

theorem all_appendLast (P : MRule → Bool) (hP : ∀ k g, P ⟨k, [], [], g⟩ = true)
    (g : Gen) (k : Str) (vs nvs : List Str) (l : List MRule) :
    (appendLast l g k vs nvs).all P = (l.all P && P ⟨k, vs, nvs, g⟩) := by
  unfold appendLast
  split
  · rename_i h
    simp only [Bool.and_eq_true, List.isEmpty_iff] at h
    rw [h.1, h.2, hP, Bool.and_true]
  · simp

theorem permTranslated_empty (tcp : Bool) (k : Str) (g : Gen) : permTranslated tcp ⟨k, [], [], g⟩ = true := by
  unfold permTranslated; split <;> simp

theorem prinTranslated_empty (tcp auth : Bool) (k : Str) (g : Gen) : prinTranslated tcp auth ⟨k, [], [], g⟩ = true := by
  unfold prinTranslated; split <;> simp

theorem iterate_migrate_key (b : List Str) (n : Nat) (mr : MRule) :
    (iterate (migrateRule b) n mr).key = mr.key ∧ (iterate (migrateRule b) n mr).g = mr.g := by
  induction n generalizing mr with
  | zero => exact ⟨rfl, rfl⟩
  | succ n ih =>
    have h1 := ih (migrateRule b mr)
    have h2 := migrateRule_key b mr
    exact ⟨h1.1.trans h2.1, h1.2.trans h2.2⟩

theorem fieldExpressible_always (tcp : Bool) (g : Gen) (k : Str) (vs nvs : List Str)
    (h1 : attrExpressible tcp g k = true) (h2 : ∀ v, valueParses g v = true) :
    fieldExpressible tcp g k vs nvs = true := by
  unfold fieldExpressible
  have hp : ∀ l : List Str, l.all (valueParses g) = true := by
    intro l; rw [List.all_eq_true]; intro v _; exact h2 v
  simp [h1, hp]

/-- Linking for a principal-side rule after any number of trust-domain rewritings. -/
theorem prinTranslated_iter_link (tcp auth : Bool) (b : List Str) (n : Nat) (mr : MRule) (hok : PrinOK mr) :
    prinTranslated tcp auth (iterate (migrateRule b) n mr) =
      fieldExpressible tcp mr.g mr.key mr.values mr.notValues := by
  obtain ⟨hperm, hp, ht⟩ := hok
  obtain ⟨hk, hg⟩ := iterate_migrate_key b n mr
  have hlink : prinTranslated tcp auth (iterate (migrateRule b) n mr) =
      fieldExpressible tcp mr.g mr.key (iterate (migrateRule b) n mr).values
        (iterate (migrateRule b) n mr).notValues := by
    have := prinTranslated_link tcp auth (iterate (migrateRule b) n mr).key
      (iterate (migrateRule b) n mr).values (iterate (migrateRule b) n mr).notValues
      (iterate (migrateRule b) n mr).g (by rw [hg]; exact hperm)
    rw [hk, hg] at this
    rw [← this]
    congr 1
    cases hx : iterate (migrateRule b) n mr with
    | mk k' v' nv' g' =>
      rw [hx] at hk hg
      simp only at hk hg
      subst hk; subst hg; rfl
  by_cases h1 : mr.key = attrSrcPrincipal
  · rw [hlink, hp h1,
      fieldExpressible_always tcp .srcPrincipal mr.key _ _ (by simp [attrExpressible, Gen.httpOnly, keyReadable]) (fun _ => rfl),
      fieldExpressible_always tcp .srcPrincipal mr.key _ _ (by simp [attrExpressible, Gen.httpOnly, keyReadable]) (fun _ => rfl)]
  · by_cases h2 : mr.key = attrSrcTrustDomain
    · rw [hlink, ht h2,
        fieldExpressible_always tcp .srcTrustDomain mr.key _ _ (by simp [attrExpressible, Gen.httpOnly, keyReadable]) (fun _ => rfl),
        fieldExpressible_always tcp .srcTrustDomain mr.key _ _ (by simp [attrExpressible, Gen.httpOnly, keyReadable]) (fun _ => rfl)]
    · rw [iterate_id _ _ (migrateRule_other b mr h1 h2) n]
      exact prinTranslated_link tcp auth mr.key mr.values mr.notValues mr.g hperm

theorem operationRules_translated (tcp : Bool) (op : Operation) (B : List MRule) :
    (operationRules op B).all (permTranslated tcp) = (opExpressible tcp op && B.all (permTranslated tcp)) := by
  unfold operationRules opExpressible
  simp only [all_insertFront _ (permTranslated_empty tcp), Bool.and_assoc]
  rw [permTranslated_link tcp hostHeader _ _ .host rfl, permTranslated_link tcp methodHeader _ _ .method rfl,
    permTranslated_link tcp pathMatcherKey _ _ .path rfl, permTranslated_link tcp attrDestPort _ _ .destPort rfl]

theorem sourceRules_translated (tcp auth : Bool) (b : List Str) (pns : Str) (s : Source) :
    ((sourceRules pns s []).map (iterate (migrateRule b) 1)).all (prinTranslated tcp auth) =
      srcExpressible tcp pns s := by
  rw [List.all_map]
  unfold sourceRules srcExpressible
  have hP : ∀ k g, (prinTranslated tcp auth ∘ iterate (migrateRule b) 1) ⟨k, [], [], g⟩ = true := by
    intro k g
    simp only [Function.comp, iterate_one, migrateRule_empty, prinTranslated_empty]
  have ok : ∀ (k : Str) (vs nvs : List Str) (g : Gen), g.isPerm = false →
      (k = attrSrcPrincipal → g = .srcPrincipal) → (k = attrSrcTrustDomain → g = .srcTrustDomain) →
      (prinTranslated tcp auth ∘ iterate (migrateRule b) 1) ⟨k, vs, nvs, g⟩ = fieldExpressible tcp g k vs nvs := by
    intro k vs nvs g h1 h2 h3
    exact prinTranslated_iter_link tcp auth b 1 ⟨k, vs, nvs, g⟩ ⟨h1, h2, h3⟩
  simp only [all_insertFront _ hP, List.all_nil, Bool.and_true]
  rw [ok attrSrcPrincipal _ _ .srcPrincipal rfl (fun _ => rfl) (fun h => absurd h (by decide)),
    ok attrRequestPrincipal _ _ .requestPrincipal rfl (fun h => absurd h (by decide)) (fun h => absurd h (by decide)),
    ok attrSrcServiceAccount _ _ (.srcServiceAccount pns) rfl (fun h => absurd h (by decide)) (fun h => absurd h (by decide)),
    ok attrSrcTrustDomain _ _ .srcTrustDomain rfl (fun h => absurd h (by decide)) (fun _ => rfl),
    ok attrSrcNamespace _ _ .srcNamespace rfl (fun h => absurd h (by decide)) (fun h => absurd h (by decide)),
    ok attrRemoteIP _ _ .remoteIP rfl (fun h => absurd h (by decide)) (fun h => absurd h (by decide)),
    ok attrSrcIP _ _ .srcIP rfl (fun h => absurd h (by decide)) (fun h => absurd h (by decide))]
  simp only [Bool.and_assoc]

theorem baseRules_translated (tcp auth : Bool) (b : List Str) (n : Nat) (pns : Str) (ws : List Condition)
    (P Q bp bq : List MRule) (h : baseRules pns ws P Q = some (bp, bq)) :
    (bp.all (permTranslated tcp) && bq.all (prinTranslated tcp auth ∘ iterate (migrateRule b) n)) =
      (P.all (permTranslated tcp) && Q.all (prinTranslated tcp auth ∘ iterate (migrateRule b) n) &&
        ws.all (whenExpressible tcp pns)) := by
  have hQe : ∀ k g, (prinTranslated tcp auth ∘ iterate (migrateRule b) n) ⟨k, [], [], g⟩ = true := by
    intro k g
    simp only [Function.comp]
    rw [iterate_id _ _ (migrateRule_empty b k g) n]
    exact prinTranslated_empty tcp auth k g
  induction ws generalizing P Q with
  | nil =>
    simp only [baseRules, Option.some.injEq, Prod.mk.injEq] at h
    obtain ⟨rfl, rfl⟩ := h
    simp
  | cons c cs ih =>
    simp only [baseRules] at h
    cases hc : classify pns c.key with
    | none => simp [hc] at h
    | some g =>
      simp only [hc] at h
      cases hg : g.isPerm with
      | true =>
        simp only [hg, if_true] at h
        rw [ih _ _ h, all_appendLast _ (permTranslated_empty tcp), permTranslated_link tcp _ _ _ _ hg]
        simp only [List.all_cons, whenExpressible, hc]
        generalize P.all (permTranslated tcp) = x
        generalize Q.all (prinTranslated tcp auth ∘ iterate (migrateRule b) n) = y
        cases x <;> cases y <;> cases fieldExpressible tcp g c.key c.values c.notValues <;> simp
      | false =>
        simp only [hg, Bool.false_eq_true, if_false] at h
        rw [ih _ _ h, all_appendLast _ hQe]
        have hl : (prinTranslated tcp auth ∘ iterate (migrateRule b) n) ⟨c.key, c.values, c.notValues, g⟩ =
            fieldExpressible tcp g c.key c.values c.notValues :=
          prinTranslated_iter_link tcp auth b n ⟨c.key, c.values, c.notValues, g⟩ ⟨hg,
            fun hk => by
              have h' := hc; rw [show c.key = attrSrcPrincipal from hk, classify_principal] at h'
              exact (Option.some.inj h').symm,
            fun hk => by
              have h' := hc; rw [show c.key = attrSrcTrustDomain from hk, classify_td] at h'
              exact (Option.some.inj h').symm⟩
        rw [hl]
        simp only [List.all_cons, whenExpressible, hc]
        generalize P.all (permTranslated tcp) = x
        generalize Q.all (prinTranslated tcp auth ∘ iterate (migrateRule b) n) = y
        cases x <;> cases y <;> cases fieldExpressible tcp g c.key c.values c.notValues <;> simp


theorem all_congr_mem {α : Type} (l : List α) (f g : α → Bool) (h : ∀ x ∈ l, f x = g x) :
    l.all f = l.all g := by
  induction l with
  | nil => rfl
  | cons a t ih => simp [h a (by simp), ih (fun x hx => h x (List.mem_cons_of_mem _ hx))]

theorem all_map_and {α : Type} (l : List α) (f : α → Bool) (b : Bool) (hne : l ≠ []) :
    l.all (fun x => f x && b) = (l.all f && b) := by
  cases b
  · cases l with
    | nil => exact absurd rfl hne
    | cons a t => simp
  · simp

/-- **Linking lemma**: the generators of the (migrated) model of a rule all succeed iff the rule is
    expressible in the syntactic sense of the statement. -/
theorem translated_link (o : BuildOpts) (pns : Str) (r : Rule) (m : Model) (hm : newModel pns r = some m) :
    modelTranslated o.forTCP o.useAuth (migratedModel o pns r m) = ruleExpressible o.forTCP pns r := by
  unfold newModel at hm
  cases hbase : baseRules pns r.whens [] [] with
  | none => simp [hbase] at hm
  | some bb =>
    obtain ⟨bp, bq⟩ := bb
    simp only [hbase, Option.some.injEq] at hm
    subst hm
    have hnb : nBasePrincipals pns r = bq.length := by simp [nBasePrincipals, hbase]
    unfold modelTranslated migratedModel migrateTrustDomain ruleExpressible
    simp only [hnb]
    have hperm : (if r.tos.isEmpty then [bp] else r.tos.map (operationRules · bp)).all
          (fun rl => rl.all (permTranslated o.forTCP)) =
        (r.tos.all (opExpressible o.forTCP) && bp.all (permTranslated o.forTCP)) := by
      by_cases ht : r.tos = []
      · simp [ht]
      · have : r.tos.isEmpty = false := by simpa using ht
        simp only [this, Bool.false_eq_true, if_false, List.all_map, Function.comp_def,
          operationRules_translated]
        exact all_map_and _ _ _ ht
    rw [hperm]
    by_cases hf : r.froms = []
    · have hb := baseRules_translated o.forTCP o.useAuth o.bundle 1 pns r.whens [] [] bp bq hbase
      simp only [List.all_nil, Bool.true_and] at hb
      simp only [hf, List.isEmpty_nil, if_true, List.map_cons, List.map_nil, List.length_cons,
        List.length_nil, Nat.zero_add, Nat.sub_self, List.take_zero, List.nil_append, List.drop_zero,
        List.all_cons, List.all_nil, Bool.and_true, List.all_map, Bool.true_and]
      rw [Bool.and_assoc, hb]
    · have hfe : r.froms.isEmpty = false := by simpa using hf
      have hb := baseRules_translated o.forTCP o.useAuth o.bundle r.froms.length pns r.whens [] [] bp bq hbase
      simp only [List.all_nil, Bool.true_and] at hb
      simp only [hfe, Bool.false_eq_true, if_false, List.all_map, List.length_map, Function.comp_def]
      have hsrc : ∀ s ∈ r.froms,
          (((sourceRules pns s bq).take ((sourceRules pns s bq).length - bq.length)).map (migrateRule o.bundle) ++
            ((sourceRules pns s bq).drop ((sourceRules pns s bq).length - bq.length)).map
              (iterate (migrateRule o.bundle) r.froms.length)).all (prinTranslated o.forTCP o.useAuth) =
          (srcExpressible o.forTCP pns s &&
            bq.all (prinTranslated o.forTCP o.useAuth ∘ iterate (migrateRule o.bundle) r.froms.length)) := by
        intro s _
        rw [sourceRules_append pns s bq]
        simp only [List.length_append, Nat.add_sub_cancel, List.take_left', List.drop_left',
          List.all_append, List.all_map]
        congr 1
        have := sourceRules_translated o.forTCP o.useAuth o.bundle pns s
        rw [List.all_map] at this
        exact this
      rw [all_congr_mem r.froms _ _ hsrc, all_map_and _ _ _ hf]
      rw [← hb]
      generalize r.tos.all (opExpressible o.forTCP) = x
      generalize r.froms.all (srcExpressible o.forTCP pns) = y
      generalize bp.all (permTranslated o.forTCP) = z
      generalize bq.all (prinTranslated o.forTCP o.useAuth ∘ iterate (migrateRule o.bundle) r.froms.length) = w
      cases x <;> cases y <;> cases z <;> cases w <;> rfl


theorem fieldExpressible_remaining (tcp : Bool) (g : Gen) (k : Str) (vs nvs : List Str) :
    fieldExpressible tcp g k (remaining tcp g k vs) (remaining tcp g k nvs) = true := by
  unfold fieldExpressible remaining
  cases ha : attrExpressible tcp g k with
  | false => simp
  | true => simp

theorem remainingRule_expressible (tcp : Bool) (pns : Str) (r : Rule) :
    ruleExpressible tcp pns (remainingRule tcp pns r) = true := by
  unfold ruleExpressible remainingRule
  simp only [Bool.and_eq_true, List.all_eq_true, List.mem_map]
  refine ⟨⟨?_, ?_⟩, ?_⟩
  · rintro _ ⟨s, _, rfl⟩
    simp [srcExpressible, remainingSource, fieldExpressible_remaining]
  · rintro _ ⟨op, _, rfl⟩
    simp [opExpressible, remainingOp, fieldExpressible_remaining]
  · rintro _ ⟨c, _, rfl⟩
    unfold whenExpressible
    rw [remainingCondition_key]
    cases hc : classify pns c.key with
    | none => rfl
    | some g =>
      simp only
      unfold remainingCondition
      rw [hc]
      exact fieldExpressible_remaining tcp g c.key c.values c.notValues

/-- **Clause 2, ALLOW.** The generated policy of a rule of an ALLOW policy matches a request iff the
    rule can be expressed on the chain AND the rule matches; a rule that cannot be expressed (an
    HTTP-only field - positive or negative form, in `from`, `to` or `when` - on a TCP chain, an
    unreadable map key, an unparsable value) generates nothing and matches nothing. -/
theorem ruleVerdict_allow_exact (o : BuildOpts) (req : Request) (pns : Str) (r : Rule)
    (hmig : MigrationSem o req pns r) (hex : RuleExact o req pns r) :
    ruleVerdict o true pns req r =
      (ruleExpressible o.forTCP pns r && ruleMatches pns (expandRule o.bundle r) req) := by
  unfold ruleVerdict
  cases hc : compileRule o true pns r with
  | some e =>
    have h1 := compileRule_exact o true req pns r e hc hmig hex (Or.inl rfl)
    have h2 : ruleExpressible o.forTCP pns r = true := by
      unfold compileRule at hc
      cases hm : newModel pns r with
      | none => simp [hm] at hc
      | some m =>
        simp only [hm] at hc
        rw [← translated_link o pns r m hm]
        exact generate_allow_translated _ _ _ e hc
    simp only [h1, h2, Bool.true_and]
  | none =>
    simp only
    symm
    cases hm : newModel pns r with
    | none => rw [newModel_none_expand req o.bundle pns r hm, Bool.and_false]
    | some m =>
      cases he : ruleExpressible o.forTCP pns r with
      | false => rfl
      | true =>
        exfalso
        unfold compileRule at hc
        simp only [hm] at hc
        obtain ⟨e, hgen⟩ := generate_some (migratedModel o pns r m) o.forTCP o.useAuth true
          (migrated_nonempty o pns r m (newModel_nonempty pns r m hm))
          (Or.inr (by rw [translated_link o pns r m hm]; exact he))
        have : generate (migrateTrustDomain o.bundle (nBasePrincipals pns r) m) o.forTCP o.useAuth true = some e := hgen
        rw [this] at hc; cases hc

/-- `tcp_allow_rule_dropped`, every field: an ALLOW rule that cannot be expressed generates no Envoy
    policy. -/
theorem allow_rule_dropped (o : BuildOpts) (pns : Str) (r : Rule)
    (h : ruleExpressible o.forTCP pns r = false) : compileRule o true pns r = none := by
  cases hc : compileRule o true pns r with
  | none => rfl
  | some e =>
    exfalso
    unfold compileRule at hc
    cases hm : newModel pns r with
    | none => simp [hm] at hc
    | some m =>
      simp only [hm] at hc
      have := generate_allow_translated _ _ _ e hc
      rw [show modelTranslated o.forTCP o.useAuth (migrateTrustDomain o.bundle (nBasePrincipals pns r) m) =
        modelTranslated o.forTCP o.useAuth (migratedModel o pns r m) from rfl, translated_link o pns r m hm, h] at this
      cases this

/-- **Clause 2, DENY / AUDIT / CUSTOM.** The generated policy of a rule of a non-ALLOW policy matches
    a request iff the rule's remaining conditions match it. -/
theorem ruleVerdict_deny_exact (o : BuildOpts) (req : Request) (pns : Str) (r : Rule)
    (hmig : MigrationSem o req pns (remainingRule o.forTCP pns r))
    (hex : RuleExact o req pns (remainingRule o.forTCP pns r)) :
    ruleVerdict o false pns req r =
      ruleMatches pns (expandRule o.bundle (remainingRule o.forTCP pns r)) req := by
  have htr : RuleTranslated o pns (remainingRule o.forTCP pns r) := by
    intro m hm
    rw [translated_link o pns _ m hm]
    exact remainingRule_expressible o.forTCP pns r
  have := ruleVerdict_exact o false req { ns := pns, name := [], action := .deny } (remainingRule o.forTCP pns r)
    hmig hex htr
  simp only at this
  rw [← this]
  unfold ruleVerdict
  rw [deny_rule_remaining o pns r]


/-- Hypotheses of the exact theorems: distinct generated names; for every effective rule, trust-domain
    migration keeps its meaning (`mig`) and every generated matcher means its value (`exact`). Nothing
    is assumed translatable. -/
structure HypsOn (o : BuildOpts) (ps : List Policy) (req : Request) : Prop where
  names : EntriesDistinct o ps
  mig : ∀ p ∈ ps, ∀ r ∈ p.rules, MigrationSem o req p.ns (effectiveRule o.forTCP p r)
  exact : ∀ p ∈ ps, ∀ r ∈ p.rules, RuleExact o req p.ns (effectiveRule o.forTCP p r)

theorem clause2_fields (tcp : Bool) (p : Policy) :
    (clause2 tcp p).action = p.action ∧ (clause2 tcp p).dryRun = p.dryRun ∧ (clause2 tcp p).ns = p.ns ∧
    (clause2 tcp p).provider = p.provider ∧ (clause2 tcp p).selector = p.selector ∧
    (clause2 tcp p).refs = p.refs := by
  unfold clause2; split <;> exact ⟨rfl, rfl, rfl, rfl, rfl, rfl⟩

theorem enforced_clause2 (a : Action) (tcp : Bool) (ps : List Policy) :
    enforced a (ps.map (clause2 tcp)) = (enforced a ps).map (clause2 tcp) := by
  unfold enforced
  rw [List.filter_map]
  congr 1
  apply List.filter_congr
  intro p _
  simp only [Function.comp, (clause2_fields tcp p).1, (clause2_fields tcp p).2.1]

/-- What the generated rules of a policy match = the policy read by clause 2. -/
theorem compiledPolicyMatch_clause2 (o : BuildOpts) (req : Request) (ps : List Policy) (p : Policy)
    (hp : p ∈ ps) (h : HypsOn o ps req) :
    compiledPolicyMatch o (p.action == .allow) req p = policyMatchesX o.bundle (clause2 o.forTCP p) req := by
  unfold compiledPolicyMatch policyMatchesX clause2
  cases ha : p.action == Action.allow with
  | true =>
    simp only [if_true, List.any_filter]
    apply any_congr_mem
    intro r hr
    have hm := h.mig p hp r hr
    have he := h.exact p hp r hr
    simp only [effectiveRule, ha, if_true] at hm he
    exact ruleVerdict_allow_exact o req p.ns r hm he
  | false =>
    simp only [Bool.false_eq_true, if_false, List.any_map, Function.comp_def]
    apply any_congr_mem
    intro r hr
    have hm := h.mig p hp r hr
    have he := h.exact p hp r hr
    simp only [effectiveRule, ha, Bool.false_eq_true, if_false] at hm he
    exact ruleVerdict_deny_exact o req p.ns r hm he

theorem mem_enforced_action {a : Action} {ps : List Policy} {p : Policy} (h : p ∈ enforced a ps) :
    p.action = a := by
  have := (List.mem_filter.1 h).2
  simp only [Bool.and_eq_true, beq_iff_eq] at this
  exact this.1

/-- **Exact compiler correctness, clause 2 included, nothing assumed translatable**: on every chain
    (HTTP, TCP, TCP rules in HTTP filters) the generated ALLOW/DENY/AUDIT filters admit a request iff
    the statement does. -/
theorem compile_exact_selected (o : BuildOpts) (ps : List Policy) (req : Request) (h : HypsOn o ps req) :
    evalFilters (compileSelected o ps) req =
      decision ((ps.map (clause2 o.forTCP)).map (expandPolicy o.bundle)) req := by
  rw [compileSelected_eval o req ps h.names, decision_expand, enforced_clause2, enforced_clause2]
  simp only [List.any_map, Function.comp_def, List.isEmpty_map]
  have hd : (enforced .deny ps).any (compiledPolicyMatch o false req) =
      (enforced .deny ps).any (fun p => policyMatchesX o.bundle (clause2 o.forTCP p) req) := by
    apply any_congr_mem
    intro p hp
    have := compiledPolicyMatch_clause2 o req ps p (enforced_subset _ _ p hp) h
    rw [mem_enforced_action hp] at this
    exact this
  have ha : (enforced .allow ps).any (compiledPolicyMatch o true req) =
      (enforced .allow ps).any (fun p => policyMatchesX o.bundle (clause2 o.forTCP p) req) := by
    apply any_congr_mem
    intro p hp
    have := compiledPolicyMatch_clause2 o req ps p (enforced_subset _ _ p hp) h
    rw [mem_enforced_action hp] at this
    exact this
  rw [hd, ha]
  cases (enforced Action.deny ps).any (fun p => policyMatchesX o.bundle (clause2 o.forTCP p) req) <;>
    cases (enforced Action.allow ps).isEmpty <;> simp

theorem customBad_clause2 (c : CustomOpts) (tcp : Bool) (ps : List Policy) (p : Policy) :
    customBad c (ps.map (clause2 tcp)) (clause2 tcp p) = customBad c ps p := by
  unfold customBad
  simp only [List.filter_map, List.any_map, Function.comp_def, (clause2_fields tcp _).1,
    (clause2_fields tcp _).2.2.2.1]

/-- CUSTOM, exact. -/
theorem custom_exact_selected (o : BuildOpts) (c : CustomOpts) (ps : List Policy) (req : Request)
    (h : HypsOn o ps req) (hnd : CustomEntriesDistinct o ps) :
    evalGs (compileCustomSelected o c ps) req =
      !(customDenies c ((ps.map (clause2 o.forTCP)).map (expandPolicy o.bundle)) req) := by
  rw [custom_correct_compiled o c ps req hnd, customDenies_expand, enforced_clause2]
  simp only [List.any_map, Function.comp_def, customBad_clause2]
  congr 1
  apply any_congr_mem
  intro p hp
  congr 1
  have := compiledPolicyMatch_clause2 o req ps p (enforced_subset _ _ p hp) h
  rw [mem_enforced_action hp] at this
  exact this

theorem refDesignates_clause2 (w : Workload) (tcp : Bool) (p : Policy) :
    refDesignates w (clause2 tcp p) = refDesignates w p := by
  funext ref
  unfold refDesignates
  rw [(clause2_fields tcp p).2.2.1]

theorem filter_applies_clause2 (w : Workload) (tcp : Bool) (ps : List Policy) :
    (ps.map (clause2 tcp)).filter (applies w) = (ps.filter (applies w)).map (clause2 tcp) := by
  rw [List.filter_map]
  congr 1
  apply List.filter_congr
  intro p _
  simp only [Function.comp, applies, nsInScope, selectorMatches, refDesignates_clause2,
    (clause2_fields tcp p).2.2.1, (clause2_fields tcp p).2.2.2.2.1, (clause2_fields tcp p).2.2.2.2.2]

/-- **The property, whole chain**: CUSTOM filters then AUDIT, DENY, ALLOW decide every request exactly
    as the statement says, on HTTP and TCP chains, for translatable and untranslatable rules alike. -/
theorem compile_all_exact (w : Workload) (o : BuildOpts) (c : CustomOpts) (ps : List Policy) (req : Request)
    (h : HypsOn o (selectPolicies w ps) req) (hnd : CustomEntriesDistinct o (selectPolicies w ps)) :
    evalGs (compileAll w o c ps) req = specDecisionOn w o.bundle c o.forTCP ps req := by
  unfold compileAll specDecisionOn specDecisionAll compile
  rw [evalGs_append, evalGs_rbac, filter_applies_clause2]
  have hsel : ps.filter (applies w) = selectPolicies w ps := (selectPolicies_eq_applies w ps).symm
  rw [hsel, custom_exact_selected o c _ req h hnd, compile_exact_selected o _ req h]

theorem hypsOn_of_B (o : BuildOpts) (ps : List Policy) (req : Request) (h : hypsOnB o ps req = true) :
    HypsOn o ps req ∧ CustomEntriesDistinct o ps := by
  simp only [hypsOnB, Bool.and_eq_true, List.all_eq_true] at h
  obtain ⟨⟨h1, h3⟩, h4⟩ := h
  exact ⟨{ names := entriesDistinct_of_B o ps h3
           mig := fun p hp r hr => migrationSem_of_B o req p.ns _ (h1 p hp r hr).1
           exact := fun p hp r hr => ruleExact_of_scope o req p.ns _ (h1 p hp r hr).2 },
         customEntriesDistinct_of_B o ps h4⟩

/-- `compile_all_exact` with its hypotheses as the computable check the driver evaluates on every
    generated request (stream `hyps`). -/
theorem compile_all_exact_checked (w : Workload) (o : BuildOpts) (c : CustomOpts) (ps : List Policy)
    (req : Request) (h : hypsOnB o (selectPolicies w ps) req = true) :
    evalGs (compileAll w o c ps) req = specDecisionOn w o.bundle c o.forTCP ps req :=
  compile_all_exact w o c ps req (hypsOn_of_B _ _ _ h).1 (hypsOn_of_B _ _ _ h).2

/-! ## CUSTOM with defined providers: when the external authorizer is consulted -/

theorem insertSorted_nodup (x : Str) (l : List Str) (hx : x ∉ l) (hl : l.Nodup) : (insertSorted x l).Nodup := by
  induction l with
  | nil => simp [insertSorted]
  | cons a t ih =>
    simp only [insertSorted]
    have hxa : x ≠ a := fun e => hx (by simp [e])
    have hxt : x ∉ t := fun h => hx (List.mem_cons_of_mem _ h)
    have hat : a ∉ t := (List.nodup_cons.1 hl).1
    have htn : t.Nodup := (List.nodup_cons.1 hl).2
    split
    · rw [List.nodup_cons]
      refine ⟨?_, ih hxt htn⟩
      rw [insertSorted_mem]
      rintro (h | h)
      · exact hxa h.symm
      · exact hat h
    · rw [List.nodup_cons]
      exact ⟨hx, hl⟩

theorem sortDedup_nodup (l : List Str) : (sortDedup l).Nodup := by
  unfold sortDedup
  have hn := dedupStr_nodup l
  generalize dedupStr l = d at hn
  induction d with
  | nil => simp
  | cons a t ih =>
    simp only [List.foldr_cons]
    have hat : a ∉ t := (List.nodup_cons.1 hn).1
    exact insertSorted_nodup a _ (by rw [foldr_insertSorted_mem]; exact hat) (ih (List.nodup_cons.1 hn).2)

theorem minName_eq_none (l : List Str) : minName l = none ↔ l = [] := by
  cases l with
  | nil => simp [minName]
  | cons n ns =>
    cases hm : minName ns with
    | none => simp [minName, hm]
    | some m =>
      simp only [minName, hm]
      by_cases hlt : strLt m n = true <;> simp [hlt]

theorem minName_mem (l : List Str) (n : Str) (h : minName l = some n) : n ∈ l := by
  induction l generalizing n with
  | nil => simp [minName] at h
  | cons a t ih =>
    simp only [minName] at h
    cases hm : minName t with
    | none => simp only [hm, Option.some.injEq] at h; subst h; simp
    | some m =>
      simp only [hm] at h
      split at h
      · simp only [Option.some.injEq] at h; subst h
        exact List.mem_cons_of_mem _ (ih m hm)
      · simp only [Option.some.injEq] at h; subst h; simp

/-- Along the chain (providers in the order of their filters): the generated names of a provider's
    CUSTOM policies never carry the id prefix of a provider whose filters come LATER - only an id left
    behind by an earlier filter can reach a later `ext_authz` filter (fails for `x` before `x-ns`:
    `ext_authz_prefix_quirk_witness`; holds for `opa` before `opa2`). -/
def IsolatedAlong (o : BuildOpts) (cps : List Policy) : List Str → Prop
  | [] => True
  | pr :: t =>
    (∀ p ∈ cps, p.provider = pr → ∀ q ∈ t, ∀ e ∈ customEntries o p, hasPrefix (extPrefix q) e.1 = false) ∧
    IsolatedAlong o cps t

def CustomIsolated (o : BuildOpts) (cps : List Policy) : Prop :=
  IsolatedAlong o cps (sortDedup (cps.map (·.provider)))

theorem customEntries_own_prefix (o : BuildOpts) (p : Policy) :
    ∀ e ∈ customEntries o p, hasPrefix (extPrefix p.provider) e.1 = true := by
  intro e he
  unfold customEntries at he
  obtain ⟨e0, _, rfl⟩ := List.mem_map.1 he
  unfold extPrefix customPrefix hasPrefix
  simp only [List.isPrefixOf_iff_prefix]
  split
  · rename_i hemp
    have : p.provider = [] := by simpa using hemp
    rw [this, List.append_nil]
    exact List.prefix_append _ _
  · simp only [List.append_assoc]
    exact ⟨['-'] ++ e0.1, by simp⟩

theorem providerRules_eq (o : BuildOpts) (cps : List Policy) (prov : Str)
    (hnd : ((cps.flatMap (customEntries o)).map (·.1)).Nodup) :
    providerRules o cps prov = (cps.filter fun p => p.provider == prov && !p.dryRun).flatMap (customEntries o) := by
  unfold providerRules
  rw [upsertAll_eq]
  · simp
  · simp only [List.nil_append]
    exact List.Nodup.sublist ((flatMap_filter_sublist _ _ cps).map _) hnd

/-- What the shadow engine of a provider's RBAC filter writes: nothing when no policy of the provider
    matches, else the name of one of the provider's matching policies. -/
theorem shadowWrite_custom (o : BuildOpts) (cps : List Policy) (pr : Str) (req : Request) (f : Filter)
    (hf : f.shadow = some ⟨.deny, providerRules o cps pr⟩)
    (hnd : ((cps.flatMap (customEntries o)).map (·.1)).Nodup) :
    (((cps.filter fun p => p.provider == pr && !p.dryRun).any (compiledPolicyMatch o false req)) = false →
      shadowWrite f req = none) ∧
    (((cps.filter fun p => p.provider == pr && !p.dryRun).any (compiledPolicyMatch o false req)) = true →
      ∃ n, shadowWrite f req = some n ∧ ∃ p ∈ cps, p.provider = pr ∧ ∃ e ∈ customEntries o p, e.1 = n) := by
  have hany := providerRules_any o cps pr req hnd
  unfold shadowWrite
  rw [hf]
  simp only
  constructor
  · intro h
    rw [h] at hany
    rw [minName_eq_none]
    simp only [List.map_eq_nil_iff, List.filter_eq_nil_iff]
    intro e he hm
    have : (providerRules o cps pr).any (fun e => evalPolicy e.2 req) = true :=
      List.any_eq_true.2 ⟨e, he, hm⟩
    rw [hany] at this; cases this
  · intro h
    rw [h] at hany
    obtain ⟨e, he, hm⟩ := List.any_eq_true.1 hany
    cases hmin : minName (((providerRules o cps pr).filter fun e => evalPolicy e.2 req).map (·.1)) with
    | none =>
      rw [minName_eq_none] at hmin
      simp only [List.map_eq_nil_iff, List.filter_eq_nil_iff] at hmin
      exact absurd hm (hmin e he)
    | some n =>
      refine ⟨n, rfl, ?_⟩
      have hn := minName_mem _ n hmin
      obtain ⟨e', he', rfl⟩ := List.mem_map.1 hn
      have he'' := (List.mem_filter.1 he').1
      rw [providerRules_eq o cps pr hnd] at he''
      obtain ⟨p, hp, hep⟩ := List.mem_flatMap.1 he''
      have hpp := List.mem_filter.1 hp
      simp only [Bool.and_eq_true, beq_iff_eq] at hpp
      exact ⟨p, hpp.1, hpp.2.1, e', hep, rfl⟩

theorem badCustomFilter_shadowPrefix (o : BuildOpts) (cps : List Policy) (pr : Str) :
    ((badCustomFilter o cps pr).shadowPrefix == extAuthzShadowPrefix) = false := by
  have : (badCustomFilter o cps pr).shadowPrefix = [] := rfl
  rw [this]; decide

/-- One provider's pair of filters (RBAC with the shadow rules, then `ext_authz`) in front of a chain. -/
theorem extAuthzEnabled_customFilters (o : BuildOpts) (cps : List Policy) (pr : Str) (t : ExtTarget) (rest : List GFilter)
    (cur : Option Str) (req : Request) :
    ∃ f : Filter, f.shadow = some ⟨.deny, providerRules o cps pr⟩ ∧
      extAuthzEnabled (customFilters o cps pr t ++ rest) cur req =
        (if ((shadowWrite f req).orElse (fun _ => cur)).any (hasPrefix (extPrefix pr)) then [extPrefix pr] else []) ++
          extAuthzEnabled rest ((shadowWrite f req).orElse (fun _ => cur)) req := by
  refine ⟨{ name := rbacFilterName o.shapeTCP, rules := none,
            shadow := some ⟨.deny, providerRules o cps pr⟩,
            shadowPrefix := extAuthzShadowPrefix,
            statPrefix := if o.shapeTCP then "tcp.".toList else [] }, rfl, ?_⟩
  show extAuthzEnabled (GFilter.rbac _ :: GFilter.extAuthz _ _ _ _ :: rest) cur req = _
  rw [extAuthzEnabled, extAuthzEnabled]
  have : (extAuthzShadowPrefix == extAuthzShadowPrefix) = true := beq_self_eq_true _
  simp only [this, if_true]
  rfl

theorem extAuthzEnabled_bad (o : BuildOpts) (cps : List Policy) (provs : List Str) (cur : Option Str) (req : Request) :
    extAuthzEnabled (provs.map fun pr => GFilter.rbac (badCustomFilter o cps pr)) cur req = [] := by
  induction provs generalizing cur with
  | nil => rfl
  | cons pr t ih =>
    simp only [List.map_cons, extAuthzEnabled, badCustomFilter_shadowPrefix]
    exact ih cur

/-- The chain of the CUSTOM builder for defined / undefined providers, walked from any stored id that
    carries none of the remaining providers' prefixes. -/
theorem extAuthzEnabled_good (o : BuildOpts) (c : CustomOpts) (cps : List Policy) (req : Request)
    (hnd : ((cps.flatMap (customEntries o)).map (·.1)).Nodup)
    (provs : List Str) (hiso : IsolatedAlong o cps provs)
    (hsub : ∀ pr ∈ provs, pr ∈ cps.map (·.provider)) (hnp : provs.Nodup) (cur : Option Str)
    (hinv : ∀ n, cur = some n → ∀ pr ∈ provs, hasPrefix (extPrefix pr) n = false) :
    extAuthzEnabled (provs.flatMap fun pr =>
        if c.providers.contains pr then
          (if o.shapeTCP && c.httpProviders.contains pr then [] else customFilters o cps pr (c.targetOf pr))
        else [.rbac (badCustomFilter o cps pr)]) cur req =
      (provs.filter fun pr => c.providers.contains pr && !(o.shapeTCP && c.httpProviders.contains pr) &&
        (cps.filter fun p => p.provider == pr && !p.dryRun).any (compiledPolicyMatch o false req)).map extPrefix := by
  induction provs generalizing cur with
  | nil => rfl
  | cons pr t ih =>
    have hprt : pr ∉ t := (List.nodup_cons.1 hnp).1
    have htn : t.Nodup := (List.nodup_cons.1 hnp).2
    have hsubt : ∀ q ∈ t, q ∈ cps.map (·.provider) := fun q hq => hsub q (List.mem_cons_of_mem _ hq)
    have hinvt : ∀ n, cur = some n → ∀ q ∈ t, hasPrefix (extPrefix q) n = false :=
      fun n hn q hq => hinv n hn q (List.mem_cons_of_mem _ hq)
    simp only [List.flatMap_cons, List.filter_cons]
    cases hdef : c.providers.contains pr with
    | false =>
      simp only [Bool.false_eq_true, if_false, Bool.false_and, List.singleton_append, extAuthzEnabled,
        badCustomFilter_shadowPrefix]
      exact ih hiso.2 hsubt htn cur hinvt
    | true =>
      simp only [if_true, Bool.true_and]
      cases hskip : (o.shapeTCP && c.httpProviders.contains pr) with
      | true =>
        simp only [if_true, Bool.not_true, Bool.false_and, Bool.false_eq_true, if_false, List.nil_append]
        exact ih hiso.2 hsubt htn cur hinvt
      | false =>
        simp only [Bool.false_eq_true, if_false, Bool.not_false, Bool.true_and]
        obtain ⟨f, hf, hwalk⟩ := extAuthzEnabled_customFilters o cps pr (c.targetOf pr)
          (t.flatMap fun pr =>
            if c.providers.contains pr then
              (if o.shapeTCP && c.httpProviders.contains pr then [] else customFilters o cps pr (c.targetOf pr))
            else [.rbac (badCustomFilter o cps pr)]) cur req
        rw [hwalk]
        have hsw := shadowWrite_custom o cps pr req f hf hnd
        cases hM : (cps.filter fun p => p.provider == pr && !p.dryRun).any (compiledPolicyMatch o false req) with
        | false =>
          rw [hsw.1 hM]
          have e1 : (none : Option Str).orElse (fun _ => cur) = cur := rfl
          have hno : cur.any (hasPrefix (extPrefix pr)) = false := by
            cases hc : cur with
            | none => rfl
            | some n =>
              simp only [Option.any_some]
              exact hinv n hc pr (by simp)
          simp only [e1, hno, Bool.false_eq_true, if_false, List.nil_append]
          exact ih hiso.2 hsubt htn cur hinvt
        | true =>
          obtain ⟨n, hw, p, hp, hpp, e, he, hen⟩ := hsw.2 hM
          rw [hw]
          have e2 : (some n).orElse (fun _ => cur) = some n := rfl
          have hown : hasPrefix (extPrefix pr) n = true := by
            have := customEntries_own_prefix o p e he
            rw [hpp, hen] at this
            exact this
          simp only [e2, Option.any_some, hown, if_true, List.map_cons, List.singleton_append]
          congr 1
          apply ih hiso.2 hsubt htn (some n)
          intro n' hn' q hq
          simp only [Option.some.injEq] at hn'
          subst hn'
          have := hiso.1 p hp hpp q hq e he
          rw [hen] at this
          exact this

/-- **CUSTOM, whom is asked (compiled level)**: the `ext_authz` filters the generated chain enables for a
    request are exactly those of the defined providers (usable on the chain kind, policies not in the
    fail-closed mode) one of whose enforced CUSTOM policies' generated rules match. -/
theorem ext_authz_enabled_compiled (o : BuildOpts) (c : CustomOpts) (ps : List Policy) (req : Request)
    (hnd : CustomEntriesDistinct o ps) (hiso : CustomIsolated o (ps.filter (·.action == .custom))) :
    extAuthzEnabled (compileCustomSelected o c ps) none req =
      (if (ps.filter (·.action == .custom)).any (fun a => (ps.filter (·.action == .custom)).any fun b => a.provider != b.provider)
            && !c.multi then []
       else (sortDedup ((ps.filter (·.action == .custom)).map (·.provider))).filter fun pr =>
          c.providers.contains pr && !(o.shapeTCP && c.httpProviders.contains pr) &&
          ((ps.filter (·.action == .custom)).filter fun p => p.provider == pr && !p.dryRun).any
            (compiledPolicyMatch o false req)).map extPrefix := by
  unfold CustomEntriesDistinct at hnd
  generalize hcps : ps.filter (·.action == .custom) = cps at *
  unfold compileCustomSelected
  rw [hcps]
  by_cases hempty : cps.isEmpty = true
  · have : cps = [] := by simpa using hempty
    subst this
    simp [extAuthzEnabled, sortDedup, dedupStr]
  · have hempty' : cps.isEmpty = false := by simpa using hempty
    simp only [hempty', Bool.false_eq_true, if_false]
    have hmany : ((sortDedup (cps.map (·.provider))).length > 1) ↔
        cps.any (fun a => cps.any fun b => a.provider != b.provider) = true := by
      rw [sortDedup_length_gt_one]
      simp only [List.any_eq_true, bne_iff_ne, ne_eq, List.mem_map]
      constructor
      · rintro ⟨_, ⟨a, ha, rfl⟩, _, ⟨b, hb, rfl⟩, hab⟩
        exact ⟨a, ha, b, hb, hab⟩
      · rintro ⟨a, ha, b, hb, hab⟩
        exact ⟨_, ⟨a, ha, rfl⟩, _, ⟨b, hb, rfl⟩, hab⟩
    by_cases hm : (decide ((sortDedup (cps.map (·.provider))).length > 1) && !c.multi) = true
    · have hm' : (cps.any (fun a => cps.any fun b => a.provider != b.provider) && !c.multi) = true := by
        simp only [Bool.and_eq_true, decide_eq_true_eq] at hm ⊢
        exact ⟨hmany.1 hm.1, hm.2⟩
      simp only [hm, if_true, hm', List.map_nil]
      exact extAuthzEnabled_bad o cps _ none req
    · have hmf : (decide ((sortDedup (cps.map (·.provider))).length > 1) && !c.multi) = false := by
        simpa using hm
      have hm' : (cps.any (fun a => cps.any fun b => a.provider != b.provider) && !c.multi) = false := by
        rw [Bool.eq_false_iff]
        intro h
        apply hm
        simp only [Bool.and_eq_true, decide_eq_true_eq] at h ⊢
        exact ⟨hmany.2 h.1, h.2⟩
      simp only [hmf, Bool.false_eq_true, if_false, hm']
      exact extAuthzEnabled_good o c cps req hnd _ hiso (fun pr hpr => (sortDedup_mem _ pr).1 hpr)
        (sortDedup_nodup _) none (fun n hn => by cases hn)

/-- `customAsks` over the clause-2 reading of the alias-expanded policies, spelled out on the policies
    themselves. -/
theorem customAsks_expand_clause2 (c : CustomOpts) (b : List Str) (tcp t : Bool) (ps : List Policy) (req : Request) :
    customAsks c t ((ps.map (clause2 tcp)).map (expandPolicy b)) req =
      (if (ps.filter (·.action == .custom)).any (fun a => (ps.filter (·.action == .custom)).any fun x => a.provider != x.provider)
            && !c.multi then []
       else (sortDedup ((ps.filter (·.action == .custom)).map (·.provider))).filter fun pr =>
          c.providers.contains pr && !(t && c.httpProviders.contains pr) &&
          (enforced .custom ps).any fun p => p.provider == pr && policyMatchesX b (clause2 tcp p) req) := by
  unfold customAsks
  have hf : ((ps.map (clause2 tcp)).map (expandPolicy b)).filter (·.action == .custom) =
      ((ps.filter (·.action == .custom)).map (clause2 tcp)).map (expandPolicy b) := by
    rw [List.filter_map, List.filter_map]
    congr 2
    apply List.filter_congr
    intro p _
    simp only [Function.comp]
    show ((clause2 tcp p).action == Action.custom) = _
    rw [(clause2_fields tcp p).1]
  have hprov : ∀ l : List Policy, ((l.map (clause2 tcp)).map (expandPolicy b)).map (·.provider) = l.map (·.provider) := by
    intro l
    simp only [List.map_map]
    apply List.map_congr_left
    intro p _
    simp only [Function.comp]
    show (clause2 tcp p).provider = _
    exact (clause2_fields tcp p).2.2.2.1
  have hany : ∀ l : List Policy,
      ((l.map (clause2 tcp)).map (expandPolicy b)).any (fun a => ((l.map (clause2 tcp)).map (expandPolicy b)).any fun x => a.provider != x.provider) =
        l.any (fun a => l.any fun x => a.provider != x.provider) := by
    intro l
    simp only [List.any_map, Function.comp_def]
    apply any_congr_mem
    intro p _
    apply any_congr_mem
    intro q _
    show ((clause2 tcp p).provider != (clause2 tcp q).provider) = _
    rw [(clause2_fields tcp p).2.2.2.1, (clause2_fields tcp q).2.2.2.1]
  simp only [hf, hprov, hany]
  split
  · rfl
  · congr 1
    funext pr
    congr 1
    rw [enforced_expand, enforced_clause2]
    simp only [List.any_map, Function.comp_def, policyMatches_expand]
    apply any_congr_mem
    intro p _
    congr 1
    show ((clause2 tcp p).provider == pr) = _
    rw [(clause2_fields tcp p).2.2.2.1]

/-- **CUSTOM, whom is asked.** On every chain the `ext_authz` filters the generated filters enable for a
    request are exactly those of the providers the statement says must be asked: defined, usable on
    the chain kind, policies not in the fail-closed mode, and an enforced CUSTOM policy naming the
    provider matches (clause-2 reading: a CUSTOM rule with an inexpressible field is evaluated on its
    remaining conditions). -/
theorem ext_authz_asked_exact (o : BuildOpts) (c : CustomOpts) (ps : List Policy) (req : Request)
    (h : HypsOn o ps req) (hnd : CustomEntriesDistinct o ps)
    (hiso : CustomIsolated o (ps.filter (·.action == .custom))) :
    extAuthzEnabled (compileCustomSelected o c ps) none req =
      (customAsks c o.shapeTCP ((ps.map (clause2 o.forTCP)).map (expandPolicy o.bundle)) req).map extPrefix := by
  rw [ext_authz_enabled_compiled o c ps req hnd hiso, customAsks_expand_clause2]
  split
  · rfl
  · congr 1
    apply List.filter_congr
    intro pr _
    congr 1
    rw [← filter_action_dry, List.filter_filter, List.any_filter]
    simp only [List.any_filter]
    apply any_congr_mem
    intro p hp
    by_cases hc : (p.action == Action.custom) = true
    · by_cases hd : p.dryRun = true
      · simp [hc, hd]
      · have hd' : p.dryRun = false := by simpa using hd
        have hpe : p ∈ enforced .custom ps := by
          unfold enforced
          exact List.mem_filter.2 ⟨hp, by simp [hc, hd']⟩
        have := compiledPolicyMatch_clause2 o req ps p hp h
        have ha : (p.action == Action.allow) = false := by
          have : p.action = .custom := by simpa using hc
          rw [this]; rfl
        rw [ha] at this
        simp only [hc, hd', Bool.not_false, Bool.and_true, Bool.true_and, this]
    · have hc' : (p.action == Action.custom) = false := by simpa using hc
      simp [hc']

/-- The whole chain and the selected policies. -/
theorem ext_authz_asked_exact_all (w : Workload) (o : BuildOpts) (c : CustomOpts) (ps : List Policy) (req : Request)
    (h : HypsOn o (selectPolicies w ps) req) (hnd : CustomEntriesDistinct o (selectPolicies w ps))
    (hiso : CustomIsolated o ((selectPolicies w ps).filter (·.action == .custom))) :
    extAuthzEnabled (compileCustomSelected o c (selectPolicies w ps)) none req =
      (specAsksOn w o.bundle c o.forTCP o.shapeTCP ps req).map extPrefix := by
  unfold specAsksOn
  rw [filter_applies_clause2, ← selectPolicies_eq_applies]
  exact ext_authz_asked_exact o c _ req h hnd hiso

theorem isolatedAlong_of_B (o : BuildOpts) (cps : List Policy) (provs : List Str)
    (h : isolatedAlongB o cps provs = true) : IsolatedAlong o cps provs := by
  induction provs with
  | nil => trivial
  | cons pr t ih =>
    simp only [isolatedAlongB, Bool.and_eq_true, List.all_eq_true, Bool.or_eq_true, bne_iff_ne, ne_eq,
      Bool.not_eq_true'] at h
    refine ⟨?_, ih h.2⟩
    intro p hp hpp q hq e he
    rcases h.1 p hp with h1 | h1
    · exact absurd hpp h1
    · exact h1 q hq e he

theorem customIsolated_of_B (o : BuildOpts) (ps : List Policy) (h : customIsolatedB o ps = true) :
    CustomIsolated o (ps.filter (·.action == .custom)) :=
  isolatedAlong_of_B o _ _ h

/-- A chain tail made of RBAC filters only (the AUDIT / DENY / ALLOW filters) enables no `ext_authz`. -/
theorem extAuthzEnabled_rbac_only (fs : List Filter) (cur : Option Str) (req : Request) :
    extAuthzEnabled (fs.map .rbac) cur req = [] := by
  induction fs generalizing cur with
  | nil => rfl
  | cons f t ih => simp only [List.map_cons, extAuthzEnabled]; exact ih _

theorem extAuthzEnabled_append_rbac (a : List GFilter) (fs : List Filter) (cur : Option Str) (req : Request) :
    extAuthzEnabled (a ++ fs.map .rbac) cur req = extAuthzEnabled a cur req := by
  induction a generalizing cur with
  | nil => simp only [List.nil_append, extAuthzEnabled_rbac_only]; rfl
  | cons g t ih =>
    cases g with
    | rbac f => simp only [List.cons_append, extAuthzEnabled]; exact ih _
    | extAuthz n r pfx t => simp only [List.cons_append, extAuthzEnabled, ih]

/-- **CUSTOM comes first**: on the whole chain (CUSTOM filters, then AUDIT, DENY, ALLOW) the external
    authorizers consulted for a request are determined by the CUSTOM policies alone - the `ext_authz`
    filters stand before the local filters, so a request is sent to the authorizer whether or not a
    local DENY / ALLOW policy rejects it afterwards - and they are exactly the ones the statement
    names.  (Hypotheses as the computable checks the driver evaluates.) -/
theorem ext_authz_asked_chain (w : Workload) (o : BuildOpts) (c : CustomOpts) (ps : List Policy) (req : Request)
    (h : hypsOnB o (selectPolicies w ps) req = true) (hiso : customIsolatedB o (selectPolicies w ps) = true) :
    extAuthzEnabled (compileAll w o c ps) none req =
      (specAsksOn w o.bundle c o.forTCP o.shapeTCP ps req).map extPrefix := by
  unfold compileAll
  rw [extAuthzEnabled_append_rbac]
  exact ext_authz_asked_exact_all w o c ps req (hypsOn_of_B _ _ _ h).1 (hypsOn_of_B _ _ _ h).2
    (customIsolated_of_B o _ hiso)

/-! ### ... and WHERE the check requests go -/

theorem extAuthzTargets_eq (fs : List GFilter) (f : Str → ExtTarget)
    (h : ∀ n r pfx t, GFilter.extAuthz n r pfx t ∈ fs → t = f pfx) (cur : Option Str) (req : Request) :
    extAuthzTargets fs cur req = (extAuthzEnabled fs cur req).map f := by
  induction fs generalizing cur with
  | nil => rfl
  | cons g rest ih =>
    have hrest : ∀ n r pfx t, GFilter.extAuthz n r pfx t ∈ rest → t = f pfx :=
      fun n r pfx t hm => h n r pfx t (List.mem_cons_of_mem _ hm)
    cases g with
    | rbac fl => simp only [extAuthzTargets, extAuthzEnabled]; exact ih hrest _
    | extAuthz n r pfx t =>
      simp only [extAuthzTargets, extAuthzEnabled, List.map_append, ih hrest]
      congr 1
      have : t = f pfx := h n r pfx t (by simp)
      split <;> simp [this]

theorem extPrefix_drop (pr : Str) : (extPrefix pr).drop (extPrefix []).length = pr := by
  unfold extPrefix
  simp

/-- Every `ext_authz` filter of the CUSTOM builder looks for its own provider's prefix and points to
    that provider's target. -/
theorem compileCustom_ext_mem (o : BuildOpts) (c : CustomOpts) (ps : List Policy) (n r pfx : Str) (t : ExtTarget)
    (h : GFilter.extAuthz n r pfx t ∈ compileCustomSelected o c ps) :
    ∃ pr, pfx = extPrefix pr ∧ t = (c.targetOf pr).onChain o.shapeTCP := by
  unfold compileCustomSelected at h
  split at h
  · cases h
  · split at h
    · obtain ⟨pr, _, hpr⟩ := List.mem_map.1 h
      cases hpr
    · obtain ⟨pr, _, hpr⟩ := List.mem_flatMap.1 h
      split at hpr
      · split at hpr
        · cases hpr
        · unfold customFilters at hpr
          simp only [List.mem_cons, List.not_mem_nil, or_false, reduceCtorEq, false_or,
            GFilter.extAuthz.injEq] at hpr
          exact ⟨pr, hpr.2.2.1, hpr.2.2.2⟩
      · simp only [List.mem_singleton, reduceCtorEq] at hpr

/-- **CUSTOM, where the request is sent**: the targets (service kind, cluster, authority, failure mode,
    status on error, path prefix) of the `ext_authz` filters the chain consults for a request are
    exactly the targets the mesh config gives the providers the statement says must be asked. -/
theorem ext_authz_targets_chain (w : Workload) (o : BuildOpts) (c : CustomOpts) (ps : List Policy) (req : Request)
    (h : hypsOnB o (selectPolicies w ps) req = true) (hiso : customIsolatedB o (selectPolicies w ps) = true) :
    extAuthzTargets (compileAll w o c ps) none req =
      specAskTargets w o.bundle c o.forTCP o.shapeTCP ps req := by
  have hf : ∀ n r pfx t, GFilter.extAuthz n r pfx t ∈ compileAll w o c ps →
      t = (c.targetOf (pfx.drop (extPrefix []).length)).onChain o.shapeTCP := by
    intro n r pfx t hm
    unfold compileAll at hm
    rcases List.mem_append.1 hm with hm | hm
    · obtain ⟨pr, rfl, rfl⟩ := compileCustom_ext_mem o c _ n r pfx t hm
      rw [extPrefix_drop]
    · obtain ⟨fl, _, hfl⟩ := List.mem_map.1 hm
      cases hfl
  rw [extAuthzTargets_eq _ _ hf, ext_authz_asked_chain w o c ps req h hiso]
  unfold specAskTargets
  rw [List.map_map]
  apply List.map_congr_left
  intro pr _
  simp only [Function.comp, extPrefix_drop]

/-- Where `CustomIsolated` fails (multi-provider feature on): providers `x` and `x-ns`.  The request
    matches only the policy of provider `x`; its RBAC filter stores the id
    `istio-ext-authz-x-ns[foo]-policy[a]-rule[0]`, which also starts with `istio-ext-authz-x-ns`, the
    prefix provider `x-ns` looks for: `x-ns`'s authorizer is consulted although none of its policies
    matches (observation in notes/C08.md; provider names are not generated that way). -/
theorem ext_authz_prefix_quirk_witness :
    let c : CustomOpts := { providers := ["x".toList, "x-ns".toList], multi := true }
    let ps : List Policy :=
      [ { ns := "foo".toList, name := "a".toList, action := .custom, provider := "x".toList,
          rules := [ { tos := [ { methods := ["GET".toList] } ] } ] },
        { ns := "foo".toList, name := "b".toList, action := .custom, provider := "x-ns".toList,
          rules := [ { tos := [ { methods := ["POST".toList] } ] } ] } ]
    extAuthzEnabled (compileAll exWl exOpts c ps) none (aliasReq "cluster.local") =
      [extPrefix "x".toList, extPrefix "x-ns".toList] ∧
    specAsksOn exWl exOpts.bundle c false false ps (aliasReq "cluster.local") = ["x".toList] ∧
    customIsolatedB exOpts ps = false := by decide

/-- `opa` before `opa2`: the ids of `opa2` carry `opa`'s prefix, but `opa`'s filters come first - the
    hypothesis holds (only the continuing direction matters). -/
example :
    customIsolatedB exOpts
      [ { ns := "foo".toList, name := "a".toList, action := .custom, provider := "opa".toList, rules := [{}] },
        { ns := "foo".toList, name := "b".toList, action := .custom, provider := "opa2".toList, rules := [{}] } ] = true := by
  decide

/-! ## The authz plugin: lazy cache, listener class, termination builder -/

/-- The cache only ever holds what a fresh build would give. -/
def Plugin.ok (fresh : Call → List GFilter) (p : Plugin) : Prop :=
  (∀ f, p.tcp = some f → f = fresh .tcp) ∧ (∀ f, p.http = some f → f = fresh (.http false))

theorem plugin_call_ok (fresh : Call → List GFilter) (p : Plugin) (c : Call) (h : p.ok fresh) :
    (p.call fresh c).2 = callResult fresh c ∧ (p.call fresh c).1.ok fresh := by
  cases c with
  | tcp =>
    unfold Plugin.call
    cases ht : p.tcp with
    | some f => exact ⟨h.1 f ht, h⟩
    | none => exact ⟨rfl, ⟨fun f hf => by simpa using hf.symm, h.2⟩⟩
  | tcpHttp => exact ⟨rfl, h⟩
  | http out =>
    cases out with
    | true => exact ⟨rfl, h⟩
    | false =>
      unfold Plugin.call
      cases hh : p.http with
      | some f => exact ⟨h.2 f hh, h⟩
      | none => exact ⟨rfl, ⟨h.1, fun f hf => by simpa using hf.symm⟩⟩

/-- **The plugin's lazy cache is transparent**: whatever sequence of `BuildTCP` / `BuildHTTP(class)` /
    `BuildTCPRulesAsHTTPFilter` calls the listener builder makes on one plugin builder, every call
    yields what a fresh build yields for it - nothing for sidecar outbound listeners, the same
    filters for sidecar inbound and gateway listeners. -/
theorem plugin_cache_transparent (fresh : Call → List GFilter) (p : Plugin) (h : p.ok fresh) (cs : List Call) :
    Plugin.run fresh p cs = cs.map (callResult fresh) := by
  induction cs generalizing p with
  | nil => rfl
  | cons c cs ih =>
    have := plugin_call_ok fresh p c h
    simp only [Plugin.run, List.map_cons]
    rw [this.1, ih _ this.2]

theorem plugin_run_new (fresh : Call → List GFilter) (cs : List Call) :
    Plugin.run fresh {} cs = cs.map (callResult fresh) :=
  plugin_cache_transparent fresh {} (by
    constructor <;> intro f hf <;> exact absurd hf (by simp)) cs

/-- Every filter list a plugin builder hands out (sidecar outbound aside) decides as the statement
    says for the chain kind it was built for - through the cache as well. -/
theorem plugin_call_exact (w : Workload) (bundle : List Str) (useAuth : Bool) (c : CustomOpts) (ps : List Policy)
    (req : Request) (calls : List Call) (i : Nat) (call : Call) (hi : calls[i]? = some call)
    (hout : call ≠ .http true)
    (h : ∀ o : BuildOpts, o.bundle = bundle → o.useAuth = useAuth → hypsOnB o (selectPolicies w ps) req = true) :
    ((Plugin.run (buildFresh w bundle useAuth c ps) {} calls)[i]?).map (evalGs · req) =
      some (specDecisionOn w bundle c (call != .http false) ps req) := by
  rw [plugin_run_new, List.getElem?_map, hi, Option.map_some, Option.map_some]
  congr 1
  cases call with
  | tcp => exact compile_all_exact_checked w _ c ps req (h _ rfl rfl)
  | tcpHttp => exact compile_all_exact_checked w _ c ps req (h _ rfl rfl)
  | http out =>
    cases out with
    | true => exact absurd rfl hout
    | false => exact compile_all_exact_checked w _ c ps req (h _ rfl rfl)

end IstioModel.C08
