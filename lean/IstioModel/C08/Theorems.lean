/-
C08 - Generated RBAC decides every request as AuthorizationPolicy semantics say.

Compiler-correctness theorems about the executable model of the Istio compiler (Model.lean),
the Envoy RBAC semantics (Envoy.lean) and the policy semantics (Spec.lean).  The value -> matcher
theorems are in Atoms.lean, helper lemmas in Lemmas.lean / Rules.lean.
-/
import IstioModel.C08.Rules

namespace IstioModel.C08

/-! ## 6. Main theorems -/

/-- Hypotheses shared by the main theorems, each an explicit predicate on the inputs:
    * `mig`   trust-domain migration leaves the rules unchanged (aliases: `trustdomain_alias_correct`);
    * `exact` every generated matcher means the policy value on this request (discharged by the
              `matcher_correct_*` theorems: `rulesExact_of_scope`);
    * `names` the generated policy names are distinct. -/
structure Hyps (o : BuildOpts) (ps : List Policy) (req : Request) : Prop where
  mig : ∀ p ∈ ps, ∀ r ∈ p.rules, MigrationNoop o p.ns r
  exact : ∀ p ∈ ps, ∀ r ∈ p.rules, RuleExact o req p.ns r
  names : EntriesDistinct o ps

/-- Nothing in the policies is untranslatable on this listener (every value parses, every
    map-style key is well formed, no HTTP-only field on a TCP chain). -/
def Translatable (o : BuildOpts) (ps : List Policy) : Prop :=
  ∀ p ∈ ps, ∀ r ∈ p.rules, RuleTranslated o p.ns r

theorem ruleVerdict_exact (o : BuildOpts) (allow : Bool) (req : Request) (p : Policy) (r : Rule)
    (hmig : MigrationNoop o p.ns r) (hex : RuleExact o req p.ns r) (htr : RuleTranslated o p.ns r) :
    ruleVerdict o allow p.ns req r = ruleMatches p.ns r req := by
  unfold ruleVerdict
  cases h : compileRule o allow p.ns r with
  | some e => exact compileRule_exact o allow req p.ns r e h hmig hex (Or.inr htr)
  | none => exact (compileRule_none o allow req p.ns r h hmig (Or.inr htr)).symm

/-- ALLOW: the generated policy of a rule never matches more than the rule. -/
theorem ruleVerdict_allow_le (o : BuildOpts) (req : Request) (p : Policy) (r : Rule)
    (hmig : MigrationNoop o p.ns r) (hex : RuleExact o req p.ns r)
    (h : ruleVerdict o true p.ns req r = true) : ruleMatches p.ns r req = true := by
  unfold ruleVerdict at h
  cases hc : compileRule o true p.ns r with
  | some e =>
    rw [hc] at h
    rw [← compileRule_exact o true req p.ns r e hc hmig hex (Or.inl rfl)]; exact h
  | none => rw [hc] at h; cases h

/-- DENY: the generated policy of a rule never matches less than the rule. -/
theorem ruleVerdict_deny_ge (o : BuildOpts) (req : Request) (p : Policy) (r : Rule)
    (hmig : MigrationNoop o p.ns r) (hex : RuleExact o req p.ns r)
    (h : ruleMatches p.ns r req = true) : ruleVerdict o false p.ns req r = true := by
  unfold ruleVerdict
  cases hc : compileRule o false p.ns r with
  | some e => exact compileRule_deny o req p.ns r e hc hmig hex h
  | none =>
    rw [compileRule_none o false req p.ns r hc hmig (Or.inl rfl)] at h; cases h

theorem any_congr_mem {α : Type} (l : List α) (f g : α → Bool) (h : ∀ x ∈ l, f x = g x) :
    l.any f = l.any g := by
  induction l with
  | nil => rfl
  | cons a t ih => simp [h a (by simp), ih (fun x hx => h x (List.mem_cons_of_mem _ hx))]

theorem any_mono_mem {α : Type} (l : List α) (f g : α → Bool) (h : ∀ x ∈ l, f x = true → g x = true)
    (hf : l.any f = true) : l.any g = true := by
  rw [List.any_eq_true] at hf ⊢
  obtain ⟨x, hx, hfx⟩ := hf
  exact ⟨x, hx, h x hx hfx⟩

theorem enforced_subset (a : Action) (ps : List Policy) (p : Policy) (h : p ∈ enforced a ps) : p ∈ ps :=
  (List.mem_filter.1 h).1

/-- **Compiler correctness.** For the policies that apply, whenever nothing is untranslatable on
    the listener, the generated filter chain admits a request iff the policy semantics do:
    rejected if some DENY policy matches, otherwise admitted iff there is no ALLOW policy or some
    ALLOW policy matches. -/
theorem compile_correct_selected (o : BuildOpts) (ps : List Policy) (req : Request)
    (h : Hyps o ps req) (htr : Translatable o ps) :
    evalFilters (compileSelected o ps) req = decision ps req := by
  rw [compileSelected_eval o req ps h.names]
  have hpm : ∀ allow, ∀ p ∈ ps, compiledPolicyMatch o allow req p = policyMatches p req := by
    intro allow p hp
    unfold compiledPolicyMatch policyMatches
    apply any_congr_mem
    intro r hr
    exact ruleVerdict_exact o allow req p r (h.mig p hp r hr) (h.exact p hp r hr) (htr p hp r hr)
  rw [any_congr_mem _ _ _ (fun p hp => hpm false p (enforced_subset _ _ p hp)),
    any_congr_mem (enforced .allow ps) _ _ (fun p hp => hpm true p (enforced_subset _ _ p hp))]
  unfold decision
  cases (enforced Action.deny ps).any (policyMatches · req) <;>
    cases (enforced Action.allow ps).isEmpty <;> simp

/-- `compile_correct_http`: on an HTTP filter chain, for every workload, policy set and request. -/
theorem compile_correct_http (w : Workload) (o : BuildOpts) (ps : List Policy) (req : Request)
    (_hhttp : o.forTCP = false)
    (h : Hyps o (selectPolicies w ps) req) (htr : Translatable o (selectPolicies w ps)) :
    evalFilters (compile w o ps) req = specDecision w ps req :=
  compile_correct_selected o (selectPolicies w ps) req h htr

/-- **Never more permissive** (any listener, nothing assumed translatable): a request the generated
    filters admit is admitted by the policy semantics. Untranslatable ALLOW rules are dropped,
    untranslatable DENY conditions are ignored. -/
theorem compile_sound_selected (o : BuildOpts) (ps : List Policy) (req : Request)
    (h : Hyps o ps req) (hc : evalFilters (compileSelected o ps) req = true) :
    decision ps req = true := by
  rw [compileSelected_eval o req ps h.names] at hc
  simp only [Bool.and_eq_true, Bool.not_eq_true', Bool.or_eq_true] at hc
  obtain ⟨hd, ha⟩ := hc
  have hdeny : (enforced .deny ps).any (policyMatches · req) = false := by
    cases hx : (enforced .deny ps).any (policyMatches · req) with
    | false => rfl
    | true =>
      have := any_mono_mem _ _ (compiledPolicyMatch o false req) (fun p hp hpm => by
        have hp' := enforced_subset _ _ p hp
        unfold policyMatches at hpm
        unfold compiledPolicyMatch
        rw [List.any_eq_true] at hpm ⊢
        obtain ⟨r, hr, hrm⟩ := hpm
        exact ⟨r, hr, ruleVerdict_deny_ge o req p r (h.mig p hp' r hr) (h.exact p hp' r hr) hrm⟩) hx
      rw [this] at hd; cases hd
  unfold decision
  rw [hdeny]
  simp only [Bool.false_eq_true, if_false]
  rcases ha with ha | ha
  · simp [ha]
  · have := any_mono_mem _ _ (policyMatches · req) (fun p hp hpm => by
      have hp' := enforced_subset _ _ p hp
      unfold compiledPolicyMatch at hpm
      unfold policyMatches
      rw [List.any_eq_true] at hpm ⊢
      obtain ⟨r, hr, hrm⟩ := hpm
      exact ⟨r, hr, ruleVerdict_allow_le o req p r (h.mig p hp' r hr) (h.exact p hp' r hr) hrm⟩) ha
    split
    · rfl
    · exact this

/-- `compile_failclosed_tcp` (and HTTP alike): the generated chain is never more permissive than
    the policy, pointwise on requests. -/
theorem compile_failclosed (w : Workload) (o : BuildOpts) (ps : List Policy) (req : Request)
    (h : Hyps o (selectPolicies w ps) req)
    (hc : evalFilters (compile w o ps) req = true) : specDecision w ps req = true :=
  compile_sound_selected o (selectPolicies w ps) req h hc

theorem compile_failclosed_tcp (w : Workload) (o : BuildOpts) (ps : List Policy) (req : Request)
    (_htcp : o.forTCP = true) (h : Hyps o (selectPolicies w ps) req)
    (hc : evalFilters (compile w o ps) req = true) : specDecision w ps req = true :=
  compile_failclosed w o ps req h hc




/-! ## 7. Discharging the hypotheses: decidable scope predicates -/

theorem ruleExact_of_scope (o : BuildOpts) (req : Request) (pns : Str) (r : Rule)
    (hs : ruleInScope pns r = true) (hr : req.peerOK = true) : RuleExact o req pns r := by
  intro m hm rl hrl mr hmr
  unfold ruleInScope at hs
  simp only [hm, List.all_eq_true] at hs
  have h := hs rl hrl mr hmr
  simp only [mruleInScope, Bool.and_eq_true, Bool.not_eq_true', List.all_eq_true] at h
  constructor
  · intro _ v hv
    exact matcher_correct_principals mr.g mr.key v o.forTCP o.useAuth req (h.2 v hv) hr
  · intro hext; rw [h.1] at hext; cases hext

theorem migrationNoop_of_B (o : BuildOpts) (pns : Str) (r : Rule) (h : migrationNoopB o pns r = true) :
    MigrationNoop o pns r := by
  intro m hm
  unfold migrationNoopB at h
  simpa [hm] using h

theorem ruleTranslated_of_B (o : BuildOpts) (pns : Str) (r : Rule) (h : ruleTranslatedB o pns r = true) :
    RuleTranslated o pns r := by
  intro m hm
  unfold ruleTranslatedB at h
  simpa [hm] using h

theorem entriesDistinct_of_B (o : BuildOpts) (ps : List Policy) (h : entriesDistinctB o ps = true) :
    EntriesDistinct o ps := by
  intro allow
  simp only [entriesDistinctB, List.all_cons, List.all_nil, Bool.and_true, Bool.and_eq_true,
    decide_eq_true_eq] at h
  cases allow
  · exact h.2
  · exact h.1

theorem hyps_of_B (o : BuildOpts) (ps : List Policy) (req : Request) (h : hypsB o ps req = true) :
    Hyps o ps req := by
  simp only [hypsB, Bool.and_eq_true, List.all_eq_true] at h
  obtain ⟨⟨h1, h2⟩, h3⟩ := h
  exact { mig := fun p hp r hr => migrationNoop_of_B o p.ns r (h1 p hp r hr).1
          exact := fun p hp r hr => ruleExact_of_scope o req p.ns r (h1 p hp r hr).2 h2
          names := entriesDistinct_of_B o ps h3 }

theorem translatable_of_B (o : BuildOpts) (ps : List Policy) (h : translatableB o ps = true) :
    Translatable o ps := by
  intro p hp r hr
  simp only [translatableB, List.all_eq_true] at h
  exact ruleTranslated_of_B o p.ns r (h p hp r hr)

/-- `compile_correct_http`, hypotheses as computable checks (what the driver evaluates on every
    generated case). -/
theorem compile_correct_http_checked (w : Workload) (o : BuildOpts) (ps : List Policy) (req : Request)
    (hhttp : o.forTCP = false)
    (h : hypsB o (selectPolicies w ps) req = true) (htr : translatableB o (selectPolicies w ps) = true) :
    evalFilters (compile w o ps) req = specDecision w ps req :=
  compile_correct_http w o ps req hhttp (hyps_of_B _ _ _ h) (translatable_of_B _ _ htr)

theorem compile_failclosed_checked (w : Workload) (o : BuildOpts) (ps : List Policy) (req : Request)
    (h : hypsB o (selectPolicies w ps) req = true)
    (hc : evalFilters (compile w o ps) req = true) : specDecision w ps req = true :=
  compile_failclosed w o ps req (hyps_of_B _ _ _ h) hc




/-! ## 8. Filter order, AUDIT and dry-run -/

/-- The action a generated filter was built for (its rules, or its shadow rules when every policy
    of that action is dry-run). -/
def Filter.action (f : Filter) : Option RAction :=
  match f.rules, f.shadow with
  | some r, _ => some r.action
  | none, some r => some r.action
  | none, none => none

theorem buildAction_action (o : BuildOpts) (a : RAction) (ps : List Policy) :
    (optFilter o.forTCP (buildAction o a ps)).map Filter.action = if ps.isEmpty then [] else [some a] := by
  unfold buildAction
  by_cases h : ps = []
  · simp [h, optFilter]
  · have hne : ps.isEmpty = false := by simpa using h
    simp only [hne, Bool.false_eq_true, if_false, optFilter, List.map_cons, List.map_nil, toFilter,
      Filter.action]
    by_cases h1 : ps.any (fun p => !p.dryRun) = true
    · simp [h1]
    · have h1' : ps.any (fun p => !p.dryRun) = false := by simpa using h1
      have h2 : ps.any (·.dryRun) = true := by
        cases ps with
        | nil => exact absurd rfl h
        | cons p t =>
          simp only [List.any_cons, Bool.or_eq_false_iff, Bool.not_eq_false'] at h1'
          simp [h1'.1]
      simp [h1', h2]

/-- `filter_order`: at most one filter per action, in the order AUDIT (LOG), DENY, ALLOW - a DENY
    filter always precedes the ALLOW filter. -/
theorem filter_order (o : BuildOpts) (ps : List Policy) :
    ((compileSelected o ps).map Filter.action).Sublist [some .log, some .deny, some .allow] := by
  unfold compileSelected
  simp only [List.map_append, buildAction_action]
  split <;> split <;> split <;> simp

theorem eval_log_filter (o : BuildOpts) (req : Request) (ps : List Policy) :
    evalFilters (optFilter o.forTCP (buildAction o .log ps)) req = true := by
  unfold buildAction
  by_cases h : ps.isEmpty = true
  · simp [h, optFilter, evalFilters]
  · have h' : ps.isEmpty = false := by simpa using h
    simp only [h', Bool.false_eq_true, if_false, optFilter, evalFilters, List.all_cons, List.all_nil, Bool.and_true,
      evalFilter, toFilter]
    by_cases hany : ps.any (fun p => !p.dryRun) = true
    · simp only [hany, if_true]; rfl
    · have hany' : ps.any (fun p => !p.dryRun) = false := by simpa using hany
      simp only [hany', Bool.false_eq_true, if_false]

/-- `filter_order`, second half: AUDIT policies never change the decision. -/
theorem audit_never_changes_decision (o : BuildOpts) (ps : List Policy) (req : Request) :
    evalFilters (compileSelected o ps) req =
      evalFilters (compileSelected o (ps.filter (fun p => p.action != .audit))) req := by
  have happ : ∀ a b : List Filter, evalFilters (a ++ b) req = (evalFilters a req && evalFilters b req) := by
    intro a b; simp [evalFilters]
  unfold compileSelected
  rw [happ, happ, happ, happ, eval_log_filter, eval_log_filter]
  have hd : (ps.filter (fun p => p.action != .audit)).filter (·.action == .deny) = ps.filter (·.action == .deny) := by
    rw [List.filter_filter]
    apply List.filter_congr
    intro p _
    cases p.action <;> rfl
  have ha : (ps.filter (fun p => p.action != .audit)).filter (·.action == .allow) = ps.filter (·.action == .allow) := by
    rw [List.filter_filter]
    apply List.filter_congr
    intro p _
    cases p.action <;> rfl
  rw [hd, ha]

theorem enforced_nodry (a : Action) (ps : List Policy) :
    enforced a (ps.filter (fun p => !p.dryRun)) = enforced a ps := by
  unfold enforced
  rw [List.filter_filter]
  apply List.filter_congr
  intro p _
  cases p.dryRun <;> simp

/-- Dry-run (shadow) policies never change the decision. -/
theorem dryrun_never_changes_decision (o : BuildOpts) (ps : List Policy) (req : Request)
    (hnd : EntriesDistinct o ps) :
    evalFilters (compileSelected o ps) req =
      evalFilters (compileSelected o (ps.filter (fun p => !p.dryRun))) req := by
  rw [compileSelected_eval o req ps hnd, compileSelected_eval o req _ (hnd.filter _),
    enforced_nodry, enforced_nodry]




/-! ## 10. TCP filter chains: HTTP-only fields -/

/-- The operation sets one of the HTTP-only fields (hosts, methods, paths or their negations). -/
def Operation.usesHttp (o : Operation) : Bool :=
  !(o.hosts.isEmpty && o.notHosts.isEmpty && o.methods.isEmpty && o.notMethods.isEmpty &&
    o.paths.isEmpty && o.notPaths.isEmpty)

/-- The operation with its HTTP-only fields removed (ports stay). -/
def Operation.eraseHttp (o : Operation) : Operation := { ports := o.ports, notPorts := o.notPorts }

def Rule.eraseHttpOps (r : Rule) : Rule := { r with tos := r.tos.map Operation.eraseHttp }

def Gen.httpOnlyPerm : Gen → Bool
  | .host | .method | .path => true
  | _ => false

theorem genPermission_tcp_none (g : Gen) (key v : Str) (h : g.httpOnlyPerm = true) :
    genPermission g key v true = none := by
  cases g <;> simp [Gen.httpOnlyPerm] at h <;> simp [genPermission]

theorem httpOnly_not_extended (g : Gen) (h : g.httpOnlyPerm = true) : g.extended = false := by
  cases g <;> simp [Gen.httpOnlyPerm] at h <;> rfl

theorem collect_allow_none (f : Str → Option Matcher) (vs : List Str) (hf : ∀ v, f v = none)
    (hne : vs ≠ []) : collect true f vs = none := by
  cases vs with
  | nil => exact absurd rfl hne
  | cons v t => simp [collect, hf v]

theorem collect_deny_nil (f : Str → Option Matcher) (vs : List Str) (hf : ∀ v, f v = none) :
    collect false f vs = some [] := by
  induction vs with
  | nil => rfl
  | cons v t ih => simp [collect, hf v, ih]

/-- ALLOW on TCP: a model rule of an HTTP-only field makes the generation fail. -/
theorem rulePermission_tcp_allow_none (mr : MRule) (h : mr.g.httpOnlyPerm = true)
    (hne : mr.values ≠ [] ∨ mr.notValues ≠ []) : rulePermission true true mr = none := by
  unfold rulePermission
  simp only [httpOnly_not_extended mr.g h, Bool.false_eq_true, if_false]
  rcases hne with hne | hne
  · rw [collect_allow_none _ _ (fun v => genPermission_tcp_none mr.g mr.key v h) hne]
    simp [seq2]
  · rw [collect_allow_none _ mr.notValues (fun v => genPermission_tcp_none mr.g mr.key v h) hne]
    cases (collect true (genPermission mr.g mr.key · true) mr.values).map orClause <;> simp [seq2]

/-- DENY on TCP: a model rule of an HTTP-only field contributes nothing. -/
theorem rulePermission_tcp_deny_nil (mr : MRule) (h : mr.g.httpOnlyPerm = true) :
    rulePermission true false mr = some [] := by
  unfold rulePermission
  simp only [httpOnly_not_extended mr.g h, Bool.false_eq_true, if_false]
  rw [collect_deny_nil _ _ (fun v => genPermission_tcp_none mr.g mr.key v h),
    collect_deny_nil _ _ (fun v => genPermission_tcp_none mr.g mr.key v h)]
  rfl

theorem concatRules_none_of_mem (f : MRule → Option (List Matcher)) (rl : List MRule) (mr : MRule)
    (hm : mr ∈ rl) (hf : f mr = none) : concatRules f rl = none := by
  induction rl with
  | nil => simp at hm
  | cons r rs ih =>
    simp only [List.mem_cons] at hm
    simp only [concatRules]
    rcases hm with rfl | hm
    · simp [hf, seq2]
    · rw [ih hm]; cases f r <;> simp [seq2]

theorem mapAll_none_of_mem {α β : Type} (f : α → Option β) (ls : List α) (a : α) (hm : a ∈ ls)
    (hf : f a = none) : mapAll f ls = none := by
  induction ls with
  | nil => simp at hm
  | cons x xs ih =>
    simp only [List.mem_cons] at hm
    simp only [mapAll]
    rcases hm with rfl | hm
    · simp [hf]
    · rw [ih hm]; cases f x <;> simp

theorem mem_insertFront_self (g : Gen) (k : Str) (vs nvs : List Str) (l : List MRule)
    (h : vs ≠ [] ∨ nvs ≠ []) : (⟨k, vs, nvs, g⟩ : MRule) ∈ insertFront g k vs nvs l := by
  unfold insertFront
  have : (vs.isEmpty && nvs.isEmpty) = false := by
    rcases h with h | h
    · have : vs.isEmpty = false := by simpa using h
      simp [this]
    · have : nvs.isEmpty = false := by simpa using h
      simp [this]
  simp [this]

theorem mem_insertFront_of_mem (g : Gen) (k : Str) (vs nvs : List Str) (l : List MRule) (mr : MRule)
    (h : mr ∈ l) : mr ∈ insertFront g k vs nvs l := by
  unfold insertFront
  split
  · exact h
  · exact List.mem_cons_of_mem _ h

/-- An operation that uses an HTTP-only field yields a model rule of an HTTP-only generator. -/
theorem operationRules_http_mem (o : Operation) (base : List MRule) (h : o.usesHttp = true) :
    ∃ mr ∈ operationRules o base, mr.g.httpOnlyPerm = true ∧ (mr.values ≠ [] ∨ mr.notValues ≠ []) := by
  unfold Operation.usesHttp at h
  simp only [Bool.not_eq_true', Bool.and_eq_false_iff, List.isEmpty_eq_false_iff] at h
  unfold operationRules
  rcases h with ((((h | h) | h) | h) | h) | h
  · exact ⟨_, mem_insertFront_self _ _ _ _ _ (Or.inl h), rfl, Or.inl h⟩
  · exact ⟨_, mem_insertFront_self _ _ _ _ _ (Or.inr h), rfl, Or.inr h⟩
  · exact ⟨_, mem_insertFront_of_mem _ _ _ _ _ _ (mem_insertFront_self _ _ _ _ _ (Or.inl h)), rfl, Or.inl h⟩
  · exact ⟨_, mem_insertFront_of_mem _ _ _ _ _ _ (mem_insertFront_self _ _ _ _ _ (Or.inr h)), rfl, Or.inr h⟩
  · exact ⟨_, mem_insertFront_of_mem _ _ _ _ _ _ (mem_insertFront_of_mem _ _ _ _ _ _
      (mem_insertFront_self _ _ _ _ _ (Or.inl h))), rfl, Or.inl h⟩
  · exact ⟨_, mem_insertFront_of_mem _ _ _ _ _ _ (mem_insertFront_of_mem _ _ _ _ _ _
      (mem_insertFront_self _ _ _ _ _ (Or.inr h))), rfl, Or.inr h⟩

/-- **TCP, ALLOW: the whole rule is dropped.** On a TCP filter chain a rule of an ALLOW policy with
    an operation that uses an HTTP-only field generates no Envoy policy at all (it matches
    nothing). -/
theorem tcp_allow_rule_dropped (o : BuildOpts) (pns : Str) (r : Rule) (htcp : o.forTCP = true)
    (op : Operation) (hop : op ∈ r.tos) (hu : op.usesHttp = true) :
    compileRule o true pns r = none := by
  unfold compileRule
  cases hm : newModel pns r with
  | none => rfl
  | some m =>
    simp only
    unfold newModel at hm
    cases hb : baseRules pns r.whens [] [] with
    | none => simp [hb] at hm
    | some bb =>
      obtain ⟨bperm, bprin⟩ := bb
      simp only [hb, Option.some.injEq] at hm
      subst hm
      have hne : r.tos.isEmpty = false := by
        cases hr : r.tos with
        | nil => rw [hr] at hop; simp at hop
        | cons _ _ => rfl
      obtain ⟨mr, hmr, hg, hv⟩ := operationRules_http_mem op bperm hu
      unfold generate migrateTrustDomain
      simp only [hne, Bool.false_eq_true, if_false, htcp]
      rw [mapAll_none_of_mem (generatePermission true true) _ (operationRules op bperm)
        (List.mem_map.2 ⟨op, hop, rfl⟩)]
      unfold generatePermission
      rw [concatRules_none_of_mem _ _ mr hmr (rulePermission_tcp_allow_none mr hg hv)]
      rfl


theorem seq2_nil_left (x : Option (List Matcher)) : seq2 (some []) x = x := by
  cases x <;> simp [seq2]

theorem concatRules_insertFront_nil (f : MRule → Option (List Matcher)) (g : Gen) (k : Str)
    (vs nvs : List Str) (l : List MRule) (hf : f ⟨k, vs, nvs, g⟩ = some []) :
    concatRules f (insertFront g k vs nvs l) = concatRules f l := by
  unfold insertFront
  split
  · rfl
  · simp [concatRules, hf, seq2_nil_left]

theorem insertFront_nil (g : Gen) (k : Str) (l : List MRule) : insertFront g k [] [] l = l := by
  simp [insertFront]

/-- DENY on TCP: the permission generated for an operation is the one generated for the operation
    without its HTTP-only fields. -/
theorem generatePermission_tcp_deny_erase (op : Operation) (base : List MRule) :
    generatePermission true false (operationRules op base) =
      generatePermission true false (operationRules op.eraseHttp base) := by
  unfold generatePermission operationRules Operation.eraseHttp
  simp only [insertFront_nil]
  rw [concatRules_insertFront_nil _ _ _ _ _ _ (rulePermission_tcp_deny_nil _ rfl),
    concatRules_insertFront_nil _ _ _ _ _ _ (rulePermission_tcp_deny_nil _ rfl),
    concatRules_insertFront_nil _ _ _ _ _ _ (rulePermission_tcp_deny_nil _ rfl)]

theorem mapAll_map_congr {α β γ : Type} (f : β → Option γ) (g1 g2 : α → β) (l : List α)
    (h : ∀ x ∈ l, f (g1 x) = f (g2 x)) : mapAll f (l.map g1) = mapAll f (l.map g2) := by
  induction l with
  | nil => rfl
  | cons a t ih =>
    simp only [List.map_cons, mapAll, h a (by simp), ih (fun x hx => h x (List.mem_cons_of_mem _ hx))]

/-- **TCP, DENY (and AUDIT): enforced on the remaining conditions.** On a TCP filter chain the
    Envoy policy generated for a rule of a DENY policy is exactly the one generated for the rule
    with the HTTP-only operation fields removed. -/
theorem tcp_deny_rule_remaining (o : BuildOpts) (pns : Str) (r : Rule) (htcp : o.forTCP = true) :
    compileRule o false pns r = compileRule o false pns r.eraseHttpOps := by
  unfold compileRule newModel nBasePrincipals Rule.eraseHttpOps
  simp only
  cases hb : baseRules pns r.whens [] [] with
  | none => rfl
  | some bb =>
    obtain ⟨bperm, bprin⟩ := bb
    simp only [List.isEmpty_map, List.map_map]
    unfold generate migrateTrustDomain
    simp only [htcp]
    by_cases ht : r.tos.isEmpty = true
    · simp only [ht, if_true]
    · have ht' : r.tos.isEmpty = false := by simpa using ht
      simp only [ht', Bool.false_eq_true, if_false]
      rw [mapAll_map_congr (generatePermission true false) (fun x => operationRules x bperm)
        ((fun x => operationRules x bperm) ∘ Operation.eraseHttp) r.tos
        (fun op _ => generatePermission_tcp_deny_erase op bperm)]

/-- ... and therefore (with the hypotheses of the main theorems for the remaining rule) the
    generated policy matches exactly the requests the remaining conditions match. -/
theorem tcp_deny_enforced_on_remaining (o : BuildOpts) (req : Request) (pns : Str) (r : Rule)
    (e : EPolicy) (htcp : o.forTCP = true) (h : compileRule o false pns r = some e)
    (hmig : MigrationNoop o pns r.eraseHttpOps) (hex : RuleExact o req pns r.eraseHttpOps)
    (htr : RuleTranslated o pns r.eraseHttpOps) :
    evalPolicy e req = ruleMatches pns r.eraseHttpOps req := by
  rw [tcp_deny_rule_remaining o pns r htcp] at h
  exact compileRule_exact o false req pns r.eraseHttpOps e h hmig hex (Or.inr htr)

/-- The remaining conditions are weaker: whatever the rule matches, the remaining rule matches. -/
theorem ruleMatches_eraseHttpOps_ge (req : Request) (pns : Str) (r : Rule)
    (h : ruleMatches pns r req = true) : ruleMatches pns r.eraseHttpOps req = true := by
  unfold ruleMatches Rule.eraseHttpOps at *
  simp only [Bool.and_eq_true, Bool.or_eq_true, List.isEmpty_map, List.any_map] at h ⊢
  refine ⟨⟨h.1.1, ?_⟩, h.2⟩
  rcases h.1.2 with h2 | h2
  · exact Or.inl h2
  · right
    rw [List.any_eq_true] at h2 ⊢
    obtain ⟨op, hop, hm⟩ := h2
    refine ⟨op, hop, ?_⟩
    simp only [Function.comp, opMatches, Operation.eraseHttp, Bool.and_eq_true] at hm ⊢
    simp [specField, hm.2]
    simpa [specField] using hm.2

/-! ## 9. Non-vacuity: a concrete policy set and request meet every hypothesis -/

def exOpts : BuildOpts := { bundle := ["cluster.local".toList], forTCP := false, useAuth := true }
def exWl : Workload := { rootNs := "istio-system".toList, ns := "foo".toList, labels := [] }

def exPolicies : List Policy :=
  [ { ns := "foo".toList, name := "allow-bar".toList, action := .allow,
      rules := [ { froms := [ { principals := ["cluster.local/ns/bar/sa/sleep".toList, "*/sa/admin".toList],
                                notNamespaces := ["dev".toList] },
                              { serviceAccounts := ["bar/httpbin".toList], ipBlocks := ["10.0.0.0/8".toList] } ],
                   tos := [ { hosts := ["*.example.com".toList], methods := ["GET".toList],
                              paths := ["/admin/*".toList], notPorts := ["8080".toList] } ],
                   whens := [ ⟨"request.headers[X-Token]".toList, ["abc*".toList], []⟩ ] } ] },
    { ns := "istio-system".toList, name := "deny-admin".toList, action := .deny,
      rules := [ { tos := [ { paths := ["/admin/secret".toList] } ],
                   whens := [ ⟨"source.trustDomain".toList, [], ["cluster.local".toList]⟩ ] } ] },
    { ns := "foo".toList, name := "audit".toList, action := .audit, rules := [ {} ] } ]

def exReq : Request :=
  { srcIP := 167772161, remoteIP := 167772161, dstIP := 2, dstPort := 80, sni := [],
    peer := some ⟨"cluster.local".toList, "bar".toList, "sleep".toList⟩,
    http := some { host := "api.EXAMPLE.com".toList, method := "GET".toList, path := "/admin/x".toList,
                   headers := [("x-token".toList, "abcdef".toList)] },
    metadata := [] }

example : hypsB exOpts (selectPolicies exWl exPolicies) exReq = true := by decide
example : translatableB exOpts (selectPolicies exWl exPolicies) = true := by decide
example : evalFilters (compile exWl exOpts exPolicies) exReq = true := by decide
example : specDecision exWl exPolicies exReq = true := by decide


end IstioModel.C08
