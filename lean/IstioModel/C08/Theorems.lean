/-
C08 - Generated RBAC decides every request as AuthorizationPolicy semantics say.

Compiler-correctness theorems about the executable model of the Istio compiler (Model.lean),
the Envoy RBAC semantics (Envoy.lean) and the policy semantics (Spec.lean).  The value -> matcher
theorems are in Atoms.lean, helper lemmas in Lemmas.lean / Rules.lean.
-/
import IstioModel.C08.Rules

namespace IstioModel.C08

/-! ## 6. Main theorems -/

/-- Hypotheses shared by the main theorems, each an explicit predicate on the inputs:
    * `mig`   `MigrateTrustDomain` preserves the meaning of every rule under the statement's alias
              reading (discharged by `migrationSem_of_noop` or `migration_sem`);
    * `exact` every generated matcher means the policy value on this request (discharged by the
              `matcher_correct_*` theorems: `ruleExact_of_scope`);
    * `names` the generated policy names are distinct. -/
structure Hyps (o : BuildOpts) (ps : List Policy) (req : Request) : Prop where
  mig : ∀ p ∈ ps, ∀ r ∈ p.rules, MigrationSem o req p.ns r
  exact : ∀ p ∈ ps, ∀ r ∈ p.rules, RuleExact o req p.ns r
  names : EntriesDistinct o ps

/-- Nothing in the policies is untranslatable on this listener (every value parses, every
    map-style key is well formed, no HTTP-only field on a TCP chain). -/
def Translatable (o : BuildOpts) (ps : List Policy) : Prop :=
  ∀ p ∈ ps, ∀ r ∈ p.rules, RuleTranslated o p.ns r

theorem ruleVerdict_exact (o : BuildOpts) (allow : Bool) (req : Request) (p : Policy) (r : Rule)
    (hmig : MigrationSem o req p.ns r) (hex : RuleExact o req p.ns r) (htr : RuleTranslated o p.ns r) :
    ruleVerdict o allow p.ns req r = ruleMatches p.ns (expandRule o.bundle r) req := by
  unfold ruleVerdict
  cases h : compileRule o allow p.ns r with
  | some e => exact compileRule_exact o allow req p.ns r e h hmig hex (Or.inr htr)
  | none => exact (compileRule_none o allow req p.ns r h (Or.inr htr)).symm

/-- ALLOW: the generated policy of a rule never matches more than the rule. -/
theorem ruleVerdict_allow_le (o : BuildOpts) (req : Request) (p : Policy) (r : Rule)
    (hmig : MigrationSem o req p.ns r) (hex : RuleExact o req p.ns r)
    (h : ruleVerdict o true p.ns req r = true) : ruleMatches p.ns (expandRule o.bundle r) req = true := by
  unfold ruleVerdict at h
  cases hc : compileRule o true p.ns r with
  | some e =>
    rw [hc] at h
    rw [← compileRule_exact o true req p.ns r e hc hmig hex (Or.inl rfl)]; exact h
  | none => rw [hc] at h; cases h

/-- DENY: the generated policy of a rule never matches less than the rule. -/
theorem ruleVerdict_deny_ge (o : BuildOpts) (req : Request) (p : Policy) (r : Rule)
    (hmig : MigrationSem o req p.ns r) (hex : RuleExact o req p.ns r)
    (h : ruleMatches p.ns (expandRule o.bundle r) req = true) : ruleVerdict o false p.ns req r = true := by
  unfold ruleVerdict
  cases hc : compileRule o false p.ns r with
  | some e => exact compileRule_deny o req p.ns r e hc hmig hex h
  | none =>
    rw [compileRule_none o false req p.ns r hc (Or.inl rfl)] at h; cases h

theorem any_congr_mem {α : Type} (l : List α) (f g : α → Bool) (h : ∀ x ∈ l, f x = g x) :
    l.any f = l.any g := by
  induction l with
  | nil => rfl
  | cons a t ih => simp [h a (by simp), ih (fun x hx => h x (List.mem_cons_of_mem _ hx))]

theorem any_mono_mem {α : Type} (l : List α) (f g : α → Bool) (h : ∀ x ∈ l, f x = true → g x = true)
    (hf : l.any f = true) : l.any g = true := by
  rw [List.any_eq_true] at hf ⊢
  obtain ⟨x, hx, hfx⟩ := hf
  exact ⟨x, hx, h x hx hfx⟩

theorem enforced_subset (a : Action) (ps : List Policy) (p : Policy) (h : p ∈ enforced a ps) : p ∈ ps :=
  (List.mem_filter.1 h).1

/-- A policy matches under the alias reading iff one of its rules does. -/
def policyMatchesX (b : List Str) (p : Policy) (req : Request) : Bool :=
  p.rules.any fun r => ruleMatches p.ns (expandRule b r) req

theorem policyMatches_expand (b : List Str) (p : Policy) (req : Request) :
    policyMatches (expandPolicy b p) req = policyMatchesX b p req := by
  simp [policyMatches, expandPolicy, policyMatchesX, List.any_map, Function.comp_def]

theorem enforced_expand (a : Action) (b : List Str) (ps : List Policy) :
    enforced a (ps.map (expandPolicy b)) = (enforced a ps).map (expandPolicy b) := by
  unfold enforced
  rw [List.filter_map]
  rfl

/-- The statement's sentence over the alias-expanded policies, spelled out. -/
theorem decision_expand (b : List Str) (ps : List Policy) (req : Request) :
    decision (ps.map (expandPolicy b)) req =
      (if (enforced .deny ps).any (policyMatchesX b · req) then false
       else if (enforced .allow ps).isEmpty then true
       else (enforced .allow ps).any (policyMatchesX b · req)) := by
  unfold decision
  simp only [enforced_expand, List.any_map, Function.comp_def, policyMatches_expand, List.isEmpty_map]

/-! ## 0. Selection: `ShouldAttachPolicy` / `ListAuthorizationPolicies` = the documented attachment -/

theorem refIs_kind_excl (ref : Str × Str × Str × Str) (g g' k k' : Str) (hk : k ≠ k')
    (h : refIs ref g k = true) : refIs ref g' k' = false := by
  unfold refIs at *
  simp only [Bool.and_eq_true, beq_iff_eq] at h
  have : (ref.2.1 == k') = false := by
    rw [Bool.eq_false_iff]; intro e; rw [beq_iff_eq] at e; exact hk (h.2.symm.trans e)
  rw [this, Bool.and_false]

/-- One targetRef: the loop body of `ShouldAttachPolicy` returns `true` exactly when the reference
    designates the workload in the sense of the API documentation. -/
theorem refAttaches_eq_designates (w : Workload) (gw : Str) (p : Policy) (ref : Str × Str × Str × Str)
    (hl : lookupLabel gatewayNameLabel w.labels = some gw) :
    refAttaches w gw p ref = refDesignates w p ref := by
  unfold refAttaches refDesignates
  rw [hl]
  cases hG : refIs ref gatewayGroup "Gateway".toList with
  | true =>
    rw [refIs_kind_excl ref _ [] _ "Service".toList (by decide) hG,
      refIs_kind_excl ref _ istioNetworkingGroup _ "ServiceEntry".toList (by decide) hG,
      refIs_kind_excl ref _ gatewayGroup _ "GatewayClass".toList (by decide) hG]
    simp only [Bool.and_false, Bool.false_and, Bool.false_or, if_true, Bool.true_and]
    generalize (ref.2.2.2.isEmpty || ref.2.2.2 == w.ns) = A
    by_cases h1 : w.ns = p.ns
    · by_cases h3 : ref.2.2.1 = gw
      · subst h3; cases A <;> simp [h1]
      · have : ¬ gw = ref.2.2.1 := fun e => h3 e.symm
        have e1 : (ref.2.2.1 == gw) = false := by simpa using h3
        have e2 : (gw == ref.2.2.1) = false := by simpa using this
        cases A <;> simp [h1, e1, e2]
    · have : ¬ p.ns = w.ns := fun e => h1 e.symm
      cases A <;> simp [h1, this]
  | false =>
    simp only [Bool.false_eq_true, if_false, Bool.false_and, Bool.and_false, Bool.or_false]
    have hlast : (if (w.ns != p.ns) = true then false
        else if (!(ref.2.2.2.isEmpty || ref.2.2.2 == w.ns)) = true then false else false) = false := by
      split
      · rfl
      · split <;> rfl
    rw [hlast, Bool.or_false]
    cases hC : refIs ref gatewayGroup "GatewayClass".toList with
    | true =>
      rw [refIs_kind_excl ref _ [] _ "Service".toList (by decide) hC,
        refIs_kind_excl ref _ istioNetworkingGroup _ "ServiceEntry".toList (by decide) hC]
      simp only [Bool.and_false, Bool.false_and, Bool.false_or, if_true, Bool.and_true]
      cases (p.ns == w.rootNs) <;> cases w.waypoint <;> cases (ref.2.2.1 == waypointClassName) <;> rfl
    | false =>
      simp only [Bool.false_eq_true, if_false, Bool.and_false, Bool.false_and, Bool.or_false]
      cases hS : refIs ref [] "Service".toList with
      | true =>
        rw [refIs_kind_excl ref _ istioNetworkingGroup _ "ServiceEntry".toList (by decide) hS]
        simp only [Bool.and_false, Bool.false_and, Bool.or_false, if_true, Bool.and_true]
        congr 1
        cases w.service with
        | none => rfl
        | some s =>
          simp only [Option.any_some]
          rw [Bool.eq_iff_iff]
          simp only [Bool.and_eq_true, beq_iff_eq]
          constructor
          · rintro ⟨⟨h1, h2⟩, h3⟩; exact ⟨⟨h3, h1.symm⟩, h2.symm⟩
          · rintro ⟨⟨h3, h1⟩, h2⟩; exact ⟨⟨h1.symm, h2.symm⟩, h3⟩
      | false =>
        simp only [Bool.false_eq_true, if_false, Bool.and_false, Bool.false_and, Bool.false_or]
        cases hE : refIs ref istioNetworkingGroup "ServiceEntry".toList with
        | true =>
          simp only [if_true, Bool.and_true]
          congr 1
          cases w.service with
          | none => rfl
          | some s =>
            simp only [Option.any_some]
            rw [Bool.eq_iff_iff]
            simp only [Bool.and_eq_true, beq_iff_eq, Bool.not_eq_true']
            constructor
            · rintro ⟨⟨h1, h2⟩, h3⟩; exact ⟨⟨h3, h1.symm⟩, h2.symm⟩
            · rintro ⟨⟨h3, h1⟩, h2⟩; exact ⟨⟨h1.symm, h2.symm⟩, h3⟩
        | false => simp

/-- `ShouldAttachPolicy` = the documented attachment rule (second factor of `applies`). -/
theorem shouldAttach_eq (w : Workload) (p : Policy) :
    shouldAttach w p =
      (if p.refs.isEmpty then
         selectorMatches w p && (!isGatewayAPI w || (!w.waypoint && w.selectorGatewayPolicy))
       else isGatewayAPI w && p.refs.any (refDesignates w p)) := by
  unfold shouldAttach isGatewayAPI selectorMatches
  cases hl : lookupLabel gatewayNameLabel w.labels with
  | none =>
    simp only [Option.isSome_none, Bool.not_false, Bool.true_or, Bool.and_true, Bool.false_and]
    cases p.refs.isEmpty <;> simp
  | some gw =>
    simp only [Option.isSome_some, Bool.not_true, Bool.false_or, Bool.true_and]
    cases hr : p.refs.isEmpty with
    | true =>
      simp only [if_true]
      cases w.waypoint <;> cases w.selectorGatewayPolicy <;> simp
    | false =>
      simp only [Bool.false_eq_true, if_false]
      apply any_congr_mem
      intro ref _
      exact refAttaches_eq_designates w gw p ref hl

theorem lookupNamespaces_contains (w : Workload) (p : Policy) :
    (lookupNamespaces w).contains p.ns = nsInScope w p := by
  unfold lookupNamespaces nsInScope
  cases w.service with
  | none =>
    simp only [Option.map_none, Option.toList_none, List.append_nil, Option.any_none, Bool.or_false]
    rw [Bool.eq_iff_iff]
    simp only [List.contains_eq_mem, List.mem_cons, List.not_mem_nil, or_false, decide_eq_true_eq,
      Bool.or_eq_true, beq_iff_eq]
  | some s =>
    simp only [Option.map_some, Option.toList_some, Option.any_some]
    rw [Bool.eq_iff_iff]
    simp only [List.contains_eq_mem, List.mem_append, List.mem_cons, List.not_mem_nil, or_false,
      decide_eq_true_eq, Bool.or_eq_true, beq_iff_eq]

/-- **Selection.** The policies `GetAuthorizationPolicies` / `ListAuthorizationPolicies` /
    `ShouldAttachPolicy` hand to the builder are exactly the policies that apply to the workload by
    the API documentation (`Spec.applies`, written independently of the code's control flow). -/
theorem selectPolicies_eq_applies (w : Workload) (ps : List Policy) :
    selectPolicies w ps = ps.filter (applies w) := by
  unfold selectPolicies
  apply List.filter_congr
  intro p _
  unfold applies
  rw [lookupNamespaces_contains, shouldAttach_eq]

/-- **Compiler correctness.** For the policies that apply, whenever nothing is untranslatable on
    the listener, the generated filter chain admits a request iff the policy semantics do:
    rejected if some DENY policy matches, otherwise admitted iff there is no ALLOW policy or some
    ALLOW policy matches (policies read with the mesh's trust-domain aliases). -/
theorem compile_correct_selected (o : BuildOpts) (ps : List Policy) (req : Request)
    (h : Hyps o ps req) (htr : Translatable o ps) :
    evalFilters (compileSelected o ps) req = decision (ps.map (expandPolicy o.bundle)) req := by
  rw [compileSelected_eval o req ps h.names, decision_expand]
  have hpm : ∀ allow, ∀ p ∈ ps, compiledPolicyMatch o allow req p = policyMatchesX o.bundle p req := by
    intro allow p hp
    unfold compiledPolicyMatch policyMatchesX
    apply any_congr_mem
    intro r hr
    exact ruleVerdict_exact o allow req p r (h.mig p hp r hr) (h.exact p hp r hr) (htr p hp r hr)
  rw [any_congr_mem _ _ _ (fun p hp => hpm false p (enforced_subset _ _ p hp)),
    any_congr_mem (enforced .allow ps) _ _ (fun p hp => hpm true p (enforced_subset _ _ p hp))]
  cases (enforced Action.deny ps).any (policyMatchesX o.bundle · req) <;>
    cases (enforced Action.allow ps).isEmpty <;> simp

/-- `compile_correct_http`: on an HTTP filter chain, for every workload, policy set and request. -/
theorem compile_correct_http (w : Workload) (o : BuildOpts) (ps : List Policy) (req : Request)
    (_hhttp : o.forTCP = false)
    (h : Hyps o (selectPolicies w ps) req) (htr : Translatable o (selectPolicies w ps)) :
    evalFilters (compile w o ps) req = specDecision w o.bundle ps req := by
  unfold specDecision
  rw [← selectPolicies_eq_applies]
  exact compile_correct_selected o (selectPolicies w ps) req h htr

/-- **Never more permissive** (any listener, nothing assumed translatable): a request the generated
    filters admit is admitted by the policy semantics. Untranslatable ALLOW rules are dropped,
    untranslatable DENY conditions are ignored. -/
theorem compile_sound_selected (o : BuildOpts) (ps : List Policy) (req : Request)
    (h : Hyps o ps req) (hc : evalFilters (compileSelected o ps) req = true) :
    decision (ps.map (expandPolicy o.bundle)) req = true := by
  rw [compileSelected_eval o req ps h.names] at hc
  simp only [Bool.and_eq_true, Bool.not_eq_true', Bool.or_eq_true] at hc
  obtain ⟨hd, ha⟩ := hc
  have hdeny : (enforced .deny ps).any (policyMatchesX o.bundle · req) = false := by
    cases hx : (enforced .deny ps).any (policyMatchesX o.bundle · req) with
    | false => rfl
    | true =>
      have := any_mono_mem _ _ (compiledPolicyMatch o false req) (fun p hp hpm => by
        have hp' := enforced_subset _ _ p hp
        unfold policyMatchesX at hpm
        unfold compiledPolicyMatch
        rw [List.any_eq_true] at hpm ⊢
        obtain ⟨r, hr, hrm⟩ := hpm
        exact ⟨r, hr, ruleVerdict_deny_ge o req p r (h.mig p hp' r hr) (h.exact p hp' r hr) hrm⟩) hx
      rw [this] at hd; cases hd
  rw [decision_expand, hdeny]
  simp only [Bool.false_eq_true, if_false]
  rcases ha with ha | ha
  · simp [ha]
  · have := any_mono_mem _ _ (policyMatchesX o.bundle · req) (fun p hp hpm => by
      have hp' := enforced_subset _ _ p hp
      unfold compiledPolicyMatch at hpm
      unfold policyMatchesX
      rw [List.any_eq_true] at hpm ⊢
      obtain ⟨r, hr, hrm⟩ := hpm
      exact ⟨r, hr, ruleVerdict_allow_le o req p r (h.mig p hp' r hr) (h.exact p hp' r hr) hrm⟩) ha
    split
    · rfl
    · exact this

/-- `compile_failclosed_tcp` (and HTTP alike): the generated chain is never more permissive than
    the policy, pointwise on requests. -/
theorem compile_failclosed (w : Workload) (o : BuildOpts) (ps : List Policy) (req : Request)
    (h : Hyps o (selectPolicies w ps) req)
    (hc : evalFilters (compile w o ps) req = true) : specDecision w o.bundle ps req = true := by
  unfold specDecision
  rw [← selectPolicies_eq_applies]
  exact compile_sound_selected o (selectPolicies w ps) req h hc

theorem compile_failclosed_tcp (w : Workload) (o : BuildOpts) (ps : List Policy) (req : Request)
    (_htcp : o.forTCP = true) (h : Hyps o (selectPolicies w ps) req)
    (hc : evalFilters (compile w o ps) req = true) : specDecision w o.bundle ps req = true :=
  compile_failclosed w o ps req h hc

/-! ## 12. Extended generators: JWT audiences / presenter / claims, experimental metadata -/

theorem evalValAny_eq (l : List ValM) (x : MVal) : evalValAny l x = l.any (evalVal · x) := by
  induction l with
  | nil => simp [evalValAny]
  | cons a t ih => simp [evalValAny, ih]

theorem evalVal_orMatcher (ms : List ValM) (x : MVal) :
    evalVal (orMatcher ms) x = ms.any (evalVal · x) := by
  unfold orMatcher
  split
  · simp
  · simp [evalVal, evalValAny_eq]

theorem evalVal_str_str (v s : Str) : evalVal (.str (stringMatcher v)) (.str s) = strForm v s := by
  have := matcher_correct_string v [] s (Or.inl rfl)
  simpa [evalVal, stringMatcher] using this

theorem evalVal_stringOr_str (vs : List Str) (s : Str) :
    evalVal (stringOrMatcher vs) (.str s) = vs.any (strForm · s) := by
  unfold stringOrMatcher
  rw [evalVal_orMatcher, List.any_map]
  apply any_congr_mem
  intro v _
  exact evalVal_str_str v s

theorem evalVal_stringOr_strs (vs : List Str) (l : List Str) :
    evalVal (stringOrMatcher vs) (.strs l) = false := by
  unfold stringOrMatcher
  rw [evalVal_orMatcher, List.any_map, List.any_eq_false]
  intro v _
  simp [evalVal]

theorem evalVal_stringOr_other (vs : List Str) :
    evalVal (stringOrMatcher vs) .other = false := by
  unfold stringOrMatcher
  rw [evalVal_orMatcher, List.any_map, List.any_eq_false]
  intro v _
  simp [evalVal]

theorem any_any_comm {α β : Type} (l : List α) (m : List β) (f : α → β → Bool) :
    l.any (fun a => m.any (fun b => f a b)) = m.any (fun b => l.any (fun a => f a b)) := by
  rw [Bool.eq_iff_iff]
  simp only [List.any_eq_true]
  constructor
  · rintro ⟨a, ha, b, hb, h⟩; exact ⟨b, hb, a, ha, h⟩
  · rintro ⟨b, hb, a, ha, h⟩; exact ⟨a, ha, b, hb, h⟩

/-- The matcher Istio builds for a (possibly list-valued) JWT claim: `or [list{one_of V}, V]`. -/
theorem eval_jwtClaimsList (claims vs : List Str) (req : Request) :
    evalMeta (jwtClaimsList claims (stringOrMatcher vs)) req =
      vs.any (fun v => mvalForm v (claim req claims)) := by
  unfold evalMeta jwtClaimsList claim
  simp only
  cases h : lookupMeta req jwtFilterName (jwtPayload :: claims) with
  | none => simp [mvalForm]
  | some x =>
    cases x with
    | str s =>
      simp only [evalVal, evalValAny, evalVal_stringOr_str, Bool.or_false, Bool.false_or, mvalForm]
    | strs l =>
      simp only [evalVal, evalValAny, evalVal_stringOr_strs, Bool.or_false, mvalForm,
        evalVal_stringOr_str]
      exact any_any_comm l vs (fun s v => strForm v s)
    | other =>
      simp [evalVal, evalValAny, evalVal_stringOr_other, mvalForm]

/-- `request.auth.audiences`, `request.auth.presenter`, `request.auth.claims[..]`: the aggregated
    metadata matcher means OR over the values, for string and list claims. -/
theorem matcher_correct_jwt_claims (g : Gen) (key : Str) (vs : List Str) (tcp : Bool) (req : Request)
    (hg : g = .requestAudiences ∨ g = .requestPresenter ∨ g = .requestClaim) :
    ExtExact g key vs tcp req := by
  rcases hg with rfl | rfl | rfl
  · refine ⟨fun p hp => by simp [genExtPermission] at hp, fun p hp => ?_⟩
    cases tcp <;> simp only [genExtPrincipal, Bool.false_eq_true, if_false, if_true, Option.some.injEq] at hp
    · subst hp
      simp only [evalM, eval_jwtClaimsList, specAtom]
    · cases hp
  · refine ⟨fun p hp => by simp [genExtPermission] at hp, fun p hp => ?_⟩
    cases tcp <;> simp only [genExtPrincipal, Bool.false_eq_true, if_false, if_true, Option.some.injEq] at hp
    · subst hp
      simp only [evalM, eval_jwtClaimsList, specAtom]
    · cases hp
  · refine ⟨fun p hp => by simp [genExtPermission] at hp, fun p hp => ?_⟩
    cases tcp <;> simp only [genExtPrincipal, Bool.false_eq_true, if_false, if_true] at hp
    · cases hn : extractNameInNestedBrackets (trimPrefix attrRequestClaims key) with
      | none => simp [hn] at hp
      | some claims =>
        simp only [hn, Option.some.injEq] at hp
        subst hp
        simp only [evalM, eval_jwtClaimsList, specAtom, hn]
    · cases hp

theorem evalVal_envoyFilterValue (v : Str) (x : MVal) :
    evalVal (envoyFilterValue v) x =
      if hasPrefix lbr v && hasSuffix rbr v then
        (match x with | .strs l => l.any (strForm (trimSet "[]".toList v)) | _ => false)
      else (match x with | .str s => strForm v s | _ => false) := by
  unfold envoyFilterValue
  split
  · cases x with
    | str s => simp [evalVal]
    | strs l =>
      simp only [evalVal]
      apply any_congr_mem
      intro s _
      exact evalVal_str_str _ s
    | other => simp [evalVal]
  · cases x with
    | str s => exact evalVal_str_str v s
    | strs l => simp [evalVal]
    | other => simp [evalVal]

/-- `experimental.envoy.filters.*[key]`: string or `[list]` values against dynamic metadata. -/
theorem matcher_correct_envoy_filter (key : Str) (vs : List Str) (tcp : Bool) (req : Request) :
    ExtExact .envoyFilter key vs tcp req := by
  refine ⟨fun p hp => ?_, fun p hp => by simp [genExtPrincipal] at hp⟩
  simp only [genExtPermission] at hp
  cases hk : envoyFilterKey key with
  | none => simp [hk] at hp
  | some fk =>
    obtain ⟨f, k⟩ := fk
    simp only [hk, Option.some.injEq] at hp
    subst hp
    simp only [evalM, evalMeta, specAtom, hk]
    cases hl : lookupMeta req f [k] with
    | none => simp
    | some x =>
      simp only [evalVal_orMatcher, List.any_map]
      apply any_congr_mem
      intro v _
      simp only [Function.comp, evalVal_envoyFilterValue]
      split <;> cases x <;> rfl


/-! ## 13. requestPrincipals / request.auth.principal -/

theorem mem_reverse_iff (c : Char) (s : Str) : c ∈ s.reverse ↔ c ∈ s := List.mem_reverse

/-- Equality of `a/u` and `b/w` when the parts after the (last) slash are slash-free. -/
theorem sl_inj_last {a b u w : Str} (hu : '/' ∉ u) (hw : '/' ∉ w) : sl a u = sl b w ↔ a = b ∧ u = w := by
  constructor
  · intro h
    have := congrArg List.reverse h
    rw [sl_reverse, sl_reverse, sl_inj (by simpa using hu) (by simpa using hw)] at this
    exact ⟨List.reverse_inj.1 this.2, List.reverse_inj.1 this.1⟩
  · rintro ⟨rfl, rfl⟩; rfl

theorem sl_suffix_sl {a b u w : Str} (hu : '/' ∉ u) (hw : '/' ∉ w) :
    sl a u <:+ sl b w ↔ u = w ∧ a <:+ b := by
  rw [← List.reverse_prefix, sl_reverse, sl_reverse, sl_prefix_sl (by simpa using hu) (by simpa using hw),
    List.reverse_prefix]
  constructor
  · rintro ⟨h1, h2⟩; exact ⟨List.reverse_inj.1 h1, h2⟩
  · rintro ⟨rfl, h2⟩; exact ⟨rfl, h2⟩

theorem cut_none (c : Char) (s : Str) (h : cut c s = none) : c ∉ s := by
  induction s with
  | nil => simp
  | cons x xs ih =>
    simp only [cut] at h
    by_cases hx : x = c
    · simp [hx] at h
    · simp only [hx, if_false] at h
      cases hc : cut c xs with
      | none =>
        simp only [List.mem_cons, not_or]
        exact ⟨fun e => hx e.symm, ih hc⟩
      | some ab => obtain ⟨a, b⟩ := ab; simp [hc] at h

theorem cutLast_eq (c : Char) (s a b : Str) (h : cutLast c s = some (a, b)) :
    s = a ++ c :: b ∧ c ∉ b := by
  unfold cutLast at h
  cases hc : cut c s.reverse with
  | none => simp [hc] at h
  | some xy =>
    obtain ⟨x, y⟩ := xy
    simp only [hc, Option.some.injEq, Prod.mk.injEq] at h
    obtain ⟨rfl, rfl⟩ := h
    obtain ⟨h1, h2⟩ := cut_eq c s.reverse x y hc
    constructor
    · have := congrArg List.reverse h1
      simpa using this
    · simpa using h2

theorem cutLast_none (c : Char) (s : Str) (h : cutLast c s = none) : c ∉ s := by
  unfold cutLast at h
  cases hc : cut c s.reverse with
  | none => have := cut_none c s.reverse hc; simpa using this
  | some xy => simp [hc] at h

/-- `a/S'` is a prefix of `i/s` (S', s slash-free): either already of `i`, or `a = i` and `S'` is a prefix of `s`. -/
theorem sl_prefix_cases {I S' i s : Str} (hS : '/' ∉ S') (hs : '/' ∉ s) (h : sl I S' <+: sl i s) :
    sl I S' <+: i ∨ (I = i ∧ S' <+: s) := by
  obtain ⟨r, hr⟩ := h
  have hr' : I ++ ('/' :: (S' ++ r)) = i ++ ('/' :: s) := by simpa [sl] using hr
  rcases List.append_eq_append_iff.1 hr' with ⟨a', hi, hx⟩ | ⟨c', hI, hy⟩
  · cases a' with
    | nil =>
      simp only [List.nil_append, List.cons.injEq, true_and] at hx
      right
      exact ⟨by simpa using hi.symm, ⟨r, hx⟩⟩
    | cons c a'' =>
      simp only [List.cons_append, List.cons.injEq] at hx
      obtain ⟨rfl, hx⟩ := hx
      left
      rw [hi]
      obtain ⟨q, hq⟩ : S' <+: a'' := prefix_of_slashFree_sl hS ⟨r, hx⟩
      exact ⟨q, by simp [sl, ← hq]⟩
  · cases c' with
    | nil =>
      simp only [List.nil_append, List.cons.injEq, true_and] at hy
      right
      exact ⟨by simpa using hI, ⟨r, hy.symm⟩⟩
    | cons c c'' =>
      simp only [List.cons_append, List.cons.injEq] at hy
      obtain ⟨rfl, hy⟩ := hy
      exact absurd (by rw [hy]; simp) hs

theorem trimPrefix_star_cons (t : Str) : trimPrefix star ('*' :: t) = t := by
  simp [trimPrefix, star, List.isPrefixOf]

theorem trimSuffix_star_append (t : Str) : trimSuffix star (t ++ ['*']) = t := by
  have : star.isSuffixOf (t ++ ['*']) = true := by
    rw [List.isSuffixOf_iff_suffix]; exact ⟨t, rfl⟩
  simp [trimSuffix, this, star]

/-- the part after the last '/' of a string ending in '*' ends in '*' -/
theorem cutLast_star_end (t I S : Str) (h : t ++ ['*'] = I ++ '/' :: S) :
    ∃ S', S = S' ++ ['*'] ∧ t = I ++ '/' :: S' := by
  have hr := congrArg List.reverse h
  simp only [List.reverse_append, List.reverse_cons, List.reverse_nil, List.nil_append,
    List.singleton_append, List.append_assoc] at hr
  cases hS : S.reverse with
  | nil =>
    rw [hS] at hr
    simp at hr
  | cons c r =>
    rw [hS] at hr
    simp only [List.cons_append, List.cons.injEq] at hr
    obtain ⟨rfl, hr⟩ := hr
    refine ⟨r.reverse, ?_, ?_⟩
    · have := congrArg List.reverse hS
      simpa using this
    · have := congrArg List.reverse hr
      simpa using this

/-- The (issuer, subject) matcher pair generated for one `requestPrincipals` value means the value
    form over `<iss>/<sub>`. -/
theorem requestPrincipalPair_correct (v i s : Str) (hi : i ≠ []) (hs : s ≠ []) (hsl : '/' ∉ s)
    (hok : rpPrefixOK v i = true) :
    (evalStrM (requestPrincipalPair v).1 i && evalStrM (requestPrincipalPair v).2 s) =
      strForm v (sl i s) := by
  have hne_i : i.isEmpty = false := by simpa using hi
  have hne_s : s.isEmpty = false := by simpa using hs
  unfold requestPrincipalPair strForm
  by_cases h1 : v = star
  · simp [h1, evalStrM, rx_anyNonEmpty, hne_i, hne_s, sl]
  · simp only [h1, if_false]
    by_cases h2 : hasPrefix star v = true
    · simp only [h2, if_true]
      obtain ⟨t, rfl⟩ := (hasPrefix_star_iff v).1 h2
      cases hc : cutLast '/' ('*' :: t) with
      | some IS =>
        obtain ⟨I, S⟩ := IS
        obtain ⟨hv, hS⟩ := cutLast_eq '/' _ I S hc
        simp only [Option.isSome_some, if_true]
        cases I with
        | nil => simp at hv
        | cons c I' =>
          simp only [List.cons_append, List.cons.injEq] at hv
          obtain ⟨rfl, rfl⟩ := hv
          rw [trimPrefix_star_cons]
          have hdrop : List.drop 1 ('*' :: (I' ++ '/' :: S)) = sl I' S := rfl
          rw [hdrop]
          have hspec : hasSuffix (sl I' S) (sl i s) = (hasSuffix I' i && s == S) := by
            rw [Bool.eq_iff_iff]
            simp only [hasSuffix, List.isSuffixOf_iff_suffix, sl_suffix_sl hS hsl, Bool.and_eq_true,
              beq_iff_eq]
            constructor
            · rintro ⟨rfl, h⟩; exact ⟨h, rfl⟩
            · rintro ⟨h, rfl⟩; exact ⟨rfl, h⟩
          rw [hspec]
          by_cases hI : ('*' :: I') = star
          · have : I' = [] := by simpa [star] using hI
            subst this
            simp [evalStrM, rx_anyNonEmpty, hne_i, star, hasSuffix]
          · simp only [hI, if_false, evalStrM, Bool.false_eq_true]
      | none =>
        have hnv := cutLast_none '/' _ hc
        simp only [Option.isSome_none, Bool.false_eq_true, if_false, evalStrM, rx_anyNonEmpty, hne_i,
          Bool.not_false, Bool.true_and, trimPrefix_star_cons]
        have hv' : '/' ∉ t := fun hm => hnv (List.mem_cons_of_mem _ hm)
        have hdrop : List.drop 1 ('*' :: t) = t := rfl
        rw [hdrop, Bool.eq_iff_iff]
        simp only [hasSuffix, List.isSuffixOf_iff_suffix]
        constructor
        · rintro ⟨q, hq⟩; exact ⟨i ++ '/' :: q, by simp [sl, ← hq]⟩
        · intro h; exact suffix_of_slashFree_sl hv' h
    · have h2' : hasPrefix star v = false := Bool.eq_false_iff.2 h2
      simp only [h2', Bool.false_eq_true, if_false]
      by_cases h3 : hasSuffix star v = true
      · simp only [h3, if_true]
        obtain ⟨t, rfl⟩ := (hasSuffix_star_iff v).1 h3
        cases hc : cutLast '/' (t ++ ['*']) with
        | some IS =>
          obtain ⟨I, S⟩ := IS
          obtain ⟨hv, hS⟩ := cutLast_eq '/' _ I S hc
          simp only [Option.isSome_some, if_true]
          obtain ⟨S', rfl, rfl⟩ := cutLast_star_end t I S hv
          have hS' : '/' ∉ S' := fun hm => hS (List.mem_append_left _ hm)
          rw [trimSuffix_star_append, dropLast_append_singleton]
          have hcontains : (I ++ '/' :: S' ++ ['*']).contains '/' = true := by simp
          have hnp : hasPrefix (sl I S') i = false := by
            unfold rpPrefixOK at hok
            have h1' : ((I ++ '/' :: S' ++ ['*']) != star) = true := by simpa using h1
            simp only [h1', h2', h3, hcontains, Bool.not_false, Bool.true_and, Bool.and_true,
              dropLast_append_singleton, Bool.not_eq_true'] at hok
            exact hok
          have hspec : hasPrefix (I ++ '/' :: S') (sl i s) = (i == I && hasPrefix S' s) := by
            rw [Bool.eq_iff_iff]
            simp only [hasPrefix, List.isPrefixOf_iff_prefix, Bool.and_eq_true, beq_iff_eq]
            constructor
            · intro h
              rcases sl_prefix_cases hS' hsl h with h' | ⟨h', h''⟩
              · have : hasPrefix (sl I S') i = true := by
                  simpa [hasPrefix, List.isPrefixOf_iff_prefix] using h'
                rw [hnp] at this; cases this
              · exact ⟨h'.symm, h''⟩
            · rintro ⟨rfl, ⟨q, hq⟩⟩
              exact ⟨q, by simp [sl, ← hq]⟩
          rw [hspec]
          by_cases hSs : (S' ++ ['*']) = star
          · have : S' = [] := by
              cases S' with
              | nil => rfl
              | cons c t => simp [star] at hSs
            subst this
            simp [evalStrM, rx_anyNonEmpty, hne_s, star, hasPrefix]
          · simp only [hSs, if_false, evalStrM, Bool.false_eq_true]
        | none =>
          have hnv := cutLast_none '/' _ hc
          simp only [Option.isSome_none, Bool.false_eq_true, if_false, evalStrM, rx_anyNonEmpty, hne_s,
            Bool.not_false, Bool.and_true, trimSuffix_star_append, dropLast_append_singleton]
          have hdl : '/' ∉ t := fun hm => hnv (List.mem_append_left _ hm)
          rw [Bool.eq_iff_iff]
          simp only [hasPrefix, List.isPrefixOf_iff_prefix]
          constructor
          · intro h; exact h.trans (List.prefix_append _ _)
          · intro h; exact prefix_of_slashFree_sl hdl h
      · have h3' : hasSuffix star v = false := Bool.eq_false_iff.2 h3
        simp only [h3', Bool.false_eq_true, if_false, evalStrM]
        cases hc : cutLast '/' v with
        | some IS =>
          obtain ⟨I, S⟩ := IS
          obtain ⟨hv, hS⟩ := cutLast_eq '/' v I S hc
          simp only
          rw [Bool.eq_iff_iff]
          have : v = sl I S := hv
          simp only [Bool.and_eq_true, beq_iff_eq, this, sl_inj_last hsl hS]
        | none =>
          have hnv := cutLast_none '/' v hc
          simp only
          have : (s == ([] : Str)) = false := by simpa using hs
          rw [this, Bool.and_false]
          symm
          rw [Bool.eq_false_iff]
          intro h
          rw [beq_iff_eq] at h
          exact hnv (h ▸ slash_mem_sl i s)


theorem evalMeta_jwtClaimStr (c : Str) (m : StrM) (req : Request) :
    evalMeta (jwtClaimStr c m) req =
      match claim req [c] with
      | some (.str s) => evalStrM m s
      | _ => false := by
  unfold evalMeta jwtClaimStr claim
  simp only
  cases lookupMeta req jwtFilterName [jwtPayload, c] with
  | none => rfl
  | some x => cases x <;> simp [evalVal]

theorem eval_requestPrincipalOne (v : Str) (req : Request) (hjwt : req.jwtOK = true)
    (hv : rpValueOK v req = true) :
    evalM (requestPrincipalOne v) req = specAtom .requestPrincipal [] v req := by
  unfold requestPrincipalOne
  simp only [evalM, evalAll, Bool.and_true, evalMeta_jwtClaimStr, specAtom]
  unfold Request.jwtOK at hjwt
  unfold rpValueOK at hv
  cases hi : claim req ["iss".toList] with
  | none => simp
  | some x =>
    cases x with
    | strs l => simp
    | other => simp
    | str i =>
      cases hs : claim req ["sub".toList] with
      | none => simp
      | some y =>
        cases y with
        | strs l => simp
        | other => simp
        | str s =>
          simp only [hi, hs, Bool.and_eq_true, Bool.not_eq_true', List.isEmpty_eq_false_iff,
            List.contains_eq_mem, decide_eq_false_iff_not] at hjwt hv
          have := requestPrincipalPair_correct v i s hjwt.1.1 hjwt.1.2 hjwt.2 hv
          have hne_i : i.isEmpty = false := by simpa using hjwt.1.1
          have hne_s : s.isEmpty = false := by simpa using hjwt.1.2
          have hsl : i ++ ['/'] ++ s = sl i s := by simp [sl]
          simp only [this, hne_i, hne_s, Bool.not_false, Bool.true_and, hsl]

/-- `requestPrincipals` / `request.auth.principal`: exact under `jwtOK` and `rpValueOK` (the
    excluded case is finding 2). -/
theorem matcher_correct_request_principal (key : Str) (vs : List Str) (tcp : Bool) (req : Request)
    (hjwt : req.jwtOK = true) (hv : ∀ v ∈ vs, rpValueOK v req = true) :
    ExtExact .requestPrincipal key vs tcp req := by
  refine ⟨fun p hp => by simp [genExtPermission] at hp, fun p hp => ?_⟩
  cases tcp <;> simp only [genExtPrincipal, Bool.false_eq_true, if_false, if_true] at hp
  · have hany : evalM p req = (vs.map requestPrincipalOne).any (evalM · req) := by
      split at hp
      · rename_i one h1
        simp only [Option.some.injEq] at hp
        subst hp
        rw [h1]; simp
      · simp only [Option.some.injEq] at hp
        subst hp
        simp [evalM, evalAny_eq]
    rw [hany, List.any_map]
    apply any_congr_mem
    intro v hvm
    simp only [Function.comp]
    rw [eval_requestPrincipalOne v req hjwt (hv v hvm)]
    simp [specAtom]
  · cases hp

/-! ## 11. Trust domain aliases -/

theorem hasPrefix_star_false (s : Str) (h : '*' ∉ s) : hasPrefix star s = false := by
  cases s with
  | nil => rfl
  | cons c t =>
    simp only [List.mem_cons, not_or] at h
    simp [hasPrefix, star, List.isPrefixOf]
    exact h.1

theorem hasSuffix_star_false (s : Str) (h : '*' ∉ s) : hasSuffix star s = false := by
  rw [Bool.eq_false_iff]
  intro hs
  rw [hasSuffix, List.isSuffixOf_iff_suffix] at hs
  exact h (hs.subset (by simp [star]))

theorem tdMatch_plain (a s : Str) (ha : '*' ∉ a) (hs : '*' ∉ s) :
    (a == s || s == star || tdPrefixMatch a s || tdPrefixMatch s a || tdSuffixMatch a s || tdSuffixMatch s a) =
      (s == a) := by
  have hne : (s == star) = false := by
    rw [Bool.eq_false_iff]; intro h; rw [beq_iff_eq] at h; subst h; exact hs (by simp [star])
  simp only [tdPrefixMatch, tdSuffixMatch, hasSuffix_star_false s hs, hasSuffix_star_false a ha,
    hasPrefix_star_false s hs, hasPrefix_star_false a ha, hne, Bool.false_and, Bool.or_false]
  exact Bool.beq_comm

theorem tdStringMatch_plain (a : Str) (l : List Str) (ha : '*' ∉ a) (hl : ∀ t ∈ l, '*' ∉ t) :
    tdStringMatch a l = l.contains a := by
  unfold tdStringMatch
  induction l with
  | nil => rfl
  | cons s t ih =>
    rw [List.any_cons, tdMatch_plain a s ha (hl s (by simp)), ih (fun x hx => hl x (List.mem_cons_of_mem _ hx))]
    rw [List.contains_cons, Bool.beq_comm]

theorem loop_mem (principal tdFrom : Str) (parts tds acc : List Str) (x : Str) :
    x ∈ replaceTrustDomainsLoop principal tdFrom parts tds acc ↔
      x ∈ acc ∨ ∃ t ∈ tds, x = (if tdSuffixMatch t tdFrom then principal else replaceTD t parts) := by
  induction tds generalizing acc with
  | nil => simp [replaceTrustDomainsLoop]
  | cons t ts ih =>
    simp only [replaceTrustDomainsLoop]
    rw [ih]
    by_cases hc : acc.contains (if tdSuffixMatch t tdFrom then principal else replaceTD t parts) = true
    · simp only [hc, if_true, List.mem_cons, exists_eq_or_imp]
      constructor
      · rintro (h | h)
        · exact Or.inl h
        · exact Or.inr (Or.inr h)
      · rintro (h | h | h)
        · exact Or.inl h
        · left; rw [h]; simpa using hc
        · exact Or.inr h
    · have hc' : acc.contains (if tdSuffixMatch t tdFrom then principal else replaceTD t parts) = false := by
        simpa using hc
      simp only [hc', Bool.false_eq_true, if_false, List.mem_append, List.mem_singleton, List.mem_cons,
        exists_eq_or_imp, List.not_mem_nil, or_false]
      constructor
      · rintro ((h | h) | h)
        · exact Or.inl h
        · exact Or.inr (Or.inl h)
        · exact Or.inr (Or.inr h)
      · rintro (h | h | h)
        · exact Or.inl (Or.inl h)
        · exact Or.inl (Or.inr h)
        · exact Or.inr h

theorem tdSuffixMatch_covers (t td : Str) : tdSuffixMatch t td = coversTD td t := by
  unfold tdSuffixMatch coversTD
  by_cases h : hasPrefix star td = true
  · obtain ⟨r, rfl⟩ := (hasPrefix_star_iff td).1 h
    rw [trimPrefix_star_cons]; rfl
  · have : hasPrefix star td = false := Bool.eq_false_iff.2 h
    rw [this]; rfl

theorem tdMatch_starfree (a s : Str) (hs : '*' ∉ s) :
    (a == s || s == star || tdPrefixMatch a s || tdPrefixMatch s a || tdSuffixMatch a s || tdSuffixMatch s a) =
      (a == s || tdPrefixMatch s a || tdSuffixMatch s a) := by
  have hne : (s == star) = false := by
    rw [Bool.eq_false_iff]; intro h; rw [beq_iff_eq] at h; subst h; exact hs (by simp [star])
  have h1 : tdPrefixMatch a s = false := by simp [tdPrefixMatch, hasSuffix_star_false s hs]
  have h2 : tdSuffixMatch a s = false := by simp [tdSuffixMatch, hasPrefix_star_false s hs]
  rw [hne, h1, h2]; simp

theorem tdStringMatch_starfree (a : Str) (l : List Str) (hl : ∀ t ∈ l, '*' ∉ t) :
    tdStringMatch a l = (l.contains a || l.any (tdPrefixMatch · a) || l.any (tdSuffixMatch · a)) := by
  unfold tdStringMatch
  induction l with
  | nil => rfl
  | cons s t ih =>
    rw [List.any_cons, tdMatch_starfree a s (hl s (by simp)), ih (fun x hx => hl x (List.mem_cons_of_mem _ hx))]
    simp only [List.contains_cons, List.any_cons]
    cases (a == s) <;> cases tdPrefixMatch s a <;> cases tdSuffixMatch s a <;> cases t.contains a <;>
      cases t.any (tdPrefixMatch · a) <;> cases t.any (tdSuffixMatch · a) <;> rfl

theorem plainTD_tdPartOK (b : List Str) (v : Str) (h : plainTD v = true) : tdPartOK b v = true := by
  unfold plainTD at h
  unfold tdPartOK
  split
  · rename_i td _ _ _ _ heq
    rw [heq] at h
    simp only [Bool.or_eq_true, beq_iff_eq, Bool.not_eq_true', List.contains_eq_mem,
      decide_eq_false_iff_not] at h
    rcases h with h | h
    · simp [h]
    · have : ∀ t, tdPrefixMatch t td = false := by
        intro t; simp [tdPrefixMatch, hasSuffix_star_false td h]
      simp [this]
  · rfl

/-- **`trustdomain_alias_correct`, one value.** `Bundle.ReplaceTrustDomainAliases` produces exactly
    the values the statement's reading of aliases gives: a principal `<td>/ns/..` whose trust
    domain is in the bundle (or is `cluster.local`) is named in every trust domain of the bundle; one
    whose trust-domain part is a `*suffix` pattern covering some of the bundle stays as written and is
    named in the trust domains it does not cover; anything else stays as it is.  The one excluded
    shape (`tdPartOK`): a `prefix*` trust-domain part over a bundle member, `alias_prefix_td_witness`. -/
theorem trustdomain_alias_value (bundle : List Str) (v : Str) (hb : ∀ t ∈ bundle, '*' ∉ t)
    (hv : tdPartOK bundle v = true) (x : Str) :
    x ∈ replaceTrustDomainAliases bundle [v] ↔ x ∈ aliasValues bundle v := by
  unfold replaceTrustDomainAliases aliasValues tdPartOK at *
  simp only [List.flatMap_cons, List.flatMap_nil, List.append_nil]
  generalize hparts : splitOn '/' v = parts at *
  match parts, hv with
  | [], _ => simp
  | [_], _ => simp
  | [_, _], _ => simp
  | [_, _, _], _ => simp
  | [_, _, _, _], _ => simp
  | _ :: _ :: _ :: _ :: _ :: _ :: _, _ => simp
  | [td, a, b, c, d], hv =>
    simp only [List.length_cons, List.length_nil, Nat.zero_add, Nat.reduceAdd, bne_self_eq_false,
      List.head?_cons, Bool.false_or, List.headD_cons]
    by_cases hstar : td = star
    · subst hstar; simp
    · have hne : (some td == some star) = false := by simpa using hstar
      have hne2 : (td == star) = false := by simpa using hstar
      have hpre : bundle.any (tdPrefixMatch · td) = false := by
        simpa [hne2] using hv
      simp only [hne, Bool.false_eq_true, if_false, hne2,
        tdStringMatch_starfree td bundle hb, hpre, Bool.or_false]
      have hcov : ∀ t, tdSuffixMatch t td = coversTD td t := fun t => tdSuffixMatch_covers t td
      have hany : bundle.any (tdSuffixMatch · td) = bundle.any (coversTD td) := by
        congr 1; funext t; exact hcov t
      rw [hany]
      by_cases hc : (bundle.contains td || td == clusterLocal) = true
      · -- the trust domain is wildcard-free: no bundle member is covered
        have htd : '*' ∉ td := by
          simp only [Bool.or_eq_true, List.contains_eq_mem, decide_eq_true_eq, beq_iff_eq] at hc
          rcases hc with hc | hc
          · exact hb td hc
          · subst hc; decide
        have hnc : ∀ t, coversTD td t = false := by
          intro t; simp [coversTD, hasPrefix_star_false td htd]
        have hcond : (bundle.contains td || bundle.any (coversTD td) || td == clusterLocal) = true := by
          simp only [Bool.or_eq_true] at hc ⊢
          rcases hc with hc | hc
          · exact Or.inl (Or.inl hc)
          · exact Or.inr hc
        simp only [hcond, hc, if_true, loop_mem, List.not_mem_nil, false_or, List.mem_map, hcov, hnc,
          Bool.false_eq_true, if_false]
        constructor
        · rintro ⟨t, ht, rfl⟩
          exact ⟨t, ht, by simp [replaceTD, join]⟩
        · rintro ⟨t, ht, rfl⟩
          exact ⟨t, ht, by simp [replaceTD, join]⟩
      · have hc' : (bundle.contains td || td == clusterLocal) = false := by simpa using hc
        have hc1 : bundle.contains td = false := by
          cases h : bundle.contains td
          · rfl
          · rw [h] at hc'; simp at hc'
        have hc2 : (td == clusterLocal) = false := by
          cases h : (td == clusterLocal)
          · rfl
          · rw [h, Bool.or_true] at hc'; cases hc'
        simp only [hc', Bool.false_eq_true, if_false, hc1, hc2, Bool.false_or, Bool.or_false]
        by_cases hs : bundle.any (coversTD td) = true
        · simp only [hs, if_true, loop_mem, List.not_mem_nil, false_or, List.mem_map, hcov]
          constructor
          · rintro ⟨t, ht, rfl⟩
            refine ⟨t, ht, ?_⟩
            split <;> simp [replaceTD, join]
          · rintro ⟨t, ht, rfl⟩
            refine ⟨t, ht, ?_⟩
            split <;> simp [replaceTD, join]
        · simp only [hs, Bool.false_eq_true, if_false]

/-- ... and for a whole value list (`principals`, `notPrincipals`, `source.principal`). -/
theorem trustdomain_alias_correct (bundle : List Str) (vs : List Str) (hb : ∀ t ∈ bundle, '*' ∉ t)
    (hv : ∀ v ∈ vs, tdPartOK bundle v = true) (x : Str) :
    x ∈ replaceTrustDomainAliases bundle vs ↔ x ∈ vs.flatMap (aliasValues bundle) := by
  induction vs with
  | nil => simp [replaceTrustDomainAliases]
  | cons v t ih =>
    have h1 := trustdomain_alias_value bundle v hb (hv v (by simp)) x
    have h2 := ih (fun w hw => hv w (List.mem_cons_of_mem _ hw))
    unfold replaceTrustDomainAliases at h1 h2 ⊢
    simp only [List.flatMap_cons, List.flatMap_nil, List.append_nil, List.mem_append] at h1 h2 ⊢
    rw [h1, h2]

theorem filterDuplicates_mem (l acc : List Str) (x : Str) :
    x ∈ filterDuplicates l acc ↔ x ∈ acc ∨ x ∈ l := by
  induction l generalizing acc with
  | nil => simp [filterDuplicates]
  | cons a t ih =>
    simp only [filterDuplicates]
    rw [ih]
    by_cases hc : acc.contains a = true
    · simp only [hc, if_true, List.mem_cons]
      constructor
      · rintro (h | h)
        · exact Or.inl h
        · exact Or.inr (Or.inr h)
      · rintro (h | h | h)
        · exact Or.inl h
        · left; rw [h]; simpa using hc
        · exact Or.inr h
    · have hc' : acc.contains a = false := by simpa using hc
      simp only [hc', Bool.false_eq_true, if_false, List.mem_append, List.mem_singleton, List.mem_cons,
        List.not_mem_nil, or_false]
      constructor
      · rintro ((h | h) | h)
        · exact Or.inl h
        · exact Or.inr (Or.inl h)
        · exact Or.inr (Or.inr h)
      · rintro (h | h | h)
        · exact Or.inl (Or.inl h)
        · exact Or.inl (Or.inr h)
        · exact Or.inr h

/-- `Bundle.ExpandTrustDomainAliases`: a `trustDomains` value that is one of the mesh's trust
    domains stands for all of them. -/
theorem trustdomain_expand_correct (bundle vs : List Str) (x : Str) :
    x ∈ expandTrustDomainAliases bundle vs ↔ x ∈ vs.flatMap (aliasTD bundle) := by
  unfold expandTrustDomainAliases aliasTD
  rw [filterDuplicates_mem]
  simp

theorem any_congr_set {l1 l2 : List Str} (h : ∀ x, x ∈ l1 ↔ x ∈ l2) (f : Str → Bool) :
    l1.any f = l2.any f := by
  rw [Bool.eq_iff_iff, List.any_eq_true, List.any_eq_true]
  constructor
  · rintro ⟨x, hx, hf⟩; exact ⟨x, (h x).1 hx, hf⟩
  · rintro ⟨x, hx, hf⟩; exact ⟨x, (h x).2 hx, hf⟩

/-- Consequence for matching: with aliases, a peer matches the migrated `principals` values iff it
    matches the policy's values read in any aliased form. -/
theorem trustdomain_alias_matches (bundle vs : List Str) (hb : ∀ t ∈ bundle, '*' ∉ t)
    (hv : ∀ v ∈ vs, tdPartOK bundle v = true) (req : Request) :
    (replaceTrustDomainAliases bundle vs).any (specAtom .srcPrincipal attrSrcPrincipal · req) =
      (vs.flatMap (aliasValues bundle)).any (specAtom .srcPrincipal attrSrcPrincipal · req) :=
  any_congr_set (trustdomain_alias_correct bundle vs hb hv) _

example : replaceTrustDomainAliases ["td1".toList, "old-td".toList] ["cluster.local/ns/foo/sa/bar".toList, "*/ns/x/sa/y".toList, "other/ns/a/sa/b".toList] =
    ["td1/ns/foo/sa/bar".toList, "old-td/ns/foo/sa/bar".toList, "*/ns/x/sa/y".toList, "other/ns/a/sa/b".toList] := by decide


/-! ## 14. Trust-domain migration at rule level -/

/-- The statement's alias reading applied to one model rule. -/
def expandMRule (b : List Str) (mr : MRule) : MRule :=
  if mr.key = attrSrcPrincipal then
    { mr with values := mr.values.flatMap (aliasValues b), notValues := mr.notValues.flatMap (aliasValues b) }
  else if mr.key = attrSrcTrustDomain then
    { mr with values := mr.values.flatMap (aliasTD b), notValues := mr.notValues.flatMap (aliasTD b) }
  else mr

/-- Two model rules that differ only in the order / multiplicity of their values. -/
def MRule.equiv (x y : MRule) : Prop :=
  x.key = y.key ∧ x.g = y.g ∧ (∀ v, v ∈ x.values ↔ v ∈ y.values) ∧ (∀ v, v ∈ x.notValues ↔ v ∈ y.notValues)

theorem MRule.equiv_refl (x : MRule) : x.equiv x := ⟨rfl, rfl, fun _ => Iff.rfl, fun _ => Iff.rfl⟩

theorem MRule.equiv_trans {x y z : MRule} (h1 : x.equiv y) (h2 : y.equiv z) : x.equiv z :=
  ⟨h1.1.trans h2.1, h1.2.1.trans h2.2.1, fun v => (h1.2.2.1 v).trans (h2.2.2.1 v),
    fun v => (h1.2.2.2 v).trans (h2.2.2.2 v)⟩

theorem isEmpty_congr_set {l1 l2 : List Str} (h : ∀ x, x ∈ l1 ↔ x ∈ l2) : l1.isEmpty = l2.isEmpty := by
  cases l1 with
  | nil =>
    cases l2 with
    | nil => rfl
    | cons a t => exact absurd ((h a).2 (by simp)) (by simp)
  | cons a t =>
    cases l2 with
    | nil => exact absurd ((h a).1 (by simp)) (by simp)
    | cons _ _ => rfl

theorem fieldSem_equiv (req : Request) {x y : MRule} (h : x.equiv y) : fieldSem req x = fieldSem req y := by
  unfold fieldSem specField
  rw [h.1, h.2.1, isEmpty_congr_set h.2.2.1, any_congr_set h.2.2.1, any_congr_set h.2.2.2]

/-- Every `principals`-style value of the rule has a plain trust-domain part. -/
def mrulePlain (mr : MRule) : Bool :=
  if mr.key = attrSrcPrincipal then (mr.values ++ mr.notValues).all plainTD else true

/-- Every `principals`-style value of the rule is inside the alias reading proved for ONE application
    of `MigrateTrustDomain` (`tdPartOK`). -/
def mruleAlias (b : List Str) (mr : MRule) : Bool :=
  if mr.key = attrSrcPrincipal then (mr.values ++ mr.notValues).all (tdPartOK b) else true

theorem mrulePlain_alias (b : List Str) (mr : MRule) (h : mrulePlain mr = true) : mruleAlias b mr = true := by
  unfold mrulePlain at h
  unfold mruleAlias
  split
  · rename_i hk
    simp only [hk, if_true, List.all_eq_true] at h ⊢
    exact fun v hv => plainTD_tdPartOK b v (h v hv)
  · rfl

theorem bundleOK_star (b : List Str) (h : bundleOK b = true) : ∀ t ∈ b, '*' ∉ t := by
  intro t ht
  simp only [bundleOK, Bool.and_eq_true, List.all_eq_true, Bool.not_eq_true', List.contains_eq_mem,
    decide_eq_false_iff_not] at h
  exact (h.2 t ht).1

theorem bundleOK_slash (b : List Str) (h : bundleOK b = true) : ∀ t ∈ b, '/' ∉ t := by
  intro t ht
  simp only [bundleOK, Bool.and_eq_true, List.all_eq_true, Bool.not_eq_true', List.contains_eq_mem,
    decide_eq_false_iff_not] at h
  exact (h.2 t ht).2

theorem replace_nil (b : List Str) : replaceTrustDomainAliases b [] = [] := rfl
theorem expandTD_nil (b : List Str) : expandTrustDomainAliases b [] = [] := rfl

theorem principal_ne_td : attrSrcPrincipal ≠ attrSrcTrustDomain := by decide

/-- One application of `MigrateTrustDomain` to a rule = the alias reading (as value sets). -/
theorem migrateRule_equiv (b : List Str) (mr : MRule) (hb : bundleOK b = true) (hp : mruleAlias b mr = true) :
    (migrateRule b mr).equiv (expandMRule b mr) := by
  unfold migrateRule expandMRule
  by_cases h1 : mr.key = attrSrcPrincipal
  · simp only [h1, if_true]
    unfold mruleAlias at hp
    simp only [h1, if_true, List.all_eq_true] at hp
    refine ⟨rfl, rfl, ?_, ?_⟩
    · intro v
      by_cases he : mr.values.isEmpty = true
      · have : mr.values = [] := by simpa using he
        simp [this]
      · simp only [he, if_false]
        exact trustdomain_alias_correct b mr.values (bundleOK_star b hb)
          (fun w hw => hp w (List.mem_append_left _ hw)) v
    · intro v
      by_cases he : mr.notValues.isEmpty = true
      · have : mr.notValues = [] := by simpa using he
        simp [this]
      · simp only [he, if_false]
        exact trustdomain_alias_correct b mr.notValues (bundleOK_star b hb)
          (fun w hw => hp w (List.mem_append_right _ hw)) v
  · simp only [h1, if_false]
    by_cases h2 : mr.key = attrSrcTrustDomain
    · simp only [h2, if_true]
      refine ⟨rfl, rfl, ?_, ?_⟩
      · intro v
        by_cases he : mr.values.isEmpty = true
        · have : mr.values = [] := by simpa using he
          simp [this]
        · simp only [he, if_false]
          exact trustdomain_expand_correct b mr.values v
      · intro v
        by_cases he : mr.notValues.isEmpty = true
        · have : mr.notValues = [] := by simpa using he
          simp [this]
        · simp only [he, if_false]
          exact trustdomain_expand_correct b mr.notValues v
    · simp only [h2, if_false]
      exact MRule.equiv_refl mr


theorem join5 (t a b c d : Str) :
    join ['/'] [t, a, b, c, d] = t ++ '/' :: (a ++ '/' :: (b ++ '/' :: (c ++ '/' :: d))) := by
  simp [join]

theorem splitOn_join5 (t a b c d : Str) (ht : '/' ∉ t) (ha : '/' ∉ a) (hb : '/' ∉ b) (hc : '/' ∉ c)
    (hd : '/' ∉ d) : splitOn '/' (join ['/'] [t, a, b, c, d]) = [t, a, b, c, d] := by
  rw [join5, splitOn_sl _ _ _ ht, splitOn_sl _ _ _ ha, splitOn_sl _ _ _ hb, splitOn_sl _ _ _ hc,
    splitOn_of_not_mem _ _ hd]

theorem star_ne_of_not_mem (t : Str) (h : '*' ∉ t) : (t != star) = true := by
  simp only [bne_iff_ne, ne_eq]
  intro e; subst e; exact h (by simp [star])

theorem coversTD_false_of_starfree (td t : Str) (h : '*' ∉ td) : coversTD td t = false := by
  simp [coversTD, hasPrefix_star_false td h]

theorem beq_star_false_of_not_mem (t : Str) (h : '*' ∉ t) : (t == star) = false := by
  rw [Bool.eq_false_iff]; intro e; rw [beq_iff_eq] at e; subst e; exact h (by simp [star])

/-- Shape of `aliasValues` on a plain value: either the value itself, or its five parts under every
    bundle member. -/
theorem aliasValues_cases (b : List Str) (v : Str) (hv : plainTD v = true) :
    aliasValues b v = [v] ∨
    ∃ td a bb c d, splitOn '/' v = [td, a, bb, c, d] ∧
      aliasValues b v = b.map (fun t => join ['/'] [t, a, bb, c, d]) := by
  unfold aliasValues plainTD at *
  generalize splitOn '/' v = parts at *
  match parts, hv with
  | [], _ => exact Or.inl rfl
  | [_], _ => exact Or.inl rfl
  | [_, _], _ => exact Or.inl rfl
  | [_, _, _], _ => exact Or.inl rfl
  | [_, _, _, _], _ => exact Or.inl rfl
  | _ :: _ :: _ :: _ :: _ :: _ :: _, _ => exact Or.inl rfl
  | [td, a, bb, c, d], hv =>
    by_cases hstar : (td == star) = true
    · exact Or.inl (by simp only [hstar, if_true])
    · have hstar' : (td == star) = false := by simpa using hstar
      have htd : '*' ∉ td := by simpa [hstar'] using hv
      have hnc : b.any (coversTD td) = false := by
        rw [Bool.eq_false_iff]; intro h
        obtain ⟨t, _, ht⟩ := List.any_eq_true.1 h
        rw [coversTD_false_of_starfree td t htd] at ht; cases ht
      simp only [hstar', Bool.false_eq_true, if_false, hnc]
      split
      · exact Or.inr ⟨td, a, bb, c, d, rfl, rfl⟩
      · exact Or.inl rfl

theorem aliasValues_of_expanded (b : List Str) (hb : bundleOK b = true) (t a bb c d : Str) (ht : t ∈ b)
    (ha : '/' ∉ a) (hbb : '/' ∉ bb) (hc : '/' ∉ c) (hd : '/' ∉ d) :
    aliasValues b (join ['/'] [t, a, bb, c, d]) = b.map (fun t => join ['/'] [t, a, bb, c, d]) := by
  unfold aliasValues
  rw [splitOn_join5 t a bb c d (bundleOK_slash b hb t ht) ha hbb hc hd]
  have h1 : (b.contains t || t == clusterLocal) = true := by simp [ht]
  simp only [beq_star_false_of_not_mem t (bundleOK_star b hb t ht), Bool.false_eq_true, if_false, h1, if_true]

theorem aliasValues_idem (b : List Str) (hb : bundleOK b = true) (v x : Str) (hv : plainTD v = true)
    (hx : x ∈ aliasValues b v) : aliasValues b x = aliasValues b v := by
  rcases aliasValues_cases b v hv with h | ⟨td, a, bb, c, d, hs, h⟩
  · rw [h] at hx; simp at hx; subst hx; rfl
  · rw [h] at hx ⊢
    obtain ⟨t, ht, rfl⟩ := List.mem_map.1 hx
    have hp := splitOn_parts_not_mem '/' v
    rw [hs] at hp
    exact aliasValues_of_expanded b hb t a bb c d ht (hp a (by simp)) (hp bb (by simp)) (hp c (by simp))
      (hp d (by simp))

theorem aliasValues_self_mem (b : List Str) (hb : bundleOK b = true) (v x : Str) (hv : plainTD v = true)
    (hx : x ∈ aliasValues b v) : x ∈ aliasValues b x := by
  rw [aliasValues_idem b hb v x hv hx]; exact hx

theorem aliasValues_flat_idem (b : List Str) (hb : bundleOK b = true) (vs : List Str)
    (hvs : ∀ v ∈ vs, plainTD v = true) (y : Str) :
    y ∈ (vs.flatMap (aliasValues b)).flatMap (aliasValues b) ↔ y ∈ vs.flatMap (aliasValues b) := by
  simp only [List.mem_flatMap]
  constructor
  · rintro ⟨x, ⟨v, hv, hx⟩, hy⟩
    exact ⟨v, hv, by rw [← aliasValues_idem b hb v x (hvs v hv) hx]; exact hy⟩
  · rintro ⟨v, hv, hy⟩
    exact ⟨y, ⟨v, hv, hy⟩, aliasValues_self_mem b hb v y (hvs v hv) hy⟩

theorem aliasValues_plain (b : List Str) (hb : bundleOK b = true) (v x : Str) (hv : plainTD v = true)
    (hx : x ∈ aliasValues b v) : plainTD x = true := by
  rcases aliasValues_cases b v hv with h | ⟨td, a, bb, c, d, hs, h⟩
  · rw [h] at hx; simp at hx; subst hx; exact hv
  · rw [h] at hx
    obtain ⟨t, ht, rfl⟩ := List.mem_map.1 hx
    have hp := splitOn_parts_not_mem '/' v
    rw [hs] at hp
    unfold plainTD
    rw [splitOn_join5 t a bb c d (bundleOK_slash b hb t ht) (hp a (by simp)) (hp bb (by simp))
      (hp c (by simp)) (hp d (by simp))]
    have := bundleOK_star b hb t ht
    simp [this]

theorem aliasTD_mem_idem (b : List Str) (v x : Str) (hx : x ∈ aliasTD b v) : aliasTD b x = aliasTD b v := by
  unfold aliasTD at *
  cases hc : b.contains v with
  | true =>
    simp only [hc, if_true] at hx ⊢
    have : b.contains x = true := by simpa using hx
    rw [if_pos this]
  | false =>
    simp only [hc, Bool.false_eq_true, if_false, List.mem_singleton] at hx ⊢
    subst hx
    rw [if_neg (by rw [hc]; simp)]

theorem aliasTD_self_mem (b : List Str) (x : Str) (v : Str) (hx : x ∈ aliasTD b v) : x ∈ aliasTD b x := by
  rw [aliasTD_mem_idem b v x hx]; exact hx

theorem aliasTD_flat_idem (b : List Str) (vs : List Str) (y : Str) :
    y ∈ (vs.flatMap (aliasTD b)).flatMap (aliasTD b) ↔ y ∈ vs.flatMap (aliasTD b) := by
  simp only [List.mem_flatMap]
  constructor
  · rintro ⟨x, ⟨v, hv, hx⟩, hy⟩
    exact ⟨v, hv, by rw [← aliasTD_mem_idem b v x hx]; exact hy⟩
  · rintro ⟨v, hv, hy⟩
    exact ⟨y, ⟨v, hv, hy⟩, aliasTD_self_mem b y v hy⟩

theorem flatMap_congr_set (f : Str → List Str) {l1 l2 : List Str} (h : ∀ x, x ∈ l1 ↔ x ∈ l2) (y : Str) :
    y ∈ l1.flatMap f ↔ y ∈ l2.flatMap f := by
  simp only [List.mem_flatMap]
  constructor
  · rintro ⟨x, hx, hy⟩; exact ⟨x, (h x).1 hx, hy⟩
  · rintro ⟨x, hx, hy⟩; exact ⟨x, (h x).2 hx, hy⟩

theorem expandMRule_congr (b : List Str) {x y : MRule} (h : x.equiv y) :
    (expandMRule b x).equiv (expandMRule b y) := by
  unfold expandMRule
  rw [h.1]
  by_cases h1 : y.key = attrSrcPrincipal
  · simp only [h1, if_true]
    exact ⟨rfl, h.2.1, flatMap_congr_set _ h.2.2.1, flatMap_congr_set _ h.2.2.2⟩
  · simp only [h1, if_false]
    by_cases h2 : y.key = attrSrcTrustDomain
    · simp only [h2, if_true]
      exact ⟨rfl, h.2.1, flatMap_congr_set _ h.2.2.1, flatMap_congr_set _ h.2.2.2⟩
    · simp only [h2, if_false]
      exact h

theorem expandMRule_idem (b : List Str) (hb : bundleOK b = true) (mr : MRule) (hp : mrulePlain mr = true) :
    (expandMRule b (expandMRule b mr)).equiv (expandMRule b mr) := by
  unfold mrulePlain at hp
  unfold expandMRule
  by_cases h1 : mr.key = attrSrcPrincipal
  · simp only [h1, if_true, List.all_eq_true, List.mem_append] at hp ⊢
    exact ⟨rfl, rfl, aliasValues_flat_idem b hb _ (fun v hv => hp v (Or.inl hv)),
      aliasValues_flat_idem b hb _ (fun v hv => hp v (Or.inr hv))⟩
  · simp only [h1, if_false]
    by_cases h2 : mr.key = attrSrcTrustDomain
    · simp only [h2, if_true, principal_ne_td.symm, if_false]
      exact ⟨rfl, rfl, aliasTD_flat_idem b _, aliasTD_flat_idem b _⟩
    · simp only [h2, if_false, h1]
      exact MRule.equiv_refl mr

theorem mrulePlain_equiv {x y : MRule} (h : x.equiv y) (hp : mrulePlain y = true) : mrulePlain x = true := by
  unfold mrulePlain at *
  rw [h.1]
  by_cases h1 : y.key = attrSrcPrincipal
  · simp only [h1, if_true, List.all_eq_true, List.mem_append] at hp ⊢
    rintro v (hv | hv)
    · exact hp v (Or.inl ((h.2.2.1 v).1 hv))
    · exact hp v (Or.inr ((h.2.2.2 v).1 hv))
  · simp [h1]

theorem expandMRule_plain (b : List Str) (hb : bundleOK b = true) (mr : MRule) (hp : mrulePlain mr = true) :
    mrulePlain (expandMRule b mr) = true := by
  unfold mrulePlain expandMRule at *
  by_cases h1 : mr.key = attrSrcPrincipal
  · simp only [h1, if_true, List.all_eq_true, List.mem_append, List.mem_flatMap] at hp ⊢
    rintro x (⟨v, hv, hx⟩ | ⟨v, hv, hx⟩)
    · exact aliasValues_plain b hb v x (hp v (Or.inl hv)) hx
    · exact aliasValues_plain b hb v x (hp v (Or.inr hv)) hx
  · simp only [h1, if_false]
    by_cases h2 : mr.key = attrSrcTrustDomain
    · simp [h2, principal_ne_td.symm]
    · simp [h2, h1]

/-- Applying `MigrateTrustDomain` k >= 1 times to a plain rule (the pointer-shared `when` rules are
    rewritten once per `from` entry) is still the alias reading. -/
theorem iterate_migrate_equiv (b : List Str) (hb : bundleOK b = true) (k : Nat) (mr : MRule)
    (hp : mrulePlain mr = true) :
    (iterate (migrateRule b) (k + 1) mr).equiv (expandMRule b mr) := by
  induction k generalizing mr with
  | zero => exact migrateRule_equiv b mr hb (mrulePlain_alias b mr hp)
  | succ k ih =>
    have h1 := migrateRule_equiv b mr hb (mrulePlain_alias b mr hp)
    have hp1 : mrulePlain (migrateRule b mr) = true :=
      mrulePlain_equiv h1 (expandMRule_plain b hb mr hp)
    have h2 := ih (migrateRule b mr) hp1
    have h3 : (expandMRule b (migrateRule b mr)).equiv (expandMRule b (expandMRule b mr)) :=
      expandMRule_congr b h1
    show (iterate (migrateRule b) (k + 1) (migrateRule b mr)).equiv (expandMRule b mr)
    exact MRule.equiv_trans h2 (MRule.equiv_trans h3 (expandMRule_idem b hb mr hp))


theorem insertFront_append (g : Gen) (k : Str) (vs nvs : List Str) (a base : List MRule) :
    insertFront g k vs nvs (a ++ base) = insertFront g k vs nvs a ++ base := by
  unfold insertFront; split <;> simp

theorem sourceRules_append (pns : Str) (s : Source) (base : List MRule) :
    sourceRules pns s base = sourceRules pns s [] ++ base := by
  unfold sourceRules
  simp only [← insertFront_append, List.nil_append]

theorem mrulesHold_append (req : Request) (a b : List MRule) :
    mrulesHold req (a ++ b) = (mrulesHold req a && mrulesHold req b) := by
  simp [mrulesHold]

theorem mrulesHold_map_congr (req : Request) (l : List MRule) (f g : MRule → MRule)
    (h : ∀ mr ∈ l, fieldSem req (f mr) = fieldSem req (g mr)) :
    mrulesHold req (l.map f) = mrulesHold req (l.map g) := by
  induction l with
  | nil => rfl
  | cons a t ih =>
    simp only [List.map_cons, mrulesHold, List.all_cons] at ih ⊢
    rw [h a (by simp), ih (fun mr hmr => h mr (List.mem_cons_of_mem _ hmr))]

theorem expandMRule_nil (b : List Str) (k : Str) (g : Gen) (req : Request) :
    fieldSem req (expandMRule b ⟨k, [], [], g⟩) = true := by
  unfold expandMRule
  split
  · simp [fieldSem, specField]
  · split <;> simp [fieldSem, specField]

theorem mrulesHold_map_insertFront (req : Request) (b : List Str) (g : Gen) (k : Str) (vs nvs : List Str)
    (l : List MRule) :
    mrulesHold req ((insertFront g k vs nvs l).map (expandMRule b)) =
      (fieldSem req (expandMRule b ⟨k, vs, nvs, g⟩) && mrulesHold req (l.map (expandMRule b))) := by
  unfold insertFront
  split
  · rename_i h
    simp only [Bool.and_eq_true, List.isEmpty_iff] at h
    rw [h.1, h.2, expandMRule_nil, Bool.true_and]
  · simp [mrulesHold]

theorem mrulesHold_map_appendLast (req : Request) (b : List Str) (g : Gen) (k : Str) (vs nvs : List Str)
    (l : List MRule) :
    mrulesHold req ((appendLast l g k vs nvs).map (expandMRule b)) =
      (mrulesHold req (l.map (expandMRule b)) && fieldSem req (expandMRule b ⟨k, vs, nvs, g⟩)) := by
  unfold appendLast
  split
  · rename_i h
    simp only [Bool.and_eq_true, List.isEmpty_iff] at h
    rw [h.1, h.2, expandMRule_nil, Bool.and_true]
  · simp [mrulesHold]

theorem keys_distinct :
    attrSrcServiceAccount ≠ attrSrcPrincipal ∧ attrSrcServiceAccount ≠ attrSrcTrustDomain ∧
    attrRequestPrincipal ≠ attrSrcPrincipal ∧ attrRequestPrincipal ≠ attrSrcTrustDomain ∧
    attrSrcNamespace ≠ attrSrcPrincipal ∧ attrSrcNamespace ≠ attrSrcTrustDomain ∧
    attrRemoteIP ≠ attrSrcPrincipal ∧ attrRemoteIP ≠ attrSrcTrustDomain ∧
    attrSrcIP ≠ attrSrcPrincipal ∧ attrSrcIP ≠ attrSrcTrustDomain ∧
    attrSrcTrustDomain ≠ attrSrcPrincipal := by decide

/-- The alias reading of the rules of one `from` entry = the entry with expanded values. -/
theorem mrulesHold_sourceRules_expand (req : Request) (b : List Str) (pns : Str) (s : Source) :
    mrulesHold req ((sourceRules pns s []).map (expandMRule b)) = srcMatches pns (expandSource b s) req := by
  obtain ⟨k1, k2, k3, k4, k5, k6, k7, k8, k9, k10, k11⟩ := keys_distinct
  unfold sourceRules srcMatches expandSource
  simp only [mrulesHold_map_insertFront, List.map_nil]
  simp only [expandMRule, fieldSem, if_true, k1, k2, k3, k4, k5, k6, k7, k8, k9, k10, k11, if_false,
    mrulesHold, List.all_nil, Bool.and_true, Bool.and_assoc]

theorem mem_appendLast (l : List MRule) (g : Gen) (k : Str) (vs nvs : List Str) (mr : MRule)
    (h : mr ∈ appendLast l g k vs nvs) : mr ∈ l ∨ mr = ⟨k, vs, nvs, g⟩ := by
  unfold appendLast at h
  split at h
  · exact Or.inl h
  · simpa using h

/-- Invariants of the `when` loop of `New`. -/
theorem baseRules_inv (P Q : MRule → Prop) (pns : Str) (ws : List Condition)
    (perm prin bperm bprin : List MRule)
    (hP : ∀ mr ∈ perm, P mr) (hQ : ∀ mr ∈ prin, Q mr)
    (hc : ∀ c ∈ ws, ∀ g, classify pns c.key = some g →
      (g.isPerm = true → P ⟨c.key, c.values, c.notValues, g⟩) ∧
      (g.isPerm = false → Q ⟨c.key, c.values, c.notValues, g⟩))
    (h : baseRules pns ws perm prin = some (bperm, bprin)) :
    (∀ mr ∈ bperm, P mr) ∧ (∀ mr ∈ bprin, Q mr) := by
  induction ws generalizing perm prin with
  | nil =>
    simp only [baseRules, Option.some.injEq, Prod.mk.injEq] at h
    obtain ⟨rfl, rfl⟩ := h
    exact ⟨hP, hQ⟩
  | cons c cs ih =>
    simp only [baseRules] at h
    cases hg : classify pns c.key with
    | none => simp [hg] at h
    | some g =>
      simp only [hg] at h
      have hcg := hc c (by simp) g hg
      have hcs : ∀ c' ∈ cs, ∀ g, classify pns c'.key = some g →
          (g.isPerm = true → P ⟨c'.key, c'.values, c'.notValues, g⟩) ∧
          (g.isPerm = false → Q ⟨c'.key, c'.values, c'.notValues, g⟩) :=
        fun c' hc' => hc c' (List.mem_cons_of_mem _ hc')
      cases hp : g.isPerm with
      | true =>
        simp only [hp, if_true] at h
        refine ih _ _ ?_ hQ hcs h
        intro mr hmr
        rcases mem_appendLast _ _ _ _ _ _ hmr with h1 | h1
        · exact hP mr h1
        · rw [h1]; exact hcg.1 hp
      | false =>
        simp only [hp, Bool.false_eq_true, if_false] at h
        refine ih _ _ hP ?_ hcs h
        intro mr hmr
        rcases mem_appendLast _ _ _ _ _ _ hmr with h1 | h1
        · exact hQ mr h1
        · rw [h1]; exact hcg.2 hp

theorem classify_principal (pns : Str) : classify pns attrSrcPrincipal = some .srcPrincipal := by
  unfold classify
  simp (config := { decide := true })

theorem classify_td (pns : Str) : classify pns attrSrcTrustDomain = some .srcTrustDomain := by
  unfold classify
  simp (config := { decide := true })

/-- A `when` key classified to the permission side is neither `source.principal` nor
    `source.trustDomain`: the alias reading leaves it alone. -/
theorem expandMRule_perm (b : List Str) (pns k : Str) (vs nvs : List Str) (g : Gen)
    (hg : classify pns k = some g) (hp : g.isPerm = true) :
    expandMRule b ⟨k, vs, nvs, g⟩ = ⟨k, vs, nvs, g⟩ := by
  have h1 : k ≠ attrSrcPrincipal := by
    intro e; subst e; rw [classify_principal] at hg
    simp only [Option.some.injEq] at hg; subst hg; cases hp
  have h2 : k ≠ attrSrcTrustDomain := by
    intro e; subst e; rw [classify_td] at hg
    simp only [Option.some.injEq] at hg; subst hg; cases hp
  simp [expandMRule, h1, h2]


theorem whenHolds_expand (req : Request) (b : List Str) (pns : Str) (c : Condition) (g : Gen)
    (hg : classify pns c.key = some g) :
    whenHolds pns (expandCondition b c) req = fieldSem req (expandMRule b ⟨c.key, c.values, c.notValues, g⟩) := by
  unfold whenHolds
  rw [expandCondition_key, hg]
  unfold expandCondition expandMRule fieldSem
  by_cases h1 : c.key = attrSrcPrincipal
  · simp only [h1, if_true]
  · simp only [h1, if_false]
    by_cases h2 : c.key = attrSrcTrustDomain
    · simp only [h2, if_true]
    · simp only [h2, if_false]

theorem baseRules_sem_expand (req : Request) (b : List Str) (pns : Str) (ws : List Condition)
    (perm prin bperm bprin : List MRule) (h : baseRules pns ws perm prin = some (bperm, bprin)) :
    (mrulesHold req (bperm.map (expandMRule b)) && mrulesHold req (bprin.map (expandMRule b))) =
      (mrulesHold req (perm.map (expandMRule b)) && mrulesHold req (prin.map (expandMRule b)) &&
        (ws.map (expandCondition b)).all (whenHolds pns · req)) := by
  induction ws generalizing perm prin with
  | nil =>
    simp only [baseRules, Option.some.injEq, Prod.mk.injEq] at h
    obtain ⟨rfl, rfl⟩ := h
    simp
  | cons c cs ih =>
    simp only [baseRules] at h
    cases hc : classify pns c.key with
    | none => simp [hc] at h
    | some g =>
      simp only [hc] at h
      split at h
      · rw [ih _ _ h, mrulesHold_map_appendLast]
        simp only [List.map_cons, List.all_cons, whenHolds_expand req b pns c g hc]
        cases mrulesHold req (perm.map (expandMRule b)) <;> cases mrulesHold req (prin.map (expandMRule b)) <;>
          cases fieldSem req (expandMRule b ⟨c.key, c.values, c.notValues, g⟩) <;> simp
      · rw [ih _ _ h, mrulesHold_map_appendLast]
        simp only [List.map_cons, List.all_cons, whenHolds_expand req b pns c g hc]
        cases mrulesHold req (perm.map (expandMRule b)) <;> cases mrulesHold req (prin.map (expandMRule b)) <;>
          cases fieldSem req (expandMRule b ⟨c.key, c.values, c.notValues, g⟩) <;> simp

theorem mem_insertFront (g : Gen) (k : Str) (vs nvs : List Str) (l : List MRule) (mr : MRule)
    (h : mr ∈ insertFront g k vs nvs l) : mr = ⟨k, vs, nvs, g⟩ ∨ mr ∈ l := by
  unfold insertFront at h
  split at h
  · exact Or.inr h
  · simpa using h

theorem sourceRules_alias (b : List Str) (pns : Str) (s : Source)
    (hs : (s.principals ++ s.notPrincipals).all (tdPartOK b) = true) :
    ∀ mr ∈ sourceRules pns s [], mruleAlias b mr = true := by
  obtain ⟨k1, k2, k3, k4, k5, k6, k7, k8, k9, k10, k11⟩ := keys_distinct
  intro mr hmr
  unfold sourceRules at hmr
  rcases mem_insertFront _ _ _ _ _ _ hmr with h | hmr
  · rw [h]; simpa [mruleAlias] using hs
  rcases mem_insertFront _ _ _ _ _ _ hmr with h | hmr
  · rw [h]; simp [mruleAlias, k3]
  rcases mem_insertFront _ _ _ _ _ _ hmr with h | hmr
  · rw [h]; simp [mruleAlias, k1]
  rcases mem_insertFront _ _ _ _ _ _ hmr with h | hmr
  · rw [h]; simp [mruleAlias, k11]
  rcases mem_insertFront _ _ _ _ _ _ hmr with h | hmr
  · rw [h]; simp [mruleAlias, k5]
  rcases mem_insertFront _ _ _ _ _ _ hmr with h | hmr
  · rw [h]; simp [mruleAlias, k7]
  rcases mem_insertFront _ _ _ _ _ _ hmr with h | hmr
  · rw [h]; simp [mruleAlias, k9]
  · simp at hmr

/-- **`trustdomain_alias_correct` at rule level.** After `MigrateTrustDomain` the model of a rule
    matches exactly the requests the rule matches under the statement's reading of aliases. -/
theorem migration_sem (o : BuildOpts) (req : Request) (pns : Str) (r : Rule) (m : Model)
    (hb : bundleOK o.bundle = true) (hp : rulePlain o.bundle r = true) (hm : newModel pns r = some m) :
    modelSem req (migratedModel o pns r m) = ruleMatches pns (expandRule o.bundle r) req := by
  unfold newModel at hm
  cases hbase : baseRules pns r.whens [] [] with
  | none => simp [hbase] at hm
  | some bb =>
    obtain ⟨bperm, bprin⟩ := bb
    simp only [hbase, Option.some.injEq] at hm
    subst hm
    simp only [rulePlain, Bool.and_eq_true, List.all_eq_true] at hp
    -- invariants of the base rules
    have hinv := baseRules_inv (fun mr => expandMRule o.bundle mr = mr)
      (fun mr => (r.froms.length ≤ 1 → mruleAlias o.bundle mr = true) ∧
                 (¬ r.froms.length ≤ 1 → mrulePlain mr = true))
      pns r.whens [] [] bperm bprin (by simp) (by simp) (by
        intro c hc g hg
        refine ⟨fun hperm => expandMRule_perm o.bundle pns c.key c.values c.notValues g hg hperm, fun _ => ?_⟩
        have := hp.2 c hc
        simp only [Bool.or_eq_true, bne_iff_ne, ne_eq, List.all_eq_true] at this
        unfold mrulePlain mruleAlias
        by_cases hk : c.key = attrSrcPrincipal
        · simp only [hk, if_true, List.all_eq_true]
          rcases this with h | h
          · exact absurd hk h
          · constructor
            · intro hl; simpa [hl] using h
            · intro hl; simpa [hl] using h
        · simp [hk]) hbase
    have hsem := baseRules_sem_expand req o.bundle pns r.whens [] [] bperm bprin hbase
    simp only [List.map_nil, mrulesHold, List.all_nil, Bool.true_and] at hsem
    have hpermid : bperm.map (expandMRule o.bundle) = bperm := by
      rw [List.map_congr_left (g := id) hinv.1]; simp
    rw [hpermid] at hsem
    have hnb : nBasePrincipals pns r = bprin.length := by simp [nBasePrincipals, hbase]
    -- the migrated base rules
    have hbaseN : ∀ k, (k = 0 → r.froms.length ≤ 1) → (k ≠ 0 → ¬ r.froms.length ≤ 1) →
        mrulesHold req (bprin.map (iterate (migrateRule o.bundle) (k + 1))) =
        mrulesHold req (bprin.map (expandMRule o.bundle)) := by
      intro k hk0 hk1
      apply mrulesHold_map_congr
      intro mr hmr
      by_cases hz : k = 0
      · subst hz
        exact fieldSem_equiv req (migrateRule_equiv o.bundle mr hb ((hinv.2 mr hmr).1 (hk0 rfl)))
      · exact fieldSem_equiv req (iterate_migrate_equiv o.bundle hb k mr ((hinv.2 mr hmr).2 (hk1 hz)))
    unfold modelSem migratedModel migrateTrustDomain ruleMatches expandRule
    simp only [hnb, List.isEmpty_map, List.any_map, List.length_map]
    -- permissions
    have hperm : (if r.tos.isEmpty then [bperm] else r.tos.map (operationRules · bperm)).any (mrulesHold req) =
        ((r.tos.isEmpty || r.tos.any (opMatches · req)) && mrulesHold req bperm) := by
      by_cases ht : r.tos = []
      · simp [ht]
      · have : r.tos.isEmpty = false := by simpa using ht
        simp only [this, Bool.false_eq_true, if_false, List.any_map, Function.comp_def,
          mrulesHold_operationRules, Bool.false_or]
        exact any_map_and _ _ _
    rw [hperm]
    -- principals
    by_cases hf : r.froms = []
    · simp only [hf, List.isEmpty_nil, if_true, List.any_cons, List.any_nil, Bool.or_false,
        List.length_cons, List.length_nil, Nat.zero_add, Nat.sub_self, List.take_zero, List.map_nil,
        List.nil_append, List.drop_zero, Bool.true_or, Bool.true_and, Function.comp_def]
      rw [hbaseN 0 (fun _ => by simp [hf]) (fun h => absurd rfl h), ← hsem]
      simp only [mrulesHold]
      generalize (r.tos.isEmpty || r.tos.any (opMatches · req)) = a
      cases a <;> cases bperm.all (fieldSem req) <;>
        cases (bprin.map (expandMRule o.bundle)).all (fieldSem req) <;> rfl
    · have hfe : r.froms.isEmpty = false := by simpa using hf
      obtain ⟨k, hk⟩ : ∃ k, r.froms.length = k + 1 := by
        cases hl : r.froms with
        | nil => exact absurd hl hf
        | cons _ t => exact ⟨t.length, rfl⟩
      simp only [hfe, Bool.false_eq_true, if_false, List.any_map, List.length_map, hk, Bool.false_or,
        Function.comp_def]
      have hsrc : ∀ s ∈ r.froms,
          mrulesHold req
            (((sourceRules pns s bprin).take ((sourceRules pns s bprin).length - bprin.length)).map (migrateRule o.bundle) ++
             ((sourceRules pns s bprin).drop ((sourceRules pns s bprin).length - bprin.length)).map
               (iterate (migrateRule o.bundle) (k + 1))) =
          (srcMatches pns (expandSource o.bundle s) req && mrulesHold req (bprin.map (expandMRule o.bundle))) := by
        intro s hs
        rw [sourceRules_append pns s bprin]
        simp only [List.length_append, Nat.add_sub_cancel, List.take_left', List.drop_left',
          mrulesHold_append, hbaseN k (fun h => by omega) (fun h => by omega)]
        congr 1
        rw [← mrulesHold_sourceRules_expand]
        apply mrulesHold_map_congr
        intro mr hmr
        exact fieldSem_equiv req (migrateRule_equiv o.bundle mr hb
          (sourceRules_alias o.bundle pns s (List.all_eq_true.2 (hp.1 s hs)) mr hmr))
      rw [any_congr_mem r.froms _ _ hsrc, any_map_and, ← hsem]
      simp only [mrulesHold]
      generalize (r.tos.isEmpty || r.tos.any (opMatches · req)) = a
      generalize r.froms.any (fun s => srcMatches pns (expandSource o.bundle s) req) = c
      cases a <;> cases c <;> cases bperm.all (fieldSem req) <;>
        cases (bprin.map (expandMRule o.bundle)).all (fieldSem req) <;> rfl

/-- If `MigrateTrustDomain` changes nothing (and neither does the alias reading), the rule keeps
    its meaning trivially. -/
theorem migrationSem_of_noop (o : BuildOpts) (req : Request) (pns : Str) (r : Rule)
    (h1 : ∀ m, newModel pns r = some m → migratedModel o pns r m = m) (h2 : expandRule o.bundle r = r) :
    MigrationSem o req pns r := by
  intro m hm
  rw [h1 m hm, h2]
  exact newModel_sem req pns r m hm

theorem migrationSem_of_plain (o : BuildOpts) (req : Request) (pns : Str) (r : Rule)
    (hb : bundleOK o.bundle = true) (hp : rulePlain o.bundle r = true) : MigrationSem o req pns r :=
  fun m hm => migration_sem o req pns r m hb hp hm

/-! ## 7. Discharging the hypotheses: decidable scope predicates -/

theorem extScope_cases (g : Gen) (h : g.extInScope = true) :
    (g = .requestAudiences ∨ g = .requestPresenter ∨ g = .requestClaim) ∨ g = .envoyFilter := by
  cases g <;> simp [Gen.extInScope] at h <;> simp

theorem ruleExact_of_scope (o : BuildOpts) (req : Request) (pns : Str) (r : Rule)
    (hs : ruleInScope o req pns r = true) : RuleExact o req pns r := by
  intro m hm rl hrl mr hmr
  unfold ruleInScope at hs
  simp only [hm, List.all_eq_true] at hs
  have h := hs rl hrl mr hmr
  unfold mruleInScope at h
  by_cases hrp : mr.g = .requestPrincipal
  · simp only [hrp, if_true, Bool.and_eq_true, List.all_eq_true] at h
    constructor
    · intro hne; rw [hrp] at hne; cases hne
    · intro _
      rw [hrp]
      exact ⟨matcher_correct_request_principal mr.key _ o.forTCP req h.1
              (fun v hv => h.2 v (List.mem_append_left _ hv)),
             matcher_correct_request_principal mr.key _ o.forTCP req h.1
              (fun v hv => h.2 v (List.mem_append_right _ hv))⟩
  simp only [hrp, if_false, Bool.and_eq_true, Bool.or_eq_true, Bool.not_eq_true', List.all_eq_true] at h
  constructor
  · intro _ v hv
    exact matcher_correct_principals mr.g mr.key v o.forTCP o.useAuth req (h.2 v hv)
  · intro hext
    rcases h.1 with h1 | h1
    · rw [h1] at hext; cases hext
    · have hg := extScope_cases mr.g h1
      rcases hg with hg | hg
      · exact ⟨matcher_correct_jwt_claims mr.g mr.key _ o.forTCP req hg,
          matcher_correct_jwt_claims mr.g mr.key _ o.forTCP req hg⟩
      · rw [hg]
        exact ⟨matcher_correct_envoy_filter mr.key _ o.forTCP req,
          matcher_correct_envoy_filter mr.key _ o.forTCP req⟩

theorem migrationSem_of_B (o : BuildOpts) (req : Request) (pns : Str) (r : Rule)
    (h : migrationOKB o pns r = true) : MigrationSem o req pns r := by
  unfold migrationOKB at h
  simp only [Bool.or_eq_true, Bool.and_eq_true] at h
  rcases h with h | h
  · unfold migrationNoopB at h
    simp only [Bool.and_eq_true, beq_iff_eq] at h
    apply migrationSem_of_noop o req pns r _ h.2
    intro m hm
    have := h.1
    simp only [hm, beq_iff_eq] at this
    exact this
  · exact migrationSem_of_plain o req pns r h.1 h.2

theorem ruleTranslated_of_B (o : BuildOpts) (pns : Str) (r : Rule) (h : ruleTranslatedB o pns r = true) :
    RuleTranslated o pns r := by
  intro m hm
  unfold ruleTranslatedB at h
  simpa [hm] using h

theorem entriesDistinct_of_B (o : BuildOpts) (ps : List Policy) (h : entriesDistinctB o ps = true) :
    EntriesDistinct o ps := by
  intro allow
  simp only [entriesDistinctB, List.all_cons, List.all_nil, Bool.and_true, Bool.and_eq_true,
    decide_eq_true_eq] at h
  cases allow
  · exact h.2
  · exact h.1

theorem hyps_of_B (o : BuildOpts) (ps : List Policy) (req : Request) (h : hypsB o ps req = true) :
    Hyps o ps req := by
  simp only [hypsB, Bool.and_eq_true, List.all_eq_true] at h
  obtain ⟨h1, h3⟩ := h
  exact { mig := fun p hp r hr => migrationSem_of_B o req p.ns r (h1 p hp r hr).1
          exact := fun p hp r hr => ruleExact_of_scope o req p.ns r (h1 p hp r hr).2
          names := entriesDistinct_of_B o ps h3 }

theorem translatable_of_B (o : BuildOpts) (ps : List Policy) (h : translatableB o ps = true) :
    Translatable o ps := by
  intro p hp r hr
  simp only [translatableB, List.all_eq_true] at h
  exact ruleTranslated_of_B o p.ns r (h p hp r hr)

/-- `compile_correct_http`, hypotheses as computable checks (what the driver evaluates on every
    generated case). -/
theorem compile_correct_http_checked (w : Workload) (o : BuildOpts) (ps : List Policy) (req : Request)
    (hhttp : o.forTCP = false)
    (h : hypsB o (selectPolicies w ps) req = true) (htr : translatableB o (selectPolicies w ps) = true) :
    evalFilters (compile w o ps) req = specDecision w o.bundle ps req :=
  compile_correct_http w o ps req hhttp (hyps_of_B _ _ _ h) (translatable_of_B _ _ htr)

theorem compile_failclosed_checked (w : Workload) (o : BuildOpts) (ps : List Policy) (req : Request)
    (h : hypsB o (selectPolicies w ps) req = true)
    (hc : evalFilters (compile w o ps) req = true) : specDecision w o.bundle ps req = true :=
  compile_failclosed w o ps req (hyps_of_B _ _ _ h) hc




/-! ## 8. Filter order, AUDIT and dry-run -/

/-- The action a generated filter was built for (its rules, or its shadow rules when every policy
    of that action is dry-run). -/
def Filter.action (f : Filter) : Option RAction :=
  match f.rules, f.shadow with
  | some r, _ => some r.action
  | none, some r => some r.action
  | none, none => none

theorem buildAction_action (o : BuildOpts) (a : RAction) (ps : List Policy) :
    (optFilter o.shapeTCP (buildAction o a ps)).map Filter.action = if ps.isEmpty then [] else [some a] := by
  unfold buildAction
  by_cases h : ps = []
  · simp [h, optFilter]
  · have hne : ps.isEmpty = false := by simpa using h
    simp only [hne, Bool.false_eq_true, if_false, optFilter, List.map_cons, List.map_nil, toFilter,
      Filter.action]
    by_cases h1 : ps.any (fun p => !p.dryRun) = true
    · simp [h1]
    · have h1' : ps.any (fun p => !p.dryRun) = false := by simpa using h1
      have h2 : ps.any (·.dryRun) = true := by
        cases ps with
        | nil => exact absurd rfl h
        | cons p t =>
          simp only [List.any_cons, Bool.or_eq_false_iff, Bool.not_eq_false'] at h1'
          simp [h1'.1]
      simp [h1', h2]

/-- `filter_order`: at most one filter per action, in the order AUDIT (LOG), DENY, ALLOW - a DENY
    filter always precedes the ALLOW filter. -/
theorem filter_order (o : BuildOpts) (ps : List Policy) :
    ((compileSelected o ps).map Filter.action).Sublist [some .log, some .deny, some .allow] := by
  unfold compileSelected
  simp only [List.map_append, buildAction_action]
  split <;> split <;> split <;> simp

theorem eval_log_filter (o : BuildOpts) (req : Request) (ps : List Policy) :
    evalFilters (optFilter o.shapeTCP (buildAction o .log ps)) req = true := by
  unfold buildAction
  by_cases h : ps.isEmpty = true
  · simp [h, optFilter, evalFilters]
  · have h' : ps.isEmpty = false := by simpa using h
    simp only [h', Bool.false_eq_true, if_false, optFilter, evalFilters, List.all_cons, List.all_nil, Bool.and_true,
      evalFilter, toFilter]
    by_cases hany : ps.any (fun p => !p.dryRun) = true
    · simp only [hany, if_true]; rfl
    · have hany' : ps.any (fun p => !p.dryRun) = false := by simpa using hany
      simp only [hany', Bool.false_eq_true, if_false]

/-! What the order means.  Envoy runs the filters of a chain in order and stops at the first one that
rejects; the DECISION is the conjunction and does not depend on the order (`decision_order_independent`),
so the order AUDIT, DENY, ALLOW (and CUSTOM before them, `compileAll`) is a structural property of
the output - tied by the structural differential - whose only semantic content is WHICH filter
answers: a request that an enforced DENY policy matches is rejected by the DENY filter, the ALLOW
filter is never consulted for it (`deny_short_circuits`). -/

/-- The filter that rejects the request: the first one, in chain order, that does not let it pass. -/
def rejectedBy (fs : List Filter) (req : Request) : Option Filter := fs.find? (fun f => !evalFilter f req)

theorem rejectedBy_none_iff (fs : List Filter) (req : Request) :
    rejectedBy fs req = none ↔ evalFilters fs req = true := by
  unfold rejectedBy evalFilters
  simp [List.find?_eq_none, List.all_eq_true]

/-- The decision of a chain does not depend on the order of its filters. -/
theorem decision_order_independent (a b : List Filter) (req : Request) :
    evalFilters (a ++ b) req = evalFilters (b ++ a) req := by
  simp only [evalFilters, List.all_append]
  exact Bool.and_comm _ _

/-- `filter_order`, semantic half: when the DENY filter rejects the request (i.e. an enforced DENY
    policy's generated rules match), it is the DENY filter that answers - the AUDIT filter before it
    never rejects and the ALLOW filter after it is not reached. -/
theorem deny_short_circuits (o : BuildOpts) (ps : List Policy) (req : Request)
    (h : evalFilters (optFilter o.shapeTCP (buildAction o .deny (ps.filter (·.action == .deny)))) req = false) :
    (rejectedBy (compileSelected o ps) req).map Filter.action = some (some .deny) := by
  unfold compileSelected rejectedBy
  have hlog := eval_log_filter o req (ps.filter (·.action == .audit))
  have hl : (optFilter o.shapeTCP (buildAction o .log (ps.filter (·.action == .audit)))).find?
      (fun f => !evalFilter f req) = none := (rejectedBy_none_iff _ req).2 hlog
  rw [List.append_assoc, List.find?_append, hl, Option.none_or, List.find?_append]
  have hact := buildAction_action o .deny (ps.filter (·.action == .deny))
  cases hb : optFilter o.shapeTCP (buildAction o .deny (ps.filter (·.action == .deny))) with
  | nil => rw [hb] at h; simp [evalFilters] at h
  | cons f t =>
    rw [hb] at h hact
    cases t with
    | cons g t' =>
      split at hact <;> simp at hact
    | nil =>
      simp only [evalFilters, List.all_cons, List.all_nil, Bool.and_true] at h
      simp only [List.find?_cons, h, Bool.not_false, List.find?_nil, Option.some_or, Option.map_some]
      split at hact
      · simp at hact
      · simp only [List.map_cons, List.map_nil, List.cons.injEq, and_true] at hact
        rw [hact]

/-- `filter_order`, second half: AUDIT policies never change the decision. -/
theorem audit_never_changes_decision (o : BuildOpts) (ps : List Policy) (req : Request) :
    evalFilters (compileSelected o ps) req =
      evalFilters (compileSelected o (ps.filter (fun p => p.action != .audit))) req := by
  have happ : ∀ a b : List Filter, evalFilters (a ++ b) req = (evalFilters a req && evalFilters b req) := by
    intro a b; simp [evalFilters]
  unfold compileSelected
  rw [happ, happ, happ, happ, eval_log_filter, eval_log_filter]
  have hd : (ps.filter (fun p => p.action != .audit)).filter (·.action == .deny) = ps.filter (·.action == .deny) := by
    rw [List.filter_filter]
    apply List.filter_congr
    intro p _
    cases p.action <;> rfl
  have ha : (ps.filter (fun p => p.action != .audit)).filter (·.action == .allow) = ps.filter (·.action == .allow) := by
    rw [List.filter_filter]
    apply List.filter_congr
    intro p _
    cases p.action <;> rfl
  rw [hd, ha]

theorem enforced_nodry (a : Action) (ps : List Policy) :
    enforced a (ps.filter (fun p => !p.dryRun)) = enforced a ps := by
  unfold enforced
  rw [List.filter_filter]
  apply List.filter_congr
  intro p _
  cases p.dryRun <;> simp

/-- Dry-run (shadow) policies never change the decision. -/
theorem dryrun_never_changes_decision (o : BuildOpts) (ps : List Policy) (req : Request)
    (hnd : EntriesDistinct o ps) :
    evalFilters (compileSelected o ps) req =
      evalFilters (compileSelected o (ps.filter (fun p => !p.dryRun))) req := by
  rw [compileSelected_eval o req ps hnd, compileSelected_eval o req _ (hnd.filter _),
    enforced_nodry, enforced_nodry]




/-! ## 10. TCP filter chains: HTTP-only fields -/

/-- The operation sets one of the HTTP-only fields (hosts, methods, paths or their negations). -/
def Operation.usesHttp (o : Operation) : Bool :=
  !(o.hosts.isEmpty && o.notHosts.isEmpty && o.methods.isEmpty && o.notMethods.isEmpty &&
    o.paths.isEmpty && o.notPaths.isEmpty)

/-- The operation with its HTTP-only fields removed (ports stay). -/
def Operation.eraseHttp (o : Operation) : Operation := { ports := o.ports, notPorts := o.notPorts }

def Rule.eraseHttpOps (r : Rule) : Rule := { r with tos := r.tos.map Operation.eraseHttp }

def Gen.httpOnlyPerm : Gen → Bool
  | .host | .method | .path => true
  | _ => false

theorem genPermission_tcp_none (g : Gen) (key v : Str) (h : g.httpOnlyPerm = true) :
    genPermission g key v true = none := by
  cases g <;> simp [Gen.httpOnlyPerm] at h <;> simp [genPermission]

theorem httpOnly_not_extended (g : Gen) (h : g.httpOnlyPerm = true) : g.extended = false := by
  cases g <;> simp [Gen.httpOnlyPerm] at h <;> rfl

theorem collect_allow_none (f : Str → Option Matcher) (vs : List Str) (hf : ∀ v, f v = none)
    (hne : vs ≠ []) : collect true f vs = none := by
  cases vs with
  | nil => exact absurd rfl hne
  | cons v t => simp [collect, hf v]

theorem collect_deny_nil (f : Str → Option Matcher) (vs : List Str) (hf : ∀ v, f v = none) :
    collect false f vs = some [] := by
  induction vs with
  | nil => rfl
  | cons v t ih => simp [collect, hf v, ih]

/-- ALLOW on TCP: a model rule of an HTTP-only field makes the generation fail. -/
theorem rulePermission_tcp_allow_none (mr : MRule) (h : mr.g.httpOnlyPerm = true)
    (hne : mr.values ≠ [] ∨ mr.notValues ≠ []) : rulePermission true true mr = none := by
  unfold rulePermission
  simp only [httpOnly_not_extended mr.g h, Bool.false_eq_true, if_false]
  rcases hne with hne | hne
  · rw [collect_allow_none _ _ (fun v => genPermission_tcp_none mr.g mr.key v h) hne]
    simp [seq2]
  · rw [collect_allow_none _ mr.notValues (fun v => genPermission_tcp_none mr.g mr.key v h) hne]
    cases (collect true (genPermission mr.g mr.key · true) mr.values).map orClause <;> simp [seq2]

/-- DENY on TCP: a model rule of an HTTP-only field contributes nothing. -/
theorem rulePermission_tcp_deny_nil (mr : MRule) (h : mr.g.httpOnlyPerm = true) :
    rulePermission true false mr = some [] := by
  unfold rulePermission
  simp only [httpOnly_not_extended mr.g h, Bool.false_eq_true, if_false]
  rw [collect_deny_nil _ _ (fun v => genPermission_tcp_none mr.g mr.key v h),
    collect_deny_nil _ _ (fun v => genPermission_tcp_none mr.g mr.key v h)]
  rfl

theorem concatRules_none_of_mem (f : MRule → Option (List Matcher)) (rl : List MRule) (mr : MRule)
    (hm : mr ∈ rl) (hf : f mr = none) : concatRules f rl = none := by
  induction rl with
  | nil => simp at hm
  | cons r rs ih =>
    simp only [List.mem_cons] at hm
    simp only [concatRules]
    rcases hm with rfl | hm
    · simp [hf, seq2]
    · rw [ih hm]; cases f r <;> simp [seq2]

theorem mapAll_none_of_mem {α β : Type} (f : α → Option β) (ls : List α) (a : α) (hm : a ∈ ls)
    (hf : f a = none) : mapAll f ls = none := by
  induction ls with
  | nil => simp at hm
  | cons x xs ih =>
    simp only [List.mem_cons] at hm
    simp only [mapAll]
    rcases hm with rfl | hm
    · simp [hf]
    · rw [ih hm]; cases f x <;> simp

theorem mem_insertFront_self (g : Gen) (k : Str) (vs nvs : List Str) (l : List MRule)
    (h : vs ≠ [] ∨ nvs ≠ []) : (⟨k, vs, nvs, g⟩ : MRule) ∈ insertFront g k vs nvs l := by
  unfold insertFront
  have : (vs.isEmpty && nvs.isEmpty) = false := by
    rcases h with h | h
    · have : vs.isEmpty = false := by simpa using h
      simp [this]
    · have : nvs.isEmpty = false := by simpa using h
      simp [this]
  simp [this]

theorem mem_insertFront_of_mem (g : Gen) (k : Str) (vs nvs : List Str) (l : List MRule) (mr : MRule)
    (h : mr ∈ l) : mr ∈ insertFront g k vs nvs l := by
  unfold insertFront
  split
  · exact h
  · exact List.mem_cons_of_mem _ h

/-- An operation that uses an HTTP-only field yields a model rule of an HTTP-only generator. -/
theorem operationRules_http_mem (o : Operation) (base : List MRule) (h : o.usesHttp = true) :
    ∃ mr ∈ operationRules o base, mr.g.httpOnlyPerm = true ∧ (mr.values ≠ [] ∨ mr.notValues ≠ []) := by
  unfold Operation.usesHttp at h
  simp only [Bool.not_eq_true', Bool.and_eq_false_iff, List.isEmpty_eq_false_iff] at h
  unfold operationRules
  rcases h with ((((h | h) | h) | h) | h) | h
  · exact ⟨_, mem_insertFront_self _ _ _ _ _ (Or.inl h), rfl, Or.inl h⟩
  · exact ⟨_, mem_insertFront_self _ _ _ _ _ (Or.inr h), rfl, Or.inr h⟩
  · exact ⟨_, mem_insertFront_of_mem _ _ _ _ _ _ (mem_insertFront_self _ _ _ _ _ (Or.inl h)), rfl, Or.inl h⟩
  · exact ⟨_, mem_insertFront_of_mem _ _ _ _ _ _ (mem_insertFront_self _ _ _ _ _ (Or.inr h)), rfl, Or.inr h⟩
  · exact ⟨_, mem_insertFront_of_mem _ _ _ _ _ _ (mem_insertFront_of_mem _ _ _ _ _ _
      (mem_insertFront_self _ _ _ _ _ (Or.inl h))), rfl, Or.inl h⟩
  · exact ⟨_, mem_insertFront_of_mem _ _ _ _ _ _ (mem_insertFront_of_mem _ _ _ _ _ _
      (mem_insertFront_self _ _ _ _ _ (Or.inr h))), rfl, Or.inr h⟩

/-- **TCP, ALLOW: the whole rule is dropped.** On a TCP filter chain a rule of an ALLOW policy with
    an operation that uses an HTTP-only field generates no Envoy policy at all (it matches
    nothing). -/
theorem tcp_allow_rule_dropped (o : BuildOpts) (pns : Str) (r : Rule) (htcp : o.forTCP = true)
    (op : Operation) (hop : op ∈ r.tos) (hu : op.usesHttp = true) :
    compileRule o true pns r = none := by
  unfold compileRule
  cases hm : newModel pns r with
  | none => rfl
  | some m =>
    simp only
    unfold newModel at hm
    cases hb : baseRules pns r.whens [] [] with
    | none => simp [hb] at hm
    | some bb =>
      obtain ⟨bperm, bprin⟩ := bb
      simp only [hb, Option.some.injEq] at hm
      subst hm
      have hne : r.tos.isEmpty = false := by
        cases hr : r.tos with
        | nil => rw [hr] at hop; simp at hop
        | cons _ _ => rfl
      obtain ⟨mr, hmr, hg, hv⟩ := operationRules_http_mem op bperm hu
      unfold generate migrateTrustDomain
      simp only [hne, Bool.false_eq_true, if_false, htcp]
      rw [mapAll_none_of_mem (generatePermission true true) _ (operationRules op bperm)
        (List.mem_map.2 ⟨op, hop, rfl⟩)]
      unfold generatePermission
      rw [concatRules_none_of_mem _ _ mr hmr (rulePermission_tcp_allow_none mr hg hv)]
      rfl


theorem seq2_nil_left (x : Option (List Matcher)) : seq2 (some []) x = x := by
  cases x <;> simp [seq2]

theorem concatRules_insertFront_nil (f : MRule → Option (List Matcher)) (g : Gen) (k : Str)
    (vs nvs : List Str) (l : List MRule) (hf : f ⟨k, vs, nvs, g⟩ = some []) :
    concatRules f (insertFront g k vs nvs l) = concatRules f l := by
  unfold insertFront
  split
  · rfl
  · simp [concatRules, hf, seq2_nil_left]

theorem insertFront_nil (g : Gen) (k : Str) (l : List MRule) : insertFront g k [] [] l = l := by
  simp [insertFront]

/-- DENY on TCP: the permission generated for an operation is the one generated for the operation
    without its HTTP-only fields. -/
theorem generatePermission_tcp_deny_erase (op : Operation) (base : List MRule) :
    generatePermission true false (operationRules op base) =
      generatePermission true false (operationRules op.eraseHttp base) := by
  unfold generatePermission operationRules Operation.eraseHttp
  simp only [insertFront_nil]
  rw [concatRules_insertFront_nil _ _ _ _ _ _ (rulePermission_tcp_deny_nil _ rfl),
    concatRules_insertFront_nil _ _ _ _ _ _ (rulePermission_tcp_deny_nil _ rfl),
    concatRules_insertFront_nil _ _ _ _ _ _ (rulePermission_tcp_deny_nil _ rfl)]

theorem mapAll_map_congr {α β γ : Type} (f : β → Option γ) (g1 g2 : α → β) (l : List α)
    (h : ∀ x ∈ l, f (g1 x) = f (g2 x)) : mapAll f (l.map g1) = mapAll f (l.map g2) := by
  induction l with
  | nil => rfl
  | cons a t ih =>
    simp only [List.map_cons, mapAll, h a (by simp), ih (fun x hx => h x (List.mem_cons_of_mem _ hx))]

/-- **TCP, DENY (and AUDIT): enforced on the remaining conditions.** On a TCP filter chain the
    Envoy policy generated for a rule of a DENY policy is exactly the one generated for the rule
    with the HTTP-only operation fields removed. -/
theorem tcp_deny_rule_remaining (o : BuildOpts) (pns : Str) (r : Rule) (htcp : o.forTCP = true) :
    compileRule o false pns r = compileRule o false pns r.eraseHttpOps := by
  unfold compileRule newModel nBasePrincipals Rule.eraseHttpOps
  simp only
  cases hb : baseRules pns r.whens [] [] with
  | none => rfl
  | some bb =>
    obtain ⟨bperm, bprin⟩ := bb
    simp only [List.isEmpty_map, List.map_map]
    unfold generate migrateTrustDomain
    simp only [htcp]
    by_cases ht : r.tos.isEmpty = true
    · simp only [ht, if_true]
    · have ht' : r.tos.isEmpty = false := by simpa using ht
      simp only [ht', Bool.false_eq_true, if_false]
      rw [mapAll_map_congr (generatePermission true false) (fun x => operationRules x bperm)
        ((fun x => operationRules x bperm) ∘ Operation.eraseHttp) r.tos
        (fun op _ => generatePermission_tcp_deny_erase op bperm)]

/-- ... and therefore (with the hypotheses of the main theorems for the remaining rule) the
    generated policy matches exactly the requests the remaining conditions match. -/
theorem tcp_deny_enforced_on_remaining (o : BuildOpts) (req : Request) (pns : Str) (r : Rule)
    (e : EPolicy) (htcp : o.forTCP = true) (h : compileRule o false pns r = some e)
    (hmig : MigrationSem o req pns r.eraseHttpOps) (hex : RuleExact o req pns r.eraseHttpOps)
    (htr : RuleTranslated o pns r.eraseHttpOps) :
    evalPolicy e req = ruleMatches pns (expandRule o.bundle r.eraseHttpOps) req := by
  rw [tcp_deny_rule_remaining o pns r htcp] at h
  exact compileRule_exact o false req pns r.eraseHttpOps e h hmig hex (Or.inr htr)

/-- The remaining conditions are weaker: whatever the rule matches, the remaining rule matches. -/
theorem ruleMatches_eraseHttpOps_ge (req : Request) (pns : Str) (r : Rule)
    (h : ruleMatches pns r req = true) : ruleMatches pns r.eraseHttpOps req = true := by
  unfold ruleMatches Rule.eraseHttpOps at *
  simp only [Bool.and_eq_true, Bool.or_eq_true, List.isEmpty_map, List.any_map] at h ⊢
  refine ⟨⟨h.1.1, ?_⟩, h.2⟩
  rcases h.1.2 with h2 | h2
  · exact Or.inl h2
  · right
    rw [List.any_eq_true] at h2 ⊢
    obtain ⟨op, hop, hm⟩ := h2
    refine ⟨op, hop, ?_⟩
    simp only [Function.comp, opMatches, Operation.eraseHttp, Bool.and_eq_true] at hm ⊢
    simp [specField, hm.2]
    simpa [specField] using hm.2


/-! ## 9. Non-vacuity: a concrete policy set and request meet every hypothesis -/

def exOpts : BuildOpts := { bundle := ["cluster.local".toList], forTCP := false, useAuth := true }
def exWl : Workload := { rootNs := "istio-system".toList, ns := "foo".toList, labels := [] }

def exPolicies : List Policy :=
  [ { ns := "foo".toList, name := "allow-bar".toList, action := .allow,
      rules := [ { froms := [ { principals := ["cluster.local/ns/bar/sa/sleep".toList, "*/sa/admin".toList],
                                notNamespaces := ["dev".toList] },
                              { serviceAccounts := ["bar/httpbin".toList], ipBlocks := ["10.0.0.0/8".toList] } ],
                   tos := [ { hosts := ["*.example.com".toList], methods := ["GET".toList],
                              paths := ["/admin/*".toList], notPorts := ["8080".toList] } ],
                   whens := [ ⟨"request.headers[X-Token]".toList, ["abc*".toList], []⟩ ] } ] },
    { ns := "istio-system".toList, name := "deny-admin".toList, action := .deny,
      rules := [ { tos := [ { paths := ["/admin/secret".toList] } ],
                   whens := [ ⟨"source.trustDomain".toList, [], ["cluster.local".toList]⟩ ] } ] },
    { ns := "foo".toList, name := "audit".toList, action := .audit, rules := [ {} ] } ]

def exReq : Request :=
  { srcIP := 167772161, remoteIP := 167772161, dstIP := 2, dstPort := 80, sni := [],
    peer := some ⟨"cluster.local".toList, "bar".toList, "sleep".toList⟩,
    http := some { host := "api.EXAMPLE.com".toList, method := "GET".toList, path := "/admin/x".toList,
                   headers := [("x-token".toList, "abcdef".toList)] },
    metadata := [] }

example : hypsB exOpts (selectPolicies exWl exPolicies) exReq = true := by decide
example : translatableB exOpts (selectPolicies exWl exPolicies) = true := by decide
example : evalFilters (compile exWl exOpts exPolicies) exReq = true := by decide
example : specDecision exWl exOpts.bundle exPolicies exReq = true := by decide



/-! ## 15. CUSTOM action -/

theorem insertSorted_mem (x : Str) (l : List Str) (y : Str) : y ∈ insertSorted x l ↔ y = x ∨ y ∈ l := by
  induction l with
  | nil => simp [insertSorted]
  | cons a t ih =>
    simp only [insertSorted]
    split
    · simp only [List.mem_cons, ih]
      constructor
      · rintro (h | h | h)
        · exact Or.inr (Or.inl h)
        · exact Or.inl h
        · exact Or.inr (Or.inr h)
      · rintro (h | h | h)
        · exact Or.inr (Or.inl h)
        · exact Or.inl h
        · exact Or.inr (Or.inr h)
    · simp

theorem insertSorted_length (x : Str) (l : List Str) : (insertSorted x l).length = l.length + 1 := by
  induction l with
  | nil => rfl
  | cons a t ih =>
    simp only [insertSorted]
    split <;> simp [ih]

theorem foldr_insertSorted_mem (l : List Str) (y : Str) : y ∈ l.foldr insertSorted [] ↔ y ∈ l := by
  induction l with
  | nil => simp
  | cons a t ih => simp only [List.foldr_cons, insertSorted_mem, ih, List.mem_cons]

theorem foldr_insertSorted_length (l : List Str) : (l.foldr insertSorted []).length = l.length := by
  induction l with
  | nil => rfl
  | cons a t ih => simp only [List.foldr_cons, insertSorted_length, ih, List.length_cons]

theorem dedupStr_mem (l : List Str) (y : Str) : y ∈ dedupStr l ↔ y ∈ l := by
  induction l with
  | nil => simp [dedupStr]
  | cons a t ih =>
    simp only [dedupStr, List.mem_cons, List.mem_filter, ih, bne_iff_ne, ne_eq]
    constructor
    · rintro (h | ⟨h, -⟩)
      · exact Or.inl h
      · exact Or.inr h
    · rintro (h | h)
      · exact Or.inl h
      · by_cases hy : y = a
        · exact Or.inl hy
        · exact Or.inr ⟨h, hy⟩

theorem dedupStr_nodup (l : List Str) : (dedupStr l).Nodup := by
  induction l with
  | nil => simp [dedupStr]
  | cons a t ih =>
    simp only [dedupStr, List.nodup_cons]
    refine ⟨?_, ih.filter _⟩
    simp

theorem sortDedup_mem (l : List Str) (y : Str) : y ∈ sortDedup l ↔ y ∈ l := by
  unfold sortDedup
  rw [foldr_insertSorted_mem, dedupStr_mem]

/-- More than one distinct name. -/
theorem sortDedup_length_gt_one (l : List Str) :
    (sortDedup l).length > 1 ↔ ∃ a ∈ l, ∃ b ∈ l, a ≠ b := by
  unfold sortDedup
  rw [foldr_insertSorted_length]
  have hn := dedupStr_nodup l
  constructor
  · intro h
    cases hd : dedupStr l with
    | nil => rw [hd] at h; simp at h
    | cons x t =>
      cases t with
      | nil => rw [hd] at h; simp at h
      | cons y t' =>
        rw [hd] at hn
        refine ⟨x, (dedupStr_mem l x).1 (by rw [hd]; simp), y, (dedupStr_mem l y).1 (by rw [hd]; simp), ?_⟩
        simp only [List.nodup_cons, List.mem_cons, not_or] at hn
        exact hn.1.1
  · rintro ⟨a, ha, b, hb, hab⟩
    have ha' := (dedupStr_mem l a).2 ha
    have hb' := (dedupStr_mem l b).2 hb
    cases hd : dedupStr l with
    | nil => rw [hd] at ha'; simp at ha'
    | cons x t =>
      cases t with
      | nil =>
        rw [hd] at ha' hb'
        simp only [List.mem_singleton] at ha' hb'
        exact absurd (ha'.trans hb'.symm) hab
      | cons y t' => simp

/-- Regrouping by provider: every policy belongs to exactly the group of its provider. -/
theorem any_by_provider (provs : List Str) (l : List Policy) (q f : Policy → Bool) (g : Str → Bool)
    (hcover : ∀ p ∈ l, p.provider ∈ provs) :
    provs.any (fun pr => g pr && (l.filter fun p => p.provider == pr && q p).any f) =
      (l.filter q).any (fun p => g p.provider && f p) := by
  rw [Bool.eq_iff_iff]
  simp only [List.any_eq_true, Bool.and_eq_true, List.mem_filter, beq_iff_eq]
  constructor
  · rintro ⟨pr, _, hg, p, ⟨hp, rfl, hq⟩, hf⟩
    exact ⟨p, ⟨hp, hq⟩, hg, hf⟩
  · rintro ⟨p, ⟨hp, hq⟩, hg, hf⟩
    exact ⟨p.provider, hcover p hp, hg, p, ⟨hp, rfl, hq⟩, hf⟩

theorem customEntries_any (o : BuildOpts) (p : Policy) (req : Request) :
    (customEntries o p).any (fun e => evalPolicy e.2 req) = compiledPolicyMatch o false req p := by
  unfold customEntries
  rw [List.any_map]
  exact policyEntries_any o false p req

/-- The names of the generated CUSTOM policies are pairwise distinct. -/
def CustomEntriesDistinct (o : BuildOpts) (ps : List Policy) : Prop :=
  (((ps.filter (·.action == .custom)).flatMap (customEntries o)).map (·.1)).Nodup

theorem providerRules_any (o : BuildOpts) (cps : List Policy) (prov : Str) (req : Request)
    (hnd : ((cps.flatMap (customEntries o)).map (·.1)).Nodup) :
    (providerRules o cps prov).any (fun e => evalPolicy e.2 req) =
      (cps.filter fun p => p.provider == prov && !p.dryRun).any (compiledPolicyMatch o false req) := by
  unfold providerRules
  rw [upsertAll_eq]
  · simp only [List.nil_append, List.any_flatMap, customEntries_any]
  · simp only [List.nil_append]
    exact List.Nodup.sublist ((flatMap_filter_sublist _ _ cps).map _) hnd

theorem eval_badCustomFilter (o : BuildOpts) (cps : List Policy) (prov : Str) (req : Request)
    (hnd : ((cps.flatMap (customEntries o)).map (·.1)).Nodup) :
    evalFilter (badCustomFilter o cps prov) req =
      !((cps.filter fun p => p.provider == prov && !p.dryRun).any (compiledPolicyMatch o false req)) := by
  unfold badCustomFilter evalFilter evalRBAC
  simp only [List.any_map, Function.comp_def]
  rw [providerRules_any o cps prov req hnd]

theorem eval_customFilters (o : BuildOpts) (cps : List Policy) (prov : Str) (t : ExtTarget) (req : Request) :
    evalGs (customFilters o cps prov t) req = true := by
  simp [customFilters, evalGs, evalG, evalFilter]

theorem not_any_eq_all_not {α : Type} (l : List α) (f : α → Bool) : (!l.any f) = l.all (fun x => !f x) := by
  induction l with
  | nil => rfl
  | cons a t ih => simp [← ih]

/-- **CUSTOM.** The filters of the CUSTOM builder reject a request exactly when it matches (the
    generated rules of) an enforced CUSTOM policy that has to be enforced as DENY: provider not
    defined, or several providers without the multi-provider feature. With defined providers they
    never reject (shadow rules + ext_authz only). -/
theorem custom_correct_compiled (o : BuildOpts) (c : CustomOpts) (ps : List Policy) (req : Request)
    (hnd : CustomEntriesDistinct o ps) :
    evalGs (compileCustomSelected o c ps) req =
      !((enforced .custom ps).any fun p => customBad c ps p && compiledPolicyMatch o false req p) := by
  unfold CustomEntriesDistinct at hnd
  have henf : enforced .custom ps = (ps.filter (·.action == .custom)).filter (fun p => !p.dryRun) :=
    (filter_action_dry .custom ps).symm
  generalize hcps : ps.filter (·.action == .custom) = cps at *
  unfold compileCustomSelected
  rw [hcps]
  by_cases hempty : cps.isEmpty = true
  · have : cps = [] := by simpa using hempty
    subst this
    simp [henf, evalGs]
  · have hempty' : cps.isEmpty = false := by simpa using hempty
    simp only [hempty', Bool.false_eq_true, if_false]
    have hcover : ∀ p ∈ cps, p.provider ∈ sortDedup (cps.map (·.provider)) := by
      intro p hp
      rw [sortDedup_mem]
      exact List.mem_map.2 ⟨p, hp, rfl⟩
    have hmany : ((sortDedup (cps.map (·.provider))).length > 1) ↔
        cps.any (fun a => cps.any fun b => a.provider != b.provider) = true := by
      rw [sortDedup_length_gt_one]
      simp only [List.any_eq_true, bne_iff_ne, ne_eq, List.mem_map]
      constructor
      · rintro ⟨_, ⟨a, ha, rfl⟩, _, ⟨b, hb, rfl⟩, hab⟩
        exact ⟨a, ha, b, hb, hab⟩
      · rintro ⟨a, ha, b, hb, hab⟩
        exact ⟨_, ⟨a, ha, rfl⟩, _, ⟨b, hb, rfl⟩, hab⟩
    have hbad : ∀ p, customBad c ps p =
        ((cps.any (fun a => cps.any fun b => a.provider != b.provider) && !c.multi) ||
          !c.providers.contains p.provider) := by
      intro p; unfold customBad; simp only [hcps]
    by_cases hm : (decide ((sortDedup (cps.map (·.provider))).length > 1) && !c.multi) = true
    · simp only [hm, if_true]
      have hm' : (cps.any (fun a => cps.any fun b => a.provider != b.provider) && !c.multi) = true := by
        simp only [Bool.and_eq_true, decide_eq_true_eq] at hm ⊢
        exact ⟨hmany.1 hm.1, hm.2⟩
      have hmap : evalGs ((sortDedup (cps.map (·.provider))).map fun pr => GFilter.rbac (badCustomFilter o cps pr)) req =
          (sortDedup (cps.map (·.provider))).all fun pr =>
            !((cps.filter fun p => p.provider == pr && !p.dryRun).any (compiledPolicyMatch o false req)) := by
        unfold evalGs
        rw [List.all_map]
        apply List.all_congr rfl
        intro pr
        show evalFilter (badCustomFilter o cps pr) req = _
        exact eval_badCustomFilter o cps pr req hnd
      rw [hmap, ← not_any_eq_all_not]
      congr 1
      have := any_by_provider (sortDedup (cps.map (·.provider))) cps (fun p => !p.dryRun)
        (compiledPolicyMatch o false req) (fun _ => true) hcover
      simp only [Bool.true_and] at this
      rw [this, henf]
      apply any_congr_mem
      intro p _
      rw [hbad, hm']; rfl
    · have hmf : (decide ((sortDedup (cps.map (·.provider))).length > 1) && !c.multi) = false := by
        simpa using hm
      simp only [hmf, Bool.false_eq_true, if_false]
      have hm' : (cps.any (fun a => cps.any fun b => a.provider != b.provider) && !c.multi) = false := by
        rw [Bool.eq_false_iff]
        intro h
        apply hm
        simp only [Bool.and_eq_true, decide_eq_true_eq] at h ⊢
        exact ⟨hmany.2 h.1, h.2⟩
      unfold evalGs
      rw [List.all_flatMap]
      have hper : ∀ pr, (if c.providers.contains pr = true then
              (if (o.shapeTCP && c.httpProviders.contains pr) = true then [] else customFilters o cps pr (c.targetOf pr))
            else [GFilter.rbac (badCustomFilter o cps pr)]).all (evalG · req) =
          !(!c.providers.contains pr &&
            (cps.filter fun p => p.provider == pr && !p.dryRun).any (compiledPolicyMatch o false req)) := by
        intro pr
        by_cases hk : c.providers.contains pr = true
        · have := eval_customFilters o cps pr (c.targetOf pr) req
          simp only [evalGs] at this
          rw [if_pos hk, hk]
          split
          · rfl
          · rw [this]; rfl
        · have hk' : c.providers.contains pr = false := by simpa using hk
          simp only [hk', Bool.false_eq_true, if_false, List.all_cons, List.all_nil, Bool.and_true,
            Bool.not_false, Bool.true_and]
          show evalFilter (badCustomFilter o cps pr) req = _
          exact eval_badCustomFilter o cps pr req hnd
      rw [List.all_congr rfl (fun pr => hper pr), ← not_any_eq_all_not]
      congr 1
      rw [any_by_provider (sortDedup (cps.map (·.provider))) cps (fun p => !p.dryRun)
        (compiledPolicyMatch o false req) (fun pr => !c.providers.contains pr) hcover, henf]
      apply any_congr_mem
      intro p _
      rw [hbad, hm', Bool.false_or]


theorem expandPolicy_fields (b : List Str) (p : Policy) :
    (expandPolicy b p).action = p.action ∧ (expandPolicy b p).provider = p.provider ∧
    (expandPolicy b p).dryRun = p.dryRun := ⟨rfl, rfl, rfl⟩

theorem customBad_expand (c : CustomOpts) (b : List Str) (ps : List Policy) (p : Policy) :
    customBad c (ps.map (expandPolicy b)) (expandPolicy b p) = customBad c ps p := by
  unfold customBad
  simp only [List.filter_map, List.any_map, Function.comp_def]
  rfl

/-- `customDenies` over the alias-expanded policies, spelled out. -/
theorem customDenies_expand (c : CustomOpts) (b : List Str) (ps : List Policy) (req : Request) :
    customDenies c (ps.map (expandPolicy b)) req =
      (enforced .custom ps).any fun p => customBad c ps p && policyMatchesX b p req := by
  unfold customDenies
  simp only [enforced_expand, List.any_map, Function.comp_def, customBad_expand, policyMatches_expand]

/-- CUSTOM, against the policy semantics (everything translatable). -/
theorem custom_correct_selected (o : BuildOpts) (c : CustomOpts) (ps : List Policy) (req : Request)
    (h : Hyps o ps req) (htr : Translatable o ps) (hnd : CustomEntriesDistinct o ps) :
    evalGs (compileCustomSelected o c ps) req = !(customDenies c (ps.map (expandPolicy o.bundle)) req) := by
  rw [custom_correct_compiled o c ps req hnd, customDenies_expand]
  congr 1
  apply any_congr_mem
  intro p hp
  have hp' := enforced_subset _ _ p hp
  congr 1
  unfold compiledPolicyMatch policyMatchesX
  apply any_congr_mem
  intro r hr
  exact ruleVerdict_exact o false req p r (h.mig p hp' r hr) (h.exact p hp' r hr) (htr p hp' r hr)

/-- CUSTOM, never more permissive (nothing assumed translatable). -/
theorem custom_sound_selected (o : BuildOpts) (c : CustomOpts) (ps : List Policy) (req : Request)
    (h : Hyps o ps req) (hnd : CustomEntriesDistinct o ps)
    (hc : evalGs (compileCustomSelected o c ps) req = true) :
    customDenies c (ps.map (expandPolicy o.bundle)) req = false := by
  rw [custom_correct_compiled o c ps req hnd] at hc
  rw [customDenies_expand]
  cases hx : (enforced .custom ps).any (fun p => customBad c ps p && policyMatchesX o.bundle p req) with
  | false => rfl
  | true =>
    have := any_mono_mem _ _ (fun p => customBad c ps p && compiledPolicyMatch o false req p) (fun p hp hpm => by
      have hp' := enforced_subset _ _ p hp
      simp only [Bool.and_eq_true] at hpm ⊢
      refine ⟨hpm.1, ?_⟩
      have hm := hpm.2
      unfold policyMatchesX at hm
      unfold compiledPolicyMatch
      rw [List.any_eq_true] at hm ⊢
      obtain ⟨r, hr, hrm⟩ := hm
      exact ⟨r, hr, ruleVerdict_deny_ge o req p r (h.mig p hp' r hr) (h.exact p hp' r hr) hrm⟩) hx
    rw [this] at hc; cases hc

theorem evalGs_append (a b : List GFilter) (req : Request) :
    evalGs (a ++ b) req = (evalGs a req && evalGs b req) := by simp [evalGs]

theorem evalGs_rbac (fs : List Filter) (req : Request) : evalGs (fs.map .rbac) req = evalFilters fs req := by
  unfold evalGs evalFilters
  rw [List.all_map]
  rfl

/-- **The whole authorization chain on HTTP** (CUSTOM filters, then AUDIT, DENY, ALLOW) decides as
    the policy semantics say. -/
theorem compile_all_correct_http (w : Workload) (o : BuildOpts) (c : CustomOpts) (ps : List Policy)
    (req : Request) (_hhttp : o.forTCP = false)
    (h : Hyps o (selectPolicies w ps) req) (htr : Translatable o (selectPolicies w ps))
    (hnd : CustomEntriesDistinct o (selectPolicies w ps)) :
    evalGs (compileAll w o c ps) req = specDecisionAll w o.bundle c ps req := by
  unfold compileAll specDecisionAll
  rw [evalGs_append, evalGs_rbac]
  have hsel : ps.filter (applies w) = selectPolicies w ps := (selectPolicies_eq_applies w ps).symm
  rw [hsel, custom_correct_selected o c _ req h htr hnd]
  congr 1
  exact compile_correct_selected o (selectPolicies w ps) req h htr

/-- ... and on any chain it is never more permissive than the policy. -/
theorem compile_all_failclosed (w : Workload) (o : BuildOpts) (c : CustomOpts) (ps : List Policy)
    (req : Request) (h : Hyps o (selectPolicies w ps) req)
    (hnd : CustomEntriesDistinct o (selectPolicies w ps))
    (hc : evalGs (compileAll w o c ps) req = true) : specDecisionAll w o.bundle c ps req = true := by
  unfold compileAll at hc
  unfold specDecisionAll
  rw [evalGs_append, evalGs_rbac, Bool.and_eq_true] at hc
  have hsel : ps.filter (applies w) = selectPolicies w ps := (selectPolicies_eq_applies w ps).symm
  rw [hsel, custom_sound_selected o c _ req h hnd hc.1]
  exact compile_sound_selected o (selectPolicies w ps) req h hc.2

/-- The defect repaired in /repo (commit "fix: do not put dry-run CUSTOM ..."): before the fix the
    dry-run CUSTOM policies of a provider were emitted as the ENFORCED `rules` of the RBAC filter with
    action DENY. -/
def customFiltersUnfixed (o : BuildOpts) (cps : List Policy) (prov : Str) : List GFilter :=
  [ .rbac { name := rbacFilterName o.forTCP,
            rules := some ⟨.deny, upsertAll [] ((cps.filter fun p => p.provider == prov && p.dryRun).flatMap (customEntries o))⟩,
            shadow := some ⟨.deny, providerRules o cps prov⟩,
            shadowPrefix := "istio_ext_authz_".toList, statPrefix := [] } ]

def dryRunCustomPolicy : Policy :=
  { ns := "foo".toList, name := "c2".toList, action := .custom, dryRun := true, provider := "default".toList,
    rules := [ { tos := [ { paths := ["/dry*".toList] } ] } ] }

def dryRunCustomReq : Request :=
  { srcIP := 1, remoteIP := 1, dstIP := 2, dstPort := 80, sni := [], peer := none,
    http := some { host := "example.com".toList, method := "GET".toList, path := "/dry/run".toList, headers := [] },
    metadata := [] }

/-- Old behaviour: a dry-run CUSTOM policy REJECTED the requests it matches (here `/dry/run`), while
    the policy semantics admit them. Witness replayed on the real code: corpus
    `requests.custom-dryrun.ops`. -/
theorem custom_dryrun_witness_unfixed :
    evalGs (customFiltersUnfixed exOpts [dryRunCustomPolicy] "default".toList) dryRunCustomReq = false ∧
    specDecisionAll exWl exOpts.bundle { providers := ["default".toList], multi := false }
      [dryRunCustomPolicy] dryRunCustomReq = true ∧
    evalGs (compileAll exWl exOpts { providers := ["default".toList], multi := false }
      [dryRunCustomPolicy]) dryRunCustomReq = true := by decide

/-! ### Trust-domain aliases with a wildcard inside the trust-domain part (witnesses) -/

def aliasOpts : BuildOpts := { bundle := ["td1".toList, "cluster.local".toList], forTCP := false, useAuth := true }

def aliasPolicy (v : String) : Policy :=
  { ns := "foo".toList, name := "p".toList, action := .allow, rules := [ { froms := [ { principals := [v.toList] } ] } ] }

def aliasReq (td : String) : Request :=
  { srcIP := 1, remoteIP := 1, dstIP := 2, dstPort := 80, sni := [],
    peer := some ⟨td.toList, "foo".toList, "a".toList⟩,
    http := some { host := "example.com".toList, method := "GET".toList, path := "/".toList, headers := [] },
    metadata := [] }

/-- `*suffix` trust-domain part (validator-accepted, generated in valid mode): with the bundle
    [td1, cluster.local] the value `*ocal/ns/foo/sa/a` covers cluster.local itself and is extended to
    td1; compiled filters and statement agree (allow td1 and cluster.local, deny another trust
    domain), and the hypotheses of `compile_all_exact` hold. -/
theorem alias_suffix_td_witness :
    (["td1", "cluster.local", "other"].map fun td =>
      (evalGs (compileAll exWl aliasOpts { providers := [], multi := false } [aliasPolicy "*ocal/ns/foo/sa/a"]) (aliasReq td),
       specDecisionOn exWl aliasOpts.bundle { providers := [], multi := false } false [aliasPolicy "*ocal/ns/foo/sa/a"] (aliasReq td)))
      = [(true, true), (true, true), (false, false)] ∧
    hypsOnB aliasOpts [aliasPolicy "*ocal/ns/foo/sa/a"] (aliasReq "td1") = true := by decide

/-- Finding 5 (`tdPartOK` fails): a `prefix*` trust-domain part.  `clu*/ns/foo/sa/a` is an exact-match
    value (a `*` in the middle of a value is an ordinary character), which no identity equals;
    `MigrateTrustDomain` takes `clu*` as a pattern over the mesh's trust domains and rewrites the
    value to `cluster.local/ns/foo/sa/a`, so the ALLOW policy admits that identity.  Happens with the
    default bundle [cluster.local], no alias configured.  (Replayed on the real code: corpus
    `requests.alias-wildcard.ops`.) -/
theorem alias_prefix_td_witness :
    evalGs (compileAll exWl exOpts { providers := [], multi := false } [aliasPolicy "clu*/ns/foo/sa/a"])
      (aliasReq "cluster.local") = true ∧
    specDecisionOn exWl exOpts.bundle { providers := [], multi := false } false [aliasPolicy "clu*/ns/foo/sa/a"]
      (aliasReq "cluster.local") = false ∧
    hypsOnB exOpts [aliasPolicy "clu*/ns/foo/sa/a"] (aliasReq "cluster.local") = false := by decide

/-- Where the statement's reading of aliases ENDS (and the code agrees): only five-part values are
    aliased.  The prefix value `cluster.local/ns/foo/*` is taken literally by statement and code, so
    with the bundle [td1, cluster.local] it does not cover `td1/ns/foo/sa/a` (an observation recorded
    in notes/C08.md: MeshConfig documents aliased identities as "treated the same"). -/
theorem alias_prefix_value_literal :
    (["td1", "cluster.local"].map fun td =>
      (evalGs (compileAll exWl aliasOpts { providers := [], multi := false } [aliasPolicy "cluster.local/ns/foo/*"]) (aliasReq td),
       specDecisionOn exWl aliasOpts.bundle { providers := [], multi := false } false [aliasPolicy "cluster.local/ns/foo/*"] (aliasReq td)))
      = [(false, false), (true, true)] := by decide

/-- A `when` key that names no attribute (rejected by validation): the rule is lost under every
    action, in the statement and in the compiled filters alike - a DENY policy consisting of such a
    rule denies nothing. -/
theorem unknown_key_rule_lost :
    let p : Policy := { ns := "foo".toList, name := "p".toList, action := .deny,
                        rules := [ { whens := [ ⟨"unknown.key".toList, ["x".toList], []⟩ ] } ] }
    classify p.ns "unknown.key".toList = none ∧
    evalGs (compileAll exWl exOpts { providers := [], multi := false } [p]) (aliasReq "cluster.local") = true ∧
    specDecisionOn exWl exOpts.bundle { providers := [], multi := false } false [p] (aliasReq "cluster.local") = true := by
  decide

/-- All hypotheses incl. the CUSTOM part, as one computable check. -/
theorem customEntriesDistinct_of_B (o : BuildOpts) (ps : List Policy) (h : customEntriesDistinctB o ps = true) :
    CustomEntriesDistinct o ps := by
  unfold customEntriesDistinctB at h
  unfold CustomEntriesDistinct
  exact of_decide_eq_true h

theorem compile_all_correct_http_checked (w : Workload) (o : BuildOpts) (c : CustomOpts) (ps : List Policy)
    (req : Request) (hhttp : o.forTCP = false)
    (h : hypsAllB o (selectPolicies w ps) req = true) (htr : translatableB o (selectPolicies w ps) = true) :
    evalGs (compileAll w o c ps) req = specDecisionAll w o.bundle c ps req := by
  simp only [hypsAllB, Bool.and_eq_true] at h
  exact compile_all_correct_http w o c ps req hhttp (hyps_of_B _ _ _ h.1) (translatable_of_B _ _ htr)
    (customEntriesDistinct_of_B _ _ h.2)

theorem compile_all_failclosed_checked (w : Workload) (o : BuildOpts) (c : CustomOpts) (ps : List Policy)
    (req : Request) (h : hypsAllB o (selectPolicies w ps) req = true)
    (hc : evalGs (compileAll w o c ps) req = true) : specDecisionAll w o.bundle c ps req = true := by
  simp only [hypsAllB, Bool.and_eq_true] at h
  exact compile_all_failclosed w o c ps req (hyps_of_B _ _ _ h.1) (customEntriesDistinct_of_B _ _ h.2) hc

end IstioModel.C08
