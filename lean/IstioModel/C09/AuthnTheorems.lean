import IstioModel.C09.Authn
import IstioModel.C09.Lemmas

/-!
C09 - theorems about the authenticators: each yields only identities derived from the validated
credential, and malformed input is an error, not a crash.
-/
namespace IstioModel.C09

/-! ### OIDC -/

/-- After the fix, `JwtAuthenticator.Authenticate` never panics, whatever `sub` and `aud` contain. -/
theorem oidc_sub_total (td : String) (expected : List String) (tok : OidcTok) :
    oidcAuthenticate true td expected tok ≠ .crash := by
  cases tok with
  | noHeader => simp [oidcAuthenticate]
  | rejected => simp [oidcAuthenticate]
  | badClaims => simp [oidcAuthenticate]
  | claims sub aud =>
    simp only [oidcAuthenticate]
    unfold oidcClaims
    split
    · simp
    · split
      · simp
      · rename_i hlen
        have h4 : 4 ≤ (split ':' sub).length := by
          simp only [true_and, Nat.not_lt] at hlen; exact hlen
        have h2 : (split ':' sub)[2]? = some ((split ':' sub)[2]'(by omega)) := List.getElem?_eq_getElem (by omega)
        have h3 : (split ':' sub)[3]? = some ((split ':' sub)[3]'(by omega)) := List.getElem?_eq_getElem (by omega)
        rw [h2, h3]
        simp only
        split
        · simp
        · split <;> simp

/-- Before the fix the same holds only for a `sub` with at least four fields ... -/
theorem oidc_sub_total_partial (td : String) (expected : List String) (sub : String) (aud : List String)
    (h4 : 4 ≤ (split ':' sub).length) :
    oidcAuthenticate false td expected (.claims sub aud) ≠ .crash := by
  simp only [oidcAuthenticate]
  unfold oidcClaims
  split
  · simp
  · split
    · simp
    · have h2 : (split ':' sub)[2]? = some ((split ':' sub)[2]'(by omega)) := List.getElem?_eq_getElem (by omega)
      have h3 : (split ':' sub)[3]? = some ((split ':' sub)[3]'(by omega)) := List.getElem?_eq_getElem (by omega)
      rw [h2, h3]
      simp only
      split
      · simp
      · split <;> simp

/-- ... and a verified token with `sub = "system:serviceaccount:x"` crashes the old code (finding F5). -/
theorem oidc_crash_witness_unfixed :
    oidcAuthenticate false "cluster.local" ["istio-ca"] (.claims "system:serviceaccount:x" ["istio-ca"]) = .crash := by
  decide

/-- The same token is an error after the fix. -/
theorem oidc_short_sub_rejected_fixed :
    oidcAuthenticate true "cluster.local" ["istio-ca"] (.claims "system:serviceaccount:x" ["istio-ca"]) = .err := by
  decide

/-- An identity comes only from a token the verifier accepted, whose audience intersects the
    configured audiences; it is the SPIFFE URI of fields 3 and 4 of `sub`, which starts with
    `system:serviceaccount`. No Kubernetes pod information is attached. -/
theorem oidc_identity_from_sub {fixed : Bool} {td : String} {expected : List String} {tok : OidcTok} {c : Caller}
    (h : oidcAuthenticate fixed td expected tok = .ok c) :
    ∃ sub aud ns sa, tok = .claims sub aud ∧ hasPrefix sub oidcSubPrefix = true ∧ checkAudience aud expected = true ∧
      (split ':' sub)[2]? = some ns ∧ (split ':' sub)[3]? = some sa ∧
      c = { identities := [spiffeURI td ns sa] } := by
  cases tok with
  | noHeader => simp [oidcAuthenticate] at h
  | rejected => simp [oidcAuthenticate] at h
  | badClaims => simp [oidcAuthenticate] at h
  | claims sub aud =>
    simp only [oidcAuthenticate] at h
    unfold oidcClaims at h
    split at h
    · simp at h
    · rename_i hp
      split at h
      · simp at h
      · split at h
        · rename_i ns sa h2 h3
          split at h
          · simp at h
          · split at h
            · simp at h
            · rename_i ha
              simp only [AuthRes.ok.injEq] at h
              exact ⟨sub, aud, ns, sa, rfl, by simpa using hp, by simpa using ha, h2, h3, h.symm⟩
        · simp at h

/-- Since the second fix an identity from OIDC always has a non-empty namespace and service account
    (as from the Kubernetes JWT authenticator) ... -/
theorem oidc_identity_fields_nonempty {td : String} {expected : List String} {sub : String} {aud : List String} {c : Caller}
    (h : oidcClaims true td expected sub aud = .ok c) :
    ∃ ns sa, (split ':' sub)[2]? = some ns ∧ (split ':' sub)[3]? = some sa ∧ ns ≠ "" ∧ sa ≠ "" ∧
      c = { identities := [spiffeURI td ns sa] } := by
  unfold oidcClaims at h
  split at h
  · simp at h
  · split at h
    · simp at h
    · split at h
      · rename_i ns sa h2 h3
        split at h
        · simp at h
        · rename_i hne
          split at h
          · simp at h
          · simp only [AuthRes.ok.injEq] at h
            simp only [true_and, not_or] at hne
            exact ⟨ns, sa, h2, h3, hne.1, hne.2, h.symm⟩
      · simp at h

/-- ... before it, `sub = "system:serviceaccount::"` was accepted as the identity `spiffe://td/ns//sa/`. -/
theorem oidc_empty_fields_witness_unfixed :
    oidcAuthenticate false "cluster.local" ["istio-ca"] (.claims "system:serviceaccount::" ["istio-ca"]) =
      .ok { identities := ["spiffe://cluster.local/ns//sa/"] } ∧
    oidcAuthenticate true "cluster.local" ["istio-ca"] (.claims "system:serviceaccount::" ["istio-ca"]) = .err := by
  decide

/-- The audience check is an intersection test. -/
theorem checkAudience_iff (a e : List String) : checkAudience a e = true ↔ ∃ x, x ∈ a ∧ x ∈ e := by
  simp [checkAudience, List.any_eq_true]

/-! ### Kubernetes JWT -/

/-- `getTokenReviewResult` accepts exactly an error-free, authenticated review of a member of
    `system:serviceaccounts` whose username has four ':'-separated fields. -/
theorem tokenReview_inv {r : Review} {k : KubeInfo} (h : tokenReviewResult r = some k) :
    r.apiErr = false ∧ r.error = "" ∧ r.authenticated = true ∧ "system:serviceaccounts" ∈ r.groups ∧
    ∃ a b, split ':' r.username = [a, b, k.podNamespace, k.podSA] ∧
      k.podName = extractExtra r.podName ∧ k.podUID = extractExtra r.podUID := by
  unfold tokenReviewResult at h
  split at h
  · simp at h
  · rename_i h1
    split at h
    · simp at h
    · rename_i h2
      split at h
      · simp at h
      · rename_i h3
        split at h
        · simp at h
        · rename_i h4
          split at h
          · rename_i a b ns sa hs
            simp only [Option.some.injEq] at h
            subst h
            exact ⟨by simpa using h1, by simpa using h2, by simpa using h3, by simpa using h4, a, b, hs, rfl, rfl⟩
          · simp at h

/-- The kube authenticator yields exactly one identity: the SPIFFE URI of the namespace and service
    account that the API server of the cluster the caller named reported for the review of THE
    PRESENTED bearer token for the configured audiences (`security.TokenAudiences`) - `api` is applied
    to exactly that call and to nothing else -, both non-empty, with that pod information. -/
theorem kube_identity_from_review {t : Transport} {td : String} {cfg : KubeCfg} {hdr : Option (List String)}
    {authVals aud : List String} {api : ReviewCall → Review} {c : Caller} {call : Option ReviewCall}
    (h : kubeAuthenticate t td cfg hdr authVals aud api = (.ok c, call)) :
    ∃ tok cl k, extractToken t authVals = some tok ∧ getKubeClient cfg (clusterIDOf t hdr) = some cl ∧
      call = some { client := cl, token := tok, audiences := aud } ∧
      tokenReviewResult (api { client := cl, token := tok, audiences := aud }) = some k ∧
      k.podNamespace ≠ "" ∧ k.podSA ≠ "" ∧
      c = { identities := [spiffeURI td k.podNamespace k.podSA], kube := k } := by
  unfold kubeAuthenticate at h
  split at h
  · simp at h
  · rename_i tok htok
    split at h
    · simp at h
    · rename_i cl hcl
      simp only at h
      split at h
      · simp at h
      · rename_i k hk
        split at h
        · simp at h
        · rename_i hsa
          split at h
          · simp at h
          · rename_i hns
            simp only [Prod.mk.injEq, AuthRes.ok.injEq] at h
            exact ⟨tok, cl, k, htok, hcl, h.2.symm, hk, hns, hsa, h.1.symm⟩

/-- Whenever a TokenReview is submitted - whatever its outcome - it carries the presented token and
    the configured audiences, and goes to the cluster the caller named. -/
theorem kube_review_binds_token_and_audience {t : Transport} {td : String} {cfg : KubeCfg} {hdr : Option (List String)}
    {authVals aud : List String} {api : ReviewCall → Review} {call : ReviewCall}
    (h : (kubeAuthenticate t td cfg hdr authVals aud api).2 = some call) :
    extractToken t authVals = some call.token ∧ call.audiences = aud ∧
    getKubeClient cfg (clusterIDOf t hdr) = some call.client := by
  unfold kubeAuthenticate at h
  split at h
  · simp at h
  · rename_i tok htok
    split at h
    · simp at h
    · rename_i cl hcl
      simp only at h
      split at h
      · simp only [Option.some.injEq] at h; subst h; exact ⟨htok, rfl, hcl⟩
      · split at h
        · simp only [Option.some.injEq] at h; subst h; exact ⟨htok, rfl, hcl⟩
        · split at h
          · simp only [Option.some.injEq] at h; subst h; exact ⟨htok, rfl, hcl⟩
          · simp only [Option.some.injEq] at h; subst h; exact ⟨htok, rfl, hcl⟩

/-- Non-interference: the result depends on the API servers only through their answer to the one
    submitted review - two API behaviours that agree on it give the same result. -/
theorem kube_depends_only_on_submitted_review (t : Transport) (td : String) (cfg : KubeCfg) (hdr : Option (List String))
    (authVals aud : List String) (api1 api2 : ReviewCall → Review)
    (h : ∀ tok cl, extractToken t authVals = some tok → getKubeClient cfg (clusterIDOf t hdr) = some cl →
      api1 { client := cl, token := tok, audiences := aud } = api2 { client := cl, token := tok, audiences := aud }) :
    kubeAuthenticate t td cfg hdr authVals aud api1 = kubeAuthenticate t td cfg hdr authVals aud api2 := by
  unfold kubeAuthenticate
  split
  · rfl
  · rename_i tok htok
    split
    · rfl
    · rename_i cl hcl
      simp only [h tok cl htok hcl]

/-- The kube authenticator never panics. -/
theorem kube_total (t : Transport) (td : String) (cfg : KubeCfg) (hdr : Option (List String)) (authVals aud : List String)
    (api : ReviewCall → Review) : (kubeAuthenticate t td cfg hdr authVals aud api).1 ≠ .crash := by
  unfold kubeAuthenticate
  split
  · simp
  · split
    · simp
    · simp only
      split
      · simp
      · split
        · simp
        · split <;> simp

/-- Token extraction: gRPC accepts only a `Bearer ` value; HTTP looks at the first value and accepts
    `Bearer ` or `Istio `.  No value, no token. -/
theorem extractToken_nil (t : Transport) : extractToken t [] = none := by
  cases t <;> simp [extractToken]

/-- OIDC entry point: without an extractable token nothing is verified; otherwise the result is the
    post-processing of the verifier's verdict ON THE EXTRACTED TOKEN - and it never panics on the
    fixed code. -/
theorem oidc_entry_total (td : String) (expected : List String) (t : Transport) (authVals : List String)
    (verify : String → OidcTok) : oidcEntry true td expected t authVals verify ≠ .crash := by
  unfold oidcEntry
  split
  · simp
  · exact oidc_sub_total td expected _

theorem oidc_entry_identity {fixed : Bool} {td : String} {expected : List String} {t : Transport} {authVals : List String}
    {verify : String → OidcTok} {c : Caller} (h : oidcEntry fixed td expected t authVals verify = .ok c) :
    ∃ tok, extractToken t authVals = some tok ∧ oidcAuthenticate fixed td expected (verify tok) = .ok c := by
  unfold oidcEntry at h
  split at h
  · simp at h
  · rename_i tok htok; exact ⟨tok, htok, h⟩

/-- Totality over the way the authenticator was CONSTRUCTED: also with a nil mesh holder (istiod's `RunCA`
    before fix cb98066) the fixed code answers every request with a result, never a panic. -/
theorem oidc_entry_holder_total (holder : Option String) (expected : List String) (t : Transport) (authVals : List String)
    (verify : String → OidcTok) : oidcEntryH true holder expected t authVals verify ≠ .crash := by
  unfold oidcEntryH
  cases holder with
  | some td => exact oidc_entry_total td expected t authVals verify
  | none =>
    simp only
    split
    · simp
    · intro hc
      exact oidc_entry_total "" expected t authVals verify hc

/-- An authenticator without mesh config authenticates nobody (there is no trust domain to issue in). -/
theorem oidc_nil_holder_never_authenticates (fixed : Bool) (expected : List String) (t : Transport) (authVals : List String)
    (verify : String → OidcTok) (c : Caller) : oidcEntryH fixed none expected t authVals verify ≠ .ok c := by
  unfold oidcEntryH
  simp only
  split
  · split <;> simp
  · rename_i r hne
    intro h
    exact hne c h

/-- Finding (fixed by cb98066): with the nil holder of `RunCA` a VALID token - verified, well-formed sub,
    matching audience - crashed the request (nil dereference, no recovery interceptor), while every invalid
    token got its error. -/
theorem oidc_nil_holder_crash_witness_unfixed :
    oidcEntryH false none ["istio-ca"] .grpc ["Bearer T"]
      (fun t => if t = "T" then .claims "system:serviceaccount:ns1:sa1" ["istio-ca"] else .rejected) = .crash ∧
    oidcEntryH true none ["istio-ca"] .grpc ["Bearer T"]
      (fun t => if t = "T" then .claims "system:serviceaccount:ns1:sa1" ["istio-ca"] else .rejected) = .err ∧
    oidcEntryH false none ["istio-ca"] .grpc ["Bearer X"]
      (fun t => if t = "T" then .claims "system:serviceaccount:ns1:sa1" ["istio-ca"] else .rejected) = .err := by
  decide

/-- Which token is validated: gRPC takes the first `Bearer ` value, so a later one never matters. -/
theorem grpc_first_bearer_wins (tok : String) (rest : List String) :
    extractToken .grpc (("Bearer " ++ tok) :: rest) = some tok := by
  have h : cutPrefix "Bearer " ("Bearer " ++ tok) = some tok := by
    unfold cutPrefix hasPrefix
    have hp : "Bearer ".toList.isPrefixOf ("Bearer " ++ tok).toList = true := by
      rw [String.toList_append]; simp
    rw [if_pos hp, String.toList_append]
    simp [String.ofList_toList]
  simp [extractToken, List.findSome?, h]

/-- A token is reviewed by the primary cluster only when the caller names the primary cluster, one
    of its aliases, or no cluster; otherwise by the named remote cluster (or its alias target). -/
theorem kube_client_selection (cfg : KubeCfg) (id : String) (cl : Client) (h : getKubeClient cfg id = some cl) :
    (cl = .primary ∧ (cfg.primary = id ∨ cfg.primary = aliasOf cfg id ∨ id = "")) ∨
    (∃ rs, cfg.remotes = some rs ∧ ((cl = .remote id ∧ id ∈ rs) ∨ (cl = .remote (aliasOf cfg id) ∧ aliasOf cfg id ∈ rs))) := by
  unfold getKubeClient at h
  split at h
  · rename_i hp
    simp only [Option.some.injEq] at h
    exact Or.inl ⟨h.symm, hp⟩
  · split at h
    · simp at h
    · rename_i rs hrs
      split at h
      · rename_i hc
        simp only [Option.some.injEq] at h
        exact Or.inr ⟨rs, hrs, Or.inl ⟨h.symm, by simpa using hc⟩⟩
      · split at h
        · rename_i hc
          simp only [Option.some.injEq] at h
          exact Or.inr ⟨rs, hrs, Or.inr ⟨h.symm, by simpa using hc⟩⟩
        · simp at h

/-! ### XFCC -/

/-- Identities are taken from the XFCC header only when the peer address is trusted (in a listed
    CIDR, or loopback); they are the URI, DNS and Subject-CN values of the parsed header elements. -/
theorem xfcc_identity_from_trusted_header {cidrs : List String} {addr : String} {headers : List String}
    {parse : String → Option (List XfccElem)} {c : Caller}
    (h : xfccAuthenticate cidrs addr headers parse = .ok c) :
    isTrustedAddress addr cidrs = .yes ∧ headers ≠ [] ∧
    ∃ es, parse (headers.headD "") = some es ∧ es ≠ [] ∧ c = { identities := xfccIDs es } ∧
      ∀ id ∈ c.identities, ∃ e ∈ es, id ∈ e.uris ∨ id ∈ e.dns ∨ e.subject = some id := by
  unfold xfccAuthenticate at h
  split at h
  · simp at h
  · rename_i h0
    split at h
    · simp at h
    · simp at h
    · rename_i ht
      split at h
      · simp at h
      · simp at h
      · rename_i e es hp
        simp only [AuthRes.ok.injEq] at h
        subst h
        refine ⟨ht, ?_, e :: es, hp, by simp, rfl, ?_⟩
        · intro hh; simp [hh] at h0
        · intro id hid
          simp only [xfccIDs, List.mem_flatMap, List.mem_append] at hid
          obtain ⟨x, hx, hmem⟩ := hid
          refine ⟨x, hx, ?_⟩
          rcases hmem with (h1 | h1) | h1
          · exact Or.inl h1
          · exact Or.inr (Or.inl h1)
          · refine Or.inr (Or.inr ?_)
            cases hs : x.subject with
            | none => simp [hs] at h1
            | some cn => simp [hs] at h1; simp [h1]

/-- From an untrusted peer the header is never used. -/
theorem xfcc_untrusted_peer_rejected (cidrs : List String) (addr : String) (headers : List String)
    (parse : String → Option (List XfccElem)) (h : isTrustedAddress addr cidrs = .no) :
    xfccAuthenticate cidrs addr headers parse = .err := by
  unfold xfccAuthenticate
  split
  · rfl
  · simp [h]

/-- `isTrustedAddress` answers "trusted" only for an address whose host part is an IP literal that
    lies in a listed, well-formed CIDR or is a loopback address. -/
theorem trusted_address_inv {addr : String} {cidrs : List String} (h : isTrustedAddress addr cidrs = .yes) :
    ∃ host a, splitHostPort addr.toList = some host ∧ parseAddrFull host = some a ∧
      (isLoopback a = true ∨ ∃ c ∈ cidrs, ∃ p, parsePrefix c.toList = some p ∧ prefixContains p a = true) := by
  unfold isTrustedAddress at h
  split at h
  · simp at h
  · rename_i host hh
    have key : ∀ (l : List String), inAnyRange (parseAddrFull host) l = .yes →
        ∃ a, parseAddrFull host = some a ∧ ∃ c ∈ l, ∃ p, parsePrefix c.toList = some p ∧ prefixContains p a = true := by
      intro l
      induction l with
      | nil => simp [inAnyRange]
      | cons c cs ih =>
        intro hy
        unfold inAnyRange at hy
        split at hy
        · simp at hy
        · rename_i hr
          unfold isInRange at hr
          split at hr
          · simp at hr
          · split at hr
            · simp at hr
            · rename_i p hp
              split at hr
              · simp at hr
              · rename_i a ha
                split at hr
                · rename_i hc
                  exact ⟨a, ha, c, by simp, p, hp, hc⟩
                · simp at hr
        · obtain ⟨a, ha, c', hc', p, hp, hcont⟩ := ih hy
          exact ⟨a, ha, c', by simp [hc'], p, hp, hcont⟩
    split at h
    · simp at h
    · rename_i hy
      obtain ⟨a, ha, c, hc, p, hp, hcont⟩ := key cidrs hy
      exact ⟨host, a, hh, ha, Or.inr ⟨c, hc, p, hp, hcont⟩⟩
    · split at h
      · simp at h
      · rename_i a ha
        split at h
        · rename_i hl
          exact ⟨host, a, hh, ha, Or.inl hl⟩
        · simp at h

/-- For a peer address whose host part is an IP literal (every TCP peer) the trusted-peer check
    does not panic.  (`MustParseAddr` panics on any other host: recorded observation.) -/
theorem trusted_address_total_for_ip_hosts (addr : String) (cidrs : List String)
    (h : ∀ host, splitHostPort addr.toList = some host → (parseAddrFull host).isSome = true) :
    isTrustedAddress addr cidrs ≠ .crash := by
  unfold isTrustedAddress
  split
  · simp
  · rename_i host hh
    have hsome := h host hh
    cases ha : parseAddrFull host with
    | none => simp [ha] at hsome
    | some a =>
      have key : ∀ (l : List String), inAnyRange (some a) l ≠ .crash := by
        intro l
        induction l with
        | nil => simp [inAnyRange]
        | cons c cs ih =>
          unfold inAnyRange
          split
          · rename_i hr
            unfold isInRange at hr
            split at hr
            · simp at hr
            · split at hr
              · simp at hr
              · simp only at hr
                split at hr <;> simp at hr
          · simp
          · exact ih
      split
      · rename_i hc; exact absurd hc (key cidrs)
      · simp
      · split
        · rename_i hn; cases hn
        · split <;> simp

/-- The observation itself: a peer address with a host name makes the check panic. -/
theorem trusted_address_crash_witness : isTrustedAddress "host:80" ["10.0.0.0/8"] = .crash := by decide

/-! ### Client certificate -/

/-- Identities are exactly the SAN values of the leaf of the first verified chain of a TLS peer. -/
theorem cert_identity_from_leaf_san {k : PeerKind} {chains : List (List CertSAN)} {c : Caller}
    (h : certAuthenticate k chains = .ok c) :
    k = .tls ∧ ∃ vs rest more, chains = (.san vs :: rest) :: more ∧ c = { identities := vs } := by
  unfold certAuthenticate at h
  split at h
  · split at h
    · rename_i leaf rest more
      split at h
      · rename_i vs
        simp only [AuthRes.ok.injEq] at h
        exact ⟨rfl, vs, rest, more, rfl, h.symm⟩
      · simp at h
    · simp at h
  · simp at h

theorem cert_total (k : PeerKind) (chains : List (List CertSAN)) : certAuthenticate k chains ≠ .crash := by
  unfold certAuthenticate
  split
  · split
    · split <;> simp
    · simp
  · simp

/-! ### Which client certificates are validated (crypto/tls + PeerCertVerifier) -/

/-- The roots a trust domain's pool holds are exactly those registered for that trust domain. -/
theorem poolOf_mem {pools : List (String × List String)} {td : String} {roots : List String}
    (h : poolOf pools td = some roots) (r : String) : r ∈ roots ↔ ∃ p ∈ pools, p.1 = td ∧ r ∈ p.2 := by
  unfold poolOf at h
  split at h
  · simp only [Option.some.injEq] at h
    subst h
    simp only [List.mem_flatMap, List.mem_filter, beq_iff_eq]
    constructor
    · rintro ⟨p, ⟨hp, htd⟩, hr⟩; exact ⟨p, hp, htd, hr⟩
    · rintro ⟨p, hp, htd, hr⟩; exact ⟨p, ⟨hp, htd⟩, hr⟩
  · simp at h

/-- A client certificate yields identities only if the handshake accepted it, which requires: exactly
    one URI SAN, that URI is a SPIFFE identity `spiffe://td/ns/../sa/..`, the trust domain `td` has
    registered roots, the leaf is within its validity period and chains - through presented, valid CA
    certificates - to one of the roots registered FOR THAT TRUST DOMAIN.  The identities are then the
    SAN values of that leaf. -/
theorem tls_cert_root_scoped {pools : List (String × List String)} {peer : Option (PLeaf × List CACert)} {c : Caller}
    (h : tlsCertAuthenticate pools peer = some (.ok c)) :
    ∃ leaf ints u td ns sa roots, peer = some (leaf, ints) ∧ leaf.uris = [u] ∧ parseIdentity (urlString u) = some (td, ns, sa) ∧
      poolOf pools td = some roots ∧ chainsTo roots ints (ints.length + 1) leaf.issuer = true ∧
      leaf.timeOk = true ∧ c.identities = leaf.values := by
  unfold tlsCertAuthenticate at h
  split at h
  · simp at h
  · rename_i hacc
    cases peer with
    | none => simp at h
    | some pr =>
      obtain ⟨leaf, ints⟩ := pr
      simp only [Option.some.injEq] at h
      have hc : c.identities = leaf.values := by
        simp only [certAuthenticate, AuthRes.ok.injEq] at h
        rw [← h]
      have hv : verifyPeerCert pools leaf ints = true := by
        cases hvv : verifyPeerCert pools leaf ints with
        | true => rfl
        | false => simp [tlsAccepts, hvv] at hacc
      unfold verifyPeerCert at hv
      split at hv
      · rename_i u hu
        split at hv
        · simp at hv
        · rename_i td ns sa hp
          split at hv
          · simp at hv
          · rename_i roots hpool
            simp only [x509Verify, Bool.and_eq_true] at hv
            exact ⟨leaf, ints, u, td, ns, sa, roots, rfl, hu, hp, hpool, hv.2, hv.1.1, hc⟩
      · simp at hv

/-- A certificate whose issuer chain does not reach a root registered for the trust domain of its own
    URI SAN is refused at the handshake - even if it chains to a root of ANOTHER trust domain. -/
theorem tls_foreign_root_rejected (pools : List (String × List String)) (leaf : PLeaf) (ints : List CACert)
    (u td ns sa : String) (roots : List String) (hu : leaf.uris = [u]) (hp : parseIdentity (urlString u) = some (td, ns, sa))
    (hpool : poolOf pools td = some roots) (hno : chainsTo roots ints (ints.length + 1) leaf.issuer = false) :
    tlsCertAuthenticate pools (some (leaf, ints)) = none := by
  simp [tlsCertAuthenticate, tlsAccepts, verifyPeerCert, hu, hp, hpool, x509Verify, hno]

/-- No pool for the certificate's trust domain, or not exactly one URI SAN: refused. -/
theorem tls_unknown_trust_domain_rejected (pools : List (String × List String)) (leaf : PLeaf) (ints : List CACert)
    (u td ns sa : String) (hu : leaf.uris = [u]) (hp : parseIdentity (urlString u) = some (td, ns, sa)) (hpool : poolOf pools td = none) :
    tlsCertAuthenticate pools (some (leaf, ints)) = none := by
  simp [tlsCertAuthenticate, tlsAccepts, verifyPeerCert, hu, hp, hpool]

theorem tls_not_one_uri_rejected (pools : List (String × List String)) (leaf : PLeaf) (ints : List CACert)
    (h : leaf.uris.length ≠ 1) : tlsCertAuthenticate pools (some (leaf, ints)) = none := by
  have hv : verifyPeerCert pools leaf ints = false := by
    unfold verifyPeerCert
    split
    · rename_i u hu; simp [hu] at h
    · rfl
  simp [tlsCertAuthenticate, tlsAccepts, hv]

/-! ### Federated trust domains: what a SPIFFE bundle contributes (`RetrieveSpiffeBundleRootCerts`) -/

theorem bundleRootsLoop_mem {keys : List BundleKey} {roots : List String} (h : bundleRootsLoop keys = some roots)
    (r : String) : r ∈ roots ↔ ∃ k ∈ keys, k.use = x509SVID ∧ k.certs = [r] := by
  induction keys generalizing roots with
  | nil =>
    simp only [bundleRootsLoop, Option.some.injEq] at h
    subst h
    simp
  | cons k ks ih =>
    unfold bundleRootsLoop at h
    by_cases hu : k.use = x509SVID
    · simp only [hu, if_true] at h
      split at h
      · rename_i c hc
        cases hl : bundleRootsLoop ks with
        | none => simp [hl] at h
        | some l =>
          simp only [hl, Option.map_some, Option.some.injEq] at h
          subst h
          simp only [List.mem_cons, ih hl]
          constructor
          · rintro (rfl | ⟨k', hk', h1, h2⟩)
            · exact ⟨k, Or.inl rfl, hu, hc⟩
            · exact ⟨k', Or.inr hk', h1, h2⟩
          · rintro ⟨k', hk' | hk', h1, h2⟩
            · subst hk'; rw [hc] at h2; simp only [List.cons.injEq, and_true] at h2; exact Or.inl h2.symm
            · exact Or.inr ⟨k', hk', h1, h2⟩
      · simp at h
    · simp only [hu, if_false] at h
      rw [ih h]
      constructor
      · rintro ⟨k', hk', h1, h2⟩; exact ⟨k', List.mem_cons_of_mem _ hk', h1, h2⟩
      · rintro ⟨k', hk', h1, h2⟩
        rcases List.mem_cons.1 hk' with rfl | hk'
        · exact absurd h1 hu
        · exact ⟨k', hk', h1, h2⟩

/-- The trust roots a bundle contributes are exactly the single certificates of its X.509-SVID entries -
    a certificate carried by a `jwt-svid` entry (or an entry without a use) never becomes a trust root -
    and there is at least one. -/
theorem bundle_roots_only_x509_svid {keys : List BundleKey} {roots : List String} (h : bundleRoots keys = some roots) :
    roots ≠ [] ∧ ∀ r, r ∈ roots ↔ ∃ k ∈ keys, k.use = x509SVID ∧ k.certs = [r] := by
  unfold bundleRoots at h
  split at h
  · simp at h
  · rename_i hne
    refine ⟨?_, bundleRootsLoop_mem h⟩
    intro he
    subst he
    exact hne h

/-- An X.509-SVID entry that does not carry exactly one certificate makes the whole bundle an error. -/
theorem bundle_malformed_x509_entry_refused (keys : List BundleKey) (k : BundleKey) (hk : k ∈ keys)
    (hu : k.use = x509SVID) (hc : k.certs.length ≠ 1) : bundleRoots keys = none := by
  have hl : bundleRootsLoop keys = none := by
    induction keys with
    | nil => simp at hk
    | cons k' ks ih =>
      unfold bundleRootsLoop
      rcases List.mem_cons.1 hk with rfl | hk'
      · simp only [hu, if_true]
        split
        · rename_i c hcc; simp [hcc] at hc
        · rfl
      · by_cases hu' : k'.use = x509SVID
        · simp only [hu', if_true]
          split
          · simp [ih hk']
          · rfl
        · simp only [hu', if_false]
          exact ih hk'
  simp [bundleRoots, hl]

/-- A bundle without any X.509-SVID entry (e.g. only JWT-SVID keys, whatever certificates they carry) is refused. -/
theorem bundle_without_x509_entry_refused (keys : List BundleKey) (h : ∀ k ∈ keys, k.use ≠ x509SVID) :
    bundleRoots keys = none := by
  have hl : bundleRootsLoop keys = some [] := by
    induction keys with
    | nil => rfl
    | cons k ks ih =>
      unfold bundleRootsLoop
      simp only [h k (by simp), if_false]
      exact ih (fun k' hk' => h k' (List.mem_cons_of_mem _ hk'))
  simp [bundleRoots, hl]

/-- (About the harness' composition `resolvePools`, not about istiod - see the scope note in Authn.lean.)
    Every root registered that way comes from a listed pool, or is the single certificate of an X.509-SVID
    entry of a federated trust domain's bundle - registered for THAT trust domain. -/
theorem resolved_roots_origin {src : List (String × PoolSrc)} {pools : List (String × List String)}
    (h : resolvePools src = some pools) (td : String) (l : List String) (hp : (td, l) ∈ pools) :
    (td, PoolSrc.roots l) ∈ src ∨
      ∃ keys, (td, PoolSrc.bundle keys) ∈ src ∧ bundleRoots keys = some l := by
  induction src generalizing pools with
  | nil =>
    simp only [resolvePools, Option.some.injEq] at h
    subst h
    simp at hp
  | cons e rest ih =>
    obtain ⟨td', s⟩ := e
    cases s with
    | unreachable => simp [resolvePools] at h
    | roots l' =>
      simp only [resolvePools] at h
      cases hr : resolvePools rest with
      | none => simp [hr] at h
      | some ps =>
        simp only [hr, Option.map_some, Option.some.injEq] at h
        subst h
        rcases List.mem_cons.1 hp with heq | hin
        · simp only [Prod.mk.injEq] at heq
          obtain ⟨rfl, rfl⟩ := heq
          exact Or.inl (by simp)
        · rcases ih hr hin with h1 | ⟨keys, h1, h2⟩
          · exact Or.inl (List.mem_cons_of_mem _ h1)
          · exact Or.inr ⟨keys, List.mem_cons_of_mem _ h1, h2⟩
    | bundle keys' =>
      simp only [resolvePools] at h
      cases hb : bundleRoots keys' with
      | none => simp [hb] at h
      | some l' =>
        simp only [hb] at h
        cases hr : resolvePools rest with
        | none => simp [hr] at h
        | some ps =>
          simp only [hr, Option.map_some, Option.some.injEq] at h
          subst h
          rcases List.mem_cons.1 hp with heq | hin
          · simp only [Prod.mk.injEq] at heq
            obtain ⟨rfl, rfl⟩ := heq
            exact Or.inr ⟨keys', by simp, hb⟩
          · rcases ih hr hin with h1 | ⟨keys, h1, h2⟩
            · exact Or.inl (List.mem_cons_of_mem _ h1)
            · exact Or.inr ⟨keys, List.mem_cons_of_mem _ h1, h2⟩

/-- An endpoint that cannot be fetched (no URL, no 200 within the retries) fails the whole retrieval. -/
theorem unreachable_endpoint_fails (pre post : List (String × PoolSrc)) (td : String) :
    resolvePools (pre ++ (td, .unreachable) :: post) = none := by
  induction pre with
  | nil => simp [resolvePools]
  | cons e rest ih =>
    obtain ⟨td', s⟩ := e
    cases s with
    | unreachable => simp [resolvePools]
    | roots l => simp [resolvePools, ih]
    | bundle k =>
      simp only [List.cons_append, resolvePools]
      split
      · rfl
      · simp [ih]

/-- One refused bundle fails the whole retrieval (a caller that registers the result gets no verifier). -/
theorem refused_bundle_no_server (pre post : List (String × PoolSrc)) (td : String) (keys : List BundleKey)
    (h : bundleRoots keys = none) : resolvePools (pre ++ (td, .bundle keys) :: post) = none := by
  induction pre with
  | nil => simp [resolvePools, h]
  | cons e rest ih =>
    obtain ⟨td', s⟩ := e
    cases s with
    | unreachable => simp [resolvePools]
    | roots l => simp [resolvePools, ih]
    | bundle k =>
      simp only [List.cons_append, resolvePools]
      split
      · rfl
      · simp [ih]

/-- (Conditional on a wiring that /repo does not have today: IF the roots retrieved from bundle endpoints
    were registered with the verifier, as the harness does.)  The root that validates a peer is registered for
    the trust domain of its URI SAN, and if that trust domain is configured only through a bundle endpoint,
    the root is the single certificate of an X.509-SVID entry of that bundle. -/
theorem tls_federated_root_is_x509_svid {src : List (String × PoolSrc)} {pools : List (String × List String)}
    {peer : Option (PLeaf × List CACert)} {c : Caller}
    (hres : resolvePools src = some pools) (h : tlsCertAuthenticate pools peer = some (.ok c)) :
    ∃ leaf ints u td ns sa roots, peer = some (leaf, ints) ∧ leaf.uris = [u] ∧ parseIdentity (urlString u) = some (td, ns, sa) ∧
      poolOf pools td = some roots ∧ chainsTo roots ints (ints.length + 1) leaf.issuer = true ∧
      ∀ r ∈ roots, (∃ l, (td, PoolSrc.roots l) ∈ src ∧ r ∈ l) ∨
        ∃ keys k, (td, PoolSrc.bundle keys) ∈ src ∧ k ∈ keys ∧ k.use = x509SVID ∧ k.certs = [r] := by
  obtain ⟨leaf, ints, u, td, ns, sa, roots, hp, hu, hpi, hpool, hch, _, _⟩ := tls_cert_root_scoped h
  refine ⟨leaf, ints, u, td, ns, sa, roots, hp, hu, hpi, hpool, hch, ?_⟩
  intro r hr
  obtain ⟨p, hpm, htd, hrp⟩ := (poolOf_mem hpool r).1 hr
  obtain ⟨td', l⟩ := p
  simp only at htd hrp
  subst htd
  rcases resolved_roots_origin hres td' l hpm with h1 | ⟨keys, h1, h2⟩
  · exact Or.inl ⟨l, h1, hrp⟩
  · obtain ⟨k, hk, hu', hc'⟩ := ((bundle_roots_only_x509_svid h2).2 r).1 hrp
    exact Or.inr ⟨keys, k, h1, hk, hu', hc'⟩

/-- e.g. a bundle with an X.509-SVID entry for R1 and a JWT-SVID entry that carries the certificate of RX: only
    R1 is a root; a JWT-only bundle and an X.509 entry with two certificates are refused. -/
example : bundleRoots [⟨x509SVID, ["R1"]⟩, ⟨"jwt-svid", ["RX"]⟩] = some ["R1"] ∧ bundleRoots [⟨"jwt-svid", ["RX"]⟩] = none ∧
    bundleRoots [⟨x509SVID, ["R1", "RX"]⟩] = none ∧ bundleRoots [⟨x509SVID, ["R1"]⟩, ⟨"jwt-svid", []⟩, ⟨"", ["RX"]⟩] = some ["R1"] := by
  decide

theorem tls_cert_total (pools : List (String × List String)) (peer : Option (PLeaf × List CACert)) :
    tlsCertAuthenticate pools peer ≠ some .crash := by
  unfold tlsCertAuthenticate
  split
  · simp
  · cases peer with
    | none => simp
    | some pr => simp [certAuthenticate]

/-- e.g. trust domain td1 trusts R1, td2 trusts R2: a certificate for spiffe://td1/... issued under R2
    is refused although R2 is a registered root; the same certificate under R1 (also through a presented
    intermediate) is accepted, and its DNS SAN comes along as an identity (recorded observation: DNS SANs
    are not scoped by the trust domain). -/
example :
    tlsCertAuthenticate [("td1", ["R1"]), ("td2", ["R2"])] (some ({ issuer := "R2", sans := [("U", "spiffe://td1/ns/a/sa/b")] }, [])) = none ∧
    tlsCertAuthenticate [("td1", ["R1"]), ("td2", ["R2"])]
      (some ({ issuer := "I1", sans := [("U", "spiffe://td1/ns/a/sa/b"), ("D", "foo.com")] }, [{ name := "I1", issuer := "R1" }])) =
      some (.ok { identities := ["spiffe://td1/ns/a/sa/b", "foo.com"] }) ∧
    tlsCertAuthenticate [("td1", ["R1"])] none = some .err ∧
    -- the verifier sees the URI with its scheme lower-cased; the identity keeps the raw string
    tlsCertAuthenticate [("td1", ["R1"])] (some ({ issuer := "R1", sans := [("U", "SPIFFE://td1/ns/a/sa/b")] }, [])) =
      some (.ok { identities := ["SPIFFE://td1/ns/a/sa/b"] }) := by decide

/-! ### Non-vacuity -/

example : oidcAuthenticate true "td@corp" ["istio-ca"] (.claims "system:serviceaccount:ns1:sa1" ["x", "istio-ca"]) =
    .ok { identities := ["spiffe://td.corp/ns/ns1/sa/sa1"] } := by decide

example : kubeAuthenticate .grpc "cluster.local" ⟨"Kubernetes", [("alias", "remote1")], some ["remote1"]⟩ (some ["alias"])
      ["Basic x", "Bearer tok"] ["istio-ca"]
      (fun call => if call.token = "tok" ∧ call.audiences = ["istio-ca"] then
        { groups := ["system:serviceaccounts"], username := "system:serviceaccount:istio-system:ztunnel", podName := some ["zt"], podUID := some ["u1"] }
        else { authenticated := false }) =
    (.ok { identities := ["spiffe://cluster.local/ns/istio-system/sa/ztunnel"],
           kube := { podName := "zt", podNamespace := "istio-system", podUID := "u1", podSA := "ztunnel" } },
     some { client := .remote "remote1", token := "tok", audiences := ["istio-ca"] }) := by
  decide

example : extractToken .http ["Istio tok"] = some "tok" ∧ extractToken .grpc ["Istio tok"] = none ∧
    extractToken .http ["Basic x", "Bearer tok"] = none ∧ extractToken .grpc ["Basic x", "Bearer tok"] = some "tok" := by decide

example : isTrustedAddress "10.1.2.3:555" ["10.0.0.0/8"] = .yes ∧ isTrustedAddress "11.1.2.3:555" ["10.0.0.0/8"] = .no ∧
    isTrustedAddress "[::1]:80" [] = .yes ∧ isTrustedAddress "[::ffff:10.1.2.3]:1" ["10.0.0.0/8"] = .no := by decide

example : xfccAuthenticate ["10.0.0.0/8"] "10.1.2.3:555" ["h", "h2"]
      (fun v => if v = "h" then some [⟨["spiffe://a/ns/b/sa/c"], ["foo.com"], some "bar"⟩] else some [⟨["spiffe://evil"], [], none⟩]) =
    .ok { identities := ["spiffe://a/ns/b/sa/c", "foo.com", "bar"] } := by decide

end IstioModel.C09
