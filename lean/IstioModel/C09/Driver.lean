import IstioModel.Common.Wire
import IstioModel.C09.Model
import IstioModel.C09.Authn
import IstioModel.C09.Compose

/-! Line-protocol driver for C09 (streams `issue`, `authn`). See harness/c09. -/
namespace IstioModel.C09
open IstioModel.Wire

def sec : Int := 1000000000

/-- nominal time that passes per operation (the real harness needs far less) -/
def tick : Int := 100000000

/-- fields joined by '|' (each wire-encoded) -/
def decFields (s : String) : List String := (s.splitOn "|").map dec

def fieldAt (l : List String) (i : Nat) : String := (l[i]?).getD ""

def hex2 (n : Nat) : String :=
  let d (k : Nat) : Char := if k < 10 then Char.ofNat (48 + k) else Char.ofNat (87 + k)
  String.ofList [d (n / 16 % 16), d (n % 16)]

def showSan : San → String
  | .uri v => "U:" ++ enc v
  | .dns v => "D:" ++ enc v
  | .ip b => "I:" ++ String.join (b.map hex2)

def ekuOID (n : Nat) : String := "1.3.6.1.5.5.7.3." ++ toString n

def parseInt (s : String) : Int := s.toInt?.getD 0

/-- CSR form token -> the three decoding outcomes (how the harness materialises the forms) -/
def csrOfFields (f : List String) : CSR :=
  let form := fieldAt f 0
  let pemOk := !(form == "nopem" || form == "empty")
  -- `multi`: a second PEM block behind the CSR (ignored); `pss`: RSA-PSS proof of possession; `unkkey`: parses, but
  -- the key algorithm is unknown to Go, so the signature cannot be checked; `multibad`, `flip<n>`: do not decode or verify
  let derOk := form == "ok" || form == "oktype" || form == "oktrail" || form == "oklead" || form == "badsig" || form == "gen" ||
               form == "multi" || form == "pss" || form == "unkkey"
  if form == "gen" then
    -- the real util.GenCSR: hosts = the requested names, dual-use CN iff a CN is asked for
    genCSR (fieldAt f 1) (decList (fieldAt f 4)) (fieldAt f 3) (fieldAt f 2 != "")
  else
  { pemOk := pemOk, derOk := derOk, sigOk := derOk && form != "badsig" && form != "unkkey",
    pubKey := fieldAt f 1,
    cn := fieldAt f 2,
    subject := [fieldAt f 3],
    sans := decList (fieldAt f 4), wantCA := fieldAt f 5 == "1",
    exts := if fieldAt f 6 == "1" then ["private"] else [] }

def outOfFields (f : List String) : AuthOut :=
  let kind := fieldAt f 0
  let c : Caller := { identities := decList (fieldAt f 1),
                      kube := { podName := fieldAt f 2, podNamespace := fieldAt f 3, podUID := fieldAt f 4, podSA := fieldAt f 5 } }
  if kind == "ok" then { caller := some c, err := false }
  else if kind == "both" then { caller := some c, err := true }
  else if kind == "err" then { caller := none, err := true }
  else { caller := none, err := false }

def metaStr (t : String) : String :=
  if t.startsWith "s:" then dec ((t.drop 2).toString) else ""

def podOfFields (f : List String) : Pod :=
  { name := fieldAt f 0, ns := fieldAt f 1, uid := fieldAt f 2, sa := fieldAt f 3, node := fieldAt f 4,
    phase := fieldAt f 5 }

def trustedOf (t : String) : String × String :=
  match t.splitOn "/" with
  | [ns] => (ns, "")
  | ns :: rest => (ns, "/".intercalate rest)
  | [] => ("", "")

def podsOf (tok : String) : List Pod := (decList tok).map (fun p => podOfFields (decFields p))

def clustersOf (hidden : List String) : List String → List (String × Slot)
  | id :: pods :: rest => (dec id, { cur := some { pods := podsOf pods, hidden := hidden } }) :: clustersOf hidden rest
  | _ => []

/-- optional trailing `hide <namespaces>` of an `na` line -/
def splitHide (l : List String) : List String × List String :=
  match l.reverse with
  | ns :: "hide" :: rest => (rest.reverse, decList ns)
  | _ => (l, [])

def updCluster (id : String) (f : Slot → Slot) : List (String × Slot) → List (String × Slot)
  | [] => []
  | (k, v) :: rest => if k = id then (k, f v) :: rest else (k, v) :: updCluster id f rest

/-- apply a transition to the slot of a cluster ID (an absent ID has the empty slot) -/
def onSlot (id : String) (f : Slot → Slot) (l : List (String × Slot)) : List (String × Slot) :=
  if l.any (fun kv => kv.1 == id) then updCluster id f l else l ++ [(id, f {})]

/-- pod events reach the informer of the component that is `clusters[id]` -/
def onCurPods (f : List Pod → List Pod) (s : Slot) : Slot :=
  { s with cur := s.cur.map (fun c => { c with pods := f c.pods }) }

structure DState where
  clock    : Int := 0
  ca       : Option CA := none
  trusted  : List (String × String) := []
  clusters : List (String × Slot) := []
  naSet    : Bool := false
  hidden   : List String := []
  mesh     : Option String := none   -- trust domain set by a `mesh` op of the case

def showIssue (srv : Server) (req : Request) (r : Resp CertData) : String :=
  match r with
  | .crash => "crash"
  | .err .unauthenticated => "err Unauthenticated"
  | .err .invalidArgument => "err InvalidArgument"
  | .err .internal => "err Internal"
  | .ok chain =>
    match chain with
    | .leaf d :: _ =>
      let t := d.tmpl
      let clamp := srv.ca.bundle.signerNotAfter == some t.notAfter
      let capped := match srv.ca.bundle.chain with
        | c :: _ => decide (0 ≤ t.notAfter - c.notAfter ∧ t.notAfter - c.notAfter ≤ 10 * sec)
        | [] => false
      let life := if clamp then "clamp" else if capped then "chaincap" else toString ((t.notAfter - t.notBefore) / sec - 120)
      let le := match srv.ca.bundle.signerNotAfter with
        | some s => decide (t.notAfter ≤ s)
        | none => false
      let san := if t.san.isEmpty then "-" else ",".intercalate (t.san.map showSan)
      let subj := (if t.subjectCN.isEmpty then [] else ["2.5.4.3=" ++ t.subjectCN]) ++ t.subjectOther
      s!"ok san={san} crit={boolTok t.sanCritical} subj={encList subj} sig=1 ca={boolTok t.isCA} bc={boolTok t.bcValid} key={boolTok (d.pubKey == req.csr.pubKey)} ku={t.keyUsage} eku={encList (t.extKeyUsage.map ekuOID)} xext={encList t.otherExts} life={life} le={boolTok le} chain={chain.length} mid=1 root={boolTok srv.ca.bundle.hasRoot}"
    | _ => "ok-without-leaf"

def stepIssue (d : DState) (toks : List String) : DState × String :=
  match toks with
  | ["ca", kind, signer, chain, root, dflt, mx] =>
    let b : Bundle := {
      signerNotAfter := if signer == "none" then none else some (d.clock + parseInt signer * sec),
      chain := (if chain == "-" then [] else chain.splitOn ",").map
        (fun l => { name := "c", notAfter := d.clock + parseInt l * sec }),
      hasRoot := root == "1" }
    -- kind plugfilenotca: the production constructor is handed a signing certificate that is not a CA certificate
    match newPluggedIstioCA (kind != "plugfilenotca") b (parseInt dflt * sec) (parseInt mx * sec) d.clock with
    | none => ({ d with ca := none, clock := d.clock + tick }, "ca-err")
    | some ca => ({ d with ca := some ca, clock := d.clock + tick }, "ca-ok")
  | ["rot", life, chain] =>
    match d.ca with
    | none => (d, "bad-op")
    | some ca =>
      if parseInt life ≤ 0 then ({ d with clock := d.clock + tick }, "rot-err")   -- VerifyAndSetAll refuses an expired signer
      else
        let na := d.clock + parseInt life * sec
        let b : Bundle := { signerNotAfter := some na, chain := if chain == "-" then [] else [{ name := "c", notAfter := na }], hasRoot := true }
        ({ d with ca := some (ca.rotated b), clock := d.clock + tick }, "rot-ok")
  | ["genkeycert", hosts, ttl] =>
    match d.ca with
    | none => (d, "bad-op")
    | some ca =>
      let now := d.clock + tick
      match sign repoFixes ca {} (decList hosts) (parseInt ttl * sec) false false now with
      | .err _ => ({ d with clock := now }, "err")
      | .ok cd =>
        let t := cd.tmpl
        let clamp := ca.bundle.signerNotAfter == some t.notAfter
        let life := if clamp then "clamp" else toString ((t.notAfter - t.notBefore) / sec - 120)
        let san := if t.san.isEmpty then "-" else ",".intercalate (t.san.map showSan)
        ({ d with clock := now }, s!"ok san={san} ca={boolTok t.isCA} sig=1 life={life}")
  | ["pod", "add", cl, pod] =>
    let p := podOfFields (decFields (dec pod))
    let cs := onSlot (dec cl) (onCurPods (fun ps => ps ++ [p])) d.clusters
    ({ d with clusters := cs }, "ev-ok")
  | ["pod", "upd", cl, pod] =>
    -- an UPDATE of the pod with that namespace/name (late scheduling, phase change, ...)
    let p := podOfFields (decFields (dec pod))
    let cs := onSlot (dec cl) (onCurPods (fun ps => ps.map (fun q => if q.ns == p.ns && q.name == p.name then p else q))) d.clusters
    ({ d with clusters := cs }, "ev-ok")
  | ["pod", "del", cl, ns, name] =>
    let cs := onSlot (dec cl) (onCurPods (fun ps => ps.filter (fun p => !(p.ns == dec ns && p.name == dec name)))) d.clusters
    ({ d with clusters := cs }, "ev-ok")
  | ["cl", "upd", id, pods, run] =>
    let cs := onSlot (dec id) (fun s => if run == "1" then (s.updated (podsOf pods) d.hidden).synced else s.updated (podsOf pods) d.hidden) d.clusters
    ({ d with clusters := cs }, "ev-ok")
  | ["cl", "run", id] =>
    -- the new component of a pending update syncs; the swap is not finalised yet
    let cs := onSlot (dec id) (fun s => if s.swap.isSome && s.cur.any (fun c => !c.synced) then s.ran else s) d.clusters
    ({ d with clusters := cs }, "ev-ok")
  | ["cl", "sync", id] =>
    -- the harness starts the client of a still pending update (none after the cluster was deleted)
    let cs := onSlot (dec id) (fun s => if s.cur.any (fun c => !c.synced) || s.swap.isSome then s.synced else s) d.clusters
    ({ d with clusters := cs }, "ev-ok")
  | ["cl", "del", id] =>
    let cs := onSlot (dec id) (Slot.deleted repoFixes.swapCleanup) d.clusters
    ({ d with clusters := cs }, "ev-ok")
  | ["cl", "add", id, pods] =>
    let cs := onSlot (dec id) (fun s => s.added (podsOf pods) d.hidden) d.clusters
    ({ d with clusters := cs }, "ev-ok")
  | "nap" :: rest | "na" :: rest =>
    match rest with
    | trusted :: _n :: cl =>
      let ch := splitHide cl
      ({ d with naSet := true, trusted := (decList trusted).map trustedOf, clusters := clustersOf ch.2 ch.1, hidden := ch.2 }, "na-ok")
    | _ => ({ d with naSet := true, trusted := [], clusters := [] }, "na-ok")
  | ["req", ctx, outs, csr, ttl, imp, signer, cluster, junk] =>
    match d.ca with
    | none => (d, "no-ca")
    | some ca =>
      if !d.naSet then (d, "no-ca") else
      let flags := ctx.toList
      let c : Ctx := { xdsAuth := flags[0]? == some '1', hasPeer := flags[1]? == some '1', tls := flags[2]? == some '1',
                       authPlaintext := flags[3]? == some '1',
                       -- 5th flag: no incoming metadata at all, hence no clusterid either
                       clusterIDs := if cluster == "-" || flags[4]? == some '1' then none else some (decList cluster) }
      let os := (decList outs).map (fun o => outOfFields (decFields o))
      let req : Request := { csr := csrOfFields (decFields (dec csr)), validity := parseInt ttl,
                             impersonated := metaStr imp, certSigner := metaStr signer,
                             otherMeta := (List.range (parseInt junk).toNat).map (fun i => (toString i, "junk")) }
      let srv := Server.new ca d.trusted d.clusters
      let now := d.clock + tick
      ({ d with clock := now }, showIssue srv req (createCertificate repoFixes id srv c os req now))
  | _ => (d, "bad-op")

/-! ### stream `authn` (and the real-authenticator requests `reqa` of stream `issue`) -/

def showKube (k : KubeInfo) : String :=
  enc ("|".intercalate ([k.podName, k.podNamespace, k.podUID, k.podSA].map enc))

def clientName : Client → String
  | .primary => "primary"
  | .remote id => "remote:" ++ id

def showCall : Option ReviewCall → String
  | none => ""
  | some c => s!" via={enc (clientName c.client)} aud={encList c.audiences} tok={enc c.token}"

def showAuthRes (r : AuthRes) (via : String) : String :=
  match r with
  | .crash => "crash"
  | .nil => "nil"
  | .err => "err" ++ via
  | .ok c => s!"ok ids={encList c.identities} kube={showKube c.kube}" ++ via

def extraOf (t : String) : Option (List String) :=
  if t.startsWith "=" then (if t == "=" then some [] else some (decList ((t.drop 1).toString))) else none

def aliasPair (s : String) : String × String :=
  match s.splitOn "=" with
  | [k] => (k, "")
  | k :: rest => (k, "=".intercalate rest)
  | [] => ("", "")

def hexNib (c : Char) : Nat := (hexVal c).getD 0

def hexBytes : List Char → List Nat
  | a :: b :: rest => (hexNib a * 16 + hexNib b) :: hexBytes rest
  | _ => []

/-- SAN values of a client certificate are byte strings (`string(id.Value)` in Go): they are kept
    as one character per byte and printed byte-wise (`encBytes`), so that an IP SAN with bytes
    >= 0x80 (not valid UTF-8) round-trips. -/
def bytesStr (b : List Nat) : String := String.ofList (b.map Char.ofNat)

def sanValue (e : String) : String :=
  if e.startsWith "I:" then bytesStr (hexBytes ((e.drop 2).toString.toList))
  else bytesStr ((e.drop 2).toString.toUTF8.toList.map (·.toNat))

def encBytes (s : String) : String :=
  if s.isEmpty then "~" else
  String.ofList <| s.toList.flatMap fun ch =>
    let n := ch.toNat
    if n < 128 && safeChar ch then [ch] else ['%', hexDigit (n / 16 % 16), hexDigit (n % 16)]

def encListBytes (l : List String) : String :=
  if l.isEmpty then "-" else ",".intercalate (l.map encBytes)

def certOf (spec : String) : CertSAN :=
  if spec == "nosan" then .noSan
  else if spec == "bad" then .bad
  else if spec.startsWith "san:" then .san ((decList ((spec.drop 4).toString)).map sanValue)
  else .bad

def chainOf (s : String) : List CertSAN :=
  if s.isEmpty then [] else (s.splitOn "|").map (fun c => certOf (dec c))

def xfccElemOf (s : String) : XfccElem :=
  let f := decFields s
  { uris := decList (fieldAt f 0), dns := decList (fieldAt f 1),
    subject := if fieldAt f 2 == "1" then some (fieldAt f 3) else none }

def transportOf (t : String) : Transport := if t == "http" then .http else .grpc

def otherToken : String := "other-token"

/-- the `authorization` values for a header form -/
def authValsOf (form tok : String) : List String :=
  if form == "bearer" then ["Bearer " ++ tok]
  else if form == "istio" then ["Istio " ++ tok]
  else if form == "basic" then ["Basic dXNlcjpwYXNz"]
  else if form == "bb" then ["Basic dXNlcjpwYXNz", "Bearer " ++ tok]
  else if form == "two" then ["Bearer " ++ otherToken, "Bearer " ++ tok]
  else if form == "two2" then ["Bearer " ++ tok, "Bearer " ++ otherToken]
  else []

/-- the fixed test PKI of the harness: intermediates by name -/
def caCertOf (n : String) : Option CACert :=
  if n == "I1" then some { name := "I1", issuer := "R1" }
  else if n == "I2" then some { name := "I2", issuer := "R2" }
  else if n == "I3" then some { name := "I3", issuer := "I1" }
  else if n == "IE" then some { name := "IE", issuer := "R1", timeOk := false }
  else if n == "INC" then some { name := "INC", issuer := "R1", isCA := false }
  else none

/-- what the evaluation of one authenticator spec gives: result, trailer of the output line, and
    the transport-level facts `security.Authenticate` reads (peer present, TLS auth info) -/
structure SpecRes where
  rejected : Bool := false   -- TLS handshake refused
  bundleErr : Bool := false  -- a federated trust domain's bundle was refused
  res     : AuthRes
  trailer : String := ""
  hasPeer : Bool := true
  tls     : Bool := true
  bytes   : Bool := false   -- identities are byte strings (client certificate)

def bundleKeyOf (s : String) : BundleKey :=
  match s.splitOn ":" with
  | [u, cs] => { use := if u == "x" then x509SVID else if u == "j" then "jwt-svid" else "",
                 certs := if cs.isEmpty then [] else cs.splitOn "+" }
  | _ => { use := "", certs := [] }

/-- one pool of a `tlscert` spec: `<td>=<root>+..` or the federated `<td>=@<use>:<cert>+..;..` -/
def poolSrcOf (p : String) : String × PoolSrc :=
  match p.splitOn "=" with
  | [td, roots] =>
    if roots.startsWith "@" then
      let spec := (roots.drop 1).toString
      -- `!500` / `!badurl`: never fetched; `!flaky;<keys>`: unavailable once, fetched on the retry
      if spec == "!500" || spec == "!badurl" then (td, .unreachable) else
      let keys := if spec.startsWith "!flaky" then ((spec.drop 6).toString.dropWhile (· == ';')).toString else spec
      (td, .bundle (if keys.isEmpty then [] else (keys.splitOn ";").map bundleKeyOf))
    else (td, .roots (roots.splitOn "+"))
  | _ => (p, .roots [])

/-- the connection of a `reqa` / `reqm` request that is not TLS (`t=<mode>`): the AuthInfo the authenticators
    see, and XDS_AUTH_PLAINTEXT -/
def modeOf (m : String) : Option (PeerKind × Bool) :=
  if m == "t=plain" then some (.noAuth, true)
  else if m == "t=noauth" then some (.noAuth, false)
  else if m == "t=other" then some (.other, false)
  else if m == "t=otherplain" then some (.other, true)
  else none

/-- `clusterOverride`: for `reqa` the request's own `clusterid` metadata replaces the spec's;
    `mesh`: the mesh config's trust domain at the time of the request, if a `mesh` op set one (else the
    one the spec's authenticator was constructed with); `conn`: a non-TLS connection -/
def evalSpec (toks : List String) (clusterOverride : Option (Option (List String))) (mesh : Option String)
    (conn : Option PeerKind) (carrier : Option (List String) := none) : Option SpecRes :=
  -- `carrier` (reqm with several token-based authenticators): the spec whose token(s) the request's one
  -- `authorization` metadata carries - the last token-based spec of the line
  match toks with
  | ["oidc", tr, td, expected, form, tokkind, sub, audkind, aud, ctor] =>
    -- ctor: j / d = jwks_uri / discovery branch of the constructor (same behaviour); a trailing n = nil mesh holder
    let verdict : OidcTok :=
      if tokkind == "okfloat" then .badClaims   -- fractional `exp`: the verifier accepts it, JwtPayload.Exp (int) does not unmarshal
      else if tokkind != "ok" then .rejected
      else if audkind == "string" then .badClaims
      else .claims (if sub == "absent" then "" else dec sub) (if audkind == "absent" then [] else decList aud)
    -- the verifier accepts (with `verdict`) only the token minted for this line; any other token is rejected
    let verify : String → OidcTok := fun t => if t == "T" then verdict else .rejected
    -- the request carries another spec's token: an OIDC one is judged by THIS authenticator's configuration
    -- (handled by the caller, which substitutes the token fields); a Kubernetes token is no JWT of the issuer
    let (vals, verify) : List String × (String → OidcTok) := match carrier with
      | some ("kube" :: _ :: _ :: _ :: _ :: _ :: _ :: kform :: ktok :: _) => (authValsOf kform (dec ktok), fun _ => .rejected)
      | _ => (authValsOf form "T", verify)
    let holder : Option String := if ctor.endsWith "n" then none else some (mesh.getD (dec td))
    some { res := oidcEntryH repoOidcFixed holder (decList expected) (transportOf tr) vals verify,
           tls := conn.isNone }
  | ["kube", tr, td, primary, aliases, remotes, clusterHdr, form, tok, tokenAud, review] =>
    let f := decFields (dec review)
    let r : Review := { apiErr := fieldAt f 0 == "1", error := fieldAt f 1, authenticated := fieldAt f 2 == "1",
                        groups := decList (fieldAt f 3), username := fieldAt f 4,
                        podName := extraOf (fieldAt f 5), podUID := extraOf (fieldAt f 6) }
    let cfg : KubeCfg := { primary := dec primary, aliases := (decList aliases).map aliasPair,
                           remotes := if remotes == "nil" then none else some (decList remotes) }
    let hdr := match clusterOverride with
      | some o => o
      | none => if clusterHdr == "-" || form == "nomd" then none else some (decList clusterHdr)
    -- the API servers authenticate only this line's token reviewed for the configured audiences
    let api : ReviewCall → Review := fun call =>
      if call.token == dec tok && call.audiences == decList tokenAud then r else { authenticated := false }
    -- the request carries an OIDC spec's token: the API server does not know it
    let vals := match carrier with
      | some ("oidc" :: _ :: _ :: _ :: oform :: _) => authValsOf oform "T"
      | _ => authValsOf form (dec tok)
    let res := kubeAuthenticate (transportOf tr) (mesh.getD (dec td)) cfg hdr vals (decList tokenAud) api
    some { res := res.1, trailer := showCall res.2, tls := conn.isNone }
  | ["xfcc", _tr, cidrs, peerAddr, hdrs, parsed] =>
    let addr := if peerAddr == "nopeer" then "unknown" else dec peerAddr
    let hs := if hdrs == "-" then [] else decList hdrs
    -- `parsed`: what the third-party parser returns for each header value, in order
    let ps := (decList parsed).map (fun p => if p == "err" then none else some ((decList p).map xfccElemOf))
    let parse : String → Option (List XfccElem) := fun v =>
      match (hs.zip ps).find? (fun hp => hp.1 == v) with
      | some hp => hp.2
      | none => none
    some { res := xfccAuthenticate (decList cidrs) addr hs parse, hasPeer := peerAddr != "nopeer", tls := conn.isNone }
  | ["tlscert", _tr, pools, leaf, ints] =>
    match resolvePools ((decList pools).map poolSrcOf) with
    | none => some { rejected := true, bundleErr := true, res := .err }
    | some ps =>
    let peer : Option (PLeaf × List CACert) :=
      if leaf == "nocert" then none
      else
        let f := decFields (dec leaf)
        let sans := (decList (fieldAt f 1)).map (fun e =>
          (((e.take 1).toString), if e.startsWith "I:" then bytesStr (hexBytes ((e.drop 2).toString.toList))
                                  else bytesStr ((e.drop 2).toString.toUTF8.toList.map (·.toNat))))
        let eku : EKU := if fieldAt f 3 == "client" then .client else if fieldAt f 3 == "server" then .server
                         else if fieldAt f 3 == "none" then .none else .both
        some ({ issuer := fieldAt f 0, sans := sans, timeOk := fieldAt f 2 == "ok", eku := eku }, (decList ints).filterMap caCertOf)
    match tlsCertAuthenticate ps peer with
    | none => some { rejected := true, res := .err }
    | some r =>
      match conn with
      | none => some { res := r, bytes := true }
      | some k => some { res := certAuthenticate k [], tls := false, bytes := true }
  | ["cert", _tr, kind, chains] =>
    let k : PeerKind := if kind == "tls" || kind == "tlspeer" then .tls else if kind == "noauth" then .noAuth else if kind == "other" then .other else .noPeer
    -- tlspeer: certificates presented but not verified - VerifiedChains is empty
    let cs := if kind == "tlspeer" then [] else (decList chains).map chainOf
    match conn with
    | none => some { res := certAuthenticate k cs, hasPeer := kind != "nopeer", tls := kind == "tls" || kind == "tlspeer", bytes := true }
    | some k' => some { res := certAuthenticate k' cs, hasPeer := kind != "nopeer", tls := false, bytes := true }
  | _ => none

def showSpecRes (r : SpecRes) : String :=
  if r.bundleErr then "bundle-err" else
  if r.rejected then "reject" else
  match r.res with
  | .ok c =>
    if r.bytes then s!"ok ids={encListBytes c.identities} kube={showKube c.kube}" ++ r.trailer
    else showAuthRes r.res r.trailer
  | _ => showAuthRes r.res r.trailer

def stepAuthn (mesh : Option String) (toks : List String) : String :=
  match evalSpec toks none mesh none with
  | some r => showSpecRes r
  | none => "bad-op"

/-- `reqa <authspec> <csr> <ttl> <imp> <signer> <cluster> <junk> [t=<mode>]` (one REAL authenticator in
    `Server.Authenticators`) and `reqm <authspecs> ...` (several, in order): CreateCertificate over the results. -/
def stepReal (d : DState) (specs : List String) (csr ttl imp signer cluster junk : String) (conn : Option (PeerKind × Bool)) :
    DState × String :=
  match d.ca with
  | none => (d, "no-ca")
  | some ca =>
    if !d.naSet then (d, "no-ca") else
    let clusterIDs := if cluster == "-" then none else some (decList cluster)
    let toks := specs.map words
    let tokenBased := toks.filter (fun t => t.head? == some "kube" || t.head? == some "oidc")
    -- the carrier: the last token-based spec that puts an authorization value into the request at all
    let formOf (t : List String) : String := if t.head? == some "kube" then fieldAt t 7 else fieldAt t 4
    let carrier : Option (List String) :=
      if tokenBased.length ≥ 2 then (tokenBased.filter (fun t => !(authValsOf (formOf t) "t").isEmpty)).getLast? else none
    -- an OIDC authenticator facing the token of ANOTHER OIDC spec: that token's fields, its own configuration
    let view (t : List String) : List String :=
      match t, carrier with
      | ["oidc", tr, td, expected, _, _, _, _, _, ctor], some ("oidc" :: _ :: _ :: _ :: cf :: ck :: cs :: cak :: ca :: _) =>
        ["oidc", tr, td, expected, cf, ck, cs, cak, ca, ctor]
      | _, _ => t
    let rs := toks.filterMap (fun t => evalSpec (view t) (some clusterIDs) d.mesh (conn.map (·.1))
                (if carrier == some t then none else carrier))
    if rs.length != specs.length then (d, "bad-op")
    else if rs.any (·.rejected) then (d, "reject")
    else
      let c : Ctx := { xdsAuth := true, hasPeer := rs.all (·.hasPeer), tls := rs.all (·.tls) && conn.isNone,
                       authPlaintext := (conn.map (·.2)).getD false, clusterIDs := clusterIDs }
      let req : Request := { csr := csrOfFields (decFields (dec csr)), validity := parseInt ttl,
                             impersonated := metaStr imp, certSigner := metaStr signer,
                             otherMeta := (List.range (parseInt junk).toNat).map (fun i => (toString i, "junk")) }
      let srv := Server.new ca d.trusted d.clusters
      let now := d.clock + tick
      ({ d with clock := now }, showIssue srv req (createCertificateFull repoFixes id srv c (rs.map (·.res)) req now))

def stepReqA (d : DState) (toks : List String) : DState × String :=
  match toks with
  | [spec, csr, ttl, imp, signer, cluster, junk] => stepReal d [dec spec] csr ttl imp signer cluster junk none
  | [spec, csr, ttl, imp, signer, cluster, junk, mode] =>
    match modeOf mode with
    | none => (d, "bad-op")
    | some m => stepReal d [dec spec] csr ttl imp signer cluster junk (some m)
  | _ => (d, "bad-op")

def stepReqM (d : DState) (toks : List String) : DState × String :=
  match toks with
  | [specs, csr, ttl, imp, signer, cluster, junk] => stepReal d (decList specs) csr ttl imp signer cluster junk none
  | [specs, csr, ttl, imp, signer, cluster, junk, mode] =>
    match modeOf mode with
    | none => (d, "bad-op")
    | some m => stepReal d (decList specs) csr ttl imp signer cluster junk (some m)
  | _ => (d, "bad-op")

def stepD (d : DState) (toks : List String) : DState × String :=
  match toks with
  | "case" :: _ => ({}, "ok")
  | ["mesh", td] => ({ d with mesh := some (dec td) }, "mesh-ok")
  | "authn" :: rest => (d, stepAuthn d.mesh rest)
  | "reqa" :: rest => stepReqA d rest
  | "reqm" :: rest => stepReqM d rest
  | _ => stepIssue d toks

end IstioModel.C09
