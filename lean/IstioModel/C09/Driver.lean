import IstioModel.Common.Wire
import IstioModel.C09.Model
import IstioModel.C09.Authn

/-! Line-protocol driver for C09 (streams `issue`, `authn`). See harness/c09. -/
namespace IstioModel.C09
open IstioModel.Wire

def sec : Int := 1000000000

/-- fields joined by '|' (each wire-encoded) -/
def decFields (s : String) : List String := (s.splitOn "|").map dec

def fieldAt (l : List String) (i : Nat) : String := (l[i]?).getD ""

def hex2 (n : Nat) : String :=
  let d (k : Nat) : Char := if k < 10 then Char.ofNat (48 + k) else Char.ofNat (87 + k)
  String.ofList [d (n / 16 % 16), d (n % 16)]

def showSan : San → String
  | .uri v => "U:" ++ enc v
  | .dns v => "D:" ++ enc v
  | .ip b => "I:" ++ String.join (b.map hex2)

def ekuOID (n : Nat) : String := "1.3.6.1.5.5.7.3." ++ toString n

def parseInt (s : String) : Int := s.toInt?.getD 0

/-- CSR form token -> the three decoding outcomes (how the harness materialises the forms) -/
def csrOfFields (f : List String) : CSR :=
  let form := fieldAt f 0
  let pemOk := !(form == "nopem" || form == "empty")
  let derOk := form == "ok" || form == "oktype" || form == "oktrail" || form == "oklead" || form == "badsig"
  { pemOk := pemOk, derOk := derOk, sigOk := derOk && form != "badsig",
    pubKey := fieldAt f 1, cn := fieldAt f 2, subject := [fieldAt f 3],
    sans := decList (fieldAt f 4), wantCA := fieldAt f 5 == "1",
    exts := if fieldAt f 6 == "1" then ["private"] else [] }

def outOfFields (f : List String) : AuthOut :=
  let kind := fieldAt f 0
  let c : Caller := { identities := decList (fieldAt f 1),
                      kube := { podName := fieldAt f 2, podNamespace := fieldAt f 3, podUID := fieldAt f 4, podSA := fieldAt f 5 } }
  if kind == "ok" then { caller := some c, err := false }
  else if kind == "both" then { caller := some c, err := true }
  else if kind == "err" then { caller := none, err := true }
  else { caller := none, err := false }

def metaStr (t : String) : String :=
  if t.startsWith "s:" then dec ((t.drop 2).toString) else ""

def podOfFields (f : List String) : Pod :=
  { name := fieldAt f 0, ns := fieldAt f 1, uid := fieldAt f 2, sa := fieldAt f 3, node := fieldAt f 4 }

def trustedOf (t : String) : String × String :=
  match t.splitOn "/" with
  | [ns] => (ns, "")
  | ns :: rest => (ns, "/".intercalate rest)
  | [] => ("", "")

def clustersOf : List String → List (String × List Pod)
  | id :: pods :: rest => (dec id, (decList pods).map (fun p => podOfFields (decFields p))) :: clustersOf rest
  | _ => []

structure DState where
  clock    : Int := 0
  ca       : Option CA := none
  trusted  : List (String × String) := []
  clusters : List (String × List Pod) := []
  naSet    : Bool := false

def showIssue (srv : Server) (req : Request) (r : Resp CertData) : String :=
  match r with
  | .crash => "crash"
  | .err .unauthenticated => "err Unauthenticated"
  | .err .invalidArgument => "err InvalidArgument"
  | .err .internal => "err Internal"
  | .ok chain =>
    match chain with
    | .leaf d :: _ =>
      let t := d.tmpl
      let clamp := srv.ca.bundle.signerNotAfter == some t.notAfter
      let life := if clamp then "clamp" else toString ((t.notAfter - t.notBefore) / sec - 120)
      let le := match srv.ca.bundle.signerNotAfter with
        | some s => decide (t.notAfter ≤ s)
        | none => false
      let san := if t.san.isEmpty then "-" else ",".intercalate (t.san.map showSan)
      s!"ok san={san} cn={enc t.subjectCN} ca={boolTok t.isCA} bc={boolTok t.bcValid} key={boolTok (d.pubKey == req.csr.pubKey)} ku={t.keyUsage} eku={encList (t.extKeyUsage.map ekuOID)} xext={encList t.otherExts} life={life} le={boolTok le} chain={chain.length} mid=1 root={boolTok srv.ca.bundle.hasRoot}"
    | _ => "ok-without-leaf"

def stepIssue (d : DState) (toks : List String) : DState × String :=
  match toks with
  | ["ca", _kind, signer, chain, root, dflt, mx] =>
    let b : Bundle := {
      signerNotAfter := if signer == "none" then none else some (d.clock + parseInt signer * sec),
      chain := (if chain == "-" then [] else chain.splitOn ",").map
        (fun l => { name := "c", notAfter := d.clock + parseInt l * sec }),
      hasRoot := root == "1" }
    match newIstioCA b (parseInt dflt * sec) (parseInt mx * sec) d.clock with
    | none => ({ d with ca := none, clock := d.clock + sec }, "ca-err")
    | some ca => ({ d with ca := some ca, clock := d.clock + sec }, "ca-ok")
  | "na" :: rest =>
    match rest with
    | trusted :: _n :: cl =>
      ({ d with naSet := true, trusted := (decList trusted).map trustedOf, clusters := clustersOf cl }, "na-ok")
    | _ => ({ d with naSet := true, trusted := [], clusters := [] }, "na-ok")
  | ["req", ctx, outs, csr, ttl, imp, signer, cluster, junk] =>
    match d.ca with
    | none => (d, "no-ca")
    | some ca =>
      if !d.naSet then (d, "no-ca") else
      let flags := ctx.toList
      let c : Ctx := { xdsAuth := flags[0]? == some '1', hasPeer := flags[1]? == some '1', tls := flags[2]? == some '1',
                       authPlaintext := flags[3]? == some '1',
                       clusterIDs := if cluster == "-" then none else some (decList cluster) }
      let os := (decList outs).map (fun o => outOfFields (decFields o))
      let req : Request := { csr := csrOfFields (decFields (dec csr)), validity := parseInt ttl,
                             impersonated := metaStr imp, certSigner := metaStr signer,
                             otherMeta := (List.range (parseInt junk).toNat).map (fun i => (toString i, "junk")) }
      let srv := Server.new ca d.trusted d.clusters
      let now := d.clock + sec
      ({ d with clock := now }, showIssue srv req (createCertificate repoGuard id srv c os req now))
  | _ => (d, "bad-op")

/-! ### stream `authn` -/

def showKube (k : KubeInfo) : String :=
  enc ("|".intercalate ([k.podName, k.podNamespace, k.podUID, k.podSA].map enc))

def showClient : Option Client → String
  | none => ""
  | some .primary => " via=primary"
  | some (.remote id) => " via=" ++ enc ("remote:" ++ id)

def showAuthRes (r : AuthRes) (via : Option Client) : String :=
  match r with
  | .crash => "crash"
  | .nil => "nil"
  | .err => "err" ++ showClient via
  | .ok c => s!"ok ids={encList c.identities} kube={showKube c.kube}" ++ showClient via

def extraOf (t : String) : Option (List String) :=
  if t.startsWith "=" then (if t == "=" then some [] else some (decList ((t.drop 1).toString))) else none

def aliasPair (s : String) : String × String :=
  match s.splitOn "=" with
  | [k] => (k, "")
  | k :: rest => (k, "=".intercalate rest)
  | [] => ("", "")

def hexNib (c : Char) : Nat := (hexVal c).getD 0

def hexBytes : List Char → List Nat
  | a :: b :: rest => (hexNib a * 16 + hexNib b) :: hexBytes rest
  | _ => []

def sanValue (e : String) : String :=
  if e.startsWith "I:" then String.ofList ((hexBytes ((e.drop 2).toString.toList)).map Char.ofNat)
  else (e.drop 2).toString

def certOf (spec : String) : CertSAN :=
  if spec == "nosan" then .noSan
  else if spec == "bad" then .bad
  else if spec.startsWith "san:" then .san ((decList ((spec.drop 4).toString)).map sanValue)
  else .bad

def chainOf (s : String) : List CertSAN :=
  if s.isEmpty then [] else (s.splitOn "|").map (fun c => certOf (dec c))

def xfccElemOf (s : String) : XfccElem :=
  let f := decFields s
  { uris := decList (fieldAt f 0), dns := decList (fieldAt f 1),
    subject := if fieldAt f 2 == "1" then some (fieldAt f 3) else none }

def stepAuthn (toks : List String) : String :=
  match toks with
  | ["oidc", td, expected, tokkind, sub, audkind, aud] =>
    let tok : OidcTok :=
      if tokkind == "nohdr" then .noHeader
      else if tokkind != "ok" then .rejected
      else if audkind == "string" then .badClaims
      else .claims (if sub == "absent" then "" else dec sub) (if audkind == "absent" then [] else decList aud)
    showAuthRes (oidcAuthenticate repoOidcFixed (dec td) (decList expected) tok) none
  | ["kube", td, primary, aliases, remotes, clusterHdr, tokHdr, review] =>
    let f := decFields (dec review)
    let r : Review := { apiErr := fieldAt f 0 == "1", error := fieldAt f 1, authenticated := fieldAt f 2 == "1",
                        groups := decList (fieldAt f 3), username := fieldAt f 4,
                        podName := extraOf (fieldAt f 5), podUID := extraOf (fieldAt f 6) }
    let cfg : KubeCfg := { primary := dec primary, aliases := (decList aliases).map aliasPair,
                           remotes := if remotes == "nil" then none else some (decList remotes) }
    let hdr := if clusterHdr == "-" then none else some (decList clusterHdr)
    let res := kubeAuthenticate (dec td) cfg hdr (tokHdr == "bearer") r
    showAuthRes res.1 res.2
  | ["xfcc", cidrs, peerAddr, hdrs, parsed] =>
    let addr := if peerAddr == "nopeer" then "unknown" else dec peerAddr
    let hs := if hdrs == "-" then [] else decList hdrs
    let p := if parsed == "err" then none else some ((decList parsed).map xfccElemOf)
    showAuthRes (xfccAuthenticate (decList cidrs) addr hs p) none
  | ["cert", kind, chains] =>
    let k : PeerKind := if kind == "tls" then .tls else if kind == "noauth" then .noAuth else if kind == "other" then .other else .noPeer
    showAuthRes (certAuthenticate k ((decList chains).map chainOf)) none
  | _ => "bad-op"

def stepD (d : DState) (toks : List String) : DState × String :=
  match toks with
  | "case" :: _ => ({}, "ok")
  | "authn" :: rest => (d, stepAuthn rest)
  | _ => stepIssue d toks

end IstioModel.C09
